package c03

import (
	"encoding/json"
	"fmt"
	"os"
	"strings"
	"testing"

	"pgregory.net/rapid"

	"verifh/internal/evid"
)

func TestMain(m *testing.M) { evid.Main("C03", m) }

// dryRun executes the history without faults and returns the number of fault points passed.
func dryRun(c *Case) (int, error) {
	e := newEnv(c, nil)
	if err := e.setup(); err != nil {
		return 0, err
	}
	for i := range c.Steps {
		e.cur = i
		e.step(i)
	}
	return e.probes + e.gohits, nil
}

func staticFeatures(src string) (try, other bool) {
	try = strings.Contains(src, "try {")
	other = strings.Contains(src, " of ") || strings.Contains(src, "function*") || strings.Contains(src, "host(") || strings.Contains(src, "*[Symbol.iterator]")
	return
}

func record(c *Case, st *stats) {
	nontrivial := false
	for _, fi := range st.fired {
		live := fi.Iter > 0 || fi.GoToScr > 0 || c.Sites[fi.Site]&siteGen != 0
		if fi.ScriptTry > 0 && live {
			nontrivial = true
		}
		evid.Count("fired:" + fi.Kind)
		if fi.ScriptTry > 0 {
			evid.Count("fired-in:try")
		}
		if fi.Iter > 0 {
			evid.Count("fired-in:iter")
		}
		if fi.GoToScr > 0 {
			evid.Count("fired-in:go->script")
		}
		if c.Sites[fi.Site]&siteGen != 0 {
			evid.Count("fired-in:generator/async")
		}
		if c.Sites[fi.Site]&siteCb != 0 {
			evid.Count("fired-in:builtin-callback")
		}
		if c.Sites[fi.Site]&siteGo != 0 {
			evid.Count("fired-in:go-callback")
		}
	}
	for i, k := range st.outcomes {
		evid.Count("outcome:" + k)
		evid.Count("api:" + c.Steps[i].API)
		if k == "stackoverflow" {
			// no probe samples the state at the overflow: use the program text of the step
			t, o := staticFeatures(c.Steps[i].Src)
			if t && o {
				nontrivial = true
			}
		}
	}
	if len(st.fired) == 0 {
		evid.Count("fired:none")
	}
	evid.Count(fmt.Sprintf("steps:%d", len(c.Steps)))
	if c.Limit >= 0 {
		evid.Count("limit:set")
	}
	b, _ := json.Marshal(c)
	evid.Case(string(b), nontrivial)
	cls := "plain"
	if len(st.fired) > 0 {
		cls = "fault:" + st.fired[0].Kind
	} else if c.Limit >= 0 {
		cls = "limit"
	}
	evid.Sample(cls, c)
}

func genFaults(t *rapid.T, c *Case) {
	total, err := dryRun(c)
	if err != nil || total == 0 {
		total = 1
	}
	nf := rapid.IntRange(0, 9).Draw(t, "nfaults")
	switch {
	case nf == 0:
		return
	case nf <= 7:
		nf = 1
	default:
		nf = 2
	}
	used := map[int]bool{}
	for i := 0; i < nf; i++ {
		k := rapid.IntRange(1, total).Draw(t, "k")
		if used[k] {
			continue
		}
		used[k] = true
		c.Faults = append(c.Faults, Fault{K: k, Kind: rapid.SampledFrom(faultKinds).Draw(t, "fkind")})
	}
}

func TestQuickHistory(t *testing.T) {
	evid.Check(t, "history", 5000, 2, func(t *rapid.T) {
		c := genCase(t)
		genFaults(t, c)
		f, st := judge(c)
		record(c, st)
		evid.Judge(t, f)
	})
}

// TestQuickSweep: for one base history the fault position is swept over every probe of the
// unfaulted run (capped) for one fault kind.
func TestQuickSweep(t *testing.T) {
	evid.Check(t, "sweep", 240, 1.5, func(t *rapid.T) {
		c := genCase(t)
		total, err := dryRun(c)
		if err != nil {
			total = 0
		}
		kind := rapid.SampledFrom(faultKinds).Draw(t, "fkind")
		if total > 40 {
			total = 40
		}
		if total == 0 {
			f, st := judge(c)
			record(c, st)
			evid.Judge(t, f)
			return
		}
		for k := 1; k <= total; k++ {
			cc := *c
			cc.Faults = []Fault{{K: k, Kind: kind}}
			f, st := judge(&cc)
			record(&cc, st)
			if f != nil {
				f.Check = "sweep"
			}
			evid.Judge(t, f)
		}
	})
}

// TestQuickRegress replays the kept regression inputs (minimised forms of the defects found earlier).
func TestQuickRegress(t *testing.T) {
	dir := evid.VerifDir() + "/replay/C03/keep"
	ents, _ := os.ReadDir(dir)
	for _, e := range ents {
		if !strings.HasSuffix(e.Name(), ".json") {
			continue
		}
		_, raw, err := evid.LoadReplay(dir + "/" + e.Name())
		if err != nil {
			t.Fatalf("%s: %v", e.Name(), err)
		}
		var c Case
		if err := json.Unmarshal(raw, &c); err != nil {
			t.Fatalf("%s: %v", e.Name(), err)
		}
		f, st := judge(&c)
		if st.harness {
			t.Fatalf("%s: harness error: %v", e.Name(), f)
		}
		record(&c, st)
		evid.Count("regress")
		evid.Direct(t, f)
	}
}

func TestReplay(t *testing.T) {
	p := os.Getenv("VERIF_REPLAY")
	if p == "" {
		t.Skip("no VERIF_REPLAY")
	}
	_, raw, err := evid.LoadReplay(p)
	if err != nil {
		t.Fatal(err)
	}
	var c Case
	if err := json.Unmarshal(raw, &c); err != nil {
		t.Fatal(err)
	}
	f, st := judge(&c)
	t.Logf("outcomes %v probes %d fired %+v", st.outcomes, st.probes, st.fired)
	if f != nil {
		t.Logf("%s [%s]: %s", f.Check, f.Key, f.Msg)
	}
	evid.Direct(t, f)
}
