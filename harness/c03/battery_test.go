package c03

import (
	"fmt"
	"strings"

	"github.com/dop251/goja"
)

// The fixed behavioural battery. Every item is run on the used runtime and on the twin
// and must give the same observation. Nothing here depends on the history except through
// the host store.
const batteryJS = `
var BAT = {
	nop() {},
	stack: function bstack() { return new Error().stack; },
	stack2: function bstack2() { return BAT.stack() + "#" + cap(); },
	StackCtor: function BStackCtor() { this.v = new Error().stack + "#" + cap(); },
	stackObj: { get acc() { return new Error().stack + "#" + cap(); }, toString() { return new Error().stack; } },
	stackIter: { [Symbol.iterator]() { var i = 0; return {
		next() { return i++ < 3 ? {value: new Error().stack, done: false} : {done: true, value: undefined}; },
		return() { out("siter:return:" + cap()); return {}; } }; } },
	gen() {
		var L = [];
		function* g() { try { var x = yield 1; L.push("x" + x); yield x + 1; L.push("not"); } finally { L.push("f"); } }
		var it = g();
		L.push(JSON.stringify(it.next())); L.push(JSON.stringify(it.next(5))); L.push(JSON.stringify(it.return(9))); L.push(JSON.stringify(it.next()));
		var it2 = g(); it2.next();
		try { it2.throw(new Error("gx")); } catch (e) { L.push("c:" + e.message); }
		L.push([...(function*() { yield* [1, 2]; yield new Error().stack.split("\n").length; })()].join("/"));
		return L.join();
	},
	forof() {
		var L = [];
		var src = {[Symbol.iterator]() { var i = 0; return {
			next() { L.push("n" + i); return {value: i++, done: false}; },
			return() { L.push("r"); return {}; } }; }};
		for (var x of src) { if (x == 2) break; }
		try { for (var y of src) { throw new Error("b"); } } catch (e) { L.push("c"); }
		var [p, q] = src; L.push(p + q);
		L1: for (var z of src) { for (var w of src) { if (w == 1) continue L1; if (z == 1) break L1; } }
		return L.join();
	},
	tryfin() {
		var L = [];
		function f() { try { L.push("t"); return "r1"; } finally { L.push("f"); } }
		function g() { try { throw new Error("x"); } catch (e) { L.push("c"); return "r2"; } finally { L.push("f2"); } }
		function h() { for (var i = 0; i < 3; i++) { try { if (i == 1) continue; if (i == 2) break; L.push("b" + i); } finally { L.push("f" + i); } } return "r3"; }
		function k() { try { try { throw 1; } finally { L.push("in"); } } catch (e) { L.push("out" + e); } return "r4"; }
		function m() { try { return "a"; } finally { try { throw 2; } catch (e) { L.push("sw" + e); } } }
		return [f(), g(), h(), k(), m()].join() + ":" + L.join();
	},
	promise() {
		out("p:start");
		Promise.resolve(1).then(v => { out("p:1:" + v); return v + 1; }).then(v => { out("p:2:" + v); throw new Error("pe"); })
			.catch(e => { out("p:c:" + e.message); }).finally(() => { out("p:f:" + cap()); });
		(async function basync() {
			out("a:0");
			var v = await 5;
			out("a:1:" + v + ":" + new Error().stack);
			try { await Promise.reject(new Error("ar")); } catch (e) { out("a:c:" + e.message); } finally { out("a:f"); }
			return 7;
		})().then(v => out("a:r:" + v));
		Promise.all([1, {then(r) { r(2); }}]).then(v => out("p:all:" + v));
		return "started";
	},
	rec(n) { return n <= 0 ? 0 : 1 + BAT.rec(n - 1); },
	scope() {
		var L = [];
		var fs = []; for (let i = 0; i < 3; i++) { fs.push(() => i); } L.push(fs.map(f => f()).join(""));
		(function() { eval("var ev = 4"); L.push(typeof ev + ev); })();
		L.push(typeof ev0);
		var o = {x: 1}; with (o) { x = x + 1; var w = x; } L.push(o.x + ":" + w);
		class C { #p = 3; static q(o) { return #p in o; } get p() { return this.#p; } }
		L.push(new C().p + ":" + C.q({}) + ":" + C.q(new C()));
		try { undeclared0 += 1; } catch (e) { L.push(e.name); }
		L.push(String(this === BAT));
		L.push(typeof a + typeof b + typeof c + typeof x + typeof e + typeof g);
		return L.join();
	},
	globals() { return Object.getOwnPropertyNames(globalThis).sort().join(); },
	store() { var L = []; for (var i = 0; i < 5; i++) { var v = get("k" + i); L.push(typeof v + ":" + v); } return L.join(); },
};
`

var batteryPrg = goja.MustCompile("bat.js", batteryJS, false)

var (
	batRun1 = goja.MustCompile("batrun1.js", `new Error().stack + "#" + cap()`, false)
	batRun2 = goja.MustCompile("batrun2.js", `(function q() { return new Error().stack + "#" + cap(); })()`, false)
	batRun3 = goja.MustCompile("batrun3.js", `{ let z = 1; var r3 = (() => z)() + typeof a + typeof b + typeof c + typeof x + typeof i0; } r3 + ":" + typeof z + ":" + this.hasOwnProperty("r3")`, false)
	batRun4 = goja.MustCompile("batrun4.js", `"use strict"; (function() { return typeof this + ":" + (function() { try { undeclared1 = 1; } catch (e) { return e.name; } })(); })()`, true)
)

type batItem struct {
	name string
	run  func(e *env) string
}

func (e *env) batCall(name string, args ...goja.Value) outcome {
	return e.protect(func() (goja.Value, error) {
		fn, ok := goja.AssertFunction(e.bat.Get(name))
		if !ok {
			return nil, fmt.Errorf("harness: BAT.%s is not a function", name)
		}
		return fn(e.bat, args...)
	})
}

func batteryItems() []batItem {
	str := func(o outcome) string { return o.String() }
	return []batItem{
		{"stack:call", func(e *env) string { return str(e.batCall("stack2")) }},
		{"stack:run", func(e *env) string {
			return str(e.protect(func() (goja.Value, error) { return e.vm.RunProgram(batRun1) }))
		}},
		{"stack:get", func(e *env) string {
			return str(e.protect(func() (goja.Value, error) {
				var v goja.Value
				if ex := e.vm.Try(func() { v = e.bat.Get("stackObj").ToObject(e.vm).Get("acc") }); ex != nil {
					return nil, ex
				}
				return v, nil
			}))
		}},
		{"stack:new", func(e *env) string {
			return str(e.protect(func() (goja.Value, error) {
				ct, _ := goja.AssertConstructor(e.bat.Get("StackCtor"))
				o, err := ct(nil)
				if err != nil {
					return nil, err
				}
				return o.Get("v"), nil
			}))
		}},
		{"stack:exp", func(e *env) string {
			return str(e.protect(func() (goja.Value, error) {
				var f func() (string, error)
				if err := e.vm.ExportTo(e.bat.Get("stack"), &f); err != nil {
					return nil, err
				}
				s, err := f()
				return e.vm.ToValue(s), err
			}))
		}},
		{"stack:forof", func(e *env) string {
			return str(e.protect(func() (goja.Value, error) {
				var sb strings.Builder
				n := 0
				if ex := e.vm.Try(func() {
					e.vm.ForOf(e.bat.Get("stackIter"), func(v goja.Value) bool {
						sb.WriteString(v.String())
						n++
						return n < 2
					})
				}); ex != nil {
					return nil, ex
				}
				return e.vm.ToValue(sb.String()), nil
			}))
		}},
		{"stack:newrt", func(e *env) string {
			return str(e.protect(func() (goja.Value, error) {
				o, err := e.vm.New(e.bat.Get("StackCtor"))
				if err != nil {
					return nil, err
				}
				return o.Get("v"), nil
			}))
		}},
		{"stack:string", func(e *env) string {
			return str(e.protect(func() (goja.Value, error) {
				var s string
				if ex := e.vm.Try(func() { s = e.bat.Get("stackObj").String() }); ex != nil {
					return nil, ex
				}
				return e.vm.ToValue(s), nil
			}))
		}},
		{"stack:run2", func(e *env) string {
			return str(e.protect(func() (goja.Value, error) { return e.vm.RunProgram(batRun2) }))
		}},
		{"gen", func(e *env) string { return str(e.batCall("gen")) }},
		{"forof", func(e *env) string { return str(e.batCall("forof")) }},
		{"tryfin", func(e *env) string { return str(e.batCall("tryfin")) }},
		{"promise", func(e *env) string { return str(e.batCall("promise")) }},
		{"scope", func(e *env) string { return str(e.batCall("scope")) }},
		{"run3", func(e *env) string {
			return str(e.protect(func() (goja.Value, error) { return e.vm.RunProgram(batRun3) }))
		}},
		{"run4", func(e *env) string {
			return str(e.protect(func() (goja.Value, error) { return e.vm.RunProgram(batRun4) }))
		}},
		{"globals", func(e *env) string { return str(e.batCall("globals")) }},
		{"store", func(e *env) string { return str(e.batCall("store")) }},
	}
}

const nBattery = 18

// recProbe calls BAT.rec(n) around the configured call-depth limit and reports which depths
// succeed.
func (e *env) recProbe() string {
	var sb strings.Builder
	L := e.c.Limit
	if L < 0 {
		return e.batCall("rec", e.vm.ToValue(150)).String()
	}
	for n := L - 3; n <= L+1; n++ {
		if n < 0 {
			continue
		}
		fmt.Fprintf(&sb, "%d:%s;", n, e.batCall("rec", e.vm.ToValue(n)))
	}
	return sb.String()
}

// battery runs all items (rotated by first) and returns name -> observation, in order.
func (e *env) battery(first int) (names, obs []string) {
	items := batteryItems()
	k := len(items) + 1 // + the recursion probe
	for j := 0; j < k; j++ {
		i := (j + first) % k
		e.out = e.out[:0]
		var name, o string
		if i == len(items) {
			name, o = "rec", e.recProbe()
		} else {
			name = items[i].name
			e.vm.SetMaxCallStackSize(1000)
			o = items[i].run(e)
			if e.c.Limit >= 0 {
				e.vm.SetMaxCallStackSize(e.c.Limit)
			} else {
				e.vm.SetMaxCallStackSize(1 << 30)
			}
		}
		names = append(names, name)
		obs = append(obs, o+" out="+strings.Join(e.out, "|"))
	}
	return
}
