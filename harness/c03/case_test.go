package c03

import (
	"fmt"
	"strings"

	"github.com/dop251/goja"
)

// Fault is one injected fault: it fires when the global probe counter reaches K.
//
//	jsthrow   probe() returns true and the script helper P throws new Error("jsfault@<site>")
//	gopanic   the Go function panics with a Value (the documented way to throw from Go)
//	goerr     the Go function returns a Go error (wrapped by the engine into a GoError)
//	interrupt the Go function calls Runtime.Interrupt("I<K>") and returns normally
type Fault struct {
	K    int    `json:"k"`
	Kind string `json:"kind"`
}

// Op is one API call: a step of the history (issued by the host while no script
// runs) or a host operation (issued by the native function host(j, arg) while a
// script runs: the re-entrant calls).
type Op struct {
	// API: run runstr call new newrt exp expn forof get string inst set
	// (forof/get/string/inst are wrapped in Runtime.Try when issued as a history step,
	// as the documentation of ForOf and Try requires).
	API string `json:"api"`
	// Src is the program text (run, runstr) or the expression that builds the target
	// of the call (evaluated once, before the history, by the set-up phase).
	Src string `json:"src"`
	// Mode: forof: all | break | panic | call ; host ops: "" (propagate) | swallow
	Mode string `json:"mode,omitempty"`
	N    int    `json:"n,omitempty"`   // forof: position of the break / panic
	Sub  int    `json:"sub,omitempty"` // forof mode call: host op invoked by every step (index)
	Arg  int    `json:"arg,omitempty"`
	// Swallow (host ops only): the native function does not propagate the error of the
	// nested call, it returns a description of it instead.
	Swallow bool `json:"swallow,omitempty"`
}

// Case is one history.
type Case struct {
	Steps  []Op    `json:"steps"`
	Host   []Op    `json:"host"`
	Faults []Fault `json:"faults"`
	// Limit is the argument of SetMaxCallStackSize (set after the set-up phase); -1 = not called.
	Limit int `json:"limit"`
	// Clear: the host calls ClearInterrupt() after a step during which it issued an interrupt.
	Clear bool `json:"clear"`
	// First rotates the order of the behavioural battery, so that the first call after
	// the history goes through a different API.
	First int `json:"first"`
	// Sites: static context flags of every probe site (evidence only).
	Sites []int `json:"sites,omitempty"`

	comp *compiled // cache: the compiled texts (a Program is independent of the runtime it runs on)
}

type compiled struct {
	host, steps []*goja.Program
}

const (
	siteTry  = 1 << iota // lexically inside a try block / catch / finally
	siteIter             // inside a for-of body or an iterator method
	siteGen              // inside a generator or async function body
	siteCb               // inside a callback handed to a built-in
	siteGo               // a Go callback (G / GI), not a script probe
)

func (c *Case) text() string {
	var sb strings.Builder
	fmt.Fprintf(&sb, "limit=%d clear=%v first=%d faults=%v\n", c.Limit, c.Clear, c.First, c.Faults)
	for i, o := range c.Host {
		fmt.Fprintf(&sb, "host %d %s %s %v: %s\n", i, o.API, o.Mode, o.Swallow, o.Src)
	}
	for i, o := range c.Steps {
		fmt.Fprintf(&sb, "step %d %s %s n=%d sub=%d arg=%d: %s\n", i, o.API, o.Mode, o.N, o.Sub, o.Arg, o.Src)
	}
	return sb.String()
}

// draining reports whether the API, issued while no script runs, is one that runs the
// pending promise jobs before it returns (RunProgram, Callable, Constructor and funcs
// made by ExportTo do; Try, Object.Get/Set, ForOf and the value conversions do not).
func draining(api string) bool {
	switch api {
	case "run", "runstr", "call", "new", "exp", "expn":
		return true
	}
	return false
}
