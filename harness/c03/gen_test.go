package c03

import (
	"fmt"
	"strings"

	"pgregory.net/rapid"
)

// The generator prints JavaScript directly. Every program keeps its mutable state in
// function-local bindings (a, b, c) and in the host-owned store (put/get/log): it declares
// no global, never assigns to an undeclared name and never mutates a built-in, so that
// "the completed effects" of a history are exactly the host-store writes it performed.

type gctx struct {
	t      *rapid.T
	c      *Case
	tag    string
	nhost  int // host ops with index < nhost may be called
	limit  int
	budget *int
	depth  int
	// lexical context
	fn, loop, gen, async, strict, top, catch bool
	flags                                    int
}

func (g gctx) pick(label string, n int) int {
	return rapid.IntRange(0, n-1).Draw(g.t, label)
}

func (g gctx) site() int {
	g.c.Sites = append(g.c.Sites, g.flags)
	return len(g.c.Sites) - 1
}

func (g gctx) gosite() int {
	g.c.Sites = append(g.c.Sites, g.flags|siteGo)
	return len(g.c.Sites) - 1
}

func (g gctx) P() string { return fmt.Sprintf("P(%d)", g.site()) }

func (g gctx) lit() string { return fmt.Sprint(g.pick("lit", 6)) }

func (g gctx) key() string { return fmt.Sprintf("\"k%d\"", g.pick("key", 5)) }

func (g gctx) expr() string {
	switch g.pick("expr", 12) {
	case 0, 1:
		return g.lit()
	case 2:
		return "a"
	case 3:
		return "b"
	case 4:
		return "get(" + g.key() + ")"
	case 5:
		return "(a + " + g.lit() + ")"
	case 6:
		return "(" + g.P() + ", b)"
	case 7:
		return "c"
	case 8:
		return "(b * 2)"
	case 9:
		if g.gen {
			return "(yield " + g.lit() + ")"
		}
		if g.async {
			return "(await " + g.lit() + ")"
		}
		return "(a - b)"
	case 10:
		return "(c + \"y\").length"
	}
	return "(typeof a)"
}

func (g gctx) cond() string {
	switch g.pick("cond", 8) {
	case 0:
		return "a < 2"
	case 1:
		return "b > 1"
	case 2:
		return "get(" + g.key() + ") === undefined"
	case 3:
		return "true"
	case 4:
		return "false"
	case 5:
		return "(" + g.P() + ", a % 2 === 0)"
	case 6:
		return "a !== b"
	}
	return "i0 === 1"
}

func (g gctx) nested() gctx {
	g.depth++
	return g
}

// inner returns the context for the body of a nested ordinary function / arrow.
func (g gctx) inner(extra int) gctx {
	g.depth++
	g.fn, g.loop, g.gen, g.async, g.top, g.catch = true, false, false, false, false, false
	g.flags = extra // lexical try/iter context does not extend into a nested function
	return g
}

func (g gctx) stmts(max int) string {
	n := 1 + g.pick("nstmt", max)
	var sb strings.Builder
	for i := 0; i < n; i++ {
		sb.WriteString(g.stmt())
		sb.WriteByte(' ')
	}
	return sb.String()
}

func (g gctx) simple() string {
	switch g.pick("simple", 9) {
	case 0, 1, 2:
		return g.P() + ";"
	case 3:
		return "put(" + g.key() + ", " + g.expr() + ");"
	case 4:
		return "log(\"" + g.tag + ":\" + " + g.expr() + ");"
	case 5:
		return "a = " + g.expr() + ";"
	case 6:
		return "b = b + 1;"
	case 7:
		return "c = c + \"z\";"
	}
	return "put(" + g.key() + ", a);"
}

// body of a callback handed to a built-in: statements and then "return <ret>".
func (g gctx) cbBody(ret string) string {
	in := g.inner(siteCb)
	s := in.P() + "; "
	if in.depth < 4 && *g.budget > 0 && g.pick("cbdeep", 3) == 0 {
		s += in.stmts(2)
	}
	return "{ " + s + "return " + ret + "; }"
}

// trapBody is the body of a function written at target-expression level (no enclosing locals).
func (g gctx) trapBody(ret string) string {
	return "{ " + g.inner(siteCb).funcBody() + "return " + ret + "; }"
}

func (g gctx) callback(params, ret string) string {
	switch g.pick("cbkind", 6) {
	case 0:
		return fmt.Sprintf("G(%d)", g.gosite())
	case 1:
		return "function(" + params + ") " + g.cbBody(ret)
	}
	return "(" + params + ") => " + g.cbBody(ret)
}

func (g gctx) iterable() string {
	switch g.pick("iterable", 9) {
	case 0:
		return "[1, 2, 3]"
	case 1:
		return "[a, b]"
	case 2, 3:
		in := g
		in.flags |= siteIter
		return fmt.Sprintf("IT(%d, %d, %d, %d)", in.site(), in.site(), 1+g.pick("itn", 3), g.pick("itf", 8))
	case 4, 5:
		return "(" + g.genFunc() + ")()"
	case 6:
		return "new Set([1, 2])"
	case 7:
		return fmt.Sprintf("GI(%d, %d)", g.gosite(), 1+g.pick("gin", 3))
	}
	return "\"ab\""
}

func (g gctx) genFunc() string {
	in := g.inner(siteGen)
	in.gen = true
	if g.pick("genshape", 3) == 0 {
		// suspended inside a try block: a throw() from the driver is caught by the body, which goes on to a fault point
		return "function*() { try { " + in.P() + "; yield 1; " + in.stmts(1) + "} catch (e) { " + in.P() + "; " + in.stmts(2) + "} finally { " + in.P() + "; } " + in.stmts(1) + "}"
	}
	return "function*() { " + in.stmts(4) + "}"
}

func (g gctx) asyncFunc() string {
	in := g.inner(siteGen)
	in.async = true
	if g.pick("asyncshape", 3) == 0 {
		// resumed by a rejected await inside a try block whose catch goes on to a fault point
		return "async function() { try { " + in.P() + "; await Promise.reject(new Error(\"rej\")); } catch (e) { " + in.P() + "; " + in.stmts(2) + "} finally { " + in.P() + "; } " + in.stmts(1) + "}"
	}
	if g.pick("asyncarrow", 2) == 0 {
		return "async () => { " + in.stmts(4) + "}"
	}
	return "async function() { " + in.stmts(4) + "}"
}

func (g gctx) stmt() string {
	*g.budget--
	if g.depth >= 5 || *g.budget <= 0 {
		return g.simple()
	}
	switch g.pick("stmt", 40) {
	case 0, 1, 2, 3, 4, 5:
		return g.simple()
	case 6:
		return "if (" + g.cond() + ") { " + g.nested().stmts(2) + "} else { " + g.nested().stmts(2) + "}"
	case 7:
		in := g.nested()
		in.loop = true
		v := fmt.Sprintf("i%d", g.depth)
		return fmt.Sprintf("for (let %s = 0; %s < %d; %s++) { %s}", v, v, 1+g.pick("forn", 3), v, in.stmts(3))
	case 8:
		in := g.nested()
		in.loop = true
		v := fmt.Sprintf("w%d", g.depth)
		return fmt.Sprintf("{ let %s = 0; while (%s < %d) { %s++; %s} }", v, v, 1+g.pick("whn", 3), v, in.stmts(3))
	case 9, 10, 11, 12:
		return g.tryStmt()
	case 13:
		if g.pick("guard", 3) > 0 {
			return "if (" + g.cond() + ") throw new Error(\"t" + g.lit() + "\");"
		}
		return "throw " + []string{"new Error(\"u\")", "7", "\"str\"", "null", "new TypeError(\"ty\")"}[g.pick("thrown", 5)] + ";"
	case 14:
		if g.catch {
			return "throw e;"
		}
		if g.fn && !g.top {
			return "if (" + g.cond() + ") return " + g.expr() + ";"
		}
		return g.simple()
	case 15:
		if g.loop {
			return "if (" + g.cond() + ") " + []string{"break", "continue"}[g.pick("brk", 2)] + ";"
		}
		return g.simple()
	case 16, 17, 18:
		in := g.nested()
		in.loop = true
		in.flags |= siteIter
		decl := []string{"const x", "let x", "const [x]", "var x"}[g.pick("ofdecl", 4)]
		if g.top && decl == "var x" {
			decl = "let x"
		}
		it := g.iterable()
		if strings.HasPrefix(decl, "const [") {
			it = "[[1], [2]]"
		}
		return "for (" + decl + " of " + it + ") { " + in.stmts(3) + "}"
	case 19, 20, 21:
		return g.builtinCb()
	case 22, 23:
		return g.genDrive()
	case 24, 25, 26:
		return g.promiseStmt()
	case 27:
		return g.classStmt()
	case 28, 29:
		return g.recStmt()
	case 30, 31:
		if g.nhost > 0 {
			// hostw is the same re-entrant call made by a Go function with an error result that returns an interrupt /
			// stack overflow of the nested call wrapped in another error (fmt.Errorf("...: %w", err))
			return fmt.Sprintf("a = %s(%d, %s);", []string{"host", "host", "hostw"}[g.pick("hostfn", 3)], g.pick("hostj", g.nhost), g.expr())
		}
		return g.simple()
	case 32:
		return g.dynScope()
	case 33:
		in := g.nested()
		l := fmt.Sprintf("L%d", g.depth)
		return l + ": { try { " + in.stmts(2) + "if (" + g.cond() + ") break " + l + "; " + in.stmts(1) + "} finally { " + in.simple() + " } }"
	case 34:
		switch g.pick("keep", 3) {
		case 0:
			return "keep((" + g.genFunc() + ")());"
		case 1:
			return "keep(() => { " + g.inner(0).stmts(2) + "});"
		}
		return "keep((" + g.asyncFunc() + ")());"
	case 35:
		in := g.inner(0)
		if g.pick("iife", 2) == 0 {
			return "a = (function(p) { " + in.stmts(3) + "return p; })(" + g.expr() + ");"
		}
		return "a = ((p) => { " + in.stmts(3) + "return p; })(" + g.expr() + ");"
	case 36:
		switch g.pick("destr", 3) {
		case 0:
			return "{ const [p, q = " + g.expr() + "] = " + g.iterable() + "; a = p; }"
		case 1:
			return "{ const {x: p = (" + g.P() + ", 1), y: [q] = [2]} = {get x() " + g.cbBody("undefined") + "}; a = p + q; }"
		}
		return "a = [...(" + g.iterable() + ")].length;"
	case 37:
		if g.gen {
			switch g.pick("yieldk", 3) {
			case 0:
				return "a = yield " + g.expr() + ";"
			case 1:
				return "yield* " + g.iterable() + ";"
			}
			return "yield " + g.expr() + ";"
		}
		if g.async {
			return g.awaitStmt()
		}
		return g.simple()
	case 38:
		if g.gen {
			return "a = yield " + g.expr() + ";"
		}
		if g.async {
			return g.awaitStmt()
		}
		return g.simple()
	}
	return g.simple()
}

func (g gctx) awaitStmt() string {
	switch g.pick("awaitk", 5) {
	case 0:
		return "a = await " + g.expr() + ";"
	case 1:
		return "a = await Promise.resolve(" + g.expr() + ");"
	case 2:
		return "await Promise.reject(new Error(\"rej\"));"
	case 3:
		return "a = await {then(res, rej) " + g.cbBody("res(" + g.lit() + ")") + "};"
	}
	return "a = await (" + g.asyncFunc() + ")();"
}

func (g gctx) tryStmt() string {
	tb := g.nested()
	tb.flags |= siteTry
	cb := tb
	cb.catch = true
	body := "try { " + tb.stmts(3) + "} "
	catch := ""
	switch g.pick("catchk", 4) {
	case 0:
		catch = "catch (e) { log(\"" + g.tag + ":c:\" + D(e)); " + cb.stmts(2) + "} "
	case 1:
		catch = "catch (e) { put(" + g.key() + ", D(e)); } "
	case 2:
		nb := tb
		catch = "catch { " + nb.stmts(2) + "} "
	case 3:
		nb := tb
		catch = "catch ({message}) { log(\"" + g.tag + ":m:\" + message); " + nb.stmts(1) + "} "
	}
	fin := "finally { " + tb.stmts(2) + "} "
	switch g.pick("tryshape", 4) {
	case 0:
		return body + catch
	case 1:
		return body + fin
	}
	return body + catch + fin
}

func (g gctx) builtinCb() string {
	switch g.pick("builtin", 25) {
	case 22:
		return "{ const go = GO(" + fmt.Sprint(g.gosite()) + "); " + []string{"a = go.x;", "go.x = a;", "a = Object.assign({}, go).x;", "c = JSON.stringify(go);", "for (const k in go) { a = go[k]; }"}[g.pick("gouse", 5)] + " }"
	case 23:
		return "{ const gp = GP(" + fmt.Sprint(g.gosite()) + "); " + []string{"a = gp.x;", "a = (\"x\" in gp) ? 1 : 0;", "a = Object.keys(gp).length;", "a = ({...gp}).x;", map[bool]string{true: "a = Reflect.get(gp, \"x\");", false: "with (gp) { a = x; }"}[g.strict]}[g.pick("gpuse", 5)] + " }"
	case 24:
		sb := g.inner(0)
		sb.fn, sb.strict = false, true // no return statement in a static block
		return "{ class S { static v = (" + g.P() + ", 1); static { " + sb.stmts(2) + "} } a = S.v; }"
	case 0:
		return "a = [3, 1, 2].sort(" + g.callback("x, y", "x - y") + ")[0];"
	case 1:
		return "a = [1, 2, 3].map(" + g.callback("x", "x") + ").length;"
	case 2:
		return "[1, 2].forEach(" + g.callback("x", "x") + ");"
	case 3:
		return "a = [1, 2, 3].reduce(" + g.callback("p, x", "p + x") + ", 0);"
	case 4:
		return "a = Array.from(" + g.iterable() + ", " + g.callback("x", "x") + ").length;"
	case 5:
		return "c = \"abcb\".replace(/b/g, " + g.callback("m", "m") + ");"
	case 6:
		return "c = JSON.stringify({get x() " + g.cbBody("1") + ", y: {toJSON() " + g.cbBody("2") + "}});"
	case 7:
		return "a = JSON.parse('{\"p\":[1,2],\"q\":3}', function(k, v) " + g.cbBody("v") + ").q;"
	case 8:
		px := "new Proxy({x: 1}, {get(t, k, r) " + g.cbBody("Reflect.get(t, k, r)") + ", has(t, k) " + g.cbBody("k in t") +
			", ownKeys(t) " + g.cbBody("Reflect.ownKeys(t)") + ", getOwnPropertyDescriptor(t, k) " + g.cbBody("Reflect.getOwnPropertyDescriptor(t, k)") + "})"
		use := []string{"a = px.x;", "a = (\"x\" in px) ? 1 : 0;", "a = Object.keys(px).length;", "a = ({...px}).x;", "c = JSON.stringify(px);"}[g.pick("pxuse", 5)]
		return "{ const px = " + px + "; " + use + " }"
	case 9:
		return "c = String({toString() " + g.cbBody("\"s\"") + "});"
	case 10:
		return "a = +{valueOf() " + g.cbBody("1") + "};"
	case 11:
		return "c = `${{[Symbol.toPrimitive](h) " + g.cbBody("\"t\"") + "}}`;"
	case 12:
		return "new Map([[1, 2], [3, 4]]).forEach(" + g.callback("v, k", "v") + ");"
	case 13:
		return "a = Object.defineProperty({}, \"x\", {get() " + g.cbBody("1") + "}).x;"
	case 14:
		f := "function(x) " + g.cbBody("x")
		return "a = " + []string{"Reflect.apply(" + f + ", null, [1]);", "(" + f + ").call(null, 2);", "(" + f + ").apply(null, [3]);", "(" + f + ").bind(null, 4)();"}[g.pick("applyk", 4)]
	case 15:
		return "a = Array.prototype.map.call({length: 2, get 0() " + g.cbBody("1") + ", 1: 2}, " + g.callback("x", "x") + ").length;"
	case 16:
		return "a = new Uint8Array([3, 1, 2]).sort(" + g.callback("x, y", "x - y") + ")[0];"
	case 17:
		return "a = Object.assign({}, {get x() " + g.cbBody("1") + "}).x;"
	case 18:
		return "c = ((s, ...v) => " + g.cbBody("s[0]") + ")`x${a}y`;"
	case 19:
		return "a = [1, 2, 3].find(" + g.callback("x", "x > 1") + ");"
	case 20:
		return "a = new Map(" + []string{"[[1, 2]]", "IT(" + fmt.Sprint(g.site()) + ", " + fmt.Sprint(g.site()) + ", 2, 1)", g.iterable()}[g.pick("mapsrc", 3)] + ").size;"
	}
	return "c = \"a-b\".split({[Symbol.split](s, l) " + g.cbBody("[s]") + "})[0];"
}

func (g gctx) genDrive() string {
	var sb strings.Builder
	sb.WriteString("{ const g = (" + g.genFunc() + ")(); ")
	n := 1 + g.pick("gdrive", 4)
	for i := 0; i < n; i++ {
		switch g.pick("gop", 9) {
		case 7, 8:
			sb.WriteString("try { a = g.throw(new Error(\"gt2\")).value; } catch (e) { log(\"" + g.tag + ":gt2:\" + D(e)); } ")
		case 0, 1, 2:
			sb.WriteString("a = g.next(" + g.expr() + ").value; ")
		case 3:
			sb.WriteString("a = g.return(" + g.lit() + ").value; ")
		case 4:
			sb.WriteString("try { g.throw(new Error(\"gt\")); } catch (e) { log(\"" + g.tag + ":gt:\" + D(e)); } ")
		case 5:
			in := g.nested()
			in.loop = true
			in.flags |= siteIter
			sb.WriteString("for (const x of g) { " + in.stmts(2) + "} ")
		case 6:
			sb.WriteString("keep(g); ")
		}
	}
	sb.WriteString("}")
	return sb.String()
}

func (g gctx) promiseStmt() string {
	switch g.pick("promk", 9) {
	case 0:
		return "Promise.resolve(" + g.expr() + ").then(" + g.callback("v", "v") + ");"
	case 1:
		return "Promise.resolve(" + g.lit() + ").then(" + g.callback("v", "v + 1") + ").then((v) => { put(" + g.key() + ", v); });"
	case 2:
		return "Promise.reject(new Error(\"pr\")).catch(" + g.callback("e", "D(e)") + ").finally(" + g.callback("", "0") + ");"
	case 3:
		return "new Promise((res, rej) => { " + g.inner(siteCb).stmts(2) + "res(1); }).then(" + g.callback("v", "v") + ");"
	case 4:
		return "(" + g.asyncFunc() + ")().then((v) => { put(" + g.key() + ", \"" + g.tag + ":done\"); }, (e) => { log(\"" + g.tag + ":rej:\" + D(e)); });"
	case 5:
		return "(" + g.asyncFunc() + ")();"
	case 6:
		return "Promise.all([1, Promise.resolve(2), {then(res) " + g.cbBody("res(3)") + "}]).then(" + g.callback("v", "v") + ");"
	case 7:
		return "Promise.resolve({then(res, rej) " + g.cbBody("res(5)") + "}).then((v) => { log(\"" + g.tag + ":th:\" + v); });"
	}
	return "Promise.race([new Promise(() => {}), Promise.resolve(" + g.lit() + ")]).then(" + g.callback("v", "v") + ");"
}

func (g gctx) classStmt() string {
	in := g.inner(0)
	in.strict = true
	switch g.pick("classk", 5) {
	case 3, 4:
		// fault points at class DEFINITION time inside a class with private names (computed key, static field
		// initialiser, static block): the private environment is installed in the defining activation itself
		sb := g.inner(0)
		sb.fn, sb.strict = false, true
		return "{ class D { #q = 1; static #sq = 2; [(" + g.P() + ", \"ck\")]() { return this.#q; } static sv = (" + g.P() + ", D.#sq); static { " + sb.stmts(1) + "} static has(o) { return #q in o; } } " +
			"a = D.sv; b = D.has(new D()) ? 1 : 0; }"
	case 0:
		return "{ class C { #p = (" + g.P() + ", 1); static s = 2; constructor() { " + in.stmts(2) + "} #m() { " + in.P() + "; return this.#p; } get x() { return this.#m(); } static has(o) { return #p in o; } } " +
			"a = new C().x; b = C.has({}) ? 1 : 0; }"
	case 1:
		return "{ class A { constructor(v) { " + in.P() + "; this.v = v; } m() { " + in.stmts(2) + "return 1; } } " +
			"class B extends A { f = (" + g.P() + ", 3); constructor() { " + in.P() + "; super(2); " + in.stmts(2) + "} m() { return super.m() + this.f; } } a = new B().m(); }"
	}
	return "{ class E extends Array { constructor(...r) { super(...r); " + in.P() + "; } static get [Symbol.species]() { " + in.P() + "; return Array; } } a = new E(1, 2, 3).map(" + g.callback("x", "x") + ").length; }"
}

func (g gctx) recStmt() string {
	n := g.pick("recn", 7)
	if g.limit >= 0 && g.pick("straddle", 4) > 0 {
		n = g.limit - 3 + g.pick("recd", 7)
		if n < 0 {
			n = 0
		}
	}
	in := g.inner(0)
	switch g.pick("reck", 5) {
	case 0:
		return fmt.Sprintf("{ const rec = (n) => { %s; return n <= 0 ? 0 : 1 + rec(n - 1); }; a = rec(%d); }", in.P(), n)
	case 1:
		t := in
		t.flags |= siteTry
		return fmt.Sprintf("{ const rec = (n) => { try { %s; return n <= 0 ? 0 : 1 + rec(n - 1); } finally { %s; b++; } }; a = rec(%d); }", t.P(), t.P(), n)
	case 2:
		return fmt.Sprintf("{ const rec = (n) => n <= 0 ? (%s, 0) : [n].map((x) => rec(x - 1))[0] + 1; a = rec(%d); }", in.P(), n/2)
	case 3:
		return fmt.Sprintf("{ const rec = function*(n) { %s; if (n > 0) yield* rec(n - 1); yield n; }; a = [...rec(%d)].length; }", in.P(), n/2)
	}
	return fmt.Sprintf("{ const o = {get r() { %s; return this.n-- <= 0 ? 0 : 1 + this.r; }, n: %d}; a = o.r; }", in.P(), n)
}

func (g gctx) dynScope() string {
	if g.strict {
		return "a = eval(\"" + "a + 1" + "\");"
	}
	in := g.nested()
	switch g.pick("dynk", 4) {
	case 0:
		if g.top {
			return "a = eval(\"P(" + fmt.Sprint(g.site()) + "); a + 1\");"
		}
		return "a = eval(\"var ev = (P(" + fmt.Sprint(g.site()) + "), 1); ev + a\");"
	case 1:
		return "with ({a: 5, q: 1}) { q = (" + g.P() + ", a); " + in.stmts(2) + "}"
	case 2:
		return "with ({get a() " + g.cbBody("2") + ", set a(v) " + g.cbBody("undefined") + "}) { a = a + (" + g.P() + ", 1); }"
	}
	return "{ let o = {x: 1}; with (o) { x += (" + g.P() + ", delete o.x, 2); } a = o.x; }"
}

const bodyHead = "let a = 0, b = 1, c = \"x\", i0 = 0; "

func newG(t *rapid.T, c *Case, tag string, nhost int, budget int) gctx {
	b := budget
	return gctx{t: t, c: c, tag: tag, nhost: nhost, limit: c.Limit, budget: &b}
}

// funcBody generates the statements of a function body (declares the locals first).
func (g gctx) funcBody() string {
	g.fn = true
	pre := ""
	if !g.strict && g.pick("strict", 5) == 0 {
		g.strict = true
		pre = "\"use strict\"; "
	}
	return pre + bodyHead + g.stmts(5)
}

// program generates a whole script: either an IIFE or statements in a top-level block.
func (g gctx) program() string {
	switch g.pick("progshape", 4) {
	case 0:
		g.top = true
		g.fn = false
		return "{ " + bodyHead + g.stmts(5) + "a; }"
	case 1:
		return "(() => { " + g.funcBody() + "return a; })();"
	}
	return "(function() { " + g.funcBody() + "return a; })();"
}

func genOp(t *rapid.T, c *Case, tag string, nhost int, hostOp bool) Op {
	g := newG(t, c, tag, nhost, 10+rapid.IntRange(0, 14).Draw(t, "budget"))
	var apis []string
	if hostOp {
		apis = []string{"run", "runstr", "call", "call", "new", "newrt", "exp", "expn", "forof", "get", "get", "tryget", "tryforof", "string"}
	} else {
		apis = []string{"run", "run", "runstr", "call", "call", "new", "newrt", "exp", "expn", "forof", "get", "string", "inst", "set"}
	}
	op := Op{API: rapid.SampledFrom(apis).Draw(t, "api"), Arg: rapid.IntRange(0, 3).Draw(t, "arg")}
	if hostOp {
		op.Swallow = rapid.IntRange(0, 2).Draw(t, "swallow") == 0
	}
	switch op.API {
	case "run", "runstr":
		op.Src = g.program()
	case "call", "exp", "expn":
		switch g.pick("fnkind", 8) {
		case 0:
			op.Src = "(x) => { " + g.funcBody() + "return a; }"
		case 1:
			in := g
			in.async = true
			in.flags = siteGen
			op.Src = "async function(x) { " + in.funcBody() + "return a; }"
		case 2:
			op.Src = "new Proxy(function(x) { " + g.funcBody() + "return a; }, {apply(t, th, args) " + g.trapBody("Reflect.apply(t, th, args)") + "})"
		case 3:
			op.Src = "(function(x) { " + g.funcBody() + "return a; }).bind(null)"
		default:
			op.Src = "function(x) { " + g.funcBody() + "return a; }"
		}
	case "new", "newrt":
		gs := g
		gs.strict = true
		switch g.pick("ctorkind", 5) {
		case 0:
			op.Src = "function(x) { " + g.funcBody() + "this.v = a; }"
		case 1:
			op.Src = "class { f = (" + g.P() + ", 1); #p = 2; constructor(x) { " + gs.funcBody() + "this.v = a + this.#p; } }"
		case 2:
			op.Src = "class extends (class { constructor() { " + g.inner(0).P() + "; } }) { constructor(x) { " + g.P() + "; super(); " + gs.funcBody() + "this.v = a; } }"
		case 3:
			op.Src = "new Proxy(class { constructor(x) { " + gs.funcBody() + "this.v = a; } }, {construct(t, args, nt) " + g.trapBody("Reflect.construct(t, args, nt)") + "})"
		default:
			op.Src = "class { constructor(x) { " + gs.funcBody() + "this.v = a; } }"
		}
	case "forof", "tryforof":
		in := g
		in.flags |= siteIter
		switch g.pick("iterkind", 3) {
		case 0:
			gi := g.inner(siteGen | siteIter)
			gi.gen = true
			op.Src = "({ *[Symbol.iterator]() { " + bodyHead + gi.stmts(4) + "} })"
		case 1:
			op.Src = "({ [Symbol.iterator]() { " + g.inner(siteIter).funcBody() + "return IT(" + fmt.Sprint(in.site()) + ", " + fmt.Sprint(in.site()) + ", 3, " + fmt.Sprint(g.pick("itf", 8)) + ")[Symbol.iterator](); } })"
		default:
			op.Src = "IT(" + fmt.Sprint(in.site()) + ", " + fmt.Sprint(in.site()) + ", " + fmt.Sprint(1+g.pick("itn", 3)) + ", " + fmt.Sprint(g.pick("itf", 8)) + ")"
		}
		op.Mode = rapid.SampledFrom([]string{"all", "break", "panic", "call"}).Draw(t, "fomode")
		op.N = rapid.IntRange(0, 2).Draw(t, "fon")
		if op.Mode == "call" {
			if nhost == 0 {
				op.Mode = "all"
			} else {
				op.Sub = rapid.IntRange(0, nhost-1).Draw(t, "fosub")
			}
		}
	case "get", "tryget":
		if g.pick("getkind", 3) == 0 {
			op.Src = "new Proxy({}, {get(t, k, r) { " + g.inner(siteCb).funcBody() + "return a; }})"
		} else {
			op.Src = "({ get acc() { " + g.funcBody() + "return a; } })"
		}
	case "string":
		op.Src = "({ toString() { " + g.funcBody() + "return \"s\" + a; } })"
	case "inst":
		op.Src = "({ [Symbol.hasInstance](v) { " + g.funcBody() + "return a > 0; } })"
	case "set":
		op.Src = "({ set acc(v) { " + g.funcBody() + "put(\"k0\", a); } })"
	}
	return op
}

func genCase(t *rapid.T) *Case {
	c := &Case{Limit: -1}
	switch rapid.IntRange(0, 9).Draw(t, "limitsel") {
	case 0:
		c.Limit = rapid.IntRange(0, 3).Draw(t, "limit")
	case 1, 2, 3, 4, 5:
		c.Limit = rapid.IntRange(4, 64).Draw(t, "limit")
	}
	c.Clear = rapid.Bool().Draw(t, "clear")
	c.First = rapid.IntRange(0, 7).Draw(t, "first")
	nh := rapid.IntRange(0, 3).Draw(t, "nhost")
	for i := 0; i < nh; i++ {
		c.Host = append(c.Host, genOp(t, c, fmt.Sprintf("h%d", i), i, true))
	}
	ns := rapid.IntRange(1, 6).Draw(t, "nsteps")
	for i := 0; i < ns; i++ {
		c.Steps = append(c.Steps, genOp(t, c, fmt.Sprintf("s%d", i), nh, false))
	}
	return c
}

var faultKinds = []string{"jsthrow", "gopanic", "goerr", "interrupt", "interrupt"}
