package c03

import (
	"fmt"
	"strings"

	"github.com/dop251/goja"

	"verifh/internal/evid"
)

type stats struct {
	probes     int      // probe hits of the history on the used runtime
	fired      []fire   // faults that fired
	outcomes   []string // kind per step
	nontrivial bool
	features   []string
	harness    bool
}

func fail(c *Case, key, format string, args ...interface{}) *evid.Failure {
	return &evid.Failure{Check: "history", Key: key, Msg: fmt.Sprintf(format, args...), Case: c}
}

func trimStack(s string) string {
	var out []string
	for _, l := range strings.Split(s, "\n") {
		if strings.Contains(l, "goja") || strings.Contains(l, "panic") {
			out = append(out, l)
		}
		if len(out) > 24 {
			break
		}
	}
	return strings.Join(out, "\n")
}

func panicKey(o outcome) string {
	s := o.Desc
	if i := strings.IndexAny(s, ":\n"); i > 0 {
		s = s[:i]
	}
	if len(s) > 60 {
		s = s[:60]
	}
	frame := ""
	for _, l := range strings.Split(o.Stack, "\n") {
		if strings.HasPrefix(l, "github.com/dop251/goja") && !strings.Contains(l, "verif") {
			frame = l
			if i := strings.LastIndex(frame, "("); i > 0 {
				frame = frame[:i]
			}
			frame = strings.TrimPrefix(frame, "github.com/dop251/goja")
			break
		}
	}
	return "panic:" + s + "@" + frame
}

// idle checks the white-box state after an API call has returned to the host.
// jobsMayLinger: the call (or an earlier one not followed by a draining call) went through an
// API that does not run the job queue, so pending jobs are legitimate.
func idle(c *Case, e *env, where string, api string, jobsMayLinger bool) *evid.Failure {
	s := goja.VerifVMState(e.vm)
	var bad []string
	if s.CallStack != 0 {
		bad = append(bad, "callStack")
	}
	if s.TryStack != 0 {
		bad = append(bad, "tryStack")
	}
	if s.IterStack != 0 {
		bad = append(bad, "iterStack")
	}
	if s.RefStack != 0 {
		bad = append(bad, "refStack")
	}
	if !s.StashGlobal {
		bad = append(bad, "stash")
	}
	if !s.PrivEnvNil {
		bad = append(bad, "privEnv")
	}
	if s.SP != 0 {
		bad = append(bad, "sp")
	}
	if s.JobQueue != 0 && !jobsMayLinger {
		bad = append(bad, "jobQueue")
	}
	if s.NativeDepth != 0 {
		bad = append(bad, "nativeDepth")
	}
	if len(bad) == 0 {
		return nil
	}
	return fail(c, "idle:"+api+":"+strings.Join(bad, ","), "%s: the runtime is not idle after %s returned to the host: %+v", where, api, s)
}

func okKind(api string, o outcome) bool {
	switch o.Kind {
	case "value", "exception", "interrupted", "stackoverflow":
		return true
	case "goerr":
		// only a func made by ExportTo with an error result unwraps the GoError
		return api == "exp"
	}
	return false
}

// runHistory executes the steps on e; check != nil enables the per-step oracles.
func runHistory(c *Case, e *env, st *stats) (outs []outcome, f *evid.Failure) {
	linger := false
	for i := 0; i <= len(c.Steps); i++ {
		var op *Op
		e.cur = i
		nfired, nswallowed := len(e.fired), e.swallowed
		var o outcome
		if i < len(c.Steps) {
			op = &c.Steps[i]
			o = e.step(i)
			outs = append(outs, o)
		} else {
			if !linger {
				break
			}
			// jobs queued by a call that does not run the queue are completed effects: let them run
			// (a Callable on an empty function; it does not touch the program registers)
			op = &Op{API: "call", Src: "flush"}
			o = e.protect(func() (goja.Value, error) { return e.nop(goja.Undefined()) })
		}
		e.cur = 50
		where := fmt.Sprintf("step %d (%s) -> %s", i, op.API, o)
		if strings.HasPrefix(o.Desc, "harness:") {
			st.harness = true
			return outs, fail(c, "harness", "%s", where)
		}
		if o.Kind == "panic" {
			return outs, fail(c, panicKey(o), "%s: a Go panic escaped: %s\n%s", where, o.Desc, trimStack(o.Stack))
		}
		if !okKind(op.API, o) {
			return outs, fail(c, "kind:"+op.API+":"+o.Kind, "%s: undocumented outcome kind", where)
		}
		if o.Via == "panic" {
			// documented panics: uncatchable errors out of Try / Runtime.New / Object.Set / conversions,
			// any error out of a func made by ExportTo without an error result
			if !(op.API == "expn" || (o.uncatchable() && !draining(op.API))) {
				return outs, fail(c, "kind:"+op.API+":panic:"+o.Kind, "%s: the error reached the host as a Go panic", where)
			}
		}
		interrupted := false
		for _, fi := range e.fired[nfired:] {
			if fi.Kind != "interrupt" {
				continue
			}
			interrupted = true
			if e.swallowed > nswallowed {
				// the InterruptedError was returned to host code (the native function host) by a nested
				// RunProgram / Callable and dropped there: what the outer call does then is not
				// documented; the host clears the flag as the documentation of ClearInterrupt advises
				e.ctxCount["interrupt:swallowed"]++
				e.vm.ClearInterrupt()
				interrupted = o.Kind == "interrupted"
				break
			}
			if e.probes != fi.Probes || len(e.log) != fi.LogLen || e.writes != fi.Writes {
				return outs, fail(c, "interrupt:effects-after:"+op.API, "%s: script code ran after the interrupt was issued (probes %d -> %d, log %d -> %d, writes %d -> %d)", where, fi.Probes, e.probes, fi.LogLen, len(e.log), fi.Writes, e.writes)
			}
			if o.Kind != "interrupted" {
				// Interrupt() issued by a Go callback after which no script instruction ran in this call
				// (e.g. a native promise reaction): the documentation says the interrupt then stays
				// pending for the next run unless ClearInterrupt() is called
				if c.Sites[fi.Site]&siteGo != 0 && (goja.VerifVMState(e.vm).Interrupted || o.Kind == "stackoverflow") {
					// (or the first script call made after the Go callback overflowed the call-depth limit
					// before any instruction could notice the interrupt: the call ends with that error)
					e.ctxCount["interrupt:pending"]++
					e.vm.ClearInterrupt()
					interrupted = false
					break
				}
				return outs, fail(c, "interrupt:lost:"+op.API, "%s: Interrupt(%q) was issued at probe %d of this step but the call did not end with an InterruptedError", where, fmt.Sprintf("I%d", fi.K), fi.K)
			}
			// (a Go callback may have issued a second Interrupt before any script instruction ran)
			okv := false
			for _, f2 := range e.fired[nfired:] {
				if f2.Kind == "interrupt" && o.Desc == fmt.Sprintf("I%d", f2.K) {
					okv = true
				}
			}
			if !okv {
				return outs, fail(c, "interrupt:value:"+op.API, "%s: InterruptedError carries %q, want %q", where, o.Desc, fmt.Sprintf("I%d", fi.K))
			}
			break
		}
		if o.Kind == "interrupted" && !interrupted {
			return outs, fail(c, "interrupt:spurious:"+op.API, "%s: InterruptedError although no interrupt was issued during this step", where)
		}
		if o.Kind == "stackoverflow" && c.Limit < 0 {
			return outs, fail(c, "overflow:spurious:"+op.API, "%s: StackOverflowError although no call-depth limit is set", where)
		}
		if interrupted {
			if s := goja.VerifVMState(e.vm); s.Interrupted {
				return outs, fail(c, "idle:"+op.API+":interruptFlag", "%s: the interrupt was delivered (InterruptedError) but the interrupt flag is still set", where)
			}
			if c.Clear {
				e.vm.ClearInterrupt()
			}
		}
		// pending jobs are legitimate after an API that does not run the job queue, unless the call was
		// interrupted (documented: an interrupt that unwinds to the empty stack clears the queue)
		if draining(op.API) || o.Kind == "interrupted" {
			linger = false
		} else {
			linger = true
		}
		if f := idle(c, e, where, op.API, linger); f != nil {
			return outs, f
		}
	}
	// a job of an interrupted step must never run later: entries tagged with that step that
	// were appended during a later step
	for i, o := range outs {
		if o.Kind != "interrupted" {
			continue
		}
		tag := fmt.Sprintf("s%d:", i)
		for _, l := range e.log {
			if l.Step != i && strings.HasPrefix(l.S, tag) {
				return outs, fail(c, "jobs-after-interrupt:"+c.Steps[i].API, "log entry %q of interrupted step %d was written during step %d", l.S, i, l.Step)
			}
		}
	}
	return outs, nil
}

func firstDiff(a, b string) string {
	n := 0
	for n < len(a) && n < len(b) && a[n] == b[n] {
		n++
	}
	lo := n - 60
	if lo < 0 {
		lo = 0
	}
	cut := func(s string) string {
		hi := n + 100
		if hi > len(s) {
			hi = len(s)
		}
		return s[lo:hi]
	}
	return fmt.Sprintf("at offset %d:\n  used: …%q\n  twin: …%q", n, cut(a), cut(b))
}

func judge(c *Case) (*evid.Failure, *stats) {
	st := &stats{}
	evid.SetCurrent("history", c)
	defer evid.ClearCurrent()

	used := newEnv(c, c.Faults)
	if err := used.setup(); err != nil {
		st.harness = true
		return fail(c, "harness:setup", "set-up failed: %v", err), st
	}
	if f := idle(c, used, "set-up", "run", false); f != nil {
		return f, st
	}
	outs, f := runHistory(c, used, st)
	st.probes = used.probes + used.gohits
	st.fired = used.fired
	for _, o := range outs {
		st.outcomes = append(st.outcomes, o.Kind)
	}
	if f != nil {
		return f, st
	}

	// the twin: a fresh runtime that performed only the completed effects, i.e. whose host
	// store holds what the history wrote
	twin := newEnv(c, nil)
	for k, v := range used.store {
		twin.store[k] = v
	}
	if err := twin.setup(); err != nil {
		st.harness = true
		return fail(c, "harness:setup", "twin set-up failed: %v", err), st
	}
	used.faults = nil
	used.cur, twin.cur = 100, 100

	// (a) fixed battery
	names, uo := used.battery(c.First)
	_, to := twin.battery(c.First)
	for i := range uo {
		if uo[i] != to[i] {
			return &evid.Failure{Check: "history", Key: "battery:" + names[i], Case: c, Expected: to[i], Observed: uo[i],
				Msg: fmt.Sprintf("battery item %q (position %d after the history %v) differs from a fresh runtime %s", names[i], i, st.outcomes, firstDiff(uo[i], to[i]))}, st
		}
		if strings.Contains(uo[i], "panic(") {
			return fail(c, "battery:panic:"+names[i], "battery item %q: Go panic: %s", names[i], uo[i]), st
		}
	}
	if f := idle(c, used, "battery", "battery", false); f != nil {
		return f, st
	}

	// (b) continuation: the steps of the history once more, without faults, on both
	for i := range c.Steps {
		op := &c.Steps[i]
		ul, tl := len(used.log), len(twin.log)
		up, tp := used.probes+used.gohits, twin.probes+twin.gohits
		used.cur, twin.cur = 200+i, 200+i
		ou, ot := used.step(i), twin.step(i)
		du := fmt.Sprintf("%s store=%s log=%s probes=%d", ou, used.storeText(), used.logText(ul), used.probes+used.gohits-up)
		dt := fmt.Sprintf("%s store=%s log=%s probes=%d", ot, twin.storeText(), twin.logText(tl), twin.probes+twin.gohits-tp)
		if ou.Kind == "panic" || ot.Kind == "panic" {
			o := ou
			if ou.Kind != "panic" {
				o = ot
			}
			return fail(c, panicKey(o), "continuation step %d (%s): a Go panic escaped: %s\n%s", i, op.API, o.Desc, trimStack(o.Stack)), st
		}
		if du != dt {
			return &evid.Failure{Check: "history", Key: "continuation:" + op.API, Case: c, Expected: dt, Observed: du,
				Msg: fmt.Sprintf("continuation step %d (%s) after the history %v differs from a fresh runtime %s", i, op.API, st.outcomes, firstDiff(du, dt))}, st
		}
		if f := idle(c, used, fmt.Sprintf("continuation step %d", i), op.API, true); f != nil {
			return f, st
		}
	}
	// flush both
	used.protect(func() (goja.Value, error) { return used.nop(goja.Undefined()) })
	twin.protect(func() (goja.Value, error) { return twin.nop(goja.Undefined()) })

	// (c) objects of the faulted run that are still reachable are poked on the used runtime
	// only: documented outcome kinds, idle afterwards
	used.cur = 300
	for i, v := range used.kept {
		o := used.protect(func() (goja.Value, error) { return used.poke(v) })
		if o.Kind == "panic" {
			return fail(c, "poke:"+panicKey(o), "poking kept object %d: a Go panic escaped: %s\n%s", i, o.Desc, trimStack(o.Stack)), st
		}
		if o.Kind == "interrupted" || o.Kind == "stackoverflow" && c.Limit < 0 || o.Kind == "othererr" {
			return fail(c, "poke:kind:"+o.Kind, "poking kept object %d: %s", i, o), st
		}
		if f := idle(c, used, fmt.Sprintf("poke %d", i), "poke", false); f != nil {
			return f, st
		}
	}
	// and the intrinsic part of the battery must still agree with a fresh runtime
	if len(used.kept) > 0 {
		twin2 := newEnv(c, nil)
		for k, v := range used.store {
			twin2.store[k] = v
		}
		if err := twin2.setup(); err != nil {
			st.harness = true
			return fail(c, "harness:setup", "twin set-up failed: %v", err), st
		}
		// bring the global object to the same shape (the battery itself declares r3)
		twin2.protect(func() (goja.Value, error) { return twin2.vm.RunProgram(batRun3) })
		names, uo := used.battery(0)
		_, to := twin2.battery(0)
		for i := range uo {
			if uo[i] != to[i] {
				return &evid.Failure{Check: "history", Key: "battery2:" + names[i], Case: c, Expected: to[i], Observed: uo[i],
					Msg: fmt.Sprintf("after poking the kept objects battery item %q differs from a fresh runtime %s", names[i], firstDiff(uo[i], to[i]))}, st
			}
		}
	}
	return nil, st
}

// poke exercises an object that the history handed to keep(): a closure is called, a
// generator object is advanced and closed, a promise gets a reaction.
func (e *env) poke(v goja.Value) (goja.Value, error) {
	vm := e.vm
	if fn, ok := goja.AssertFunction(v); ok {
		return fn(goja.Undefined())
	}
	o, ok := v.(*goja.Object)
	if !ok {
		return v, nil
	}
	for _, m := range []string{"next", "next", "return", "then"} {
		var mv goja.Value
		if ex := vm.Try(func() { mv = o.Get(m) }); ex != nil {
			return nil, ex
		}
		if fn, ok := goja.AssertFunction(mv); ok {
			var err error
			if m == "then" {
				_, err = fn(o, e.bat.Get("nop"), e.bat.Get("nop"))
			} else {
				_, err = fn(o, vm.ToValue(1))
			}
			if err != nil {
				if _, isEx := err.(*goja.Exception); !isEx {
					return nil, err
				}
			}
		}
	}
	return goja.Undefined(), nil
}
