package c03

import (
	"errors"
	"fmt"
	"runtime/debug"
	"strings"

	"github.com/dop251/goja"
)

const preludeJS = `
function P(i) { if (probe(i)) throw new Error("jsfault@" + i); }
function D(e) {
	try {
		if (e !== null && typeof e === "object") return String(e.name) + ":" + String(e.message);
		return typeof e + ":" + String(e);
	} catch (x) { return "undescribable"; }
}
function IT(sn, sr, n, f) {
	return { [Symbol.iterator]() {
		var i = 0;
		var it = { next() {
			P(sn); log("it:n" + i);
			if ((f & 2) && i === n - 1) throw new Error("nextfault");
			return i < n ? {value: i++, done: false} : {value: undefined, done: true};
		} };
		if (f & 1) it.return = function(v) { P(sr); log("it:r"); if (f & 4) throw new Error("returnfault"); return {}; };
		return it;
	} };
}
`

var preludePrg = goja.MustCompile("prelude.js", preludeJS, false)

var errFault = errors.New("c03 fault: go error")

// sval is a primitive value held by the host store (never an object).
type sval struct {
	T string // undefined null bool number string object
	S string
	F float64
	B bool
}

func encVal(v goja.Value) sval {
	switch {
	case v == nil || goja.IsUndefined(v):
		return sval{T: "undefined"}
	case goja.IsNull(v):
		return sval{T: "null"}
	}
	if _, ok := v.(*goja.Object); ok {
		return sval{T: "object"}
	}
	switch x := v.Export().(type) {
	case bool:
		return sval{T: "bool", B: x}
	case string:
		return sval{T: "string", S: x}
	case int64, float64, int, int32:
		return sval{T: "number", F: v.ToFloat(), S: v.String()}
	}
	return sval{T: "string", S: v.String()}
}

func (s sval) dec(vm *goja.Runtime) goja.Value {
	switch s.T {
	case "undefined":
		return goja.Undefined()
	case "null":
		return goja.Null()
	case "bool":
		return vm.ToValue(s.B)
	case "number":
		return vm.ToValue(s.F)
	case "object":
		return vm.ToValue("[object]")
	}
	return vm.ToValue(s.S)
}

func (s sval) String() string {
	switch s.T {
	case "bool":
		return fmt.Sprint(s.B)
	case "number", "string":
		return s.T[:1] + ":" + s.S
	}
	return s.T
}

type logEntry struct {
	S    string
	Step int // step (or phase) during which it was appended
}

type fire struct {
	Step, K, Site            int
	Kind                     string
	ScriptTry, Iter, GoToScr int
	CallDepth                int
	LogLen, Writes, Probes   int
}

// env is one runtime together with the host-owned state of the programs.
type env struct {
	c      *Case
	vm     *goja.Runtime
	store  map[string]sval
	writes int
	log    []logEntry
	kept   []goja.Value
	out    []string // battery output channel

	swallowed int // InterruptedErrors that the native function host() did not propagate
	probes   int // script probe hits (P)
	gohits   int // Go callback hits (G, GI)
	faults   []Fault
	fired    []fire
	cur      int // current step (-1 set-up, 100+ later phases)
	ctxCount map[string]int

	stepT, hostT []goja.Value
	stepP, hostP []*goja.Program
	bat          *goja.Object
	nop          goja.Callable
}

const nkeys = 5

func newEnv(c *Case, faults []Fault) *env {
	e := &env{c: c, vm: goja.New(), store: map[string]sval{}, faults: faults, cur: -1, ctxCount: map[string]int{}}
	vm := e.vm
	vm.Set("probe", func(i int) (bool, error) { return e.hit(i, false) })
	vm.Set("put", func(call goja.FunctionCall) goja.Value {
		e.store[call.Argument(0).String()] = encVal(call.Argument(1))
		e.writes++
		return goja.Undefined()
	})
	vm.Set("get", func(call goja.FunctionCall) goja.Value {
		if s, ok := e.store[call.Argument(0).String()]; ok {
			return s.dec(vm)
		}
		return goja.Undefined()
	})
	vm.Set("log", func(call goja.FunctionCall) goja.Value {
		e.log = append(e.log, logEntry{call.Argument(0).String(), e.cur})
		return goja.Undefined()
	})
	vm.Set("out", func(call goja.FunctionCall) goja.Value {
		e.out = append(e.out, call.Argument(0).String())
		return goja.Undefined()
	})
	vm.Set("keep", func(call goja.FunctionCall) goja.Value {
		if len(e.kept) < 16 {
			e.kept = append(e.kept, call.Argument(0))
		}
		return goja.Undefined()
	})
	vm.Set("cap", func(call goja.FunctionCall) goja.Value {
		var sb strings.Builder
		for _, f := range vm.CaptureCallStack(0, nil) {
			sb.WriteString(f.FuncName() + "@" + f.Position().String() + ";")
		}
		return vm.ToValue(sb.String())
	})
	// G(site): a Go callback usable wherever a built-in takes a function
	vm.Set("G", func(call goja.FunctionCall) goja.Value {
		site := int(call.Argument(0).ToInteger())
		return vm.ToValue(func(call goja.FunctionCall) goja.Value {
			e.hitGo(site)
			x, y := call.Argument(0), call.Argument(1)
			if goja.IsNumber(x) && goja.IsNumber(y) {
				return vm.ToValue(x.ToInteger() - y.ToInteger())
			}
			return x
		})
	})
	// GI(site, n): an iterable implemented in Go
	vm.Set("GI", func(call goja.FunctionCall) goja.Value {
		site := int(call.Argument(0).ToInteger())
		n := int(call.Argument(1).ToInteger())
		o := vm.NewObject()
		o.SetSymbol(goja.SymIterator, func(goja.FunctionCall) goja.Value {
			i := 0
			it := vm.NewObject()
			it.Set("next", func(goja.FunctionCall) goja.Value {
				e.hitGo(site)
				r := vm.NewObject()
				if i < n {
					r.Set("value", i)
					r.Set("done", false)
					i++
				} else {
					r.Set("done", true)
				}
				return r
			})
			it.Set("return", func(goja.FunctionCall) goja.Value {
				e.hitGo(site)
				return vm.NewObject()
			})
			return it
		})
		return o
	})
	// GO(site): an object with an accessor property x whose getter and setter are Go functions
	vm.Set("GO", func(call goja.FunctionCall) goja.Value {
		site := int(call.Argument(0).ToInteger())
		o := vm.NewObject()
		o.DefineAccessorProperty("x", vm.ToValue(func(goja.FunctionCall) goja.Value {
			e.hitGo(site)
			return vm.ToValue(1)
		}), vm.ToValue(func(goja.FunctionCall) goja.Value {
			e.hitGo(site)
			return goja.Undefined()
		}), goja.FLAG_TRUE, goja.FLAG_TRUE)
		return o
	})
	// GP(site): a Proxy whose handler is implemented in Go
	vm.Set("GP", func(call goja.FunctionCall) goja.Value {
		site := int(call.Argument(0).ToInteger())
		target := vm.NewObject()
		target.Set("x", 1)
		return vm.ToValue(vm.NewProxy(target, &goja.ProxyTrapConfig{
			Get: func(t *goja.Object, property string, receiver goja.Value) goja.Value {
				e.hitGo(site)
				return t.Get(property)
			},
			Has: func(t *goja.Object, property string) bool {
				e.hitGo(site)
				return property == "x"
			},
			OwnKeys: func(t *goja.Object) *goja.Object {
				e.hitGo(site)
				return vm.NewArray("x")
			},
		}))
	})
	vm.Set("hostw", func(j int, arg goja.Value) (res goja.Value, err error) {
		if j < 0 || j >= len(e.c.Host) {
			return nil, errors.New("no such host op")
		}
		defer func() {
			// hostCall propagates by panic: turn the uncatchable conditions into a returned, wrapped error
			if p := recover(); p != nil {
				if pe, ok := p.(error); ok {
					var ie *goja.InterruptedError
					var so *goja.StackOverflowError
					if errors.As(pe, &ie) || errors.As(pe, &so) {
						res, err = nil, fmt.Errorf("hostw: nested call failed: %w", pe)
						return
					}
				}
				panic(p)
			}
		}()
		return e.hostCall(j, arg), nil
	})
	vm.Set("host", func(call goja.FunctionCall) goja.Value {
		j := int(call.Argument(0).ToInteger())
		if j < 0 || j >= len(e.c.Host) {
			panic(vm.NewTypeError("no such host op"))
		}
		return e.hostCall(j, call.Argument(1))
	})
	return e
}

// fault returns the kind of the fault planned for counter value k ("" = none).
func (e *env) fault(k int) string {
	for _, f := range e.faults {
		if f.K == k {
			return f.Kind
		}
	}
	return ""
}

func (e *env) record(k, site int, kind string) {
	st := goja.VerifVMState(e.vm)
	stry, g2s := goja.VerifVMNesting(e.vm)
	e.fired = append(e.fired, fire{Step: e.cur, K: k, Site: site, Kind: kind, ScriptTry: stry, Iter: st.IterStack, GoToScr: g2s,
		CallDepth: st.CallStack, LogLen: len(e.log), Writes: e.writes, Probes: e.probes})
}

// hit is the body of probe(i).
func (e *env) hit(site int, _ bool) (bool, error) {
	e.probes++
	k := e.probes + e.gohits
	kind := e.fault(k)
	if kind == "" {
		return false, nil
	}
	e.record(k, site, kind)
	switch kind {
	case "jsthrow":
		return true, nil
	case "gopanic":
		panic(e.vm.ToValue(fmt.Sprintf("gopanic@%d", site)))
	case "goerr":
		return false, errFault
	case "interrupt":
		e.vm.Interrupt(fmt.Sprintf("I%d", k))
	}
	return false, nil
}

// hitGo is the fault point inside a Go callback (G, GI).
func (e *env) hitGo(site int) {
	e.gohits++
	k := e.probes + e.gohits
	kind := e.fault(k)
	if kind == "" {
		return
	}
	e.record(k, site, kind)
	switch kind {
	case "jsthrow":
		panic(e.vm.NewTypeError("gofault@%d", site))
	case "gopanic":
		panic(e.vm.ToValue(fmt.Sprintf("gopanic@%d", site)))
	case "goerr":
		panic(e.vm.NewGoError(errFault))
	case "interrupt":
		e.vm.Interrupt(fmt.Sprintf("I%d", k))
	}
}

// setup loads the prelude and evaluates the targets of all operations. No generated code
// runs here (the texts are function / class / object literals).
func (e *env) setup() error {
	vm := e.vm
	if _, err := vm.RunProgram(preludePrg); err != nil {
		return fmt.Errorf("prelude: %v", err)
	}
	if _, err := vm.RunProgram(batteryPrg); err != nil {
		return fmt.Errorf("battery prelude: %v", err)
	}
	e.bat = vm.Get("BAT").ToObject(vm)
	e.nop, _ = goja.AssertFunction(e.bat.Get("nop"))
	if e.c.comp == nil {
		comp := &compiled{}
		mkp := func(ops []Op, name string) (ps []*goja.Program, err error) {
			for i := range ops {
				op := &ops[i]
				src := op.Src
				if op.API != "run" && op.API != "runstr" {
					src = "(" + src + ")"
				}
				p, err := goja.Compile(fmt.Sprintf("%s%d.js", name, i), src, false)
				if err != nil {
					return nil, fmt.Errorf("%s %d (%s): %v", name, i, op.API, err)
				}
				ps = append(ps, p)
			}
			return
		}
		var err error
		if comp.host, err = mkp(e.c.Host, "h"); err != nil {
			return err
		}
		if comp.steps, err = mkp(e.c.Steps, "s"); err != nil {
			return err
		}
		e.c.comp = comp
	}
	mk := func(ops []Op, ps []*goja.Program, name string) (ts []goja.Value, err error) {
		for i := range ops {
			var t goja.Value
			if api := ops[i].API; api != "run" && api != "runstr" {
				if t, err = vm.RunProgram(ps[i]); err != nil {
					return nil, fmt.Errorf("%s %d (%s): %v", name, i, api, err)
				}
			}
			ts = append(ts, t)
		}
		return
	}
	var err error
	e.hostP, e.stepP = e.c.comp.host, e.c.comp.steps
	if e.hostT, err = mk(e.c.Host, e.hostP, "h"); err != nil {
		return err
	}
	if e.stepT, err = mk(e.c.Steps, e.stepP, "s"); err != nil {
		return err
	}
	if e.c.Limit >= 0 {
		vm.SetMaxCallStackSize(e.c.Limit)
	}
	return nil
}

// outcome of one API call as the host sees it.
type outcome struct {
	Kind  string // value exception goerr interrupted stackoverflow panic othererr
	Desc  string
	Via   string // "return" or "panic": how the error reached the host
	Stack string
}

func (o outcome) String() string { return o.Kind + "(" + o.Desc + ")" }

func (o outcome) uncatchable() bool { return o.Kind == "interrupted" || o.Kind == "stackoverflow" }

func descVal(v goja.Value) string {
	if v == nil {
		return "nil"
	}
	if o, ok := v.(*goja.Object); ok {
		return "obj:" + o.ClassName()
	}
	return encVal(v).String()
}

func (e *env) descErr(err error, via string) outcome {
	// an interrupt or stack overflow that a Go function returned wrapped in another error is still that condition
	// (errors.As is the documented way to find it)
	if _, direct := err.(*goja.Exception); !direct {
		var ie *goja.InterruptedError
		var so *goja.StackOverflowError
		if errors.As(err, &ie) {
			err = ie
		} else if errors.As(err, &so) {
			err = so
		}
	}
	switch x := err.(type) {
	case *goja.Exception:
		v := x.Value()
		d := ""
		if o, ok := v.(*goja.Object); ok {
			d = "obj:" + o.ClassName()
			if ex := e.vm.Try(func() {
				n, m := o.Get("name"), o.Get("message")
				d = fmt.Sprintf("%v:%v", n, m)
			}); ex != nil {
				d = "obj:undescribable"
			}
		} else {
			d = descVal(v)
		}
		return outcome{Kind: "exception", Desc: d, Via: via}
	case *goja.InterruptedError:
		return outcome{Kind: "interrupted", Desc: fmt.Sprint(x.Value()), Via: via}
	case *goja.StackOverflowError:
		return outcome{Kind: "stackoverflow", Via: via}
	}
	if errors.Is(err, errFault) {
		return outcome{Kind: "goerr", Desc: err.Error(), Via: via}
	}
	return outcome{Kind: "othererr", Desc: fmt.Sprintf("%T: %v", err, err), Via: via}
}

// protect runs one host-level API call and classifies how it ended.
func (e *env) protect(f func() (goja.Value, error)) (out outcome) {
	defer func() {
		if p := recover(); p != nil {
			if err, ok := p.(error); ok {
				out = e.descErr(err, "panic")
				if out.Kind != "othererr" {
					return
				}
			}
			out = outcome{Kind: "panic", Desc: fmt.Sprint(p), Via: "panic", Stack: string(debug.Stack())}
		}
	}()
	v, err := f()
	if err != nil {
		return e.descErr(err, "return")
	}
	return outcome{Kind: "value", Desc: descVal(v), Via: "return"}
}

// invoke performs op. At top level (nested == false) the APIs that the documentation
// requires to be enclosed in Try are enclosed; nested (inside the native function host)
// they are called bare and their panics propagate through the native frame.
func (e *env) invoke(op *Op, tgt goja.Value, prg *goja.Program, nested bool, arg goja.Value) (goja.Value, error) {
	vm := e.vm
	if arg == nil {
		arg = vm.ToValue(op.Arg)
	}
	switch op.API {
	case "run":
		return vm.RunProgram(prg)
	case "runstr":
		return vm.RunScript("rs.js", op.Src)
	case "call":
		fn, ok := goja.AssertFunction(tgt)
		if !ok {
			return nil, fmt.Errorf("harness: call target is not a function")
		}
		return fn(goja.Undefined(), arg, vm.ToValue("y"))
	case "new":
		ct, ok := goja.AssertConstructor(tgt)
		if !ok {
			return nil, fmt.Errorf("harness: new target is not a constructor")
		}
		o, err := ct(nil, arg)
		if err != nil {
			return nil, err
		}
		return o.Get("v"), nil
	case "newrt":
		o, err := vm.New(tgt, arg)
		if err != nil {
			return nil, err
		}
		return o.Get("v"), nil
	case "exp":
		var gf func(int, string) (goja.Value, error)
		if err := vm.ExportTo(tgt, &gf); err != nil {
			return nil, fmt.Errorf("harness: ExportTo: %v", err)
		}
		return gf(op.Arg, "y")
	case "expn":
		var gf func(int) goja.Value
		if err := vm.ExportTo(tgt, &gf); err != nil {
			return nil, fmt.Errorf("harness: ExportTo: %v", err)
		}
		return gf(op.Arg), nil
	case "forof", "tryforof":
		n := 0
		body := func() {
			vm.ForOf(tgt, func(v goja.Value) bool {
				i := n
				n++
				switch op.Mode {
				case "break":
					return i < op.N
				case "panic":
					if i == op.N {
						panic(vm.ToValue("stepfault"))
					}
				case "call":
					e.hostCall(op.Sub, v)
				}
				return true
			})
		}
		if !nested || op.API == "tryforof" {
			if ex := vm.Try(body); ex != nil {
				return nil, ex
			}
		} else {
			body()
		}
		return vm.ToValue(n), nil
	case "get", "tryget":
		var res goja.Value
		body := func() { res = tgt.ToObject(vm).Get("acc") }
		if !nested || op.API == "tryget" {
			if ex := vm.Try(body); ex != nil {
				return nil, ex
			}
		} else {
			body()
		}
		return res, nil
	case "string":
		var res string
		body := func() { res = tgt.String() }
		if !nested {
			if ex := vm.Try(body); ex != nil {
				return nil, ex
			}
		} else {
			body()
		}
		return vm.ToValue(res), nil
	case "inst":
		var res bool
		if ex := vm.Try(func() { res = vm.InstanceOf(arg, tgt.ToObject(vm)) }); ex != nil {
			return nil, ex
		}
		return vm.ToValue(res), nil
	case "set":
		if err := tgt.ToObject(vm).Set("acc", arg); err != nil {
			return nil, err
		}
		return goja.Undefined(), nil
	}
	return nil, fmt.Errorf("harness: unknown api %q", op.API)
}

// hostCall is the body of the native function host(j, arg): a re-entrant call.
func (e *env) hostCall(j int, arg goja.Value) goja.Value {
	op := &e.c.Host[j]
	v, err := e.invoke(op, e.hostT[j], e.hostP[j], true, arg)
	if err != nil {
		if strings.HasPrefix(err.Error(), "harness:") {
			panic(err.Error())
		}
		var ie *goja.InterruptedError
		var so *goja.StackOverflowError
		if op.Swallow {
			if errors.As(err, &ie) {
				e.swallowed++
			}
			return e.vm.ToValue("E:" + e.descErr(err, "return").Kind)
		}
		if _, ok := err.(*goja.Exception); ok {
			panic(err)
		}
		if errors.As(err, &ie) || errors.As(err, &so) {
			// also when an inner hostw has wrapped it: it stays the uncatchable condition
			panic(err)
		}
		// a plain Go error (the unwrapped GoError returned by an ExportTo'd func)
		panic(e.vm.NewGoError(err))
	}
	if v == nil {
		return goja.Undefined()
	}
	if _, ok := v.(*goja.Object); ok {
		return e.vm.ToValue("obj")
	}
	return v
}

// step issues history step i while no script runs.
func (e *env) step(i int) outcome {
	op := &e.c.Steps[i]
	return e.protect(func() (goja.Value, error) {
		return e.invoke(op, e.stepT[i], e.stepP[i], false, nil)
	})
}

func (e *env) storeText() string {
	var sb strings.Builder
	for i := 0; i < nkeys; i++ {
		k := fmt.Sprintf("k%d", i)
		if s, ok := e.store[k]; ok {
			fmt.Fprintf(&sb, "%s=%s;", k, s)
		}
	}
	return sb.String()
}

func (e *env) logText(from int) string {
	var sb strings.Builder
	for _, l := range e.log[from:] {
		sb.WriteString(l.S)
		sb.WriteByte('|')
	}
	return sb.String()
}
