package c18

// The judge drives one goja Runtime through the case (one small script per
// operation; the collection, the key pool and the live iterators live in
// global variables) and compares every observable result with the model.

import (
	"fmt"
	"math"
	"math/big"
	"reflect"
	"sort"
	"strconv"
	"strings"

	"github.com/dop251/goja"

	"verifh/internal/evid"
	"verifh/internal/jsx"
)

const preludeSrc = `
var K=[], IT=[], ITP=[], M;
function pushVal(L,v,pair){ if(pair){ if(!Array.isArray(v)||v.length!==2){L.push("badpair");return;} L.push("pair",v[0],v[1]); } else L.push(v); }
function pushStep(L,j){ var it=IT[j]; if(!it){L.push("noiter");return;} var r=it.next(); if(typeof r!=="object"||r===null){L.push("badresult");return;} L.push(r.done); if(r.done){L.push(r.value);return;} pushVal(L,r.value,ITP[j]); }
function flat(a,pair){ var L=[]; for(var i=0;i<a.length;i++) pushVal(L,a[i],pair); return L; }
`

var preludePrg = goja.MustCompile("c18prelude.js", preludeSrc, false)

type host struct {
	vm    *goja.Runtime
	pool  []Key
	vals  []goja.Value
	isSet bool
	log   []string
}

func (h *host) descr(v goja.Value) string {
	if v == nil {
		return "<absent>"
	}
	if goja.IsUndefined(v) {
		return "undef"
	}
	if goja.IsNull(v) {
		return "null"
	}
	switch x := v.(type) {
	case *goja.Object:
		for i, p := range h.vals {
			if po, ok := p.(*goja.Object); ok && po == x {
				return "o#" + strconv.Itoa(h.pool[i].AV.ID)
			}
		}
		return "object?"
	case *goja.Symbol:
		for i, p := range h.vals {
			if ps, ok := p.(*goja.Symbol); ok && ps == x {
				return "y#" + strconv.Itoa(h.pool[i].AV.ID)
			}
		}
		return "symbol?"
	}
	return descrGo(v.Export())
}

// descrGo describes an exported Go value.
func descrGo(x interface{}) string {
	switch n := x.(type) {
	case nil:
		return "nil"
	case int64:
		return "n:" + fmtF(float64(n))
	case float64:
		return "n:" + fmtF(n)
	case string:
		return "s:" + strconv.Quote(n)
	case bool:
		return strconv.FormatBool(n)
	case *big.Int:
		if n == nil {
			return "b:<nil>"
		}
		return "b:" + n.String()
	case map[string]interface{}:
		if id, ok := n["id"].(int64); ok && len(n) == 1 {
			return "o#" + strconv.FormatInt(id, 10)
		}
		return fmt.Sprintf("gomap?%v", n)
	case [2]interface{}:
		return descrGo(n[0]) + "=" + descrGo(n[1])
	case []interface{}:
		if len(n) == 2 {
			return descrGo(n[0]) + "=" + descrGo(n[1])
		}
		return fmt.Sprintf("slice?%d", len(n))
	}
	return fmt.Sprintf("?%T", x)
}

func (h *host) valJS(v int) string {
	if v >= 0 {
		return strconv.Itoa(v)
	}
	return "K[" + strconv.Itoa(-v-1) + "]"
}

func (h *host) adder() string {
	if h.isSet {
		return "add"
	}
	return "set"
}

func (h *host) subJS(op *Op) string {
	k := "K[" + strconv.Itoa(op.I) + "]"
	switch op.K {
	case "set":
		if h.isSet {
			return "L.push(M.add(" + k + ")===M)"
		}
		return "L.push(M.set(" + k + "," + h.valJS(op.V) + ")===M)"
	case "get":
		return "L.push(M.get(" + k + "))"
	case "has":
		return "L.push(M.has(" + k + "))"
	case "delete":
		return "L.push(M.delete(" + k + "))"
	case "delcur":
		return "L.push(M.delete(k))"
	case "clear":
		return "L.push(M.clear())"
	case "size":
		return "L.push(M.size)"
	case "gexport":
		return "L.push(GX())"
	case "step":
		return "pushStep(L," + strconv.Itoa(op.J%3) + ")"
	}
	return "L.push('badop')"
}

func (h *host) itemsJS(op *Op) string {
	var sb strings.Builder
	switch op.Kind {
	case "generator":
		sb.WriteString("(function*(){")
		for _, it := range op.Items {
			sb.WriteString("yield " + h.itemJS(op, it) + ";")
		}
		sb.WriteString("})()")
		return sb.String()
	}
	sb.WriteString("[")
	for _, it := range op.Items {
		sb.WriteString(h.itemJS(op, it) + ",")
	}
	sb.WriteString("]")
	return sb.String()
}

func (h *host) itemJS(op *Op, it Item) string {
	k := "K[" + strconv.Itoa(it.I) + "]"
	if h.isSet {
		if op.Kind == "holes" && it.Short == 2 {
			return ""
		}
		return k
	}
	if op.Kind == "arraylike" {
		return "{0:" + k + ",1:" + h.valJS(it.V) + "}"
	}
	switch it.Short {
	case 1:
		return "[" + k + "]"
	case 2:
		return "[]"
	}
	return "[" + k + "," + h.valJS(it.V) + "]"
}

func (h *host) opJS(op *Op) string {
	k := "K[" + strconv.Itoa(op.I) + "]"
	j := strconv.Itoa(op.J % 3)
	ctor := "Map"
	if h.isSet {
		ctor = "Set"
	}
	switch op.K {
	case "set", "get", "has", "delete", "clear", "size", "step":
		_ = k
		return "(function(){var L=[];" + h.subJS(op) + ";return L})()"
	case "iter":
		pair := "false"
		var call string
		switch op.Kind {
		case "entries":
			call, pair = "M.entries()", "true"
		case "keys":
			call = "M.keys()"
		case "values":
			call = "M.values()"
		default:
			call = "M[Symbol.iterator]()"
			if !h.isSet {
				pair = "true"
			}
		}
		return "IT[" + j + "]=" + call + ";ITP[" + j + "]=" + pair + ";[]"
	case "spread":
		pair := "false"
		var e string
		switch op.Kind {
		case "spread":
			e = "[...M]"
			if !h.isSet {
				pair = "true"
			}
		case "from":
			e = "Array.from(M)"
			if !h.isSet {
				pair = "true"
			}
		case "keys":
			e = "Array.from(M.keys())"
		case "values":
			e = "[...M.values()]"
		default:
			e, pair = "[...M.entries()]", "true"
		}
		return "flat(" + e + "," + pair + ")"
	case "forEach":
		var sw strings.Builder
		sw.WriteString("switch(n++){")
		for n, subs := range op.Sub {
			if len(subs) == 0 {
				continue
			}
			sw.WriteString("case " + strconv.Itoa(n) + ":")
			for i := range subs {
				sw.WriteString(h.subJS(&subs[i]) + ";")
			}
			sw.WriteString("break;")
		}
		sw.WriteString("}")
		if op.Kind == "forEach" {
			return "(function(){var L=[],n=0,T={};M.forEach(function(v,k,c){L.push(k,v,c===M,this===T);" + sw.String() + "},T);return L})()"
		}
		brk := ""
		if op.Brk > 0 {
			brk = "if(n>=" + strconv.Itoa(op.Brk) + ")break;"
		}
		var head string
		switch op.Kind {
		case "ofkeys":
			head = "for(var e of M.keys()){var k=e;L.push(e);"
		case "ofvalues":
			head = "for(var e of M.values()){var k=e;L.push(e);"
		case "ofentries":
			head = "for(var e of M.entries()){var k=e[0];pushVal(L,e,true);"
		case "ofdestr":
			if h.isSet {
				head = "for(var [k,v] of M.entries()){L.push(k,v);"
			} else {
				head = "for(var [k,v] of M){L.push(k,v);"
			}
		default:
			if h.isSet {
				head = "for(var e of M){var k=e;L.push(e);"
			} else {
				head = "for(var e of M){var k=e[0];pushVal(L,e,true);"
			}
		}
		return "(function(){var L=[],n=0;" + head + sw.String() + brk + "}return L})()"
	case "construct":
		var src string
		switch op.Kind {
		case "self":
			src = "new " + ctor + "(M)"
		case "selfiter":
			if h.isSet {
				src = "new Set(M.values())"
			} else {
				src = "new Map(M.entries())"
			}
		case "subclass":
			if h.isSet {
				src = "new (class extends Set{add(k){return super.add(k)}})(" + h.itemsJS(op) + ")"
			} else {
				src = "new (class extends Map{set(k,v){return super.set(k,v)}})(" + h.itemsJS(op) + ")"
			}
		default:
			src = "new " + ctor + "(" + h.itemsJS(op) + ")"
		}
		return "M=" + src + ";IT=[];ITP=[];[M.size]"
	}
	return "['badop']"
}

func (h *host) fail(c *Case, key, msg string, exp, obs interface{}) *evid.Failure {
	return &evid.Failure{Check: "mapset", Key: key, Msg: msg + "\n--- script so far ---\n" + strings.Join(h.log, "\n"), Case: c, Expected: exp, Observed: obs}
}

func (h *host) readList(v goja.Value) ([]string, bool) {
	o, ok := v.(*goja.Object)
	if !ok {
		return nil, false
	}
	n := int(o.Get("length").ToInteger())
	out := make([]string, 0, n)
	for i := 0; i < n; i++ {
		out = append(out, h.descr(o.Get(strconv.Itoa(i))))
	}
	return out, true
}

func opDetail(c *Case, op *Op) string {
	switch op.K {
	case "set", "get", "has", "delete":
		return ":" + c.Pool[op.I].Prod
	case "iter", "spread", "forEach", "construct", "export":
		return ":" + op.Kind
	}
	return ""
}

func (h *host) exportObserve(kind string, size int) (string, error) {
	mv := h.vm.Get("M")
	list := func(xs []interface{}) string {
		parts := make([]string, len(xs))
		for i, x := range xs {
			parts[i] = descrGo(x)
		}
		return "[" + strings.Join(parts, ",") + "]"
	}
	var x interface{}
	switch kind {
	case "export":
		x = mv.Export()
	case "iface":
		if err := h.vm.ExportTo(mv, &x); err != nil {
			return "", err
		}
	case "slice":
		var s []interface{}
		if err := h.vm.ExportTo(mv, &s); err != nil {
			return "", err
		}
		x = s
	case "strslice":
		var s []string
		if err := h.vm.ExportTo(mv, &s); err != nil {
			return "", err
		}
		xs := make([]interface{}, len(s))
		for i := range s {
			xs[i] = s[i]
		}
		return list(xs), nil
	case "arrayN", "arrayN1":
		n := size
		if kind == "arrayN1" {
			n++
		}
		p := reflect.New(reflect.ArrayOf(n, reflect.TypeOf((*interface{})(nil)).Elem()))
		if err := h.vm.ExportTo(mv, p.Interface()); err != nil {
			if kind == "arrayN1" {
				return "error", nil
			}
			return "", err
		}
		xs := make([]interface{}, n)
		for i := 0; i < n; i++ {
			xs[i] = p.Elem().Index(i).Interface()
		}
		return list(xs), nil
	case "map", "strmap":
		var parts []string
		if kind == "strmap" {
			var m map[string]interface{}
			if err := h.vm.ExportTo(mv, &m); err != nil {
				return "", err
			}
			for k, v := range m {
				parts = append(parts, descrGo(k)+"="+descrGo(v))
			}
		} else if h.isSet {
			var m map[interface{}]bool
			if err := h.vm.ExportTo(mv, &m); err != nil {
				return "", err
			}
			for k, v := range m {
				parts = append(parts, descrGo(k)+"="+descrGo(v))
			}
		} else {
			var m map[interface{}]interface{}
			if err := h.vm.ExportTo(mv, &m); err != nil {
				return "", err
			}
			for k, v := range m {
				parts = append(parts, descrGo(k)+"="+descrGo(v))
			}
		}
		sort.Strings(parts)
		return "{" + strings.Join(parts, ",") + "}", nil
	}
	switch xs := x.(type) {
	case [][2]interface{}:
		parts := make([]string, len(xs))
		for i := range xs {
			parts[i] = descrGo(xs[i])
		}
		return "[" + strings.Join(parts, ",") + "]", nil
	case []interface{}:
		return list(xs), nil
	}
	return fmt.Sprintf("?%T", x), nil
}

// judge is pure: it depends on the case only.
func judge(orig *Case) (*evid.Failure, *sim) {
	// the pool copy receives the addresses resolved at run time; the reported case stays as generated
	f, s := judge0(&Case{Set: orig.Set, Pool: append([]Key{}, orig.Pool...), Ops: orig.Ops})
	if f != nil {
		f.Case = orig
	}
	return f, s
}

func judge0(c *Case) (*evid.Failure, *sim) {
	kindName := "map"
	if c.Set {
		kindName = "set"
	}
	h := &host{vm: goja.New(), pool: c.Pool, isSet: c.Set}
	bad := func(msg string) (*evid.Failure, *sim) {
		return &evid.Failure{Check: "mapset", Key: "harness", Msg: msg, Case: c}, nil
	}
	if len(c.Pool) == 0 {
		return bad("empty pool")
	}
	if o := jsx.RunProgram(h.vm, preludePrg); o.Kind != "value" {
		return bad("prelude failed: " + o.Text)
	}
	// install the pool: Go-injected values first, then all producers in one script (one by one only if that
	// script fails, to name the producer)
	for i := range c.Pool {
		k := &c.Pool[i]
		if k.Go == nil {
			continue
		}
		name := "G" + strconv.Itoa(i)
		if k.Go.Type == "addrof" || k.Go.Type == "addrbits" {
			continue // needs the referenced pool value: bound below
		}
		var err error
		switch k.Go.Type {
		case "undefined":
			err = h.vm.Set(name, goja.Undefined())
		case "null":
			err = h.vm.Set(name, goja.Null())
		default:
			var gv interface{}
			gv, err = k.Go.value()
			if err == nil {
				err = h.vm.Set(name, gv)
			}
		}
		if err != nil {
			return bad("cannot bind go value: " + err.Error())
		}
		h.log = append(h.log, fmt.Sprintf("// vm.Set(%q, %s(%s))", name, k.Go.Type, k.Go.Repr))
	}
	var all strings.Builder
	for i := range c.Pool {
		k := &c.Pool[i]
		if k.Go != nil && (k.Go.Type == "addrof" || k.Go.Type == "addrbits") {
			all.WriteString("K.push(0);") // placeholder, replaced from Go below
			continue
		}
		all.WriteString("K.push(" + k.jsExpr(i) + ");")
	}
	all.WriteString("K")
	h.log = append(h.log, all.String())
	o := jsx.RunString(h.vm, all.String())
	if o.Kind != "value" {
		// find the culprit on a fresh runtime
		for i := range c.Pool {
			k := &c.Pool[i]
			if k.Go != nil {
				continue
			}
			if o1 := jsx.RunString(h.vm, "K.length=0;K.push("+k.jsExpr(i)+")"); o1.Kind != "value" && !strings.Contains(k.Expr, "K[") {
				return h.fail(c, "pool:"+k.Prod, "key producer "+k.Expr+" did not complete: "+o1.Text, nil, o1.Text), nil
			}
		}
		return h.fail(c, "pool:script", "key pool script did not complete: "+o.Text, nil, o.Text), nil
	}
	ko, ok := o.Value.(*goja.Object)
	if !ok {
		return bad("pool is not an array")
	}
	for i := range c.Pool {
		h.vals = append(h.vals, ko.Get(strconv.Itoa(i)))
	}
	for i := range c.Pool {
		k := &c.Pool[i]
		if k.Go == nil || (k.Go.Type != "addrof" && k.Go.Type != "addrbits") {
			continue
		}
		j, cerr := strconv.Atoi(k.Go.Repr)
		if cerr != nil || j < 0 || j >= len(h.vals) || h.vals[j] == nil {
			return bad("bad address reference in pool")
		}
		rv := reflect.ValueOf(h.vals[j])
		if rv.Kind() != reflect.Ptr {
			return bad("address reference to a non-pointer pool value")
		}
		addr := uint64(rv.Pointer())
		if addr >= 1<<52 {
			return bad("object address does not fit the collision construction")
		}
		var gv interface{}
		if k.Go.Type == "addrof" {
			k.AV = numAV(float64(addr))
			gv = int64(addr)
		} else {
			k.AV = numAV(math.Float64frombits(addr))
			gv = math.Float64frombits(addr)
		}
		name := "G" + strconv.Itoa(i)
		if err := h.vm.Set(name, gv); err != nil {
			return bad("cannot bind go value: " + err.Error())
		}
		src := "K[" + strconv.Itoa(i) + "]=" + name + ";K[" + strconv.Itoa(i) + "]"
		h.log = append(h.log, fmt.Sprintf("// vm.Set(%q, %s of K[%d])", name, k.Go.Type, j), src)
		o := jsx.RunString(h.vm, src)
		if o.Kind != "value" {
			return bad("cannot install address key: " + o.Text)
		}
		h.vals[i] = o.Value
	}
	for i := range h.vals {
		if h.vals[i] == nil {
			return h.fail(c, "pool:"+c.Pool[i].Prod, "pool slot is absent", nil, nil), nil
		}
	}
	for i := range c.Pool {
		// object / symbol identity is by the first pool member of the class
		if t := c.Pool[i].AV.T; t == "obj" || t == "sym" {
			continue
		}
		if got, want := h.descr(h.vals[i]), c.Pool[i].AV.descr(); got != want {
			return h.fail(c, "pool:"+c.Pool[i].Prod, fmt.Sprintf("key producer %s gives %s, expected %s", c.Pool[i].jsExpr(i), got, want), want, got), nil
		}
	}
	for i := range c.Pool {
		if t := c.Pool[i].AV.T; t == "obj" || t == "sym" {
			if got, want := h.descr(h.vals[i]), c.Pool[i].AV.descr(); got != want {
				return h.fail(c, "pool:"+c.Pool[i].Prod, fmt.Sprintf("key producer %s gives %s, expected %s", c.Pool[i].jsExpr(i), got, want), want, got), nil
			}
		}
	}
	h.vm.Set("GX", func() string {
		got, err := h.exportObserve("export", 0)
		if err != nil {
			return "error: " + err.Error()
		}
		return got
	})
	init := "M=new Map();[]"
	if c.Set {
		init = "M=new Set();[]"
	}
	h.log = append(h.log, init)
	if o := jsx.RunString(h.vm, init); o.Kind != "value" {
		return h.fail(c, kindName+":new", "constructor failed: "+o.Text, nil, o.Text), nil
	}
	s := newSim(c.Set, c.Pool)
	s.symExp = map[int]string{}
	for i := range c.Pool {
		if c.Pool[i].AV.T == "sym" {
			s.symExp[c.Pool[i].AV.ID] = descrGo(h.vals[i].Export())
		}
	}
	s.subHook = func(op *Op, visit int, cur mEntry, it *mIter) []Op {
		if visit < len(op.Sub) {
			return op.Sub[visit]
		}
		return nil
	}
	for n := range c.Ops {
		op := &c.Ops[n]
		key := kindName + ":" + op.K + opDetail(c, op)
		if op.K == "export" {
			want, ok := s.exportExpect(op.Kind)
			if !ok {
				s.skipped++
				continue
			}
			h.log = append(h.log, "// Go: export "+op.Kind)
			var got string
			var err error
			size := s.m.size()
			o := jsx.Protect(func() (goja.Value, error) {
				got, err = h.exportObserve(op.Kind, size)
				return nil, err
			})
			if o.Kind == "panic" {
				return h.fail(c, key, fmt.Sprintf("op %d: Go panic during export: %v\n%s", n, o.Panic, o.Stack), want, o.Text), s
			}
			if err != nil {
				got = "error"
				if want != "error" {
					return h.fail(c, key, fmt.Sprintf("op %d: export %s failed: %v; expected %s", n, op.Kind, err, want), want, err.Error()), s
				}
			}
			if got != want {
				return h.fail(c, key, fmt.Sprintf("op %d: export %s gives %s, expected %s", n, op.Kind, got, want), want, got), s
			}
			continue
		}
		if op.I < 0 || op.I >= len(c.Pool) || (op.V < 0 && -op.V-1 >= len(c.Pool)) {
			return bad("op refers outside the pool")
		}
		src := h.opJS(op)
		h.log = append(h.log, src)
		want := s.exec(op)
		o := jsx.RunString(h.vm, src)
		if o.Kind != "value" {
			return h.fail(c, key, fmt.Sprintf("op %d (%s) did not complete: %s\n%s", n, op.K, o.Text, o.Stack), want, o.Text), s
		}
		got, ok := h.readList(o.Value)
		if !ok {
			return bad("op result is not a list: " + src)
		}
		ws, gs := strings.Join(want, " "), strings.Join(got, " ")
		if ws != gs {
			return h.fail(c, key, fmt.Sprintf("op %d: %s\n  observed: %s\n  expected: %s", n, src, gs, ws), ws, gs), s
		}
	}
	return nil, s
}
