package c18

// Case = key pool + explicit operation list. The generator draws *raw*
// operations (plain integers, via rapid.SliceOfN so that rapid can delete and
// shrink them independently) and resolves them against the running model into
// concrete operations (pool indices, iterator slots, values); only the concrete
// list is stored, so a Case can be re-judged without rapid.

import (
	"sort"
	"strconv"
	"strings"

	"pgregory.net/rapid"
)

type Item struct {
	I     int `json:"i"`
	V     int `json:"v"`
	Short int `json:"short,omitempty"` // Map entries: 1 = [k] (value missing), 2 = [] (both missing)
}

type Op struct {
	K     string `json:"k"`
	I     int    `json:"i,omitempty"`
	V     int    `json:"v,omitempty"` // >= 0: that integer; < 0: pool value K[-V-1]
	J     int    `json:"j,omitempty"`
	Kind  string `json:"kind,omitempty"`
	Items []Item `json:"items,omitempty"`
	Sub   [][]Op `json:"sub,omitempty"` // forEach / for-of: operations performed by the callback / loop body at visit n
	Brk   int    `json:"brk,omitempty"` // for-of: break after this many visits (0 = run to completion)
}

type Case struct {
	Set  bool  `json:"set"`
	Pool []Key `json:"pool"`
	Ops  []Op  `json:"ops"`
}

func valAV(v int, pool []Key) AV {
	if v >= 0 {
		return numAV(float64(v))
	}
	return pool[-v-1].AV
}

func sMark(s string) string { return "s:" + strconv.Quote(s) }
func bStr(b bool) string    { return strconv.FormatBool(b) }

// sim couples the model with the bookkeeping needed while executing a case.
type sim struct {
	m    *model
	pool []Key
	// subHook supplies the operations performed at visit n of a forEach/for-of (cur = the record being visited,
	// it = the loop's cursor). The judge reads them from the case, the generator draws them.
	subHook func(op *Op, visit int, cur mEntry, it *mIter) []Op
	symExp  map[int]string // judge only: what exporting pool symbol ID directly gives
	skipped int            // export operations skipped because their documented precondition does not hold
}

func newSim(isSet bool, pool []Key) *sim {
	return &sim{m: &model{isSet: isSet}, pool: pool}
}

func (s *sim) reprDiffers(a, b int) bool {
	if a == b || a < 0 || b < 0 {
		return false
	}
	ka, kb := s.pool[a], s.pool[b]
	if ka.AV.T == "obj" || ka.AV.T == "sym" {
		return false
	}
	if (ka.Go == nil) != (kb.Go == nil) {
		return true
	}
	if ka.Go != nil {
		return *ka.Go != *kb.Go
	}
	return ka.Expr != kb.Expr
}

func (s *sim) noteCross(k AV, by int) {
	if i := s.m.find(k); i >= 0 && s.reprDiffers(s.m.log[i].by, by) {
		s.m.crossRepr = true
	}
}

// simple executes the operations that may also appear inside a callback.
func (s *sim) simple(op *Op, cur *mEntry) []string {
	m := s.m
	switch op.K {
	case "set":
		k := s.pool[op.I].AV
		s.noteCross(k, op.I)
		v := AV{T: "undef"}
		if !m.isSet {
			v = valAV(op.V, s.pool)
		}
		m.set(k, v, op.I)
		return []string{"true"}
	case "get":
		k := s.pool[op.I].AV
		s.noteCross(k, op.I)
		v, _ := m.get(k, -1)
		return []string{v.descr()}
	case "has":
		k := s.pool[op.I].AV
		s.noteCross(k, op.I)
		return []string{bStr(m.has(k, -1))}
	case "delete":
		k := s.pool[op.I].AV
		s.noteCross(k, op.I)
		return []string{bStr(m.del(k, -1))}
	case "delcur":
		if cur == nil {
			return []string{sMark("nocur")}
		}
		return []string{bStr(m.del(cur.key, -1))}
	case "clear":
		m.clear()
		return []string{"undef"}
	case "size":
		return []string{"n:" + strconv.Itoa(m.size())}
	case "gexport":
		// a Go function called from inside the callback exports the collection (Value.Export) mid-iteration
		exp, _ := s.exportExpect("export")
		return []string{sMark(exp)}
	case "step":
		it := m.iters[op.J%3]
		if it == nil {
			return []string{sMark("noiter")}
		}
		e, done := m.next(it)
		if done {
			return []string{"true", "undef"}
		}
		return append([]string{"false"}, s.iterVal(it.kind, e)...)
	}
	return nil
}

func (s *sim) iterVal(kind string, e *mEntry) []string {
	v := s.m.iterValue(kind, e)
	if v[0] == "pair" {
		v[0] = sMark("pair")
	}
	return v
}

func loopIterKind(kind string, isSet bool) string {
	switch kind {
	case "ofkeys":
		return "keys"
	case "ofvalues":
		return "values"
	case "ofentries", "ofdestr":
		return "entries"
	}
	// "of": default iterator
	if isSet {
		return "values"
	}
	return "entries"
}

// exec runs one top-level operation on the model and returns what the
// specification says the operation's observable result is, flattened.
func (s *sim) exec(op *Op) []string {
	m := s.m
	switch op.K {
	case "set", "get", "has", "delete", "clear", "size", "step":
		return s.simple(op, nil)
	case "iter":
		m.iters[op.J%3] = m.newIter(op.Kind)
		return nil
	case "spread":
		kind := op.Kind
		switch kind {
		case "spread", "from":
			kind = loopIterKind("of", m.isSet)
		}
		it := m.newIter(kind)
		var out []string
		for {
			e, done := m.next(it)
			if done {
				break
			}
			out = append(out, s.iterVal(kind, e)...)
		}
		return out
	case "forEach":
		it := m.newIter("loop")
		var out []string
		for n := 0; ; n++ {
			e, done := m.next(it)
			if done {
				break
			}
			cur := *e
			if op.Kind == "forEach" {
				v := cur.val
				if m.isSet {
					v = cur.key
				}
				out = append(out, cur.key.descr(), v.descr(), "true", "true")
			} else if op.Kind == "ofdestr" {
				v := cur.val
				if m.isSet {
					v = cur.key
				}
				out = append(out, cur.key.descr(), v.descr())
			} else {
				out = append(out, s.iterVal(loopIterKind(op.Kind, m.isSet), &cur)...)
			}
			var subs []Op
			if s.subHook != nil {
				subs = s.subHook(op, n, cur, it)
			}
			for i := range subs {
				out = append(out, s.simple(&subs[i], &cur)...)
			}
			if op.Kind != "forEach" && op.Brk > 0 && n+1 >= op.Brk {
				break
			}
		}
		it.done = true
		return out
	case "construct":
		old := m.liveEntries()
		nm := &model{isSet: m.isSet, crossRepr: m.crossRepr, iterAfterRemoval: m.iterAfterRemoval}
		s.m = nm
		switch op.Kind {
		case "self", "selfiter":
			for _, e := range old {
				nm.set(e.key, e.val, e.by)
			}
		default:
			for _, it := range op.Items {
				k := s.pool[it.I].AV
				v := AV{T: "undef"}
				by := it.I
				if !nm.isSet {
					switch it.Short {
					case 0:
						v = valAV(it.V, s.pool)
					case 2:
						k = AV{T: "undef"}
						by = -1
					}
				} else if op.Kind == "holes" && it.Short == 2 {
					k = AV{T: "undef"} // an elision in the array literal reads as undefined
					by = -1
				}
				s.noteCross(k, by)
				nm.set(k, v, by)
			}
		}
		return []string{"n:" + strconv.Itoa(nm.size())}
	}
	return nil
}

// exportExpect is the documented result of the Go-side operations
// (Value.Export / Runtime.ExportTo), or ok=false when the documented
// precondition of the target type does not hold for the current contents.
func (s *sim) exportExpect(kind string) (string, bool) {
	m := s.m
	live := m.liveEntries()
	one := func(e mEntry) string {
		if m.isSet {
			return e.key.exportDescr(s.symExp)
		}
		return e.key.exportDescr(s.symExp) + "=" + e.val.exportDescr(s.symExp)
	}
	list := func() string {
		out := "["
		for i, e := range live {
			if i > 0 {
				out += ","
			}
			out += one(e)
		}
		return out + "]"
	}
	switch kind {
	case "export", "iface", "slice", "arrayN":
		return list(), true
	case "arrayN1":
		return "error", true
	case "strslice", "strmap":
		if (kind == "strslice") != m.isSet {
			return "", false
		}
		for _, e := range live {
			if e.key.T != "str" {
				return "", false
			}
		}
		if kind == "strslice" {
			return list(), true
		}
		fallthrough
	case "map":
		// Go map semantics: keys that export to equal Go values (null and undefined both export as nil) collapse, last one wins
		keys := []string{}
		vals := map[string]string{}
		for _, e := range live {
			if e.key.T == "obj" {
				return "", false // exports as map[string]interface{}: documented to panic as a Go map key
			}
			k := e.key.exportDescr(s.symExp)
			if _, ok := vals[k]; !ok {
				keys = append(keys, k)
			}
			if m.isSet {
				vals[k] = "false"
			} else {
				vals[k] = e.val.exportDescr(s.symExp)
			}
		}
		parts := make([]string, len(keys))
		for i, k := range keys {
			parts[i] = k + "=" + vals[k]
		}
		sort.Strings(parts)
		return "{" + strings.Join(parts, ",") + "}", true
	}
	return "", false
}

// ---------------------------------------------------------------- raw draws

// operation mix: thresholds on the raw selector (0..99)
const (
	selDelete    = 20 // [0,20) set/add
	selGet       = 32 // [20,32) delete
	selHas       = 40 // [32,40) get (Map) / has (Set)
	selClear     = 45 // [40,45) has
	selSize      = 48 // [45,48) clear
	selIter      = 50 // [48,50) size
	selStep      = 58 // [50,58) create iterator
	selSpread    = 78 // [58,78) step an iterator
	selLoop      = 81 // [78,81) spread / Array.from
	selConstruct = 90 // [81,90) forEach / for-of with a mutating body
	selExport    = 93 // [90,93) construct from iterable; [93,100) Go-side export
)

type rawSub struct{ Sel, A, B, Rel int }
type rawItem struct{ A, B, Short, VK int }
type rawOp struct {
	Sel, A, B, C, Mode, Brk int
	Items                   []rawItem
	Sub                     [][]rawSub
}

var rawSubGen = rapid.Custom(func(t *rapid.T) rawSub {
	return rawSub{Sel: uni(t, "ssel", 100), A: uni(t, "sa", 60), B: uni(t, "sb", 6), Rel: uni(t, "rel", 6)}
})

var rawItemGen = rapid.Custom(func(t *rapid.T) rawItem {
	return rawItem{A: uni(t, "ia", 60), B: uni(t, "ib", 6), Short: uni(t, "short", 10), VK: uni(t, "vk", 96)}
})

var rawOpGen = rapid.Custom(func(t *rapid.T) rawOp {
	r := rawOp{Sel: uni(t, "sel", 100), A: uni(t, "a", 60), B: uni(t, "b", 12), C: uni(t, "c", 96), Mode: uni(t, "mode", 8)}
	switch {
	case r.Sel >= selLoop && r.Sel < selConstruct:
		r.Sub = rapid.SliceOfN(rapid.SliceOfN(rawSubGen, 0, 2), uni(t, "nsub", 4), 5).Draw(t, "sub")
		r.Brk = uni(t, "brk", 6)
	case r.Sel >= selConstruct && r.Sel < selExport:
		r.Items = rapid.SliceOfN(rawItemGen, uni(t, "nitems", 5), 7).Draw(t, "items")
	}
	return r
})

// candidates returns the pool indices SameValueZero-equal to k.
func (s *sim) candidates(k AV) []int {
	var out []int
	for i := range s.pool {
		if sameValueZero(s.pool[i].AV, k) {
			out = append(out, i)
		}
	}
	return out
}

func (s *sim) altOf(e mEntry, b int) int {
	c := s.candidates(e.key)
	if len(c) == 0 {
		if e.by >= 0 {
			return e.by
		}
		return b % len(s.pool)
	}
	return c[b%len(c)]
}

func (s *sim) firstLiveFrom(pos int) (mEntry, bool) {
	for i := pos; i < len(s.m.log); i++ {
		if i >= 0 && !s.m.log[i].deleted {
			return s.m.log[i], true
		}
	}
	return mEntry{}, false
}

func (s *sim) lastLiveBefore(pos int) (mEntry, bool) {
	if pos > len(s.m.log) {
		pos = len(s.m.log)
	}
	for i := pos - 1; i >= 0; i-- {
		if !s.m.log[i].deleted {
			return s.m.log[i], true
		}
	}
	return mEntry{}, false
}

// pickKey resolves a raw key choice to a pool index, biased by mode towards
// keys that matter: present keys in another representation, the records around
// a live iterator's cursor, formerly deleted keys.
func (s *sim) pickKey(mode, a, b int, it *mIter) int {
	n := len(s.pool)
	live := s.m.liveEntries()
	switch mode {
	case 1, 2, 3:
		if len(live) > 0 {
			return s.altOf(live[a%len(live)], b)
		}
	case 4, 5, 6:
		if it == nil {
			it = s.m.iters[a%3]
		}
		if it == nil {
			for _, x := range s.m.iters {
				if x != nil {
					it = x
				}
			}
		}
		if it != nil {
			var e mEntry
			var ok bool
			switch mode {
			case 4: // the record most recently yielded (or, if deleted, the nearest survivor before it)
				e, ok = s.lastLiveBefore(it.pos)
			case 5: // the record that would be yielded next
				e, ok = s.firstLiveFrom(it.pos)
			default: // some record behind the cursor
				e, ok = s.lastLiveBefore(it.pos - 1 - a%2)
			}
			if ok {
				return s.altOf(e, b)
			}
		}
		if len(live) > 0 {
			return s.altOf(live[a%len(live)], b)
		}
	case 7: // a key that was present once and is not now
		var dead []mEntry
		for _, e := range s.m.log {
			if e.deleted && s.m.find(e.key) < 0 {
				dead = append(dead, e)
			}
		}
		if len(dead) > 0 {
			return s.altOf(dead[a%len(dead)], b)
		}
	}
	return a % n
}

const maxOps = 40 // operations per history, those performed inside callbacks included

type genState struct {
	s      *sim
	serial int
	labels map[string]int
}

func (g *genState) val(vk, a int) int {
	g.serial++
	if vk < 12 {
		return -(a%len(g.s.pool) + 1)
	}
	return g.serial
}

func (g *genState) concreteSub(r rawSub, cur mEntry, it *mIter, loopKind string) Op {
	s := g.s
	mode := 0
	switch r.Rel {
	case 1:
		mode = -1
	case 2:
		mode = 5
	case 3:
		mode = 6
	case 4:
		mode = 7
	case 5:
		mode = 0
	}
	var i int
	if mode == -1 {
		i = s.altOf(cur, r.B)
	} else {
		i = s.pickKey(mode, r.A, r.B, it)
	}
	switch {
	case r.Sel < 30:
		// delete the current record through the key handed to the callback where the loop form provides it
		if loopKind == "ofvalues" && !s.m.isSet {
			return Op{K: "delete", I: s.altOf(cur, r.B)}
		}
		return Op{K: "delcur"}
	case r.Sel < 55:
		return Op{K: "delete", I: i}
	case r.Sel < 80:
		return Op{K: "set", I: i, V: g.val(r.A+r.B*7, r.A)}
	case r.Sel < 86:
		return Op{K: "clear"}
	case r.Sel < 92:
		return Op{K: "has", I: i}
	case r.Sel < 94:
		return Op{K: "size"}
	case r.Sel < 97:
		return Op{K: "gexport"}
	}
	return Op{K: "step", J: r.A % 3}
}

var iterKinds = []string{"entries", "keys", "values", "default"}
var spreadKinds = []string{"spread", "from", "keys", "values", "entries"}
var loopKinds = []string{"forEach", "forEach", "of", "ofkeys", "ofvalues", "ofentries", "ofdestr"}
var exportKinds = []string{"export", "export", "iface", "slice", "map", "map", "arrayN", "arrayN1", "strslice", "strmap"}

func (g *genState) concrete(r rawOp) (Op, bool) {
	s := g.s
	m := s.m
	key := func() int { return s.pickKey(r.Mode, r.A, r.B, nil) }
	anyIter := false
	for _, it := range m.iters {
		if it != nil {
			anyIter = true
		}
	}
	sel := r.Sel
	if sel >= selStep && sel < selSpread && !anyIter {
		sel = selIter
	}
	switch {
	case sel < selDelete:
		return Op{K: "set", I: key(), V: g.val(r.C, r.A)}, true
	case sel < selGet:
		return Op{K: "delete", I: key()}, true
	case sel < selHas:
		if m.isSet {
			return Op{K: "has", I: key()}, true
		}
		return Op{K: "get", I: key()}, true
	case sel < selClear:
		return Op{K: "has", I: key()}, true
	case sel < selSize:
		return Op{K: "clear"}, true
	case sel < selIter:
		return Op{K: "size"}, true
	case sel < selStep:
		return Op{K: "iter", J: r.A % 3, Kind: iterKinds[r.B%len(iterKinds)]}, true
	case sel < selSpread:
		j := r.A % 3
		for k := 0; k < 3 && m.iters[j] == nil; k++ {
			j = (j + 1) % 3
		}
		return Op{K: "step", J: j}, true
	case sel < selLoop:
		return Op{K: "spread", Kind: spreadKinds[r.B%len(spreadKinds)]}, true
	case sel < selConstruct:
		op := Op{K: "forEach", Kind: loopKinds[r.A%len(loopKinds)]}
		if op.Kind != "forEach" {
			op.Brk = r.Brk
		}
		return op, true
	case sel < selExport:
		kinds := []string{"array", "array", "self", "selfiter", "generator", "subclass", "arraylike"}
		if m.isSet {
			kinds = []string{"array", "array", "self", "selfiter", "generator", "subclass", "holes"}
		}
		op := Op{K: "construct", Kind: kinds[r.A%len(kinds)]}
		if op.Kind != "self" && op.Kind != "selfiter" {
			for _, ri := range r.Items {
				it := Item{I: ri.A % len(s.pool)}
				if len(op.Items) > 0 && ri.B < 2 {
					// repeat an earlier key in another representation
					prev := op.Items[ri.A%len(op.Items)]
					c := s.candidates(s.pool[prev.I].AV)
					it.I = c[ri.Short%len(c)]
				}
				it.V = g.val(ri.VK, ri.A)
				if ri.Short == 9 {
					it.Short = 2
				} else if ri.Short == 8 && !m.isSet {
					it.Short = 1
				}
				if m.isSet && op.Kind != "holes" {
					it.Short = 0
				}
				if !m.isSet && op.Kind == "arraylike" {
					it.Short = 0
				}
				op.Items = append(op.Items, it)
			}
		}
		return op, true
	}
	kind := exportKinds[r.A%len(exportKinds)]
	if _, ok := s.exportExpect(kind); !ok {
		return Op{}, false
	}
	return Op{K: "export", Kind: kind}, true
}

// genCase draws one case, running the model alongside so that the choices can
// aim at the interesting records.
func genCase(t *rapid.T) (*Case, *sim) {
	c := &Case{Set: rapid.Bool().Draw(t, "isSet")}
	c.Pool = genPool(t)
	raws := rapid.SliceOfN(rawOpGen, 1+uni(t, "minops", 30), maxOps).Draw(t, "ops")
	g := &genState{s: newSim(c.Set, c.Pool), labels: map[string]int{}}
	var curRaw rawOp
	g.s.subHook = func(op *Op, visit int, cur mEntry, it *mIter) []Op {
		if visit >= len(curRaw.Sub) {
			return nil
		}
		for len(op.Sub) <= visit {
			op.Sub = append(op.Sub, nil)
		}
		var out []Op
		for _, rs := range curRaw.Sub[visit] {
			so := g.concreteSub(rs, cur, it, op.Kind)
			out = append(out, so)
		}
		op.Sub[visit] = out
		return out
	}
	total := 0
	for _, r := range raws {
		if total >= maxOps {
			break
		}
		op, ok := g.concrete(r)
		if !ok {
			g.s.skipped++
			continue
		}
		curRaw = r
		if op.K == "export" {
			c.Ops = append(c.Ops, op)
			total++
			continue
		}
		g.s.exec(&op)
		c.Ops = append(c.Ops, op)
		total++
		for _, subs := range op.Sub {
			total += len(subs)
		}
	}
	return c, g.s
}
