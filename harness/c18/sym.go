package c18

// Second sub-check: the symbol-keyed property table of ordinary objects, which
// in goja is the same ordered map structure as Map/Set. Model: the ordered
// list of own properties per OrdinaryOwnPropertyKeys (10.1.11.1): integer
// indices ascending, then strings in creation order, then symbols in creation
// order; deletion removes the key, re-creation appends it. Observers that
// enumerate keys (Object.getOwnPropertySymbols, Reflect.ownKeys,
// Object.assign, object spread, Object.getOwnPropertyDescriptors) take the key
// list once, up front (a snapshot), and then look each key up again
// ([[GetOwnProperty]]) — so keys deleted meanwhile are skipped and keys added
// meanwhile are not visited.

import (
	"fmt"
	"sort"
	"strconv"
	"strings"

	"github.com/dop251/goja"
	"pgregory.net/rapid"

	"verifh/internal/evid"
	"verifh/internal/jsx"
)

type SymOp struct {
	K    string    `json:"k"`
	I    int       `json:"i,omitempty"` // key index: 0..nSym-1 symbols, then string keys, then integer keys
	V    int       `json:"v,omitempty"`
	Enum bool      `json:"enum,omitempty"`
	Wr   bool      `json:"wr,omitempty"`
	Acc  bool      `json:"acc,omitempty"`
	Sub  []SymOp   `json:"sub,omitempty"`  // define accessor: what the getter does on every call; loops: see Subs
	Subs [][]SymOp `json:"subs,omitempty"` // forOfSyms: operations at visit n
	Keys []int     `json:"keys,omitempty"` // assignFrom: keys of the source literal, in order
	P    bool      `json:"p,omitempty"`    // observers: look at the object through a trap-less Proxy of it
}

type SymCase struct {
	Host string   `json:"host"`
	Syms []string `json:"syms"` // JS expressions for the symbols S[i]
	Strs []string `json:"strs"` // string keys
	Ints []int    `json:"ints"` // integer keys
	Ops  []SymOp  `json:"ops"`
}

type sProp struct {
	key  int
	acc  bool
	val  int
	enum bool
	wr   bool
	sub  []SymOp
}

type symModel struct {
	c     *SymCase
	ints  []sProp // kept sorted by integer value
	strs  []sProp
	syms  []sProp
	glog  []string
	depth int
	// witnesses
	everDeleted   map[int]bool
	readded       bool
	mutatedInLoop bool
	inLoop        int
	observedAfter bool
}

func (c *SymCase) nSym() int        { return len(c.Syms) }
func (c *SymCase) isSym(k int) bool { return k < len(c.Syms) }
func (c *SymCase) isStr(k int) bool { return k >= len(c.Syms) && k < len(c.Syms)+len(c.Strs) }
func (c *SymCase) nKeys() int       { return len(c.Syms) + len(c.Strs) + len(c.Ints) }

func (c *SymCase) keyName(k int) string {
	switch {
	case c.isSym(k):
		return "y" + strconv.Itoa(k)
	case c.isStr(k):
		return "k:" + c.Strs[k-len(c.Syms)]
	}
	return "k:" + strconv.Itoa(c.Ints[k-len(c.Syms)-len(c.Strs)])
}

func (c *SymCase) keyJS(k int) string {
	switch {
	case c.isSym(k):
		return "S[" + strconv.Itoa(k) + "]"
	case c.isStr(k):
		return strconv.Quote(c.Strs[k-len(c.Syms)])
	}
	return strconv.Itoa(c.Ints[k-len(c.Syms)-len(c.Strs)])
}

func (m *symModel) list(k int) *[]sProp {
	switch {
	case m.c.isSym(k):
		return &m.syms
	case m.c.isStr(k):
		return &m.strs
	}
	return &m.ints
}

func (m *symModel) find(k int) *sProp {
	l := m.list(k)
	for i := range *l {
		if (*l)[i].key == k {
			return &(*l)[i]
		}
	}
	return nil
}

func (m *symModel) add(p sProp) {
	l := m.list(p.key)
	*l = append(*l, p)
	if !m.c.isSym(p.key) && !m.c.isStr(p.key) {
		c := m.c
		sort.SliceStable(m.ints, func(i, j int) bool {
			return c.Ints[m.ints[i].key-len(c.Syms)-len(c.Strs)] < c.Ints[m.ints[j].key-len(c.Syms)-len(c.Strs)]
		})
	}
	if m.everDeleted[p.key] && m.c.isSym(p.key) {
		m.readded = true
	}
	if m.inLoop > 0 {
		m.mutatedInLoop = true
	}
}

func (m *symModel) remove(k int) {
	l := m.list(k)
	for i := range *l {
		if (*l)[i].key == k {
			*l = append(append([]sProp{}, (*l)[:i]...), (*l)[i+1:]...)
			m.everDeleted[k] = true
			if m.inLoop > 0 {
				m.mutatedInLoop = true
			}
			return
		}
	}
}

func (m *symModel) ownKeys() []int {
	var out []int
	for _, p := range m.ints {
		out = append(out, p.key)
	}
	for _, p := range m.strs {
		out = append(out, p.key)
	}
	for _, p := range m.syms {
		out = append(out, p.key)
	}
	return out
}

// inheritedBlocks: does the prototype chain of the host make OrdinarySet on an
// absent own key fail (non-writable data property or accessor without setter
// inherited)? From the property tables of ECMA-262: Map.prototype[@@toStringTag]
// and %TypedArray%.prototype[@@toStringTag] / Function.prototype[@@hasInstance] / Array.prototype[@@unscopables].
func (m *symModel) inheritedBlocks(k int) bool {
	if !m.c.isSym(k) {
		return false
	}
	e := m.c.Syms[k]
	switch m.c.Host {
	case "map":
		return e == "Symbol.toStringTag"
	case "array":
		return e == "Symbol.unscopables" // Array.prototype[@@unscopables] is { [[Writable]]: false }
	case "typedarray":
		return e == "Symbol.toStringTag"
	case "function", "boundfn":
		return e == "Symbol.hasInstance"
	}
	return false
}

// get is [[Get]] on an own property (the getter logs its call and performs its operations).
func (m *symModel) get(p *sProp) int {
	if !p.acc {
		return p.val
	}
	key, val, sub := p.key, p.val, p.sub
	m.glog = append(m.glog, "g:"+m.c.keyName(key))
	for i := range sub {
		m.mutate(&sub[i])
	}
	return val
}

// mutate applies assign / define / delete (the operations a getter or a loop body may perform).
func (m *symModel) mutate(op *SymOp) {
	switch op.K {
	case "assign":
		p := m.find(op.I)
		if p == nil {
			if m.inheritedBlocks(op.I) {
				return
			}
			m.add(sProp{key: op.I, val: op.V, enum: true, wr: true})
			return
		}
		if p.acc || !p.wr {
			return // sloppy mode: silently ignored
		}
		p.val = op.V
	case "define":
		p := m.find(op.I)
		np := sProp{key: op.I, acc: op.Acc, val: op.V, enum: op.Enum, wr: op.Wr && !op.Acc, sub: op.Sub}
		if p == nil {
			m.add(np)
			return
		}
		*p = np
	case "delete", "rdelete":
		m.remove(op.I)
	}
}

func (m *symModel) names(keys []int) []string {
	out := make([]string, len(keys))
	for i, k := range keys {
		out[i] = m.c.keyName(k)
	}
	return out
}

// exec returns the expected observation of a top-level operation.
func (m *symModel) exec(op *SymOp) []string {
	m.glog = nil
	observe := func() {
		if m.readded || m.mutatedInLoop {
			m.observedAfter = true
		}
	}
	switch op.K {
	case "assign", "define":
		m.mutate(op)
		return nil
	case "delete", "rdelete":
		m.mutate(op)
		return []string{"true"} // every property here is configurable
	case "get":
		p := m.find(op.I)
		if p == nil {
			return []string{"absent"}
		}
		v := m.get(p)
		return append([]string{"v:" + strconv.Itoa(v)}, m.glog...)
	case "assignFrom":
		// source literal {[k1]:v, [k2]:v+1, ...}: later duplicates overwrite in place; then Set on O in that order
		var order []int
		vals := map[int]int{}
		for i, k := range op.Keys {
			if _, ok := vals[k]; !ok {
				order = append(order, k)
			}
			vals[k] = op.V + i
		}
		// OrdinaryOwnPropertyKeys of the source: integer keys ascending, strings, symbols
		var ints, strs, syms []int
		for _, k := range order {
			switch {
			case m.c.isSym(k):
				syms = append(syms, k)
			case m.c.isStr(k):
				strs = append(strs, k)
			default:
				ints = append(ints, k)
			}
		}
		c := m.c
		sort.SliceStable(ints, func(i, j int) bool {
			return c.Ints[ints[i]-len(c.Syms)-len(c.Strs)] < c.Ints[ints[j]-len(c.Syms)-len(c.Strs)]
		})
		for _, k := range append(append(ints, strs...), syms...) {
			// Object.assign uses Set(to, key, value, true): a failed [[Set]] throws; the keys before it stay assigned
			if p := m.find(k); (p == nil && m.inheritedBlocks(k)) || (p != nil && (p.acc || !p.wr)) {
				return []string{"throw:TypeError"}
			}
			m.mutate(&SymOp{K: "assign", I: k, V: vals[k]})
		}
		return nil
	case "ownsyms":
		observe()
		var ks []int
		for _, p := range m.syms {
			ks = append(ks, p.key)
		}
		return m.names(ks)
	case "ownkeys", "descs":
		observe()
		return m.names(m.ownKeys())
	case "assignTo", "spread":
		observe()
		m.inLoop++
		snapshot := m.ownKeys()
		var out []string
		for _, k := range snapshot {
			p := m.find(k)
			if p == nil || !p.enum {
				continue
			}
			v := m.get(p)
			out = append(out, m.c.keyName(k)+"="+strconv.Itoa(v))
		}
		m.inLoop--
		// target keys come out in OrdinaryOwnPropertyKeys order, which for a fresh target equals the
		// visiting order (the snapshot is already in that order)
		return append(out, m.glog...)
	case "forOfSyms":
		observe()
		m.inLoop++
		var snapshot []int
		for _, p := range m.syms {
			snapshot = append(snapshot, p.key)
		}
		var out []string
		for n, k := range snapshot {
			out = append(out, m.c.keyName(k))
			if n < len(op.Subs) {
				for i := range op.Subs[n] {
					m.mutate(&op.Subs[n][i])
				}
			}
		}
		m.inLoop--
		return out
	}
	return nil
}

// ------------------------------------------------------------------ JS side

func (c *SymCase) mutJS(op *SymOp) string {
	k := c.keyJS(op.I)
	switch op.K {
	case "assign":
		return "O[" + k + "]=" + strconv.Itoa(op.V)
	case "define":
		if op.Acc {
			var sb strings.Builder
			sb.WriteString("Object.defineProperty(O," + k + ",{get:function(){GL.push(\"g:\"+sid(" + k + "));")
			for i := range op.Sub {
				sb.WriteString(c.mutJS(&op.Sub[i]) + ";")
			}
			sb.WriteString("return " + strconv.Itoa(op.V) + "},enumerable:" + strconv.FormatBool(op.Enum) + ",configurable:true})")
			return sb.String()
		}
		return "Object.defineProperty(O," + k + ",{value:" + strconv.Itoa(op.V) + ",enumerable:" + strconv.FormatBool(op.Enum) + ",writable:" + strconv.FormatBool(op.Wr) + ",configurable:true})"
	case "delete":
		return "delete O[" + k + "]"
	case "rdelete":
		return "Reflect.deleteProperty(O," + k + ")"
	}
	return "void 0"
}

func (c *SymCase) opJS(op *SymOp) string {
	o := "O"
	if op.P {
		o = "P"
	}
	switch op.K {
	case "assign", "define":
		return c.mutJS(op) + ";[]"
	case "delete", "rdelete":
		return "[String(" + c.mutJS(op) + ")]"
	case "get":
		k := c.keyJS(op.I)
		return "GL=[];(function(){if(!Object.prototype.hasOwnProperty.call(O," + k + "))return [\"absent\"];var v=O[" + k + "];return [\"v:\"+v].concat(GL)})()"
	case "assignFrom":
		var sb strings.Builder
		sb.WriteString("(function(){try{Object.assign(O,{")
		for i, k := range op.Keys {
			sb.WriteString("[" + c.keyJS(k) + "]:" + strconv.Itoa(op.V+i) + ",")
		}
		sb.WriteString("});return []}catch(e){return [\"throw:\"+(e instanceof TypeError?\"TypeError\":String(e))]}})()")
		return sb.String()
	case "ownsyms":
		return "Object.getOwnPropertySymbols(" + o + ").map(sid)"
	case "ownkeys":
		return "Reflect.ownKeys(" + o + ").map(sid)"
	case "descs":
		return "Reflect.ownKeys(Object.getOwnPropertyDescriptors(" + o + ")).map(sid)"
	case "assignTo":
		return "GL=[];(function(){var T=Object.assign({}," + o + ");return Reflect.ownKeys(T).map(function(k){return sid(k)+\"=\"+T[k]}).concat(GL)})()"
	case "spread":
		return "GL=[];(function(){var T={..." + o + "};return Reflect.ownKeys(T).map(function(k){return sid(k)+\"=\"+T[k]}).concat(GL)})()"
	case "forOfSyms":
		var sb strings.Builder
		sb.WriteString("(function(){var L=[],n=0;for(var s of Object.getOwnPropertySymbols(" + o + ")){L.push(sid(s));switch(n++){")
		for n, subs := range op.Subs {
			if len(subs) == 0 {
				continue
			}
			sb.WriteString("case " + strconv.Itoa(n) + ":")
			for i := range subs {
				sb.WriteString(c.mutJS(&subs[i]) + ";")
			}
			sb.WriteString("break;")
		}
		sb.WriteString("}}return L})()")
		return sb.String()
	}
	return "[\"badop\"]"
}

var hostExpr = map[string]string{
	"object":     "({})",
	"array":      "[]",
	"function":   "(function(){})",
	"map":        "new Map()",
	"nullproto":  "Object.create(null)",
	"class":      "new (class A{})()",
	"arguments":  "(function(){return arguments})()",
	"typedarray": "new Uint8Array(2)",
	"error":      "new Error(\"x\")",
	"string":     "new String(\"ab\")",
	"date":       "new Date(0)",
	"boundfn":    "(function(){}).bind(null)",
}

var hostNames = []string{"object", "object", "array", "function", "map", "nullproto", "class", "arguments", "typedarray", "error", "string", "date", "boundfn"}

// hosts on which integer-keyed assignments are ordinary property creations. Error objects are left out:
// goja inserts their non-standard lazily created 'stack' property at the front of the string keys, which
// disturbs the position of integer keys ("7,stack,2,message") — a string-key matter outside this property.
func intKeysOK(host string) bool {
	switch host {
	case "object", "function", "map", "nullproto", "class", "date", "boundfn":
		return true
	}
	return false
}

func judgeSym(c *SymCase) (*evid.Failure, bool) {
	vm := goja.New()
	var log []string
	fail := func(key, msg string, exp, obs interface{}) *evid.Failure {
		return &evid.Failure{Check: "symtable", Key: key, Msg: msg + "\n--- script so far ---\n" + strings.Join(log, "\n"), Case: c, Expected: exp, Observed: obs}
	}
	if _, ok := hostExpr[c.Host]; !ok || len(c.Syms) == 0 {
		return &evid.Failure{Check: "symtable", Key: "harness", Msg: "bad case", Case: c}, false
	}
	var mine []string
	for i := len(c.Syms); i < c.nKeys(); i++ {
		mine = append(mine, strconv.Quote(strings.TrimPrefix(c.keyName(i), "k:"))+":1")
	}
	setup := "var S=[" + strings.Join(c.Syms, ",") + "];var MYK={__proto__:null," + strings.Join(mine, ",") + "};var GL=[];" +
		"function sid(k){if(typeof k===\"symbol\"){var i=S.indexOf(k);return i<0?\"othersym\":\"y\"+i}return (k in MYK)?\"k:\"+k:\"otherstr\"}" +
		"var O=" + hostExpr[c.Host] + ";var P=new Proxy(O,{});[]"
	log = append(log, setup)
	if o := jsx.RunString(vm, setup); o.Kind != "value" {
		return fail("symtable:setup", "setup failed: "+o.Text, nil, o.Text), false
	}
	m := &symModel{c: c, everDeleted: map[int]bool{}}
	if c.Host == "arguments" {
		has := false
		for _, e := range c.Syms {
			has = has || e == "Symbol.iterator"
		}
		if !has {
			return &evid.Failure{Check: "symtable", Key: "harness", Msg: "arguments host needs Symbol.iterator in the pool", Case: c}, false
		}
		// CreateUnmappedArgumentsObject / CreateMappedArgumentsObject define an own @@iterator (writable, not enumerable)
		for i, e := range c.Syms {
			if e == "Symbol.iterator" {
				m.syms = append(m.syms, sProp{key: i, val: -1, enum: false, wr: true})
			}
		}
	}
	for n := range c.Ops {
		op := &c.Ops[n]
		for _, k := range append([]int{op.I}, op.Keys...) {
			if k < 0 || k >= c.nKeys() {
				return &evid.Failure{Check: "symtable", Key: "harness", Msg: "key outside the pool", Case: c}, false
			}
		}
		src := c.opJS(op)
		log = append(log, src)
		want := m.exec(op)
		o := jsx.RunString(vm, src)
		key := "symtable:" + op.K + ":" + c.Host
		if op.P {
			key += ":proxy"
		}
		if o.Kind != "value" {
			return fail(key, fmt.Sprintf("op %d (%s) did not complete: %s\n%s", n, op.K, o.Text, o.Stack), want, o.Text), false
		}
		ro, ok := o.Value.(*goja.Object)
		if !ok {
			return &evid.Failure{Check: "symtable", Key: "harness", Msg: "result is not a list: " + src, Case: c}, false
		}
		cnt := int(ro.Get("length").ToInteger())
		var got []string
		seenSym := false
		for i := 0; i < cnt; i++ {
			v := ro.Get(strconv.Itoa(i))
			s := "<absent>"
			if v != nil {
				s = v.String()
			}
			isSymEntry := strings.HasPrefix(s, "y") || strings.HasPrefix(s, "othersym")
			if isSymEntry {
				seenSym = true
			} else if seenSym && (strings.HasPrefix(s, "k:") || strings.HasPrefix(s, "otherstr")) {
				return fail(key+":order", fmt.Sprintf("op %d: %s\n  a string key follows a symbol key in %v", n, src, s), "strings before symbols", s), false
			}
			if strings.HasPrefix(s, "othersym") || strings.HasPrefix(s, "otherstr") {
				continue // the host's own built-in properties
			}
			if op.K == "get" && strings.HasPrefix(s, "v:") && c.Host == "arguments" && want != nil && want[0] == "v:-1" {
				s = "v:-1" // the built-in @@iterator value of the arguments object
			}
			got = append(got, s)
		}
		ws, gs := strings.Join(want, " "), strings.Join(got, " ")
		if ws != gs {
			return fail(key, fmt.Sprintf("op %d: %s\n  observed: %s\n  expected: %s", n, src, gs, ws), ws, gs), false
		}
	}
	return nil, (m.readded && m.observedAfter) || m.mutatedInLoop
}

// ---------------------------------------------------------------- generator

var symExprs = []string{"Symbol(\"a\")", "Symbol(\"b\")", "Symbol()", "Symbol.for(\"r\")", "Symbol.iterator", "Symbol.toStringTag", "Symbol.hasInstance", "Symbol.species", "Symbol.unscopables", "Symbol(\"c\")", "Symbol.for(\"q\")"}

type rawSym struct {
	Sel, A, V int
	E, W, Acc bool
}

var rawSymGen = rapid.Custom(func(t *rapid.T) rawSym {
	return rawSym{Sel: uni(t, "sel", 100), A: uni(t, "a", 24), V: uni(t, "v", 100),
		E: uni(t, "enum", 4) > 0, W: uni(t, "wr", 4) > 0, Acc: uni(t, "acc", 3) == 0}
})

type rawSymTop struct {
	R    rawSym
	Sub  []rawSym
	Subs [][]rawSym
	Keys []int
}

var rawSymTopGen = rapid.Custom(func(t *rapid.T) rawSymTop {
	r := rawSymTop{R: rawSymGen.Draw(t, "r")}
	switch {
	case r.R.Sel >= 20 && r.R.Sel < 40 && r.R.Acc:
		r.Sub = rapid.SliceOfN(rawSymGen, uni(t, "ngsub", 3), 3).Draw(t, "gsub")
	case r.R.Sel >= 92:
		r.Subs = rapid.SliceOfN(rapid.SliceOfN(rawSymGen, 0, 2), uni(t, "nlsubs", 4), 4).Draw(t, "lsubs")
	case r.R.Sel >= 56 && r.R.Sel < 60:
		n := 1 + uni(t, "nkeys", 5)
		for i := 0; i < n; i++ {
			r.Keys = append(r.Keys, uni(t, "key", 24))
		}
	}
	return r
})

func genSymCase(t *rapid.T) *SymCase {
	c := &SymCase{Host: hostNames[uni(t, "host", len(hostNames))]}
	nsym := 3 + uni(t, "nsym", 4)
	perm := rapid.Permutation(symExprs).Draw(t, "syms")
	c.Syms = perm[:nsym]
	if c.Host == "arguments" {
		// an arguments object is born with an own @@iterator property: it must be one of the modelled symbols
		has := false
		for _, e := range c.Syms {
			has = has || e == "Symbol.iterator"
		}
		if !has {
			c.Syms = append(append([]string{}, c.Syms[:nsym-1]...), "Symbol.iterator")
		}
	}
	c.Strs = []string{"p", "q"}
	if intKeysOK(c.Host) {
		c.Ints = []int{7, 2}
	}
	nk := c.nKeys()
	key := func(a int) int {
		// two thirds of the choices fall on symbols
		if a%3 != 2 {
			return (a / 3) % nsym
		}
		return nsym + (a/3)%(nk-nsym)
	}
	mut := func(r rawSym) SymOp {
		switch {
		case r.Sel%10 < 4:
			return SymOp{K: "assign", I: key(r.A), V: r.V}
		case r.Sel%10 < 6:
			return SymOp{K: "define", I: key(r.A), V: r.V, Enum: r.E, Wr: r.W}
		case r.Sel%10 < 9:
			return SymOp{K: "delete", I: key(r.A)}
		}
		return SymOp{K: "rdelete", I: key(r.A)}
	}
	raws := rapid.SliceOfN(rawSymTopGen, 1+uni(t, "minops", 30), 40).Draw(t, "ops")
	for _, rt := range raws {
		r := rt.R
		var op SymOp
		switch {
		case r.Sel < 20:
			op = SymOp{K: "assign", I: key(r.A), V: r.V}
		case r.Sel < 40:
			op = SymOp{K: "define", I: key(r.A), V: r.V, Enum: r.E, Wr: r.W, Acc: r.Acc}
			if r.Acc {
				for _, s := range rt.Sub {
					op.Sub = append(op.Sub, mut(s))
				}
			}
		case r.Sel < 52:
			op = SymOp{K: "delete", I: key(r.A)}
		case r.Sel < 56:
			op = SymOp{K: "rdelete", I: key(r.A)}
		case r.Sel < 60:
			op = SymOp{K: "assignFrom", V: r.V}
			for _, k := range rt.Keys {
				op.Keys = append(op.Keys, key(k))
			}
			if len(op.Keys) == 0 {
				op.Keys = []int{key(r.A)}
			}
		case r.Sel < 64:
			op = SymOp{K: "get", I: key(r.A)}
		case r.Sel < 72:
			op = SymOp{K: "ownsyms", P: !r.W}
		case r.Sel < 79:
			op = SymOp{K: "ownkeys", P: !r.W}
		case r.Sel < 82:
			op = SymOp{K: "descs", P: !r.W}
		case r.Sel < 87:
			op = SymOp{K: "assignTo", P: !r.W}
		case r.Sel < 92:
			op = SymOp{K: "spread", P: !r.W}
		default:
			op = SymOp{K: "forOfSyms", P: !r.W}
			for _, subs := range rt.Subs {
				var l []SymOp
				for _, s := range subs {
					l = append(l, mut(s))
				}
				op.Subs = append(op.Subs, l)
			}
		}
		if op.P {
			evid.Count("symop:" + op.K + ":via-proxy")
		} else {
			evid.Count("symop:" + op.K)
		}
		c.Ops = append(c.Ops, op)
	}
	evid.Count("symhost:" + c.Host)
	return c
}
