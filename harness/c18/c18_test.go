package c18

import (
	"encoding/json"
	"os"
	"runtime/debug"
	"testing"

	"pgregory.net/rapid"

	"verifh/internal/evid"
)

func TestMain(m *testing.M) {
	// every case builds a fresh runtime and compiles ~40 tiny scripts: the live heap stays at a few MB, so a
	// lazier collector only saves time
	debug.SetGCPercent(800)
	evid.Main("C18", m)
}

func countOps(prefix string, ops []Op) {
	for i := range ops {
		op := &ops[i]
		l := prefix + op.K
		switch op.K {
		case "iter", "spread", "forEach", "construct", "export":
			l += ":" + op.Kind
		}
		evid.Count(l)
		for _, subs := range op.Sub {
			countOps("sub:", subs)
		}
	}
}

func TestQuickMapSet(t *testing.T) {
	evid.Check(t, "mapset", 20000, 3, func(t *rapid.T) {
		c, gs := genCase(t)
		b, _ := json.Marshal(c)
		f, s := judge(c)
		nontrivial := false
		if s != nil {
			nontrivial = s.m.iterAfterRemoval || s.m.crossRepr
			if s.m.iterAfterRemoval {
				evid.Count("witness:iterator-advanced-after-removal-behind-cursor")
			}
			if s.m.crossRepr {
				evid.Count("witness:lookup-through-other-representation")
			}
		}
		evid.Case(string(b), nontrivial)
		if c.Set {
			evid.Count("kind:set")
		} else {
			evid.Count("kind:map")
		}
		for i := range c.Pool {
			evid.Count("key:" + c.Pool[i].Prod)
		}
		countOps("op:", c.Ops)
		if gs.skipped > 0 {
			for i := 0; i < gs.skipped; i++ {
				evid.Excluded("export target whose documented precondition does not hold (object key into a Go map / non-string keys into a string-typed target)")
			}
		}
		if c.Set {
			evid.Sample("set", c)
		} else {
			evid.Sample("map", c)
		}
		evid.Judge(t, f)
	})
}

func TestQuickSymbols(t *testing.T) {
	evid.Check(t, "symtable", 8000, 3, func(t *rapid.T) {
		c := genSymCase(t)
		b, _ := json.Marshal(c)
		f, nontrivial := judgeSym(c)
		evid.Case(string(b), nontrivial)
		evid.Sample("symtable", c)
		evid.Judge(t, f)
	})
}

func TestReplay(t *testing.T) {
	p := os.Getenv("VERIF_REPLAY")
	if p == "" {
		t.Skip("no VERIF_REPLAY")
	}
	check, raw, err := evid.LoadReplay(p)
	if err != nil {
		t.Fatal(err)
	}
	switch check {
	case "mapset":
		var c Case
		if err := json.Unmarshal(raw, &c); err != nil {
			t.Fatal(err)
		}
		f, _ := judge(&c)
		evid.Direct(t, f)
	case "symtable":
		var c SymCase
		if err := json.Unmarshal(raw, &c); err != nil {
			t.Fatal(err)
		}
		f, _ := judgeSym(&c)
		evid.Direct(t, f)
	default:
		t.Fatalf("unknown check %q", check)
	}
}
