package c18

// Reference model for Map / Set written from ECMA-262 (sec. 24.1 / 24.2):
// [[MapData]] / [[SetData]] is an append-only List of records; delete and clear
// replace key (and value) by ~empty~ and never shrink the List; iterators
// (CreateMapIterator / CreateSetIterator) and forEach keep an integer index
// into that List and re-read its length after every resumption / callback.
// Nothing here looks at goja.

import (
	"math"
	"strconv"
	"strings"
)

// AV is an abstract ECMAScript value: just enough to decide SameValueZero and
// to print a canonical description.
type AV struct {
	T  string `json:"t"`            // num str big bool null undef obj sym
	N  string `json:"n,omitempty"`  // num: float64 bits in hex
	S  string `json:"s,omitempty"`  // str: content (well-formed Unicode); big: decimal; bool: "true"/"false"
	ID int    `json:"id,omitempty"` // obj / sym identity
}

func numAV(f float64) AV { return AV{T: "num", N: strconv.FormatUint(math.Float64bits(f), 16)} }

// unresolved reports a number whose value is only known once the case runs (the
// address of a pool object, used to build three-way hash collisions); until then
// it is only equal to itself.
func (a AV) unresolved() bool { return a.T == "num" && strings.HasPrefix(a.N, "addr") }

func (a AV) num() float64 {
	b, _ := strconv.ParseUint(a.N, 16, 64)
	return math.Float64frombits(b)
}

// sameValueZero is 7.2.12 SameValueZero on abstract values.
func sameValueZero(a, b AV) bool {
	if a.T != b.T {
		return false
	}
	switch a.T {
	case "num":
		if a.unresolved() || b.unresolved() {
			return a.N == b.N
		}
		x, y := a.num(), b.num()
		if math.IsNaN(x) && math.IsNaN(y) {
			return true
		}
		return x == y // +0 == -0
	case "str", "big", "bool":
		return a.S == b.S
	case "null", "undef":
		return true
	case "obj", "sym":
		return a.ID == b.ID
	}
	return false
}

func fmtF(f float64) string {
	if math.IsNaN(f) {
		return "NaN"
	}
	if f == 0 && math.Signbit(f) {
		return "-0"
	}
	return strconv.FormatFloat(f, 'g', -1, 64)
}

// descr is the canonical text of a value as ECMAScript code can observe it
// (the sign of zero is visible, the NaN payload is not).
func (a AV) descr() string {
	switch a.T {
	case "num":
		return "n:" + fmtF(a.num())
	case "str":
		return "s:" + strconv.Quote(a.S)
	case "big":
		return "b:" + a.S
	case "bool":
		return a.S
	case "null":
		return "null"
	case "undef":
		return "undef"
	case "obj":
		return "o#" + strconv.Itoa(a.ID)
	case "sym":
		return "y#" + strconv.Itoa(a.ID)
	}
	return "?"
}

// exportDescr is the canonical text of what Value.Export() is documented to
// give for the value: null and undefined both export as nil, an ordinary
// object as map[string]interface{} of its own enumerable string properties
// (pool objects are {id: ID}). The export of a symbol is not documented: the
// expectation is whatever exporting that symbol directly gives (symExp).
func (a AV) exportDescr(symExp map[int]string) string {
	switch a.T {
	case "null", "undef":
		return "nil"
	case "sym":
		return symExp[a.ID]
	}
	return a.descr()
}

func normKey(a AV) AV {
	if a.T == "num" && !a.unresolved() && a.num() == 0 {
		return numAV(0) // Map.prototype.set step 5 / Set.prototype.add step 4: -0 becomes +0
	}
	return a
}

type mEntry struct {
	key     AV
	val     AV
	by      int // pool index whose representation was stored (-1: not from the pool)
	deleted bool
}

type mIter struct {
	kind   string // entries keys values default
	pos    int
	done   bool
	lagged bool // a delete/clear emptied a record at an index < pos (i.e. at or before the cursor)
}

type model struct {
	isSet bool
	log   []mEntry
	iters [3]*mIter
	// non-triviality witnesses
	iterAfterRemoval bool // a live iterator was advanced after a delete/clear that emptied a record at or before its cursor
	crossRepr        bool // a lookup hit a stored key through a different representation
	live             []*mIter
}

func (m *model) find(k AV) int {
	for i := range m.log {
		if !m.log[i].deleted && sameValueZero(m.log[i].key, k) {
			return i
		}
	}
	return -1
}

func (m *model) size() int {
	n := 0
	for i := range m.log {
		if !m.log[i].deleted {
			n++
		}
	}
	return n
}

func (m *model) set(k, v AV, by int) {
	i := m.find(k)
	if i >= 0 {
		m.log[i].val = v
		return
	}
	m.log = append(m.log, mEntry{key: normKey(k), val: v, by: by})
}

func (m *model) get(k AV, by int) (AV, bool) {
	i := m.find(k)
	if i < 0 {
		return AV{T: "undef"}, false
	}
	return m.log[i].val, true
}

func (m *model) has(k AV, by int) bool {
	i := m.find(k)
	return i >= 0
}

func (m *model) markRemoved(idx int) {
	for _, it := range m.live {
		if !it.done && idx < it.pos {
			it.lagged = true
		}
	}
}

func (m *model) del(k AV, by int) bool {
	i := m.find(k)
	if i < 0 {
		return false
	}
	m.log[i].deleted = true
	m.markRemoved(i)
	return true
}

func (m *model) clear() {
	for i := range m.log {
		if !m.log[i].deleted {
			m.log[i].deleted = true
			m.markRemoved(i)
		}
	}
}

func (m *model) newIter(kind string) *mIter {
	it := &mIter{kind: kind}
	m.live = append(m.live, it)
	return it
}

// next is one resumption of the CreateMapIterator closure: scan from the saved
// index to the current end of the List, skipping ~empty~ records; once the
// closure has returned the iterator stays done.
func (m *model) next(it *mIter) (e *mEntry, done bool) {
	if it.done {
		return nil, true
	}
	if it.lagged {
		m.iterAfterRemoval = true
	}
	for it.pos < len(m.log) {
		x := &m.log[it.pos]
		it.pos++
		if !x.deleted {
			return x, false
		}
	}
	it.done = true
	return nil, true
}

// liveEntries lists the present records in List order.
func (m *model) liveEntries() []mEntry {
	var out []mEntry
	for _, e := range m.log {
		if !e.deleted {
			out = append(out, e)
		}
	}
	return out
}

func (m *model) iterValue(kind string, e *mEntry) []string {
	if m.isSet {
		switch kind {
		case "entries":
			return []string{"pair", e.key.descr(), e.key.descr()}
		}
		return []string{e.key.descr()}
	}
	switch kind {
	case "keys":
		return []string{e.key.descr()}
	case "values":
		return []string{e.val.descr()}
	}
	return []string{"pair", e.key.descr(), e.val.descr()}
}
