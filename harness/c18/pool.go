package c18

// Key pool: 12 keys per case, built from value classes; a class contributes
// one to three *representations* (different producers) of the same abstract
// value, so that SameValueZero-equal keys with different internal forms meet
// in one collection. The abstract value of every producer is known by
// construction and is re-checked on the Go side when the pool is installed.

import (
	"fmt"
	"math"
	"math/big"
	"strconv"
	"strings"
	"unicode/utf16"

	"pgregory.net/rapid"

	"verifh/internal/jsx"
)

type GoVal struct {
	Type string `json:"type"`
	Repr string `json:"repr"`
}

type Key struct {
	Expr string `json:"expr,omitempty"` // JS expression (may mention K[j], j smaller); empty when injected from Go
	Go   *GoVal `json:"go,omitempty"`
	AV   AV     `json:"av"`
	Prod string `json:"prod"`
}

const poolSize = 12

// uni draws an (almost) uniform integer in [0,n). rapid's own integer and
// SampledFrom generators are deliberately biased towards small values, which
// would starve most producers and operation kinds; fair coin flips are not.
func uni(t *rapid.T, label string, n int) int {
	if n <= 1 {
		return 0
	}
	bits := 0
	for n > 1<<bits {
		bits++
	}
	bits += 2
	v := 0
	for i := bits - 1; i >= 0; i-- {
		if rapid.Bool().Draw(t, label) {
			v |= 1 << i
		}
	}
	return v * n >> bits
}

func isInt(v float64) bool { return v == math.Trunc(v) && !math.IsInf(v, 0) }
func two(n int) float64    { return math.Ldexp(1, n) }

type cand struct {
	name string
	expr string
	gv   *GoVal
}

func f64bits(f float64) string { return strconv.FormatUint(math.Float64bits(f), 16) }

func goNum(typ string, v float64) *GoVal {
	switch typ {
	case "float64", "float32":
		return &GoVal{Type: typ, Repr: f64bits(v)}
	case "uint64":
		return &GoVal{Type: typ, Repr: strconv.FormatUint(uint64(v), 10)}
	}
	return &GoVal{Type: typ, Repr: strconv.FormatInt(int64(v), 10)}
}

func numCands(v float64) []cand {
	lit := jsx.NumLit(v)
	str := jsx.NumberToString(v)
	var c []cand
	add := func(name, expr string) { c = append(c, cand{name: name, expr: expr}) }
	addGo := func(typ string) { c = append(c, cand{name: "go:" + typ, gv: goNum(typ, v)}) }
	switch {
	case math.IsNaN(v):
		add("lit", "NaN")
		add("div", "(0/0)")
		add("Number.NaN", "Number.NaN")
		add("sqrt", "Math.sqrt(-1)")
		add("number", `Number("x")`)
		add("parseInt", `parseInt("x")`)
		add("neg", "(-(0/0))")
		add("f64payload", "new Float64Array(new Uint32Array([1,0x7ff80000]).buffer)[0]")
		add("f64negnan", "new Float64Array(new Uint32Array([0,0xfff80000]).buffer)[0]")
		add("f64snan", "new Float64Array(new Uint32Array([1,0x7ff00000]).buffer)[0]")
		add("f32", "new Float32Array([NaN])[0]")
		add("f32payload", "new Float32Array(new Uint32Array([0x7fc00001]).buffer)[0]")
		add("dataview", "new DataView(new Uint8Array([0x7f,0xf8,0,0,0,0,0,7]).buffer).getFloat64(0)")
		add("undefplus", "(undefined+1)")
		add("infsub", "(Infinity-Infinity)")
		c = append(c, cand{name: "go:float64", gv: &GoVal{Type: "float64", Repr: f64bits(math.NaN())}})
		c = append(c, cand{name: "go:float64payload", gv: &GoVal{Type: "float64", Repr: "7ff8000000000123"}})
		c = append(c, cand{name: "go:float64negnan", gv: &GoVal{Type: "float64", Repr: "fff8000000000000"}})
		c = append(c, cand{name: "go:float32", gv: &GoVal{Type: "float32", Repr: f64bits(math.NaN())}})
		return c
	case math.IsInf(v, 0):
		add("lit", lit)
		if v > 0 {
			add("div", "(1/0)")
			add("const", "Number.POSITIVE_INFINITY")
			add("pow", "Math.pow(10,400)")
			add("biglit", "1e999")
		} else {
			add("div", "(-1/0)")
			add("const", "Number.NEGATIVE_INFINITY")
			add("log", "Math.log(0)")
		}
		addGo("float64")
		addGo("float32")
		return c
	case v == 0 && !math.Signbit(v):
		add("lit", "0")
		add("dotzero", "0.0")
		add("sub", "(1-1)")
		add("abs", "Math.abs(-0)")
		add("f64", "new Float64Array(1)[0]")
		add("number", `Number("")`)
		add("parseInt", `parseInt("0")`)
		add("bitor", "(-0|0)")
		add("negneg", "(-(-0))")
		add("addzeros", "(-0+0)")
		add("inc", `(function(){var x="-1";x++;return x})()`)
		add("arrlen", "[].length")
		addGo("float64")
		addGo("int64")
		addGo("int")
		addGo("uint8")
		addGo("float32")
		return c
	case v == 0:
		add("lit", "(-0)")
		add("mul", "(0*-1)")
		add("dotzero", "(-0.0)")
		add("round", "Math.round(-0.4)")
		add("f64", "new Float64Array([-0])[0]")
		add("div", "(0/-5)")
		add("negabs", "(-Math.abs(0))")
		add("number", `Number("-0")`)
		add("parseFloat", `parseFloat("-0")`)
		add("json", `JSON.parse("-0")`)
		add("min", "Math.min(0,-0)")
		add("dec", `(function(){var x=-0;x--;x++;return -0*(x+1)})()`)
		add("f32", "new Float32Array([-0])[0]")
		addGo("float64")
		addGo("float32")
		return c
	}
	add("lit", lit)
	if !math.IsInf(2*v, 0) {
		add("half", "("+jsx.NumLit(2*v)+"/2)")
	}
	add("f64", "new Float64Array(["+lit+"])[0]")
	add("number", `Number("`+str+`")`)
	add("plus", `(+"`+str+`")`)
	add("json", `JSON.parse("`+str+`")`)
	add("mul", "("+lit+"*1)")
	add("neg", "(-"+jsx.NumLit(-v)+")")
	addGo("float64")
	if float64(float32(v)) == v {
		addGo("float32")
		add("f32", "new Float32Array(["+lit+"])[0]")
	}
	if isInt(v) {
		a := math.Abs(v)
		if a < two(53) {
			add("inc", `(function(){var x="`+jsx.NumberToString(v-1)+`";x++;return x})()`)
			add("dec", `(function(){var x="`+jsx.NumberToString(v+1)+`";x--;return x})()`)
		}
		if v >= 0 && v <= two(26) {
			add("sqrt", "Math.sqrt("+jsx.NumLit(v*v)+")")
		}
		if a < 1e21 {
			add("parseInt", `parseInt("`+str+`")`)
			if v >= 0 {
				add("dotzero", str+".0")
			} else {
				add("dotzero", "(-"+jsx.NumberToString(-v)+".0)")
			}
		}
		if a < two(51) {
			add("floor", "Math.floor("+jsx.NumLit(v+0.5)+")")
			add("addsub", "(("+lit+"+0.5)-0.5)")
		}
		if a < two(31) {
			add("bitor", "("+lit+"|0)")
			addGo("int32")
		}
		if v >= 0 && v < two(32) {
			add("ushr", "("+lit+">>>0)")
			addGo("uint32")
		}
		if v >= 0 && v <= 64 {
			add("arrlen", "new Array("+str+").length")
			add("strlen", `"x".repeat(`+str+`).length`)
		}
		if v >= 0 && v < 256 {
			addGo("uint8")
			add("u8", "new Uint8Array(["+lit+"])[0]")
		}
		if a < two(63) {
			addGo("int64")
			addGo("int")
		}
		if v >= 0 && v < two(64) {
			addGo("uint64")
		}
	} else {
		add("parseFloat", `parseFloat("`+str+`")`)
	}
	return c
}

func splitRunes(s string, p int) (string, string) {
	r := []rune(s)
	if p > len(r) {
		p = len(r)
	}
	return string(r[:p]), string(r[p:])
}

func strCands(s string, p int, asciiSrc bool) []cand {
	lit := jsx.StrLitGo(s, asciiSrc)
	a, b := splitRunes(s, p)
	la, lb := jsx.StrLitGo(a, asciiSrc), jsx.StrLitGo(b, asciiSrc)
	var c []cand
	add := func(name, expr string) { c = append(c, cand{name: name, expr: expr}) }
	add("lit", lit)
	add("esc", jsx.StrLitGo(s, true))
	add("slice", `("é"+`+lit+`).slice(1)`)
	add("sliceend", `(`+lit+`+"é").slice(0,-1)`)
	add("substr2", `("日x"+`+lit+`).substring(2)`)
	c = append(c, cand{name: "go:string", gv: &GoVal{Type: "string", Repr: s}})
	add("concat", "("+la+"+"+lb+")")
	add("join", "["+la+","+lb+`].join("")`)
	add("tmpl", "`${"+la+"}${"+lb+"}`")
	add("concatm", la+".concat("+lb+")")
	add("json", "JSON.parse(JSON.stringify("+lit+"))")
	add("strobj", "new String("+lit+").valueOf()")
	add("String", "String("+lit+")")
	add("desc", "Symbol("+lit+").description")
	add("key", "Object.keys({["+lit+"]:1})[0]")
	add("splitjoin", lit+`.split("").join("")`)
	add("uri", "decodeURIComponent(encodeURIComponent("+lit+"))")
	add("asciislice", `("xx"+`+lit+`).slice(2)`)
	u := utf16.Encode([]rune(s))
	if len(u) > 0 {
		parts := make([]string, len(u))
		for i, x := range u {
			parts[i] = strconv.Itoa(int(x))
		}
		add("fcc", "String.fromCharCode("+strings.Join(parts, ",")+")")
		rs := []rune(s)
		cps := make([]string, len(rs))
		for i, x := range rs {
			cps[i] = strconv.Itoa(int(x))
		}
		add("fcp", "String.fromCodePoint("+strings.Join(cps, ",")+")")
		add("spreadjoin", "[..."+lit+`].join("")`)
		add("replace", lit+".replace(/^/,\"\")")
	}
	switch s {
	case "2":
		add("tostr", "String(2)")
		add("tostr2", "(2).toString()")
		add("tostr3", `(""+2)`)
	case "10":
		add("tostr", "String(10)")
		add("tostr2", "String(10n)")
		add("tostr3", "(1e1).toString()")
	case "0":
		add("tostr", "String(-0)")
		add("tostr2", `(""+0)`)
		add("tostr3", "(0n).toString()")
	case "NaN":
		add("tostr", "String(NaN)")
		add("tostr2", `(""+0/0)`)
	case "null":
		add("tostr", "String(null)")
		add("tostr2", "`${null}`")
	case "undefined":
		add("tostr", "String(undefined)")
		add("tostr2", "typeof undefined")
	case "true":
		add("tostr", "String(true)")
		add("tostr2", "(!0).toString()")
	}
	return c
}

func bigCands(v *big.Int) []cand {
	s := v.String()
	lit := s + "n"
	if v.Sign() < 0 {
		lit = "(" + lit + ")"
	}
	var c []cand
	add := func(name, expr string) { c = append(c, cand{name: name, expr: expr}) }
	add("lit", lit)
	add("ctorstr", `BigInt("`+s+`")`)
	five := big.NewInt(5)
	add("add", "("+new(big.Int).Sub(v, five).String()+"n+5n)")
	add("sub", "("+new(big.Int).Add(v, five).String()+"n-5n)")
	add("neg", "(-("+new(big.Int).Neg(v).String()+"n))")
	add("mul1", "("+lit+"*1n)")
	add("asIntN", "BigInt.asIntN(200,"+lit+")")
	add("dbl", "("+new(big.Int).Mul(v, big.NewInt(2)).String()+"n/2n)")
	c = append(c, cand{name: "go:bigint", gv: &GoVal{Type: "bigint", Repr: s}})
	if new(big.Int).Abs(v).Cmp(big.NewInt(1<<53)) <= 0 {
		add("ctornum", "BigInt("+s+")")
	}
	if v.Sign() >= 0 {
		add("hex", `BigInt("0x`+v.Text(16)+`")`)
		add("asUintN", "BigInt.asUintN(200,"+lit+")")
	}
	if v.Sign() > 0 && v.BitLen() > 1 && new(big.Int).Lsh(big.NewInt(1), uint(v.BitLen()-1)).Cmp(v) == 0 {
		e := strconv.Itoa(v.BitLen() - 1)
		add("shift", "(1n<<"+e+"n)")
		add("pow", "(2n**"+e+"n)")
	}
	if v.Sign() == 0 {
		add("negzero", "(-0n)")
		add("mulneg", "(0n*-1n)")
		add("subself", "(7n-7n)")
	}
	return c
}

func boolCands(b bool) []cand {
	if b {
		return []cand{{name: "lit", expr: "true"}, {name: "not", expr: "(!0)"}, {name: "eq", expr: "(1==1)"}, {name: "Boolean", expr: "Boolean(1)"}, {name: "notnot", expr: `(!!"x")`},
			{name: "go:bool", gv: &GoVal{Type: "bool", Repr: "true"}}, {name: "json", expr: `JSON.parse("true")`}, {name: "isNaN", expr: "isNaN(NaN)"}}
	}
	return []cand{{name: "lit", expr: "false"}, {name: "not", expr: "(!1)"}, {name: "eq", expr: "(1==2)"}, {name: "Boolean", expr: "Boolean(0)"}, {name: "notnot", expr: `(!!"")`},
		{name: "go:bool", gv: &GoVal{Type: "bool", Repr: "false"}}, {name: "json", expr: `JSON.parse("false")`}, {name: "isNaN", expr: "isNaN(1)"}}
}

func nullCands() []cand {
	return []cand{{name: "lit", expr: "null"}, {name: "json", expr: `JSON.parse("null")`}, {name: "go:nil", gv: &GoVal{Type: "nil"}}, {name: "go:null", gv: &GoVal{Type: "null"}},
		{name: "proto", expr: "Object.getPrototypeOf(Object.prototype)"}, {name: "match", expr: `"a".match(/b/)`}}
}

func undefCands() []cand {
	return []cand{{name: "lit", expr: "undefined"}, {name: "void", expr: "(void 0)"}, {name: "hole", expr: "[][0]"}, {name: "call", expr: "(function(){})()"},
		{name: "prop", expr: "({}).x"}, {name: "go:undefined", gv: &GoVal{Type: "undefined"}}, {name: "holelit", expr: "[,1][0]"}, {name: "mapget", expr: "new Map().get(1)"}}
}

var numTargets = []float64{1, 2, 3, 7, 10, 64, 255, 256, 65536, 2147483647, 2147483648, 4294967295, 4294967296, 9007199254740991, 9007199254740992,
	-1, -2, -10, -2147483648, -2147483649, 0.5, 1.5, -0.5, 2.25, 0.1, 1e21, 1e300, -1e21, 9223372036854775808, 18446744073709551616, 5e-324, 1.7976931348623157e308}

var strTargets = []string{"", "a", "ab", "2", "10", "0", "NaN", "null", "undefined", "true", "abcdefghijklmno", "abcdefghijklmnop", "abcdefghijklmnopq",
	"the quick brown fox jumps over", "é", "éa", "aé", "日本語", "ααααααααααααααααα",
	"a\U0001F600b", "\U0001F600", "abcdefghijklmné", "abcdefgé", "constructor", "__proto__", "length", "\u0000", "a\u0000b", "ÿ", "Ā"}

var bigTargets = []string{"0", "1", "2", "10", "-10", "-1", "255", "9007199254740993", "9223372036854775807", "9223372036854775808", "18446744073709551615", "18446744073709551616",
	"-9223372036854775808", "-9223372036854775809", "1180591620717411303424", "-1180591620717411303424", "1000000000000000000000000000000", "340282366920938463463374607431768211456"}

// genPool draws the key pool. Classes: nan zero num str big bool null undef obj sym.
func genPool(t *rapid.T) []Key {
	var pool []Key
	nextID := 1
	classW := []string{"nan", "zero", "zero", "num", "num", "num", "str", "str", "str", "big", "big", "bool", "null", "undef", "obj", "sym", "inf", "collide", "collide", "collide3"}
	pick := func(cs []cand, label string, n int) {
		// n distinct producers where possible
		used := map[int]bool{}
		for k := 0; k < n && len(pool) < poolSize; k++ {
			i := uni(t, label, len(cs))
			for tries := 0; used[i] && tries < len(cs); tries++ {
				i = (i + 1) % len(cs)
			}
			used[i] = true
			pool = append(pool, Key{Expr: cs[i].expr, Go: cs[i].gv, Prod: cs[i].name})
		}
	}
	for len(pool) < poolSize {
		cls := classW[uni(t, "class", len(classW))]
		reps := 1 + uni(t, "reps", 3)
		start := len(pool)
		var av AV
		switch cls {
		case "nan":
			av = numAV(math.NaN())
			pick(numCands(math.NaN()), "nanprod", reps)
		case "inf":
			v := math.Inf(1)
			if rapid.Bool().Draw(t, "neginf") {
				v = math.Inf(-1)
			}
			av = numAV(v)
			pick(numCands(v), "infprod", reps)
		case "zero":
			// the two zeros are one SameValueZero class: mix their producers
			for k := 0; k < reps && len(pool) < poolSize; k++ {
				z := 0.0
				if rapid.Bool().Draw(t, "negzero") {
					z = math.Copysign(0, -1)
				}
				s := len(pool)
				pick(numCands(z), "zeroprod", 1)
				for i := s; i < len(pool); i++ {
					pool[i].AV = numAV(z)
					pool[i].Prod = "zero" + map[bool]string{true: "-", false: "+"}[math.Signbit(z)] + ":" + pool[i].Prod
				}
			}
			continue
		case "collide3":
			// an object (or symbol) hashes to its address; the integer with that value and the subnormal double with
			// that bit pattern hash to the same code: three different keys in one bucket chain. The address is only
			// known when the case runs, so the two numbers are injected from Go by the judge ("addrof"/"addrbits").
			if len(pool)+3 > poolSize {
				continue
			}
			id := nextID
			nextID++
			first := len(pool)
			if rapid.Bool().Draw(t, "c3sym") {
				pool = append(pool, Key{Expr: `Symbol("y` + strconv.Itoa(id) + `")`, Prod: "collide3:sym", AV: AV{T: "sym", ID: id}})
			} else {
				pool = append(pool, Key{Expr: "({id:" + strconv.Itoa(id) + "})", Prod: "collide3:obj", AV: AV{T: "obj", ID: id}})
			}
			pool = append(pool, Key{Go: &GoVal{Type: "addrof", Repr: strconv.Itoa(first)}, Prod: "collide3:addrof", AV: AV{T: "num", N: "addr:" + strconv.Itoa(first)}})
			pool = append(pool, Key{Go: &GoVal{Type: "addrbits", Repr: strconv.Itoa(first)}, Prod: "collide3:addrbits", AV: AV{T: "num", N: "addrbits:" + strconv.Itoa(first)}})
			continue
		case "collide":
			// two different values whose goja hash codes coincide (read off the hash methods: a small integer n hashes
			// to n and a double to its bit pattern; a BigInt hashes its sign byte followed by its magnitude bytes like
			// an ASCII string of those bytes), so that both share one hash bucket chain
			type pair struct {
				a, b   AV
				ca, cb []cand
			}
			var pr pair
			if rapid.Bool().Draw(t, "collidenum") {
				n := []float64{1, 2, 3, 5, 7, 10, 255, 65536}[uni(t, "colliden", 8)]
				sub := math.Float64frombits(uint64(n))
				pr = pair{a: numAV(n), b: numAV(sub), ca: numCands(n), cb: numCands(sub)}
			} else {
				type sb struct{ s, b string }
				x := []sb{{"\x00A", "65"}, {"\x01A", "-65"}, {"\x00", "0"}, {"\x00abcdefghijklmnopq", "33138170008581644921966763215603966636145"}, {"\x01\x7f", "-127"}}[uni(t, "collides", 5)]
				bv, _ := new(big.Int).SetString(x.b, 10)
				pr = pair{a: AV{T: "str", S: x.s}, b: AV{T: "big", S: x.b}, ca: strCands(x.s, uni(t, "split", len(x.s)+1), true), cb: bigCands(bv)}
			}
			for k := 0; k < reps && len(pool) < poolSize; k++ {
				for side := 0; side < 2 && len(pool) < poolSize; side++ {
					s0 := len(pool)
					if side == 0 {
						pick(pr.ca, "collprodA", 1)
					} else {
						pick(pr.cb, "collprodB", 1)
					}
					for i := s0; i < len(pool); i++ {
						pool[i].AV = []AV{pr.a, pr.b}[side]
						pool[i].Prod = "collide-" + pool[i].AV.T + ":" + pool[i].Prod
					}
				}
			}
			continue
		case "num":
			v := numTargets[uni(t, "numtarget", len(numTargets))]
			av = numAV(v)
			pick(numCands(v), "numprod", reps)
		case "str":
			s := strTargets[uni(t, "strtarget", len(strTargets))]
			av = AV{T: "str", S: s}
			p := uni(t, "split", len([]rune(s))+1)
			pick(strCands(s, p, rapid.Bool().Draw(t, "asciisrc")), "strprod", reps)
		case "big":
			s := bigTargets[uni(t, "bigtarget", len(bigTargets))]
			v, _ := new(big.Int).SetString(s, 10)
			av = AV{T: "big", S: s}
			pick(bigCands(v), "bigprod", reps)
		case "bool":
			b := rapid.Bool().Draw(t, "boolv")
			av = AV{T: "bool", S: strconv.FormatBool(b)}
			pick(boolCands(b), "boolprod", reps)
		case "null":
			av = AV{T: "null"}
			pick(nullCands(), "nullprod", reps)
		case "undef":
			av = AV{T: "undef"}
			pick(undefCands(), "undefprod", reps)
		case "obj":
			id := nextID
			nextID++
			av = AV{T: "obj", ID: id}
			first := len(pool)
			pool = append(pool, Key{Expr: "({id:" + strconv.Itoa(id) + "})", Prod: "fresh"})
			for k := 1; k < reps && len(pool) < poolSize; k++ {
				ref := "K[" + strconv.Itoa(first) + "]"
				al := []cand{{name: "alias", expr: ref}, {name: "Object()", expr: "Object(" + ref + ")"}, {name: "viaarr", expr: "[" + ref + "][0]"}, {name: "viafn", expr: "(function(x){return x})(" + ref + ")"}}
				i := uni(t, "objalias", len(al))
				pool = append(pool, Key{Expr: al[i].expr, Prod: al[i].name})
			}
		case "sym":
			id := nextID
			nextID++
			av = AV{T: "sym", ID: id}
			first := len(pool)
			desc := `"y` + strconv.Itoa(id) + `"`
			if rapid.Bool().Draw(t, "registered") {
				pool = append(pool, Key{Expr: "Symbol.for(" + desc + ")", Prod: "Symbol.for"})
				for k := 1; k < reps && len(pool) < poolSize; k++ {
					ref := "K[" + strconv.Itoa(first) + "]"
					al := []cand{{name: "Symbol.for2", expr: "Symbol.for(" + desc + ")"}, {name: "keyFor", expr: "Symbol.for(Symbol.keyFor(" + ref + "))"}, {name: "unwrap", expr: "Object(" + ref + ").valueOf()"}}
					i := uni(t, "symalias", len(al))
					pool = append(pool, Key{Expr: al[i].expr, Prod: al[i].name})
				}
			} else {
				pool = append(pool, Key{Expr: "Symbol(" + desc + ")", Prod: "Symbol"})
				for k := 1; k < reps && len(pool) < poolSize; k++ {
					ref := "K[" + strconv.Itoa(first) + "]"
					al := []cand{{name: "alias", expr: ref}, {name: "unwrap", expr: "Object(" + ref + ").valueOf()"}, {name: "ownsyms", expr: "Object.getOwnPropertySymbols({[" + ref + "]:1})[0]"}}
					i := uni(t, "symalias", len(al))
					pool = append(pool, Key{Expr: al[i].expr, Prod: al[i].name})
				}
			}
		}
		for i := start; i < len(pool); i++ {
			pool[i].AV = av
			pool[i].Prod = cls + ":" + pool[i].Prod
		}
	}
	// Go-injected values are referred to as G<i>
	for i := range pool {
		if pool[i].Go != nil {
			pool[i].Expr = ""
		}
	}
	return pool
}

func (k *Key) jsExpr(i int) string {
	if k.Go != nil {
		return "G" + strconv.Itoa(i)
	}
	return k.Expr
}

func (g *GoVal) value() (interface{}, error) {
	switch g.Type {
	case "string":
		return g.Repr, nil
	case "bool":
		return g.Repr == "true", nil
	case "nil":
		return nil, nil
	case "bigint":
		v, ok := new(big.Int).SetString(g.Repr, 10)
		if !ok {
			return nil, fmt.Errorf("bad bigint %q", g.Repr)
		}
		return v, nil
	case "float64", "float32":
		b, err := strconv.ParseUint(g.Repr, 16, 64)
		if err != nil {
			return nil, err
		}
		f := math.Float64frombits(b)
		if g.Type == "float32" {
			return float32(f), nil
		}
		return f, nil
	case "uint64", "uint32", "uint8":
		u, err := strconv.ParseUint(g.Repr, 10, 64)
		if err != nil {
			return nil, err
		}
		switch g.Type {
		case "uint32":
			return uint32(u), nil
		case "uint8":
			return uint8(u), nil
		}
		return u, nil
	case "int64", "int32", "int":
		n, err := strconv.ParseInt(g.Repr, 10, 64)
		if err != nil {
			return nil, err
		}
		switch g.Type {
		case "int32":
			return int32(n), nil
		case "int":
			return int(n), nil
		}
		return n, nil
	}
	return nil, fmt.Errorf("unknown go value type %q", g.Type)
}
