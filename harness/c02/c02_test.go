package c02

import (
	"encoding/json"
	"fmt"
	"os"
	"reflect"
	"strings"
	"testing"

	"github.com/dop251/goja"
	"pgregory.net/rapid"

	"verifh/internal/evid"
	"verifh/internal/jsgen/j0"
	"verifh/internal/refjs"
	"verifh/internal/refjs/gojarun"
)

func TestMain(m *testing.M) { evid.Main("C02", m) }

// Case is a J0 program with the mode and placement it is run in, plus the
// rewrites to apply (metamorphic half).
type Case struct {
	Prog      *refjs.Node `json:"prog"`
	Strict    bool        `json:"strict"`
	Placement string      `json:"placement"`
	Rewrites  []string    `json:"rewrites"`
	Source    string      `json:"source,omitempty"` // informational: printed text handed to goja
}

var rewriteNames = []string{"R1-const-to-var", "R2-capture", "R3-dynamic-scope", "R5-dead-code", "R7-eval-function", "R6-block-wrap"}

// ---- rewrites (each preserves J0 semantics by the specification) ----

func walk(n *refjs.Node, f func(parent *refjs.Node, idx int, n *refjs.Node)) {
	if n == nil {
		return
	}
	for i, k := range n.Kids {
		if k != nil {
			f(n, i, k)
			walk(k, f)
		}
	}
}

// collectIds returns every identifier name used in the program.
func collectIds(p *refjs.Node) []string {
	seen := map[string]bool{}
	var out []string
	walk(p, func(_ *refjs.Node, _ int, n *refjs.Node) {
		if n.K == "id" && !seen[n.S] {
			seen[n.S] = true
			out = append(out, n.S)
		}
	})
	return out
}

func isExprPosition(parent *refjs.Node, idx int) bool {
	switch parent.K {
	case "bin", "logical", "cond", "seq", "new", "arr", "unary", "return", "throw", "expr", "if", "while", "dowhile", "spread", "paren", "yield", "await":
		if parent.K == "unary" && (parent.S == "delete" || parent.S == "typeof") {
			return false
		}
		return true
	case "call":
		return true
	case "tmpl":
		return idx%2 == 1
	case "assign":
		return idx == 1
	case "declarator", "default":
		return idx == 1
	case "dot":
		return idx == 0
	case "idx":
		return true
	}
	return false
}

// R1: replace literals in expression positions by variables that hold the same constant.
func rewriteConstToVar(p *refjs.Node) (*refjs.Node, bool) {
	q := p.Clone()
	var decls []*refjs.Node
	n := 0
	walk(q, func(parent *refjs.Node, idx int, k *refjs.Node) {
		if n >= 6 || !isExprPosition(parent, idx) {
			return
		}
		switch k.K {
		case "num", "str", "bool", "null":
			name := fmt.Sprintf("__k%d", n)
			n++
			lit := k.Clone()
			decls = append(decls, refjs.VarDecl("let", refjs.Declarator(refjs.Id(name), lit))) // let: not a property of the global object
			parent.Kids[idx] = refjs.Id(name)
		}
	})
	if n == 0 {
		return nil, false
	}
	q.Kids = insertAfterDirectives(q.Kids, decls...)
	return q, true
}

func insertAfterDirectives(body []*refjs.Node, extra ...*refjs.Node) []*refjs.Node {
	i := 0
	for i < len(body) && body[i] != nil && body[i].K == "directive" {
		i++
	}
	out := append([]*refjs.Node{}, body[:i]...)
	out = append(out, extra...)
	return append(out, body[i:]...)
}

// bodies calls f for the statement list of the program and of every function body.
func bodies(p *refjs.Node, f func(owner *refjs.Node, list *[]*refjs.Node)) {
	// collect first: f inserts statements (possibly functions) into the lists
	type item struct {
		owner *refjs.Node
		list  *[]*refjs.Node
	}
	items := []item{{p, &p.Kids}}
	walk(p, func(_ *refjs.Node, _ int, n *refjs.Node) {
		if (n.K == "func" || n.K == "funcdecl") && len(n.Kids) == 2 && n.Kids[1] != nil && n.Kids[1].K == "block" {
			items = append(items, item{n, &n.Kids[1].Kids})
		}
	})
	for _, it := range items {
		f(it.owner, it.list)
	}
}

// R2: an (uncalled) closure that mentions every identifier forces the bindings into the stash.
func rewriteCapture(p *refjs.Node) (*refjs.Node, bool) {
	q := p.Clone()
	ids := collectIds(q)
	if len(ids) == 0 {
		return nil, false
	}
	k := 0
	bodies(q, func(owner *refjs.Node, list *[]*refjs.Node) {
		var elems []*refjs.Node
		for _, id := range ids {
			if id == "arguments" || id == "eval" {
				continue
			}
			elems = append(elems, refjs.Id(id))
		}
		fn := refjs.VarDecl("let", refjs.Declarator(refjs.Id(fmt.Sprintf("__cap%d", k)), refjs.Func("function", "", refjs.Params(), refjs.Return(refjs.Arr(elems...)))))
		k++
		*list = insertAfterDirectives(*list, fn)
	})
	return q, true
}

// R3: `if (false) eval("")` makes every enclosing scope dynamic (sloppy code only).
func rewriteDynamic(p *refjs.Node, strict bool) (*refjs.Node, bool) {
	if strict {
		return nil, false
	}
	q := p.Clone()
	hasStrictFn := false
	walk(q, func(_ *refjs.Node, _ int, n *refjs.Node) {
		if n.K == "directive" || n.K == "class" || n.K == "classdecl" {
			hasStrictFn = true
		}
	})
	if hasStrictFn {
		return nil, false
	}
	bodies(q, func(owner *refjs.Node, list *[]*refjs.Node) {
		// dead code with an empty completion value: L: { break L; eval(""); }
		st := refjs.Labeled("__dyn", refjs.Block(refjs.Break("__dyn"), refjs.ExprStmt(refjs.Eval())))
		*list = insertAfterDirectives(*list, st)
	})
	return q, true
}

// R5: unreachable code.
func rewriteDead(p *refjs.Node) (*refjs.Node, bool) {
	q := p.Clone()
	bodies(q, func(owner *refjs.Node, list *[]*refjs.Node) {
		// L: { break L; ...dead... } has an empty completion value, unlike if(false){}
		dead := refjs.Labeled("__dead", refjs.Block(refjs.Break("__dead"),
			refjs.ExprStmt(refjs.Call(refjs.Id("log"), refjs.Str("dead"))),
			refjs.VarDecl("let", refjs.Declarator(refjs.Id("__deadv"), refjs.Num(1))),
			refjs.If(refjs.Bool(false), refjs.Block(refjs.ExprStmt(refjs.Id("__never"))), nil),
			refjs.While(refjs.Bool(false), refjs.Block(refjs.ExprStmt(refjs.Id("__never"))))))
		*list = insertAfterDirectives(*list, dead)
	})
	return q, true
}

// R7: a function expression is replaced by the direct eval of its own source text.
func rewriteEvalFunction(p *refjs.Node, strict bool) (*refjs.Node, bool) {
	q := p.Clone()
	n := 0
	skip := map[*refjs.Node]bool{}
	walk(q, func(parent *refjs.Node, idx int, k *refjs.Node) {
		if n >= 2 || skip[parent] {
			skip[k] = true
			return
		}
		if k.K == "func" && (k.A == "function" || k.A == "arrow") && isExprPosition(parent, idx) {
			usesSpecial := false
			walk(k, func(_ *refjs.Node, _ int, m *refjs.Node) {
				if m.K == "super" || m.K == "newtarget" || m.K == "yield" || m.K == "await" || (m.K == "id" && m.S == "arguments" && k.A == "arrow") || m.K == "this" && k.A == "arrow" {
					usesSpecial = true
				}
			})
			if usesSpecial {
				return
			}
			parent.Kids[idx] = refjs.Eval(refjs.ExprStmt(refjs.Paren(k)))
			skip[parent.Kids[idx]] = true
			n++
		}
	})
	if n == 0 {
		return nil, false
	}
	return q, true
}

// R6: the whole statement list wrapped in a block (only when nothing function-scoped or lexical is declared at the top level).
func rewriteBlockWrap(p *refjs.Node) (*refjs.Node, bool) {
	for _, s := range p.Kids {
		if s == nil {
			continue
		}
		switch s.K {
		case "funcdecl", "classdecl", "directive":
			return nil, false
		case "var":
			if s.A != "var" {
				return nil, false
			}
		}
	}
	q := p.Clone()
	q.Kids = []*refjs.Node{refjs.Block(q.Kids...)}
	return q, true
}

func hasFuncDecl(p *refjs.Node) bool {
	found := false
	walk(p, func(_ *refjs.Node, _ int, n *refjs.Node) {
		if n.K == "funcdecl" {
			found = true
		}
	})
	return found
}

func applyRewrite(name string, p *refjs.Node, strict bool) (*refjs.Node, bool) {
	defer func() { recover() }()
	switch name {
	case "R1-const-to-var":
		return rewriteConstToVar(p)
	case "R2-capture":
		return rewriteCapture(p)
	case "R3-dynamic-scope":
		return rewriteDynamic(p, strict)
	case "R5-dead-code":
		return rewriteDead(p)
	case "R7-eval-function":
		return rewriteEvalFunction(p, strict)
	case "R6-block-wrap":
		return rewriteBlockWrap(p)
	}
	return nil, false
}

// ---- judging ----

func sameObs(a, b refjs.Observation, completion bool) (string, bool) {
	if !reflect.DeepEqual(nilIfEmpty(a.Log), nilIfEmpty(b.Log)) {
		return "log", false
	}
	if a.Exception != b.Exception {
		return "exception", false
	}
	if completion && a.Completion != b.Completion {
		return "completion", false
	}
	return "", true
}

func nilIfEmpty(s []string) []string {
	if len(s) == 0 {
		return nil
	}
	return s
}

func showObs(o refjs.Observation) string {
	return fmt.Sprintf("log=%v completion=%s exception=%s", o.Log, o.Completion, o.Exception)
}

func dumpTypes(src string, strict bool) map[string]int {
	res := map[string]int{}
	defer func() { recover() }()
	p, err := goja.Compile("c02.js", src, strict)
	if err != nil {
		return nil
	}
	for _, t := range goja.VerifDumpTypes(p) {
		res[t]++
	}
	return res
}

type verdict struct {
	f          *evid.Failure
	defJudged  bool
	defNontriv bool
	rwJudged   map[string]bool // rewrite -> changed a compiler decision
}

func hostKey(h string) string {
	if i := strings.IndexAny(h, "\n"); i > 0 {
		h = h[:i]
	}
	if len(h) > 80 {
		h = h[:80]
	}
	return h
}

func judge(c *Case) verdict {
	v := verdict{rwJudged: map[string]bool{}}
	opt := refjs.Options{Strict: c.Strict, Placement: c.Placement, MaxSteps: 20000}
	ref := refjs.Run(c.Prog, opt)
	if ref.Unsupported != "" {
		evid.Excluded("refjs: unsupported construct")
		return v
	}
	if ref.Fuel {
		evid.Excluded("refjs: fuel exhausted")
		return v
	}
	src := refjs.Source(c.Prog, opt)
	c.Source = src
	g := gojarun.Run(src, 0, 0)
	compareCompletion := c.Placement != "function"
	if g.HostError != "" {
		v.f = &evid.Failure{Check: "definitional", Key: "def:host:" + hostKey(g.HostError), Msg: fmt.Sprintf("goja did not complete the program: %s\n%s\nsource:\n%s", g.HostError, g.PanicStack, src), Case: c}
		return v
	}
	v.defJudged = true
	v.defNontriv = len(ref.Log) > 0 || ref.Exception != ""
	if _, ok := sameObs(ref, g.Observation, compareCompletion); !ok {
		// edition latitude: ES2015-2020 check the base of a member destructuring target / for-in-of head
		// when the Reference is created, ES2021+ in PutValue; both readings are accepted
		opt2 := opt
		opt2.EagerTargetBase = true
		if ref2 := refjs.Run(c.Prog, opt2); ref2.Unsupported == "" && !ref2.Fuel {
			if _, ok2 := sameObs(ref2, g.Observation, compareCompletion); ok2 {
				evid.Count("latitude:eager-target-base")
				ref = ref2
			}
		}
	}
	if what, ok := sameObs(ref, g.Observation, compareCompletion); !ok {
		key := "def:" + what
		// attribution to the known finding "arguments evaluated before the ReferenceError of an unresolvable callee"
		opt3 := opt
		opt3.ArgsBeforeUnresolvableCallee = true
		if ref3 := refjs.Run(c.Prog, opt3); ref3.Unsupported == "" && !ref3.Fuel {
			if _, ok3 := sameObs(ref3, g.Observation, compareCompletion); ok3 {
				key = "probe:unresolvable-callee-args-first"
			}
		} else {
			// the program does call an unresolvable callee with arguments (otherwise this run would have been identical
			// to the first one, which the interpreter supports) but evaluating the arguments first leads outside the
			// interpreter's subset: the known finding is involved and the case cannot be judged either way
			evid.Excluded("known finding unresolvable-callee-args-first involved, attribution run outside the interpreter's subset")
			v.defJudged = false
			return v
		}
		v.f = &evid.Failure{Check: "definitional", Key: key, Msg: fmt.Sprintf("goja and the definitional interpreter disagree on the %s (strict=%v placement=%s)\n  goja : %s\n  spec : %s\nsource:\n%s", what, c.Strict, c.Placement, showObs(g.Observation), showObs(ref), src), Case: c, Expected: ref, Observed: g.Observation}
		return v
	}
	base := dumpTypes(src, c.Strict)
	for _, name := range c.Rewrites {
		q, ok := applyRewrite(name, c.Prog, c.Strict)
		if !ok || q == nil {
			continue
		}
		src2 := refjs.Source(q, opt)
		g2 := gojarun.Run(src2, 0, 0)
		if g2.HostError != "" {
			v.f = &evid.Failure{Check: "metamorphic", Key: "rw:" + name + ":host:" + hostKey(g2.HostError), Msg: fmt.Sprintf("rewrite %s: goja did not complete the rewritten program: %s\n%s\noriginal:\n%s\nrewritten:\n%s", name, g2.HostError, g2.PanicStack, src, src2), Case: c}
			return v
		}
		cmpCompletion := compareCompletion
		if what, ok := sameObs(g.Observation, g2.Observation, cmpCompletion); !ok {
			v.f = &evid.Failure{Check: "metamorphic", Key: "rw:" + name + ":" + what, Msg: fmt.Sprintf("rewrite %s changed the observable %s (strict=%v placement=%s)\n  original : %s\n  rewritten: %s\noriginal:\n%s\nrewritten:\n%s", name, what, c.Strict, c.Placement, showObs(g.Observation), showObs(g2.Observation), src, src2), Case: c}
			return v
		}
		changed := false
		if d2 := dumpTypes(src2, c.Strict); base != nil && d2 != nil {
			for k, n := range d2 {
				if base[k] != n && !strings.Contains(k, "newFunc") {
					changed = true
					evid.Count("instr-diff:" + strings.TrimPrefix(k, "goja."))
				}
			}
		}
		v.rwJudged[name] = changed
	}
	return v
}

func genCase(t *rapid.T) *Case {
	prog, strict := j0.GenProgram(t)
	c := &Case{Prog: prog, Strict: strict, Placement: rapid.SampledFrom([]string{"global", "function", "eval"}).Draw(t, "placement")}
	n := rapid.IntRange(1, 3).Draw(t, "nrw")
	for i := 0; i < n; i++ {
		c.Rewrites = append(c.Rewrites, rapid.SampledFrom(rewriteNames).Draw(t, "rw"))
	}
	return c
}

// knownAvoid: generator restrictions still needed because the corresponding goja
// defect is recorded as a known finding (everything else has been fixed).
var fixedDefects = []string{"seq-logical-first", "lexical-after-branch", "const-dead-branch", "logical-assign-prim", "pattern-prim-target",
	"arrow-arguments", "eval-rest-default", "eval-surplus-args", "nested-labels-continue", "key-side-effects", "finally-throws"}

func TestQuickPrograms(t *testing.T) {
	for _, k := range fixedDefects {
		j0.Avoid[k] = false
	}
	defer func() {
		for k, n := range j0.AvoidHits {
			evid.ExcludedN("generator restriction for known finding: "+k, int64(n))
		}
	}()
	evid.Check(t, "programs", 16000, 6, func(t *rapid.T) {
		c := genCase(t)
		v := judge(c)
		nontrivial := v.defNontriv
		for name, changed := range v.rwJudged {
			evid.Count("rewrite-judged:" + name)
			if changed {
				evid.Count("rewrite-changed-code:" + name)
				nontrivial = true
			}
		}
		if v.defJudged {
			evid.Count("definitional-judged")
		}
		evid.Count("placement:" + c.Placement)
		evid.Case(c.Source+fmt.Sprint(c.Rewrites, c.Strict, c.Placement), nontrivial && v.defJudged)
		evid.Sample("program", map[string]interface{}{"strict": c.Strict, "placement": c.Placement, "rewrites": c.Rewrites, "source": c.Source})
		evid.Judge(t, v.f)
	})
}

func TestReplay(t *testing.T) {
	p := os.Getenv("VERIF_REPLAY")
	if p == "" {
		t.Skip("no VERIF_REPLAY")
	}
	_, raw, err := evid.LoadReplay(p)
	if err != nil {
		t.Fatal(err)
	}
	var c Case
	if err := json.Unmarshal(raw, &c); err != nil {
		t.Fatal(err)
	}
	evid.Direct(t, judge(&c).f)
}
