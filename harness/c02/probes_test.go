package c02

import (
	_ "embed"
	"encoding/json"
	"fmt"
	"strings"
	"testing"

	"verifh/internal/evid"
	"verifh/internal/jsgen/j0"
	"verifh/internal/refjs"
	"verifh/internal/refjs/gojarun"
)

// Fixed minimal programs for goja defects found while validating the
// definitional interpreter (defect_probes.json). Each is judged by the same
// oracle as generated programs, in every mode/placement the case is valid for;
// a probe whose key is listed as a known finding prints its KNOWN-FINDING line,
// any other failing probe is a violation.
//
//go:embed defect_probes.json
var probesJSON []byte

type probe struct {
	Name  string `json:"name"`
	Flags string `json:"flags"`
	Src   string `json:"src"`
}

func TestQuickProbes(t *testing.T) {
	var probes []probe
	if err := json.Unmarshal(probesJSON, &probes); err != nil {
		t.Fatal(err)
	}
	for _, p := range probes {
		prog := j0.JS(p.Src)
		key := "probe:" + strings.TrimPrefix(p.Name, "goja-defect-")
		failed := false
		for _, strict := range []bool{false, true} {
			if strict && strings.Contains(p.Flags, "sloppyOnly") || !strict && strings.Contains(p.Flags, "strictOnly") {
				continue
			}
			for _, placement := range []string{"global", "function", "eval"} {
				if placement != "global" && strings.Contains(p.Flags, "globalOnly") {
					continue
				}
				if failed {
					continue
				}
				opt := refjs.Options{Strict: strict, Placement: placement, MaxSteps: 20000}
				ref := refjs.Run(prog, opt)
				if ref.Unsupported != "" || ref.Fuel {
					t.Fatalf("probe %s: refjs declined: %s", p.Name, ref.Unsupported)
				}
				src := refjs.Source(prog, opt)
				g := gojarun.Run(src, 0, 0)
				evid.Case("probe:"+src, true)
				evid.Count("probe")
				what, ok := "", g.HostError == ""
				if ok {
					what, ok = sameObs(ref, g.Observation, placement != "function")
				} else {
					what = "host error " + g.HostError
				}
				if ok {
					continue
				}
				failed = true
				evid.Direct(t, &evid.Failure{Check: "probe", Key: key, Msg: fmt.Sprintf("%s (strict=%v placement=%s): goja and the definitional interpreter disagree (%s)\n  goja : %s\n  spec : %s\nsource: %s", p.Name, strict, placement, what, showObs(g.Observation), showObs(ref), src), Case: &Case{Prog: prog, Strict: strict, Placement: placement, Source: src}})
			}
		}
	}
}
