package c13

// The script-visible view of a Go value, derived from goja's documentation only.
//
// Documentation sentences this file relies on (Runtime.ToValue doc comment, runtime.go):
//
//  [D-prim]   "Primitive types (numbers, string, bool) are converted to the corresponding JavaScript primitives."
//  [D-nil]    "Nil is converted to null."
//  [D-struct] "Structs are converted to Object-like values. Fields and methods are available as properties, their
//              values are results of this method (ToValue()) applied to the corresponding Go value."
//  [D-map]    "Maps with string, integer, or float key types are converted into host objects that largely behave like
//              a JavaScript Object. One noticeable difference is that the key order is not stable, as with maps in Go.
//              Keys are converted to strings following the fmt.Sprintf("%v") convention."
//  [D-mapm]   "If a map type has at least one method defined, the properties of the resulting Object represent
//              methods, not map keys."
//  [D-slice]  "Slices are converted into host objects that behave largely like JavaScript Array. It has the appropriate
//              prototype and all the usual methods should work. ... converted Arrays may not contain holes ...
//              hasOwnProperty(n) always returns `true` if n < length. Deleting an item with an index < length will
//              set it to a zero value (but the property will remain). Nil slice elements are be converted to `null`.
//              Accessing an element beyond `length` returns `undefined`."
//  [D-array]  "Arrays are converted similarly to slices, except the resulting Arrays are not resizable (and therefore
//              the 'length' property is non-writable)."
//  [D-other]  "Any other type is converted to a generic reflect based host object. Depending on the underlying type it
//              behaves similar to a Number, String, Boolean or Object."
//  [D-bigint] "A *big.Int value is converted to a BigInt value. ... If the pointer value is nil, the resulting BigInt is 0n."
//  [D-mapper] FieldNameMapper: "FieldName returns a JavaScript name for the given struct field in the given type.
//              If this method returns "" the field becomes hidden."; TagFieldNameMapper: "uses the given tagName for
//              struct fields ... The common tag value syntax is supported (name[,options]), however options are
//              ignored. Setting name to anything other than a valid ECMAScript identifier makes the field hidden.";
//              UncapFieldNameMapper: "uncapitalises struct field and method names making the first letter lower case."
//
// Promoted fields of embedded structs are fields in the sense of the Go specification ("Promoted fields act like
// ordinary fields of a struct") and are expected under their mapped name when the selector is unambiguous (the
// generator never produces an ambiguous one). Where an embedded field itself is hidden by the mapper the visibility
// of what it promotes is not documented: those keys are optional in the comparison.

import (
	"encoding/json"
	"fmt"
	"math"
	"math/big"
	"reflect"
	"sort"
	"strconv"
	"strings"

	"github.com/dop251/goja"

	"verifh/internal/jsx"
)

func newMapper(name string) goja.FieldNameMapper {
	switch name {
	case "uncap":
		return goja.UncapFieldNameMapper()
	case "tag":
		return goja.TagFieldNameMapper("json", true)
	}
	return nil
}

var mapperNames = []string{"none", "uncap", "tag"}

func isIdent(s string) bool {
	if s == "" {
		return false
	}
	for i, c := range s {
		if c == '_' || c == '$' || (c >= 'a' && c <= 'z') || (c >= 'A' && c <= 'Z') || (i > 0 && c >= '0' && c <= '9') {
			continue
		}
		return false
	}
	switch s {
	case "true", "false", "null", "this", "var", "if", "in", "do", "for", "new", "try", "let", "case", "else", "enum", "void", "with", "function", "return", "typeof", "delete", "class", "const", "super", "while", "yield", "break", "catch", "throw", "static", "import", "export", "switch", "default", "extends", "finally", "continue", "debugger", "instanceof", "await":
		return false
	}
	return true
}

// jsFieldName is the property name of struct field f under the mapper ("" = hidden). [D-mapper]
func jsFieldName(mapper string, f reflect.StructField) string {
	switch mapper {
	case "uncap":
		return strings.ToLower(f.Name[:1]) + f.Name[1:]
	case "tag":
		tag := f.Tag.Get("json")
		if i := strings.IndexByte(tag, ','); i >= 0 {
			tag = tag[:i]
		}
		if isIdent(tag) {
			return tag
		}
		return ""
	}
	return f.Name
}

func exportedName(n string) bool { return n != "" && n[0] >= 'A' && n[0] <= 'Z' }

// visField is one script-visible field of a struct type.
type visField struct {
	name     string
	index    []int
	optional bool // reached through an embedded field that the mapper hides
}

// visibleFields lists the fields selectable on struct type t following Go's
// selector rules (shallowest depth wins), with their mapped names.
func visibleFields(mapper string, t reflect.Type) []visField {
	type cand struct {
		vf    visField
		depth int
	}
	best := map[string]cand{}
	var order []string
	var walk func(t reflect.Type, index []int, depth int, hiddenPath bool)
	walk = func(t reflect.Type, index []int, depth int, hiddenPath bool) {
		for i := 0; i < t.NumField(); i++ {
			f := t.Field(i)
			idx := append(append([]int{}, index...), i)
			if !f.IsExported() {
				if f.Anonymous {
					// unexported embedded: what it promotes is not documented either way
					ft := f.Type
					for ft.Kind() == reflect.Ptr {
						ft = ft.Elem()
					}
					if ft.Kind() == reflect.Struct {
						walk(ft, idx, depth+1, true)
					}
				}
				continue
			}
			name := jsFieldName(mapper, f)
			if name != "" {
				if c, ok := best[name]; !ok || depth < c.depth {
					if !ok {
						order = append(order, name)
					}
					best[name] = cand{visField{name: name, index: idx, optional: hiddenPath}, depth}
				}
			}
			if f.Anonymous {
				ft := f.Type
				for ft.Kind() == reflect.Ptr {
					ft = ft.Elem()
				}
				if ft.Kind() == reflect.Struct {
					walk(ft, idx, depth+1, hiddenPath || name == "")
				}
			}
		}
	}
	walk(t, nil, 0, false)
	out := make([]visField, 0, len(order))
	for _, n := range order {
		out = append(out, best[n].vf)
	}
	return out
}

// fieldByIndexSafe is FieldByIndex that reports false instead of panicking on a nil embedded pointer.
func fieldByIndexSafe(v reflect.Value, index []int) (reflect.Value, bool) {
	for i, x := range index {
		if i > 0 {
			for v.Kind() == reflect.Ptr {
				if v.IsNil() {
					return reflect.Value{}, false
				}
				v = v.Elem()
			}
		}
		v = v.Field(x)
	}
	return v, true
}

// Tree is the script-visible structure of a value.
type Tree struct {
	T string   `json:"t"` // null undef n s b big f a o N S B deep
	V string   `json:"v,omitempty"`
	E []*Tree  `json:"e,omitempty"`
	K []string `json:"k,omitempty"`
	// expectation-only fields
	alt      []*Tree         // other acceptable renderings of this node
	optional map[string]bool // keys that may be absent
	extraOK  bool            // keys beyond K may be present (methods are filtered by the dump already)
	numAlt   string          // second acceptable text of a number
}

func (t *Tree) String() string {
	if t == nil {
		return "<nil>"
	}
	switch t.T {
	case "a":
		parts := make([]string, len(t.E))
		for i, e := range t.E {
			parts[i] = e.String()
		}
		return "[" + strings.Join(parts, ",") + "]"
	case "o":
		parts := make([]string, len(t.K))
		for i, k := range t.K {
			parts[i] = strconv.Quote(k) + ":" + t.E[i].String()
		}
		return "{" + strings.Join(parts, ",") + "}"
	case "s", "S":
		return t.T + strconv.Quote(t.V)
	case "n", "b", "big", "N", "B":
		return t.T + ":" + t.V
	}
	return t.T
}

const dumpSrc = `
var __budget = 0;
function __dump(x, d) {
  if (--__budget < 0) return {t:"deep"};
  if (x === null) return {t:"null"};
  if (x === undefined) return {t:"undef"};
  var ty = typeof x;
  if (ty === "number") return {t:"n", v:(x === 0 && 1/x < 0) ? "-0" : String(x)};
  if (ty === "string") return {t:"s", v:x};
  if (ty === "boolean") return {t:"b", v:String(x)};
  if (ty === "bigint") return {t:"big", v:String(x)};
  if (ty === "function") return {t:"f"};
  if (d > 9) return {t:"deep"};
  if (x instanceof Array) {
    var e = [];
    for (var i = 0; i < x.length; i++) e.push(__dump(x[i], d+1));
    return {t:"a", e:e};
  }
  if (x instanceof Number) return {t:"N", v:(function(n){return (n === 0 && 1/n < 0) ? "-0" : String(n)})(+x)};
  if (x instanceof String) return {t:"S", v:""+x};
  if (x instanceof Boolean) return {t:"B", v:String(x)};
  var ks = Object.keys(x), kept = [], vs = [];
  for (var j = 0; j < ks.length; j++) {
    var v = x[ks[j]];
    if (typeof v === "function") continue;
    kept.push(ks[j]); vs.push(__dump(v, d+1));
  }
  return {t:"o", k:kept, e:vs};
}
function __dumps(x) { __budget = 3000; return JSON.stringify(__dump(x, 0)); }
function __clone(x) {
  if (x === null || x === undefined) return x;
  var ty = typeof x;
  if (ty !== "object") return x;
  if (x instanceof Array) { var e = []; for (var i = 0; i < x.length; i++) e.push(__clone(x[i])); return e; }
  if (x instanceof Number) return +x;
  if (x instanceof String) return ""+x;
  if (x instanceof Boolean) return String(x) === "true";
  var ks = Object.keys(x), o = {};
  for (var j = 0; j < ks.length; j++) {
    var v = x[ks[j]];
    if (typeof v === "function") continue;
    Object.defineProperty(o, ks[j], {value: __clone(v), writable: true, enumerable: true, configurable: true});
  }
  return o;
}
`

var dumpPrg = goja.MustCompile("dump.js", dumpSrc, false)

func parseTree(s string) (*Tree, error) {
	var t Tree
	if err := json.Unmarshal([]byte(s), &t); err != nil {
		return nil, err
	}
	return &t, nil
}

func numTree(f float64) *Tree {
	if f == 0 && math.Signbit(f) {
		return &Tree{T: "n", V: "-0"}
	}
	return &Tree{T: "n", V: jsx.NumberToString(f)}
}

var typeBigInt = reflect.TypeOf((*big.Int)(nil))

// hasMethods: exported methods in the pointer method set (what a wrapper exposes).
func hasMethods(t reflect.Type) bool {
	if t.Kind() == reflect.Interface {
		return t.NumMethod() > 0
	}
	return reflect.PointerTo(t).NumMethod() > 0
}

// mapKeyString renders a map key the documented way ([D-map]: fmt.Sprintf("%v")).
func mapKeyString(k reflect.Value) string {
	if k.Kind() == reflect.String {
		return k.String()
	}
	switch k.Kind() {
	case reflect.Int, reflect.Int8, reflect.Int16, reflect.Int32, reflect.Int64:
		return strconv.FormatInt(k.Int(), 10)
	case reflect.Uint, reflect.Uint8, reflect.Uint16, reflect.Uint32, reflect.Uint64:
		return strconv.FormatUint(k.Uint(), 10)
	case reflect.Float32:
		return fmt.Sprintf("%v", float32(k.Float()))
	case reflect.Float64:
		return fmt.Sprintf("%v", k.Float())
	}
	return fmt.Sprintf("%v", k)
}

// jsView computes the script-visible structure of v under the mapper.
func jsView(mapper string, v reflect.Value, depth int) *Tree {
	budget := 3000
	return jsView1(mapper, v, depth, &budget)
}

func jsView1(mapper string, v reflect.Value, depth int, budget *int) *Tree {
	*budget--
	if depth > 9 || *budget < 0 {
		return &Tree{T: "deep"}
	}
	if !v.IsValid() {
		return &Tree{T: "null"}
	}
	t := v.Type()
	if t == typeBigInt {
		if v.IsNil() {
			return &Tree{T: "big", V: "0"}
		}
		return &Tree{T: "big", V: bigOf(v).String()}
	}
	named := t.PkgPath() != "" // defined non-builtin type
	switch v.Kind() {
	case reflect.Bool:
		if named {
			return &Tree{T: "B", V: strconv.FormatBool(v.Bool())}
		}
		return &Tree{T: "b", V: strconv.FormatBool(v.Bool())}
	case reflect.Int, reflect.Int8, reflect.Int16, reflect.Int32, reflect.Int64:
		n := numTree(float64(v.Int()))
		n.numAlt = strconv.FormatInt(v.Int(), 10)
		if named {
			n.T = "N"
		}
		return n
	case reflect.Uint, reflect.Uint8, reflect.Uint16, reflect.Uint32, reflect.Uint64:
		n := numTree(float64(v.Uint()))
		n.numAlt = strconv.FormatUint(v.Uint(), 10)
		if named {
			n.T = "N"
		}
		return n
	case reflect.Float32, reflect.Float64:
		n := numTree(v.Float())
		if named {
			n.T = "N"
		}
		return n
	case reflect.String:
		if named {
			return &Tree{T: "S", V: v.String()}
		}
		return &Tree{T: "s", V: v.String()}
	case reflect.Interface:
		if v.IsNil() {
			return &Tree{T: "null"}
		}
		return jsView1(mapper, v.Elem(), depth, budget)
	case reflect.Ptr:
		if v.IsNil() {
			return &Tree{T: "null"}
		}
		if v.Elem().Kind() == reflect.Interface || v.Elem().Type() == typeBigInt {
			// pointer to an interface value: its rendering is not documented
			return &Tree{T: "deep"}
		}
		tr := jsView1(mapper, v.Elem(), depth, budget)
		// a pointer to a scalar is not a primitive type: [D-other] makes it a Number/String/Boolean-like host object
		switch tr.T {
		case "n":
			tr.T = "N"
		case "s":
			tr.T = "S"
		case "b":
			tr.T = "B"
		}
		return tr
	case reflect.Slice, reflect.Array:
		tr := &Tree{T: "a", E: []*Tree{}}
		for i := 0; i < v.Len(); i++ {
			tr.E = append(tr.E, jsView1(mapper, v.Index(i), depth+1, budget))
		}
		if v.Kind() == reflect.Slice && v.IsNil() {
			tr.alt = []*Tree{{T: "null"}}
		}
		return tr
	case reflect.Map:
		tr := &Tree{T: "o"}
		if hasMethods(t) {
			// [D-mapm]: properties are methods, not keys; the dump filters functions
			return tr
		}
		if v.IsNil() {
			tr.alt = []*Tree{{T: "null"}}
			return tr
		}
		type kv struct {
			k string
			v reflect.Value
		}
		var kvs []kv
		iter := v.MapRange()
		for iter.Next() {
			kvs = append(kvs, kv{mapKeyString(iter.Key()), iter.Value()})
		}
		sort.Slice(kvs, func(i, j int) bool { return kvs[i].k < kvs[j].k })
		for _, e := range kvs {
			tr.K = append(tr.K, e.k)
			tr.E = append(tr.E, jsView1(mapper, e.v, depth+1, budget))
		}
		return tr
	case reflect.Struct:
		tr := &Tree{T: "o"}
		for _, f := range visibleFields(mapper, t) {
			fv, ok := fieldByIndexSafe(v, f.index)
			if !ok {
				// promoted through a nil embedded pointer: not documented (undefined / absent / exception)
				continue
			}
			tr.K = append(tr.K, f.name)
			tr.E = append(tr.E, jsView1(mapper, fv, depth+1, budget))
			if f.optional {
				if tr.optional == nil {
					tr.optional = map[string]bool{}
				}
				tr.optional[f.name] = true
			}
		}
		for _, f := range visibleFieldsNilPromoted(mapper, v) {
			if tr.optional == nil {
				tr.optional = map[string]bool{}
			}
			tr.optional[f] = true
		}
		return tr
	case reflect.Func:
		if v.IsNil() {
			return &Tree{T: "null", alt: []*Tree{{T: "f"}}}
		}
		return &Tree{T: "f"}
	}
	return &Tree{T: "?" + v.Kind().String()}
}

// names promoted through nil embedded pointers (their presence/value is not documented)
func visibleFieldsNilPromoted(mapper string, v reflect.Value) []string {
	var out []string
	for _, f := range visibleFields(mapper, v.Type()) {
		if _, ok := fieldByIndexSafe(v, f.index); !ok {
			out = append(out, f.name)
		}
	}
	return out
}

func bigOf(v reflect.Value) *big.Int { return v.Interface().(*big.Int) }

// matchTree compares an observed dump with an expectation; it returns "" or a path-qualified difference.
func matchTree(exp, obs *Tree, path string) string {
	if d := matchTree1(exp, obs, path); d != "" {
		for _, a := range exp.alt {
			if matchTree1(a, obs, path) == "" {
				return ""
			}
		}
		return d
	}
	return ""
}

func matchTree1(exp, obs *Tree, path string) string {
	if exp.T == "deep" || obs.T == "deep" {
		return ""
	}
	if exp.T != obs.T {
		return fmt.Sprintf("%s: expected %s, script sees %s", path, exp, obs)
	}
	switch exp.T {
	case "n", "N":
		if exp.V != obs.V && (exp.numAlt == "" || exp.numAlt != obs.V) {
			return fmt.Sprintf("%s: expected number %s, script sees %s", path, exp.V, obs.V)
		}
	case "s", "S", "b", "B", "big":
		if exp.V != obs.V {
			return fmt.Sprintf("%s: expected %s, script sees %s", path, exp, obs)
		}
	case "a":
		if len(exp.E) != len(obs.E) {
			return fmt.Sprintf("%s: expected length %d, script sees length %d (%s vs %s)", path, len(exp.E), len(obs.E), exp, obs)
		}
		for i := range exp.E {
			if d := matchTree(exp.E[i], obs.E[i], fmt.Sprintf("%s[%d]", path, i)); d != "" {
				return d
			}
		}
	case "o":
		om := map[string]*Tree{}
		for i, k := range obs.K {
			if _, dup := om[k]; dup {
				return fmt.Sprintf("%s: key %q enumerated twice", path, k)
			}
			om[k] = obs.E[i]
		}
		seen := map[string]bool{}
		for i, k := range exp.K {
			seen[k] = true
			o, ok := om[k]
			if !ok {
				if exp.optional[k] {
					continue
				}
				return fmt.Sprintf("%s: key %q missing; expected %s, script sees %s", path, k, exp, obs)
			}
			if exp.optional[k] {
				continue
			}
			if d := matchTree(exp.E[i], o, path+"."+k); d != "" {
				return d
			}
		}
		if !exp.extraOK {
			for _, k := range obs.K {
				if !seen[k] && !exp.optional[k] {
					return fmt.Sprintf("%s: unexpected key %q; expected %s, script sees %s", path, k, exp, obs)
				}
			}
		}
	}
	return ""
}
