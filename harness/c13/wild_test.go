package c13

// Sub-check "nopanic": arbitrary script operations on wrappers of random Go values
// (including nil maps, nil embedded pointers, arrays, values passed by value),
// interleaved with Go-side mutations. The only assertion is the last clause of the
// property: "no script operation on a wrapper panics the host" — every operation
// must complete normally or with a JS exception; a Go panic that reaches the
// caller of RunString is a violation. (Sizes in length/index positions are bounded
// so that no case allocates more than a few MB.)

import (
	"fmt"
	"reflect"
	"strconv"
	"strings"
	"time"

	"github.com/dop251/goja"
	"pgregory.net/rapid"

	"verifh/internal/evid"
	"verifh/internal/gobridge"
	"verifh/internal/jsx"
)

type WildCase struct {
	Type   *gobridge.TypeDesc `json:"type"`
	Val    *gobridge.ValDesc  `json:"val"`
	Mapper string             `json:"mapper"`
	Pass   string             `json:"pass"`
	Strict bool               `json:"strict"`
	Ops    []string           `json:"ops"` // JS source of one statement each, or "go:<mutation>"
}

var wildKeys = []string{`"a"`, `"A"`, `"b"`, `"X"`, `"x"`, `"N"`, `"n"`, `"0"`, `0`, `1`, `2`, `5`, `-1`, `1.5`, `"01"`, `" 1"`, `"abc"`, `"toString"`, `"constructor"`,
	`"hasOwnProperty"`, `"9223372036854775807"`, `Symbol.iterator`, `Symbol.toPrimitive`, `sym`, `"EA"`, `"ea"`, `"ZEmbA"`, `"ZPoint"`, `"Val"`, `"val"`,
	`"Inc"`, `"Put"`, `"Get"`, `"Count"`, `"p"`, `"q"`, `"ü"`, `""`, `null`, `undefined`, `NaN`, `true`, `70000`, `"1e3"`, `256`, `257`, `-129`}

var wildVals = []string{`0`, `1`, `-1`, `1.5`, `"s"`, `""`, `true`, `null`, `undefined`, `{}`, `[]`, `[1,2]`, `{a:1}`, `{A:1,X:2,x:3}`, `function(){}`, `NaN`, `Infinity`, `1e300`, `4294967296`, `-0`, `"42"`, `"abc"`,
	`Symbol("v")`, `10n`, `r`, `h0`, `h1`, `new Date(0)`, `/re/`, `new Map([[1,2]])`, `new Set([1])`, `new Uint8Array([1,2,3])`, `Object.create(null)`, `{length:2, 0:1, 1:2}`, `[[1],[2]]`, `{valueOf:function(){return 7}}`,
	`{toString:function(){throw new Error("ts")}}`, `new Proxy({}, {})`, `new Proxy([], {})`, `[,1]`, `({get a(){throw 1}})`, `(function(){return arguments})(1,2)`, `globalThis`}

var wildDescs = []string{`{value:$V}`, `{value:$V, writable:false}`, `{value:$V, writable:true, enumerable:true, configurable:true}`, `{get:function(){return 1}}`, `{set:function(v){}}`, `{enumerable:false}`, `{configurable:true}`, `{}`,
	`{value:$V, enumerable:false}`, `{writable:false}`, `{get:undefined}`, `$V`, `{value:$V, configurable:false, writable:true}`}

var wildLens = []string{`0`, `1`, `2`, `3`, `5`, `-1`, `1.5`, `"3"`, `70000`, `null`, `undefined`, `{}`, `NaN`, `"x"`, `2.0`, `$X.length+1`, `$X.length-1`, `$X.length`}

var wildTargets = []string{`r`, `r`, `r`, `r[$K]`, `r[$K]`, `r[$K][$K]`, `h0`, `h0`, `h1`, `h0[$K]`}

var wildOps = []string{
	`$X[$K]`, `$X[$K] = $V`, `$X[$K] = $V`, `delete $X[$K]`, `$K in $X`, `Object.defineProperty($X, $K, $D)`, `Object.defineProperty($X, $K, $D)`, `Reflect.defineProperty($X, $K, $D)`,
	`Object.keys($X)`, `for (var k in $X) { delete $X[k]; }`, `for (var k in $X) { $X[k + "x"] = $V; }`, `for (var k in $X) { $X[k]; }`, `JSON.stringify($X)`, `({...$X})`, `[...$X]`,
	`Object.assign({}, $X)`, `Object.assign($X, $V)`, `Object.freeze($X)`, `Object.seal($X)`, `Object.preventExtensions($X)`, `Object.isFrozen($X)`, `Object.isSealed($X)`, `Object.isExtensible($X)`,
	`Object.getOwnPropertyDescriptor($X, $K)`, `Object.getOwnPropertyDescriptors($X)`, `Object.getOwnPropertyNames($X)`, `Object.entries($X)`, `Object.values($X)`, `Object.setPrototypeOf($X, null)`,
	`Object.setPrototypeOf($X, Array.prototype)`, `Object.setPrototypeOf($X, $V)`, `$X.__proto__ = $V`, `Object.getPrototypeOf($X)`, `Reflect.ownKeys($X)`, `Reflect.set($X, $K, $V)`, `Reflect.set($X, $K, $V, $V)`, `Reflect.set({}, $K, $V, $X)`,
	`Reflect.get($X, $K, $V)`, `Reflect.has($X, $K)`, `Reflect.deleteProperty($X, $K)`, `$X[Symbol("s")] = $V`, `String($X)`, `$X + ""`, `+$X`, `$X.valueOf()`, `$X.toString()`, `typeof $X`, `$X == $X`, `$X === r`, `$X == $V`, `$X < $V`,
	`Object.prototype.toString.call($X)`, `Object.prototype.hasOwnProperty.call($X, $K)`, `Object.prototype.propertyIsEnumerable.call($X, $K)`, `$X instanceof Array`, `Array.isArray($X)`,
	`$X.push($V)`, `$X.push($V, $V, $V)`, `$X.pop()`, `$X.shift()`, `$X.unshift($V, $V)`, `$X.splice($I, $I, $V)`, `$X.splice($I)`, `$X.splice(0, $X.length)`, `$X.sort()`, `$X.sort(function(a, b) { return 0 })`,
	`$X.sort(function(a, b) { $X.length = 0; return 1 })`, `$X.sort(function(a, b) { $X.pop(); return -1 })`, `$X.sort(function(a, b) { $X.push($V); return a < b ? -1 : 1 })`, `$X.sort(function(a, b) { throw new Error("cmp") })`,
	`$X.reverse()`, `$X.length = $L`, `$X.length = $L`, `$X[$X.length + 3] = $V`, `$X[$X.length] = $V`, `$X.fill($V)`, `$X.fill($V, $I, $I)`, `$X.copyWithin(0, 1)`, `$X.copyWithin($I, $I, $I)`, `$X.concat($X)`, `$X.concat($V)`, `$X.slice()`, `$X.slice($I, $I)`,
	`$X.map(function(v) { return v })`, `$X.forEach(function(v, i) { $X.pop() })`, `$X.forEach(function(v, i) { $X.push($V) })`, `$X.filter(function() { $X.length = $L; return true })`, `$X.indexOf($V)`, `$X.includes($V)`, `$X.join()`, `$X.flat()`,
	`Array.from($X)`, `$X.length`, `Array.prototype.push.call($X, $V)`, `Array.prototype.splice.call($X, $I, $I, $V)`, `Array.prototype.sort.call($X)`, `Array.prototype.reverse.call($X)`, `Array.prototype.unshift.call($X, $V)`,
	`$X.at(-1)`, `$X.entries().next()`, `$X.find(function() { return true })`, `$X.lastIndexOf($V)`, `$X.reduce(function(a, b) { return a })`, `$X.every(function() { delete $X[0]; return true })`,
	`Object.defineProperty($X, "length", {value: $L})`, `Object.defineProperty($X, "length", {writable: false})`, `Object.defineProperty($X, "length", {get: function() { return 1 }})`, `delete $X.length`,
	`$X.Inc()`, `$X.Put($V)`, `$X.Put()`, `$X.Get()`, `$X.Get($V, $V)`, `$X.Count()`, `$X.Sum()`, `$X.SetSecret($V)`, `$X.Secret()`, `new $X.Get()`, `$X.Get.call($V)`, `$X.Put.apply(null, $V)`, `$X.Hidden()`, `$X.String()`, `$X.Error()`,
	`$X.MarshalJSON()`, `$X.JsonEncodable()`, `$X.Double()`, `$X.Len()`, `$X.get()`, `$X.put($V)`, `$X.inc()`, `$X.Unix()`, `$X.String.call(r)`,
	`var h0 = $X`, `var h1 = $X`, `h0 = $X[$K]`, `h1 = r`, `$X[$K] = h0`, `$X[$K] = h1`, `$X[$K] = $X`, `$X[$K] = r`, `h0[$K] = h1[$K]`,
	`new Map([[$X, 1]]).get($X)`, `new Set([$X, r]).size`, `new WeakMap([[$X, 1]])`, `JSON.parse(JSON.stringify($X))`, `$X[$K][$K] = $V`, `$X[$K].push($V)`, `$X[$K].length = $L`, `delete $X[$K][$K]`,
	`with ($X) { k1 = $V }`, `Object.fromEntries(Object.entries($X))`, `new Proxy($X, {}).length`, `new Proxy($X, {})[$K] = $V`, `Object.create($X)[$K] = $V`, `Object.create($X)[$K]`, `Object.create($X).length = $L`,
	`var o = Object.create($X); o.push && o.push($V)`, `class C extends Array {}; Object.setPrototypeOf($X, C.prototype); $X.map && $X.map(function(v) { return v })`,
	`$X.push($X); String($X)`, `$X[0] = $X; $X.join()`, `$X[$K] = $X; JSON.stringify($X)`, `$X[$K] = r; JSON.stringify(r)`, `$X[0] = $X; $X.toLocaleString()`,
	`$X[$K] = $X; __dumps($X)`, `$X[$K] = $X; Object.assign({}, $X)`,
	`$X.constructor = $V; $X.map && $X.map(function(v) { return v })`, `$X.constructor = {[Symbol.species]: function(n) { return r }}; $X.slice && $X.slice()`,
}

var wildGoOps = []string{"go:zero", "go:append", "go:shrink", "go:clearmap", "go:nilptrs", "go:rebuild"}

func genWild(t *rapid.T) *WildCase {
	c := &WildCase{Mapper: mapperNames[rapid.IntRange(0, 2).Draw(t, "mapper")], Strict: rapid.Bool().Draw(t, "strict")}
	opts := gobridge.GenOpts{MaxDepth: rapid.IntRange(0, 3).Draw(t, "depth"), Zoo: zooAll}
	// compound top-level types are the interesting ones
	for i := 0; i < 4; i++ {
		c.Type = gobridge.GenType(t, opts)
		if c.Type.Depth() >= 1 {
			break
		}
	}
	dyn := gobridge.GenOpts{MaxDepth: 2, Zoo: zooAll}
	// a map entry or property named "length" with a huge value makes the generic Array algorithms
	// (Array.from, concat, reverse.call ...) run for 2^53 iterations, for any object: not generated
	c.Val = gobridge.GenValue(t, c.Type, gobridge.ValOpts{DynOpts: &dyn, StringKeyOK: func(s string) bool { return s != "length" }})
	c.Pass = []string{"value", "ptr", "ptr"}[rapid.IntRange(0, 2).Draw(t, "pass")]
	n := rapid.IntRange(1, 20).Draw(t, "nops")
	pk := func(label string, xs []string) string { return xs[rapid.IntRange(0, len(xs)-1).Draw(t, label)] }
	for i := 0; i < n; i++ {
		if rapid.IntRange(0, 9).Draw(t, "goop") == 0 {
			c.Ops = append(c.Ops, pk("gomut", wildGoOps))
			continue
		}
		op := pk("op", wildOps)
		sub := func(ph, label string, pool []string) {
			for strings.Contains(op, ph) {
				op = strings.Replace(op, ph, pk(label, pool), 1)
			}
		}
		sub("$D", "desc", wildDescs)
		sub("$L", "len", wildLens)
		sub("$X", "target", wildTargets)
		sub("$K", "key", wildKeys)
		sub("$V", "val", wildVals)
		for strings.Contains(op, "$I") {
			op = strings.Replace(op, "$I", strconv.Itoa(rapid.IntRange(-2, 4).Draw(t, "idx")), 1)
		}
		c.Ops = append(c.Ops, op)
	}
	return c
}

func wFail(c *WildCase, key, format string, a ...interface{}) *evid.Failure {
	return &evid.Failure{Check: "nopanic", Key: key, Msg: fmt.Sprintf(format, a...) + fmt.Sprintf("\n  type %s pass=%s mapper=%s strict=%v\n  ops: %s", c.Type, c.Pass, c.Mapper, c.Strict, strings.Join(c.Ops, " ;; ")), Case: c}
}

// placeholders in templates are single capital letters; generated text may contain capitals inside
// replacement strings (e.g. "Symbol"), so replacement proceeds placeholder by placeholder in a fixed
// order and the pools are written so that later placeholders do not occur in earlier replacements
// except where harmless. To keep this robust the op text is validated by a parse before use.

func applyGoMutation(op string, v reflect.Value, c *WildCase) {
	defer func() { recover() }() // a reflect misuse in the harness mutation is not a finding
	switch op {
	case "go:zero":
		v.Set(reflect.Zero(v.Type()))
	case "go:rebuild":
		v.Set(gobridge.NewBuilder().Make(c.Type, c.Val))
	case "go:append", "go:shrink", "go:clearmap", "go:nilptrs":
		walkMutate(op, v, 0)
	}
}

func walkMutate(op string, v reflect.Value, depth int) {
	if depth > 4 || !v.IsValid() {
		return
	}
	switch v.Kind() {
	case reflect.Ptr, reflect.Interface:
		if v.IsNil() {
			return
		}
		if op == "go:nilptrs" && v.CanSet() && depth > 0 {
			v.Set(reflect.Zero(v.Type()))
			return
		}
		walkMutate(op, v.Elem(), depth+1)
	case reflect.Slice:
		if v.CanSet() {
			switch op {
			case "go:append":
				v.Set(reflect.Append(v, reflect.Zero(v.Type().Elem())))
				return
			case "go:shrink":
				if v.Len() > 0 {
					v.Set(v.Slice(0, v.Len()-1))
				}
				return
			}
		}
		for i := 0; i < v.Len(); i++ {
			walkMutate(op, v.Index(i), depth+1)
		}
	case reflect.Array:
		for i := 0; i < v.Len(); i++ {
			walkMutate(op, v.Index(i), depth+1)
		}
	case reflect.Map:
		if op == "go:clearmap" && !v.IsNil() {
			for _, k := range v.MapKeys() {
				v.SetMapIndex(k, reflect.Value{})
			}
			return
		}
	case reflect.Struct:
		for i := 0; i < v.NumField(); i++ {
			if v.Type().Field(i).IsExported() {
				walkMutate(op, v.Field(i), depth+1)
			}
		}
	}
}

func judgeWild(c *WildCase) *evid.Failure {
	v := gobridge.NewBuilder().Make(c.Type, c.Val)
	vm := goja.New()
	if m := newMapper(c.Mapper); m != nil {
		vm.SetFieldNameMapper(m)
	}
	if o := jsx.RunProgram(vm, dumpPrg); o.Kind != "value" {
		return wFail(c, "harness", "prelude failed: %s", o.Text)
	}
	var arg interface{}
	if c.Pass == "ptr" {
		arg = v.Addr().Interface()
	} else {
		arg = v.Interface()
	}
	o := jsx.Protect(func() (goja.Value, error) { return nil, vm.Set("r", arg) })
	if o.Kind != "value" {
		return wFail(c, "bind:"+o.Kind, "binding the value failed: %s", o.Text)
	}
	jsx.RunString(vm, `var h0, h1, k1, sym = Symbol("w");`)
	evid.SetCurrent("nopanic", c)
	defer evid.ClearCurrent()
	timer := time.AfterFunc(3*time.Second, func() { vm.Interrupt("watchdog") })
	defer timer.Stop()
	for i, op := range c.Ops {
		if strings.HasPrefix(op, "go:") {
			applyGoMutation(op, v, c)
			continue
		}
		src := op
		if c.Strict {
			src = `"use strict"; ` + op
		}
		o := jsx.RunString(vm, src)
		switch o.Kind {
		case "value", "exception":
		case "panic":
			if goCalleePanic(o.Stack) {
				// the panic was raised inside a Go method called through reflection (e.g. (*big.Int).Add(nil, nil)):
				// a non-goja panic value propagates by documentation; that is C14's subject, not a defect of the wrapper
				evid.Excluded("nopanic: panic raised by the called Go method itself")
				return nil
			}
			return wFail(c, "panic:"+panicKey(o.Text), "op %d `%s` panicked the host: %s\n%s", i, op, o.Text, trimStack(o.Stack))
		case "interrupted":
			evid.Excluded("nopanic: watchdog interrupt")
			vm.ClearInterrupt()
			return nil
		case "syntax", "reference":
			// generated text that does not compile in this mode (e.g. `with` in strict code): not about wrappers
			continue
		default:
			return wFail(c, "outcome:"+o.Kind, "op %d `%s`: unexpected outcome %s", i, op, o.Text)
		}
	}
	o = jsx.RunString(vm, "try { __dumps(r) } catch (e) { 'exc' }")
	if o.Kind == "panic" {
		return wFail(c, "panic-final:"+panicKey(o.Text), "walking the wrapper after the history panicked the host: %s\n%s", o.Text, trimStack(o.Stack))
	}
	oo := jsx.Protect(func() (goja.Value, error) {
		touch(v, 0)
		_ = vm.ToValue(arg).Export()
		return nil, nil
	})
	if oo.Kind != "value" {
		return wFail(c, "panic-go-side", "the Go value is unusable after the history: %s", oo.Text)
	}
	return nil
}

// touch reads every part of a Go value down to a bounded depth (cyclic values are possible after a history).
func touch(v reflect.Value, depth int) {
	if depth > 8 || !v.IsValid() {
		return
	}
	switch v.Kind() {
	case reflect.Ptr, reflect.Interface:
		if !v.IsNil() {
			touch(v.Elem(), depth+1)
		}
	case reflect.Slice, reflect.Array:
		for i := 0; i < v.Len() && i < 64; i++ {
			touch(v.Index(i), depth+1)
		}
	case reflect.Map:
		n := 0
		it := v.MapRange()
		for it.Next() && n < 64 {
			touch(it.Value(), depth+1)
			n++
		}
	case reflect.Struct:
		for i := 0; i < v.NumField(); i++ {
			touch(v.Field(i), depth+1)
		}
	case reflect.String:
		_ = v.Len()
	}
}

// goCalleePanic: did the panic originate in a Go function that goja called through reflect.Value.Call
// (as opposed to goja's own code)?
func goCalleePanic(stack string) bool {
	lines := strings.Split(stack, "\n")
	var fns []string
	for _, l := range lines {
		if l == "" || l[0] == '\t' || strings.HasPrefix(l, "goroutine ") {
			continue
		}
		fns = append(fns, l)
	}
	last := -1
	for i, f := range fns {
		if strings.HasPrefix(f, "panic(") {
			last = i
		}
	}
	if last < 0 {
		return false
	}
	sawCall := false
	first := true
	for _, f := range fns[last+1:] {
		if strings.HasPrefix(f, "runtime.") {
			continue
		}
		if strings.HasPrefix(f, "github.com/dop251/goja") {
			return sawCall && !first
		}
		if strings.HasPrefix(f, "reflect.Value.call") || strings.HasPrefix(f, "reflect.Value.Call") {
			if first {
				return false // reflect itself rejected the call: goja passed bad arguments
			}
			sawCall = true
		}
		first = false
	}
	return false
}

func panicKey(text string) string {
	text = strings.TrimPrefix(text, "Go panic: ")
	for _, cut := range []string{":", "[", "("} {
		if i := strings.Index(text, cut); i > 0 && cut != ":" {
			text = text[:i]
		}
	}
	f := strings.Fields(text)
	if len(f) > 6 {
		f = f[:6]
	}
	// drop numbers and addresses
	var out []string
	for _, w := range f {
		if _, err := strconv.ParseFloat(strings.Trim(w, ",.;"), 64); err == nil {
			continue
		}
		if strings.HasPrefix(w, "0x") {
			continue
		}
		out = append(out, w)
	}
	return strings.Join(out, "-")
}

func trimStack(s string) string {
	lines := strings.Split(s, "\n")
	var keep []string
	for _, l := range lines {
		if strings.Contains(l, "goja") && !strings.Contains(l, "verifh") {
			keep = append(keep, strings.TrimSpace(l))
		}
		if len(keep) >= 12 {
			break
		}
	}
	return "    " + strings.Join(keep, "\n    ")
}

func wildNontrivial(c *WildCase) bool {
	return c.Type.Depth() >= 1 && len(c.Ops) >= 2
}
