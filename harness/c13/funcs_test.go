package c13

// Sub-check "funcs": Go functions of random signatures (reflect.MakeFunc) and the
// special native forms called from script.
//
// Documentation sentences the oracle relies on (Runtime.ToValue doc comment, "Functions"):
//
//  [F-wrap]   "Any other Go function is wrapped so that the arguments are automatically converted into the required
//              Go types and the return value is converted to a JavaScript value (using this method). If conversion is
//              not possible, a TypeError is thrown."
//  [F-multi]  "Functions with multiple return values return an Array. If the last return value is an `error` it is not
//              returned but converted into a JS exception. If the error is *Exception, it is thrown as is, otherwise
//              it's wrapped in a GoEerror. Note that if there are exactly two return values and the last is an
//              `error`, the function returns the first value as is, not an Array."
//  [F-native] "func(FunctionCall) Value is treated as a native JavaScript function. ... Attempting to use the function
//              as a constructor will result in a TypeError."
//  [F-ctor]   "func(ConstructorCall) *Object is treated as a native constructor, allowing to use it with the new
//              operator" / "var o = new MyObject(arg); var o1 = MyObject(arg); // same thing;
//              o instanceof MyObject && o1 instanceof MyObject; // true" / "If return value is a non-nil *Object, it
//              will be used instead of call.This".
//  Missing arguments are the zero value of the parameter type and surplus arguments of a non-variadic function are
//  ignored (the task brief lists this as the documented behaviour; a missing argument is `undefined` to the
//  callee in ECMAScript and [C-num]/ToBoolean of undefined agree with the zero value for numeric/bool parameters).
//  Variadic parameters receive every remaining argument converted to the element type.
//  A Go panic with a non-goja value inside the function is C14's subject and is not generated here.

import (
	"errors"
	"fmt"
	"reflect"
	"strings"

	"github.com/dop251/goja"
	"pgregory.net/rapid"

	"verifh/internal/evid"
	"verifh/internal/gobridge"
	"verifh/internal/jsx"
)

type FuncCase struct {
	In       []*gobridge.TypeDesc `json:"in"`
	Variadic bool                 `json:"variadic,omitempty"`
	Out      []*gobridge.TypeDesc `json:"out"`
	OutVals  []*gobridge.ValDesc  `json:"out_vals"`
	HasErr   bool                 `json:"has_err,omitempty"`
	ErrSet   bool                 `json:"err_set,omitempty"`
	Args     []*JSVal             `json:"args"`
	Mapper   string               `json:"mapper"`
	Special  string               `json:"special,omitempty"` // native | native-new | ctor-new | ctor-call | ctor-ret
	Strict   bool                 `json:"strict,omitempty"`
}

func zooParams(z *gobridge.ZooEntry) bool {
	switch z.Name {
	case "ZI64", "ZU8", "ZF64", "ZF32", "ZBool", "ZStr", "ZInt", "ZPoint", "ZNode":
		return true
	}
	return false
}

func zooPlain(z *gobridge.ZooEntry) bool { return z.PlainJSON && !z.Func }

func genFunc(t *rapid.T) *FuncCase {
	c := &FuncCase{Mapper: mapperNames[rapid.IntRange(0, 2).Draw(t, "mapper")], Strict: rapid.Bool().Draw(t, "strict")}
	if rapid.IntRange(0, 9).Draw(t, "special") == 0 {
		c.Special = []string{"native", "native-new", "ctor-new", "ctor-call", "ctor-ret", "zoo-add", "zoo-var", "zoo-err", "zoo-multi", "zoo-multierr", "zoo-void",
			"gw-add", "gw-throw", "gw-goerror", "gw-void", "gw-variadic"}[rapid.IntRange(0, 15).Draw(t, "which")]
		n := rapid.IntRange(0, 3).Draw(t, "nargs")
		for i := 0; i < n; i++ {
			c.Args = append(c.Args, jsNum(float64(rapid.IntRange(-50, 500).Draw(t, "smallarg"))))
		}
		return c
	}
	nin := rapid.IntRange(0, 3).Draw(t, "nin")
	popts := gobridge.GenOpts{MaxDepth: 2, Zoo: zooParams, NoEmbed: true}
	for i := 0; i < nin; i++ {
		c.In = append(c.In, gobridge.GenType(t, popts))
	}
	if nin > 0 && rapid.IntRange(0, 3).Draw(t, "variadic") == 0 {
		c.Variadic = true
		c.In[nin-1] = &gobridge.TypeDesc{K: "slice", Elem: c.In[nin-1]}
	}
	nout := rapid.IntRange(0, 3).Draw(t, "nout")
	oopts := gobridge.GenOpts{MaxDepth: 2, Zoo: zooPlain}
	dyn := gobridge.GenOpts{MaxDepth: 1, Zoo: zooPlain}
	for i := 0; i < nout; i++ {
		td := gobridge.GenType(t, oopts)
		c.Out = append(c.Out, td)
		c.OutVals = append(c.OutVals, gobridge.GenValue(t, td, gobridge.ValOpts{SafeInts: true, PlainFloat: true, DynOpts: &dyn, FloatKeyOK: floatKeyOK, NoShare: true}))
	}
	c.HasErr = rapid.IntRange(0, 2).Draw(t, "haserr") == 0
	if c.HasErr {
		c.ErrSet = rapid.IntRange(0, 2).Draw(t, "errset") == 0
	}
	// arguments: too few / exact / too many
	nargs := nin + rapid.IntRange(-2, 2).Draw(t, "argdelta")
	if nargs < 0 {
		nargs = 0
	}
	g := &jsGen{t: t, mapper: c.Mapper, safe: true}
	for i := 0; i < nargs; i++ {
		var pt reflect.Type
		switch {
		case c.Variadic && i >= nin-1:
			pt = gobridge.Build(c.In[nin-1]).Elem()
		case i < nin:
			pt = gobridge.Build(c.In[i])
		default:
			// surplus argument: anything
			c.Args = append(c.Args, g.number(true))
			continue
		}
		v, _ := g.forType(pt, 2, true)
		c.Args = append(c.Args, v)
	}
	return c
}

func (c *FuncCase) callSrc() string {
	parts := make([]string, len(c.Args))
	for i, a := range c.Args {
		parts[i] = a.src()
	}
	pre := ""
	if c.Strict {
		pre = `"use strict"; `
	}
	switch c.Special {
	case "native-new", "ctor-new", "ctor-ret":
		return pre + "new f(" + strings.Join(parts, ",") + ")"
	}
	return pre + "f(" + strings.Join(parts, ",") + ")"
}

func fFail(c *FuncCase, key, format string, a ...interface{}) *evid.Failure {
	sig := "special:" + c.Special
	if c.Special == "" {
		var in, out []string
		for _, t := range c.In {
			in = append(in, t.String())
		}
		for _, t := range c.Out {
			out = append(out, t.String())
		}
		if c.HasErr {
			out = append(out, "error")
		}
		sig = fmt.Sprintf("func(%s) (%s) variadic=%v", strings.Join(in, ", "), strings.Join(out, ", "), c.Variadic)
	}
	return &evid.Failure{Check: "funcs", Key: key, Msg: fmt.Sprintf(format, a...) + "\n  " + sig + " mapper=" + c.Mapper + "\n  " + c.callSrc(), Case: c}
}

var errType = reflect.TypeOf((*error)(nil)).Elem()

func judgeFunc(c *FuncCase) *evid.Failure {
	vm := goja.New()
	if m := newMapper(c.Mapper); m != nil {
		vm.SetFieldNameMapper(m)
	}
	if o := jsx.RunProgram(vm, dumpPrg); o.Kind != "value" {
		return fFail(c, "harness", "prelude failed: %s", o.Text)
	}
	if c.Special != "" {
		return judgeSpecialFunc(c, vm)
	}
	var in []reflect.Type
	for _, td := range c.In {
		in = append(in, gobridge.Build(td))
	}
	var out []reflect.Type
	var outVals []reflect.Value
	b := gobridge.NewBuilder()
	for i, td := range c.Out {
		out = append(out, gobridge.Build(td))
		outVals = append(outVals, b.Make(td, c.OutVals[i]))
	}
	if c.HasErr {
		out = append(out, errType)
		ev := reflect.Zero(errType)
		if c.ErrSet {
			ev = reflect.ValueOf(&gobridge.ErrZoo).Elem()
		}
		outVals = append(outVals, ev)
	}
	ft := reflect.FuncOf(in, out, c.Variadic)
	calls := 0
	var got []reflect.Value
	fn := reflect.MakeFunc(ft, func(args []reflect.Value) []reflect.Value {
		calls++
		got = nil
		for _, a := range args {
			cp := reflect.New(a.Type()).Elem()
			cp.Set(a)
			got = append(got, cp)
		}
		return outVals
	})
	vm.Set("f", fn.Interface())

	// expectation for the arguments
	nin := len(in)
	want := make([]reflect.Value, nin)
	for i := range want {
		want[i] = reflect.New(in[i]).Elem()
	}
	expectTypeError := false
	for i, a := range c.Args {
		var dst reflect.Value
		switch {
		case c.Variadic && i >= nin-1:
			s := want[nin-1]
			s.Set(reflect.Append(s, reflect.Zero(in[nin-1].Elem())))
			dst = s.Index(s.Len() - 1)
		case i < nin:
			dst = want[i]
		default:
			continue
		}
		err := convInto(c.Mapper, a, dst, nil)
		if err == errUnspecified {
			evid.Excluded("funcs: argument conversion not specified")
			return nil
		}
		if err != nil {
			expectTypeError = true
			break
		}
	}
	src := c.callSrc()
	o := jsx.RunString(vm, src)
	if o.Kind == "panic" {
		return fFail(c, "call-panic", "calling the wrapped Go function panicked the host: %s", o.Text)
	}
	if expectTypeError {
		if o.Kind != "exception" || jsx.ExcName(vm, o.Err) != "TypeError" {
			return fFail(c, "arg-not-typeerror", "an argument cannot be converted ([C-err]/[F-wrap]: TypeError), outcome was %s %s", o.Kind, o.Text)
		}
		if calls != 0 {
			return fFail(c, "arg-typeerror-called", "TypeError was thrown but the Go function was called")
		}
		return nil
	}
	if calls != 1 {
		return fFail(c, "call-count", "the Go function was called %d times (outcome %s %s)", calls, o.Kind, o.Text)
	}
	if len(got) != nin {
		return fFail(c, "harness", "received %d args", len(got))
	}
	for i := range want {
		if ok, d := deepEq(got[i], want[i], eqOpts{nilEqEmpty: true, numLenient: true}); !ok {
			key := "arg-value:" + kindClass(in[i])
			if i >= len(c.Args) {
				key = "arg-missing:" + kindClass(in[i])
			}
			return fFail(c, key, "parameter %d received %s, documentation says %s (difference at %s)", i, fmtVal(got[i]), fmtVal(want[i]), d)
		}
	}
	if c.HasErr && c.ErrSet {
		if o.Kind != "exception" {
			return fFail(c, "error-not-thrown", "the function returned a non-nil error, [F-multi] says a JS exception; outcome %s %s", o.Kind, o.Text)
		}
		ex := o.Err.(*goja.Exception)
		obj, ok := ex.Value().(*goja.Object)
		if !ok {
			return fFail(c, "error-not-goerror", "thrown value is not an object: %v", ex.Value())
		}
		v := obj.Get("value")
		if v == nil || v.Export() != interface{}(gobridge.ErrZoo) {
			return fFail(c, "error-not-goerror", "thrown value does not wrap the returned error (value property: %v)", v)
		}
		if !errors.Is(o.Err, gobridge.ErrZoo) {
			return fFail(c, "error-unwrap", "errors.Is(exception, returned error) is false")
		}
		return nil
	}
	if o.Kind != "value" {
		return fFail(c, "call-outcome:"+o.Kind, "call failed although every argument is convertible: %s", o.Text)
	}
	nres := len(c.Out)
	vm.Set("res", o.Value)
	d := jsx.RunString(vm, "__dumps(res)")
	if d.Kind != "value" {
		return fFail(c, "result-dump:"+d.Kind, "cannot walk the result: %s", d.Text)
	}
	obs, err := parseTree(d.Value.String())
	if err != nil {
		return fFail(c, "harness", "dump parse: %v", err)
	}
	var exp *Tree
	switch nres {
	case 0:
		exp = &Tree{T: "undef"}
	case 1:
		exp = jsView(c.Mapper, reflect.ValueOf(outVals[0].Interface()), 0)
	default:
		exp = &Tree{T: "a"}
		for i := 0; i < nres; i++ {
			exp.E = append(exp.E, jsView(c.Mapper, reflect.ValueOf(outVals[i].Interface()), 1))
		}
	}
	if diff := matchTree(exp, obs, "result"); diff != "" {
		return fFail(c, "result:"+viewKey(diff), "return value as seen by script differs from [F-wrap]/[F-multi]: %s", diff)
	}
	return nil
}

// argInts: the numeric arguments of a special case as ints (ToInteger of the generated doubles).
func (c *FuncCase) argInts() []int {
	out := make([]int, len(c.Args))
	for i, a := range c.Args {
		f := a.num()
		out[i] = int(int64(f))
	}
	return out
}

// judgeZooFunc: hand-written named func types ([F-wrap], [F-multi]) and [R-orig] for wrapped funcs.
func judgeZooFunc(c *FuncCase, vm *goja.Runtime) *evid.Failure {
	ai := c.argInts()
	arg := func(i int) int {
		if i < len(ai) {
			return ai[i]
		}
		return 0
	}
	var fn interface{}
	var want string
	switch c.Special {
	case "zoo-add":
		fn = gobridge.ZFnAdd(func(a, b int) int { return a + b })
		want = fmt.Sprintf("n:%d", arg(0)+arg(1))
	case "zoo-var":
		fn = gobridge.ZFnVar(func(p string, xs ...int) string { return fmt.Sprint(p, len(xs), xs) })
		p := ""
		var xs []int
		if len(c.Args) > 0 {
			p = jsx.NumberToString(c.Args[0].num())
			xs = append(xs, ai[1:]...)
		}
		want = "s:" + fmt.Sprint(p, len(xs), xs)
	case "zoo-err":
		fn = gobridge.ZFnErr(func(a int) (int, error) {
			if a%2 == 0 {
				return a, nil
			}
			return a, gobridge.ErrZoo
		})
		if arg(0)%2 == 0 {
			want = fmt.Sprintf("n:%d", arg(0))
		} else {
			want = "throw"
		}
	case "zoo-multi":
		fn = gobridge.ZFnMulti(func(a int) (int, string) { return a, "m" })
		want = fmt.Sprintf("a:n:%d,s:m", arg(0))
	case "zoo-multierr":
		fn = gobridge.ZFnMultiErr(func(a int) (int, string, error) {
			if a%2 == 0 {
				return a, "m", nil
			}
			return a, "m", gobridge.ErrZoo
		})
		if arg(0)%2 == 0 {
			want = fmt.Sprintf("a:n:%d,s:m", arg(0))
		} else {
			want = "throw"
		}
	case "zoo-void":
		fn = gobridge.ZFn0(func() {})
		want = "undef"
	}
	var jv goja.Value
	if o := jsx.Protect(func() (goja.Value, error) { jv = vm.ToValue(fn); return nil, nil }); o.Kind != "value" {
		return fFail(c, "zoo-tovalue", "ToValue(%T) did not return: %s", fn, o.Text)
	}
	if et := jv.ExportType(); et != reflect.TypeOf(fn) {
		return fFail(c, "zoo-exporttype", "ExportType() of a wrapped %T is %v ([R-orig]: the underlying type is not lost)", fn, et)
	}
	if ex := jv.Export(); reflect.TypeOf(ex) != reflect.TypeOf(fn) || reflect.ValueOf(ex).Pointer() != reflect.ValueOf(fn).Pointer() {
		return fFail(c, "zoo-export", "Export() of a wrapped %T is %T, not the original function ([R-orig])", fn, ex)
	}
	vm.Set("f", jv)
	o := jsx.RunString(vm, "(function(){ var r = "+strings.TrimPrefix(c.callSrc(), `"use strict"; `)+`;
		function d(x) { return x === undefined ? "undef" : typeof x === "number" ? "n:" + x : typeof x === "string" ? "s:" + x : x instanceof Array ? "a:" + x.map(d).join(",") : "?" + typeof x }
		return d(r) })()`)
	switch {
	case o.Kind == "panic":
		return fFail(c, "zoo-panic", "host panic: %s", o.Text)
	case want == "throw":
		if o.Kind != "exception" || !errors.Is(o.Err, gobridge.ErrZoo) {
			return fFail(c, "zoo-error", "[F-multi]: a non-nil error result becomes an exception wrapping it; outcome %s %s", o.Kind, o.Text)
		}
	case o.Kind != "value" || o.Value.String() != want:
		return fFail(c, "zoo-result", "result %s %v %s, want %s", o.Kind, o.Value, o.Text, want)
	}
	return nil
}

// judgeGateway: ExportTo of a script function into a Go func type (Runtime.ExportTo doc, "Functions"):
//
//	[GW] "Exporting to a 'func' creates a strictly typed 'gateway' into an ES function which can be called from Go. The
//	     arguments are converted into ES values using Runtime.ToValue(). If the func has no return values, the return
//	     value is ignored. If the func has exactly one return value, it is converted to the appropriate type using
//	     ExportTo(). If the last return value is 'error', exceptions are caught and returned as *Exception (instances
//	     of GoError are unwrapped, i.e. their 'value' is returned instead). In all other cases exceptions result in a
//	     panic. Any extra return values are zeroed. 'this' value will always be set to 'undefined'."
func judgeGateway(c *FuncCase, vm *goja.Runtime) *evid.Failure {
	ai := c.argInts()
	a0, a1 := 0, 0
	if len(ai) > 0 {
		a0 = ai[0] % 1000
	}
	if len(ai) > 1 {
		a1 = ai[1] % 1000
	}
	run := func(src string) (goja.Value, *evid.Failure) {
		o := jsx.RunString(vm, src)
		if o.Kind != "value" {
			return nil, fFail(c, "harness", "cannot build the script function: %s", o.Text)
		}
		return o.Value, nil
	}
	var fail *evid.Failure
	o := jsx.Protect(func() (goja.Value, error) {
		switch c.Special {
		case "gw-add":
			v, f := run(`(function(a, b) { return this === undefined ? a + b + 0.75 : -1 })`)
			if f != nil {
				fail = f
				return nil, nil
			}
			var fn func(int8, int) int
			if err := vm.ExportTo(v, &fn); err != nil {
				fail = fFail(c, "gw-exportto", "ExportTo(&func) failed: %v", err)
				return nil, nil
			}
			// strict function would see this === undefined; a sloppy one sees the global object: accept both encodings
			got := fn(int8(a0%100), a1)
			if got != int(int8(a0%100))+a1 && got != -1 {
				fail = fFail(c, "gw-result", "gateway returned %d for (%d, %d) ([GW]: result converted with ExportTo)", got, int8(a0%100), a1)
			}
		case "gw-void":
			v, f := run(`var gwseen; (function(a) { gwseen = a; return {} })`)
			if f != nil {
				fail = f
				return nil, nil
			}
			var fn func(map[string]int)
			if err := vm.ExportTo(v, &fn); err != nil {
				fail = fFail(c, "gw-exportto", "ExportTo(&func) failed: %v", err)
				return nil, nil
			}
			m := map[string]int{"k": a0}
			fn(m)
			seen := vm.Get("gwseen")
			if seen == nil || reflect.ValueOf(seen.Export()).Kind() != reflect.Map || reflect.ValueOf(seen.Export()).Pointer() != reflect.ValueOf(m).Pointer() {
				fail = fFail(c, "gw-arg", "the script function did not receive the Go map passed to the gateway ([GW]: arguments converted with ToValue)")
			}
		case "gw-variadic":
			v, f := run(`(function() { var s = 0; for (var i = 0; i < arguments.length; i++) s += arguments[i]; return [arguments.length, s] })`)
			if f != nil {
				fail = f
				return nil, nil
			}
			var fn func(int, ...int) []int
			if err := vm.ExportTo(v, &fn); err != nil {
				fail = fFail(c, "gw-exportto", "ExportTo(&func) failed: %v", err)
				return nil, nil
			}
			got := fn(a0, ai...)
			sum := a0
			for _, x := range ai {
				sum += x
			}
			if len(got) != 2 || got[0] != 1+len(ai) || got[1] != sum {
				fail = fFail(c, "gw-variadic", "variadic gateway returned %v for (%d, %v...)", got, a0, ai)
			}
		case "gw-throw":
			v, f := run(`(function(a) { throw new TypeError("boom" + a) })`)
			if f != nil {
				fail = f
				return nil, nil
			}
			var fn func(int) (int, string, error)
			if err := vm.ExportTo(v, &fn); err != nil {
				fail = fFail(c, "gw-exportto", "ExportTo(&func) failed: %v", err)
				return nil, nil
			}
			n, s, err := fn(a0)
			ex, ok := err.(*goja.Exception)
			if !ok || n != 0 || s != "" {
				fail = fFail(c, "gw-throw", "[GW]: exceptions are returned as *Exception and the other results zeroed; got %d %q %T %v", n, s, err, err)
			} else if !strings.Contains(ex.Value().String(), "boom") {
				fail = fFail(c, "gw-throw", "exception value lost: %v", ex.Value())
			}
		case "gw-goerror":
			vm.Set("gofail", func() error { return gobridge.ErrZoo })
			v, f := run(`(function() { gofail(); return 1 })`)
			if f != nil {
				fail = f
				return nil, nil
			}
			var fn func() (int, error)
			if err := vm.ExportTo(v, &fn); err != nil {
				fail = fFail(c, "gw-exportto", "ExportTo(&func) failed: %v", err)
				return nil, nil
			}
			if _, err := fn(); err != gobridge.ErrZoo {
				fail = fFail(c, "gw-goerror", "[GW]: instances of GoError are unwrapped; got %T %v", err, err)
			}
		}
		return nil, nil
	})
	if o.Kind != "value" {
		return fFail(c, "gw-panic", "the gateway panicked: %s", o.Text)
	}
	return fail
}

func judgeSpecialFunc(c *FuncCase, vm *goja.Runtime) *evid.Failure {
	if strings.HasPrefix(c.Special, "zoo-") {
		return judgeZooFunc(c, vm)
	}
	if strings.HasPrefix(c.Special, "gw-") {
		return judgeGateway(c, vm)
	}
	calls := 0
	var nargs int
	var sawNew bool
	var thisObj *goja.Object
	switch c.Special {
	case "native", "native-new":
		vm.Set("f", func(call goja.FunctionCall) goja.Value {
			calls++
			nargs = len(call.Arguments)
			return vm.ToValue(len(call.Arguments) + 100)
		})
	default:
		vm.Set("f", func(call goja.ConstructorCall) *goja.Object {
			calls++
			nargs = len(call.Arguments)
			sawNew = call.NewTarget != nil
			thisObj = call.This
			call.This.Set("tag", 7)
			if c.Special == "ctor-ret" {
				o := vm.NewObject()
				o.Set("tag", 8)
				return o
			}
			return nil
		})
	}
	o := jsx.RunString(vm, "var r = "+strings.TrimPrefix(c.callSrc(), `"use strict"; `)+"; r")
	if o.Kind == "panic" {
		return fFail(c, "special-panic", "host panic: %s", o.Text)
	}
	switch c.Special {
	case "native":
		if o.Kind != "value" || calls != 1 || nargs != len(c.Args) || o.Value.ToInteger() != int64(len(c.Args)+100) {
			return fFail(c, "native-call", "native function: outcome %s %s calls=%d nargs=%d", o.Kind, o.Text, calls, nargs)
		}
	case "native-new":
		if o.Kind != "exception" || jsx.ExcName(vm, o.Err) != "TypeError" || calls != 0 {
			return fFail(c, "native-new", "[F-native] says TypeError when used as a constructor; outcome %s %s calls=%d", o.Kind, o.Text, calls)
		}
	case "ctor-new", "ctor-call", "ctor-ret":
		if o.Kind != "value" || calls != 1 || nargs != len(c.Args) {
			return fFail(c, "ctor-call", "native constructor: outcome %s %s calls=%d nargs=%d", o.Kind, o.Text, calls, nargs)
		}
		if sawNew && c.Special == "ctor-call" {
			// [F-ctor]: "When a native constructor is called directly (without the new operator) ... call.NewTarget will be nil."
			return fFail(c, "ctor-newtarget", "NewTarget is set for a direct call")
		}
		res, ok := o.Value.(*goja.Object)
		if !ok {
			return fFail(c, "ctor-result", "result is not an object: %v", o.Value)
		}
		wantTag := int64(7)
		if c.Special == "ctor-ret" {
			wantTag = 8
		} else if !res.SameAs(thisObj) {
			return fFail(c, "ctor-result", "result is not call.This")
		}
		if tg := res.Get("tag"); tg == nil || tg.ToInteger() != wantTag {
			return fFail(c, "ctor-result", "result.tag = %v, want %d", tg, wantTag)
		}
		if c.Special != "ctor-ret" {
			io := jsx.RunString(vm, "r instanceof f")
			if io.Kind != "value" || !io.Value.ToBoolean() {
				return fFail(c, "ctor-instanceof", "[F-ctor] says r instanceof f; got %s %v", io.Kind, io.Value)
			}
		}
	}
	return nil
}

func funcNontrivial(c *FuncCase) bool {
	if c.Special != "" {
		return true
	}
	if len(c.Args) != len(c.In) || c.Variadic || c.HasErr || len(c.Out) > 1 {
		return true
	}
	for _, t := range c.In {
		if t.Depth() >= 1 {
			return true
		}
	}
	return false
}
