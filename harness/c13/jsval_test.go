package c13

// Script-side values written into wrappers / passed to Go functions, and the
// documented JS -> Go conversion (Runtime.ExportTo doc comment):
//
//  [C-num]   "Exporting to numeric types uses the standard ECMAScript conversion operations, same as used when
//             assigning values to non-clamped typed array items, e.g. https://262.ecma-international.org/#sec-toint32."
//  [C-iface] "Exporting to an interface{} results in a value of the same type as Value.Export() would produce."
//             with Value doc: integers int64, other numbers float64, string, bool, null/undefined nil, and
//             Object.Export: arrays -> []interface{}, other objects -> map[string]interface{} of own enumerable properties.
//  [C-map]   "Any other Object populates the map with own enumerable non-symbol properties."
//  [C-slice] "Array is treated as iterable"; "Anything that can be exported to a slice type can also be exported to an
//             array type, as long as the lengths match. If they do not, an error is returned."; "For any other Object
//             an error is returned."
//  [C-copy]  ToValue doc: "1. If a regular JavaScript Object is assigned as an element of a wrapped Go struct, map or
//             array, it is Export()'ed and therefore copied." and "Assignment to an inner compound value always does a
//             copy (and sometimes type conversion)".
//  [C-err]   ToValue doc, functions: "If conversion is not possible, a TypeError is thrown."
//
// ToBoolean / ToString / ToNumber for bool, string and number targets are the ECMAScript operations ([C-num] names
// them for numbers; goja's Value.ToBoolean()/String()/ToFloat() are documented as those operations by name).
// Not documented, hence never generated: null/undefined into string or struct targets, objects into scalar
// targets, arrays into struct/map targets, partially specified objects into struct slots that already hold data,
// object literals into struct types with embedded fields.

import (
	"fmt"
	"math"
	"reflect"
	"strconv"
	"strings"

	"pgregory.net/rapid"

	"verifh/internal/jsx"
	"verifh/internal/numref"
)

type JSVal struct {
	K     string   `json:"k"`           // num str bool null undef obj arr h
	F     string   `json:"f,omitempty"` // number as hex float bits
	S     string   `json:"s,omitempty"`
	B     bool     `json:"b,omitempty"`
	Keys  []string `json:"keys,omitempty"`
	Elems []*JSVal `json:"elems,omitempty"` // obj values / arr items
	H     string   `json:"h,omitempty"`     // handle (script variable) name
}

func jsNum(f float64) *JSVal {
	return &JSVal{K: "num", F: strconv.FormatUint(math.Float64bits(f), 16)}
}

func (v *JSVal) num() float64 {
	b, _ := strconv.ParseUint(v.F, 16, 64)
	return math.Float64frombits(b)
}

func (v *JSVal) src() string {
	switch v.K {
	case "num":
		return jsx.NumLit(v.num())
	case "str":
		return jsx.StrLitGo(v.S, true)
	case "bool":
		return strconv.FormatBool(v.B)
	case "null":
		return "null"
	case "undef":
		return "undefined"
	case "h":
		return v.H
	case "arr":
		parts := make([]string, len(v.Elems))
		for i, e := range v.Elems {
			parts[i] = e.src()
		}
		return "[" + strings.Join(parts, ",") + "]"
	case "obj":
		parts := make([]string, len(v.Keys))
		for i, k := range v.Keys {
			parts[i] = "[" + jsx.StrLitGo(k, true) + "]:" + v.Elems[i].src()
		}
		return "({" + strings.Join(parts, ",") + "})"
	}
	return "undefined"
}

type convErr struct{ msg string }

func (e *convErr) Error() string { return e.msg }

// errUnspecified marks a conversion the documentation does not determine; callers must not judge such a case.
var errUnspecified = fmt.Errorf("conversion not specified by the documentation")

// toNumber is ECMAScript ToNumber for the primitive kinds.
func (v *JSVal) toNumber() (float64, bool) {
	switch v.K {
	case "num":
		return v.num(), true
	case "str":
		return numref.StringToNumber(v.S), true
	case "bool":
		if v.B {
			return 1, true
		}
		return 0, true
	case "null":
		return 0, true
	case "undef":
		return math.NaN(), true
	}
	return 0, false
}

// convInto converts v into dst (addressable, of the target type) following the documentation. It returns a
// *convErr when the documentation says the conversion is not possible, errUnspecified when it says nothing.
// resolve maps a handle name to the Go value the handle refers to (nil when handles are not in play).
func convInto(mapper string, v *JSVal, dst reflect.Value, resolve func(string) (reflect.Value, bool)) error {
	t := dst.Type()
	if v.K == "h" {
		if resolve == nil {
			return errUnspecified
		}
		hv, ok := resolve(v.H)
		if !ok {
			return errUnspecified
		}
		// [C-copy]: "a[1] = tmp; // a[1] is now a copy of tmp"
		for hv.Kind() == reflect.Ptr && !hv.Type().AssignableTo(t) {
			if hv.IsNil() {
				return errUnspecified
			}
			hv = hv.Elem()
		}
		if !hv.Type().AssignableTo(t) {
			return errUnspecified
		}
		dst.Set(hv)
		return nil
	}
	switch t.Kind() {
	case reflect.Interface:
		if t.NumMethod() != 0 {
			return errUnspecified
		}
		d, err := defaultExport(v)
		if err != nil {
			return err
		}
		if d == nil {
			dst.Set(reflect.Zero(t))
		} else {
			dst.Set(reflect.ValueOf(d))
		}
		return nil
	case reflect.Bool:
		switch v.K {
		case "num":
			f := v.num()
			dst.SetBool(f != 0 && !math.IsNaN(f))
		case "str":
			dst.SetBool(v.S != "")
		case "bool":
			dst.SetBool(v.B)
		case "null", "undef":
			dst.SetBool(false)
		default:
			dst.SetBool(true)
		}
		return nil
	case reflect.String:
		switch v.K {
		case "num":
			dst.SetString(jsx.NumberToString(v.num()))
		case "str":
			dst.SetString(v.S)
		case "bool":
			dst.SetString(strconv.FormatBool(v.B))
		default:
			return errUnspecified
		}
		return nil
	case reflect.Int, reflect.Int8, reflect.Int16, reflect.Int32, reflect.Int64:
		f, ok := v.toNumber()
		if !ok {
			return errUnspecified
		}
		var i int64
		switch t.Kind() {
		case reflect.Int8:
			i = int64(numref.ToInt8(f))
		case reflect.Int16:
			i = int64(numref.ToInt16(f))
		case reflect.Int32:
			i = int64(numref.ToInt32(f))
		default:
			i = numref.ToInt64(f)
		}
		dst.SetInt(i)
		return nil
	case reflect.Uint, reflect.Uint8, reflect.Uint16, reflect.Uint32, reflect.Uint64:
		f, ok := v.toNumber()
		if !ok {
			return errUnspecified
		}
		var u uint64
		switch t.Kind() {
		case reflect.Uint8:
			u = uint64(numref.ToUint8(f))
		case reflect.Uint16:
			u = uint64(numref.ToUint16(f))
		case reflect.Uint32:
			u = uint64(numref.ToUint32(f))
		default:
			u = numref.ToUint64(f)
		}
		dst.SetUint(u)
		return nil
	case reflect.Float32, reflect.Float64:
		f, ok := v.toNumber()
		if !ok || v.K == "undef" {
			return errUnspecified
		}
		if t.Kind() == reflect.Float32 {
			f = numref.ToFloat32(f)
		}
		dst.SetFloat(f)
		return nil
	case reflect.Ptr:
		if t == typeBigInt {
			return errUnspecified
		}
		if v.K == "null" || v.K == "undef" {
			dst.Set(reflect.Zero(t))
			return nil
		}
		p := reflect.New(t.Elem())
		if err := convInto(mapper, v, p.Elem(), resolve); err != nil {
			return err
		}
		dst.Set(p)
		return nil
	case reflect.Struct:
		switch v.K {
		case "num", "str", "bool":
			return &convErr{"a primitive cannot be converted to a struct"}
		case "obj":
		default:
			return errUnspecified
		}
		for i := 0; i < t.NumField(); i++ {
			f := t.Field(i)
			if f.Anonymous {
				return errUnspecified
			}
			if !f.IsExported() {
				continue
			}
			name := jsFieldName(mapper, f)
			if name == "" {
				continue
			}
			for j, k := range v.Keys {
				if k == name {
					if err := convInto(mapper, v.Elems[j], dst.Field(i), resolve); err != nil {
						return err
					}
				}
			}
		}
		return nil
	case reflect.Map:
		switch v.K {
		case "num", "str", "bool":
			return &convErr{"a primitive cannot be converted to a map"}
		case "null", "undef":
			dst.Set(reflect.Zero(t))
			return nil
		case "obj":
		default:
			return errUnspecified
		}
		m := reflect.MakeMap(t)
		for j, k := range v.Keys {
			kv := reflect.New(t.Key()).Elem()
			if err := convInto(mapper, &JSVal{K: "str", S: k}, kv, nil); err != nil {
				return err
			}
			ev := reflect.New(t.Elem()).Elem()
			if err := convInto(mapper, v.Elems[j], ev, resolve); err != nil {
				return err
			}
			m.SetMapIndex(kv, ev)
		}
		dst.Set(m)
		return nil
	case reflect.Slice:
		switch v.K {
		case "num", "bool":
			return &convErr{"a primitive cannot be converted to a slice"}
		case "obj":
			return &convErr{"an object that is neither iterable nor array-like cannot be converted to a slice"}
		case "null", "undef":
			dst.Set(reflect.Zero(t))
			return nil
		case "arr":
		default:
			return errUnspecified
		}
		s := reflect.MakeSlice(t, len(v.Elems), len(v.Elems))
		for i, e := range v.Elems {
			if err := convInto(mapper, e, s.Index(i), resolve); err != nil {
				return err
			}
		}
		dst.Set(s)
		return nil
	case reflect.Array:
		switch v.K {
		case "num", "bool":
			return &convErr{"a primitive cannot be converted to an array"}
		case "obj":
			return &convErr{"an object that is neither iterable nor array-like cannot be converted to an array"}
		case "arr":
		default:
			return errUnspecified
		}
		if len(v.Elems) != t.Len() {
			return &convErr{"array length mismatch"}
		}
		for i, e := range v.Elems {
			if err := convInto(mapper, e, dst.Index(i), resolve); err != nil {
				return err
			}
		}
		return nil
	case reflect.Func:
		switch v.K {
		case "num", "str", "bool", "obj", "arr":
			return &convErr{"not a function"}
		}
		return errUnspecified
	}
	return errUnspecified
}

// defaultExport is Value.Export() of a plain script value ([C-iface]).
func defaultExport(v *JSVal) (interface{}, error) {
	switch v.K {
	case "num":
		f := v.num()
		if f == math.Trunc(f) && !math.IsInf(f, 0) && math.Abs(f) <= 1<<53 && !(f == 0 && math.Signbit(f)) {
			return int64(f), nil
		}
		return f, nil
	case "str":
		return v.S, nil
	case "bool":
		return v.B, nil
	case "null", "undef":
		return nil, nil
	case "arr":
		out := make([]interface{}, len(v.Elems))
		for i, e := range v.Elems {
			d, err := defaultExport(e)
			if err != nil {
				return nil, err
			}
			out[i] = d
		}
		return out, nil
	case "obj":
		out := map[string]interface{}{}
		for i, k := range v.Keys {
			d, err := defaultExport(v.Elems[i])
			if err != nil {
				return nil, err
			}
			out[k] = d
		}
		return out, nil
	}
	return nil, errUnspecified
}

var numPool = []float64{0, 1, -1, 2, 7, 42, 1.5, -2.5, 0.1, 127, 128, -128, -129, 255, 256, 257, 32767, 32768, 65535, 65536, 65537,
	2147483647, 2147483648, -2147483648, -2147483649, 4294967295, 4294967296, 4294967297, 1099511627776, 1099511627776.5, -1099511627777,
	9007199254740991, 9007199254740992, 1e21, -1e21, 1e300, 9223372036854775808, 18446744073709551616, 18446744073709549568, 3.4028234663852886e38, 1e39, 16777217,
	math.Inf(1), math.Inf(-1), math.NaN(), math.Copysign(0, -1), 123456789.125, -0.9, 0.9, 4294967295.9}

var strNumPool = []string{"42", " 7 ", "0x10", "1e3", "-5", "abc", "", "1.5", "Infinity", "0b11", "12px", "4294967297", "-0"}

type jsGen struct {
	t      *rapid.T
	mapper string
	// safe: only produce values whose converted result is representable without NaN/Inf/-0 in float targets
	safe bool
}

func (g *jsGen) number(forFloat bool) *JSVal {
	var f float64
	switch rapid.IntRange(0, 2).Draw(g.t, "numclass") {
	case 0:
		f = float64(rapid.IntRange(-5, 30).Draw(g.t, "small"))
	case 1:
		f = numPool[rapid.IntRange(0, len(numPool)-1).Draw(g.t, "pool")]
	default:
		f = float64(rapid.IntRange(-4000, 4000).Draw(g.t, "q")) / 8
	}
	if forFloat && (math.IsNaN(f) || (g.safe && (math.IsInf(f, 0) || (f == 0 && math.Signbit(f)) || math.Abs(f) > 3e38))) {
		f = 2.5
	}
	return jsNum(f)
}

// forType draws a script value convertible to t (possible=true) or, with small probability, one the
// documentation declares not convertible (possible=false). depth bounds literal nesting.
func (g *jsGen) forType(t reflect.Type, depth int, allowWrong bool) (v *JSVal, possible bool) {
	if allowWrong && rapid.IntRange(0, 11).Draw(g.t, "wrong") == 0 {
		switch t.Kind() {
		case reflect.Struct, reflect.Map:
			if t != reflect.TypeOf(struct{}{}) && !hasAnonymous(t) {
				return []*JSVal{jsNum(5), {K: "str", S: "x"}, {K: "bool", B: true}}[rapid.IntRange(0, 2).Draw(g.t, "wrongprim")], false
			}
		case reflect.Slice:
			return []*JSVal{jsNum(5), {K: "bool", B: true}, {K: "obj", Keys: []string{"a"}, Elems: []*JSVal{jsNum(1)}}}[rapid.IntRange(0, 2).Draw(g.t, "wrongprim")], false
		case reflect.Array:
			els := make([]*JSVal, t.Len()+1)
			for i := range els {
				els[i] = &JSVal{K: "null"}
			}
			return &JSVal{K: "arr", Elems: els}, false
		}
	}
	switch t.Kind() {
	case reflect.Bool:
		switch rapid.IntRange(0, 4).Draw(g.t, "boolsrc") {
		case 0:
			return g.number(false), true
		case 1:
			return &JSVal{K: "str", S: []string{"", "a", "false", "0"}[rapid.IntRange(0, 3).Draw(g.t, "bs")]}, true
		case 2:
			return &JSVal{K: []string{"null", "undef"}[rapid.IntRange(0, 1).Draw(g.t, "nu")]}, true
		}
		return &JSVal{K: "bool", B: rapid.Bool().Draw(g.t, "b")}, true
	case reflect.String:
		switch rapid.IntRange(0, 4).Draw(g.t, "strsrc") {
		case 0:
			n := g.number(false)
			return n, true
		case 1:
			return &JSVal{K: "bool", B: rapid.Bool().Draw(g.t, "b")}, true
		}
		return &JSVal{K: "str", S: []string{"", "a", "abc", "héllo", "日本", "😀", "x y", "1", "abcdefghijklmnopqrstuvwxyz"}[rapid.IntRange(0, 8).Draw(g.t, "s")]}, true
	case reflect.Int, reflect.Int8, reflect.Int16, reflect.Int32, reflect.Int64, reflect.Uint, reflect.Uint8, reflect.Uint16, reflect.Uint32, reflect.Uint64:
		switch rapid.IntRange(0, 7).Draw(g.t, "intsrc") {
		case 0:
			return &JSVal{K: "str", S: strNumPool[rapid.IntRange(0, len(strNumPool)-1).Draw(g.t, "sn")]}, true
		case 1:
			return &JSVal{K: "bool", B: rapid.Bool().Draw(g.t, "b")}, true
		case 2:
			return &JSVal{K: []string{"null", "undef"}[rapid.IntRange(0, 1).Draw(g.t, "nu")]}, true
		}
		return g.number(false), true
	case reflect.Float32, reflect.Float64:
		switch rapid.IntRange(0, 7).Draw(g.t, "floatsrc") {
		case 0:
			return &JSVal{K: "str", S: []string{"42", " 7 ", "0x10", "1e3", "-5", "1.5", "0b11"}[rapid.IntRange(0, 6).Draw(g.t, "sn")]}, true
		case 1:
			return &JSVal{K: "bool", B: rapid.Bool().Draw(g.t, "b")}, true
		case 2:
			return &JSVal{K: "null"}, true
		}
		return g.number(true), true
	case reflect.Interface:
		if depth <= 0 {
			return g.number(true), true
		}
		switch rapid.IntRange(0, 7).Draw(g.t, "ifsrc") {
		case 0:
			return &JSVal{K: "null"}, true
		case 1:
			return &JSVal{K: "str", S: "s" + strconv.Itoa(rapid.IntRange(0, 9).Draw(g.t, "sd"))}, true
		case 2:
			return &JSVal{K: "bool", B: rapid.Bool().Draw(g.t, "b")}, true
		case 3:
			n := rapid.IntRange(0, 2).Draw(g.t, "alen")
			a := &JSVal{K: "arr"}
			for i := 0; i < n; i++ {
				e, _ := g.forType(t, depth-1, false)
				a.Elems = append(a.Elems, e)
			}
			return a, true
		case 4:
			o := &JSVal{K: "obj"}
			for _, k := range []string{"p", "q"}[:rapid.IntRange(0, 2).Draw(g.t, "olen")] {
				e, _ := g.forType(t, depth-1, false)
				o.Keys = append(o.Keys, k)
				o.Elems = append(o.Elems, e)
			}
			return o, true
		}
		return g.number(true), true
	case reflect.Ptr:
		if t == typeBigInt {
			return &JSVal{K: "null"}, false
		}
		if depth <= 0 || rapid.IntRange(0, 3).Draw(g.t, "ptrnull") == 0 {
			return &JSVal{K: "null"}, true
		}
		return g.forType(t.Elem(), depth, false)
	case reflect.Struct:
		o := &JSVal{K: "obj"}
		for i := 0; i < t.NumField(); i++ {
			f := t.Field(i)
			name := jsFieldName(g.mapper, f)
			if !f.IsExported() || name == "" {
				continue
			}
			e, _ := g.forType(f.Type, depth-1, false)
			o.Keys = append(o.Keys, name)
			o.Elems = append(o.Elems, e)
		}
		return o, true
	case reflect.Map:
		if rapid.IntRange(0, 5).Draw(g.t, "mapnull") == 0 {
			return &JSVal{K: "null"}, true
		}
		o := &JSVal{K: "obj"}
		n := 0
		if depth > 0 {
			n = rapid.IntRange(0, 2).Draw(g.t, "mlen")
		}
		for i := 0; i < n; i++ {
			var k string
			switch t.Key().Kind() {
			case reflect.String:
				k = []string{"a", "b", "k1", "1", "ü"}[rapid.IntRange(0, 4).Draw(g.t, "mk")]
			case reflect.Float32, reflect.Float64:
				k = []string{"1", "2", "1.5", "-0.25"}[rapid.IntRange(0, 3).Draw(g.t, "mk")]
			case reflect.Int8:
				k = []string{"1", "2", "-3", "127"}[rapid.IntRange(0, 3).Draw(g.t, "mk")]
			case reflect.Uint8:
				k = []string{"1", "2", "3", "255"}[rapid.IntRange(0, 3).Draw(g.t, "mk")]
			case reflect.Uint, reflect.Uint16, reflect.Uint32, reflect.Uint64:
				k = []string{"1", "2", "3", "40000"}[rapid.IntRange(0, 3).Draw(g.t, "mk")]
			default:
				k = []string{"1", "2", "-3", "1000"}[rapid.IntRange(0, 3).Draw(g.t, "mk")]
			}
			dup := false
			for _, x := range o.Keys {
				if x == k {
					dup = true
				}
			}
			if dup {
				continue
			}
			e, _ := g.forType(t.Elem(), depth-1, false)
			o.Keys = append(o.Keys, k)
			o.Elems = append(o.Elems, e)
		}
		return o, true
	case reflect.Slice:
		if rapid.IntRange(0, 7).Draw(g.t, "slnull") == 0 {
			return &JSVal{K: "null"}, true
		}
		a := &JSVal{K: "arr"}
		n := 0
		if depth > 0 {
			n = rapid.IntRange(0, 3).Draw(g.t, "sllen")
		}
		for i := 0; i < n; i++ {
			e, _ := g.forType(t.Elem(), depth-1, false)
			a.Elems = append(a.Elems, e)
		}
		return a, true
	case reflect.Array:
		a := &JSVal{K: "arr"}
		for i := 0; i < t.Len(); i++ {
			e, _ := g.forType(t.Elem(), depth-1, false)
			a.Elems = append(a.Elems, e)
		}
		return a, true
	}
	return &JSVal{K: "null"}, false
}

func hasAnonymous(t reflect.Type) bool {
	if t.Kind() != reflect.Struct {
		return false
	}
	for i := 0; i < t.NumField(); i++ {
		if t.Field(i).Anonymous {
			return true
		}
	}
	return false
}
