package c13

import (
	"fmt"
	"math/big"
	"reflect"
	"time"
)

type eqOpts struct {
	nilEqEmpty bool // nil slice/map equals empty slice/map
	numLenient bool // inside interface{}: int64 and float64 with the same numeric value are equal
}

type eqVisit struct {
	a, b uintptr
	n    int
}

// deepEq is reflect.DeepEqual with *big.Int compared by value, time.Time by
// instant+zone offset, and two optional relaxations. It returns the path of the
// first difference.
func deepEq(a, b reflect.Value, o eqOpts) (bool, string) {
	return deepEq1(a, b, o, "", map[eqVisit]bool{}, 0)
}

func deepEq1(a, b reflect.Value, o eqOpts, path string, seen map[eqVisit]bool, depth int) (bool, string) {
	if depth > 60 {
		return true, ""
	}
	if !a.IsValid() || !b.IsValid() {
		if a.IsValid() == b.IsValid() {
			return true, ""
		}
		return false, path + ": one side invalid"
	}
	if a.Type() != b.Type() {
		if o.numLenient {
			if fa, oka := numOf(a); oka {
				if fb, okb := numOf(b); okb && fa == fb {
					return true, ""
				}
			}
		}
		return false, fmt.Sprintf("%s: type %v vs %v", path, a.Type(), b.Type())
	}
	if a.Type() == typeBigInt {
		var x, y big.Int
		if !a.IsNil() {
			x.Set(peek(a).Interface().(*big.Int))
		}
		if !b.IsNil() {
			y.Set(peek(b).Interface().(*big.Int))
		}
		if x.Cmp(&y) != 0 {
			return false, fmt.Sprintf("%s: big.Int %v vs %v", path, &x, &y)
		}
		return true, ""
	}
	if a.Type() == reflect.TypeOf(time.Time{}) {
		x, y := peek(a).Interface().(time.Time), peek(b).Interface().(time.Time)
		_, ox := x.Zone()
		_, oy := y.Zone()
		if !x.Equal(y) || ox != oy {
			return false, fmt.Sprintf("%s: time %v vs %v", path, x, y)
		}
		return true, ""
	}
	switch a.Kind() {
	case reflect.Bool:
		if a.Bool() != b.Bool() {
			return false, fmt.Sprintf("%s: %v vs %v", path, a.Bool(), b.Bool())
		}
	case reflect.Int, reflect.Int8, reflect.Int16, reflect.Int32, reflect.Int64:
		if a.Int() != b.Int() {
			return false, fmt.Sprintf("%s: %v vs %v", path, a.Int(), b.Int())
		}
	case reflect.Uint, reflect.Uint8, reflect.Uint16, reflect.Uint32, reflect.Uint64, reflect.Uintptr:
		if a.Uint() != b.Uint() {
			return false, fmt.Sprintf("%s: %v vs %v", path, a.Uint(), b.Uint())
		}
	case reflect.Float32, reflect.Float64:
		if a.Float() != b.Float() {
			return false, fmt.Sprintf("%s: %v vs %v", path, a.Float(), b.Float())
		}
	case reflect.String:
		if a.String() != b.String() {
			return false, fmt.Sprintf("%s: %q vs %q", path, a.String(), b.String())
		}
	case reflect.Interface:
		if a.IsNil() || b.IsNil() {
			if a.IsNil() == b.IsNil() {
				return true, ""
			}
			return false, fmt.Sprintf("%s: nil interface vs non-nil (%v / %v)", path, a, b)
		}
		return deepEq1(a.Elem(), b.Elem(), o, path, seen, depth+1)
	case reflect.Ptr:
		if a.IsNil() || b.IsNil() {
			if a.IsNil() == b.IsNil() {
				return true, ""
			}
			return false, fmt.Sprintf("%s: nil pointer vs non-nil", path)
		}
		if a.Pointer() == b.Pointer() {
			return true, ""
		}
		k := eqVisit{a.Pointer(), b.Pointer(), 0}
		if seen[k] {
			return true, ""
		}
		seen[k] = true
		return deepEq1(a.Elem(), b.Elem(), o, path+"*", seen, depth+1)
	case reflect.Struct:
		for i := 0; i < a.NumField(); i++ {
			if ok, d := deepEq1(a.Field(i), b.Field(i), o, path+"."+a.Type().Field(i).Name, seen, depth+1); !ok {
				return false, d
			}
		}
	case reflect.Array:
		for i := 0; i < a.Len(); i++ {
			if ok, d := deepEq1(a.Index(i), b.Index(i), o, fmt.Sprintf("%s[%d]", path, i), seen, depth+1); !ok {
				return false, d
			}
		}
	case reflect.Slice:
		if a.IsNil() != b.IsNil() && !(o.nilEqEmpty && a.Len() == 0 && b.Len() == 0) {
			return false, fmt.Sprintf("%s: nil slice vs non-nil slice", path)
		}
		if a.Len() != b.Len() {
			return false, fmt.Sprintf("%s: len %d vs %d", path, a.Len(), b.Len())
		}
		if a.Len() > 0 {
			k := eqVisit{a.Pointer(), b.Pointer(), a.Len()}
			if seen[k] {
				return true, ""
			}
			seen[k] = true
		}
		for i := 0; i < a.Len(); i++ {
			if ok, d := deepEq1(a.Index(i), b.Index(i), o, fmt.Sprintf("%s[%d]", path, i), seen, depth+1); !ok {
				return false, d
			}
		}
	case reflect.Map:
		if a.IsNil() != b.IsNil() && !(o.nilEqEmpty && a.Len() == 0 && b.Len() == 0) {
			return false, fmt.Sprintf("%s: nil map vs non-nil map", path)
		}
		if a.Len() != b.Len() {
			return false, fmt.Sprintf("%s: map len %d vs %d", path, a.Len(), b.Len())
		}
		if a.Len() > 0 && a.Pointer() == b.Pointer() {
			return true, ""
		}
		if a.Len() > 0 {
			k := eqVisit{a.Pointer(), b.Pointer(), -1}
			if seen[k] {
				return true, ""
			}
			seen[k] = true
		}
		it := a.MapRange()
		for it.Next() {
			bv := b.MapIndex(it.Key())
			if !bv.IsValid() {
				return false, fmt.Sprintf("%s: key %v missing on one side", path, it.Key())
			}
			if ok, d := deepEq1(it.Value(), bv, o, fmt.Sprintf("%s[%v]", path, it.Key()), seen, depth+1); !ok {
				return false, d
			}
		}
	case reflect.Func:
		if a.IsNil() && b.IsNil() {
			return true, ""
		}
		if a.IsNil() != b.IsNil() || a.Pointer() != b.Pointer() {
			return false, path + ": func differs"
		}
	default:
		return false, fmt.Sprintf("%s: unsupported kind %v", path, a.Kind())
	}
	return true, ""
}

// peek makes a value obtained through an unexported field usable with Interface().
func peek(v reflect.Value) reflect.Value {
	if v.CanInterface() {
		return v
	}
	if v.CanAddr() {
		return reflect.NewAt(v.Type(), v.Addr().UnsafePointer()).Elem()
	}
	// copy through a fresh addressable value
	c := reflect.New(v.Type()).Elem()
	switch v.Kind() {
	case reflect.Ptr:
		return reflect.NewAt(v.Type().Elem(), v.UnsafePointer())
	}
	return c
}

func numOf(v reflect.Value) (float64, bool) {
	switch v.Kind() {
	case reflect.Int, reflect.Int8, reflect.Int16, reflect.Int32, reflect.Int64:
		return float64(v.Int()), true
	case reflect.Uint, reflect.Uint8, reflect.Uint16, reflect.Uint32, reflect.Uint64:
		return float64(v.Uint()), true
	case reflect.Float32, reflect.Float64:
		return v.Float(), true
	}
	return 0, false
}
