package c13

// Sub-check "roundtrip": ToValue -> Export / ExportType / ExportTo for random Go
// values, at top level and for a nested slot reached from script, plus a
// script-side structural clone exported back into the value's own type.
//
// Documentation sentences the oracle relies on:
//
//  [R-wrap]   ToValue: "Structural types (such as structs, maps and slices) are wrapped so that changes are reflected
//              on the original value which can be retrieved using Value.Export()."
//  [R-orig]   ToValue: "Note that the underlying type is not lost, calling Export() returns the original Go value.
//              This applies to all reflect based types."
//  [R-copy]   ToValue: "3. Non-addressable structs, slices and arrays get copied."  (so a struct/array passed by
//              value comes back as an equal value, not as the same memory)
//  [R-int]    Value: "Export returns a "plain" Go value ... For integer numbers it's int64. For any other numbers
//              (including Infinities, NaN and negative zero) it's float64. For string it's a string. ... For boolean
//              it's bool. For null and undefined it's nil."
//  [R-big]    ToValue: "A *big.Int value is converted to a BigInt value. ... the value is copied. Export()'ing this
//              value returns a *big.Int which is also a copy. If the pointer value is nil, the resulting BigInt is 0n."
//  [R-nil]    ToValue: "Nil is converted to null."
//  [R-etype]  Object.ExportType: "ExportType returns the type of the value that is returned by Export()."
//  [R-to]     ExportTo: "ExportTo converts a JavaScript value into the specified Go value." /
//             "Exporting to an interface{} results in a value of the same type as Value.Export() would produce." /
//             "Exporting to numeric types uses the standard ECMAScript conversion operations, same as used when
//              assigning values to non-clamped typed array items" / "Any other Object populates the map with own
//              enumerable non-symbol properties." / "If an object has a 'length' property and is not a function it is
//              treated as array-like." / "Array is treated as iterable".
//  [R-ref]    ToValue, copy-on-change: "When a nested compound value is accessed, the returned ES value becomes a
//              reference to the literal value."
//
// Not demanded (no documentation): which of int64/float64 an integral float exports as (C05 owns that), the result
// for a pointer to a nil pointer, nil-vs-empty for slices and maps after a clone, integers that float64 cannot hold.

import (
	"fmt"
	"math"
	"math/big"
	"reflect"
	"strconv"
	"strings"

	"github.com/dop251/goja"
	"pgregory.net/rapid"

	"verifh/internal/evid"
	"verifh/internal/gobridge"
	"verifh/internal/jsx"
)

type RTCase struct {
	Type   *gobridge.TypeDesc `json:"type"`
	Val    *gobridge.ValDesc  `json:"val"`
	Mapper string             `json:"mapper"`
	Pass   string             `json:"pass"` // value | ptr | ptrptr
	Path   []PathStep         `json:"path,omitempty"`
	Safe   bool               `json:"safe"` // integers restricted to +-2^53, floats finite: clone check applies
}

// PathStep selects a slot below a value: a struct field (by Go field index
// chain), a slice/array index, or a map key (by position in the sorted key list).
type PathStep struct {
	Field string `json:"field,omitempty"` // JS property name
	Index int    `json:"index,omitempty"`
	Key   string `json:"key,omitempty"`
	Kind  string `json:"kind"` // field | index | key
}

func zooAll(z *gobridge.ZooEntry) bool { return !z.Func }

func floatKeyOK(f float64, bits int) bool {
	if math.IsNaN(f) || math.IsInf(f, 0) || (f == 0 && math.Signbit(f)) {
		return false
	}
	var gs string
	if bits == 32 {
		gs = fmt.Sprintf("%v", float32(f))
	} else {
		gs = fmt.Sprintf("%v", f)
	}
	return gs == jsx.NumberToString(f)
}

func genRT(t *rapid.T) *RTCase {
	c := &RTCase{}
	c.Mapper = mapperNames[rapid.IntRange(0, 2).Draw(t, "mapper")]
	c.Safe = rapid.IntRange(0, 2).Draw(t, "safe") > 0
	opts := gobridge.GenOpts{MaxDepth: rapid.IntRange(0, 4).Draw(t, "depth"), Zoo: zooAll}
	c.Type = gobridge.GenType(t, opts)
	dyn := gobridge.GenOpts{MaxDepth: 2, Zoo: zooAll}
	c.Val = gobridge.GenValue(t, c.Type, gobridge.ValOpts{SafeInts: c.Safe, PlainFloat: c.Safe, DynOpts: &dyn, FloatKeyOK: floatKeyOK})
	c.Pass = []string{"value", "value", "ptr", "ptr", "ptrptr"}[rapid.IntRange(0, 4).Draw(t, "pass")]
	// optional path to a nested slot
	if rapid.IntRange(0, 3).Draw(t, "usepath") > 0 {
		v := gobridge.NewBuilder().Make(c.Type, c.Val)
		c.Path = genPath(t, c.Mapper, v, rapid.IntRange(1, 3).Draw(t, "pathlen"))
	}
	return c
}

// genPath walks v choosing slots that the documentation makes reachable from script.
func genPath(t *rapid.T, mapper string, v reflect.Value, n int) []PathStep {
	var out []PathStep
	for len(out) < n {
		for v.Kind() == reflect.Ptr || v.Kind() == reflect.Interface {
			if v.IsNil() {
				return out
			}
			v = v.Elem()
		}
		if v.Type() == gobridge.TypeTime || v.Type() == typeBigInt.Elem() {
			return out
		}
		switch v.Kind() {
		case reflect.Struct:
			fs := visibleFields(mapper, v.Type())
			var ok []visField
			for _, f := range fs {
				if _, good := fieldByIndexSafe(v, f.index); good && !f.optional {
					ok = append(ok, f)
				}
			}
			if len(ok) == 0 {
				return out
			}
			f := ok[rapid.IntRange(0, len(ok)-1).Draw(t, "pfield")]
			out = append(out, PathStep{Kind: "field", Field: f.name})
			v, _ = fieldByIndexSafe(v, f.index)
		case reflect.Slice, reflect.Array:
			if v.Len() == 0 {
				return out
			}
			i := rapid.IntRange(0, v.Len()-1).Draw(t, "pindex")
			out = append(out, PathStep{Kind: "index", Index: i})
			v = v.Index(i)
		case reflect.Map:
			if v.Len() == 0 || hasMethods(v.Type()) {
				return out
			}
			keys := sortedKeys(v)
			k := keys[rapid.IntRange(0, len(keys)-1).Draw(t, "pkey")]
			out = append(out, PathStep{Kind: "key", Key: mapKeyString(k)})
			v = v.MapIndex(k)
		default:
			return out
		}
	}
	return out
}

func sortedKeys(m reflect.Value) []reflect.Value {
	ks := m.MapKeys()
	// deterministic order: by rendered key
	for i := 1; i < len(ks); i++ {
		for j := i; j > 0 && mapKeyString(ks[j]) < mapKeyString(ks[j-1]); j-- {
			ks[j], ks[j-1] = ks[j-1], ks[j]
		}
	}
	return ks
}

func pathExpr(root string, p []PathStep) string {
	var sb strings.Builder
	sb.WriteString(root)
	for _, s := range p {
		switch s.Kind {
		case "field":
			sb.WriteString("." + s.Field)
		case "index":
			sb.WriteString("[" + strconv.Itoa(s.Index) + "]")
		case "key":
			sb.WriteString("[" + jsx.StrLitGo(s.Key, true) + "]")
		}
	}
	return sb.String()
}

// followPath resolves the path on the Go side. addressable reports whether the
// slot is part of addressable memory reachable from the root (so that [R-ref]
// makes a compound element a reference rather than a copy).
func followPath(mapper string, v reflect.Value, p []PathStep) (slot reflect.Value, addressable bool, ok bool) {
	addressable = v.CanAddr()
	for _, s := range p {
		for v.Kind() == reflect.Ptr || v.Kind() == reflect.Interface {
			if v.IsNil() {
				return reflect.Value{}, false, false
			}
			if v.Kind() == reflect.Ptr && v.Elem().Kind() == reflect.Interface {
				return reflect.Value{}, false, false
			}
			if v.Kind() == reflect.Interface {
				addressable = false
			} else {
				addressable = true
			}
			v = v.Elem()
		}
		switch s.Kind {
		case "field":
			if v.Kind() != reflect.Struct {
				return reflect.Value{}, false, false
			}
			found := false
			for _, f := range visibleFields(mapper, v.Type()) {
				if f.name == s.Field {
					// promoted through embedded pointers: addressable memory again
					fv, good := fieldByIndexSafe(v, f.index)
					if !good {
						return reflect.Value{}, false, false
					}
					if throughPointer(v.Type(), f.index) {
						addressable = true
					}
					v = fv
					found = true
					break
				}
			}
			if !found {
				return reflect.Value{}, false, false
			}
		case "index":
			if (v.Kind() != reflect.Slice && v.Kind() != reflect.Array) || s.Index >= v.Len() {
				return reflect.Value{}, false, false
			}
			if v.Kind() == reflect.Slice {
				addressable = true
			}
			v = v.Index(s.Index)
		case "key":
			if v.Kind() != reflect.Map {
				return reflect.Value{}, false, false
			}
			var hit reflect.Value
			for _, k := range v.MapKeys() {
				if mapKeyString(k) == s.Key {
					hit = k
				}
			}
			if !hit.IsValid() {
				return reflect.Value{}, false, false
			}
			v = v.MapIndex(hit)
			addressable = false
		}
	}
	return v, addressable, true
}

func throughPointer(t reflect.Type, index []int) bool {
	for i, x := range index {
		if i > 0 {
			if t.Kind() == reflect.Ptr {
				return true
			}
		}
		for t.Kind() == reflect.Ptr {
			t = t.Elem()
		}
		t = t.Field(x).Type
	}
	return false
}

func float64Exact(v reflect.Value) bool {
	switch v.Kind() {
	case reflect.Int, reflect.Int8, reflect.Int16, reflect.Int32, reflect.Int64:
		i := v.Int()
		f := float64(i)
		return f < 9.3e18 && f > -9.3e18 && int64(f) == i
	case reflect.Uint, reflect.Uint8, reflect.Uint16, reflect.Uint32, reflect.Uint64:
		u := v.Uint()
		f := float64(u)
		return f < 1.85e19 && new(big.Int).SetUint64(u).Cmp(bigFromFloat(f)) == 0
	}
	return true
}

func bigFromFloat(f float64) *big.Int {
	b, _ := big.NewFloat(f).Int(nil)
	return b
}

func rtFail(c *RTCase, key, format string, a ...interface{}) *evid.Failure {
	return &evid.Failure{Check: "roundtrip", Key: key, Msg: fmt.Sprintf(format, a...) + fmt.Sprintf("\n  type %s pass=%s mapper=%s path=%v", c.Type, c.Pass, c.Mapper, c.Path), Case: c}
}

func kindClass(t reflect.Type) string {
	if t == nil {
		return "nil"
	}
	if t == typeBigInt {
		return "bigint"
	}
	if t == gobridge.TypeTime {
		return "time"
	}
	k := t.Kind().String()
	if t.PkgPath() != "" && t.Kind() != reflect.Struct {
		k = "named-" + k
	}
	return k
}

// checkExported judges Export()/ExportType() of the JS value made from Go value x
// (x is what was handed to ToValue, or the slot a script path reached).
//
//	mode "top":  x was passed to ToValue itself
//	mode "ref":  x is an addressable nested compound slot: [R-ref] a reference (pointer to the slot) or an equal value
//	mode "copy": x is a non-addressable nested value
func checkExported(c *RTCase, what string, jv goja.Value, x reflect.Value, mode string) *evid.Failure {
	var ex interface{}
	var et reflect.Type
	o := jsx.Protect(func() (goja.Value, error) {
		ex = jv.Export()
		et = jv.ExportType()
		return nil, nil
	})
	if o.Kind != "value" {
		return rtFail(c, "export-panic:"+kindClass(typeOfValue(x)), "%s: Export()/ExportType() did not return: %s", what, o.Text)
	}
	// strip interfaces
	for x.IsValid() && x.Kind() == reflect.Interface {
		if x.IsNil() {
			x = reflect.Value{}
			break
		}
		x = x.Elem()
	}
	if !x.IsValid() {
		if ex != nil {
			return rtFail(c, "export:nil", "%s: nil exported as %T %v, [R-nil]/[R-int] say nil", what, ex, ex)
		}
		return nil
	}
	T := x.Type()
	kc := kindClass(T)
	exv := reflect.ValueOf(ex)
	if ex != nil && et != exv.Type() {
		return rtFail(c, "exporttype:"+kc, "%s: ExportType() = %v but Export() returned %T ([R-etype])", what, et, ex)
	}
	if T == typeBigInt {
		b, ok := ex.(*big.Int)
		if !ok {
			return rtFail(c, "export:bigint", "%s: *big.Int exported as %T", what, ex)
		}
		want := new(big.Int)
		if !x.IsNil() {
			want = x.Interface().(*big.Int)
			if b == want {
				return rtFail(c, "export:bigint-alias", "%s: exported *big.Int is the original pointer, [R-big] says a copy", what)
			}
		}
		if b == nil || b.Cmp(want) != 0 {
			return rtFail(c, "export:bigint", "%s: *big.Int %v exported as %v", what, want, b)
		}
		return nil
	}
	named := T.PkgPath() != ""
	switch x.Kind() {
	case reflect.Ptr:
		if x.IsNil() {
			if ex != nil && !(exv.Kind() == reflect.Ptr && exv.IsNil()) {
				return rtFail(c, "export:nilptr", "%s: nil %v exported as %T %v ([R-nil])", what, T, ex, ex)
			}
			return nil
		}
		// pointer chain ending in nil: not documented
		for p := x; p.Kind() == reflect.Ptr; p = p.Elem() {
			if p.IsNil() {
				return nil
			}
		}
		if ex == nil || exv.Type() != T || exv.Pointer() != x.Pointer() {
			return rtFail(c, "export:ptr-identity:"+kindClass(T.Elem()), "%s: pointer %v %#x exported as %T %v; [R-orig] says the original value", what, T, x.Pointer(), ex, ptrText(exv))
		}
		return nil
	case reflect.Map:
		if x.IsNil() {
			if ex != nil && !(exv.Kind() == reflect.Map && exv.Len() == 0) {
				return rtFail(c, "export:nilmap", "%s: nil map exported as %T %v", what, ex, ex)
			}
			return nil
		}
		if ex == nil || exv.Type() != T || exv.Pointer() != x.Pointer() {
			return rtFail(c, "export:map-identity", "%s: map %v exported as %T; [R-orig]/[R-wrap] say the original map", what, T, ex)
		}
		return nil
	case reflect.Slice:
		if mode != "top" && ex != nil && exv.Type() == reflect.PointerTo(T) && !exv.IsNil() {
			return checkRefPointer(c, what, exv, x, mode)
		}
		if x.IsNil() {
			if ex != nil && !(exv.Kind() == reflect.Slice && exv.Len() == 0) {
				return rtFail(c, "export:nilslice", "%s: nil slice exported as %T %v", what, ex, ex)
			}
			return nil
		}
		if mode != "top" && ex != nil && exv.Type() == reflect.PointerTo(T) && !exv.IsNil() {
			if f := checkRefPointer(c, what, exv, x, mode); f != nil {
				return f
			}
			return nil
		}
		if ex == nil || exv.Type() != T || exv.Len() != x.Len() || (x.Len() > 0 && exv.Pointer() != x.Pointer()) {
			return rtFail(c, "export:slice-identity", "%s: slice %v len %d exported as %T %v; [R-orig] says the original slice", what, T, x.Len(), ex, ex)
		}
		return nil
	case reflect.Struct, reflect.Array:
		if mode != "top" && ex != nil && exv.Type() == reflect.PointerTo(T) && !exv.IsNil() {
			if f := checkRefPointer(c, what, exv, x, mode); f != nil {
				return f
			}
			return nil
		}
		if ex == nil || exv.Type() != T {
			return rtFail(c, "export:type:"+kc, "%s: %v exported as %T ([R-orig]: the underlying type is not lost)", what, T, ex)
		}
		if ok, d := deepEq(exv, x, eqOpts{}); !ok {
			return rtFail(c, "export:value:"+kc, "%s: %v exported with a different value at %s ([R-orig]/[R-copy])", what, T, d)
		}
		return nil
	case reflect.Bool:
		if named {
			break
		}
		if b, ok := ex.(bool); !ok || b != x.Bool() {
			return rtFail(c, "export:bool", "%s: bool %v exported as %T %v", what, x.Bool(), ex, ex)
		}
		return nil
	case reflect.String:
		if named {
			break
		}
		if s, ok := ex.(string); !ok || s != x.String() {
			return rtFail(c, "export:string", "%s: string %q exported as %T %q", what, x.String(), ex, ex)
		}
		return nil
	case reflect.Int, reflect.Int8, reflect.Int16, reflect.Int32, reflect.Int64:
		if named {
			break
		}
		if xi := x.Int(); xi > 1<<53 || xi < -(1<<53) {
			// beyond the safe-integer range a Number is a double ([R-int]: "any other numbers ... float64")
			if f, ok := ex.(float64); ok && f == float64(xi) {
				return nil
			}
			// +-(2^53+1) rounds to the Number +-2^53, which is an integer Number again: int64 of the rounded value
			if i, ok := ex.(int64); ok && float64(i) == float64(xi) && (i == 1<<53 || i == -(1<<53)) {
				return nil
			}
		}
		if i, ok := ex.(int64); !ok || i != x.Int() {
			return rtFail(c, "export:int:"+kc, "%s: %v %d exported as %T %v; [R-int] says int64", what, T, x.Int(), ex, ex)
		}
		return nil
	case reflect.Uint, reflect.Uint8, reflect.Uint16, reflect.Uint32, reflect.Uint64:
		if named {
			break
		}
		u := x.Uint()
		if u > 1<<53 {
			if f, ok := ex.(float64); ok && f == float64(u) {
				return nil
			}
			if i, ok := ex.(int64); ok && i == 1<<53 && float64(u) == float64(i) {
				return nil
			}
		}
		if u <= math.MaxInt64 {
			if i, ok := ex.(int64); !ok || uint64(i) != u {
				return rtFail(c, "export:uint:"+kc, "%s: %v %d exported as %T %v; [R-int] says int64", what, T, u, ex, ex)
			}
			return nil
		}
		if f, ok := ex.(float64); !ok || f != float64(u) {
			return rtFail(c, "export:uint-big", "%s: %v %d exported as %T %v; expected float64 %v", what, T, u, ex, ex, float64(u))
		}
		return nil
	case reflect.Float32, reflect.Float64:
		if named {
			break
		}
		f := x.Float()
		integral := f == math.Trunc(f) && !math.IsInf(f, 0) && !(f == 0 && math.Signbit(f)) && math.Abs(f) < 9.2e18
		switch n := ex.(type) {
		case float64:
			if n != f || math.Signbit(n) != math.Signbit(f) {
				return rtFail(c, "export:float", "%s: %v %v exported as float64 %v", what, T, f, n)
			}
		case int64:
			if !integral || float64(n) != f {
				return rtFail(c, "export:float", "%s: %v %v exported as int64 %v", what, T, f, n)
			}
		default:
			return rtFail(c, "export:float", "%s: %v %v exported as %T", what, T, f, ex)
		}
		return nil
	case reflect.Func:
		return nil
	}
	// named scalar types: generic reflect based host object, [R-orig]
	if ex == nil || exv.Type() != T {
		if mode != "top" && ex != nil && exv.Type() == reflect.PointerTo(T) && !exv.IsNil() {
			return checkRefPointer(c, what, exv, x, mode)
		}
		return rtFail(c, "export:type:"+kc, "%s: %v exported as %T ([R-orig]: the underlying type is not lost)", what, T, ex)
	}
	if ok, d := deepEq(exv, x, eqOpts{}); !ok {
		return rtFail(c, "export:value:"+kc, "%s: %v exported with a different value %s", what, T, d)
	}
	return nil
}

// checkRefPointer: a nested compound value may export as a pointer to the value it refers to ([R-ref]): the slot
// itself when the slot is addressable memory of the original, otherwise a private copy ([R-copy]) with equal content.
func checkRefPointer(c *RTCase, what string, exv, x reflect.Value, mode string) *evid.Failure {
	if mode == "ref" {
		if exv.Pointer() != x.Addr().Pointer() {
			return rtFail(c, "export:ref-"+x.Kind().String(), "%s: element reference exports a pointer that is not the slot's address ([R-ref])", what)
		}
		return nil
	}
	if ok, d := deepEq(exv.Elem(), x, eqOpts{}); !ok {
		return rtFail(c, "export:copy-"+x.Kind().String(), "%s: the copy of a non-addressable value differs from it at %s", what, d)
	}
	return nil
}

func ptrText(v reflect.Value) string {
	if v.IsValid() && (v.Kind() == reflect.Ptr || v.Kind() == reflect.Map || v.Kind() == reflect.Slice) {
		return fmt.Sprintf("%#x", v.Pointer())
	}
	return "?"
}

func typeOfValue(v reflect.Value) reflect.Type {
	if !v.IsValid() {
		return nil
	}
	return v.Type()
}

// checkExportTo: ExportTo into a fresh variable of the value's own static type gives a deep-equal value.
func checkExportTo(c *RTCase, what string, vm *goja.Runtime, jv goja.Value, x reflect.Value, T reflect.Type) *evid.Failure {
	w := reflect.New(T)
	var err error
	o := jsx.Protect(func() (goja.Value, error) {
		err = vm.ExportTo(jv, w.Interface())
		return nil, nil
	})
	kc := kindClass(T)
	if o.Kind != "value" {
		return rtFail(c, "exportto-panic:"+kc, "%s: ExportTo(&%v) did not return: %s", what, T, o.Text)
	}
	if err != nil {
		return rtFail(c, "exportto-error:"+kc, "%s: ExportTo(&%v) of the value's own type failed: %v", what, T, err)
	}
	if !allExact(x) {
		evid.Excluded("exportto: integer not representable as float64")
		return nil
	}
	for p := x; p.IsValid() && (p.Kind() == reflect.Ptr || p.Kind() == reflect.Interface); p = p.Elem() {
		if p.IsNil() {
			if p != x {
				// a pointer to a nil pointer / nil interface: [R-nil] covers nil itself only
				evid.Excluded("exportto: pointer chain ending in nil")
				return nil
			}
			break
		}
	}
	if T.Kind() == reflect.Interface {
		// [R-to]: "Exporting to an interface{} results in a value of the same type as Value.Export() would produce."
		// (Export() itself has been judged by checkExported.)
		var ex interface{}
		jsx.Protect(func() (goja.Value, error) { ex = jv.Export(); return nil, nil })
		got := w.Elem()
		if ex == nil {
			if !got.IsNil() {
				return rtFail(c, "exportto-iface", "%s: ExportTo(&interface{}) gave %T, Export() gives nil", what, got.Interface())
			}
			return nil
		}
		if got.IsNil() {
			return rtFail(c, "exportto-iface", "%s: ExportTo(&interface{}) gave nil, Export() gives %T", what, ex)
		}
		if ok, d := deepEq(got.Elem(), reflect.ValueOf(ex), eqOpts{}); !ok {
			return rtFail(c, "exportto-iface", "%s: ExportTo(&interface{}) differs from Export() at %s", what, d)
		}
		return nil
	}
	if x.IsValid() && x.Type() != T {
		xx := reflect.New(T).Elem()
		xx.Set(x)
		x = xx
	}
	if ok, d := deepEq(w.Elem(), x, eqOpts{}); !ok {
		return rtFail(c, "exportto-value:"+kc, "%s: ExportTo(&%v) differs from the original at %s: got %s", what, T, d, fmtVal(w.Elem()))
	}
	return nil
}

func fmtVal(v reflect.Value) string {
	var sb strings.Builder
	fmtVal1(&sb, v, 0)
	s := sb.String()
	if len(s) > 400 {
		s = s[:400] + "…"
	}
	return s
}

// fmtVal1 prints a value with bounded depth (Go values built by a history can be cyclic).
func fmtVal1(sb *strings.Builder, v reflect.Value, depth int) {
	if !v.IsValid() {
		sb.WriteString("<invalid>")
		return
	}
	if depth > 6 || sb.Len() > 500 {
		sb.WriteString("…")
		return
	}
	switch v.Kind() {
	case reflect.Ptr:
		if v.IsNil() {
			sb.WriteString("nil")
			return
		}
		if v.Type() == typeBigInt {
			sb.WriteString(peek(v).Interface().(*big.Int).String() + "n")
			return
		}
		sb.WriteString("&")
		fmtVal1(sb, v.Elem(), depth+1)
	case reflect.Interface:
		if v.IsNil() {
			sb.WriteString("nil")
			return
		}
		sb.WriteString("(" + v.Elem().Type().String() + ")")
		fmtVal1(sb, v.Elem(), depth+1)
	case reflect.Struct:
		sb.WriteString("{")
		for i := 0; i < v.NumField(); i++ {
			if i > 0 {
				sb.WriteString(" ")
			}
			sb.WriteString(v.Type().Field(i).Name + ":")
			fmtVal1(sb, v.Field(i), depth+1)
		}
		sb.WriteString("}")
	case reflect.Slice, reflect.Array:
		if v.Kind() == reflect.Slice && v.IsNil() {
			sb.WriteString("nil[]")
			return
		}
		sb.WriteString("[")
		for i := 0; i < v.Len(); i++ {
			if i > 0 {
				sb.WriteString(" ")
			}
			fmtVal1(sb, v.Index(i), depth+1)
		}
		sb.WriteString("]")
	case reflect.Map:
		if v.IsNil() {
			sb.WriteString("nilmap")
			return
		}
		sb.WriteString("map[")
		for i, k := range sortedKeys(v) {
			if i > 0 {
				sb.WriteString(" ")
			}
			sb.WriteString(mapKeyString(k) + ":")
			fmtVal1(sb, v.MapIndex(k), depth+1)
		}
		sb.WriteString("]")
	case reflect.String:
		sb.WriteString(strconv.Quote(v.String()))
	case reflect.Bool:
		sb.WriteString(strconv.FormatBool(v.Bool()))
	case reflect.Int, reflect.Int8, reflect.Int16, reflect.Int32, reflect.Int64:
		sb.WriteString(strconv.FormatInt(v.Int(), 10))
	case reflect.Uint, reflect.Uint8, reflect.Uint16, reflect.Uint32, reflect.Uint64:
		sb.WriteString(strconv.FormatUint(v.Uint(), 10))
	case reflect.Float32, reflect.Float64:
		sb.WriteString(strconv.FormatFloat(v.Float(), 'g', -1, 64))
	default:
		sb.WriteString("<" + v.Kind().String() + ">")
	}
}

// allExact: only the top-level scalar matters for a primitive conversion; wrapped values are returned as they are.
func allExact(x reflect.Value) bool {
	for x.IsValid() && x.Kind() == reflect.Interface && !x.IsNil() {
		x = x.Elem()
	}
	if !x.IsValid() {
		return true
	}
	if x.Type().PkgPath() != "" {
		return true
	}
	return float64Exact(x)
}

func judgeRT(c *RTCase) *evid.Failure {
	v := gobridge.NewBuilder().Make(c.Type, c.Val)
	ref := gobridge.NewBuilder().Make(c.Type, c.Val)
	vm := goja.New()
	if m := newMapper(c.Mapper); m != nil {
		vm.SetFieldNameMapper(m)
	}
	var arg reflect.Value
	switch c.Pass {
	case "ptr":
		arg = v.Addr()
	case "ptrptr":
		pp := reflect.New(v.Addr().Type())
		pp.Elem().Set(v.Addr())
		arg = pp
	default:
		arg = v
	}
	var jv goja.Value
	o := jsx.Protect(func() (goja.Value, error) {
		jv = vm.ToValue(arg.Interface())
		return nil, nil
	})
	if o.Kind != "value" {
		return rtFail(c, "tovalue-panic:"+kindClass(arg.Type()), "ToValue did not return: %s", o.Text)
	}
	// what is passed by value is a copy as far as addressability goes: arg.Interface() boxes it
	top := arg
	if c.Pass == "value" {
		top = reflect.ValueOf(arg.Interface())
	}
	if f := checkExported(c, "top", jv, top, "top"); f != nil {
		return f
	}
	if top.IsValid() {
		if f := checkExportTo(c, "top", vm, jv, top, arg.Type()); f != nil {
			return f
		}
	}
	if ok, d := deepEq(v, ref, eqOpts{}); !ok {
		return rtFail(c, "mutated", "the original value changed during ToValue/Export/ExportTo at %s", d)
	}
	if o := jsx.RunProgram(vm, dumpPrg); o.Kind != "value" {
		return rtFail(c, "harness", "prelude failed: %s", o.Text)
	}
	vm.Set("r", jv)
	// script-visible structure [D-*]
	if c.Safe {
		o := jsx.RunString(vm, "__dumps(r)")
		if o.Kind != "value" {
			return rtFail(c, "dump-outcome:"+o.Kind, "walking the wrapper from script failed: %s", o.Text)
		}
		obs, err := parseTree(o.Value.String())
		if err != nil {
			return rtFail(c, "harness", "cannot parse dump: %v", err)
		}
		exp := jsView(c.Mapper, top, 0)
		if d := matchTree(exp, obs, "r"); d != "" {
			return rtFail(c, "view:"+viewKey(d), "script-visible structure differs from the documented one: %s", d)
		}
	}
	// nested slot
	if len(c.Path) > 0 {
		slot, addressable, ok := followPath(c.Mapper, top, c.Path)
		if ok {
			expr := pathExpr("r", c.Path)
			o := jsx.RunString(vm, expr)
			if o.Kind != "value" {
				return rtFail(c, "path-outcome:"+o.Kind, "%s failed: %s", expr, o.Text)
			}
			mode := "copy"
			if addressable && slot.CanAddr() {
				mode = "ref"
			}
			bare := slot
			for bare.IsValid() && bare.Kind() == reflect.Interface && !bare.IsNil() {
				bare = bare.Elem()
				mode = "copy"
			}
			if goja.IsUndefined(o.Value) {
				return rtFail(c, "path-undefined:"+kindClass(typeOfValue(bare)), "%s is undefined, the Go value has that slot: %s", expr, fmtVal(slot))
			}
			if f := checkExported(c, expr, o.Value, slot, mode); f != nil {
				f.Key = "slot-" + f.Key
				return f
			}
			if f := checkExportTo(c, expr, vm, o.Value, slot, slot.Type()); f != nil {
				f.Key = "slot-" + f.Key
				return f
			}
		}
	}
	// clone in script, export back into the own type
	if c.Safe && cloneable(c.Mapper, arg.Type(), 0) && valueCloneable(c.Mapper, arg, 0) {
		o := jsx.RunString(vm, "__clone(r)")
		if o.Kind != "value" {
			return rtFail(c, "clone-outcome:"+o.Kind, "cloning the wrapper in script failed: %s", o.Text)
		}
		w := reflect.New(arg.Type())
		var err error
		oo := jsx.Protect(func() (goja.Value, error) {
			err = vm.ExportTo(o.Value, w.Interface())
			return nil, nil
		})
		if oo.Kind != "value" {
			return rtFail(c, "clone-exportto-panic", "ExportTo(clone, &%v) did not return: %s", arg.Type(), oo.Text)
		}
		if err != nil {
			return rtFail(c, "clone-exportto-error", "ExportTo(clone, &%v) failed: %v", arg.Type(), err)
		}
		want := expectedClone(c.Mapper, arg)
		if ok, d := deepEq(w.Elem(), want, eqOpts{nilEqEmpty: true, numLenient: true}); !ok {
			return rtFail(c, "clone-value:"+cloneKey(d), "a plain script copy of the wrapper exported into %v differs at %s:\n  got  %s\n  want %s", arg.Type(), d, fmtVal(w.Elem()), fmtVal(want))
		}
	} else if c.Safe {
		evid.Excluded("clone: type has parts whose script copy is not documented")
	}
	if ok, d := deepEq(v, ref, eqOpts{}); !ok {
		return rtFail(c, "mutated", "the original value changed during read-only script access at %s", d)
	}
	return nil
}

func viewKey(d string) string {
	switch {
	case strings.Contains(d, "missing"):
		return "missing-key"
	case strings.Contains(d, "unexpected key"):
		return "extra-key"
	case strings.Contains(d, "length"):
		return "length"
	case strings.Contains(d, "number"):
		return "number"
	}
	return "node"
}

func cloneKey(d string) string {
	if i := strings.Index(d, ": "); i >= 0 {
		d = d[i+2:]
	}
	f := strings.Fields(d)
	if len(f) > 0 {
		return f[0]
	}
	return "diff"
}

// cloneable: every part of the type has a documented script rendering that a
// plain-object copy can be exported back from (see the exclusions in the header).
func cloneable(mapper string, t reflect.Type, depth int) bool {
	if depth > 8 {
		return false
	}
	if t == typeBigInt || t == gobridge.TypeTime {
		return false
	}
	switch t.Kind() {
	case reflect.Ptr, reflect.Slice, reflect.Array:
		if hasMethods(t) && t.Kind() != reflect.Ptr {
			return false
		}
		if t.Kind() == reflect.Ptr && t.Elem().Kind() == reflect.Interface {
			return false // rendering of a pointer to an interface value is not documented
		}
		return cloneable(mapper, t.Elem(), depth+1)
	case reflect.Map:
		if hasMethods(t) {
			return false
		}
		return cloneable(mapper, t.Elem(), depth+1)
	case reflect.Interface:
		return true // dynamic content is checked on the value (expectedClone)
	case reflect.Func, reflect.Chan, reflect.UnsafePointer:
		return false
	case reflect.Struct:
		names := map[string]int{}
		for i := 0; i < t.NumField(); i++ {
			f := t.Field(i)
			if !f.IsExported() {
				return false
			}
			if f.Anonymous {
				if jsFieldName(mapper, f) == "" {
					return false // hidden embedded field: visibility of promoted fields undocumented
				}
				ft := f.Type
				if ft.Kind() == reflect.Ptr {
					return false
				}
			}
			if !cloneable(mapper, f.Type, depth+1) {
				return false
			}
		}
		// shadowing between a direct and a promoted name (or between depths) makes the flat copy ambiguous
		var count func(t reflect.Type)
		count = func(t reflect.Type) {
			for i := 0; i < t.NumField(); i++ {
				f := t.Field(i)
				n := jsFieldName(mapper, f)
				if n != "" {
					names[n]++
				}
				if f.Anonymous && f.Type.Kind() == reflect.Struct {
					count(f.Type)
				}
			}
		}
		count(t)
		for _, n := range names {
			if n > 1 {
				return false
			}
		}
		// Go names that collide after mapping among hidden ones do not matter
		return true
	}
	return true
}

// expectedClone computes what exporting a plain script copy of x's wrapper into
// x's type must give: hidden fields are zero, interface{} contents take the
// default Export() form ([R-to]: "Exporting to an interface{} results in a value of the same type as Value.Export()
// would produce"; Object.Export: "For an untyped array, returns its items exported into a newly created
// []interface{}. In all other cases returns own enumerable non-symbol properties as map[string]interface{}.").
func expectedClone(mapper string, x reflect.Value) reflect.Value {
	out := reflect.New(x.Type()).Elem()
	fillClone(mapper, out, x)
	return out
}

func fillClone(mapper string, dst, x reflect.Value) {
	switch x.Kind() {
	case reflect.Ptr:
		if x.IsNil() {
			return
		}
		p := reflect.New(x.Type().Elem())
		fillClone(mapper, p.Elem(), x.Elem())
		dst.Set(p)
	case reflect.Interface:
		if x.IsNil() {
			return
		}
		d := defaultForm(mapper, x.Elem())
		if d != nil {
			dst.Set(reflect.ValueOf(d))
		}
	case reflect.Struct:
		for i := 0; i < x.NumField(); i++ {
			f := x.Type().Field(i)
			if jsFieldName(mapper, f) == "" {
				continue
			}
			fillClone(mapper, dst.Field(i), x.Field(i))
		}
	case reflect.Slice:
		if x.IsNil() {
			return
		}
		s := reflect.MakeSlice(x.Type(), x.Len(), x.Len())
		for i := 0; i < x.Len(); i++ {
			fillClone(mapper, s.Index(i), x.Index(i))
		}
		dst.Set(s)
	case reflect.Array:
		for i := 0; i < x.Len(); i++ {
			fillClone(mapper, dst.Index(i), x.Index(i))
		}
	case reflect.Map:
		if x.IsNil() {
			return
		}
		m := reflect.MakeMap(x.Type())
		it := x.MapRange()
		for it.Next() {
			e := reflect.New(x.Type().Elem()).Elem()
			fillClone(mapper, e, it.Value())
			m.SetMapIndex(it.Key(), e)
		}
		dst.Set(m)
	default:
		dst.Set(x)
	}
}

// defaultForm is the Export() form of the plain script copy of a Go value.
func defaultForm(mapper string, x reflect.Value) interface{} {
	switch x.Kind() {
	case reflect.Ptr, reflect.Interface:
		if x.IsNil() {
			return nil
		}
		return defaultForm(mapper, x.Elem())
	case reflect.Bool:
		return x.Bool()
	case reflect.String:
		return x.String()
	case reflect.Int, reflect.Int8, reflect.Int16, reflect.Int32, reflect.Int64:
		return x.Int()
	case reflect.Uint, reflect.Uint8, reflect.Uint16, reflect.Uint32, reflect.Uint64:
		if x.Uint() > math.MaxInt64 {
			return float64(x.Uint())
		}
		return int64(x.Uint())
	case reflect.Float32, reflect.Float64:
		return x.Float()
	case reflect.Slice, reflect.Array:
		out := make([]interface{}, x.Len())
		for i := range out {
			out[i] = defaultForm(mapper, x.Index(i))
		}
		return out
	case reflect.Map:
		out := map[string]interface{}{}
		if hasMethods(x.Type()) {
			return out
		}
		it := x.MapRange()
		for it.Next() {
			out[mapKeyString(it.Key())] = defaultForm(mapper, it.Value())
		}
		return out
	case reflect.Struct:
		out := map[string]interface{}{}
		for _, f := range visibleFields(mapper, x.Type()) {
			if fv, ok := fieldByIndexSafe(x, f.index); ok {
				out[f.name] = defaultForm(mapper, fv)
			}
		}
		return out
	}
	return nil
}

// valueCloneable: every interface{} content below x has a documented default form.
func valueCloneable(mapper string, x reflect.Value, depth int) bool {
	if depth > 12 || !x.IsValid() {
		return depth <= 12
	}
	switch x.Kind() {
	case reflect.Interface:
		if x.IsNil() {
			return true
		}
		return dynCloneable(mapper, x.Elem(), depth+1)
	case reflect.Ptr:
		if x.IsNil() {
			return true
		}
		if x.Elem().Kind() == reflect.Ptr {
			for p := x.Elem(); p.Kind() == reflect.Ptr; p = p.Elem() {
				if p.IsNil() {
					return false // pointer to a nil pointer: rendering not documented
				}
			}
		}
		return valueCloneable(mapper, x.Elem(), depth+1)
	case reflect.Struct:
		for i := 0; i < x.NumField(); i++ {
			if !valueCloneable(mapper, x.Field(i), depth+1) {
				return false
			}
		}
	case reflect.Slice, reflect.Array:
		for i := 0; i < x.Len(); i++ {
			if !valueCloneable(mapper, x.Index(i), depth+1) {
				return false
			}
		}
	case reflect.Map:
		it := x.MapRange()
		for it.Next() {
			if !valueCloneable(mapper, it.Value(), depth+1) {
				return false
			}
		}
	}
	return true
}

// dynCloneable: interface{} contents whose default form is fully documented.
func dynCloneable(mapper string, x reflect.Value, depth int) bool {
	if depth > 10 || x.Type() == typeBigInt {
		return false
	}
	switch x.Kind() {
	case reflect.Ptr, reflect.Interface:
		if x.IsNil() {
			return true
		}
		return dynCloneable(mapper, x.Elem(), depth+1)
	case reflect.Struct:
		if x.Type() == gobridge.TypeTime {
			return false
		}
		for _, f := range visibleFields(mapper, x.Type()) {
			if f.optional {
				return false
			}
			fv, ok := fieldByIndexSafe(x, f.index)
			if !ok || !dynCloneable(mapper, fv, depth+1) {
				return false
			}
		}
		return true
	case reflect.Slice, reflect.Array:
		if x.Kind() == reflect.Slice && (x.IsNil() || hasMethods(x.Type())) {
			return false
		}
		for i := 0; i < x.Len(); i++ {
			if !dynCloneable(mapper, x.Index(i), depth+1) {
				return false
			}
		}
		return true
	case reflect.Map:
		if x.IsNil() || hasMethods(x.Type()) {
			return false
		}
		it := x.MapRange()
		for it.Next() {
			if !dynCloneable(mapper, it.Value(), depth+1) {
				return false
			}
		}
		return true
	case reflect.Func:
		return false
	}
	return x.Type() != typeBigInt
}

func rtNontrivial(c *RTCase) bool {
	if c.Type.Depth() < 2 {
		return false
	}
	return c.Type.Has(func(t *gobridge.TypeDesc) bool {
		switch t.K {
		case "ptr", "map":
			return true
		case "struct":
			for _, f := range t.Fields {
				if f.Emb {
					return true
				}
			}
		case "zoo":
			return gobridge.ZooByName(t.Zoo).Compound
		}
		return false
	}) || (c.Pass == "value" && (c.Type.K == "struct" || c.Type.K == "array" || c.Type.K == "slice"))
}
