package c13

// The Go-side shadow model for the aliasing / live-view sub-check.
//
// The shadow is a second, independently built Go value of the same type (a
// parallel heap) plus a tree of "wrapper nodes" that mirrors what the
// documentation says a script handle refers to. Every script operation is
// applied to the shadow by the rules quoted below; nothing here looks at goja.
//
// Documentation sentences (Runtime.ToValue doc comment) the model implements:
//
//  [A-live]   "Structural types (such as structs, maps and slices) are wrapped so that changes are reflected on the
//              original value which can be retrieved using Value.Export()."
//  [A-copy1]  "1. If a regular JavaScript Object is assigned as an element of a wrapped Go struct, map or array, it is
//              Export()'ed and therefore copied."
//  [A-ref]    "When a nested compound value is accessed, the returned ES value becomes a reference to the literal
//              value. This ensures that things like 'a[0].Field = 1' work as expected and simple access to
//              'a[0].Field' does not result in copying of a[0]."
//  [A-cow]    "The original container ('a' in our case) keeps track of the returned reference value and if a[0] is
//              reassigned (e.g. by direct assignment, deletion or shrinking the array) the old a[0] is copied and the
//              earlier returned value becomes a reference to the copy" — "(for both arrays and structs)".
//  [A-sort]   "Array value swaps caused by in-place sort (using Array.prototype.sort()) do not count as
//              re-assignments, instead the references are adjusted to point to the new indices."
//  [A-assign] "Assignment to an inner compound value always does a copy (and sometimes type conversion):
//              a[1] = tmp; // a[1] is now a copy of tmp"
//  [A-nonaddr] "3. Non-addressable structs, slices and arrays get copied. ... what it really did was copy a1[0] set its
//              Field to 2 and immediately drop it" / "If a slice is passed by value (not as a pointer), resizing the
//              slice does not reflect on the original value. Moreover, extending the slice may result in the
//              underlying array being re-allocated and copied."
//  [A-struct] "Field properties are writable and non-configurable. ... Attempt to define a new property or delete an
//              existing property will fail (throw in strict mode)"
//  [A-wrapper] "because a wrapper is created every time a property is accessed ... field1 === field2; // true, because
//              the equality operation compares the wrapped values, not the wrappers ... The same applies to values
//              from maps and slices as well."
//  [A-slice]  see view_test.go [D-slice] (no holes, delete sets the zero value, element beyond length is undefined,
//              "all the usual methods should work") and [D-array] (arrays are not resizable).
//  [A-map]    see view_test.go [D-map].
//
// The Array.prototype methods (push/pop/shift/unshift/splice/reverse) are the ECMAScript algorithms (ECMA-262
// 23.1.3) expressed through Get/Set/DeletePropertyOrThrow/HasProperty/Set("length"); the wrapper semantics of each of
// those primitive operations is what the sentences above define. Sort is [A-sort] plus "the sort must be stable".
//
// Where the documentation leaves the outcome open the model marks nodes "dead" (never used again) or the generator
// does not produce the operation; the places are commented with "unspecified".

import (
	"fmt"
	"reflect"
	"sort"
	"strconv"
	"unicode/utf16"

	"verifh/internal/jsx"
)

type wnode struct {
	ptr    reflect.Value // origin ptr/root-by-pointer: the pointer the wrapper was made from (what it exports, [R-orig])
	loc    reflect.Value // struct/array/slice: addressable location; map: the map value
	kids   map[string]*wnode
	parent *wnode // tracked nodes: the container wrapper that handed the reference out, and under which key
	pkey   string
	origin string // root | ptr | map | tracked | copy
	shared bool   // a slice header copy (or something below one) whose array is shared with Go-visible memory: no resizing
	dead   bool
	id     int
}

type world struct {
	pass        string
	mapper      string
	root        reflect.Value // shadow of the original Go value (addressable)
	handles     map[string]*wnode
	origUnknown bool // by-value slice root was resized: the original is no longer determined ([A-nonaddr])
	nextID      int
	peek        bool // reads do not register tracked references (used by the generator to look around)
	inMove      bool // inside an array method that moves elements between slots
	// sliceAliasing: an element containing a slice header was moved to another slot while a reference to it was
	// detached with a copy: two live slice headers now share one array, and whether a later resize re-allocates
	// is unspecified ([A-nonaddr] "may result in the underlying array being re-allocated") - no more resizing.
	sliceAliasing bool
	detachCount   int // copy-on-change events that hit a reference held in a script variable
}

func (w *world) newNode(loc reflect.Value, origin string, shared bool) *wnode {
	w.nextID++
	return &wnode{loc: loc, origin: origin, shared: shared, id: w.nextID}
}

func isCompoundKind(k reflect.Kind) bool {
	return k == reflect.Struct || k == reflect.Array || k == reflect.Slice
}

func addrCopy(v reflect.Value) reflect.Value {
	c := reflect.New(v.Type()).Elem()
	c.Set(v)
	return c
}

// slotKey identifies a slot of a container for copy-on-change tracking.
func (s PathStep) slotKey() string {
	switch s.Kind {
	case "field":
		return "f:" + s.Field
	case "index":
		return "i:" + strconv.Itoa(s.Index)
	}
	return "k:" + s.Key
}

// directField finds the struct field with the given script name among the direct fields and the
// promoted scalar fields (compound promoted fields are not used as path steps: the same memory
// would be reachable under two names, and which wrapper tracks it is unspecified).
func (w *world) fieldSlot(n *wnode, name string) (reflect.Value, bool) {
	v := n.loc
	if v.Kind() != reflect.Struct {
		return reflect.Value{}, false
	}
	for _, f := range visibleFields(w.mapper, v.Type()) {
		if f.name != name || f.optional {
			continue
		}
		fv, ok := fieldByIndexSafe(v, f.index)
		if !ok {
			return reflect.Value{}, false
		}
		if len(f.index) > 1 && isCompoundKind(fv.Kind()) {
			return reflect.Value{}, false
		}
		return fv, true
	}
	return reflect.Value{}, false
}

// slot returns the Go value at a path step below node n (not unwrapped).
func (w *world) slot(n *wnode, s PathStep) (v reflect.Value, addressable bool, ok bool) {
	switch s.Kind {
	case "field":
		fv, ok := w.fieldSlot(n, s.Field)
		return fv, true, ok
	case "index":
		if (n.loc.Kind() != reflect.Slice && n.loc.Kind() != reflect.Array) || s.Index < 0 || s.Index >= n.loc.Len() {
			return reflect.Value{}, false, false
		}
		return n.loc.Index(s.Index), true, true
	case "key":
		if n.loc.Kind() != reflect.Map || n.loc.IsNil() || hasMethods(n.loc.Type()) {
			return reflect.Value{}, false, false
		}
		k, ok := w.mapKey(n.loc.Type().Key(), s.Key)
		if !ok {
			return reflect.Value{}, false, false
		}
		mv := n.loc.MapIndex(k)
		if !mv.IsValid() {
			return reflect.Value{}, false, false
		}
		return mv, false, true
	}
	return reflect.Value{}, false, false
}

// mapKey: the key whose documented string form ([D-map]) is name.
func (w *world) mapKey(kt reflect.Type, name string) (reflect.Value, bool) {
	k := reflect.New(kt).Elem()
	switch kt.Kind() {
	case reflect.String:
		k.SetString(name)
	case reflect.Int, reflect.Int8, reflect.Int16, reflect.Int32, reflect.Int64:
		i, err := strconv.ParseInt(name, 10, kt.Bits())
		if err != nil || strconv.FormatInt(i, 10) != name {
			return reflect.Value{}, false
		}
		k.SetInt(i)
	case reflect.Uint, reflect.Uint8, reflect.Uint16, reflect.Uint32, reflect.Uint64:
		u, err := strconv.ParseUint(name, 10, kt.Bits())
		if err != nil || strconv.FormatUint(u, 10) != name {
			return reflect.Value{}, false
		}
		k.SetUint(u)
	case reflect.Float32, reflect.Float64:
		f, err := strconv.ParseFloat(name, kt.Bits())
		if err != nil {
			return reflect.Value{}, false
		}
		k.SetFloat(f)
		if mapKeyString(k) != name {
			return reflect.Value{}, false
		}
	default:
		return reflect.Value{}, false
	}
	return k, true
}

// access is the result of reading a slot from script.
type access struct {
	kind string        // prim | null | undef | node | boxed (Number/String/Boolean-like host object: never kept)
	node *wnode        // kind == node
	val  reflect.Value // the Go value read (after unwrapping interfaces), for prim/boxed
}

// read models `container[step]` evaluated by script ([A-ref], [A-nonaddr], [A-wrapper]).
func (w *world) read(n *wnode, s PathStep) access {
	sv, addressable, ok := w.slot(n, s)
	if !ok {
		return access{kind: "undef"}
	}
	return w.classify(n, s, sv, addressable)
}

func (w *world) classify(n *wnode, s PathStep, sv reflect.Value, addressable bool) access {
	shared := n.shared
	if sv.Kind() == reflect.Interface {
		if sv.IsNil() {
			return access{kind: "null"}
		}
		sv = sv.Elem()
		addressable = false
	}
	switch sv.Kind() {
	case reflect.Ptr:
		if sv.Type() == typeBigInt {
			return access{kind: "prim", val: sv}
		}
		p := sv
		for p.Kind() == reflect.Ptr {
			if p.IsNil() {
				if p == sv {
					return access{kind: "null"}
				}
				return access{kind: "unspec", val: sv} // pointer to a nil pointer: unspecified rendering
			}
			p = p.Elem()
		}
		switch {
		case isCompoundKind(p.Kind()):
			nd := w.newNode(p, "ptr", false)
			nd.ptr = addrCopy(sv)
			return access{kind: "node", node: nd}
		case p.Kind() == reflect.Map:
			if p.IsNil() {
				return access{kind: "unspec", val: sv}
			}
			nd := w.newNode(p, "ptr", false)
			nd.ptr = addrCopy(sv)
			return access{kind: "node", node: nd}
		}
		return access{kind: "boxed", val: sv}
	case reflect.Map:
		if sv.IsNil() {
			return access{kind: "unspec", val: sv} // nil map: null or an empty object, unspecified
		}
		// a Go map is a reference: the wrapper refers to the map that was in the slot when it was read
		return access{kind: "node", node: w.newNode(addrCopy(sv), "map", false)}
	case reflect.Struct, reflect.Array, reflect.Slice:
		if addressable && sv.CanAddr() {
			key := s.slotKey()
			if c := n.kids[key]; c != nil && !c.dead {
				return access{kind: "node", node: c}
			}
			c := w.newNode(sv, "tracked", shared)
			c.parent, c.pkey = n, key
			if w.peek {
				return access{kind: "node", node: c}
			}
			if n.kids == nil {
				n.kids = map[string]*wnode{}
			}
			n.kids[key] = c
			return access{kind: "node", node: c}
		}
		// [A-nonaddr]: copied on every access; a copied slice header still shares its array
		c := w.newNode(addrCopy(sv), "copy", true)
		return access{kind: "node", node: c}
	case reflect.Func, reflect.Chan, reflect.UnsafePointer, reflect.Invalid:
		return access{kind: "boxed", val: sv}
	}
	if sv.Type().PkgPath() != "" {
		return access{kind: "boxed", val: sv}
	}
	return access{kind: "prim", val: sv}
}

// relocate makes node c (and, recursively, the references handed out from it) refer to newLoc,
// which holds a copy of the value c referred to ([A-cow]; the property text: "element wrappers
// handed out earlier keep referring to the value they were taken from").
func (w *world) relocate(c *wnode, newLoc reflect.Value) {
	c.loc = newLoc
	for key, k := range c.kids {
		if k.dead {
			continue
		}
		var sub reflect.Value
		ok := false
		switch key[0] {
		case 'f':
			sub, ok = w.fieldSlot(c, key[2:])
		case 'i':
			i, _ := strconv.Atoi(key[2:])
			if (newLoc.Kind() == reflect.Slice || newLoc.Kind() == reflect.Array) && i < newLoc.Len() {
				sub, ok = newLoc.Index(i), true
			}
		}
		if !ok {
			k.kill()
			continue
		}
		if newLoc.Kind() == reflect.Slice {
			// elements of a copied slice header live in the same array: nothing moves
			continue
		}
		w.relocate(k, sub)
	}
}

// typeHasSlice: does a value of type t contain a slice header by value (through structs and arrays)?
func typeHasSlice(t reflect.Type, depth int) bool {
	if depth > 8 {
		return true
	}
	switch t.Kind() {
	case reflect.Slice:
		return true
	case reflect.Array:
		return typeHasSlice(t.Elem(), depth+1)
	case reflect.Struct:
		for i := 0; i < t.NumField(); i++ {
			if typeHasSlice(t.Field(i).Type, depth+1) {
				return true
			}
		}
	case reflect.Interface:
		return true // may hold one
	}
	return false
}

func (n *wnode) kill() {
	n.dead = true
	for _, k := range n.kids {
		k.kill()
	}
}

// detach implements [A-cow] for the tracked reference at slot key of container n, to be called before the slot is overwritten.
func (w *world) detach(n *wnode, key string) {
	c := n.kids[key]
	if c == nil {
		return
	}
	delete(n.kids, key)
	if c.dead {
		return
	}
	if w.inMove && typeHasSlice(c.loc.Type(), 0) {
		w.sliceAliasing = true
	}
	for _, h := range w.handles {
		if h == c {
			w.detachCount++
			break
		}
	}
	w.relocate(c, addrCopy(c.loc))
	c.origin = "detached"
	c.parent = nil
	// the copy is private: a slice header inside it is now the only one for its array (the old slot is overwritten next)
}

// setSlot models `container[step] = v` for an existing or new slot. resolve gives handle values.
func (w *world) setSlot(n *wnode, s PathStep, v *JSVal) error {
	resolve := func(name string) (reflect.Value, bool) {
		h := w.handles[name]
		if h == nil || h.dead {
			return reflect.Value{}, false
		}
		if h.ptr.IsValid() {
			// the wrapper was made from a pointer: it exports that pointer ([R-orig])
			return h.ptr, true
		}
		return h.loc, true
	}
	switch s.Kind {
	case "field":
		fv, ok := w.fieldSlot(n, s.Field)
		if !ok {
			return errUnspecified
		}
		w.detach(n, s.slotKey())
		return convInto(w.mapper, v, fv, resolve)
	case "index":
		if n.loc.Kind() == reflect.Array {
			if s.Index >= n.loc.Len() {
				return errUnspecified
			}
		} else if s.Index >= n.loc.Len() {
			w.setLength(n, s.Index+1)
		}
		w.detach(n, s.slotKey())
		return convInto(w.mapper, v, n.loc.Index(s.Index), resolve)
	case "key":
		if n.loc.Kind() != reflect.Map || n.loc.IsNil() {
			return errUnspecified
		}
		k, ok := w.mapKey(n.loc.Type().Key(), s.Key)
		if !ok {
			return errUnspecified
		}
		ev := reflect.New(n.loc.Type().Elem()).Elem()
		if err := convInto(w.mapper, v, ev, resolve); err != nil {
			return err
		}
		n.loc.SetMapIndex(k, ev)
		return nil
	}
	return errUnspecified
}

// deleteSlot models `delete container[step]`; the result is what the delete expression evaluates to in sloppy mode.
func (w *world) deleteSlot(n *wnode, s PathStep) bool {
	switch s.Kind {
	case "field":
		return false // [A-struct]
	case "index":
		if s.Index < n.loc.Len() {
			w.detach(n, s.slotKey())
			e := n.loc.Index(s.Index)
			e.Set(reflect.Zero(e.Type())) // [A-slice]
		}
		return true
	case "key":
		if k, ok := w.mapKey(n.loc.Type().Key(), s.Key); ok {
			n.loc.SetMapIndex(k, reflect.Value{})
		}
		return true
	}
	return true
}

// setLength models `slice.length = n` ([A-cow] "shrinking the array"; growth adds zero values, [D-slice] no holes).
func (w *world) setLength(n *wnode, l int) {
	cur := n.loc.Len()
	switch {
	case l < cur:
		for i := l; i < cur; i++ {
			w.detach(n, "i:"+strconv.Itoa(i))
		}
		// a fresh array keeps the shadow free of stale tails; kids keep pointing at the same elements
		ns := reflect.MakeSlice(n.loc.Type(), l, l)
		reflect.Copy(ns, n.loc)
		w.replaceSliceHeader(n, ns)
	case l > cur:
		ns := reflect.MakeSlice(n.loc.Type(), l, l)
		reflect.Copy(ns, n.loc)
		w.replaceSliceHeader(n, ns)
	}
	if n.origin == "root" && n.shared {
		w.origUnknown = true
	}
}

// replaceSliceHeader installs a new backing array with the same leading elements and re-points tracked element references.
func (w *world) replaceSliceHeader(n *wnode, ns reflect.Value) {
	n.loc.Set(ns)
	for key, k := range n.kids {
		if key[0] != 'i' || k.dead {
			continue
		}
		i, _ := strconv.Atoi(key[2:])
		if i < ns.Len() {
			w.relocate(k, n.loc.Index(i))
		}
	}
}

// ---- ECMAScript array algorithms over a slice/array node ----

type aref struct {
	unspec bool
	node   *wnode        // reference to a compound element (read again at Set time)
	val    reflect.Value // snapshot of a non-compound element (already in "moved" form)
	jsv    *JSVal        // a script value (items passed to push/unshift/splice)
}

func (w *world) aGet(n *wnode, i int) aref {
	a := w.read(n, PathStep{Kind: "index", Index: i})
	switch a.kind {
	case "node":
		return aref{node: a.node}
	case "null":
		return aref{jsv: &JSVal{K: "null"}}
	case "undef":
		return aref{jsv: &JSVal{K: "undef"}}
	case "unspec":
		return aref{unspec: true}
	}
	return aref{val: addrCopy(a.val)}
}

// aSet stores a previously read element (or a script value) at index i.
func (w *world) aSet(n *wnode, i int, r aref) error {
	if r.unspec {
		return errUnspecified
	}
	if r.jsv != nil {
		return w.setSlot(n, PathStep{Kind: "index", Index: i}, r.jsv)
	}
	if n.loc.Kind() == reflect.Slice && i >= n.loc.Len() {
		w.setLength(n, i+1)
	}
	if i >= n.loc.Len() {
		return errUnspecified
	}
	w.detach(n, "i:"+strconv.Itoa(i))
	dst := n.loc.Index(i)
	var src reflect.Value
	if r.node != nil {
		src = r.node.loc
		if r.node.ptr.IsValid() && (dst.Kind() == reflect.Ptr || dst.Kind() == reflect.Interface) {
			src = r.node.ptr
		}
	} else {
		src = r.val
	}
	return assignMoved(dst, src)
}

// assignMoved stores a Go value that travelled through a script value into dst ([A-assign]/[A-copy1]).
func assignMoved(dst, src reflect.Value) error {
	if dst.Kind() == reflect.Interface {
		// Export() form of what the script saw: numbers become int64/float64 (compared leniently), the rest keeps its type
		if src.Type().PkgPath() == "" {
			if f, ok := numOf(src); ok {
				dst.Set(reflect.ValueOf(f))
				return nil
			}
		}
		dst.Set(src)
		return nil
	}
	if !src.Type().AssignableTo(dst.Type()) {
		return errUnspecified
	}
	if src.Type().PkgPath() == "" {
		if f, ok := numOf(src); ok {
			// the script saw a Number (a double): [C-num] converts it back
			return convInto("none", jsNum(f), dst, nil)
		}
	}
	dst.Set(src)
	return nil
}

func (w *world) aDelete(n *wnode, i int) {
	w.deleteSlot(n, PathStep{Kind: "index", Index: i})
}

func (w *world) push(n *wnode, items []*JSVal) error {
	l := n.loc.Len()
	for _, it := range items {
		if err := w.aSet(n, l, aref{jsv: it}); err != nil {
			return err
		}
		l++
	}
	w.setLength(n, l)
	return nil
}

func (w *world) pop(n *wnode) {
	w.inMove = true
	defer func() { w.inMove = false }()
	l := n.loc.Len()
	if l == 0 {
		return
	}
	w.aGet(n, l-1)
	w.aDelete(n, l-1)
	w.setLength(n, l-1)
}

func (w *world) shift(n *wnode) error {
	w.inMove = true
	defer func() { w.inMove = false }()
	l := n.loc.Len()
	if l == 0 {
		return nil
	}
	w.aGet(n, 0)
	for k := 1; k < l; k++ {
		if err := w.aSet(n, k-1, w.aGet(n, k)); err != nil {
			return err
		}
	}
	w.aDelete(n, l-1)
	w.setLength(n, l-1)
	return nil
}

func (w *world) unshift(n *wnode, items []*JSVal) error {
	w.inMove = true
	defer func() { w.inMove = false }()
	l := n.loc.Len()
	argc := len(items)
	if argc > 0 {
		for k := l; k > 0; k-- {
			if err := w.aSet(n, k+argc-1, w.aGet(n, k-1)); err != nil {
				return err
			}
		}
		for j, it := range items {
			if err := w.aSet(n, j, aref{jsv: it}); err != nil {
				return err
			}
		}
	}
	w.setLength(n, l+argc)
	return nil
}

func (w *world) splice(n *wnode, start, delCount int, items []*JSVal) error {
	w.inMove = true
	defer func() { w.inMove = false }()
	l := n.loc.Len()
	as := start
	if as < 0 {
		as = l + as
		if as < 0 {
			as = 0
		}
	} else if as > l {
		as = l
	}
	dc := delCount
	if dc < 0 {
		dc = 0
	}
	if dc > l-as {
		dc = l - as
	}
	for k := 0; k < dc; k++ {
		w.aGet(n, as+k)
	}
	ic := len(items)
	if ic < dc {
		for k := as; k < l-dc; k++ {
			if err := w.aSet(n, k+ic, w.aGet(n, k+dc)); err != nil {
				return err
			}
		}
		for k := l; k > l-dc+ic; k-- {
			w.aDelete(n, k-1)
		}
	} else if ic > dc {
		for k := l - dc; k > as; k-- {
			if err := w.aSet(n, k+ic-1, w.aGet(n, k+dc-1)); err != nil {
				return err
			}
		}
	}
	for j, it := range items {
		if err := w.aSet(n, as+j, aref{jsv: it}); err != nil {
			return err
		}
	}
	w.setLength(n, l-dc+ic)
	return nil
}

func (w *world) reverse(n *wnode) error {
	w.inMove = true
	defer func() { w.inMove = false }()
	l := n.loc.Len()
	for lower := 0; lower < l/2; lower++ {
		upper := l - lower - 1
		lv := w.aGet(n, lower)
		uv := w.aGet(n, upper)
		if err := w.aSet(n, lower, uv); err != nil {
			return err
		}
		if err := w.aSet(n, upper, lv); err != nil {
			return err
		}
	}
	return nil
}

// sortKeyOf gives the comparison key of an element for the two comparators the generator uses:
// "" (default: ToString, UTF-16 code unit order) and "num:<field>" (numeric difference of a field or of the element).
func (w *world) sortLess(n *wnode, cmp string) (func(i, j reflect.Value) bool, bool) {
	et := n.loc.Type().Elem()
	if cmp == "" {
		// default comparator on unnamed scalar elements only
		if et.PkgPath() != "" {
			return nil, false
		}
		str := func(v reflect.Value) []uint16 {
			var s string
			switch v.Kind() {
			case reflect.String:
				s = v.String()
			case reflect.Bool:
				s = strconv.FormatBool(v.Bool())
			default:
				f, _ := numOf(v)
				s = jsx.NumberToString(f)
			}
			return utf16.Encode([]rune(s))
		}
		switch et.Kind() {
		case reflect.String, reflect.Bool, reflect.Int, reflect.Int8, reflect.Int16, reflect.Int32, reflect.Int64,
			reflect.Uint, reflect.Uint8, reflect.Uint16, reflect.Uint32, reflect.Uint64, reflect.Float32, reflect.Float64:
		default:
			return nil, false
		}
		return func(a, b reflect.Value) bool {
			x, y := str(a), str(b)
			for i := 0; i < len(x) && i < len(y); i++ {
				if x[i] != y[i] {
					return x[i] < y[i]
				}
			}
			return len(x) < len(y)
		}, true
	}
	// numeric comparator function(a,b){return a-b} / a.F-b.F
	field := cmp[len("num:"):]
	key := func(v reflect.Value) (float64, bool) {
		if field != "" {
			if v.Kind() != reflect.Struct {
				return 0, false
			}
			for _, f := range visibleFields(w.mapper, v.Type()) {
				if f.name == field && len(f.index) == 1 {
					v = v.Field(f.index[0])
					if v.Type().PkgPath() != "" {
						return 0, false
					}
					return numOf(v)
				}
			}
			return 0, false
		}
		if v.Type().PkgPath() != "" {
			return 0, false
		}
		return numOf(v)
	}
	if _, ok := key(reflect.Zero(et)); !ok {
		return nil, false
	}
	return func(a, b reflect.Value) bool {
		x, _ := key(a)
		y, _ := key(b)
		return x < y
	}, true
}

// sortNode implements [A-sort]: a stable sort; references follow their elements.
func (w *world) sortNode(n *wnode, cmp string) error {
	less, ok := w.sortLess(n, cmp)
	if !ok {
		return errUnspecified
	}
	l := n.loc.Len()
	perm := make([]int, l)
	for i := range perm {
		perm[i] = i
	}
	vals := make([]reflect.Value, l)
	for i := 0; i < l; i++ {
		vals[i] = addrCopy(n.loc.Index(i))
	}
	sort.SliceStable(perm, func(a, b int) bool { return less(vals[perm[a]], vals[perm[b]]) })
	newKids := map[string]*wnode{}
	for key, k := range n.kids {
		if key[0] != 'i' {
			newKids[key] = k
		}
	}
	for newIdx, oldIdx := range perm {
		n.loc.Index(newIdx).Set(vals[oldIdx])
		if k := n.kids["i:"+strconv.Itoa(oldIdx)]; k != nil && !k.dead {
			newKids["i:"+strconv.Itoa(newIdx)] = k
			k.pkey = "i:" + strconv.Itoa(newIdx)
		}
	}
	n.kids = newKids
	for key, k := range n.kids {
		if key[0] == 'i' && !k.dead {
			i, _ := strconv.Atoi(key[2:])
			w.relocate(k, n.loc.Index(i))
		}
	}
	return nil
}

// resolvePath walks from a handle through steps to a node (every intermediate read follows the documented rules,
// creating tracked references exactly as script evaluation of h.a[1].b does).
func (w *world) resolvePath(h string, path []PathStep) (*wnode, error) {
	n := w.handles[h]
	if n == nil {
		return nil, fmt.Errorf("no handle %s", h)
	}
	if n.dead {
		// what this handle refers to is no longer determined by the documentation
		return nil, errUnspecified
	}
	for _, s := range path {
		a := w.read(n, s)
		if a.kind != "node" {
			return nil, fmt.Errorf("path step %v does not reach a wrapper (%s)", s, a.kind)
		}
		n = a.node
	}
	return n, nil
}

// sameValue: do two nodes wrap the same Go value in the sense of [A-wrapper]? third result false = unspecified.
func sameWrapped(a, b *wnode) (same bool, known bool) {
	if a == b {
		return true, true
	}
	ka, kb := a.loc.Kind(), b.loc.Kind()
	if ka != kb || a.loc.Type() != b.loc.Type() {
		return false, true
	}
	switch ka {
	case reflect.Map:
		return a.loc.Pointer() == b.loc.Pointer(), true
	case reflect.Struct, reflect.Array:
		if a.loc.CanAddr() && b.loc.CanAddr() {
			return a.loc.Addr().Pointer() == b.loc.Addr().Pointer(), true
		}
	case reflect.Slice:
		if a.loc.CanAddr() && b.loc.CanAddr() && a.loc.Addr().Pointer() == b.loc.Addr().Pointer() {
			return true, true
		}
		// two copies of a slice header ([A-nonaddr]) wrap the same value when they denote the same elements
		if a.loc.Len() > 0 && b.loc.Len() > 0 {
			if a.loc.Pointer() != b.loc.Pointer() {
				return false, true
			}
			if a.loc.Len() == b.loc.Len() && a.origin == "copy" && b.origin == "copy" {
				return true, true
			}
		}
		return false, false
	}
	return false, false
}
