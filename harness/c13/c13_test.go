package c13

import (
	"encoding/json"
	"fmt"
	"os"
	"testing"

	"pgregory.net/rapid"

	"verifh/internal/evid"
)

func TestMain(m *testing.M) { evid.Main("C13", m) }

func caseText(c interface{}) string {
	b, _ := json.Marshal(c)
	return string(b)
}

func TestQuickRoundtrip(t *testing.T) {
	evid.Check(t, "roundtrip", 20000, 5, func(t *rapid.T) {
		c := genRT(t)
		evid.Case(caseText(c), rtNontrivial(c))
		evid.Count("rt-mapper:" + c.Mapper)
		evid.Count("rt-pass:" + c.Pass)
		evid.Count("rt-top:" + c.Type.K)
		if len(c.Path) > 0 {
			evid.Count("rt-path")
		}
		evid.Sample("roundtrip", c)
		evid.Judge(t, judgeRT(c))
	})
}

func TestQuickGraph(t *testing.T) {
	evid.Check(t, "graph", 16000, 5, func(t *rapid.T) {
		c := genGraph(t)
		evid.Case(caseText(c), graphNontrivial(c))
		evid.Count("graph-target:" + c.Target)
		evid.Count("graph-mapper:" + c.Mapper)
		evid.Sample("graph", c)
		evid.Judge(t, judgeGraph(c))
	})
}

func TestQuickFuncs(t *testing.T) {
	evid.Check(t, "funcs", 16000, 5, func(t *rapid.T) {
		c := genFunc(t)
		evid.Case(caseText(c), funcNontrivial(c))
		if c.Special != "" {
			evid.Count("func-special:" + c.Special)
		} else {
			evid.Count(fmt.Sprintf("func-args:%+d", len(c.Args)-len(c.In)))
			if c.Variadic {
				evid.Count("func-variadic")
			}
			if c.HasErr {
				evid.Count("func-error-return")
			}
		}
		evid.Sample("funcs", c)
		evid.Judge(t, judgeFunc(c))
	})
}

func TestQuickNoPanic(t *testing.T) {
	evid.Check(t, "nopanic", 6000, 5, func(t *rapid.T) {
		c := genWild(t)
		evid.Case(caseText(c), wildNontrivial(c))
		evid.Count("wild-top:" + c.Type.K)
		evid.Count("wild-pass:" + c.Pass)
		evid.Sample("nopanic", c)
		evid.Judge(t, judgeWild(c))
	})
}

func TestQuickAlias(t *testing.T) {
	evid.Check(t, "alias", 14000, 4, func(t *rapid.T) {
		c, events := genAlias(t)
		evid.Case(caseText(c), aliasNontrivial(c, events))
		evid.Count("alias-top:" + c.Type.K + "/" + c.Pass)
		evid.Count("alias-mapper:" + c.Mapper)
		evid.Sample("alias", c)
		evid.Judge(t, judgeAlias(c))
	})
}

func TestReplay(t *testing.T) {
	p := os.Getenv("VERIF_REPLAY")
	if p == "" {
		t.Skip("no VERIF_REPLAY")
	}
	check, raw, err := evid.LoadReplay(p)
	if err != nil {
		t.Fatal(err)
	}
	switch check {
	case "roundtrip":
		var c RTCase
		if err := json.Unmarshal(raw, &c); err != nil {
			t.Fatal(err)
		}
		evid.Direct(t, judgeRT(&c))
	case "funcs":
		var c FuncCase
		if err := json.Unmarshal(raw, &c); err != nil {
			t.Fatal(err)
		}
		evid.Direct(t, judgeFunc(&c))
	case "nopanic":
		var c WildCase
		if err := json.Unmarshal(raw, &c); err != nil {
			t.Fatal(err)
		}
		evid.Direct(t, judgeWild(&c))
	case "alias":
		var c AliasCase
		if err := json.Unmarshal(raw, &c); err != nil {
			t.Fatal(err)
		}
		evid.Direct(t, judgeAlias(&c))
	case "graph":
		var c GraphCase
		if err := json.Unmarshal(raw, &c); err != nil {
			t.Fatal(err)
		}
		evid.Direct(t, judgeGraph(&c))
	default:
		t.Fatalf("unknown check %q", check)
	}
}
