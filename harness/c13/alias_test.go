package c13

// Sub-check "alias": a wrapped Go value is bound as global r; a generated history
// of script operations (through r and through handles t0..t3 grabbed earlier) is
// interleaved with Go-side mutations. After every step
//   - the real Go value must equal the shadow Go value (alias_model_test.go),
//   - every live script handle must show (structural dump) what the shadow says it refers to,
//   - observer operations (keys / for-in / in / JSON / spread / === / hasOwnProperty) must
//     return what the documented view predicts,
//   - and nothing may panic.

import (
	"encoding/json"
	"fmt"
	"os"
	"reflect"
	"sort"
	"strconv"
	"strings"
	"time"

	"github.com/dop251/goja"
	"pgregory.net/rapid"

	"verifh/internal/evid"
	"verifh/internal/gobridge"
	"verifh/internal/jsx"
)

type GoStep struct {
	Kind string `json:"kind"` // field | index | key
	F    int    `json:"f,omitempty"`
	I    int    `json:"i,omitempty"`
	K    string `json:"k,omitempty"`
}

type GoMut struct {
	Path []GoStep `json:"path"`
	Kind string   `json:"kind"` // set | mapset | mapdel | nil | append | truncate
	Key  string   `json:"key,omitempty"`
	Seed uint64   `json:"seed"`
}

type AOp struct {
	Op    string     `json:"op"`
	H     string     `json:"h,omitempty"`
	Path  []PathStep `json:"path,omitempty"`
	Step  *PathStep  `json:"step,omitempty"`
	Val   *JSVal     `json:"val,omitempty"`
	Vals  []*JSVal   `json:"vals,omitempty"`
	N     int        `json:"n,omitempty"`
	M     int        `json:"m,omitempty"`
	Cmp   string     `json:"cmp,omitempty"`
	Dst   string     `json:"dst,omitempty"`
	H2    string     `json:"h2,omitempty"`
	Path2 []PathStep `json:"path2,omitempty"`
	Go    *GoMut     `json:"go,omitempty"`
}

type AliasCase struct {
	Type   *gobridge.TypeDesc `json:"type"`
	Val    *gobridge.ValDesc  `json:"val"`
	Mapper string             `json:"mapper"`
	Pass   string             `json:"pass"` // ptr | value
	Ops    []AOp              `json:"ops"`
}

func zooAlias(z *gobridge.ZooEntry) bool {
	switch z.Name {
	case "ZPoint", "ZEmbA", "ZEmbB", "ZEmbC", "ZMeth", "ZUnexp", "ZEmbPtr", "ZNode", "ZI64", "ZU8", "ZF64", "ZBool", "ZStr", "ZInt", "ZStringer":
		return true
	}
	return false
}

// ---- script text of an operation ----

func (s PathStep) acc() string {
	switch s.Kind {
	case "field":
		return "." + s.Field
	case "index":
		return "[" + strconv.Itoa(s.Index) + "]"
	}
	return "[" + jsx.StrLitGo(s.Key, true) + "]"
}

func exprOf(h string, path []PathStep) string {
	var sb strings.Builder
	sb.WriteString(h)
	for _, s := range path {
		sb.WriteString(s.acc())
	}
	return sb.String()
}

func jsList(vs []*JSVal) string {
	parts := make([]string, len(vs))
	for i, v := range vs {
		parts[i] = v.src()
	}
	return strings.Join(parts, ", ")
}

func cmpSrc(cmp string) string {
	switch {
	case cmp == "":
		return ""
	case cmp == "num:":
		return "function(a, b) { return a - b }"
	}
	f := cmp[len("num:"):]
	return "function(a, b) { return a." + f + " - b." + f + " }"
}

func (op *AOp) src() string {
	x := exprOf(op.H, op.Path)
	switch op.Op {
	case "grab":
		return op.Dst + " = " + x
	case "set":
		return x + op.Step.acc() + " = " + op.Val.src()
	case "badset":
		// an assignment of a primitive to a struct-typed slot: no conversion exists, so it fails (by a TypeError in strict
		// code, N != 0) and must leave everything as it was
		strict := ""
		if op.N != 0 {
			strict = "\"use strict\"; "
		}
		return "(function() { " + strict + "try { " + x + op.Step.acc() + " = " + op.Cmp + "; return \"assigned\"; } catch (e) { return e instanceof TypeError ? \"TypeError\" : \"other: \" + e; } })()"
	case "delete":
		return "delete " + x + op.Step.acc()
	case "setlen":
		return x + ".length = " + strconv.Itoa(op.N)
	case "push":
		return x + ".push(" + jsList(op.Vals) + ")"
	case "pop":
		return x + ".pop()"
	case "shift":
		return x + ".shift()"
	case "unshift":
		return x + ".unshift(" + jsList(op.Vals) + ")"
	case "splice":
		s := x + ".splice(" + strconv.Itoa(op.N) + ", " + strconv.Itoa(op.M)
		if len(op.Vals) > 0 {
			s += ", " + jsList(op.Vals)
		}
		return s + ")"
	case "reverse":
		return x + ".reverse()"
	case "sort":
		return x + ".sort(" + cmpSrc(op.Cmp) + ")"
	case "forindel":
		return "(function(x) { for (var k in x) { delete x[k]; } })(" + x + ")"
	case "keys":
		return "__keys(" + x + ")"
	case "json":
		return "__dumps(JSON.parse(JSON.stringify(" + x + ")))"
	case "spread":
		return "__spread(" + x + ")"
	case "eq":
		return x + " === " + exprOf(op.H2, op.Path2)
	case "hasown":
		return "__hasown(" + x + ")"
	case "call":
		return x + "." + op.Cmp + "(" + jsList(op.Vals) + ")"
	}
	return "undefined"
}

const aliasPrelude = `
var t0, t1, t2, t3;
function __keys(x) {
  var own = Object.keys(x).filter(function(k) { return typeof x[k] !== "function" });
  var fin = [];
  for (var k in x) { if (typeof x[k] !== "function") fin.push(k); }
  var ins = own.filter(function(k) { return k in x });
  return JSON.stringify({own: own, forin: fin, ins: ins, nokey: "zz__nokey" in x});
}
function __spread(x) {
  if (x instanceof Array) return __dumps([...x]);
  return __dumps({...x});
}
function __hasown(x) {
  var r = [];
  for (var i = 0; i <= x.length; i++) r.push(Object.prototype.hasOwnProperty.call(x, i));
  r.push(x[x.length] === undefined);
  return JSON.stringify(r);
}
`

var aliasPrg = goja.MustCompile("alias.js", aliasPrelude, false)

// ---- deterministic value synthesis for Go-side mutations (a pure function of the seed drawn by rapid) ----

type synth struct{ x uint64 }

func (s *synth) next() uint64 {
	s.x += 0x9e3779b97f4a7c15
	z := s.x
	z = (z ^ (z >> 30)) * 0xbf58476d1ce4e5b9
	z = (z ^ (z >> 27)) * 0x94d049bb133111eb
	return z ^ (z >> 31)
}

func (s *synth) fill(dst reflect.Value, depth int) {
	switch dst.Kind() {
	case reflect.Bool:
		dst.SetBool(s.next()%2 == 0)
	case reflect.Int8:
		dst.SetInt(int64(s.next()%200) - 100)
	case reflect.Int, reflect.Int16, reflect.Int32, reflect.Int64:
		dst.SetInt(int64(s.next()%2000) - 100)
	case reflect.Uint8:
		dst.SetUint(s.next() % 256)
	case reflect.Uint, reflect.Uint16, reflect.Uint32, reflect.Uint64:
		dst.SetUint(s.next() % 3000)
	case reflect.Float32, reflect.Float64:
		dst.SetFloat(float64(int64(s.next()%400)-100) / 4)
	case reflect.String:
		dst.SetString([]string{"", "g", "go", "gö", "g1", "from-go-side-0123456789"}[s.next()%6])
	case reflect.Ptr:
		if dst.Type() == typeBigInt || depth <= 0 || s.next()%4 == 0 {
			return
		}
		p := reflect.New(dst.Type().Elem())
		s.fill(p.Elem(), depth-1)
		dst.Set(p)
	case reflect.Interface:
		if dst.Type().NumMethod() != 0 {
			return
		}
		switch s.next() % 4 {
		case 0:
		case 1:
			dst.Set(reflect.ValueOf(int(s.next() % 50)))
		case 2:
			dst.Set(reflect.ValueOf("gi"))
		default:
			dst.Set(reflect.ValueOf(gobridge.ZPoint{X: int(s.next() % 9), Y: 1}))
		}
	case reflect.Slice:
		n := 0
		if depth > 0 {
			n = int(s.next() % 3)
		}
		sl := reflect.MakeSlice(dst.Type(), n, n)
		for i := 0; i < n; i++ {
			s.fill(sl.Index(i), depth-1)
		}
		dst.Set(sl)
	case reflect.Array:
		for i := 0; i < dst.Len(); i++ {
			s.fill(dst.Index(i), depth-1)
		}
	case reflect.Map:
		m := reflect.MakeMap(dst.Type())
		n := 0
		if depth > 0 {
			n = int(s.next() % 3)
		}
		for i := 0; i < n; i++ {
			k := reflect.New(dst.Type().Key()).Elem()
			s.fillKey(k)
			e := reflect.New(dst.Type().Elem()).Elem()
			s.fill(e, depth-1)
			m.SetMapIndex(k, e)
		}
		dst.Set(m)
	case reflect.Struct:
		for i := 0; i < dst.NumField(); i++ {
			if dst.Type().Field(i).IsExported() {
				s.fill(dst.Field(i), depth-1)
			}
		}
	}
}

func (s *synth) fillKey(k reflect.Value) {
	switch k.Kind() {
	case reflect.String:
		k.SetString([]string{"a", "b", "gk", "1"}[s.next()%4])
	case reflect.Int, reflect.Int8, reflect.Int16, reflect.Int32, reflect.Int64:
		k.SetInt(int64(s.next()%7) - 2)
	case reflect.Uint, reflect.Uint8, reflect.Uint16, reflect.Uint32, reflect.Uint64:
		k.SetUint(s.next() % 7)
	case reflect.Float32, reflect.Float64:
		k.SetFloat(float64(int64(s.next()%9)-2) / 2)
	}
}

// goSlot resolves a Go-level path (auto-dereferencing pointers). For a "key" step the map and key are returned.
func goSlot(root reflect.Value, path []GoStep) (slot reflect.Value, m reflect.Value, key reflect.Value, ok bool) {
	v := root
	for i, s := range path {
		for v.Kind() == reflect.Ptr {
			if v.IsNil() {
				return
			}
			v = v.Elem()
		}
		switch s.Kind {
		case "field":
			if v.Kind() != reflect.Struct || s.F >= v.NumField() {
				return
			}
			v = v.Field(s.F)
		case "index":
			if (v.Kind() != reflect.Slice && v.Kind() != reflect.Array) || s.I >= v.Len() {
				return
			}
			v = v.Index(s.I)
		case "key":
			if v.Kind() != reflect.Map || v.IsNil() {
				return
			}
			var hit reflect.Value
			for _, k := range v.MapKeys() {
				if mapKeyString(k) == s.K {
					hit = k
				}
			}
			if !hit.IsValid() {
				return
			}
			if i == len(path)-1 {
				return v.MapIndex(hit), v, hit, true
			}
			v = v.MapIndex(hit)
		}
	}
	return v, reflect.Value{}, reflect.Value{}, true
}

// applyGoMut performs the mutation on one world (real or shadow); both get the identical call.
func applyGoMut(root reflect.Value, g *GoMut) bool {
	slot, m, key, ok := goSlot(root, g.Path)
	if !ok {
		return false
	}
	sy := &synth{x: g.Seed}
	if m.IsValid() {
		// the slot is a map entry: replace or delete the entry
		switch g.Kind {
		case "mapdel":
			m.SetMapIndex(key, reflect.Value{})
		default:
			e := reflect.New(m.Type().Elem()).Elem()
			sy.fill(e, 2)
			m.SetMapIndex(key, e)
		}
		return true
	}
	if !slot.CanSet() {
		return false
	}
	switch g.Kind {
	case "set":
		nv := reflect.New(slot.Type()).Elem()
		sy.fill(nv, 2)
		slot.Set(nv)
	case "nil":
		slot.Set(reflect.Zero(slot.Type()))
	case "append":
		if slot.Kind() != reflect.Slice {
			return false
		}
		e := reflect.New(slot.Type().Elem()).Elem()
		sy.fill(e, 2)
		slot.Set(reflect.Append(slot, e))
	case "truncate":
		if slot.Kind() != reflect.Slice || slot.Len() == 0 {
			return false
		}
		slot.Set(slot.Slice(0, slot.Len()-1))
	case "mapset":
		if slot.Kind() != reflect.Map {
			return false
		}
		if slot.IsNil() {
			slot.Set(reflect.MakeMap(slot.Type()))
		}
		k := reflect.New(slot.Type().Key()).Elem()
		sy.fillKey(k)
		e := reflect.New(slot.Type().Elem()).Elem()
		sy.fill(e, 2)
		slot.SetMapIndex(k, e)
	default:
		return false
	}
	return true
}

// revalidate drops tracked references whose memory is no longer where the container's slot is (a Go-side
// append/replace moved the elements): what such a handle refers to afterwards is unspecified; reads through
// the container must see the current Go value.
func (w *world) revalidate() {
	// expected location of a tracked node below its container
	slotOf := func(parent *wnode, key string) (reflect.Value, bool) {
		switch key[0] {
		case 'f':
			return w.fieldSlot(parent, key[2:])
		case 'i':
			i, _ := strconv.Atoi(key[2:])
			if (parent.loc.Kind() == reflect.Slice || parent.loc.Kind() == reflect.Array) && i < parent.loc.Len() {
				return parent.loc.Index(i), true
			}
		}
		return reflect.Value{}, false
	}
	// valid: the chain of containers up to a wrapper that does not depend on a slot still leads to the node's memory
	// (the containers need not be held in a script variable: `var t = r.P[1]` keeps the wrapper of r.P alive inside t's
	// tracking only, but a resize of the same slice through another wrapper of r.P still moves the elements)
	memo := map[*wnode]bool{}
	var valid func(n *wnode, depth int) bool
	valid = func(n *wnode, depth int) bool {
		if n.dead || depth > 32 {
			return false
		}
		if v, ok := memo[n]; ok {
			return v
		}
		ok := true
		if n.origin == "tracked" && n.parent != nil {
			ok = valid(n.parent, depth+1)
			if ok {
				cur, found := slotOf(n.parent, n.pkey)
				ok = found && cur.CanAddr() && n.loc.CanAddr() && cur.Addr().Pointer() == n.loc.Addr().Pointer() && cur.Type() == n.loc.Type() && n.parent.kids[n.pkey] == n
			}
		}
		memo[n] = ok
		return ok
	}
	seen := map[*wnode]bool{}
	var visit func(n *wnode)
	visit = func(n *wnode) {
		if n == nil || seen[n] {
			return
		}
		seen[n] = true
		if !n.dead && !valid(n, 0) {
			n.kill()
			if n.parent != nil && n.parent.kids[n.pkey] == n {
				delete(n.parent.kids, n.pkey)
			}
		}
		for key, k := range n.kids {
			if k.dead {
				delete(n.kids, key)
				continue
			}
			visit(k)
		}
		if n.parent != nil {
			visit(n.parent)
		}
	}
	for _, h := range w.handles {
		visit(h)
	}
}

// killElementRefs drops every tracked element reference of the slice stored at the given location.
func (w *world) killElementRefs(slot reflect.Value) {
	addr := slot.Addr().Pointer()
	seen := map[*wnode]bool{}
	var visit func(n *wnode)
	visit = func(n *wnode) {
		if n == nil || seen[n] {
			return
		}
		seen[n] = true
		if !n.dead && n.loc.Kind() == reflect.Slice && n.loc.CanAddr() && n.loc.Addr().Pointer() == addr {
			for key, k := range n.kids {
				if key[0] == 'i' {
					k.kill()
					delete(n.kids, key)
				}
			}
		}
		for _, k := range n.kids {
			visit(k)
		}
		visit(n.parent)
	}
	for _, h := range w.handles {
		visit(h)
	}
}

// ---- building the two worlds ----

func newWorld(c *AliasCase) (w *world, shadowRoot reflect.Value) {
	sv := gobridge.NewBuilder().Make(c.Type, c.Val)
	w = &world{mapper: c.Mapper, pass: c.Pass, root: sv, handles: map[string]*wnode{}}
	w.handles["r"] = w.rootNode(sv, c.Pass)
	return w, sv
}

// rootNode: what the wrapper bound as r refers to.
func (w *world) rootNode(v reflect.Value, pass string) *wnode {
	if pass == "ptr" {
		p := v
		for p.Kind() == reflect.Ptr && !p.IsNil() {
			p = p.Elem()
		}
		n := w.newNode(p, "root", false)
		n.ptr = v.Addr()
		return n
	}
	// by value ([A-nonaddr]): structs and arrays are copied; a slice header is copied and shares its array;
	// a map is a reference
	switch v.Kind() {
	case reflect.Map:
		return w.newNode(addrCopy(v), "root", false)
	case reflect.Slice:
		return w.newNode(addrCopy(v), "root", true)
	}
	n := w.newNode(addrCopy(v), "root", true)
	return n
}

// ---- applying an operation to the shadow; returns the predicted observer result (if any) ----

type prediction struct {
	keys   []string // for "keys"
	optKey map[string]bool
	tree   *Tree // for json/spread
	eq     *bool
	hasown []bool
	ret    *bool // delete result
}

func (w *world) apply(op *AOp) (pred prediction, err error) {
	if op.Op == "go" {
		if op.Go.Kind == "append" && w.sliceAliasing {
			// whether append re-allocates depends on the capacity goja left behind, which is not specified; with two
			// slice headers on one array the outcome differs
			return pred, errUnspecified
		}
		if op.Go.Kind == "append" {
			// whether append moves the elements depends on the capacity goja left behind (unspecified): references to
			// elements of that slice handed out earlier are not used any more; reads through the container are
			if slot, m, _, ok := goSlot(w.root, op.Go.Path); ok && !m.IsValid() && slot.Kind() == reflect.Slice && slot.CanAddr() {
				w.killElementRefs(slot)
			}
		}
		if !applyGoMut(w.root, op.Go) {
			return pred, fmt.Errorf("go mutation not applicable")
		}
		w.revalidate()
		return pred, nil
	}
	n, err := w.resolvePath(op.H, op.Path)
	if err != nil {
		return pred, err
	}
	if n.dead {
		return pred, fmt.Errorf("dead node")
	}
	switch op.Op {
	case "grab":
		w.handles[op.Dst] = n
	case "badset":
		// fails: nothing changes, nothing is detached
	case "set":
		err = w.setSlot(n, *op.Step, op.Val)
	case "delete":
		r := w.deleteSlot(n, *op.Step)
		pred.ret = &r
	case "setlen":
		if n.loc.Kind() != reflect.Slice {
			return pred, errUnspecified
		}
		w.setLength(n, op.N)
	case "push":
		err = w.push(n, op.Vals)
	case "pop":
		w.pop(n)
	case "shift":
		err = w.shift(n)
	case "unshift":
		err = w.unshift(n, op.Vals)
	case "splice":
		err = w.splice(n, op.N, op.M, op.Vals)
	case "reverse":
		err = w.reverse(n)
	case "sort":
		err = w.sortNode(n, op.Cmp)
	case "forindel":
		if n.loc.Kind() != reflect.Map {
			return pred, errUnspecified
		}
		for _, k := range n.loc.MapKeys() {
			n.loc.SetMapIndex(k, reflect.Value{})
		}
	case "keys":
		v := jsView(w.mapper, n.loc, 0)
		switch v.T {
		case "a":
			for i := range v.E {
				pred.keys = append(pred.keys, strconv.Itoa(i))
			}
		case "o":
			pred.keys = append(pred.keys, v.K...)
			pred.optKey = v.optional
		default:
			return pred, errUnspecified
		}
		if pred.keys == nil {
			pred.keys = []string{}
		}
	case "json":
		pred.tree = jsonProjection(jsView(w.mapper, n.loc, 0))
	case "spread":
		pred.tree = jsView(w.mapper, n.loc, 0)
	case "hasown":
		for i := 0; i < n.loc.Len(); i++ {
			pred.hasown = append(pred.hasown, true)
		}
		pred.hasown = append(pred.hasown, false, true)
	case "eq":
		n2, err2 := w.resolvePath(op.H2, op.Path2)
		if err2 != nil {
			return pred, err2
		}
		same, known := sameWrapped(n, n2)
		if !known {
			return pred, errUnspecified
		}
		pred.eq = &same
	case "call":
		err = w.callMethod(n, op.Cmp, op.Vals)
	default:
		return pred, fmt.Errorf("unknown op %s", op.Op)
	}
	// the same slice can be reachable through several wrappers (e.g. through a pointer stored elsewhere); a resize
	// through one of them moves the elements away from references handed out by the others: those are unspecified
	w.revalidate()
	return pred, err
}

// callMethod: the few zoo methods with a defined effect ([D-struct] "Fields and methods are available as properties").
func (w *world) callMethod(n *wnode, name string, args []*JSVal) error {
	switch n.loc.Type() {
	case reflect.TypeOf(gobridge.ZMeth{}):
		if name == "Put" || name == "put" {
			if len(args) != 1 {
				return errUnspecified
			}
			return convInto(w.mapper, args[0], n.loc.FieldByName("N"), nil)
		}
	}
	return errUnspecified
}

// jsonProjection: JSON.parse(JSON.stringify(x)) of a view made of plain data.
func jsonProjection(t *Tree) *Tree {
	switch t.T {
	case "n":
		if t.V == "-0" {
			return &Tree{T: "n", V: "0", numAlt: "0"}
		}
		return t
	case "a":
		out := &Tree{T: "a", E: []*Tree{}, alt: t.alt}
		for _, e := range t.E {
			out.E = append(out.E, jsonProjection(e))
		}
		return out
	case "o":
		out := &Tree{T: "o", optional: t.optional, alt: t.alt}
		for i, k := range t.K {
			out.K = append(out.K, k)
			out.E = append(out.E, jsonProjection(t.E[i]))
		}
		return out
	}
	return t
}

// jsonSafe: the script view consists of plain data only (no boxed scalars, BigInt, functions, custom JSON hooks).
func jsonSafe(v reflect.Value, depth int) bool {
	if depth > 10 || !v.IsValid() {
		return depth <= 10
	}
	t := v.Type()
	if t == typeBigInt || t == gobridge.TypeTime {
		return false
	}
	switch v.Kind() {
	case reflect.Ptr, reflect.Interface:
		if v.IsNil() {
			return true
		}
		if v.Kind() == reflect.Ptr && !isCompoundKind(v.Elem().Kind()) && v.Elem().Kind() != reflect.Map {
			return false
		}
		return jsonSafe(v.Elem(), depth+1)
	case reflect.Struct:
		if hasMethods(t) {
			return false
		}
		for _, f := range visibleFields("none", t) {
			if fv, ok := fieldByIndexSafe(v, f.index); ok && !jsonSafe(fv, depth+1) {
				return false
			}
		}
		// nil embedded pointers make promoted keys unspecified
		for i := 0; i < t.NumField(); i++ {
			if t.Field(i).Anonymous && t.Field(i).Type.Kind() == reflect.Ptr {
				return false
			}
		}
		return true
	case reflect.Slice, reflect.Array:
		if hasMethods(t) {
			return false
		}
		for i := 0; i < v.Len(); i++ {
			if !jsonSafe(v.Index(i), depth+1) {
				return false
			}
		}
		return true
	case reflect.Map:
		if hasMethods(t) || v.IsNil() {
			return false
		}
		it := v.MapRange()
		for it.Next() {
			if !jsonSafe(it.Value(), depth+1) {
				return false
			}
		}
		return true
	case reflect.Func, reflect.Chan:
		return false
	}
	return t.PkgPath() == ""
}

// ---- judge ----

func aFail(c *AliasCase, i int, key, format string, a ...interface{}) *evid.Failure {
	var hist []string
	for j, op := range c.Ops {
		if j > i {
			break
		}
		if op.Op == "go" {
			b, _ := json.Marshal(op.Go)
			hist = append(hist, "go:"+string(b))
		} else {
			hist = append(hist, op.src())
		}
	}
	return &evid.Failure{Check: "alias", Key: key, Msg: fmt.Sprintf(format, a...) + fmt.Sprintf("\n  type %s pass=%s mapper=%s\n  value %s\n  history: %s", c.Type, c.Pass, c.Mapper, fmtVal(gobridge.NewBuilder().Make(c.Type, c.Val)), strings.Join(hist, " ;; ")), Case: c}
}

func opKey(op *AOp, n reflect.Kind) string {
	k := op.Op
	if op.Op == "go" {
		k = "go-" + op.Go.Kind
	}
	return k
}

func judgeAlias(c *AliasCase) *evid.Failure {
	real := gobridge.NewBuilder().Make(c.Type, c.Val)
	w, shadow := newWorld(c)
	vm := goja.New()
	if m := newMapper(c.Mapper); m != nil {
		vm.SetFieldNameMapper(m)
	}
	if o := jsx.RunProgram(vm, dumpPrg); o.Kind != "value" {
		return aFail(c, -1, "harness", "prelude failed: %s", o.Text)
	}
	if o := jsx.RunProgram(vm, aliasPrg); o.Kind != "value" {
		return aFail(c, -1, "harness", "prelude failed: %s", o.Text)
	}
	var arg interface{}
	if c.Pass == "ptr" {
		arg = real.Addr().Interface()
	} else {
		arg = real.Interface()
	}
	if o := jsx.Protect(func() (goja.Value, error) { return nil, vm.Set("r", arg) }); o.Kind != "value" {
		return aFail(c, -1, "bind:"+o.Kind, "binding failed: %s", o.Text)
	}
	evid.SetCurrent("alias", c)
	defer evid.ClearCurrent()
	if f := compareWorlds(c, -1, nil, vm, w, real, shadow); f != nil {
		return f
	}
	for i := range c.Ops {
		op := &c.Ops[i]
		pred, err := w.apply(op)
		if err != nil {
			if err == errUnspecified {
				evid.Excluded("alias: history reached an unspecified operation (truncated)")
				return nil
			}
			if _, isConv := err.(*convErr); isConv {
				return aFail(c, i, "harness", "generated an impossible conversion: %v", err)
			}
			// a replayed case that no longer fits the model (only possible for edited replay files)
			return aFail(c, i, "harness", "model cannot apply op %d: %v", i, err)
		}
		if op.Op == "go" {
			if !applyGoMut(real, op.Go) {
				return aFail(c, i, "harness", "go mutation applicable to the shadow but not to the real value")
			}
		} else {
			o := jsx.RunString(vm, op.src())
			switch o.Kind {
			case "value":
			case "panic":
				return aFail(c, i, "panic:"+op.Op, "`%s` panicked the host: %s\n%s", op.src(), o.Text, trimStack(o.Stack))
			default:
				return aFail(c, i, "outcome:"+op.Op+":"+o.Kind, "`%s` failed: %s (the documentation makes this operation succeed)", op.src(), o.Text)
			}
			if f := checkPrediction(c, i, op, pred, o.Value); f != nil {
				return f
			}
		}
		if os.Getenv("C13_DEBUG") != "" {
			fmt.Printf("step %d %s\n  real   %s\n  shadow %s\n", i, op.src(), fmtVal(real), fmtVal(shadow))
			for _, h := range []string{"r", "t0", "t1", "t2", "t3"} {
				if n := w.handles[h]; n != nil {
					fmt.Printf("    %s: dead=%v origin=%s id=%d loc=%s\n", h, n.dead, n.origin, n.id, fmtVal(n.loc))
				}
			}
		}
		if f := compareWorlds(c, i, op, vm, w, real, shadow); f != nil {
			return f
		}
	}
	return nil
}

func checkPrediction(c *AliasCase, i int, op *AOp, p prediction, got goja.Value) *evid.Failure {
	if op.Op == "badset" {
		if s := got.String(); s != "TypeError" && s != "assigned" {
			return aFail(c, i, "result:badset", "`%s` evaluated to %q: a failing assignment to a wrapped Go value may throw a TypeError only", op.src(), s)
		}
		return nil
	}
	switch {
	case p.ret != nil:
		if got.ToBoolean() != *p.ret {
			return aFail(c, i, "result:"+op.Op, "`%s` evaluated to %v, documentation says %v", op.src(), got, *p.ret)
		}
	case p.eq != nil:
		if got.ToBoolean() != *p.eq {
			return aFail(c, i, "result:eq", "`%s` is %v; [A-wrapper]: equality compares the wrapped values, expected %v", op.src(), got, *p.eq)
		}
	case p.hasown != nil:
		var obs []bool
		if err := json.Unmarshal([]byte(got.String()), &obs); err != nil || len(obs) != len(p.hasown) {
			return aFail(c, i, "result:hasown", "`%s` gave %s, expected %v", op.src(), got, p.hasown)
		}
		for j := range obs {
			if obs[j] != p.hasown[j] {
				return aFail(c, i, "result:hasown", "`%s` gave %s, expected %v ([D-slice])", op.src(), got, p.hasown)
			}
		}
	case p.keys != nil:
		var obs struct {
			Own   []string `json:"own"`
			Forin []string `json:"forin"`
			Ins   []string `json:"ins"`
			Nokey bool     `json:"nokey"`
		}
		if err := json.Unmarshal([]byte(got.String()), &obs); err != nil {
			return aFail(c, i, "harness", "keys result: %v", err)
		}
		for _, list := range [][]string{obs.Own, obs.Forin} {
			if d := keySetDiff(p.keys, p.optKey, list); d != "" {
				return aFail(c, i, "result:keys", "`%s`: %s (expected keys %v, Object.keys %v, for-in %v)", op.src(), d, p.keys, obs.Own, obs.Forin)
			}
		}
		if d := keySetDiff(p.keys, p.optKey, obs.Ins); d != "" || obs.Nokey {
			return aFail(c, i, "result:in", "`%s`: the `in` operator disagrees with the documented keys: %s (in-true keys %v, bogus key present %v)", op.src(), d, obs.Ins, obs.Nokey)
		}
	case p.tree != nil:
		obs, err := parseTree(got.String())
		if err != nil {
			return aFail(c, i, "harness", "tree result: %v", err)
		}
		if d := matchTree(p.tree, obs, exprOf(op.H, op.Path)); d != "" {
			return aFail(c, i, "result:"+op.Op, "`%s`: %s", op.src(), d)
		}
	}
	return nil
}

func keySetDiff(exp []string, opt map[string]bool, got []string) string {
	g := map[string]int{}
	for _, k := range got {
		g[k]++
		if g[k] > 1 {
			return fmt.Sprintf("key %q listed twice", k)
		}
	}
	e := map[string]bool{}
	for _, k := range exp {
		e[k] = true
		if g[k] == 0 && !opt[k] {
			return fmt.Sprintf("key %q missing", k)
		}
	}
	for _, k := range got {
		if !e[k] && !opt[k] {
			return fmt.Sprintf("unexpected key %q", k)
		}
	}
	return ""
}

// compareWorlds: real Go value vs shadow, and every live handle's script view vs the shadow node.
func compareWorlds(c *AliasCase, i int, op *AOp, vm *goja.Runtime, w *world, real, shadow reflect.Value) *evid.Failure {
	opname := "initial"
	if op != nil {
		opname = opKey(op, 0)
	}
	if !w.origUnknown {
		if ok, d := deepEq(real, shadow, eqOpts{numLenient: true, nilEqEmpty: true}); !ok {
			return aFail(c, i, "go-state:"+opname, "after step %d the Go value differs from the documented outcome at %s\n  real   %s\n  shadow %s", i, d, fmtVal(real), fmtVal(shadow))
		}
	}
	names := make([]string, 0, len(w.handles))
	for h := range w.handles {
		names = append(names, h)
	}
	sort.Strings(names)
	for _, h := range names {
		n := w.handles[h]
		if n.dead {
			continue
		}
		o := jsx.RunString(vm, "__dumps("+h+")")
		if o.Kind == "panic" {
			return aFail(c, i, "panic:dump", "walking handle %s panicked the host: %s\n%s", h, o.Text, trimStack(o.Stack))
		}
		if o.Kind != "value" {
			return aFail(c, i, "view-outcome:"+opname, "after step %d walking handle %s failed: %s", i, h, o.Text)
		}
		obs, err := parseTree(o.Value.String())
		if err != nil {
			return aFail(c, i, "harness", "dump parse: %v", err)
		}
		exp := jsView(w.mapper, n.loc, 0)
		if d := matchTree(exp, obs, h); d != "" {
			which := "handle"
			if h == "r" {
				which = "root"
			}
			return aFail(c, i, "view:"+which+":"+opname, "after step %d handle %s shows %s", i, h, d)
		}
	}
	return nil
}

// ---- generator ----

type aliasGen struct {
	t      *rapid.T
	c      *AliasCase
	w      *world
	js     *jsGen
	events map[string]int
	hot    []hotSlot // slots from which a handle was grabbed: reassigning them exercises copy-on-change
}

type hotSlot struct {
	h    string
	path []PathStep
	step PathStep
}

// hotTarget returns a container position and slot whose tracked reference is currently held in a script variable.
func (g *aliasGen) hotTarget() (walkPos, PathStep, bool) {
	if len(g.hot) == 0 {
		return walkPos{}, PathStep{}, false
	}
	hs := g.hot[rapid.IntRange(0, len(g.hot)-1).Draw(g.t, "hot")]
	g.w.peek = true
	n, err := g.w.resolvePath(hs.h, hs.path)
	g.w.peek = false
	if err != nil || n.dead {
		return walkPos{}, PathStep{}, false
	}
	k := n.kids[hs.step.slotKey()]
	if k == nil || k.dead {
		return walkPos{}, PathStep{}, false
	}
	held := false
	for _, h := range g.w.handles {
		if h == k {
			held = true
		}
	}
	if !held {
		return walkPos{}, PathStep{}, false
	}
	return walkPos{h: hs.h, path: hs.path, n: n}, hs.step, true
}

// walkOrHot: a random position, or (often) the container of a slot with a live handle.
func (g *aliasGen) walkOrHot(maxSteps int) (walkPos, *PathStep) {
	if rapid.IntRange(0, 2).Draw(g.t, "usehot") > 0 {
		if pos, step, ok := g.hotTarget(); ok {
			return pos, &step
		}
	}
	return g.walk(maxSteps), nil
}

type walkPos struct {
	h    string
	path []PathStep
	n    *wnode
}

// liveHandles in a fixed order.
func (g *aliasGen) liveHandles() []string {
	var out []string
	for _, h := range []string{"r", "t0", "t1", "t2", "t3"} {
		if n := g.w.handles[h]; n != nil && !n.dead {
			out = append(out, h)
		}
	}
	return out
}

// slotsOf lists the path steps available on node n (existing slots).
func (g *aliasGen) slotsOf(n *wnode) []PathStep {
	var out []PathStep
	v := n.loc
	switch v.Kind() {
	case reflect.Struct:
		for _, f := range visibleFields(g.w.mapper, v.Type()) {
			if f.optional {
				continue
			}
			if _, ok := g.w.fieldSlot(n, f.name); ok {
				out = append(out, PathStep{Kind: "field", Field: f.name})
			}
		}
	case reflect.Slice, reflect.Array:
		for i := 0; i < v.Len() && i < 6; i++ {
			out = append(out, PathStep{Kind: "index", Index: i})
		}
	case reflect.Map:
		if v.IsNil() || hasMethods(v.Type()) {
			return nil
		}
		for _, k := range sortedKeys(v) {
			out = append(out, PathStep{Kind: "key", Key: mapKeyString(k)})
		}
	}
	return out
}

// walk picks a random wrapper reachable from a live handle (peeking: no tracking side effects).
func (g *aliasGen) walk(maxSteps int) walkPos {
	hs := g.liveHandles()
	h := hs[rapid.IntRange(0, len(hs)-1).Draw(g.t, "handle")]
	pos := walkPos{h: h, n: g.w.handles[h]}
	g.w.peek = true
	defer func() { g.w.peek = false }()
	steps := rapid.IntRange(0, maxSteps).Draw(g.t, "walklen")
	for i := 0; i < steps; i++ {
		slots := g.slotsOf(pos.n)
		if len(slots) == 0 {
			break
		}
		s := slots[rapid.IntRange(0, len(slots)-1).Draw(g.t, "walkstep")]
		a := g.w.read(pos.n, s)
		if a.kind != "node" {
			if rapid.Bool().Draw(g.t, "retry") {
				continue
			}
			break
		}
		// continue from the node the real evaluation would reach: an already tracked child or a fresh one
		pos.path = append(pos.path, s)
		pos.n = a.node
	}
	return pos
}

func (g *aliasGen) resizable(n *wnode) bool {
	if n.loc.Kind() != reflect.Slice || g.w.sliceAliasing || hasMethods(n.loc.Type()) {
		return false
	}
	return !n.shared || n.origin == "root"
}

// valueFor draws a script value for a slot of type t. inPlace: the conversion writes into existing memory.
func (g *aliasGen) valueFor(t reflect.Type, cur reflect.Value) (*JSVal, bool) {
	if !literalOK(g.w.mapper, t, true, 0) {
		return nil, false
	}
	v, _ := g.js.forType(t, 2, false)
	v = nullPointers(g.w.mapper, v, t, true)
	// writing a literal through a non-nil pointer slot would update the pointee in place or allocate: unspecified
	return v, true
}

// literalOK: can a fresh script literal be converted into a slot of type t with a documented result?
// inPlace is true while the conversion target is existing memory (struct fields / array elements by value).
func literalOK(mapper string, t reflect.Type, inPlace bool, depth int) bool {
	if depth > 6 {
		return false
	}
	if t == typeBigInt || t == gobridge.TypeTime {
		return false
	}
	switch t.Kind() {
	case reflect.Struct:
		for i := 0; i < t.NumField(); i++ {
			f := t.Field(i)
			if f.Anonymous || !f.IsExported() || jsFieldName(mapper, f) == "" {
				return false // merge-or-replace of what the literal cannot mention is unspecified
			}
			if !literalOK(mapper, f.Type, inPlace, depth+1) {
				return false
			}
		}
		return true
	case reflect.Array:
		return literalOK(mapper, t.Elem(), inPlace, depth+1)
	case reflect.Slice:
		if hasMethods(t) {
			return false
		}
		return literalOK(mapper, t.Elem(), false, depth+1)
	case reflect.Map:
		if hasMethods(t) {
			return false
		}
		return literalOK(mapper, t.Elem(), false, depth+1)
	case reflect.Ptr:
		if inPlace {
			return true // only null is written (nullPointers)
		}
		return literalOK(mapper, t.Elem(), false, depth+1)
	case reflect.Interface:
		return t.NumMethod() == 0
	case reflect.Func, reflect.Chan, reflect.UnsafePointer:
		return false
	}
	return true
}

// nullPointers rewrites the literal so that pointer-typed positions reached in place receive null.
func nullPointers(mapper string, v *JSVal, t reflect.Type, inPlace bool) *JSVal {
	switch t.Kind() {
	case reflect.Ptr:
		if inPlace {
			return &JSVal{K: "null"}
		}
		if v.K == "null" || v.K == "undef" {
			return v
		}
		return nullPointers(mapper, v, t.Elem(), false)
	case reflect.Struct:
		if v.K != "obj" {
			return v
		}
		for i := 0; i < t.NumField(); i++ {
			f := t.Field(i)
			name := jsFieldName(mapper, f)
			for j, k := range v.Keys {
				if k == name {
					v.Elems[j] = nullPointers(mapper, v.Elems[j], f.Type, inPlace)
				}
			}
		}
	case reflect.Array:
		if v.K == "arr" {
			for j := range v.Elems {
				v.Elems[j] = nullPointers(mapper, v.Elems[j], t.Elem(), inPlace)
			}
		}
	case reflect.Slice:
		if v.K == "arr" {
			for j := range v.Elems {
				v.Elems[j] = nullPointers(mapper, v.Elems[j], t.Elem(), false)
			}
		}
	case reflect.Map:
		if v.K == "obj" {
			for j := range v.Elems {
				v.Elems[j] = nullPointers(mapper, v.Elems[j], t.Elem(), false)
			}
		}
	}
	return v
}

// handleValueFor: a live handle whose value can be assigned to a slot of type t with a documented result.
func (g *aliasGen) handleValueFor(t reflect.Type) (*JSVal, bool) {
	var cands []string
	for _, h := range g.liveHandles() {
		n := g.w.handles[h]
		ht := n.loc.Type()
		switch {
		case n.ptr.IsValid():
			// pointer-origin: aliases into slots of the pointer's type and interface{} slots, copies into T slots
			if t == n.ptr.Type() || (t.Kind() == reflect.Interface && t.NumMethod() == 0) {
				cands = append(cands, h)
			} else if ht == t && (t.Kind() == reflect.Map || !typeHasSlice(t, 0)) {
				cands = append(cands, h)
			}
		case n.loc.Kind() == reflect.Map:
			if ht == t || (t.Kind() == reflect.Interface && t.NumMethod() == 0) {
				cands = append(cands, h)
			}
		case n.loc.Kind() == reflect.Struct || n.loc.Kind() == reflect.Array:
			// [A-assign] "a[1] = tmp; // a[1] is now a copy of tmp"
			if ht == t && !typeHasSlice(t, 0) {
				cands = append(cands, h)
			}
		}
	}
	if len(cands) == 0 {
		return nil, false
	}
	return &JSVal{K: "h", H: cands[rapid.IntRange(0, len(cands)-1).Draw(g.t, "hval")]}, true
}

func (g *aliasGen) slotValue(t reflect.Type, cur reflect.Value) (*JSVal, bool) {
	if rapid.IntRange(0, 4).Draw(g.t, "usehandle") == 0 {
		if v, ok := g.handleValueFor(t); ok {
			return v, true
		}
	}
	return g.valueFor(t, cur)
}

// try generating one op of the given kind; returns nil when not applicable in the current state.
func (g *aliasGen) genOp(kind string) *AOp {
	w := g.w
	switch kind {
	case "grab":
		pos := g.walk(3)
		if len(pos.path) == 0 {
			return nil
		}
		dst := []string{"t0", "t1", "t2", "t3"}[rapid.IntRange(0, 3).Draw(g.t, "dst")]
		if pos.n.origin == "tracked" {
			last := pos.path[len(pos.path)-1]
			g.hot = append(g.hot, hotSlot{h: pos.h, path: append([]PathStep{}, pos.path[:len(pos.path)-1]...), step: last})
		}
		return &AOp{Op: "grab", H: pos.h, Path: pos.path, Dst: dst}
	case "set":
		pos, hotStep := g.walkOrHot(2)
		n := pos.n
		var step PathStep
		var st reflect.Type
		var cur reflect.Value
		switch n.loc.Kind() {
		case reflect.Struct:
			slots := g.slotsOf(n)
			if len(slots) == 0 {
				return nil
			}
			step = slots[rapid.IntRange(0, len(slots)-1).Draw(g.t, "slot")]
			if hotStep != nil {
				step = *hotStep
			}
			var ok bool
			cur, ok = w.fieldSlot(n, step.Field)
			if !ok {
				return nil
			}
			st = cur.Type()
		case reflect.Slice, reflect.Array:
			l := n.loc.Len()
			if l == 0 {
				return nil
			}
			step = PathStep{Kind: "index", Index: rapid.IntRange(0, l-1).Draw(g.t, "idx")}
			if hotStep != nil && hotStep.Kind == "index" && hotStep.Index < l {
				step = *hotStep
			}
			cur = n.loc.Index(step.Index)
			st = cur.Type()
		case reflect.Map:
			if n.loc.IsNil() || hasMethods(n.loc.Type()) {
				return nil
			}
			slots := g.slotsOf(n)
			if len(slots) > 0 && rapid.IntRange(0, 2).Draw(g.t, "existing") > 0 {
				step = slots[rapid.IntRange(0, len(slots)-1).Draw(g.t, "slot")]
			} else {
				k := reflect.New(n.loc.Type().Key()).Elem()
				(&synth{x: rapid.Uint64().Draw(g.t, "newkey")}).fillKey(k)
				if (k.Kind() == reflect.Float32 || k.Kind() == reflect.Float64) && !floatKeyOK(k.Float(), k.Type().Bits()) {
					return nil
				}
				step = PathStep{Kind: "key", Key: mapKeyString(k)}
			}
			st = n.loc.Type().Elem()
		default:
			return nil
		}
		inPlace := n.loc.Kind() != reflect.Map
		var v *JSVal
		ok := false
		if rapid.IntRange(0, 4).Draw(g.t, "usehandle") == 0 {
			v, ok = g.handleValueFor(st)
		}
		if !ok {
			if !literalOK(w.mapper, st, inPlace, 0) {
				return nil
			}
			v, _ = g.js.forType(st, 2, false)
			v = nullPointers(w.mapper, v, st, inPlace)
		}
		return &AOp{Op: "set", H: pos.h, Path: pos.path, Step: &step, Val: v}
	case "badset":
		pos, hotStep := g.walkOrHot(2)
		n := pos.n
		var step PathStep
		var st reflect.Type
		switch n.loc.Kind() {
		case reflect.Slice, reflect.Array:
			l := n.loc.Len()
			if l == 0 {
				return nil
			}
			step = PathStep{Kind: "index", Index: rapid.IntRange(0, l-1).Draw(g.t, "bidx")}
			if hotStep != nil && hotStep.Kind == "index" && hotStep.Index < l {
				step = *hotStep
			}
			st = n.loc.Type().Elem()
		case reflect.Struct:
			slots := g.slotsOf(n)
			if len(slots) == 0 {
				return nil
			}
			step = slots[rapid.IntRange(0, len(slots)-1).Draw(g.t, "bslot")]
			if hotStep != nil {
				step = *hotStep
			}
			cur, ok := w.fieldSlot(n, step.Field)
			if !ok {
				return nil
			}
			st = cur.Type()
		default:
			return nil
		}
		// only plain struct types: no string/number converts to them (types with methods may implement conversions)
		if st.Kind() != reflect.Struct || hasMethods(st) || st == reflect.TypeOf(time.Time{}) {
			return nil
		}
		bad := []string{"\"x\"", "7", "true"}[rapid.IntRange(0, 2).Draw(g.t, "badval")]
		return &AOp{Op: "badset", H: pos.h, Path: pos.path, Step: &step, Cmp: bad, N: rapid.IntRange(0, 1).Draw(g.t, "badstrict")}
	case "delete":
		pos, hotStep := g.walkOrHot(2)
		slots := g.slotsOf(pos.n)
		if len(slots) == 0 {
			return nil
		}
		step := slots[rapid.IntRange(0, len(slots)-1).Draw(g.t, "slot")]
		if hotStep != nil {
			step = *hotStep
		}
		return &AOp{Op: "delete", H: pos.h, Path: pos.path, Step: &step}
	case "setlen", "push", "pop", "shift", "unshift", "splice", "setbeyond":
		pos, _ := g.walkOrHot(2)
		n := pos.n
		if !g.resizable(n) {
			return nil
		}
		et := n.loc.Type().Elem()
		items := func(max int) ([]*JSVal, bool) {
			k := rapid.IntRange(1, max).Draw(g.t, "nitems")
			var out []*JSVal
			for i := 0; i < k; i++ {
				v, ok := g.slotValue(et, reflect.Value{})
				if !ok {
					return nil, false
				}
				out = append(out, v)
			}
			return out, true
		}
		l := n.loc.Len()
		switch kind {
		case "setlen":
			return &AOp{Op: "setlen", H: pos.h, Path: pos.path, N: rapid.IntRange(0, l+2).Draw(g.t, "newlen")}
		case "push":
			vs, ok := items(2)
			if !ok {
				return nil
			}
			return &AOp{Op: "push", H: pos.h, Path: pos.path, Vals: vs}
		case "pop":
			return &AOp{Op: "pop", H: pos.h, Path: pos.path}
		case "shift":
			return &AOp{Op: "shift", H: pos.h, Path: pos.path}
		case "unshift":
			vs, ok := items(2)
			if !ok {
				return nil
			}
			return &AOp{Op: "unshift", H: pos.h, Path: pos.path, Vals: vs}
		case "splice":
			op := &AOp{Op: "splice", H: pos.h, Path: pos.path, N: rapid.IntRange(-1, l+1).Draw(g.t, "start"), M: rapid.IntRange(0, 3).Draw(g.t, "delcount")}
			if rapid.Bool().Draw(g.t, "withitems") {
				vs, ok := items(3)
				if !ok {
					return nil
				}
				op.Vals = vs
			}
			return op
		default:
			v, ok := g.slotValue(et, reflect.Value{})
			if !ok {
				return nil
			}
			step := PathStep{Kind: "index", Index: l + rapid.IntRange(0, 2).Draw(g.t, "beyond")}
			return &AOp{Op: "set", H: pos.h, Path: pos.path, Step: &step, Val: v}
		}
	case "reverse", "sort":
		pos, _ := g.walkOrHot(2)
		n := pos.n
		if n.loc.Kind() != reflect.Slice && n.loc.Kind() != reflect.Array {
			return nil
		}
		if kind == "reverse" {
			return &AOp{Op: "reverse", H: pos.h, Path: pos.path}
		}
		var cmps []string
		et := n.loc.Type().Elem()
		if _, ok := w.sortLess(n, ""); ok {
			cmps = append(cmps, "")
		}
		if _, ok := w.sortLess(n, "num:"); ok {
			cmps = append(cmps, "num:")
		}
		if et.Kind() == reflect.Struct {
			for _, f := range visibleFields(w.mapper, et) {
				if len(f.index) == 1 && !f.optional {
					if _, ok := w.sortLess(n, "num:"+f.name); ok {
						cmps = append(cmps, "num:"+f.name)
					}
				}
			}
		}
		if len(cmps) == 0 {
			return nil
		}
		return &AOp{Op: "sort", H: pos.h, Path: pos.path, Cmp: cmps[rapid.IntRange(0, len(cmps)-1).Draw(g.t, "cmp")]}
	case "forindel":
		pos := g.walk(2)
		if pos.n.loc.Kind() != reflect.Map || pos.n.loc.IsNil() || hasMethods(pos.n.loc.Type()) {
			return nil
		}
		return &AOp{Op: "forindel", H: pos.h, Path: pos.path}
	case "keys", "spread":
		pos := g.walk(2)
		return &AOp{Op: kind, H: pos.h, Path: pos.path}
	case "json":
		pos := g.walk(2)
		if !jsonSafe(pos.n.loc, 0) {
			return nil
		}
		return &AOp{Op: "json", H: pos.h, Path: pos.path}
	case "hasown":
		pos := g.walk(2)
		if pos.n.loc.Kind() != reflect.Slice && pos.n.loc.Kind() != reflect.Array {
			return nil
		}
		return &AOp{Op: "hasown", H: pos.h, Path: pos.path}
	case "eq":
		a := g.walk(2)
		var b walkPos
		if rapid.Bool().Draw(g.t, "samepath") {
			b = walkPos{h: a.h, path: a.path, n: a.n}
		} else {
			b = g.walk(2)
		}
		// the second evaluation of a pointer/map/copy slot yields a new wrapper node: compare what they wrap
		w.peek = true
		n1, e1 := w.resolvePath(a.h, a.path)
		n2, e2 := w.resolvePath(b.h, b.path)
		w.peek = false
		if e1 != nil || e2 != nil {
			return nil
		}
		if _, known := sameWrapped(n1, n2); !known {
			return nil
		}
		return &AOp{Op: "eq", H: a.h, Path: a.path, H2: b.h, Path2: b.path}
	case "call":
		pos := g.walk(2)
		if pos.n.loc.Type() != reflect.TypeOf(gobridge.ZMeth{}) {
			return nil
		}
		name := "Put"
		if w.mapper != "none" {
			name = "put"
		}
		return &AOp{Op: "call", H: pos.h, Path: pos.path, Cmp: name, Vals: []*JSVal{jsNum(float64(rapid.IntRange(-5, 500).Draw(g.t, "putarg")))}}
	case "go":
		if w.origUnknown {
			return nil
		}
		return g.genGoMut()
	}
	return nil
}

func (g *aliasGen) genGoMut() *AOp {
	v := g.w.root
	var path []GoStep
	steps := rapid.IntRange(0, 4).Draw(g.t, "gosteps")
	var viaMap bool
	for i := 0; i < steps; i++ {
		cur := v
		for cur.Kind() == reflect.Ptr {
			if cur.IsNil() {
				break
			}
			cur = cur.Elem()
		}
		moved := false
		switch cur.Kind() {
		case reflect.Struct:
			var idxs []int
			for j := 0; j < cur.NumField(); j++ {
				if cur.Type().Field(j).IsExported() {
					idxs = append(idxs, j)
				}
			}
			if len(idxs) > 0 {
				j := idxs[rapid.IntRange(0, len(idxs)-1).Draw(g.t, "gofield")]
				path = append(path, GoStep{Kind: "field", F: j})
				v = cur.Field(j)
				moved = true
			}
		case reflect.Slice, reflect.Array:
			if cur.Len() > 0 {
				j := rapid.IntRange(0, cur.Len()-1).Draw(g.t, "goidx")
				path = append(path, GoStep{Kind: "index", I: j})
				v = cur.Index(j)
				moved = true
			}
		case reflect.Map:
			if cur.Len() > 0 && !viaMap {
				ks := sortedKeys(cur)
				k := ks[rapid.IntRange(0, len(ks)-1).Draw(g.t, "gokey")]
				path = append(path, GoStep{Kind: "key", K: mapKeyString(k)})
				v = cur.MapIndex(k)
				viaMap = true
				moved = true
			}
		}
		if !moved {
			break
		}
		if viaMap {
			// an entry can be replaced or deleted; going deeper needs a reference kind
			if v.Kind() != reflect.Ptr && v.Kind() != reflect.Map && v.Kind() != reflect.Slice {
				break
			}
			if rapid.Bool().Draw(g.t, "stopatentry") {
				break
			}
			viaMap = false
			if v.Kind() == reflect.Slice {
				// elements of a slice stored in a map are addressable
				continue
			}
		}
	}
	gm := &GoMut{Path: path, Seed: rapid.Uint64().Draw(g.t, "goseed")}
	slot, m, _, ok := goSlot(g.w.root, path)
	if !ok {
		return nil
	}
	if m.IsValid() {
		gm.Kind = []string{"set", "mapdel"}[rapid.IntRange(0, 1).Draw(g.t, "entrymut")]
		return &AOp{Op: "go", Go: gm}
	}
	if !slot.CanSet() {
		return nil
	}
	kinds := []string{"set"}
	switch slot.Kind() {
	case reflect.Slice:
		kinds = []string{"set", "append", "append", "truncate", "nil"}
		if g.w.sliceAliasing {
			kinds = []string{"set", "truncate", "nil"}
		}
	case reflect.Map:
		kinds = []string{"set", "mapset", "mapset"}
	case reflect.Ptr, reflect.Interface:
		kinds = []string{"set", "nil"}
	}
	gm.Kind = kinds[rapid.IntRange(0, len(kinds)-1).Draw(g.t, "gomutkind")]
	if slot.Type() == typeBigInt || slot.Kind() == reflect.Func {
		return nil
	}
	return &AOp{Op: "go", Go: gm}
}

// hasTrackedSlot: the type has a compound value stored by value in a slice/array element or struct field
// (the situation the copy-on-change mechanism exists for).
func hasTrackedSlot(td *gobridge.TypeDesc) bool {
	byValueCompound := func(e *gobridge.TypeDesc) bool {
		u, _ := gobridge.Resolve(e)
		return u != nil && (u.K == "struct" || u.K == "array" || u.K == "slice")
	}
	return td.Has(func(x *gobridge.TypeDesc) bool {
		u, _ := gobridge.Resolve(x)
		if u == nil {
			return false
		}
		switch u.K {
		case "slice", "array":
			return byValueCompound(u.Elem)
		case "struct":
			for _, f := range u.Fields {
				if !f.Emb && !f.Unexp && byValueCompound(f.T) {
					return true
				}
			}
		}
		return false
	})
}

var aliasOpKinds = []string{"grab", "grab", "grab", "set", "set", "set", "set", "badset", "badset", "delete", "setlen", "push", "pop", "shift", "unshift", "splice", "setbeyond",
	"reverse", "sort", "sort", "forindel", "keys", "json", "spread", "hasown", "eq", "eq", "call", "go", "go", "go"}

func genAlias(t *rapid.T) (*AliasCase, map[string]int) {
	c := &AliasCase{Mapper: mapperNames[rapid.IntRange(0, 2).Draw(t, "mapper")]}
	opts := gobridge.GenOpts{MaxDepth: rapid.IntRange(1, 4).Draw(t, "depth"), Zoo: zooAlias}
	wantTracked := rapid.IntRange(0, 3).Draw(t, "wanttracked") > 0
	for i := 0; i < 8; i++ {
		c.Type = gobridge.GenType(t, opts)
		if k := c.Type.K; k == "struct" || k == "slice" || k == "map" || k == "array" || (k == "zoo" && gobridge.ZooByName(c.Type.Zoo).Compound) {
			if !wantTracked || hasTrackedSlot(c.Type) {
				break
			}
		}
	}
	under, _ := gobridge.Resolve(c.Type)
	if under == nil || !(under.K == "struct" || under.K == "slice" || under.K == "map" || under.K == "array") {
		c.Type = &gobridge.TypeDesc{K: "slice", Elem: &gobridge.TypeDesc{K: "zoo", Zoo: "ZPoint"}}
		under = c.Type
	}
	dyn := gobridge.GenOpts{MaxDepth: 2, Zoo: zooAlias}
	c.Val = gobridge.GenValue(t, c.Type, gobridge.ValOpts{SafeInts: true, PlainFloat: true, NoNilMap: false, DynOpts: &dyn, FloatKeyOK: floatKeyOK})
	if under.K == "map" && c.Val.Nil {
		// whether a nil map is null or an empty object is not documented: start from an empty map
		c.Val = &gobridge.ValDesc{E: []*gobridge.ValDesc{}, K: []*gobridge.ValDesc{}}
	}
	c.Pass = "ptr"
	if (under.K == "slice" || under.K == "map" || under.K == "struct") && rapid.IntRange(0, 3).Draw(t, "byvalue") == 0 {
		c.Pass = "value"
	}
	w, _ := newWorld(c)
	g := &aliasGen{t: t, c: c, w: w, js: &jsGen{t: t, mapper: c.Mapper, safe: true}, events: map[string]int{}}
	n := rapid.IntRange(1, 20).Draw(t, "nops")
	for len(c.Ops) < n {
		var op *AOp
		for try := 0; try < 8 && op == nil; try++ {
			kind := aliasOpKinds[rapid.IntRange(0, len(aliasOpKinds)-1).Draw(t, "opkind")]
			op = g.genOp(kind)
		}
		if op == nil {
			break
		}
		// keep the generator's shadow in step; an op the model cannot apply ends the history
		before := w.detachCount
		if _, err := w.apply(op); err != nil {
			break
		}
		c.Ops = append(c.Ops, *op)
		g.events[op.Op]++
		if w.detachCount > before {
			g.events["detach"]++
		}
	}
	for k, v := range g.events {
		evid.CountN("alias-op:"+k, int64(v))
	}
	return c, g.events
}

func aliasNontrivial(c *AliasCase, events map[string]int) bool {
	if c.Type.Depth() < 2 {
		return false
	}
	okType := c.Pass == "value" || c.Type.Has(func(t *gobridge.TypeDesc) bool {
		switch t.K {
		case "ptr", "map", "iface":
			return true
		case "struct":
			for _, f := range t.Fields {
				if f.Emb {
					return true
				}
			}
		case "zoo":
			switch t.Zoo {
			case "ZEmbB", "ZEmbPtr", "ZNode", "ZUnexp":
				return true
			}
		}
		return false
	})
	return okType && (events["detach"] > 0 || events["go"] > 0)
}
