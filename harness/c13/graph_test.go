package c13

// Sub-check "graph": a script-built object graph with shared nodes and cycles is
// exported once; sharing and cycles must be preserved inside the result.
//
// Documentation sentences the oracle relies on:
//
//  [G-same]  README, "Exporting Values from JS": "Within a single export operation the same Object will be
//             represented by the same Go value (either the same map, slice or a pointer to the same struct). This
//             includes circular objects and makes it possible to export them."
//  [G-obj]   Object.Export: "For an untyped array, returns its items exported into a newly created []interface{}.
//             In all other cases returns own enumerable non-symbol properties as map[string]interface{}."
//  [G-iface] ExportTo: "Exporting to an interface{} results in a value of the same type as Value.Export() would produce."
//  [G-map]   ExportTo: "Any other Object populates the map with own enumerable non-symbol properties."
//  [G-slice] ExportTo: "Array is treated as iterable"/"... the slice being populated with the results of the iteration."
//  [G-name]  FieldNameMapper doc (see view_test.go [D-mapper]): a script-built object is read through mapped names.
//
// One JS object can be reached through fields of different Go types in the same export (a *ZGraph field, an
// interface{} field, a map[string]interface{} field); [G-same] then applies per Go type, and values of different
// types are necessarily distinct. Distinct JS objects must give distinct Go values (they are copies of different
// things; a write to one must not show in the other).

import (
	"fmt"
	"reflect"
	"strconv"
	"strings"

	"github.com/dop251/goja"
	"pgregory.net/rapid"

	"verifh/internal/evid"
	"verifh/internal/gobridge"
	"verifh/internal/jsx"
)

// GNode kinds: "obj" generic object, "arr" generic array, "N" ZGraph/ZNode-shaped object,
// "K" array of N (or null), "T" object whose values are N (or null).
type GNode struct {
	Kind  string  `json:"kind"`
	Edges []GEdge `json:"edges"`
}

type GEdge struct {
	Key  string `json:"key,omitempty"` // property name as written in the script (already mapped for N nodes); "" for array items
	Fld  string `json:"fld,omitempty"` // Go field name for N nodes
	Ref  int    `json:"ref"`           // node index, -1 = primitive
	Prim string `json:"prim,omitempty"`
	// Prim: "null", "true", "false", "s:<text>", "n:<number>"
}

type GraphCase struct {
	Nodes  []GNode `json:"nodes"`
	Root   int     `json:"root"`
	Mapper string  `json:"mapper"`
	Target string  `json:"target"` // export | iface | map | slice | zgraph-ptr | zgraph-val | znode-ptr
}

var zgraphFields = []string{"V", "P", "Q", "I", "M", "T", "L", "S"}
var znodeFields = []string{"V", "Next", "Kids", "M"}

func goFieldJSName(mapper string, t reflect.Type, fld string) string {
	f, _ := t.FieldByName(fld)
	return jsFieldName(mapper, f)
}

var typeZGraph = reflect.TypeOf(gobridge.ZGraph{})
var typeZNode = reflect.TypeOf(gobridge.ZNode{})

func genPrim(t *rapid.T) string {
	switch rapid.IntRange(0, 5).Draw(t, "prim") {
	case 0:
		return "null"
	case 1:
		return []string{"true", "false"}[rapid.IntRange(0, 1).Draw(t, "b")]
	case 2:
		return "s:" + []string{"", "a", "xyz", "héé"}[rapid.IntRange(0, 3).Draw(t, "s")]
	case 3:
		return "n:" + strconv.Itoa(rapid.IntRange(-3, 40).Draw(t, "i")) + ".5"
	default:
		return "n:" + strconv.Itoa(rapid.IntRange(-3, 1000).Draw(t, "i"))
	}
}

func genGraph(t *rapid.T) *GraphCase {
	c := &GraphCase{Mapper: mapperNames[rapid.IntRange(0, 2).Draw(t, "mapper")]}
	c.Target = []string{"export", "iface", "map", "slice", "zgraph-ptr", "zgraph-ptr", "zgraph-val", "znode-ptr"}[rapid.IntRange(0, 7).Draw(t, "target")]
	n := rapid.IntRange(1, 7).Draw(t, "nnodes")
	typed := strings.HasPrefix(c.Target, "z")
	kinds := []string{"obj", "arr"}
	if typed {
		kinds = []string{"N", "N", "N", "K", "T", "obj", "arr"}
		if c.Target == "znode-ptr" {
			kinds = []string{"N", "N", "K", "T"}
		}
	}
	for i := 0; i < n; i++ {
		k := kinds[rapid.IntRange(0, len(kinds)-1).Draw(t, "nkind")]
		if i == 0 {
			switch c.Target {
			case "map":
				k = "obj"
			case "slice":
				k = "arr"
			case "zgraph-ptr", "zgraph-val", "znode-ptr":
				k = "N"
			}
		}
		c.Nodes = append(c.Nodes, GNode{Kind: k})
	}
	// nodes of a kind
	of := func(kinds ...string) []int {
		var out []int
		for i, nd := range c.Nodes {
			for _, k := range kinds {
				if nd.Kind == k {
					out = append(out, i)
				}
			}
		}
		return out
	}
	pickRef := func(label string, cands []int) int {
		if len(cands) == 0 || rapid.IntRange(0, 5).Draw(t, label+"-null") == 0 {
			return -1
		}
		return cands[rapid.IntRange(0, len(cands)-1).Draw(t, label)]
	}
	styp := typeZGraph
	sfields := zgraphFields
	if c.Target == "znode-ptr" {
		styp, sfields = typeZNode, znodeFields
	}
	for i := range c.Nodes {
		nd := &c.Nodes[i]
		switch nd.Kind {
		case "obj":
			keys := []string{"a", "b", "c", "self", "1", "k"}
			ne := rapid.IntRange(0, 4).Draw(t, "nedges")
			used := map[string]bool{}
			for j := 0; j < ne; j++ {
				k := keys[rapid.IntRange(0, len(keys)-1).Draw(t, "key")]
				if used[k] {
					continue
				}
				used[k] = true
				e := GEdge{Key: k, Ref: -1}
				if rapid.IntRange(0, 2).Draw(t, "isref") > 0 {
					e.Ref = pickRef("ref", of("obj", "arr", "N", "K", "T"))
				}
				if e.Ref < 0 {
					e.Prim = genPrim(t)
				}
				nd.Edges = append(nd.Edges, e)
			}
		case "arr":
			ne := rapid.IntRange(0, 4).Draw(t, "nitems")
			for j := 0; j < ne; j++ {
				e := GEdge{Ref: -1}
				if rapid.IntRange(0, 2).Draw(t, "isref") > 0 {
					e.Ref = pickRef("ref", of("obj", "arr", "N", "K", "T"))
				}
				if e.Ref < 0 {
					e.Prim = genPrim(t)
				}
				nd.Edges = append(nd.Edges, e)
			}
		case "K":
			ne := rapid.IntRange(0, 4).Draw(t, "nitems")
			for j := 0; j < ne; j++ {
				e := GEdge{Ref: pickRef("kref", of("N"))}
				if e.Ref < 0 {
					e.Prim = "null"
				}
				nd.Edges = append(nd.Edges, e)
			}
		case "T":
			keys := []string{"a", "b", "c", "d"}
			ne := rapid.IntRange(0, 3).Draw(t, "nedges")
			used := map[string]bool{}
			for j := 0; j < ne; j++ {
				k := keys[rapid.IntRange(0, len(keys)-1).Draw(t, "key")]
				if used[k] {
					continue
				}
				used[k] = true
				e := GEdge{Key: k, Ref: pickRef("tref", of("N"))}
				if e.Ref < 0 {
					e.Prim = "null"
				}
				nd.Edges = append(nd.Edges, e)
			}
		case "N":
			for _, fld := range sfields {
				name := goFieldJSName(c.Mapper, styp, fld)
				if name == "" {
					continue
				}
				if fld != "V" && rapid.IntRange(0, 2).Draw(t, "skipfld") == 0 {
					continue
				}
				e := GEdge{Key: name, Fld: fld, Ref: -1}
				switch fld {
				case "V":
					e.Prim = "n:" + strconv.Itoa(rapid.IntRange(0, 99).Draw(t, "v"))
				case "P", "Q", "Next":
					e.Ref = pickRef("pref", of("N"))
				case "I":
					e.Ref = pickRef("iref", of("obj", "arr", "N", "K", "T"))
					if e.Ref < 0 {
						e.Prim = genPrim(t)
					}
				case "M":
					if styp == typeZNode {
						e.Ref = pickRef("mref", of("T"))
					} else {
						e.Ref = pickRef("mref", of("obj", "N", "T"))
					}
				case "T":
					e.Ref = pickRef("tref", of("T"))
				case "L":
					e.Ref = pickRef("lref", of("arr", "K"))
				case "S", "Kids":
					e.Ref = pickRef("sref", of("K"))
				}
				if e.Ref < 0 && e.Prim == "" {
					e.Prim = "null"
				}
				nd.Edges = append(nd.Edges, e)
			}
		}
	}
	return c
}

func primJS(p string) string {
	switch {
	case strings.HasPrefix(p, "s:"):
		return jsx.StrLitGo(p[2:], true)
	case strings.HasPrefix(p, "n:"):
		if strings.HasPrefix(p[2:], "-") {
			return "(" + p[2:] + ")"
		}
		return p[2:]
	}
	return p
}

func (c *GraphCase) script() string {
	var sb strings.Builder
	for i, nd := range c.Nodes {
		if nd.Kind == "arr" || nd.Kind == "K" {
			fmt.Fprintf(&sb, "var n%d=[];", i)
		} else {
			fmt.Fprintf(&sb, "var n%d={};", i)
		}
	}
	sb.WriteString("\n")
	for i, nd := range c.Nodes {
		for j, e := range nd.Edges {
			val := primJS(e.Prim)
			if e.Ref >= 0 {
				val = "n" + strconv.Itoa(e.Ref)
			}
			if nd.Kind == "arr" || nd.Kind == "K" {
				fmt.Fprintf(&sb, "n%d[%d]=%s;", i, j, val)
			} else {
				fmt.Fprintf(&sb, "n%d[%s]=%s;", i, jsx.StrLitGo(e.Key, true), val)
			}
		}
	}
	fmt.Fprintf(&sb, "\nn%d", c.Root)
	return sb.String()
}

func gFail(c *GraphCase, key, format string, a ...interface{}) *evid.Failure {
	return &evid.Failure{Check: "graph", Key: key, Msg: fmt.Sprintf(format, a...) + "\n  target=" + c.Target + " mapper=" + c.Mapper + "\n  " + c.script(), Case: c}
}

type ident struct {
	p uintptr
	n int
}

type graphWalker struct {
	c     *GraphCase
	seen  map[string]ident  // "node/type" -> identity
	owner map[string]string // "type/identity" -> "node/type"
	err   *evid.Failure
	depth int
}

func identOf(v reflect.Value) (ident, bool) {
	switch v.Kind() {
	case reflect.Map, reflect.Ptr:
		if v.IsNil() {
			return ident{}, false
		}
		return ident{v.Pointer(), 0}, true
	case reflect.Slice:
		if v.IsNil() || v.Len() == 0 {
			return ident{}, false
		}
		return ident{v.Pointer(), v.Len()}, true
	}
	return ident{}, false
}

// visit registers that Go value v represents node; it returns true when the pair was seen before (do not descend).
func (w *graphWalker) visit(v reflect.Value, node int, path string) (again bool) {
	id, ok := identOf(v)
	if !ok {
		return false
	}
	key := fmt.Sprintf("%d/%v", node, v.Type())
	if old, seen := w.seen[key]; seen {
		if old != id && w.err == nil {
			w.err = gFail(w.c, "sharing-lost:"+v.Kind().String(), "%s: script object n%d is represented by two different %v values within one export ([G-same])", path, node, v.Type())
		}
		return true
	}
	w.seen[key] = id
	okey := fmt.Sprintf("%v/%x/%d", v.Type(), id.p, id.n)
	if other, used := w.owner[okey]; used && other != key && w.err == nil {
		w.err = gFail(w.c, "conflated:"+v.Kind().String(), "%s: distinct script objects (%s and %s) are represented by the same %v value", path, other, key, v.Type())
	}
	w.owner[okey] = key
	return false
}

func (w *graphWalker) fail(key, format string, a ...interface{}) {
	if w.err == nil {
		w.err = gFail(w.c, key, format, a...)
	}
}

func (w *graphWalker) prim(v reflect.Value, p string, path string) {
	// v is the Go value of a primitive reached through an interface{} slot (already unwrapped) or invalid for nil
	switch {
	case p == "null":
		if v.IsValid() && !((v.Kind() == reflect.Ptr || v.Kind() == reflect.Map || v.Kind() == reflect.Slice || v.Kind() == reflect.Interface) && v.IsNil()) {
			w.fail("prim:null", "%s: null exported as %v", path, v)
		}
	case p == "true" || p == "false":
		if !v.IsValid() || v.Kind() != reflect.Bool || v.Bool() != (p == "true") {
			w.fail("prim:bool", "%s: %s exported as %v", path, p, v)
		}
	case strings.HasPrefix(p, "s:"):
		if !v.IsValid() || v.Kind() != reflect.String || v.String() != p[2:] {
			w.fail("prim:string", "%s: %q exported as %v", path, p[2:], v)
		}
	case strings.HasPrefix(p, "n:"):
		f, _ := strconv.ParseFloat(p[2:], 64)
		g, ok := numOf(v)
		if !v.IsValid() || !ok || g != f {
			w.fail("prim:number", "%s: %s exported as %v", path, p[2:], v)
		}
	}
}

// generic: v holds the default export form of node ([G-obj]).
func (w *graphWalker) generic(v reflect.Value, node int, path string) {
	if w.err != nil {
		return
	}
	for v.IsValid() && v.Kind() == reflect.Interface {
		v = v.Elem()
	}
	nd := w.c.Nodes[node]
	isArr := nd.Kind == "arr" || nd.Kind == "K"
	if !v.IsValid() {
		w.fail("generic:nil", "%s: script object n%d exported as nil", path, node)
		return
	}
	if isArr {
		if v.Type() != reflect.TypeOf([]interface{}(nil)) {
			w.fail("generic:type", "%s: array n%d exported as %v, [G-obj] says []interface{}", path, node, v.Type())
			return
		}
		if v.Len() != len(nd.Edges) {
			w.fail("generic:len", "%s: array n%d of length %d exported with length %d", path, node, len(nd.Edges), v.Len())
			return
		}
		if w.visit(v, node, path) {
			return
		}
		for i, e := range nd.Edges {
			w.genericEdge(v.Index(i), e, fmt.Sprintf("%s[%d]", path, i))
		}
		return
	}
	if v.Type() != reflect.TypeOf(map[string]interface{}(nil)) {
		w.fail("generic:type", "%s: object n%d exported as %v, [G-obj] says map[string]interface{}", path, node, v.Type())
		return
	}
	if v.Len() != len(nd.Edges) {
		w.fail("generic:len", "%s: object n%d with %d properties exported with %d entries: %v", path, node, len(nd.Edges), v.Len(), v)
		return
	}
	if w.visit(v, node, path) {
		return
	}
	for _, e := range nd.Edges {
		ev := v.MapIndex(reflect.ValueOf(e.Key))
		if !ev.IsValid() {
			w.fail("generic:missing", "%s: property %q of n%d missing in the exported map", path, e.Key, node)
			return
		}
		w.genericEdge(ev, e, path+"."+e.Key)
	}
}

func (w *graphWalker) genericEdge(ev reflect.Value, e GEdge, path string) {
	if e.Ref >= 0 {
		w.generic(ev, e.Ref, path)
		return
	}
	for ev.IsValid() && ev.Kind() == reflect.Interface {
		ev = ev.Elem()
	}
	w.prim(ev, e.Prim, path)
}

// typed: v is a struct (ZGraph or ZNode, addressable) representing N node.
func (w *graphWalker) typedStruct(v reflect.Value, node int, path string) {
	if w.err != nil {
		return
	}
	if w.visit(v.Addr(), node, path) {
		return
	}
	nd := w.c.Nodes[node]
	have := map[string]GEdge{}
	for _, e := range nd.Edges {
		have[e.Fld] = e
	}
	t := v.Type()
	for i := 0; i < t.NumField(); i++ {
		f := t.Field(i)
		fv := v.Field(i)
		e, ok := have[f.Name]
		fp := path + "." + f.Name
		if !ok {
			if !fv.IsZero() {
				w.fail("typed:absent-nonzero", "%s: no such property in the script object n%d but the field is %v", fp, node, fv)
			}
			continue
		}
		if e.Ref < 0 {
			pv := fv
			for pv.IsValid() && pv.Kind() == reflect.Interface {
				pv = pv.Elem()
			}
			w.prim(pv, e.Prim, fp)
			continue
		}
		w.typedValue(fv, e.Ref, fp)
	}
}

// typedValue: fv is a field/element of static type *Z, interface{}, map[string]interface{}, map[string]*Z, []interface{}, []*Z.
func (w *graphWalker) typedValue(fv reflect.Value, node int, path string) {
	if w.err != nil {
		return
	}
	switch fv.Kind() {
	case reflect.Interface:
		w.generic(fv, node, path)
	case reflect.Ptr:
		if fv.IsNil() {
			w.fail("typed:nilptr", "%s: script object n%d exported as a nil pointer", path, node)
			return
		}
		w.typedStruct(fv.Elem(), node, path)
	case reflect.Map:
		nd := w.c.Nodes[node]
		if fv.IsNil() {
			w.fail("typed:nilmap", "%s: script object n%d exported as a nil map", path, node)
			return
		}
		if fv.Type().Elem().Kind() == reflect.Interface {
			w.generic(fv, node, path)
			return
		}
		if fv.Len() != len(nd.Edges) {
			w.fail("typed:maplen", "%s: object n%d with %d properties exported with %d entries", path, node, len(nd.Edges), fv.Len())
			return
		}
		if w.visit(fv, node, path) {
			return
		}
		for _, e := range nd.Edges {
			ev := fv.MapIndex(reflect.ValueOf(e.Key))
			if !ev.IsValid() {
				w.fail("typed:missing", "%s: property %q of n%d missing in the exported map", path, e.Key, node)
				return
			}
			if e.Ref < 0 {
				w.prim(ev, e.Prim, path+"."+e.Key)
			} else {
				w.typedValue(ev, e.Ref, path+"."+e.Key)
			}
		}
	case reflect.Slice:
		nd := w.c.Nodes[node]
		if fv.Type().Elem().Kind() == reflect.Interface {
			w.generic(fv, node, path)
			return
		}
		if fv.Len() != len(nd.Edges) {
			w.fail("typed:slicelen", "%s: array n%d of length %d exported with length %d", path, node, len(nd.Edges), fv.Len())
			return
		}
		if w.visit(fv, node, path) {
			return
		}
		for i, e := range nd.Edges {
			if e.Ref < 0 {
				w.prim(fv.Index(i), e.Prim, fmt.Sprintf("%s[%d]", path, i))
			} else {
				w.typedValue(fv.Index(i), e.Ref, fmt.Sprintf("%s[%d]", path, i))
			}
		}
	default:
		w.fail("harness", "%s: unexpected kind %v", path, fv.Kind())
	}
}

func judgeGraph(c *GraphCase) *evid.Failure {
	vm := goja.New()
	if m := newMapper(c.Mapper); m != nil {
		vm.SetFieldNameMapper(m)
	}
	o := jsx.RunString(vm, c.script())
	if o.Kind != "value" {
		return gFail(c, "harness", "building the graph failed: %s", o.Text)
	}
	root := o.Value
	w := &graphWalker{c: c, seen: map[string]ident{}, owner: map[string]string{}}
	var target reflect.Value
	switch c.Target {
	case "export":
		var ex interface{}
		oo := jsx.Protect(func() (goja.Value, error) { ex = root.Export(); return nil, nil })
		if oo.Kind != "value" {
			return gFail(c, "export-outcome:"+oo.Kind, "Export() of the graph did not return: %s", oo.Text)
		}
		w.generic(reflect.ValueOf(ex), c.Root, "root")
		return w.err
	case "iface":
		target = reflect.New(reflect.TypeOf((*interface{})(nil)).Elem())
	case "map":
		target = reflect.New(reflect.TypeOf(map[string]interface{}(nil)))
	case "slice":
		target = reflect.New(reflect.TypeOf([]interface{}(nil)))
	case "zgraph-ptr":
		target = reflect.New(reflect.PointerTo(typeZGraph))
	case "zgraph-val":
		target = reflect.New(typeZGraph)
	case "znode-ptr":
		target = reflect.New(reflect.PointerTo(typeZNode))
	default:
		return gFail(c, "harness", "bad target")
	}
	var err error
	oo := jsx.Protect(func() (goja.Value, error) { err = vm.ExportTo(root, target.Interface()); return nil, nil })
	if oo.Kind != "value" {
		return gFail(c, "exportto-outcome:"+oo.Kind, "ExportTo(&%v) of the graph did not return: %s", target.Type().Elem(), oo.Text)
	}
	if err != nil {
		return gFail(c, "exportto-error", "ExportTo(&%v) of the graph failed: %v", target.Type().Elem(), err)
	}
	switch c.Target {
	case "iface", "map", "slice":
		w.generic(target.Elem(), c.Root, "root")
	case "zgraph-val":
		w.typedStruct(target.Elem(), c.Root, "root")
	default:
		w.typedValue(target.Elem(), c.Root, "root")
	}
	return w.err
}

// graphNontrivial: the graph has a node reachable twice (sharing) or a cycle.
func graphNontrivial(c *GraphCase) bool {
	indeg := make([]int, len(c.Nodes))
	reach := map[int]bool{}
	var dfs func(i int)
	dfs = func(i int) {
		if reach[i] {
			return
		}
		reach[i] = true
		for _, e := range c.Nodes[i].Edges {
			if e.Ref >= 0 {
				indeg[e.Ref]++
				dfs(e.Ref)
			}
		}
	}
	indeg[c.Root]++
	dfs(c.Root)
	for i, d := range indeg {
		if reach[i] && d >= 2 {
			return true
		}
	}
	return false
}
