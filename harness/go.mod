module verifh

go 1.25.0

require (
	github.com/dlclark/regexp2/v2 v2.5.2
	github.com/dop251/goja v0.0.0
	pgregory.net/rapid v1.3.0
)

require (
	github.com/go-sourcemap/sourcemap v2.1.3+incompatible // indirect
	github.com/google/pprof v0.0.0-20230207041349-798e818bf904 // indirect
	golang.org/x/text v0.3.8 // indirect
)

replace github.com/dop251/goja => /repo
