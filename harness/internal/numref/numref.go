// Package numref implements the ECMAScript numeric abstract operations
// exactly (math/big where rounding matters). It shares no code with goja.
package numref

import (
	"math"
	"math/big"
	"strings"
)

// IsJSSpace: WhiteSpace and LineTerminator code points (ECMA-262 12.2, 12.3),
// i.e. what StrWhiteSpaceChar matches.
func IsJSSpace(c rune) bool {
	switch c {
	case 0x09, 0x0A, 0x0B, 0x0C, 0x0D, 0x20, 0xA0, 0xFEFF, 0x2028, 0x2029,
		0x1680, 0x202F, 0x205F, 0x3000:
		return true
	}
	return c >= 0x2000 && c <= 0x200A
}

// AllJSSpaces lists every StrWhiteSpaceChar.
var AllJSSpaces = []rune{0x09, 0x0A, 0x0B, 0x0C, 0x0D, 0x20, 0xA0, 0xFEFF, 0x2028, 0x2029, 0x1680, 0x202F, 0x205F, 0x3000,
	0x2000, 0x2001, 0x2002, 0x2003, 0x2004, 0x2005, 0x2006, 0x2007, 0x2008, 0x2009, 0x200A}

func TrimJS(s []rune) []rune {
	i, j := 0, len(s)
	for i < j && IsJSSpace(s[i]) {
		i++
	}
	for j > i && IsJSSpace(s[j-1]) {
		j--
	}
	return s[i:j]
}

func digitVal(c rune) int {
	switch {
	case c >= '0' && c <= '9':
		return int(c - '0')
	case c >= 'a' && c <= 'z':
		return int(c-'a') + 10
	case c >= 'A' && c <= 'Z':
		return int(c-'A') + 10
	}
	return 99
}

// BigIntToFloat rounds an arbitrary integer to the nearest double (ties to even).
func BigIntToFloat(n *big.Int) float64 {
	f, _ := new(big.Rat).SetInt(n).Float64()
	return f
}

// RatToFloat rounds an exact rational to nearest double, ties to even, with
// overflow to infinity; sign of a zero result follows neg.
func RatToFloat(r *big.Rat) float64 {
	f, _ := r.Float64()
	return f
}

// StringToNumber is ToNumber applied to a String (StringNumericLiteral grammar).
func StringToNumber(str string) float64 {
	s := TrimJS([]rune(str))
	if len(s) == 0 {
		return 0
	}
	if len(s) > 2 && s[0] == '0' {
		base := 0
		switch s[1] {
		case 'x', 'X':
			base = 16
		case 'o', 'O':
			base = 8
		case 'b', 'B':
			base = 2
		}
		if base != 0 {
			n := new(big.Int)
			bb := big.NewInt(int64(base))
			for _, c := range s[2:] {
				d := digitVal(c)
				if d >= base {
					return math.NaN()
				}
				n.Mul(n, bb)
				n.Add(n, big.NewInt(int64(d)))
			}
			return BigIntToFloat(n)
		}
	}
	if len(s) == 2 && s[0] == '0' && strings.ContainsRune("xXoObB", s[1]) {
		return math.NaN()
	}
	f, ok := parseStrDecimal(s, false)
	if !ok {
		return math.NaN()
	}
	return f
}

// parseStrDecimal parses [+-] (Infinity | DecimalDigits [. DecimalDigits?] [Exp] | . DecimalDigits [Exp]).
// With prefix=true the longest valid prefix is used (parseFloat semantics).
func parseStrDecimal(s []rune, prefix bool) (float64, bool) {
	i := 0
	neg := false
	if i < len(s) && (s[i] == '+' || s[i] == '-') {
		neg = s[i] == '-'
		i++
	}
	rest := string(s[i:])
	if strings.HasPrefix(rest, "Infinity") && (prefix || len(rest) == len("Infinity")) {
		if neg {
			return math.Inf(-1), true
		}
		return math.Inf(1), true
	}
	start := i
	mant := new(big.Int)
	ten := big.NewInt(10)
	nd := 0
	for i < len(s) && s[i] >= '0' && s[i] <= '9' {
		mant.Mul(mant, ten)
		mant.Add(mant, big.NewInt(int64(s[i]-'0')))
		i++
		nd++
	}
	fracDigits := 0
	if i < len(s) && s[i] == '.' {
		j := i + 1
		k := 0
		for j < len(s) && s[j] >= '0' && s[j] <= '9' {
			j++
			k++
		}
		if nd > 0 || k > 0 {
			for q := i + 1; q < j; q++ {
				mant.Mul(mant, ten)
				mant.Add(mant, big.NewInt(int64(s[q]-'0')))
			}
			fracDigits = k
			nd += k
			i = j
		}
	}
	if nd == 0 {
		return 0, false
	}
	_ = start
	exp := 0
	if i < len(s) && (s[i] == 'e' || s[i] == 'E') {
		j := i + 1
		eneg := false
		if j < len(s) && (s[j] == '+' || s[j] == '-') {
			eneg = s[j] == '-'
			j++
		}
		k := j
		e := 0
		for k < len(s) && s[k] >= '0' && s[k] <= '9' {
			if e < 100000000 {
				e = e*10 + int(s[k]-'0')
			}
			k++
		}
		if k > j {
			if eneg {
				e = -e
			}
			exp = e
			i = k
		} else if !prefix {
			return 0, false
		}
	}
	if i != len(s) && !prefix {
		return 0, false
	}
	return DecimalToFloat(neg, mant, exp-fracDigits), true
}

// DecimalToFloat returns the double nearest to (-1)^neg * mant * 10^exp10.
func DecimalToFloat(neg bool, mant *big.Int, exp10 int) float64 {
	var f float64
	if mant.Sign() == 0 {
		f = 0
	} else {
		// bound the work: anything beyond these exponents is 0 / Inf regardless of mantissa length handled via digits count
		digits := len(mant.String())
		if exp10+digits > 400 {
			f = math.Inf(1)
		} else if exp10+digits < -400 {
			f = 0
		} else {
			r := new(big.Rat).SetInt(mant)
			p := new(big.Int).Exp(big.NewInt(10), big.NewInt(int64(abs(exp10))), nil)
			if exp10 >= 0 {
				r.Mul(r, new(big.Rat).SetInt(p))
			} else {
				r.Quo(r, new(big.Rat).SetInt(p))
			}
			f, _ = r.Float64()
		}
	}
	if neg {
		f = -f
		if f == 0 {
			f = math.Copysign(0, -1)
		}
	}
	return f
}

func abs(i int) int {
	if i < 0 {
		return -i
	}
	return i
}

// ParseFloat implements the global parseFloat on an already-stringified input.
func ParseFloat(str string) float64 {
	s := []rune(str)
	i := 0
	for i < len(s) && IsJSSpace(s[i]) {
		i++
	}
	f, ok := parseStrDecimal(s[i:], true)
	if !ok {
		return math.NaN()
	}
	return f
}

// ParseInt implements the global parseInt(string, radix) with radix already
// converted by ToInt32. Returns all acceptable answers: the spec allows, for
// radix 10 and more than 20 significant digits, replacing the digits after the
// 20th by zeros; and for other non-power-of-two radices an
// implementation-approximated value. exact is the mathematically nearest.
func ParseInt(str string, radix int32) (exact float64, alt float64, approxOK bool) {
	s := []rune(str)
	i := 0
	for i < len(s) && IsJSSpace(s[i]) {
		i++
	}
	s = s[i:]
	neg := false
	if len(s) > 0 && (s[0] == '+' || s[0] == '-') {
		neg = s[0] == '-'
		s = s[1:]
	}
	strip := true
	R := int(radix)
	if R != 0 {
		if R < 2 || R > 36 {
			return math.NaN(), math.NaN(), false
		}
		if R != 16 {
			strip = false
		}
	} else {
		R = 10
	}
	if strip && len(s) >= 2 && s[0] == '0' && (s[1] == 'x' || s[1] == 'X') {
		s = s[2:]
		R = 16
	}
	n := new(big.Int)
	rb := big.NewInt(int64(R))
	cnt := 0
	alt20 := new(big.Int)
	sig := 0
	for _, c := range s {
		d := digitVal(c)
		if d >= R {
			break
		}
		n.Mul(n, rb)
		n.Add(n, big.NewInt(int64(d)))
		alt20.Mul(alt20, rb)
		if sig > 0 || d != 0 {
			sig++
		}
		if sig <= 20 {
			alt20.Add(alt20, big.NewInt(int64(d)))
		}
		cnt++
	}
	if cnt == 0 {
		return math.NaN(), math.NaN(), false
	}
	exact = BigIntToFloat(n)
	alt = exact
	if R == 10 && sig > 20 {
		alt = BigIntToFloat(alt20)
		approxOK = true
	}
	if R != 2 && R != 4 && R != 8 && R != 10 && R != 16 && R != 32 && sig > 0 && n.BitLen() > 53 {
		approxOK = true
	}
	if neg {
		exact = -exact
		alt = -alt
		if exact == 0 {
			exact = math.Copysign(0, -1)
			alt = exact
		}
	}
	return
}

// exactInt returns trunc(f) as a big.Int for finite f.
func exactInt(f float64) *big.Int {
	bf := new(big.Float).SetFloat64(math.Trunc(f))
	n, _ := bf.Int(nil)
	return n
}

func modBits(f float64, bits uint) *big.Int {
	if math.IsNaN(f) || math.IsInf(f, 0) {
		return new(big.Int)
	}
	n := exactInt(f)
	m := new(big.Int).Lsh(big.NewInt(1), bits)
	n.Mod(n, m) // Euclidean: result in [0, m)
	return n
}

func ToUint32(f float64) uint32 { return uint32(modBits(f, 32).Uint64()) }
func ToInt32(f float64) int32   { return int32(ToUint32(f)) }
func ToUint16(f float64) uint16 { return uint16(modBits(f, 16).Uint64()) }
func ToInt16(f float64) int16   { return int16(ToUint16(f)) }
func ToUint8(f float64) uint8   { return uint8(modBits(f, 8).Uint64()) }
func ToInt8(f float64) int8     { return int8(ToUint8(f)) }
func ToUint64(f float64) uint64 { return modBits(f, 64).Uint64() }
func ToInt64(f float64) int64   { return int64(ToUint64(f)) }

func ToUint8Clamp(f float64) uint8 {
	if math.IsNaN(f) || f <= 0 {
		return 0
	}
	if f >= 255 {
		return 255
	}
	fl := math.Floor(f)
	if fl+0.5 < f {
		return uint8(fl) + 1
	}
	if f < fl+0.5 {
		return uint8(fl)
	}
	if uint8(fl)%2 == 0 {
		return uint8(fl)
	}
	return uint8(fl) + 1
}

// ToFloat32 rounds to nearest float32, ties to even (Go's conversion is IEEE exact).
func ToFloat32(f float64) float64 { return float64(float32(f)) }

// ToIntegerOrInfinity: NaN->0, trunc otherwise; -0 -> +0.
func ToIntegerOrInfinity(f float64) float64 {
	if math.IsNaN(f) {
		return 0
	}
	if math.IsInf(f, 0) {
		return f
	}
	t := math.Trunc(f)
	if t == 0 {
		return 0
	}
	return t
}

const MaxSafe = 9007199254740991.0

// ToLength clamps ToIntegerOrInfinity to [0, 2^53-1].
func ToLength(f float64) float64 {
	i := ToIntegerOrInfinity(f)
	if i <= 0 {
		return 0
	}
	if i > MaxSafe {
		return MaxSafe
	}
	return i
}

// ToIndex returns (index, ok); ok=false means RangeError.
func ToIndex(f float64) (float64, bool) {
	i := ToIntegerOrInfinity(f)
	if i < 0 || i > MaxSafe {
		return 0, false
	}
	return i, true
}

// RelIndex resolves a relative index argument against length n as the
// slice-style methods do: negative counts from the end, clamped to [0,n].
func RelIndex(f float64, n int) int {
	i := ToIntegerOrInfinity(f)
	if i < 0 {
		if i+float64(n) < 0 {
			return 0
		}
		return int(i + float64(n))
	}
	if i > float64(n) {
		return n
	}
	return int(i)
}

// SameValue on doubles.
func SameValue(a, b float64) bool {
	if math.IsNaN(a) && math.IsNaN(b) {
		return true
	}
	return a == b && math.Signbit(a) == math.Signbit(b)
}
