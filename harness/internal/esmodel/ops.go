package esmodel

import (
	"strings"
)

// Op is one operation of a generated history; it is interpreted by the model
// (Apply) and by the JS/Go executors of the checks.
type Op struct {
	Op   string `json:"op"`             // define get set delete has hasOwn gopd ownKeys names symbols keys preventExt seal freeze isExt isSealed isFrozen getProto setProto forin assign
	Surf string `json:"surf"`           // strict sloppy Object Reflect Go
	O    int    `json:"o"`              // subject tag
	K    string `json:"k,omitempty"`    // key, dv format
	D    *Desc  `json:"d,omitempty"`    // descriptor (define)
	V    string `json:"v,omitempty"`    // value, dv format
	R    string `json:"r,omitempty"`    // receiver, dv format ("" = the subject itself)
	P    int    `json:"p,omitempty"`    // prototype tag / source tag (assign); -1 = null
	Note string `json:"note,omitempty"` // generator label
	L    []KD   `json:"l,omitempty"`    // defprops: the property list, in the order OrdinaryOwnPropertyKeys gives for it
}

// KD is one entry of the property list of Object.defineProperties.
type KD struct {
	K string `json:"k"`
	D *Desc  `json:"d"`
}

func boolS(b bool) string {
	if b {
		return "b:true"
	}
	return "b:false"
}

func throwS(a Abrupt) string { return "throw:" + string(a) }

// Apply runs op on the model and returns the result rendering. modelled=false
// means the model cannot predict this step (opaque object involved): the caller
// must stop the history there.
func (w *World) Apply(op *Op) (res string, modelled bool) {
	o := w.obj(op.O)
	if o == nil || o.Opaque {
		return "", false
	}
	var k Key
	if op.K != "" {
		var err error
		if k, err = ParseKey(op.K); err != nil {
			return "", false
		}
	}
	var v Val
	if op.V != "" {
		var err error
		if v, err = ParseVal(op.V); err != nil {
			return "", false
		}
	}
	recv := ObjV(o.Tag)
	if op.R != "" {
		var err error
		if recv, err = ParseVal(op.R); err != nil {
			return "", false
		}
	}
	failRes := func(ok bool, objRes string) string {
		// how a boolean internal-method result surfaces on each API
		switch op.Surf {
		case "Reflect":
			return boolS(ok)
		case "sloppy":
			if op.Op == "delete" {
				return boolS(ok)
			}
			return "ok"
		default: // strict, Object, Go
			if ok {
				return objRes
			}
			return "throw:TypeError"
		}
	}
	switch op.Op {
	case "define":
		d := op.D
		if d.IsAccessor() && d.IsData() {
			return "throw:TypeError", true
		}
		ok, ab := w.DefineOwnProperty(o, k, d)
		if ab == "unmodelled" {
			return "", false
		}
		if ab != "" {
			return throwS(ab), true
		}
		return failRes(ok, recv.String()), true
	case "defprops":
		// 20.1.2.3.1 ObjectDefineProperties: every descriptor is converted first (an invalid one aborts before anything
		// is defined), then the properties are defined in order, stopping at the first failure
		for _, kd := range op.L {
			if kd.D.IsAccessor() && kd.D.IsData() {
				return "throw:TypeError", true
			}
		}
		for _, kd := range op.L {
			kk, err := ParseKey(kd.K)
			if err != nil {
				return "", false
			}
			ok, ab := w.DefineOwnProperty(o, kk, kd.D)
			if ab == "unmodelled" {
				return "", false
			}
			if ab != "" {
				return throwS(ab), true
			}
			if !ok {
				return "throw:TypeError", true
			}
		}
		return recv.String(), true
	case "get":
		val, ab := w.Get(o, k, recv)
		if ab != "" {
			return "", false
		}
		return val.String(), true
	case "set":
		ok, ab := w.Set(o, k, v, recv)
		if ab == "unmodelled" {
			return "", false
		}
		if ab != "" {
			return throwS(ab), true
		}
		return failRes(ok, "ok"), true
	case "delete":
		ok := w.Delete(o, k)
		return failRes(ok, "b:true"), true
	case "has":
		for p := o; p != nil; {
			if p.Opaque {
				return "", false
			}
			if p.Proto < 0 {
				break
			}
			p = w.obj(p.Proto)
		}
		return boolS(w.HasProperty(o, k)), true
	case "hasOwn":
		return boolS(w.GetOwnProperty(o, k) != nil), true
	case "gopd":
		return DescString(w.GetOwnProperty(o, k)), true
	case "ownKeys", "names", "symbols", "keys":
		var parts []string
		for _, key := range w.OwnKeys(o) {
			switch op.Op {
			case "names":
				if key.IsSym() {
					continue
				}
			case "symbols":
				if !key.IsSym() {
					continue
				}
			case "keys":
				if key.IsSym() {
					continue
				}
				if d := w.GetOwnProperty(o, key); d == nil || !d.E {
					continue
				}
			}
			parts = append(parts, key.String())
		}
		return strings.Join(parts, ","), true
	case "preventExt":
		w.PreventExtensions(o)
		return failRes(true, recv.String()), true
	case "seal", "freeze":
		ok := w.SetIntegrityLevel(o, op.Op == "freeze")
		if !ok {
			return "throw:TypeError", true
		}
		return recv.String(), true
	case "isExt":
		return boolS(o.Ext), true
	case "isSealed":
		return boolS(w.TestIntegrityLevel(o, false)), true
	case "isFrozen":
		return boolS(w.TestIntegrityLevel(o, true)), true
	case "getProto":
		if o.Proto < 0 {
			return "null", true
		}
		return ObjV(o.Proto).String(), true
	case "setProto":
		ok, _ := w.SetPrototypeOf(o, op.P)
		return failRes(ok, recv.String()), true
	case "forin", "forin2":
		seen := map[string]bool{}
		var parts []string
		var firstKey *Key
		for p, depth := o, 0; p != nil && depth < 100; depth++ {
			if p.Opaque {
				return "", false
			}
			for _, key := range w.OwnKeys(p) {
				if key.IsSym() || seen[key.S] {
					continue
				}
				seen[key.S] = true
				if d := w.GetOwnProperty(p, key); d != nil && d.E {
					parts = append(parts, key.String())
					if firstKey == nil {
						kc := key
						firstKey = &kc
					}
				}
			}
			if p.Proto < 0 {
				break
			}
			p = w.obj(p.Proto)
		}
		if op.Op == "forin2" && firstKey != nil {
			// forin2: while the first key is being visited, a complete nested enumeration of the same object runs and
			// the (already visited) first key is then deleted from the object itself: the rest of the enumeration is
			// not affected (14.7.5.9: only properties not yet visited can be skipped)
			w.Delete(o, *firstKey)
		}
		return strings.Join(parts, ","), true
	case "assign":
		src := w.obj(op.P)
		if src == nil || src.Opaque {
			return "", false
		}
		for _, key := range w.OwnKeys(src) {
			d := w.GetOwnProperty(src, key)
			if d == nil || !d.E {
				continue
			}
			val, ab := w.Get(src, key, ObjV(src.Tag))
			if ab != "" {
				return "", false
			}
			ok, ab := w.Set(o, key, val, ObjV(o.Tag))
			if ab == "unmodelled" {
				return "", false
			}
			if ab != "" {
				return throwS(ab), true
			}
			if !ok {
				return "throw:TypeError", true
			}
		}
		return ObjV(o.Tag).String(), true
	}
	return "", false
}
