// Package esmodel is a reference model of the ECMAScript object internal
// methods (ECMA-262 §10.1 ordinary objects, §10.4.2 Array, §10.4.3 String,
// §10.4.4 arguments exotic objects), written from the specification text. It
// shares no code with goja. Values are primitives or opaque tagged objects.
package esmodel

import (
	"encoding/json"
	"fmt"
	"math"
	"sort"
	"strconv"
	"strings"
)

// Val is a model value. K: 'u' undefined, 'n' null, 'b' boolean, 'd' number,
// 's' string, 'y' symbol (Obj = symbol id), 'o' object (Obj = tag).
type Val struct {
	K   byte    `json:"k"`
	N   float64 `json:"n,omitempty"`
	S   string  `json:"s,omitempty"`
	B   bool    `json:"b,omitempty"`
	Obj int     `json:"o,omitempty"`
}

var Undef = Val{K: 'u'}
var Null = Val{K: 'n'}

func Num(f float64) Val { return Val{K: 'd', N: f} }
func Str(s string) Val  { return Val{K: 's', S: s} }
func Bool(b bool) Val   { return Val{K: 'b', B: b} }
func ObjV(tag int) Val  { return Val{K: 'o', Obj: tag} }
func SymV(id int) Val   { return Val{K: 'y', Obj: id} }

func (v Val) IsObj() bool { return v.K == 'o' }

// String renders the value in the format the JS side's dv() uses.
func (v Val) String() string {
	switch v.K {
	case 'u':
		return "u"
	case 'n':
		return "null"
	case 'b':
		return "b:" + strconv.FormatBool(v.B)
	case 'd':
		if v.N == 0 && math.Signbit(v.N) {
			return "d:-0"
		}
		if math.IsNaN(v.N) {
			return "d:NaN"
		}
		if math.IsInf(v.N, 1) {
			return "d:Infinity"
		}
		if math.IsInf(v.N, -1) {
			return "d:-Infinity"
		}
		if v.N == math.Trunc(v.N) && math.Abs(v.N) < 1e21 {
			return "d:" + strconv.FormatFloat(v.N, 'f', -1, 64)
		}
		// model values are small integers and halves; anything else renders like JS for |x| in [1e-6, 1e21)
		return "d:" + strconv.FormatFloat(v.N, 'f', -1, 64)
	case 's':
		return "s:" + strconv.Quote(v.S)
	case 'y':
		return "y:" + strconv.Itoa(v.Obj)
	case 'o':
		return "o:" + strconv.Itoa(v.Obj)
	}
	return "?"
}

func SameValue(a, b Val) bool {
	if a.K != b.K {
		return false
	}
	switch a.K {
	case 'u', 'n':
		return true
	case 'b':
		return a.B == b.B
	case 'd':
		if math.IsNaN(a.N) && math.IsNaN(b.N) {
			return true
		}
		return a.N == b.N && math.Signbit(a.N) == math.Signbit(b.N)
	case 's':
		return a.S == b.S
	default:
		return a.Obj == b.Obj
	}
}

// Key is a property key: a string (Sym < 0) or a symbol id.
type Key struct {
	Sym int    `json:"y"`
	S   string `json:"s,omitempty"`
}

func SKey(s string) Key   { return Key{Sym: -1, S: s} }
func YKey(id int) Key     { return Key{Sym: id} }
func (k Key) IsSym() bool { return k.Sym >= 0 }
func (k Key) String() string {
	if k.IsSym() {
		return "y:" + strconv.Itoa(k.Sym)
	}
	return "s:" + strconv.Quote(k.S)
}

// ArrayIndex reports whether the key is an array index (canonical numeric
// string of an integer in [0, 2^32-2]).
func (k Key) ArrayIndex() (uint32, bool) {
	if k.IsSym() || k.S == "" {
		return 0, false
	}
	if len(k.S) > 1 && k.S[0] == '0' {
		return 0, false
	}
	if len(k.S) > 10 {
		return 0, false
	}
	var n uint64
	for i := 0; i < len(k.S); i++ {
		c := k.S[i]
		if c < '0' || c > '9' {
			return 0, false
		}
		n = n*10 + uint64(c-'0')
	}
	if n > 4294967294 {
		return 0, false
	}
	return uint32(n), true
}

// IntegerIndex: canonical numeric string of an integer in [0, 2^53-1] (used for key ordering).
func (k Key) IntegerIndex() (uint64, bool) {
	if k.IsSym() || k.S == "" {
		return 0, false
	}
	if len(k.S) > 1 && k.S[0] == '0' {
		return 0, false
	}
	if len(k.S) > 16 {
		return 0, false
	}
	var n uint64
	for i := 0; i < len(k.S); i++ {
		c := k.S[i]
		if c < '0' || c > '9' {
			return 0, false
		}
		n = n*10 + uint64(c-'0')
	}
	if n > 9007199254740991 {
		return 0, false
	}
	return n, true
}

type Prop struct {
	Key      Key
	Acc      bool
	Value    Val
	Get, Set Val
	W, E, C  bool
}

// Desc is a property descriptor record with field presence.
type Desc struct {
	HasValue bool `json:"hv,omitempty"`
	HasW     bool `json:"hw,omitempty"`
	HasGet   bool `json:"hg,omitempty"`
	HasSet   bool `json:"hs,omitempty"`
	HasE     bool `json:"he,omitempty"`
	HasC     bool `json:"hc,omitempty"`
	Value    Val  `json:"v"`
	Get      Val  `json:"g"`
	Set      Val  `json:"st"`
	W        bool `json:"w,omitempty"`
	E        bool `json:"e,omitempty"`
	C        bool `json:"c,omitempty"`
}

func (d *Desc) IsAccessor() bool { return d.HasGet || d.HasSet }
func (d *Desc) IsData() bool     { return d.HasValue || d.HasW }
func (d *Desc) IsGeneric() bool  { return !d.IsAccessor() && !d.IsData() }

func propDesc(p *Prop) *Desc {
	if p.Acc {
		return &Desc{HasGet: true, HasSet: true, HasE: true, HasC: true, Get: p.Get, Set: p.Set, E: p.E, C: p.C}
	}
	return &Desc{HasValue: true, HasW: true, HasE: true, HasC: true, Value: p.Value, W: p.W, E: p.E, C: p.C}
}

// Obj is a model object.
type Obj struct {
	Tag   int
	Kind  string // "ordinary" (also functions: they are ordinary for these operations), "array", "string", "arguments"
	Props []*Prop
	Proto int // tag, -1 for null
	Ext   bool
	// string exotic
	Str []uint16
	// arguments exotic: Mapped[i] says whether index i is still mapped to parameter i
	Mapped []bool
	Params []Val
	// opaque: object whose internals the model does not track (used only as a value / prototype end)
	Opaque bool
}

// Func describes an accessor function known to the model.
type Func struct {
	Getter bool
	Ret    Val // getter: returned value
	Name   string
}

// World holds all model objects of a case.
type World struct {
	Objs  map[int]*Obj
	Funcs map[int]*Func
	Log   []string // accessor call log, same format as the JS side
}

func NewWorld() *World {
	return &World{Objs: map[int]*Obj{}, Funcs: map[int]*Func{}}
}

type Abrupt string // "", "TypeError", "RangeError"

func (o *Obj) find(k Key) (int, *Prop) {
	for i, p := range o.Props {
		if p.Key == k {
			return i, p
		}
	}
	return -1, nil
}

func (w *World) obj(tag int) *Obj { return w.Objs[tag] }

// ---------- [[GetOwnProperty]] ----------

func (w *World) GetOwnProperty(o *Obj, k Key) *Desc {
	_, p := o.find(k)
	switch o.Kind {
	case "string":
		if p != nil {
			return propDesc(p)
		}
		return w.stringGetOwn(o, k)
	case "arguments":
		if p == nil {
			return nil
		}
		d := propDesc(p)
		if idx, ok := k.ArrayIndex(); ok && int(idx) < len(o.Mapped) && o.Mapped[idx] {
			d.Value = o.Params[idx]
		}
		return d
	}
	if p == nil {
		return nil
	}
	return propDesc(p)
}

func (w *World) stringGetOwn(o *Obj, k Key) *Desc {
	if k.IsSym() {
		return nil
	}
	idx, ok := k.IntegerIndex()
	if !ok || idx >= uint64(len(o.Str)) {
		return nil
	}
	return &Desc{HasValue: true, HasW: true, HasE: true, HasC: true, Value: Str(utf16ToString(o.Str[idx : idx+1])), E: true}
}

func utf16ToString(u []uint16) string {
	var sb strings.Builder
	for _, c := range u {
		sb.WriteRune(rune(c))
	}
	return sb.String()
}

// ---------- ValidateAndApplyPropertyDescriptor ----------

// validateAndApply implements §10.1.6.3; o may be nil (IsCompatiblePropertyDescriptor).
func (w *World) validateAndApply(o *Obj, k Key, extensible bool, d *Desc, cur *Desc) bool {
	if cur == nil {
		if !extensible {
			return false
		}
		if o != nil {
			p := &Prop{Key: k}
			if d.IsAccessor() {
				p.Acc = true
				p.Get, p.Set = Undef, Undef
				if d.HasGet {
					p.Get = d.Get
				}
				if d.HasSet {
					p.Set = d.Set
				}
			} else {
				p.Value = Undef
				if d.HasValue {
					p.Value = d.Value
				}
				p.W = d.HasW && d.W
			}
			p.E = d.HasE && d.E
			p.C = d.HasC && d.C
			o.Props = append(o.Props, p)
		}
		return true
	}
	if !d.HasValue && !d.HasW && !d.HasGet && !d.HasSet && !d.HasE && !d.HasC {
		return true
	}
	curAcc := cur.IsAccessor()
	if !cur.C {
		if d.HasC && d.C {
			return false
		}
		if d.HasE && d.E != cur.E {
			return false
		}
		if !d.IsGeneric() && d.IsAccessor() != curAcc {
			return false
		}
		if curAcc {
			if d.HasGet && !SameValue(d.Get, cur.Get) {
				return false
			}
			if d.HasSet && !SameValue(d.Set, cur.Set) {
				return false
			}
		} else if !cur.W {
			if d.HasW && d.W {
				return false
			}
			if d.HasValue && !SameValue(d.Value, cur.Value) {
				return false
			}
		}
	}
	if o != nil {
		_, p := o.find(k)
		if p == nil {
			// exotic own property not stored (string index): nothing to apply
			return true
		}
		if !curAcc && d.IsAccessor() {
			p.Acc = true
			p.Value = Val{}
			p.W = false
			p.Get, p.Set = Undef, Undef
		} else if curAcc && d.IsData() {
			p.Acc = false
			p.Get, p.Set = Val{}, Val{}
			p.Value = Undef
			p.W = false
		}
		if d.HasValue {
			p.Value = d.Value
		}
		if d.HasW {
			p.W = d.W
		}
		if d.HasGet {
			p.Get = d.Get
		}
		if d.HasSet {
			p.Set = d.Set
		}
		if d.HasE {
			p.E = d.E
		}
		if d.HasC {
			p.C = d.C
		}
	}
	return true
}

func (w *World) ordinaryDefine(o *Obj, k Key, d *Desc) bool {
	_, p := o.find(k)
	var cur *Desc
	if p != nil {
		cur = propDesc(p)
	}
	return w.validateAndApply(o, k, o.Ext, d, cur)
}

// ---------- [[DefineOwnProperty]] ----------

func (w *World) DefineOwnProperty(o *Obj, k Key, d *Desc) (bool, Abrupt) {
	switch o.Kind {
	case "array":
		return w.arrayDefine(o, k, d)
	case "string":
		if sd := w.stringGetOwn(o, k); sd != nil {
			if _, p := o.find(k); p == nil {
				return w.validateAndApply(nil, k, o.Ext, d, sd), ""
			}
		}
		return w.ordinaryDefine(o, k, d), ""
	case "arguments":
		return w.argumentsDefine(o, k, d), ""
	}
	return w.ordinaryDefine(o, k, d), ""
}

func toUint32(f float64) uint32 {
	if math.IsNaN(f) || math.IsInf(f, 0) {
		return 0
	}
	t := math.Trunc(f)
	m := math.Mod(t, 4294967296)
	if m < 0 {
		m += 4294967296
	}
	return uint32(m)
}

func (o *Obj) arrayLen() (uint32, *Prop) {
	_, p := o.find(SKey("length"))
	return uint32(p.Value.N), p
}

func (w *World) arrayDefine(o *Obj, k Key, d *Desc) (bool, Abrupt) {
	if !k.IsSym() && k.S == "length" {
		return w.arraySetLength(o, d)
	}
	if idx, ok := k.ArrayIndex(); ok {
		l, lp := o.arrayLen()
		if idx >= l && !lp.W {
			return false, ""
		}
		if !w.ordinaryDefine(o, k, d) {
			return false, ""
		}
		if idx >= l {
			lp.Value = Num(float64(idx) + 1)
		}
		return true, ""
	}
	return w.ordinaryDefine(o, k, d), ""
}

// ToNumberPrim converts the primitive model values used as lengths.
func ToNumberPrim(v Val) (float64, bool) {
	switch v.K {
	case 'u':
		return math.NaN(), true
	case 'n':
		return 0, true
	case 'b':
		if v.B {
			return 1, true
		}
		return 0, true
	case 'd':
		return v.N, true
	case 's':
		s := strings.TrimSpace(v.S)
		if s == "" {
			return 0, true
		}
		f, err := strconv.ParseFloat(s, 64)
		if err != nil || strings.ContainsAny(s, "_xXpPiInN") {
			return math.NaN(), true
		}
		return f, true
	}
	return 0, false // symbol/object: not handled by the model
}

func (w *World) arraySetLength(o *Obj, d *Desc) (bool, Abrupt) {
	lk := SKey("length")
	if !d.HasValue {
		return w.ordinaryDefine(o, lk, d), ""
	}
	nd := *d
	num, ok := ToNumberPrim(d.Value)
	if d.Value.K == 'a' {
		// ArraySetLength converts the value twice (ToUint32, then ToNumber): the valueOf of an adversarial value
		// runs its operation both times, before the current length descriptor is read
		var adv Op
		if err := json.Unmarshal([]byte(d.Value.S), &adv); err != nil {
			return false, "unmodelled"
		}
		for i := 0; i < 2; i++ {
			if _, modelled := w.Apply(&adv); !modelled {
				return false, "unmodelled"
			}
		}
		num, ok = d.Value.N, true
	}
	if !ok {
		if d.Value.K == 'y' {
			return false, "TypeError"
		}
		return false, "unmodelled" // ToPrimitive of an object runs code the model does not track
	}
	newLen := toUint32(num)
	if float64(newLen) != num {
		return false, "RangeError"
	}
	nd.Value = Num(float64(newLen))
	oldLen, lp := o.arrayLen()
	if newLen >= oldLen {
		return w.ordinaryDefine(o, lk, &nd), ""
	}
	if !lp.W {
		return false, ""
	}
	newWritable := true
	if nd.HasW && !nd.W {
		newWritable = false
		nd.W = true
	}
	if !w.ordinaryDefine(o, lk, &nd) {
		return false, ""
	}
	// delete index keys >= newLen in descending order
	var idxs []uint32
	for _, p := range o.Props {
		if i, ok := p.Key.ArrayIndex(); ok && i >= newLen {
			idxs = append(idxs, i)
		}
	}
	sort.Slice(idxs, func(a, b int) bool { return idxs[a] > idxs[b] })
	for _, i := range idxs {
		k := SKey(strconv.FormatUint(uint64(i), 10))
		pi, p := o.find(k)
		if !p.C {
			lp.Value = Num(float64(i) + 1)
			if !newWritable {
				lp.W = false
			}
			return false, ""
		}
		o.Props = append(o.Props[:pi], o.Props[pi+1:]...)
	}
	if !newWritable {
		lp.W = false
	}
	return true, ""
}

func (w *World) argumentsDefine(o *Obj, k Key, d *Desc) bool {
	idx, isIdx := k.ArrayIndex()
	mapped := isIdx && int(idx) < len(o.Mapped) && o.Mapped[idx]
	nd := *d
	if mapped && d.IsData() {
		if !d.HasValue && d.HasW && !d.W {
			nd.HasValue = true
			nd.Value = o.Params[idx]
		}
	}
	if !w.ordinaryDefine(o, k, &nd) {
		return false
	}
	if mapped {
		if d.IsAccessor() {
			o.Mapped[idx] = false
		} else {
			if d.HasValue {
				o.Params[idx] = d.Value
			}
			if d.HasW && !d.W {
				o.Mapped[idx] = false
			}
		}
	}
	return true
}

// ---------- [[HasProperty]], [[Get]], [[Set]], [[Delete]] ----------

func (w *World) HasProperty(o *Obj, k Key) bool {
	for depth := 0; o != nil && depth < 100; depth++ {
		if w.GetOwnProperty(o, k) != nil {
			return true
		}
		if o.Proto < 0 {
			return false
		}
		o = w.obj(o.Proto)
	}
	return false
}

// callGetter / callSetter model the accessor function pool.
func (w *World) callGetter(fn Val, receiver Val) (Val, Abrupt) {
	if fn.K == 'u' {
		return Undef, ""
	}
	f := w.Funcs[fn.Obj]
	if f == nil {
		return Undef, "unmodelled"
	}
	w.Log = append(w.Log, fmt.Sprintf("%s(this=%s)", f.Name, receiver))
	return f.Ret, ""
}

func (w *World) callSetter(fn Val, receiver Val, v Val) Abrupt {
	f := w.Funcs[fn.Obj]
	if f == nil {
		return "unmodelled"
	}
	w.Log = append(w.Log, fmt.Sprintf("%s(this=%s,%s)", f.Name, receiver, v))
	return ""
}

func (w *World) Get(o *Obj, k Key, receiver Val) (Val, Abrupt) {
	for depth := 0; o != nil && depth < 100; depth++ {
		d := w.GetOwnProperty(o, k)
		if d != nil {
			if d.IsAccessor() {
				return w.callGetter(d.Get, receiver)
			}
			return d.Value, ""
		}
		if o.Proto < 0 {
			return Undef, ""
		}
		o = w.obj(o.Proto)
		if o != nil && o.Opaque {
			return Undef, "unmodelled"
		}
	}
	return Undef, ""
}

// Set implements [[Set]] with an arbitrary receiver. Returns the boolean
// result; abrupt "unmodelled" means the model cannot predict (opaque object on the path).
func (w *World) Set(o *Obj, k Key, v Val, receiver Val) (bool, Abrupt) {
	if o.Kind == "arguments" {
		if receiver.IsObj() && receiver.Obj == o.Tag {
			if idx, ok := k.ArrayIndex(); ok && int(idx) < len(o.Mapped) && o.Mapped[idx] {
				o.Params[idx] = v
			}
		}
	}
	var own *Desc
	for depth := 0; ; depth++ {
		own = w.GetOwnProperty(o, k)
		if own != nil {
			break
		}
		if o.Proto < 0 || depth > 100 {
			own = &Desc{HasValue: true, HasW: true, HasE: true, HasC: true, Value: Undef, W: true, E: true, C: true}
			break
		}
		o = w.obj(o.Proto)
		if o == nil || o.Opaque {
			return false, "unmodelled"
		}
	}
	if own.IsData() {
		if !own.W {
			return false, ""
		}
		if !receiver.IsObj() {
			return false, ""
		}
		r := w.obj(receiver.Obj)
		if r == nil || r.Opaque {
			return false, "unmodelled"
		}
		ex := w.GetOwnProperty(r, k)
		if ex != nil {
			if ex.IsAccessor() {
				return false, ""
			}
			if !ex.W {
				return false, ""
			}
			return w.DefineOwnProperty(r, k, &Desc{HasValue: true, Value: v})
		}
		return w.DefineOwnProperty(r, k, &Desc{HasValue: true, HasW: true, HasE: true, HasC: true, Value: v, W: true, E: true, C: true})
	}
	if own.Set.K == 'u' {
		return false, ""
	}
	if ab := w.callSetter(own.Set, receiver, v); ab != "" {
		return false, ab
	}
	return true, ""
}

func (w *World) Delete(o *Obj, k Key) bool {
	if o.Kind == "string" {
		if _, p := o.find(k); p == nil && w.stringGetOwn(o, k) != nil {
			return false
		}
	}
	i, p := o.find(k)
	if p == nil {
		return true
	}
	if !p.C {
		return false
	}
	o.Props = append(o.Props[:i], o.Props[i+1:]...)
	if o.Kind == "arguments" {
		if idx, ok := k.ArrayIndex(); ok && int(idx) < len(o.Mapped) {
			o.Mapped[idx] = false
		}
	}
	return true
}

// ---------- [[OwnPropertyKeys]] ----------

func (w *World) OwnKeys(o *Obj) []Key {
	type ik struct {
		n uint64
		k Key
	}
	var ints []ik
	var strs, syms []Key
	if o.Kind == "string" {
		for i := range o.Str {
			ints = append(ints, ik{uint64(i), SKey(strconv.Itoa(i))})
		}
	}
	for _, p := range o.Props {
		if p.Key.IsSym() {
			syms = append(syms, p.Key)
		} else if n, ok := p.Key.ArrayIndex(); ok {
			ints = append(ints, ik{uint64(n), p.Key})
		} else {
			strs = append(strs, p.Key)
		}
	}
	sort.SliceStable(ints, func(a, b int) bool { return ints[a].n < ints[b].n })
	var out []Key
	for _, x := range ints {
		out = append(out, x.k)
	}
	out = append(out, strs...)
	out = append(out, syms...)
	return out
}

// ---------- extensibility / prototype ----------

func (w *World) PreventExtensions(o *Obj) bool { o.Ext = false; return true }

func (w *World) SetPrototypeOf(o *Obj, proto int) (bool, Abrupt) {
	if o.Proto == proto {
		return true, ""
	}
	if !o.Ext {
		return false, ""
	}
	p := proto
	for depth := 0; p >= 0 && depth < 100; depth++ {
		if p == o.Tag {
			return false, ""
		}
		po := w.obj(p)
		if po == nil || po.Opaque {
			break
		}
		p = po.Proto
	}
	o.Proto = proto
	return true, ""
}

// SetIntegrityLevel (§7.3.15); returns false (→ TypeError at the call site) if a define fails.
func (w *World) SetIntegrityLevel(o *Obj, frozen bool) bool {
	w.PreventExtensions(o)
	for _, k := range w.OwnKeys(o) {
		if !frozen {
			if ok, _ := w.DefineOwnProperty(o, k, &Desc{HasC: true, C: false}); !ok {
				return false
			}
			continue
		}
		cur := w.GetOwnProperty(o, k)
		if cur == nil {
			continue
		}
		d := &Desc{HasC: true, C: false}
		if !cur.IsAccessor() {
			d.HasW = true
			d.W = false
		}
		if ok, _ := w.DefineOwnProperty(o, k, d); !ok {
			return false
		}
	}
	return true
}

func (w *World) TestIntegrityLevel(o *Obj, frozen bool) bool {
	if o.Ext {
		return false
	}
	for _, k := range w.OwnKeys(o) {
		cur := w.GetOwnProperty(o, k)
		if cur == nil {
			continue
		}
		if cur.C {
			return false
		}
		if frozen && !cur.IsAccessor() && cur.W {
			return false
		}
	}
	return true
}

// ---------- dump ----------

// DescString renders a full descriptor like the JS side's dd().
func DescString(d *Desc) string {
	if d == nil {
		return "none"
	}
	flags := func() string {
		s := ""
		if d.E {
			s += "E"
		} else {
			s += "e"
		}
		if d.C {
			s += "C"
		} else {
			s += "c"
		}
		return s
	}
	if d.IsAccessor() {
		return "A[" + d.Get.String() + "," + d.Set.String() + "]" + flags()
	}
	wf := "w"
	if d.W {
		wf = "W"
	}
	return "D[" + d.Value.String() + "]" + wf + flags()
}

// Dump renders the whole observable state of an object.
func (w *World) Dump(o *Obj) string {
	var sb strings.Builder
	if o.Ext {
		sb.WriteString("ext")
	} else {
		sb.WriteString("noext")
	}
	sb.WriteString(" proto=")
	if o.Proto < 0 {
		sb.WriteString("null")
	} else {
		sb.WriteString("o:" + strconv.Itoa(o.Proto))
	}
	for _, k := range w.OwnKeys(o) {
		sb.WriteString(" | ")
		sb.WriteString(k.String())
		sb.WriteString("=")
		sb.WriteString(DescString(w.GetOwnProperty(o, k)))
	}
	return sb.String()
}
