package esmodel

// PreludeJS is the JS side of the lock-step harness: an object registry with
// tags, value/descriptor/state renderers that mirror esmodel's, subject
// factories, and an interpreter for esmodel.Op records.
const PreludeJS = `"use strict";
var TAG = new Map(), OBJ = Object.create(null), NEXT = 1000, LOG = [], PARAMS = Object.create(null);
var O_dp = Object.defineProperty;
var R_ownKeys = Reflect.ownKeys, R_gopd = Reflect.getOwnPropertyDescriptor, O_isExt = Object.isExtensible, O_gpo = Object.getPrototypeOf;
var A_push = Array.prototype.push, A_join = Array.prototype.join, A_indexOf = Array.prototype.indexOf, J_str = JSON.stringify, M_get = Map.prototype.get, M_set = Map.prototype.set;
// CreateDataProperty, so that the harness is immune to indexed properties the test puts on prototypes
function push(a, v) { O_dp(a, a.length, {value: v, writable: true, enumerable: true, configurable: true}); }
function reg(o, tag) { M_set.call(TAG, o, tag); O_dp(OBJ, tag, {value: o, writable: true, enumerable: true, configurable: true}); return o; }
function tagOf(o) { var t = M_get.call(TAG, o); if (t === undefined) { t = NEXT++; reg(o, t); } return t; }
var SYMS = [Symbol("s0"), Symbol("s1"), Symbol.iterator, Symbol.toStringTag, Symbol.toPrimitive, Symbol.hasInstance, Symbol.unscopables, Symbol.species, Symbol.isConcatSpreadable, Symbol.match, Symbol.replace, Symbol.search, Symbol.split, Symbol.asyncIterator, Symbol.matchAll];
function symId(s) { for (var i = 0; i < SYMS.length; i++) { if (SYMS[i] === s) return i; } push(SYMS, s); return SYMS.length - 1; }
function dv(v) {
  switch (typeof v) {
  case "undefined": return "u";
  case "boolean": return "b:" + v;
  case "number": return "d:" + (Object.is(v, -0) ? "-0" : String(v));
  case "string": return "s:" + J_str(v);
  case "symbol": return "y:" + symId(v);
  case "bigint": return "big:" + String(v);
  default: if (v === null) return "null"; return "o:" + tagOf(v);
  }
}
function pv(s) {
  if (s === "u") return undefined;
  if (s === "null") return null;
  var t = s.slice(0, 2), r = s.slice(2);
  switch (t) {
  case "b:": return r === "true";
  case "d:": return r === "-0" ? -0 : Number(r);
  case "s:": return JSON.parse(r);
  case "y:": return SYMS[Number(r)];
  case "o:": return OBJ[Number(r)];
  case "a:":
    var bar = r.indexOf("|"), advRet = Number(r.slice(0, bar)), advOp = JSON.parse(r.slice(bar + 1));
    return {valueOf: function() { doOp(advOp); return advRet; }};
  }
  throw new Error("bad value " + s);
}
function dd(d) {
  if (d === undefined) return "none";
  var f = (d.enumerable ? "E" : "e") + (d.configurable ? "C" : "c");
  if ("get" in d || "set" in d) return "A[" + dv(d.get) + "," + dv(d.set) + "]" + f;
  return "D[" + dv(d.value) + "]" + (d.writable ? "W" : "w") + f;
}
function dump(o) {
  var s = (O_isExt(o) ? "ext" : "noext") + " proto=" + dv(O_gpo(o));
  var keys = R_ownKeys(o);
  for (var i = 0; i < keys.length; i++) {
    s += " | " + dv(keys[i]) + "=" + dd(R_gopd(o, keys[i]));
  }
  return s;
}
function dumpJSON(tag, kind) {
  var o = OBJ[tag];
  var proto = O_gpo(o);
  var res = {tag: tag, kind: kind, ext: O_isExt(o), proto: proto === null ? -1 : tagOf(proto), props: [], str: ""};
  if (kind === "string") res.str = String.prototype.valueOf.call(o);
  var keys = R_ownKeys(o);
  for (var i = 0; i < keys.length; i++) {
    var d = R_gopd(o, keys[i]);
    var acc = ("get" in d) || ("set" in d);
    push(res.props, {k: dv(keys[i]), acc: acc, v: acc ? "u" : dv(d.value), g: acc ? dv(d.get) : "u", s: acc ? dv(d.set) : "u", w: !!d.writable, e: !!d.enumerable, c: !!d.configurable});
  }
  return J_str(res);
}
function mkG(i) { return reg(function() { push(LOG, "G" + i + "(this=" + dv(this) + ")"); return "g" + i; }, 900 + i); }
function mkS(i) { return reg(function(v) { push(LOG, "S" + i + "(this=" + dv(this) + "," + dv(v) + ")"); }, 910 + i); }
mkG(0); mkG(1); mkS(0); mkS(1);
reg(Object.prototype, 800); reg(Function.prototype, 801); reg(Array.prototype, 802); reg(String.prototype, 803);
var sloppy = new Function("k", "o", "op", "v", "switch (op) { case 'set': o[k] = v; return 'ok'; case 'delete': return delete o[k]; }");
function mkSubject(kind, tag) {
  var o;
  switch (kind) {
  case "plain": o = {}; break;
  case "plainp": o = {a: 1, b: "x", 1: "one"}; break;
  case "nullproto": o = Object.create(null); break;
  case "func": o = new Function("a", "b", "return a"); break;
  case "strictfunc": o = function sf(a) { return a; }; break;
  case "arrow": o = (a) => a; break;
  case "bound": o = (function bf(a, b) {}).bind(null, 1); break;
  case "class": o = class K { static sm() {} m() {} }; break;
  case "method": o = ({m() {}}).m; break;
  case "genfunc": o = function* gf() {}; break;
  case "asyncfunc": o = async function af() {}; break;
  case "array": o = [1, 2, 3]; break;
  case "arrayholes": o = [1, , 3]; break;
  case "arraysparse": o = [1, 2]; o[5000] = 9; break;
  case "arrayempty": o = []; break;
  case "args": (function() { var f = new Function("reg", "PARAMS", "tag", "return function(a, b) { PARAMS[tag] = {get: function(i) { return i === 0 ? a : b; }, set: function(i, v) { if (i === 0) a = v; else b = v; }}; return arguments; }"); o = f(reg, PARAMS, tag)(10, 20, 30); })(); break;
  case "argsstrict": o = (function(a, b) { return arguments; })(10, 20, 30); break;
  case "string": o = new String("ab"); break;
  case "number": o = new Number(5); break;
  case "boolean": o = new Boolean(true); break;
  case "symbolobj": o = Object(Symbol("boxed")); break;
  case "date": o = new Date(0); break;
  case "regexp": o = /a/g; break;
  case "error": o = new Error("msg"); break;
  case "map": o = new Map(); break;
  case "promise": o = Promise.resolve(1); break;
  case "Math": o = Math; break;
  case "JSON": o = JSON; break;
  case "Reflect": o = Reflect; break;
  case "typedarray": o = new Uint8Array(3); break;
  case "arraybuffer": o = new ArrayBuffer(4); break;
  case "generator": o = (function*() {})(); break;
  case "objectproto": o = Object.create(Object.prototype, {x: {value: 1, writable: true, enumerable: false, configurable: true}, acc: {get: OBJ[900], set: OBJ[910], enumerable: true, configurable: false}}); break;
  default: throw new Error("unknown kind " + kind);
  }
  return reg(o, tag);
}
function mkDesc(d) {
  var r = {};
  if (d.hv) r.value = pv(d.v);
  if (d.hw) r.writable = !!d.w;
  if (d.hg) r.get = pv(d.g);
  if (d.hs) r.set = pv(d.st);
  if (d.he) r.enumerable = !!d.e;
  if (d.hc) r.configurable = !!d.c;
  return r;
}
function keysStr(ks) { var s = ""; for (var i = 0; i < ks.length; i++) { s += (i ? "," : "") + dv(ks[i]); } return s; }
function doOp(op) {
  try { return doOp1(op); } catch (e) {
    if (e !== null && typeof e === "object" && typeof e.constructor === "function") return "throw:" + e.constructor.name;
    return "throw:" + dv(e);
  }
}
function doOp1(op) {
  var o = OBJ[op.o], k = op.k ? pv(op.k) : undefined, v = op.v ? pv(op.v) : undefined;
  var recv = op.r ? pv(op.r) : o;
  var R = op.surf === "Reflect";
  switch (op.op) {
  case "define":
    if (R) return dv(Reflect.defineProperty(o, k, mkDesc(op.d)));
    return dv(Object.defineProperty(o, k, mkDesc(op.d)));
  case "defprops":
    var props = {};
    for (var pi = 0; pi < op.l.length; pi++) O_dp(props, pv(op.l[pi].k), {value: mkDesc(op.l[pi].d), enumerable: true, configurable: true, writable: true});
    return dv(Object.defineProperties(o, props));
  case "get":
    if (R) return dv(Reflect.get(o, k, recv));
    return dv(o[k]);
  case "set":
    if (R) return dv(Reflect.set(o, k, v, recv));
    if (op.surf === "sloppy") return sloppy(k, o, "set", v);
    o[k] = v; return "ok";
  case "delete":
    if (R) return dv(Reflect.deleteProperty(o, k));
    if (op.surf === "sloppy") return dv(sloppy(k, o, "delete"));
    return dv(delete o[k]);
  case "has":
    if (R) return dv(Reflect.has(o, k));
    return dv(k in o);
  case "hasOwn":
    if (R && Object.hasOwn) return dv(Object.hasOwn(o, k));
    return dv(Object.prototype.hasOwnProperty.call(o, k));
  case "gopd":
    if (R) return dd(Reflect.getOwnPropertyDescriptor(o, k));
    return dd(Object.getOwnPropertyDescriptor(o, k));
  case "ownKeys": return keysStr(Reflect.ownKeys(o));
  case "names": return keysStr(Object.getOwnPropertyNames(o));
  case "symbols": return keysStr(Object.getOwnPropertySymbols(o));
  case "keys":
    return keysStr(Object.keys(o));
  case "preventExt":
    if (R) return dv(Reflect.preventExtensions(o));
    return dv(Object.preventExtensions(o));
  case "seal": return dv(Object.seal(o));
  case "freeze": return dv(Object.freeze(o));
  case "isExt": return dv(R ? Reflect.isExtensible(o) : Object.isExtensible(o));
  case "isSealed": return dv(Object.isSealed(o));
  case "isFrozen": return dv(Object.isFrozen(o));
  case "getProto": return dv(R ? Reflect.getPrototypeOf(o) : Object.getPrototypeOf(o));
  case "setProto":
    var p = op.p < 0 ? null : OBJ[op.p];
    if (R) return dv(Reflect.setPrototypeOf(o, p));
    return dv(Object.setPrototypeOf(o, p));
  case "forin": var ks2 = []; for (var kk in o) push(ks2, kk); return keysStr(ks2);
  case "forin2": var ks3 = [], first3 = true; for (var k3 in o) { push(ks3, k3); if (first3) { first3 = false; for (var j3 in o) {} Reflect.deleteProperty(o, k3); } } return keysStr(ks3);
  case "assign": return dv(Object.assign(o, OBJ[op.p]));
  }
  throw new Error("unknown op " + op.op);
}
function doOpS(s) { return doOp(JSON.parse(s)); }
function param(tag, i) { return dv(PARAMS[tag].get(i)); }
function ra(x) {
  if (!Array.isArray(x)) return dv(x);
  var s = "[" + x.length + ":";
  for (var i = 0; i < x.length; i++) { s += (i ? "," : "") + (Object.prototype.hasOwnProperty.call(x, i) ? dv(x[i]) : "hole"); }
  return s + "]";
}
function mkCb(name, recv) {
  var calls = 0;
  switch (name) {
  case "ident": return function(v) { return v; };
  case "isnum": return function(v) { return typeof v === "number"; };
  case "double": return function(v) { return typeof v === "number" ? v * 2 : v; };
  case "shrink": return function(v) { if (++calls === 1) recv.length = 1; return v; };
  case "grow": return function(v) { if (++calls === 1) Array.prototype.push.call(recv, 99); return true; };
  case "throwAt2": return function(v, i) { if (i === 2) throw new RangeError("cb"); return v; };
  }
  throw new Error("unknown callback " + name);
}
var CBMETHODS = {map: 1, filter: 1, forEach: 1, some: 1, every: 1, find: 1, findIndex: 1, findLast: 1, findLastIndex: 1};
var LASTRES;
// checkLastResult: an array returned by the last method call must behave like an array with the same own elements
// built element by element with default attributes (whatever bookkeeping the producing fast path left behind must not show). Returns ""
// or a description of the first difference.
function checkLastResult() {
  var savedLog = LOG.length, savedNext = NEXT;
  try { return checkLastResult1(); } finally { LOG.length = savedLog; NEXT = savedNext; } // the observers run accessors of the prototypes under test
}
function checkLastResult1() {
  var R = LASTRES; LASTRES = undefined;
  if (R === undefined || R.length > 64 || Object.getPrototypeOf(R) !== Array.prototype) return "";
  var T = []; T.length = R.length;
  var ks = Object.keys(R);
  for (var i = 0; i < ks.length; i++) { var dsc = Object.getOwnPropertyDescriptor(R, ks[i]); if (!("value" in dsc) || !dsc.writable || !dsc.configurable || !dsc.enumerable) return ""; O_dp(T, ks[i], {value: dsc.value, writable: true, enumerable: true, configurable: true}); }
  var obs = [
    ["includes(undefined)", function(a) { return a.includes(undefined); }],
    ["indexOf(undefined)", function(a) { return a.indexOf(undefined); }],
    ["lastIndexOf(undefined)", function(a) { return a.lastIndexOf(undefined); }],
    ["toReversed", function(a) { return ra(a.toReversed()); }],
    ["with(0,9)", function(a) { return a.length ? ra(a.with(0, 9)) : ""; }],
    ["toSpliced(0,0)", function(a) { return ra(a.toSpliced(0, 0)); }],
    ["concat([9])", function(a) { return ra(a.concat([9])); }],
    ["slice()", function(a) { return ra(a.slice()); }],
    ["flat()", function(a) { return ra(a.flat()); }],
    ["for-in", function(a) { var q = []; for (var k in a) push(q, k); return q.join(); }],
    ["keys", function(a) { return Object.keys(a).join(); }],
    ["JSON", function(a) { try { return JSON.stringify(a); } catch (e) { return "throws"; } }],
    ["findLast", function(a) { return dv(a.findLast(function() { return true; })); }],
    ["entries", function(a) { var q = []; for (var e of a.entries()) push(q, e[0] + ":" + dv(e[1])); return q.join(); }],
    ["map", function(a) { return ra(a.map(function(x) { return x; })); }],
    ["filter", function(a) { return ra(a.filter(function() { return true; })); }],
    ["reduce", function(a) { return a.reduce(function(n) { return n + 1; }, 0); }],
    ["push/pop", function(a) { var c = a.slice(); c.push(1); c.pop(); return ra(c); }],
    ["copy.splice(0)", function(a) { var c = a.slice(); return ra(c.splice(0)); }]
  ];
  for (var j = 0; j < obs.length; j++) {
    var x, y;
    try { x = String(obs[j][1](R)); } catch (e1) { x = "throw:" + e1; }
    try { y = String(obs[j][1](T)); } catch (e2) { y = "throw:" + e2; }
    if (x !== y) return obs[j][0] + ": the returned array gives " + x + ", an array with the same elements built one by one gives " + y + " (result " + ra(R) + ")";
  }
  return "";
}
function doMethodS(s) {
  var m = JSON.parse(s);
  try {
    var o = OBJ[m.o], args = [], margs = m.args || [];
    for (var i = 0; i < margs.length; i++) push(args, pv(margs[i]));
    if (m.name === "spread") return ra([...o]);
    if (CBMETHODS[m.name]) args[0] = mkCb(args[0], o);
    var f = Array.prototype[m.name];
    if (typeof f !== "function") return "unsupported";
    var r = f.apply(o, args);
    LASTRES = (Array.isArray(r) && r !== o) ? r : undefined;
    if (r === o) return dv(o);
    return ra(r);
  } catch (e) {
    if (e !== null && typeof e === "object" && typeof e.constructor === "function") return "throw:" + e.constructor.name;
    return "throw:" + dv(e);
  }
}
`
