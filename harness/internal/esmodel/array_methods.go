package esmodel

import (
	"math"
	"sort"
	"strconv"
	"strings"
)

// The Array.prototype algorithms of ECMA-262 §23.1.3, written generically on
// top of the internal methods (so they apply to arrays, frozen arrays and
// array-like ordinary objects alike). Arguments are model values; callbacks are
// drawn from a small catalogue the JS side implements identically.

// Elem is an element of a result array: Hole=true means "no property".
type Elem struct {
	Hole bool
	V    Val
}

// MethodResult is the rendering-neutral outcome of a method call.
type MethodResult struct {
	Abrupt Abrupt // "", TypeError, RangeError, "unmodelled"
	IsArr  bool
	Arr    []Elem
	V      Val
}

func idxKey(i float64) Key { return SKey(strconv.FormatFloat(i, 'f', -1, 64)) }

func (w *World) lengthOf(o *Obj) (float64, Abrupt) {
	v, ab := w.Get(o, SKey("length"), ObjV(o.Tag))
	if ab != "" {
		return 0, ab
	}
	n, ok := ToNumberPrim(v)
	if !ok {
		return 0, "unmodelled"
	}
	// ToLength
	if math.IsNaN(n) || n <= 0 {
		return 0, ""
	}
	n = math.Trunc(n)
	if n > 9007199254740991 {
		n = 9007199254740991
	}
	return n, ""
}

func (w *World) setThrow(o *Obj, k Key, v Val) Abrupt {
	ok, ab := w.Set(o, k, v, ObjV(o.Tag))
	if ab != "" {
		return ab
	}
	if !ok {
		return "TypeError"
	}
	return ""
}

// SetThrowIdx performs o[i] = v with strict-mode failure semantics.
func (w *World) SetThrowIdx(o *Obj, i float64, v Val) Abrupt { return w.setThrow(o, idxKey(i), v) }

func (w *World) deleteThrow(o *Obj, k Key) Abrupt {
	if !w.Delete(o, k) {
		return "TypeError"
	}
	return ""
}

func relIndex(v Val, present bool, l float64, def float64) (float64, bool) {
	if !present || v.K == 'u' {
		return def, true
	}
	n, ok := ToNumberPrim(v)
	if !ok {
		return 0, false
	}
	if math.IsNaN(n) {
		n = 0
	}
	if !math.IsInf(n, 0) {
		n = math.Trunc(n)
	}
	if n < 0 {
		return math.Max(l+n, 0), true
	}
	return math.Min(n, l), true
}

// StrictEq / SameValueZero on model values.
func StrictEq(a, b Val) bool {
	if a.K != b.K {
		return false
	}
	if a.K == 'd' {
		return a.N == b.N
	}
	return SameValue(a, b)
}

func SameValueZero(a, b Val) bool {
	if a.K == 'd' && b.K == 'd' {
		if math.IsNaN(a.N) && math.IsNaN(b.N) {
			return true
		}
		return a.N == b.N
	}
	return SameValue(a, b)
}

// ToStringPrim: ToString for the primitive values the generators use.
func ToStringPrim(v Val) (string, bool) {
	switch v.K {
	case 'u':
		return "undefined", true
	case 'n':
		return "null", true
	case 'b':
		if v.B {
			return "true", true
		}
		return "false", true
	case 'd':
		s := v.String()[2:]
		if s == "-0" {
			s = "0"
		}
		return s, true
	case 's':
		return v.S, true
	}
	return "", false
}

// Callback catalogue (mirrored in JS): name -> behaviour on (value, index).
//
//	ident      returns the value
//	isnum      returns typeof v === "number"
//	double     returns v*2 for numbers, v otherwise
//	shrink     on the first call sets the receiver's length to 1, returns the value
//	grow       on the first call pushes 99 to the receiver, returns true
//	throwAt2   throws a RangeError when index === 2, else returns the value
type cbState struct {
	name  string
	calls int
}

func (w *World) callCb(cb *cbState, recv *Obj, v Val, i float64) (Val, Abrupt) {
	cb.calls++
	switch cb.name {
	case "ident":
		return v, ""
	case "isnum":
		return Bool(v.K == 'd'), ""
	case "double":
		if v.K == 'd' {
			return Num(v.N * 2), ""
		}
		return v, ""
	case "shrink":
		if cb.calls == 1 {
			if ab := w.setThrow(recv, SKey("length"), Num(1)); ab != "" {
				return Undef, ab
			}
		}
		return v, ""
	case "grow":
		if cb.calls == 1 {
			l, ab := w.lengthOf(recv)
			if ab != "" {
				return Undef, ab
			}
			if ab := w.setThrow(recv, idxKey(l), Num(99)); ab != "" {
				return Undef, ab
			}
			if ab := w.setThrow(recv, SKey("length"), Num(l+1)); ab != "" {
				return Undef, ab
			}
		}
		return Bool(true), ""
	case "throwAt2":
		if i == 2 {
			return Undef, "RangeError"
		}
		return v, ""
	}
	return Undef, "unmodelled"
}

func truthy(v Val) bool {
	switch v.K {
	case 'u', 'n':
		return false
	case 'b':
		return v.B
	case 'd':
		return v.N != 0 && !math.IsNaN(v.N)
	case 's':
		return v.S != ""
	}
	return true
}

// CallMethod applies Array.prototype[name] to o with args.
func (w *World) CallMethod(o *Obj, name string, args []Val) MethodResult {
	fail := func(ab Abrupt) MethodResult { return MethodResult{Abrupt: ab} }
	recv := ObjV(o.Tag)
	arg := func(i int) (Val, bool) {
		if i < len(args) {
			return args[i], true
		}
		return Undef, false
	}
	l, ab := w.lengthOf(o)
	if ab != "" {
		return fail(ab)
	}
	const maxIter = 20000
	if l > maxIter && name != "push" && name != "pop" && name != "at" {
		return fail("unmodelled") // generators avoid whole-array walks over huge lengths
	}
	get := func(i float64) (Val, Abrupt) { return w.Get(o, idxKey(i), recv) }
	has := func(i float64) bool { return w.HasProperty(o, idxKey(i)) }
	switch name {
	case "push":
		if l+float64(len(args)) > 9007199254740991 {
			return fail("TypeError")
		}
		for _, a := range args {
			if ab := w.setThrow(o, idxKey(l), a); ab != "" {
				return fail(ab)
			}
			l++
		}
		if ab := w.setThrow(o, SKey("length"), Num(l)); ab != "" {
			return fail(ab)
		}
		return MethodResult{V: Num(l)}
	case "pop":
		if l == 0 {
			if ab := w.setThrow(o, SKey("length"), Num(0)); ab != "" {
				return fail(ab)
			}
			return MethodResult{V: Undef}
		}
		v, ab := get(l - 1)
		if ab != "" {
			return fail(ab)
		}
		if ab := w.deleteThrow(o, idxKey(l-1)); ab != "" {
			return fail(ab)
		}
		if ab := w.setThrow(o, SKey("length"), Num(l-1)); ab != "" {
			return fail(ab)
		}
		return MethodResult{V: v}
	case "shift":
		if l == 0 {
			if ab := w.setThrow(o, SKey("length"), Num(0)); ab != "" {
				return fail(ab)
			}
			return MethodResult{V: Undef}
		}
		first, ab := get(0)
		if ab != "" {
			return fail(ab)
		}
		for k := 1.0; k < l; k++ {
			if has(k) {
				v, ab := get(k)
				if ab != "" {
					return fail(ab)
				}
				if ab := w.setThrow(o, idxKey(k-1), v); ab != "" {
					return fail(ab)
				}
			} else if ab := w.deleteThrow(o, idxKey(k-1)); ab != "" {
				return fail(ab)
			}
		}
		if ab := w.deleteThrow(o, idxKey(l-1)); ab != "" {
			return fail(ab)
		}
		if ab := w.setThrow(o, SKey("length"), Num(l-1)); ab != "" {
			return fail(ab)
		}
		return MethodResult{V: first}
	case "unshift":
		n := float64(len(args))
		if n > 0 {
			if l+n > 9007199254740991 {
				return fail("TypeError")
			}
			for k := l; k > 0; k-- {
				if has(k - 1) {
					v, ab := get(k - 1)
					if ab != "" {
						return fail(ab)
					}
					if ab := w.setThrow(o, idxKey(k+n-1), v); ab != "" {
						return fail(ab)
					}
				} else if ab := w.deleteThrow(o, idxKey(k+n-1)); ab != "" {
					return fail(ab)
				}
			}
			for j, a := range args {
				if ab := w.setThrow(o, idxKey(float64(j)), a); ab != "" {
					return fail(ab)
				}
			}
		}
		if ab := w.setThrow(o, SKey("length"), Num(l+n)); ab != "" {
			return fail(ab)
		}
		return MethodResult{V: Num(l + n)}
	case "reverse":
		mid := math.Floor(l / 2)
		for lower := 0.0; lower != mid; lower++ {
			upper := l - lower - 1
			lowerExists := has(lower)
			var lv, uv Val
			if lowerExists {
				if lv, ab = get(lower); ab != "" {
					return fail(ab)
				}
			}
			upperExists := has(upper)
			if upperExists {
				if uv, ab = get(upper); ab != "" {
					return fail(ab)
				}
			}
			switch {
			case lowerExists && upperExists:
				if ab := w.setThrow(o, idxKey(lower), uv); ab != "" {
					return fail(ab)
				}
				if ab := w.setThrow(o, idxKey(upper), lv); ab != "" {
					return fail(ab)
				}
			case !lowerExists && upperExists:
				if ab := w.setThrow(o, idxKey(lower), uv); ab != "" {
					return fail(ab)
				}
				if ab := w.deleteThrow(o, idxKey(upper)); ab != "" {
					return fail(ab)
				}
			case lowerExists && !upperExists:
				if ab := w.deleteThrow(o, idxKey(lower)); ab != "" {
					return fail(ab)
				}
				if ab := w.setThrow(o, idxKey(upper), lv); ab != "" {
					return fail(ab)
				}
			}
		}
		return MethodResult{V: recv}
	case "fill":
		v, _ := arg(0)
		a1, p1 := arg(1)
		a2, p2 := arg(2)
		k, ok1 := relIndex(a1, p1, l, 0)
		fin, ok2 := relIndex(a2, p2, l, l)
		if !ok1 || !ok2 {
			return fail("unmodelled")
		}
		for ; k < fin; k++ {
			if ab := w.setThrow(o, idxKey(k), v); ab != "" {
				return fail(ab)
			}
		}
		return MethodResult{V: recv}
	case "copyWithin":
		a0, p0 := arg(0)
		a1, p1 := arg(1)
		a2, p2 := arg(2)
		to, ok0 := relIndex(a0, p0, l, 0)
		from, ok1 := relIndex(a1, p1, l, 0)
		fin, ok2 := relIndex(a2, p2, l, l)
		if !ok0 || !ok1 || !ok2 {
			return fail("unmodelled")
		}
		count := math.Min(fin-from, l-to)
		dir := 1.0
		if from < to && to < from+count {
			dir = -1
			from = from + count - 1
			to = to + count - 1
		}
		for ; count > 0; count-- {
			if has(from) {
				v, ab := get(from)
				if ab != "" {
					return fail(ab)
				}
				if ab := w.setThrow(o, idxKey(to), v); ab != "" {
					return fail(ab)
				}
			} else if ab := w.deleteThrow(o, idxKey(to)); ab != "" {
				return fail(ab)
			}
			from += dir
			to += dir
		}
		return MethodResult{V: recv}
	case "splice":
		a0, p0 := arg(0)
		start, ok := relIndex(a0, p0, l, 0)
		if !ok {
			return fail("unmodelled")
		}
		var items []Val
		var dc float64
		switch {
		case len(args) == 0:
			dc = 0
		case len(args) == 1:
			dc = l - start
		default:
			n, ok := ToNumberPrim(args[1])
			if !ok {
				return fail("unmodelled")
			}
			if math.IsNaN(n) {
				n = 0
			}
			if !math.IsInf(n, 0) {
				n = math.Trunc(n)
			}
			dc = math.Min(math.Max(n, 0), l-start)
			items = args[2:]
		}
		ic := float64(len(items))
		if l+ic-dc > 9007199254740991 {
			return fail("TypeError")
		}
		removed := make([]Elem, int(dc))
		for k := 0.0; k < dc; k++ {
			if has(start + k) {
				v, ab := get(start + k)
				if ab != "" {
					return fail(ab)
				}
				removed[int(k)] = Elem{V: v}
			} else {
				removed[int(k)] = Elem{Hole: true}
			}
		}
		if ic < dc {
			for k := start; k < l-dc; k++ {
				if has(k + dc) {
					v, ab := get(k + dc)
					if ab != "" {
						return fail(ab)
					}
					if ab := w.setThrow(o, idxKey(k+ic), v); ab != "" {
						return fail(ab)
					}
				} else if ab := w.deleteThrow(o, idxKey(k+ic)); ab != "" {
					return fail(ab)
				}
			}
			for k := l; k > l-dc+ic; k-- {
				if ab := w.deleteThrow(o, idxKey(k-1)); ab != "" {
					return fail(ab)
				}
			}
		} else if ic > dc {
			for k := l - dc; k > start; k-- {
				if has(k + dc - 1) {
					v, ab := get(k + dc - 1)
					if ab != "" {
						return fail(ab)
					}
					if ab := w.setThrow(o, idxKey(k+ic-1), v); ab != "" {
						return fail(ab)
					}
				} else if ab := w.deleteThrow(o, idxKey(k+ic-1)); ab != "" {
					return fail(ab)
				}
			}
		}
		for j, it := range items {
			if ab := w.setThrow(o, idxKey(start+float64(j)), it); ab != "" {
				return fail(ab)
			}
		}
		if ab := w.setThrow(o, SKey("length"), Num(l-dc+ic)); ab != "" {
			return fail(ab)
		}
		return MethodResult{IsArr: true, Arr: removed}
	case "slice":
		a0, p0 := arg(0)
		a1, p1 := arg(1)
		k, ok0 := relIndex(a0, p0, l, 0)
		fin, ok1 := relIndex(a1, p1, l, l)
		if !ok0 || !ok1 {
			return fail("unmodelled")
		}
		var out []Elem
		for ; k < fin; k++ {
			if has(k) {
				v, ab := get(k)
				if ab != "" {
					return fail(ab)
				}
				out = append(out, Elem{V: v})
			} else {
				out = append(out, Elem{Hole: true})
			}
		}
		return MethodResult{IsArr: true, Arr: out}
	case "concat":
		var out []Elem
		appendObj := func(x *Obj) Abrupt {
			xl, ab := w.lengthOf(x)
			if ab != "" {
				return ab
			}
			if xl > maxIter {
				return "unmodelled"
			}
			for k := 0.0; k < xl; k++ {
				if w.HasProperty(x, idxKey(k)) {
					v, ab := w.Get(x, idxKey(k), ObjV(x.Tag))
					if ab != "" {
						return ab
					}
					out = append(out, Elem{V: v})
				} else {
					out = append(out, Elem{Hole: true})
				}
			}
			return ""
		}
		spreadable := func(v Val) (bool, *Obj) {
			if !v.IsObj() {
				return false, nil
			}
			x := w.obj(v.Obj)
			if x == nil || x.Opaque {
				return false, nil
			}
			return x.Kind == "array", x // no Symbol.isConcatSpreadable in generated cases
		}
		for _, item := range append([]Val{recv}, args...) {
			if sp, x := spreadable(item); sp {
				if ab := appendObj(x); ab != "" {
					return fail(ab)
				}
			} else {
				out = append(out, Elem{V: item})
			}
		}
		return MethodResult{IsArr: true, Arr: out}
	case "indexOf", "includes":
		target, _ := arg(0)
		a1, p1 := arg(1)
		if l == 0 {
			if name == "includes" {
				return MethodResult{V: Bool(false)}
			}
			return MethodResult{V: Num(-1)}
		}
		k, ok := relIndex(a1, p1, l, 0)
		if !ok {
			return fail("unmodelled")
		}
		for ; k < l; k++ {
			if name == "includes" {
				v, ab := get(k)
				if ab != "" {
					return fail(ab)
				}
				if SameValueZero(v, target) {
					return MethodResult{V: Bool(true)}
				}
			} else if has(k) {
				v, ab := get(k)
				if ab != "" {
					return fail(ab)
				}
				if StrictEq(v, target) {
					return MethodResult{V: Num(k)}
				}
			}
		}
		if name == "includes" {
			return MethodResult{V: Bool(false)}
		}
		return MethodResult{V: Num(-1)}
	case "lastIndexOf":
		target, _ := arg(0)
		if l == 0 {
			return MethodResult{V: Num(-1)}
		}
		n := l - 1
		if len(args) > 1 {
			f, ok := ToNumberPrim(args[1])
			if !ok {
				return fail("unmodelled")
			}
			if math.IsNaN(f) {
				f = 0
			}
			if !math.IsInf(f, 0) {
				f = math.Trunc(f)
			}
			n = f
		}
		var k float64
		if math.IsInf(n, -1) {
			return MethodResult{V: Num(-1)}
		}
		if n >= 0 {
			k = math.Min(n, l-1)
		} else {
			k = l + n
		}
		for ; k >= 0; k-- {
			if has(k) {
				v, ab := get(k)
				if ab != "" {
					return fail(ab)
				}
				if StrictEq(v, target) {
					return MethodResult{V: Num(k)}
				}
			}
		}
		return MethodResult{V: Num(-1)}
	case "join":
		sep := ","
		if a0, p0 := arg(0); p0 && a0.K != 'u' {
			s, ok := ToStringPrim(a0)
			if !ok {
				return fail("unmodelled")
			}
			sep = s
		}
		var parts []string
		for k := 0.0; k < l; k++ {
			v, ab := get(k)
			if ab != "" {
				return fail(ab)
			}
			if v.K == 'u' || v.K == 'n' {
				parts = append(parts, "")
				continue
			}
			s, ok := ToStringPrim(v)
			if !ok {
				return fail("unmodelled")
			}
			parts = append(parts, s)
		}
		return MethodResult{V: Str(strings.Join(parts, sep))}
	case "at":
		a0, p0 := arg(0)
		n := 0.0
		if p0 {
			f, ok := ToNumberPrim(a0)
			if !ok {
				return fail("unmodelled")
			}
			if !math.IsNaN(f) {
				n = f
				if !math.IsInf(f, 0) {
					n = math.Trunc(f)
				}
			}
		}
		k := n
		if n < 0 {
			k = l + n
		}
		if k < 0 || k >= l {
			return MethodResult{V: Undef}
		}
		v, ab := get(k)
		if ab != "" {
			return fail(ab)
		}
		return MethodResult{V: v}
	case "spread":
		// [...a]: array iterator reads length anew at every step; without mutation it is Get(i) for i<len
		if o.Kind != "array" {
			return fail("TypeError") // a plain array-like object is not iterable
		}
		var out []Elem
		for k := 0.0; k < l; k++ {
			v, ab := get(k)
			if ab != "" {
				return fail(ab)
			}
			out = append(out, Elem{V: v})
		}
		return MethodResult{IsArr: true, Arr: out}
	case "map", "filter", "forEach", "some", "every", "find", "findIndex", "findLast", "findLastIndex":
		a0, _ := arg(0)
		if a0.K != 's' {
			return fail("unmodelled")
		}
		cb := &cbState{name: a0.S}
		var out []Elem
		if name == "map" {
			out = make([]Elem, int(l))
			for i := range out {
				out[i].Hole = true
			}
		}
		switch name {
		case "find", "findIndex":
			for k := 0.0; k < l; k++ {
				v, ab := get(k)
				if ab != "" {
					return fail(ab)
				}
				r, ab := w.callCb(cb, o, v, k)
				if ab != "" {
					return fail(ab)
				}
				if truthy(r) {
					if name == "find" {
						return MethodResult{V: v}
					}
					return MethodResult{V: Num(k)}
				}
			}
			if name == "find" {
				return MethodResult{V: Undef}
			}
			return MethodResult{V: Num(-1)}
		case "findLast", "findLastIndex":
			for k := l - 1; k >= 0; k-- {
				v, ab := get(k)
				if ab != "" {
					return fail(ab)
				}
				r, ab := w.callCb(cb, o, v, k)
				if ab != "" {
					return fail(ab)
				}
				if truthy(r) {
					if name == "findLast" {
						return MethodResult{V: v}
					}
					return MethodResult{V: Num(k)}
				}
			}
			if name == "findLast" {
				return MethodResult{V: Undef}
			}
			return MethodResult{V: Num(-1)}
		}
		for k := 0.0; k < l; k++ {
			if !has(k) {
				continue
			}
			v, ab := get(k)
			if ab != "" {
				return fail(ab)
			}
			r, ab := w.callCb(cb, o, v, k)
			if ab != "" {
				return fail(ab)
			}
			switch name {
			case "map":
				out[int(k)] = Elem{V: r}
			case "filter":
				if truthy(r) {
					out = append(out, Elem{V: v})
				}
			case "some":
				if truthy(r) {
					return MethodResult{V: Bool(true)}
				}
			case "every":
				if !truthy(r) {
					return MethodResult{V: Bool(false)}
				}
			}
		}
		switch name {
		case "map", "filter":
			return MethodResult{IsArr: true, Arr: out}
		case "some":
			return MethodResult{V: Bool(false)}
		case "every":
			return MethodResult{V: Bool(true)}
		}
		return MethodResult{V: Undef}
	}
	return fail("unmodelled")
}

// SortStable is the reference for Array.prototype.sort on a list with holes:
// present non-undefined values sorted stably by less, then undefineds, then holes.
func SortStable(in []Elem, less func(a, b Val) bool) []Elem {
	var vals []Val
	undefs, holes := 0, 0
	for _, e := range in {
		switch {
		case e.Hole:
			holes++
		case e.V.K == 'u':
			undefs++
		default:
			vals = append(vals, e.V)
		}
	}
	sort.SliceStable(vals, func(i, j int) bool { return less(vals[i], vals[j]) })
	out := make([]Elem, 0, len(in))
	for _, v := range vals {
		out = append(out, Elem{V: v})
	}
	for i := 0; i < undefs; i++ {
		out = append(out, Elem{V: Undef})
	}
	for i := 0; i < holes; i++ {
		out = append(out, Elem{Hole: true})
	}
	return out
}

// RenderArr renders a result array like the JS side's ra().
func RenderArr(a []Elem) string {
	parts := make([]string, len(a))
	for i, e := range a {
		if e.Hole {
			parts[i] = "hole"
		} else {
			parts[i] = e.V.String()
		}
	}
	return "[" + strconv.Itoa(len(a)) + ":" + strings.Join(parts, ",") + "]"
}
