package esmodel

import (
	"encoding/json"
	"fmt"
	"math"
	"strconv"
	"strings"
)

// ParseVal parses the dv() rendering of a value.
func ParseVal(s string) (Val, error) {
	switch {
	case s == "u":
		return Undef, nil
	case s == "null":
		return Null, nil
	case strings.HasPrefix(s, "b:"):
		return Bool(s == "b:true"), nil
	case strings.HasPrefix(s, "d:"):
		t := s[2:]
		switch t {
		case "NaN":
			return Num(math.NaN()), nil
		case "-0":
			return Num(math.Copysign(0, -1)), nil
		case "Infinity":
			return Num(math.Inf(1)), nil
		case "-Infinity":
			return Num(math.Inf(-1)), nil
		}
		f, err := strconv.ParseFloat(t, 64)
		return Num(f), err
	case strings.HasPrefix(s, "s:"):
		var str string
		if err := json.Unmarshal([]byte(s[2:]), &str); err != nil {
			return Val{}, err
		}
		return Str(str), nil
	case strings.HasPrefix(s, "a:"):
		// an adversarial number: an object whose valueOf performs an operation on a subject and then returns N
		// ("a:<number>|<op json>"); only meaningful where the value is converted, never stored
		t := s[2:]
		i := strings.IndexByte(t, '|')
		if i < 0 {
			return Val{}, fmt.Errorf("bad adversary %q", s)
		}
		f, err := strconv.ParseFloat(t[:i], 64)
		return Val{K: 'a', N: f, S: t[i+1:]}, err
	case strings.HasPrefix(s, "y:"):
		n, err := strconv.Atoi(s[2:])
		return SymV(n), err
	case strings.HasPrefix(s, "o:"):
		n, err := strconv.Atoi(s[2:])
		return ObjV(n), err
	}
	return Val{}, fmt.Errorf("bad value %q", s)
}

func ParseKey(s string) (Key, error) {
	v, err := ParseVal(s)
	if err != nil {
		return Key{}, err
	}
	switch v.K {
	case 's':
		return SKey(v.S), nil
	case 'y':
		return YKey(v.Obj), nil
	}
	return Key{}, fmt.Errorf("bad key %q", s)
}

type rawProp struct {
	K   string `json:"k"`
	Acc bool   `json:"acc"`
	V   string `json:"v"`
	G   string `json:"g"`
	S   string `json:"s"`
	W   bool   `json:"w"`
	E   bool   `json:"e"`
	C   bool   `json:"c"`
}

type RawObj struct {
	Tag   int       `json:"tag"`
	Kind  string    `json:"kind"`
	Ext   bool      `json:"ext"`
	Proto int       `json:"proto"`
	Props []rawProp `json:"props"`
	Str   string    `json:"str"`
}

// Load adds an object described by the JS side's dumpJSON() to the world.
func (w *World) Load(b []byte) (*Obj, error) {
	var r RawObj
	if err := json.Unmarshal(b, &r); err != nil {
		return nil, err
	}
	o := &Obj{Tag: r.Tag, Kind: r.Kind, Ext: r.Ext, Proto: r.Proto}
	switch r.Kind {
	case "ordinary", "array", "string", "arguments":
	default:
		o.Kind = "ordinary"
	}
	if r.Kind == "string" {
		for _, c := range r.Str {
			o.Str = append(o.Str, uint16(c))
		}
	}
	for _, rp := range r.Props {
		k, err := ParseKey(rp.K)
		if err != nil {
			return nil, err
		}
		if r.Kind == "string" {
			if idx, ok := k.IntegerIndex(); ok && idx < uint64(len(o.Str)) {
				continue // exotic index properties are computed
			}
		}
		p := &Prop{Key: k, Acc: rp.Acc, W: rp.W, E: rp.E, C: rp.C}
		if rp.Acc {
			if p.Get, err = ParseVal(rp.G); err != nil {
				return nil, err
			}
			if p.Set, err = ParseVal(rp.S); err != nil {
				return nil, err
			}
		} else {
			if p.Value, err = ParseVal(rp.V); err != nil {
				return nil, err
			}
		}
		o.Props = append(o.Props, p)
	}
	w.Objs[o.Tag] = o
	return o, nil
}

// Opaque registers an object the model does not look into.
func (w *World) AddOpaque(tag int) {
	if w.Objs[tag] == nil {
		w.Objs[tag] = &Obj{Tag: tag, Kind: "ordinary", Opaque: true, Proto: -1, Ext: true}
	}
}

// Values travel as their dv() rendering in JSON (so that the JS side can decode them with pv()).
func (v Val) MarshalJSON() ([]byte, error) {
	if v.K == 0 {
		return json.Marshal("u")
	}
	return json.Marshal(v.String())
}

func (v *Val) UnmarshalJSON(b []byte) error {
	var s string
	if err := json.Unmarshal(b, &s); err != nil {
		return err
	}
	x, err := ParseVal(s)
	if err != nil {
		return err
	}
	*v = x
	return nil
}
