package gobridge

import (
	"fmt"
	"math"
	"math/big"
	"reflect"
	"strconv"
	"time"
	"unsafe"

	"pgregory.net/rapid"
)

// ValDesc is a serialisable description of a value of some TypeDesc.
type ValDesc struct {
	Nil   bool       `json:"nil,omitempty"`
	N     string     `json:"n,omitempty"` // numbers: decimal integer text, or float as hex bits "f:3ff0…"; bool "true"/"false"
	S     string     `json:"s,omitempty"`
	E     []*ValDesc `json:"e,omitempty"` // slice/array elements, struct fields (declaration order), map values
	K     []*ValDesc `json:"keys,omitempty"`
	D     *TypeDesc  `json:"d,omitempty"` // dynamic type of an interface{} value
	V     *ValDesc   `json:"v,omitempty"` // pointee / interface content
	Share int        `json:"share,omitempty"`
	// Share > 0 on a ptr/map value: id of a shared object; the first occurrence
	// (in construction order) defines it, later ones with the same id alias it.
}

// Builder constructs reflect values from descriptions. Two Builders fed the same
// descriptions produce isomorphic, disjoint heaps.
type Builder struct {
	shared map[int]reflect.Value
}

func NewBuilder() *Builder { return &Builder{shared: map[int]reflect.Value{}} }

func floatBits(f float64) string { return "f:" + strconv.FormatUint(math.Float64bits(f), 16) }

func ParseFloatN(n string) float64 {
	if len(n) > 2 && n[:2] == "f:" {
		b, err := strconv.ParseUint(n[2:], 16, 64)
		if err != nil {
			panic("gobridge: bad float " + n)
		}
		return math.Float64frombits(b)
	}
	f, err := strconv.ParseFloat(n, 64)
	if err != nil {
		panic("gobridge: bad float " + n)
	}
	return f
}

// Make builds an addressable value of the described type.
func (b *Builder) Make(td *TypeDesc, vd *ValDesc) reflect.Value {
	under, typ := Resolve(td)
	out := reflect.New(typ).Elem()
	b.fill(out, td, under, vd)
	return out
}

func setUnexported(dst reflect.Value, v reflect.Value) {
	reflect.NewAt(dst.Type(), unsafe.Pointer(dst.UnsafeAddr())).Elem().Set(v)
}

func (b *Builder) fill(dst reflect.Value, td, under *TypeDesc, vd *ValDesc) {
	if vd == nil {
		return
	}
	if td.K == "zoo" && under == nil {
		switch ZooByName(td.Zoo).Special {
		case "bigint":
			if vd.Nil {
				return
			}
			n, ok := new(big.Int).SetString(vd.N, 10)
			if !ok {
				panic("gobridge: bad bigint " + vd.N)
			}
			dst.Set(reflect.ValueOf(n))
		case "time":
			ns, _ := strconv.ParseInt(vd.N, 10, 64)
			tm := time.Unix(0, ns)
			if vd.S == "utc" {
				tm = tm.UTC()
			} else if vd.S != "" {
				tm = tm.In(time.FixedZone(vd.S, 3600*5+1800))
			}
			dst.Set(reflect.ValueOf(tm))
		}
		return
	}
	switch under.K {
	case "bool":
		dst.SetBool(vd.N == "true")
	case "int", "int8", "int16", "int32", "int64":
		i, err := strconv.ParseInt(vd.N, 10, 64)
		if err != nil {
			panic("gobridge: bad int " + vd.N)
		}
		dst.SetInt(i)
	case "uint", "uint8", "uint16", "uint32", "uint64":
		u, err := strconv.ParseUint(vd.N, 10, 64)
		if err != nil {
			panic("gobridge: bad uint " + vd.N)
		}
		dst.SetUint(u)
	case "float32", "float64":
		dst.SetFloat(ParseFloatN(vd.N))
	case "string":
		dst.SetString(vd.S)
	case "iface":
		if vd.Nil || vd.D == nil {
			return
		}
		v := b.Make(vd.D, vd.V)
		dst.Set(v)
	case "ptr":
		if vd.Nil {
			return
		}
		if vd.Share > 0 {
			if sv, ok := b.shared[vd.Share]; ok && sv.Type() == dst.Type() {
				dst.Set(sv)
				return
			}
		}
		eu, _ := Resolve(under.Elem)
		p := reflect.New(dst.Type().Elem())
		if vd.Share > 0 {
			b.shared[vd.Share] = p
		}
		b.fill(p.Elem(), under.Elem, eu, vd.V)
		dst.Set(p)
	case "slice":
		if vd.Nil {
			return
		}
		eu, _ := Resolve(under.Elem)
		s := reflect.MakeSlice(dst.Type(), len(vd.E), len(vd.E))
		for i, e := range vd.E {
			b.fill(s.Index(i), under.Elem, eu, e)
		}
		dst.Set(s)
	case "array":
		eu, _ := Resolve(under.Elem)
		for i, e := range vd.E {
			if i < dst.Len() {
				b.fill(dst.Index(i), under.Elem, eu, e)
			}
		}
	case "map":
		if vd.Nil {
			return
		}
		if vd.Share > 0 {
			if sv, ok := b.shared[vd.Share]; ok && sv.Type() == dst.Type() {
				dst.Set(sv)
				return
			}
		}
		m := reflect.MakeMap(dst.Type())
		if vd.Share > 0 {
			b.shared[vd.Share] = m
		}
		ku, kt := Resolve(under.Key)
		eu, et := Resolve(under.Elem)
		for i, k := range vd.K {
			kv := reflect.New(kt).Elem()
			b.fill(kv, under.Key, ku, k)
			ev := reflect.New(et).Elem()
			b.fill(ev, under.Elem, eu, vd.E[i])
			m.SetMapIndex(kv, ev)
		}
		dst.Set(m)
	case "struct":
		for i, f := range under.Fields {
			if i >= len(vd.E) {
				break
			}
			fu, _ := Resolve(f.T)
			fv := dst.Field(i)
			if f.Unexp {
				tmp := reflect.New(fv.Type()).Elem()
				b.fill(tmp, f.T, fu, vd.E[i])
				setUnexported(fv, tmp)
			} else {
				b.fill(fv, f.T, fu, vd.E[i])
			}
		}
	default:
		panic("gobridge: cannot fill " + under.K)
	}
}

// ValOpts restricts the random value generator.
type ValOpts struct {
	SafeInts   bool // |integers| <= 2^53
	PlainFloat bool // finite, no -0
	NoNilMap   bool
	NoShare    bool
	MaxLen     int // default 3
	DynOpts    *GenOpts
	// FloatKeyOK filters float map keys (e.g. those whose Go and JS renderings agree)
	FloatKeyOK func(f float64, bits int) bool
	// StringKeyOK filters string map keys
	StringKeyOK func(s string) bool
}

type valGen struct {
	t      *rapid.T
	o      ValOpts
	nshare int
	shares map[string][]int // type string -> share ids already defined
	budget int
}

// GenValue draws a random value description for td.
func GenValue(t *rapid.T, td *TypeDesc, o ValOpts) *ValDesc {
	if o.MaxLen == 0 {
		o.MaxLen = 3
	}
	g := &valGen{t: t, o: o, shares: map[string][]int{}, budget: 60}
	return g.gen(td, 5)
}

var intBounds = map[string][2]int64{
	"int": {math.MinInt64, math.MaxInt64}, "int64": {math.MinInt64, math.MaxInt64}, "int32": {math.MinInt32, math.MaxInt32},
	"int16": {math.MinInt16, math.MaxInt16}, "int8": {math.MinInt8, math.MaxInt8},
}
var uintBounds = map[string]uint64{"uint": math.MaxUint64, "uint64": math.MaxUint64, "uint32": math.MaxUint32, "uint16": math.MaxUint16, "uint8": math.MaxUint8}

var interestingInts = []int64{0, 1, -1, 2, 7, 42, 100, 127, 128, -128, -129, 255, 256, 32767, 32768, -32768, 65535, 65536,
	1<<31 - 1, 1 << 31, -(1 << 31), 1<<32 - 1, 1 << 32, 1<<32 + 1, 1 << 40, -(1 << 40), 1<<53 - 1, 1 << 53, -(1 << 53), 1<<53 + 1, 1 << 62, math.MaxInt64, math.MinInt64, math.MinInt64 + 1}
var interestingUints = []uint64{0, 1, 2, 200, 255, 256, 65535, 65536, 1<<32 - 1, 1 << 32, 1 << 53, 1<<53 + 1, 1<<63 - 1, 1 << 63, 1<<63 + 1, 1<<63 + 2048, math.MaxUint64, math.MaxUint64 - 2047}
var interestingFloats = []float64{0, 1, -1, 1.5, -2.25, 0.1, 255, 256, 65536, 1 << 31, 1 << 32, 1 << 53, 1e21, -1e21, 1e-7, 123456.75, 3.4028234663852886e38, 1.401298464324817e-45,
	math.Copysign(0, -1), math.Inf(1), math.Inf(-1), math.MaxFloat64, 2.2250738585072014e-308, 9.223372036854775808e18, 1.8446744073709552e19}
var interestingStrings = []string{"", "a", "b", "abc", "1", "01", "-1", "1.5", "length", "x y", "héllo", "日本", "😀", "abcdefghijklmnopqrstuvwxyz", "naïve-ünïcödé-string!", "true", "null", "toString", "constructor"}

func (g *valGen) genInt(kind string) int64 {
	bd := intBounds[kind]
	var v int64
	switch rapid.IntRange(0, 3).Draw(g.t, "intclass") {
	case 0:
		v = int64(rapid.IntRange(-5, 20).Draw(g.t, "smallint"))
	case 1:
		v = interestingInts[rapid.IntRange(0, len(interestingInts)-1).Draw(g.t, "iint")]
	case 2:
		v = rapid.Int64Range(bd[0], bd[1]).Draw(g.t, "anyint")
	default:
		if rapid.Bool().Draw(g.t, "hi") {
			v = bd[1] - int64(rapid.IntRange(0, 2).Draw(g.t, "d"))
		} else {
			v = bd[0] + int64(rapid.IntRange(0, 2).Draw(g.t, "d"))
		}
	}
	if v < bd[0] || v > bd[1] {
		v = v % 100
	}
	if g.o.SafeInts && (v > 1<<53 || v < -(1<<53)) {
		v = v % (1 << 53)
	}
	return v
}

func (g *valGen) genUint(kind string) uint64 {
	mx := uintBounds[kind]
	var v uint64
	switch rapid.IntRange(0, 3).Draw(g.t, "uintclass") {
	case 0:
		v = uint64(rapid.IntRange(0, 20).Draw(g.t, "smalluint"))
	case 1:
		v = interestingUints[rapid.IntRange(0, len(interestingUints)-1).Draw(g.t, "iuint")]
	case 2:
		v = rapid.Uint64Range(0, mx).Draw(g.t, "anyuint")
	default:
		v = mx - uint64(rapid.IntRange(0, 2).Draw(g.t, "d"))
	}
	if v > mx {
		v = v % 100
	}
	if g.o.SafeInts && v > 1<<53 {
		v = v % (1 << 53)
	}
	return v
}

func (g *valGen) genFloat(kind string) float64 {
	var f float64
	switch rapid.IntRange(0, 3).Draw(g.t, "floatclass") {
	case 0:
		f = float64(rapid.IntRange(-8, 40).Draw(g.t, "fsmall")) / 4
	case 1, 2:
		f = interestingFloats[rapid.IntRange(0, len(interestingFloats)-1).Draw(g.t, "ifloat")]
	default:
		f = math.Float64frombits(rapid.Uint64().Draw(g.t, "fbits"))
	}
	if math.IsNaN(f) {
		f = 2.5
	}
	if f != 0 && math.Abs(f) < 2.2250738585072014e-308 {
		// float64 subnormals: their Number::toString is another property's subject (and has a known defect there);
		// the bridge treats them like any other double
		f = 0.5
	}
	if kind == "float32" {
		f = float64(float32(f))
	}
	if g.o.PlainFloat && (math.IsInf(f, 0) || (f == 0 && math.Signbit(f))) {
		f = 0.5
	}
	return f
}

func (g *valGen) genString() string {
	if rapid.IntRange(0, 4).Draw(g.t, "strclass") == 0 {
		n := rapid.IntRange(0, 6).Draw(g.t, "strlen")
		rs := make([]rune, n)
		for i := range rs {
			rs[i] = []rune{'a', 'b', 'Z', '0', ' ', 'é', 'ß', '中', '😀', '"', '\\', '\n'}[rapid.IntRange(0, 11).Draw(g.t, "rune")]
		}
		return string(rs)
	}
	return interestingStrings[rapid.IntRange(0, len(interestingStrings)-1).Draw(g.t, "istr")]
}

func (g *valGen) gen(td *TypeDesc, depth int) *ValDesc {
	g.budget--
	under, _ := Resolve(td)
	if td.K == "zoo" && under == nil {
		switch ZooByName(td.Zoo).Special {
		case "bigint":
			if rapid.IntRange(0, 5).Draw(g.t, "bignil") == 0 {
				return &ValDesc{Nil: true}
			}
			n := big.NewInt(g.genInt("int64"))
			if rapid.Bool().Draw(g.t, "bigbig") {
				n.Mul(n, big.NewInt(g.genInt("int64")))
				n.Mul(n, big.NewInt(1<<62))
			}
			return &ValDesc{N: n.String()}
		case "time":
			ns := rapid.Int64Range(-1e18, 4e18).Draw(g.t, "unixnano")
			return &ValDesc{N: strconv.FormatInt(ns, 10), S: []string{"", "utc", "X5"}[rapid.IntRange(0, 2).Draw(g.t, "zone")]}
		}
		panic("gobridge: special " + td.Zoo)
	}
	switch under.K {
	case "bool":
		return &ValDesc{N: strconv.FormatBool(rapid.Bool().Draw(g.t, "bool"))}
	case "int", "int8", "int16", "int32", "int64":
		return &ValDesc{N: strconv.FormatInt(g.genInt(under.K), 10)}
	case "uint", "uint8", "uint16", "uint32", "uint64":
		return &ValDesc{N: strconv.FormatUint(g.genUint(under.K), 10)}
	case "float32", "float64":
		return &ValDesc{N: floatBits(g.genFloat(under.K))}
	case "string":
		return &ValDesc{S: g.genString()}
	case "iface":
		if depth <= 0 || g.budget <= 0 || rapid.IntRange(0, 5).Draw(g.t, "ifnil") == 0 {
			return &ValDesc{Nil: true}
		}
		var o GenOpts
		if g.o.DynOpts != nil {
			o = *g.o.DynOpts
		}
		if o.MaxDepth > depth-1 {
			o.MaxDepth = depth - 1
		}
		dt := GenType(g.t, o)
		return &ValDesc{D: dt, V: g.gen(dt, depth-1)}
	case "ptr":
		if depth <= 0 || g.budget <= 0 || rapid.IntRange(0, 5).Draw(g.t, "ptrnil") == 0 {
			return &ValDesc{Nil: true}
		}
		key := td.String()
		if !g.o.NoShare {
			if ids := g.shares[key]; len(ids) > 0 && rapid.IntRange(0, 2).Draw(g.t, "reuse") == 0 {
				return &ValDesc{Share: ids[rapid.IntRange(0, len(ids)-1).Draw(g.t, "which")]}
			}
		}
		vd := &ValDesc{}
		if !g.o.NoShare && rapid.IntRange(0, 1).Draw(g.t, "shareable") == 0 {
			g.nshare++
			vd.Share = g.nshare
		}
		vd.V = g.gen(under.Elem, depth-1)
		if vd.Share > 0 {
			// registered after the pointee so that a pointee never aliases its own parent (no cycles)
			g.shares[key] = append(g.shares[key], vd.Share)
		}
		return vd
	case "slice":
		if rapid.IntRange(0, 7).Draw(g.t, "slnil") == 0 {
			return &ValDesc{Nil: true}
		}
		n := 0
		if depth > 0 && g.budget > 0 {
			n = rapid.IntRange(0, g.o.MaxLen).Draw(g.t, "sllen")
		}
		vd := &ValDesc{E: []*ValDesc{}}
		for i := 0; i < n; i++ {
			vd.E = append(vd.E, g.gen(under.Elem, depth-1))
		}
		return vd
	case "array":
		vd := &ValDesc{}
		for i := 0; i < under.Len; i++ {
			vd.E = append(vd.E, g.gen(under.Elem, depth-1))
		}
		return vd
	case "map":
		if !g.o.NoNilMap && rapid.IntRange(0, 7).Draw(g.t, "mapnil") == 0 {
			return &ValDesc{Nil: true}
		}
		key := td.String()
		if !g.o.NoShare {
			if ids := g.shares[key]; len(ids) > 0 && rapid.IntRange(0, 2).Draw(g.t, "reusemap") == 0 {
				return &ValDesc{Share: ids[rapid.IntRange(0, len(ids)-1).Draw(g.t, "whichmap")]}
			}
		}
		vd := &ValDesc{E: []*ValDesc{}, K: []*ValDesc{}}
		if !g.o.NoShare && rapid.IntRange(0, 1).Draw(g.t, "shareablemap") == 0 {
			g.nshare++
			vd.Share = g.nshare
		}
		n := 0
		if depth > 0 && g.budget > 0 {
			n = rapid.IntRange(0, g.o.MaxLen).Draw(g.t, "maplen")
		}
		seen := map[string]bool{}
		ku, _ := Resolve(under.Key)
		for i := 0; i < n; i++ {
			k := g.gen(under.Key, 0)
			if ku.K == "float32" || ku.K == "float64" {
				f := ParseFloatN(k.N)
				bits := 64
				if ku.K == "float32" {
					bits = 32
				}
				if g.o.FloatKeyOK != nil && !g.o.FloatKeyOK(f, bits) {
					continue
				}
			}
			if ku.K == "string" && g.o.StringKeyOK != nil && !g.o.StringKeyOK(k.S) {
				continue
			}
			ks := k.N + "|" + k.S
			if seen[ks] {
				continue
			}
			seen[ks] = true
			vd.K = append(vd.K, k)
			vd.E = append(vd.E, g.gen(under.Elem, depth-1))
		}
		if vd.Share > 0 {
			g.shares[key] = append(g.shares[key], vd.Share)
		}
		return vd
	case "struct":
		vd := &ValDesc{E: []*ValDesc{}}
		for _, f := range under.Fields {
			vd.E = append(vd.E, g.gen(f.T, depth-1))
		}
		return vd
	}
	panic(fmt.Sprintf("gobridge: cannot generate %s", under.K))
}
