package gobridge

import (
	"encoding/json"
	"errors"
	"fmt"
	"math/big"
	"reflect"
	"strconv"
	"time"

	"github.com/dop251/goja"
)

// The zoo: named types for what reflect cannot construct (methods with value and
// pointer receivers, unexported fields, embedded pointers, named map/slice types
// with methods, json.Marshaler, JsonEncodable, Stringer/error, recursive types,
// func types).

type ZInt int

func (z ZInt) Double() int { return int(z) * 2 }
func (z *ZInt) Inc()       { *z++ }

type ZI64 int64
type ZU8 uint8
type ZF64 float64
type ZF32 float32
type ZBool bool
type ZStr string

func (z ZStr) Len() int { return len(z) }

type ZPoint struct{ X, Y int }

type ZEmbA struct {
	EA int    `json:"ea"`
	EB string `json:"eb"`
}

type ZEmbB struct {
	ZEmbA
	EC bool `json:"ec"`
}

type ZEmbC struct {
	Q  int8   `json:"q"`
	EC string `json:"zc"`
}

type ZMeth struct {
	N int `json:"n"`
	s string
}

func (z ZMeth) Get() int            { return z.N }
func (z *ZMeth) Put(n int)          { z.N = n }
func (z ZMeth) Secret() string      { return z.s }
func (z *ZMeth) SetSecret(s string) { z.s = s }

type ZUnexp struct {
	A int `json:"a"`
	b string
	c *int
	D []int `json:"d"`
}

func NewZUnexp(a int, b string, c *int, d []int) ZUnexp { return ZUnexp{A: a, b: b, c: c, D: d} }
func (z ZUnexp) Hidden() (string, *int)                 { return z.b, z.c }

type ZEmbPtr struct {
	*ZPoint
	Q int `json:"q"`
}

type ZMapM map[string]int

func (m ZMapM) Count() int { return len(m) }

type ZSliceM []int

func (s ZSliceM) Sum() int {
	n := 0
	for _, x := range s {
		n += x
	}
	return n
}

type ZJSON struct{ A int }

func (z ZJSON) MarshalJSON() ([]byte, error) { return json.Marshal(map[string]int{"custom": z.A}) }

type ZJsonEnc struct{ A int }

func (z ZJsonEnc) JsonEncodable() interface{} { return map[string]interface{}{"enc": z.A} }

type ZStringer struct{ A int }

func (z ZStringer) String() string { return "ZS(" + strconv.Itoa(z.A) + ")" }

type ZErr struct{ Msg string }

func (z *ZErr) Error() string { return "zerr:" + z.Msg }

type ZNode struct {
	V    int               `json:"v"`
	Next *ZNode            `json:"next"`
	Kids []*ZNode          `json:"kids"`
	M    map[string]*ZNode `json:"m"`
}

// ZGraph is the ExportTo target used to export one script object under several
// Go types within a single export operation.
type ZGraph struct {
	V int                    `json:"val"`
	P *ZGraph                `json:"ptr"`
	Q *ZGraph                `json:"q"`
	I interface{}            `json:"i"`
	M map[string]interface{} `json:"m"`
	T map[string]*ZGraph     `json:"t"`
	L []interface{}          `json:"l"`
	S []*ZGraph              `json:"s"`
}

// ZeroTime/big helpers
var (
	TypeBigInt = reflect.TypeOf((*big.Int)(nil))
	TypeTime   = reflect.TypeOf(time.Time{})
)

// Func zoo
type ZFn0 func()
type ZFnAdd func(int, int) int
type ZFnVar func(string, ...int) string
type ZFnErr func(int) (int, error)
type ZFnMulti func(int) (int, string)
type ZFnMultiErr func(int) (int, string, error)
type ZFnNative func(goja.FunctionCall) goja.Value
type ZFnCtor func(goja.ConstructorCall) *goja.Object

var ErrZoo = errors.New("zoo error")

// ZooEntry describes one named type. Under is the structure of the type in
// TypeDesc terms (nil for func types and specials).
type ZooEntry struct {
	Name       string
	Type       reflect.Type
	Under      *TypeDesc
	Func       bool
	Compound   bool     // struct / map / slice underlying kind
	Embeddable bool     // method-less struct usable as an embedded field of a reflect.StructOf type
	Methods    []string // exported method names of the pointer method set
	Special    string   // "bigint", "time"
	PlainJSON  bool     // JSON.stringify of a wrapper is the plain structural one
}

func sc(k string) *TypeDesc     { return &TypeDesc{K: k} }
func zz(n string) *TypeDesc     { return &TypeDesc{K: "zoo", Zoo: n} }
func ptr(e *TypeDesc) *TypeDesc { return &TypeDesc{K: "ptr", Elem: e} }
func sl(e *TypeDesc) *TypeDesc  { return &TypeDesc{K: "slice", Elem: e} }
func mp(k string, e *TypeDesc) *TypeDesc {
	return &TypeDesc{K: "map", Key: sc(k), Elem: e}
}
func st(fs ...FieldDesc) *TypeDesc { return &TypeDesc{K: "struct", Fields: fs} }
func fd(name, tag string, t *TypeDesc) FieldDesc {
	return FieldDesc{Name: name, Tag: tag, T: t}
}
func emb(name, tag string, t *TypeDesc) FieldDesc {
	return FieldDesc{Name: name, Tag: tag, T: t, Emb: true}
}
func unexp(name string, t *TypeDesc) FieldDesc {
	return FieldDesc{Name: name, T: t, Unexp: true}
}

var Zoo []ZooEntry

func init() {
	Zoo = []ZooEntry{
		{Name: "ZInt", Type: reflect.TypeOf(ZInt(0)), Under: sc("int"), Methods: []string{"Double", "Inc"}},
		{Name: "ZI64", Type: reflect.TypeOf(ZI64(0)), Under: sc("int64"), PlainJSON: true},
		{Name: "ZU8", Type: reflect.TypeOf(ZU8(0)), Under: sc("uint8"), PlainJSON: true},
		{Name: "ZF64", Type: reflect.TypeOf(ZF64(0)), Under: sc("float64"), PlainJSON: true},
		{Name: "ZF32", Type: reflect.TypeOf(ZF32(0)), Under: sc("float32"), PlainJSON: true},
		{Name: "ZBool", Type: reflect.TypeOf(ZBool(false)), Under: sc("bool"), PlainJSON: true},
		{Name: "ZStr", Type: reflect.TypeOf(ZStr("")), Under: sc("string"), Methods: []string{"Len"}},
		{Name: "ZPoint", Type: reflect.TypeOf(ZPoint{}), Compound: true, Embeddable: true, PlainJSON: true,
			Under: st(fd("X", "", sc("int")), fd("Y", "", sc("int")))},
		{Name: "ZEmbA", Type: reflect.TypeOf(ZEmbA{}), Compound: true, Embeddable: true, PlainJSON: true,
			Under: st(fd("EA", "ea", sc("int")), fd("EB", "eb", sc("string")))},
		{Name: "ZEmbB", Type: reflect.TypeOf(ZEmbB{}), Compound: true, Embeddable: true, PlainJSON: true,
			Under: st(emb("ZEmbA", "", zz("ZEmbA")), fd("EC", "ec", sc("bool")))},
		{Name: "ZEmbC", Type: reflect.TypeOf(ZEmbC{}), Compound: true, Embeddable: true, PlainJSON: true,
			Under: st(fd("Q", "q", sc("int8")), fd("EC", "zc", sc("string")))},
		{Name: "ZMeth", Type: reflect.TypeOf(ZMeth{}), Compound: true, Methods: []string{"Get", "Put", "Secret", "SetSecret"},
			Under: st(fd("N", "n", sc("int")), unexp("s", sc("string")))},
		{Name: "ZUnexp", Type: reflect.TypeOf(ZUnexp{}), Compound: true, Methods: []string{"Hidden"},
			Under: st(fd("A", "a", sc("int")), unexp("b", sc("string")), unexp("c", ptr(sc("int"))), fd("D", "d", sl(sc("int"))))},
		{Name: "ZEmbPtr", Type: reflect.TypeOf(ZEmbPtr{}), Compound: true, PlainJSON: true,
			Under: st(emb("ZPoint", "", ptr(zz("ZPoint"))), fd("Q", "q", sc("int")))},
		{Name: "ZMapM", Type: reflect.TypeOf(ZMapM(nil)), Compound: true, Methods: []string{"Count"}, Under: mp("string", sc("int"))},
		{Name: "ZSliceM", Type: reflect.TypeOf(ZSliceM(nil)), Compound: true, Methods: []string{"Sum"}, Under: sl(sc("int"))},
		{Name: "ZJSON", Type: reflect.TypeOf(ZJSON{}), Compound: true, Methods: []string{"MarshalJSON"}, Under: st(fd("A", "", sc("int")))},
		{Name: "ZJsonEnc", Type: reflect.TypeOf(ZJsonEnc{}), Compound: true, Methods: []string{"JsonEncodable"}, Under: st(fd("A", "", sc("int")))},
		{Name: "ZStringer", Type: reflect.TypeOf(ZStringer{}), Compound: true, Methods: []string{"String"}, Under: st(fd("A", "", sc("int")))},
		{Name: "ZErr", Type: reflect.TypeOf(ZErr{}), Compound: true, Methods: []string{"Error"}, Under: st(fd("Msg", "", sc("string")))},
		{Name: "ZNode", Type: reflect.TypeOf(ZNode{}), Compound: true, PlainJSON: true,
			Under: st(fd("V", "v", sc("int")), fd("Next", "next", ptr(zz("ZNode"))), fd("Kids", "kids", sl(ptr(zz("ZNode")))), fd("M", "m", mp("string", ptr(zz("ZNode")))))},
		{Name: "BigInt", Type: TypeBigInt, Special: "bigint"},
		{Name: "Time", Type: TypeTime, Special: "time", Compound: true},

		{Name: "ZFn0", Type: reflect.TypeOf(ZFn0(nil)), Func: true},
		{Name: "ZFnAdd", Type: reflect.TypeOf(ZFnAdd(nil)), Func: true},
		{Name: "ZFnVar", Type: reflect.TypeOf(ZFnVar(nil)), Func: true},
		{Name: "ZFnErr", Type: reflect.TypeOf(ZFnErr(nil)), Func: true},
		{Name: "ZFnMulti", Type: reflect.TypeOf(ZFnMulti(nil)), Func: true},
		{Name: "ZFnMultiErr", Type: reflect.TypeOf(ZFnMultiErr(nil)), Func: true},
		{Name: "ZFnNative", Type: reflect.TypeOf(ZFnNative(nil)), Func: true},
		{Name: "ZFnCtor", Type: reflect.TypeOf(ZFnCtor(nil)), Func: true},
	}
	for i := range Zoo {
		zooIdx[Zoo[i].Name] = &Zoo[i]
	}
	// self-check: Under must describe the real type
	for i := range Zoo {
		z := &Zoo[i]
		if z.Under == nil {
			continue
		}
		if err := checkUnder(z.Under, z.Type); err != nil {
			panic(fmt.Sprintf("gobridge: zoo %s: %v", z.Name, err))
		}
	}
}

var zooIdx = map[string]*ZooEntry{}

func ZooByName(n string) *ZooEntry { return zooIdx[n] }

func checkUnder(td *TypeDesc, t reflect.Type) error {
	switch td.K {
	case "zoo":
		if ZooByName(td.Zoo).Type != t {
			return fmt.Errorf("zoo %s != %v", td.Zoo, t)
		}
	case "struct":
		if t.Kind() != reflect.Struct || t.NumField() != len(td.Fields) {
			return fmt.Errorf("struct shape mismatch for %v", t)
		}
		for i, f := range td.Fields {
			sf := t.Field(i)
			if sf.Name != f.Name || sf.Anonymous != f.Emb || sf.Tag.Get("json") != f.Tag {
				return fmt.Errorf("field %d of %v: %s/%v/%q", i, t, sf.Name, sf.Anonymous, sf.Tag.Get("json"))
			}
			if err := checkUnder(f.T, sf.Type); err != nil {
				return err
			}
		}
	case "ptr", "slice":
		return checkUnder(td.Elem, t.Elem())
	case "map":
		if err := checkUnder(td.Key, t.Key()); err != nil {
			return err
		}
		return checkUnder(td.Elem, t.Elem())
	default:
		if scalarTypes[td.K].Kind() != t.Kind() {
			return fmt.Errorf("kind %s != %v", td.K, t)
		}
	}
	return nil
}

// Resolve returns the structural description and the reflect type of td; for a
// zoo type the structure is the zoo entry's Under (nil for specials).
func Resolve(td *TypeDesc) (*TypeDesc, reflect.Type) {
	if td.K == "zoo" {
		z := ZooByName(td.Zoo)
		if z == nil {
			panic("gobridge: unknown zoo type " + td.Zoo)
		}
		return z.Under, z.Type
	}
	return td, Build(td)
}
