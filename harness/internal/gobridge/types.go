// Package gobridge builds random Go *types* (through reflect plus a hand-written
// zoo of named types) and random *values* of those types from JSON-serialisable
// descriptions, so that a check about the Go<->JS value bridge can rebuild the
// very same heap shape twice (the real value and an independent shadow).
package gobridge

import (
	"fmt"
	"reflect"
	"strings"

	"pgregory.net/rapid"
)

// TypeDesc is a serialisable description of a Go type.
//
//	K: bool int int8 int16 int32 int64 uint uint8 uint16 uint32 uint64 float32 float64 string
//	   iface (interface{}) ptr slice array map struct zoo
type TypeDesc struct {
	K      string      `json:"k"`
	Elem   *TypeDesc   `json:"e,omitempty"`
	Key    *TypeDesc   `json:"key,omitempty"`
	Len    int         `json:"len,omitempty"`
	Fields []FieldDesc `json:"f,omitempty"`
	Zoo    string      `json:"z,omitempty"`
}

// FieldDesc describes one field of a reflect.StructOf type.
type FieldDesc struct {
	Name string    `json:"n"`             // Go name (exported); for embedded fields the type name
	Tag  string    `json:"tag,omitempty"` // complete json tag value, e.g. "a,omitempty", "-", "" (= no tag)
	Emb  bool      `json:"emb,omitempty"`
	T    *TypeDesc `json:"t"`
	// Unexp marks an unexported field (zoo types only; never in reflect.StructOf types).
	Unexp bool `json:"unexp,omitempty"`
}

var ScalarKinds = []string{"bool", "int", "int8", "int16", "int32", "int64", "uint", "uint8", "uint16", "uint32", "uint64", "float32", "float64", "string"}

var scalarTypes = map[string]reflect.Type{
	"bool": reflect.TypeOf(false), "int": reflect.TypeOf(int(0)), "int8": reflect.TypeOf(int8(0)), "int16": reflect.TypeOf(int16(0)),
	"int32": reflect.TypeOf(int32(0)), "int64": reflect.TypeOf(int64(0)), "uint": reflect.TypeOf(uint(0)), "uint8": reflect.TypeOf(uint8(0)),
	"uint16": reflect.TypeOf(uint16(0)), "uint32": reflect.TypeOf(uint32(0)), "uint64": reflect.TypeOf(uint64(0)),
	"float32": reflect.TypeOf(float32(0)), "float64": reflect.TypeOf(float64(0)), "string": reflect.TypeOf(""),
}

var ifaceType = reflect.TypeOf((*interface{})(nil)).Elem()

func IsScalarKind(k string) bool { _, ok := scalarTypes[k]; return ok }

func (td *TypeDesc) String() string {
	switch td.K {
	case "ptr":
		return "*" + td.Elem.String()
	case "slice":
		return "[]" + td.Elem.String()
	case "array":
		return fmt.Sprintf("[%d]%s", td.Len, td.Elem.String())
	case "map":
		return "map[" + td.Key.String() + "]" + td.Elem.String()
	case "iface":
		return "interface{}"
	case "zoo":
		return td.Zoo
	case "struct":
		var sb strings.Builder
		sb.WriteString("struct{")
		for i, f := range td.Fields {
			if i > 0 {
				sb.WriteString("; ")
			}
			if !f.Emb {
				sb.WriteString(f.Name + " ")
			}
			sb.WriteString(f.T.String())
			if f.Tag != "" {
				sb.WriteString(" `json:\"" + f.Tag + "\"`")
			}
		}
		sb.WriteString("}")
		return sb.String()
	}
	return td.K
}

// Build returns the reflect.Type described by td. It panics on a malformed
// description (descriptions come from GenType or from a replay file).
func Build(td *TypeDesc) reflect.Type {
	if t, ok := scalarTypes[td.K]; ok {
		return t
	}
	switch td.K {
	case "iface":
		return ifaceType
	case "ptr":
		return reflect.PointerTo(Build(td.Elem))
	case "slice":
		return reflect.SliceOf(Build(td.Elem))
	case "array":
		return reflect.ArrayOf(td.Len, Build(td.Elem))
	case "map":
		return reflect.MapOf(Build(td.Key), Build(td.Elem))
	case "zoo":
		z := ZooByName(td.Zoo)
		if z == nil {
			panic("gobridge: unknown zoo type " + td.Zoo)
		}
		return z.Type
	case "struct":
		fs := make([]reflect.StructField, len(td.Fields))
		for i, f := range td.Fields {
			ft := Build(f.T)
			sf := reflect.StructField{Name: f.Name, Type: ft, Anonymous: f.Emb}
			if f.Tag != "" {
				sf.Tag = reflect.StructTag(`json:"` + f.Tag + `"`)
			}
			fs[i] = sf
		}
		return reflect.StructOf(fs)
	}
	panic("gobridge: bad type kind " + td.K)
}

// Depth is the nesting depth of compound constructors in td.
func (td *TypeDesc) Depth() int {
	d := 0
	switch td.K {
	case "ptr", "slice", "array":
		d = 1 + td.Elem.Depth()
	case "map":
		d = 1 + td.Elem.Depth()
	case "struct":
		for _, f := range td.Fields {
			if x := 1 + f.T.Depth(); x > d {
				d = x
			}
		}
	case "zoo":
		if z := ZooByName(td.Zoo); z != nil && z.Compound {
			d = 1
		}
	}
	return d
}

// Has reports whether any node of the type tree satisfies pred.
func (td *TypeDesc) Has(pred func(*TypeDesc) bool) bool {
	if td == nil {
		return false
	}
	if pred(td) {
		return true
	}
	if td.Elem.Has(pred) || td.Key.Has(pred) {
		return true
	}
	for i := range td.Fields {
		if td.Fields[i].T.Has(pred) {
			return true
		}
	}
	return false
}

// GenOpts restricts the random type generator.
type GenOpts struct {
	MaxDepth  int
	Zoo       func(*ZooEntry) bool // nil: no zoo types
	NoIface   bool
	NoMap     bool
	NoPtr     bool
	NoArray   bool
	KeyKinds  []string // allowed map key kinds (default: string and all int/uint/float kinds)
	Scalars   []string // allowed scalar kinds (default: all)
	MaxFields int      // default 4
	NoTags    bool
	NoEmbed   bool
}

var fieldNames = []string{"A", "B", "C", "Ab", "X", "Y", "Val", "URL", "EA", "N"}
var altTags = []string{"p", "q", "r", "s", "t", "u", "w", "ea", "x", "n"}

var defaultKeyKinds = []string{"string", "string", "string", "int", "int8", "int16", "int32", "int64", "uint", "uint8", "uint16", "uint32", "uint64", "float32", "float64"}

func lowerFirst(s string) string { return strings.ToLower(s[:1]) + s[1:] }

// GenType draws a random type.
func GenType(t *rapid.T, o GenOpts) *TypeDesc {
	if o.MaxFields == 0 {
		o.MaxFields = 4
	}
	return genType(t, o, o.MaxDepth)
}

func pick(t *rapid.T, label string, xs []string) string {
	return xs[rapid.IntRange(0, len(xs)-1).Draw(t, label)]
}

func genScalar(t *rapid.T, o GenOpts) *TypeDesc {
	ks := o.Scalars
	if len(ks) == 0 {
		ks = ScalarKinds
	}
	return &TypeDesc{K: pick(t, "scalar", ks)}
}

func genType(t *rapid.T, o GenOpts, depth int) *TypeDesc {
	if depth <= 0 {
		if o.Zoo != nil && rapid.IntRange(0, 5).Draw(t, "leafzoo") == 0 {
			if z := genZoo(t, o, false); z != nil {
				return z
			}
		}
		if !o.NoIface && rapid.IntRange(0, 7).Draw(t, "leafiface") == 0 {
			return &TypeDesc{K: "iface"}
		}
		return genScalar(t, o)
	}
	for tries := 0; ; tries++ {
		switch rapid.IntRange(0, 11).Draw(t, "tkind") {
		case 0:
			return genScalar(t, o)
		case 1:
			if o.NoIface {
				continue
			}
			return &TypeDesc{K: "iface"}
		case 2, 3:
			if o.NoPtr {
				continue
			}
			e := genType(t, o, depth-1)
			if e.K == "iface" {
				// a pointer to an interface value has no documented rendering; not generated
				e = genScalar(t, o)
			}
			return &TypeDesc{K: "ptr", Elem: e}
		case 4, 5:
			return &TypeDesc{K: "slice", Elem: genType(t, o, depth-1)}
		case 6:
			if o.NoArray {
				continue
			}
			return &TypeDesc{K: "array", Len: rapid.IntRange(0, 3).Draw(t, "alen"), Elem: genType(t, o, depth-1)}
		case 7, 8:
			if o.NoMap {
				continue
			}
			kk := o.KeyKinds
			if len(kk) == 0 {
				kk = defaultKeyKinds
			}
			return &TypeDesc{K: "map", Key: &TypeDesc{K: pick(t, "keykind", kk)}, Elem: genType(t, o, depth-1)}
		case 9, 10:
			return genStruct(t, o, depth)
		default:
			if o.Zoo == nil {
				continue
			}
			if z := genZoo(t, o, true); z != nil {
				return z
			}
		}
	}
}

func genZoo(t *rapid.T, o GenOpts, compoundOK bool) *TypeDesc {
	var cands []string
	for i := range Zoo {
		z := &Zoo[i]
		if z.Func {
			continue
		}
		if !compoundOK && z.Compound {
			continue
		}
		if o.Zoo(z) {
			cands = append(cands, z.Name)
		}
	}
	if len(cands) == 0 {
		return nil
	}
	return &TypeDesc{K: "zoo", Zoo: pick(t, "zoo", cands)}
}

func genStruct(t *rapid.T, o GenOpts, depth int) *TypeDesc {
	n := rapid.IntRange(0, o.MaxFields).Draw(t, "nfields")
	td := &TypeDesc{K: "struct"}
	usedName := map[string]bool{}
	usedTag := map[string]bool{}
	// embedded zoo structs come first (reflect.StructOf is happiest that way)
	if !o.NoEmbed && o.Zoo != nil && rapid.IntRange(0, 2).Draw(t, "embed") == 0 {
		var cands []string
		for i := range Zoo {
			if Zoo[i].Embeddable && o.Zoo(&Zoo[i]) {
				cands = append(cands, Zoo[i].Name)
			}
		}
		if len(cands) > 0 {
			ne := rapid.IntRange(1, 2).Draw(t, "nembed")
			for i := 0; i < ne; i++ {
				zn := pick(t, "embzoo", cands)
				if usedName[zn] {
					continue
				}
				z := ZooByName(zn)
				// no two embedded types may promote the same name at the same depth (ambiguous selector in Go)
				clash := false
				for _, f := range td.Fields {
					if f.Emb && zooPromotedClash(ZooByName(f.Name), z) {
						clash = true
					}
				}
				if clash {
					continue
				}
				usedName[zn] = true
				fd := FieldDesc{Name: zn, Emb: true, T: &TypeDesc{K: "zoo", Zoo: zn}}
				if !o.NoTags && rapid.IntRange(0, 1).Draw(t, "embtag") == 0 {
					tag := "e" + strings.ToLower(zn)
					fd.Tag = tag
					usedTag[tag] = true
				}
				td.Fields = append(td.Fields, fd)
			}
		}
	}
	for i := 0; i < n; i++ {
		name := pick(t, "fname", fieldNames)
		if usedName[name] {
			continue
		}
		usedName[name] = true
		fd := FieldDesc{Name: name, T: genType(t, o, depth-1)}
		if !o.NoTags {
			switch rapid.IntRange(0, 7).Draw(t, "tagform") {
			case 0: // no tag
			case 1:
				fd.Tag = "-"
			case 2, 3:
				fd.Tag = lowerFirst(name)
			case 4:
				fd.Tag = lowerFirst(name) + ",omitempty"
			case 5, 6:
				fd.Tag = pick(t, "alttag", altTags)
			case 7:
				fd.Tag = ",omitempty"
			}
			tn := TagName(fd.Tag)
			if tn != "" && tn != "-" {
				if usedTag[tn] {
					fd.Tag = ""
				} else {
					usedTag[tn] = true
				}
			}
		}
		td.Fields = append(td.Fields, fd)
	}
	return td
}

// TagName is the name part of a json tag value.
func TagName(tag string) string {
	if i := strings.IndexByte(tag, ','); i >= 0 {
		return tag[:i]
	}
	return tag
}

func zooPromotedClash(a, b *ZooEntry) bool {
	if a == nil || b == nil {
		return false
	}
	na := map[string]bool{}
	collectNames(a.Type, na)
	nb := map[string]bool{}
	collectNames(b.Type, nb)
	for k := range na {
		if nb[k] {
			return true
		}
	}
	return false
}

func collectNames(t reflect.Type, out map[string]bool) {
	for t.Kind() == reflect.Ptr {
		t = t.Elem()
	}
	if t.Kind() != reflect.Struct {
		return
	}
	for i := 0; i < t.NumField(); i++ {
		f := t.Field(i)
		out[f.Name] = true
		if f.Anonymous {
			collectNames(f.Type, out)
		}
	}
}
