package jsgen

import (
	"strings"
	"unicode"

	"pgregory.net/rapid"
)

// Tokenize splits source text into coarse tokens (identifier/keyword, number,
// string, template chunk, punctuator, whitespace run). It is deliberately
// trivial: its only job is to give the mutator structure to work on.
func Tokenize(src string) []string {
	var toks []string
	rs := []rune(src)
	i := 0
	isIdent := func(r rune) bool {
		return r == '_' || r == '$' || r == '#' || unicode.IsLetter(r) || unicode.IsDigit(r)
	}
	for i < len(rs) {
		r := rs[i]
		j := i + 1
		switch {
		case unicode.IsSpace(r):
			for j < len(rs) && unicode.IsSpace(rs[j]) {
				j++
			}
		case isIdent(r):
			for j < len(rs) && (isIdent(rs[j]) || rs[j] == '.' && unicode.IsDigit(r)) {
				j++
			}
		case r == '"' || r == '\'':
			for j < len(rs) && rs[j] != r && rs[j] != '\n' {
				if rs[j] == '\\' {
					j++
				}
				j++
			}
			if j < len(rs) {
				j++
			}
			if j > len(rs) {
				j = len(rs)
			}
		case r == '`':
			for j < len(rs) && rs[j] != '`' && !(rs[j] == '$' && j+1 < len(rs) && rs[j+1] == '{') {
				if rs[j] == '\\' {
					j++
				}
				j++
			}
			if j < len(rs) {
				if rs[j] == '`' {
					j++
				} else {
					j += 2
				}
			}
			if j > len(rs) {
				j = len(rs)
			}
		default:
			// greedy multi-char punctuators
			for _, p := range []string{">>>=", "...", "===", "!==", "**=", "<<=", ">>=", ">>>", "&&=", "||=", "??=", "=>", "==", "!=", "<=", ">=", "&&", "||", "??", "?.", "++", "--", "+=", "-=", "*=", "/=", "%=", "&=", "|=", "^=", "<<", ">>", "**"} {
				if strings.HasPrefix(string(rs[i:min(i+len(p), len(rs))]), p) {
					j = i + len([]rune(p))
					break
				}
			}
		}
		toks = append(toks, string(rs[i:j]))
		i = j
	}
	return toks
}

// MutPool: tokens spliced in by the mutator. No large numeric literals (they
// could turn a bounded allocation into an unbounded one).
var MutPool = []string{
	"var", "let", "const", "function", "function*", "async", "await", "yield", "yield*", "class", "extends", "super", "static", "get", "set", "new", "new.target", "delete", "typeof", "void", "in", "of", "instanceof",
	"if", "else", "for", "while", "do", "break", "continue", "return", "throw", "try", "catch", "finally", "switch", "case", "default", "with", "debugger", "this", "null", "true", "false", "import", "export", "enum", "eval", "arguments", "undefined",
	"(", ")", "[", "]", "{", "}", ";", ",", ".", "?.", "...", "=>", "=", "==", "===", "+", "-", "*", "/", "%", "**", "++", "--", "!", "~", "?", ":", "&&", "||", "??", "&&=", "||=", "??=", "+=", "<", ">", "<<", ">>>", "&", "|", "^", "#", "#priv", "@", "\\",
	"0", "1", "-1", "0.5", "1e3", "0x", "0x1F", "0b", "0b12", "0o8", "08", "1_", "1__0", "1n", "0n", ".5", "5.", "1e", "1e+", "0.0.0",
	"\"", "'", "`", "${", "\"\\u", "\"\\u{", "\"\\u{110000}\"", "\"\\u{10FFFF}\"", "\\u{10FFFF}", "`\\u{10ffff}`", "\"\\ud800\"", "\"\\x\"", "'\\\n'", "`${", "`${`${`", "\\u0061", "\\u{61}", "a\\u0062c", "\\u{1D400}", "a\\u{1D7D8}b", "#\\u{1D400}", "\U0001D400", "\\u", "/", "/a/", "/a/gg", "/[/", "/(?<n>a)\\k<n>/", "/(?<n>a)(?<n>b)/", "/\\u{110000}/u", "/a/u", "/(?:/", "/*", "*/", "//", "<!--", "-->",
	"\u2028", "\u2029", "\ufeff", "\u00a0", "\n", "\r\n", "\x00", "é", "𝒳", "\U0001F600", "\xff", "\xc0\x80", "\xed\xa0\x80",
	"label:", "a", "x", "o", "f", "arr", "async function", "async () =>", "() =>", "static {", "get a(){}", "constructor", "__proto__", "__proto__:", "'use strict'", "\"use strict\";", "let [", "for await", "of of", "async of", "yield\n", "return\n", "a\n++\nb", "if(0)function f(){}", "new.target", "import.meta", "import(", "super(", "super.", "class{", "class extends", "=>{}", "...[", "...{",
}

// Mutate applies 1..3 token-level edits.
func Mutate(t *rapid.T, src string, other string) string {
	toks := Tokenize(src)
	if len(toks) == 0 {
		return src
	}
	n := rapid.IntRange(1, 3).Draw(t, "nmut")
	for k := 0; k < n && len(toks) > 0; k++ {
		i := rapid.IntRange(0, len(toks)-1).Draw(t, "mpos")
		switch rapid.IntRange(0, 7).Draw(t, "mop") {
		case 0: // delete
			toks = append(toks[:i:i], toks[i+1:]...)
		case 1: // duplicate
			toks = append(toks[:i+1:i+1], toks[i:]...)
		case 2: // swap adjacent
			if i+1 < len(toks) {
				toks[i], toks[i+1] = toks[i+1], toks[i]
			}
		case 3: // replace
			toks[i] = MutPool[rapid.IntRange(0, len(MutPool)-1).Draw(t, "mtok")]
		case 4: // insert
			tok := MutPool[rapid.IntRange(0, len(MutPool)-1).Draw(t, "mtok")]
			toks = append(toks[:i:i], append([]string{tok}, toks[i:]...)...)
		case 5: // truncate
			toks = toks[:i]
		case 6: // splice with another program
			ot := Tokenize(other)
			if len(ot) > 0 {
				j := rapid.IntRange(0, len(ot)-1).Draw(t, "spos")
				toks = append(toks[:i:i], ot[j:]...)
			}
		case 7: // replace by a token taken from elsewhere in the same program
			j := rapid.IntRange(0, len(toks)-1).Draw(t, "mfrom")
			toks[i] = toks[j]
		}
	}
	return strings.Join(toks, "")
}

// Nesting returns the maximum bracket nesting depth of a text (strings and
// comments are not understood; this over-approximates, which is what a bound wants).
func Nesting(src string) int {
	d, m := 0, 0
	for i := 0; i < len(src); i++ {
		switch src[i] {
		case '(', '[', '{':
			d++
			if d > m {
				m = d
			}
		case ')', ']', '}':
			if d > 0 {
				d--
			}
		}
	}
	return m
}

const punctBytes = " \t\n;,(){}[]=+-*/<>!&|?:.'\"`\\$#@~^%"

// GenBytes draws an arbitrary byte string biased towards JS-relevant fragments.
func GenBytes(t *rapid.T) []byte {
	n := rapid.IntRange(0, 40).Draw(t, "nfrag")
	var sb []byte
	for i := 0; i < n; i++ {
		switch rapid.IntRange(0, 3).Draw(t, "fk") {
		case 0:
			sb = append(sb, MutPool[rapid.IntRange(0, len(MutPool)-1).Draw(t, "btok")]...)
		case 1:
			sb = append(sb, rapid.SliceOfN(rapid.Byte(), 0, 6).Draw(t, "raw")...)
		case 2:
			sb = append(sb, punctBytes[rapid.IntRange(0, len(punctBytes)-1).Draw(t, "pch")])
		default:
			sb = append(sb, identPool[rapid.IntRange(0, len(identPool)-1).Draw(t, "bid")]...)
		}
		if rapid.IntRange(0, 2).Draw(t, "sp") == 0 {
			sb = append(sb, ' ')
		}
	}
	return sb
}

// GenDeep draws a deeply nested program of one nestable form (depth <= maxDepth).
func GenDeep(t *rapid.T, maxDepth int) string {
	d := rapid.IntRange(20, maxDepth).Draw(t, "deep")
	rep := strings.Repeat
	switch rapid.IntRange(0, 17).Draw(t, "deepform") {
	case 0:
		return rep("(", d) + "1" + rep(")", d)
	case 1:
		return rep("[", d) + rep("]", d)
	case 2:
		return rep("{", d) + rep("}", d)
	case 3:
		return "x=" + rep("{a:", d) + "1" + rep("}", d)
	case 4:
		return rep("(function(){return ", d/2) + "1" + rep("})()", d/2)
	case 5:
		return rep("(()=>", d) + "1" + rep(")", d)
	case 6:
		return "`" + rep("${`", d/2) + rep("`}", d/2) + "`"
	case 7:
		return rep("if(1)", d) + ";"
	case 8:
		return rep("for(;0;)", d) + ";"
	case 9:
		return rep("try{", d/2) + rep("}finally{}", d/2)
	case 10:
		return "var " + rep("[", d) + "v" + rep("]", d) + "=[];"
	case 11:
		return "var " + rep("{a:", d) + "v" + rep("}", d) + "={};"
	case 12:
		return rep("class A extends (", d/3) + "Object" + rep("){}", d/3)
	case 13:
		return "o" + rep("?.q", d*4)
	case 14:
		return "1" + rep("+1", d*20)
	case 15:
		return rep("L"+"x"+":", 1) + rep("{", d) + "break Lx;" + rep("}", d)
	case 16:
		return rep("a=", d*4) + "1"
	default:
		return rep("!", d*10) + "1" + rep("?1:", d) + "0"
	}
}
