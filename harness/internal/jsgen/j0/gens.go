package j0

// Random generator bodies × driver histories (the C09 shape): yields in
// try/catch/finally and loops, delegation to generators and to instrumented
// iterators with or without return/throw, driven by next/throw/return.

import (
	"fmt"

	"pgregory.net/rapid"

	. "verifh/internal/refjs"
)

const genPrelude = `
function mk(name, vals, hasReturn, hasThrow, retDone) {
  var i = 0;
  var it = { next(v) { log(name + '.next ' + describe(v)); return i < vals.length ? {value: vals[i++], done: false} : {value: name + ' end', done: true}; } };
  if (hasReturn) it.return = function(v) { log(name + '.return ' + describe(v)); deepTry(17); return {value: name + ' ret', done: retDone}; };
  if (hasThrow) it.throw = function(v) { log(name + '.throw ' + describe(v)); return {value: name + ' thr', done: retDone}; };
  return { [Symbol.iterator]() { return it; } };
}
function f2(a, b) { return [a, b]; }
function* innerc() { try { yield 'c1'; yield 'c2'; } catch (e) { log('innerc caught ' + describe(e)); return 'innerc ret'; } return 'innerc end'; }
function mkf(name, k) { var i = 0; return { [Symbol.iterator]() { return this; }, next(v) { i++; log(name + '.next#' + i + ' ' + describe(v)); if (i === k) throw name + ' fails'; return {value: name + i, done: i > 3}; } }; }
function mkt(name) { var i = 0; return { [Symbol.iterator]() { return this; }, next() { i++; return {value: i, done: i > 2}; }, return(v) { log(name + '.return'); throw name + ' return throws'; } }; }
function pc(v) { var p = Promise.resolve(v); p.constructor = Object; return p; }
function at(d, f) { return d > 0 ? at(d - 1, f) : f(); }
function deepTry(d) { try { if (d > 0) deepTry(d - 1); } finally { } } // grows the VM's try stack while an iterator is being closed
function reenter(m) { try { log(it[m]('re')); log('reentered'); } catch (e) { log('reenter ' + m + ' ' + e.constructor.name); } }
function* inner() { try { var a = yield 'i1'; log('inner got ' + describe(a)); yield 'i2'; } finally { log('inner fin'); } return 'inner result'; }
`

type g2 struct {
	t      *rapid.T
	n      int
	budget int
	loops  int
	async  bool
}

func (g *g2) draw(n int, l string) int { return rapid.IntRange(0, n-1).Draw(g.t, l) }

func (g *g2) yieldExpr() *Node {
	g.n++
	v := Str(fmt.Sprintf("y%d", g.n))
	if g.async {
		switch g.draw(5, "aw") {
		case 4:
			return Await(Call(Id("pc"), v))
		case 0:
			return Await(v)
		case 1:
			return Await(Call(Dot(Id("Promise"), "resolve"), v))
		case 2:
			return Await(Call(Dot(Id("Promise"), "reject"), v))
		}
		return Await(Obj(Method(Key("then"), false, Func("method", "", Params(Id("r")), ExprStmt(Call(Id("r"), v))))))
	}
	switch g.draw(12, "yk") {
	case 8:
		// a delegate that catches what is thrown in and completes: throw() then resumes this generator normally
		return YieldStar(Call(Id("innerc")))
	case 9:
		// the value of the yield* is discarded while other operands are pending
		return Seq(YieldStar(Call(Id([]string{"innerc", "inner"}[g.draw(2, "dk")]))), v)
	case 10:
		// a delegate whose next() fails at its k-th call
		return YieldStar(Call(Id("mkf"), v, Num(float64(1+g.draw(3, "fk")))))
	case 11:
		return Yield(v)
	case 0:
		return YieldStar(Call(Id("inner")))
	case 1:
		return YieldStar(Call(Id("mk"), v, Arr(Num(1), Num(2)), Bool(g.draw(2, "hr") == 0), Bool(g.draw(2, "ht") == 0), Bool(g.draw(2, "rd") == 0)))
	case 2:
		return YieldStar(Arr(v))
	}
	return Yield(v)
}

func (g *g2) stmts(n int) []*Node {
	var out []*Node
	for i := 0; i < n; i++ {
		out = append(out, g.stmt())
	}
	return out
}

func (g *g2) stmt() *Node {
	g.budget--
	if g.budget <= 0 {
		return Log(g.yieldExpr())
	}
	switch g.draw(27, "s") {
	case 26:
		if g.async {
			return Log(g.yieldExpr())
		}
		// two open iterators whose return() both throw: closing them (return()/throw() from the driver, break) must
		// call both, innermost first, and the first exception wins
		g.loops++
		body := Block(g.stmts(1)...)
		g.loops--
		g.n++
		o, i := fmt.Sprintf("o%d", g.n), fmt.Sprintf("i%d", g.n)
		return ForOf(VarDecl("const", Declarator(Id(o+"v"), nil)), Call(Id("mkt"), Str(o)), Block(ForOf(VarDecl("const", Declarator(Id(i+"v"), nil)), Call(Id("mkt"), Str(i)), body)))
	case 24, 25:
		// a function-level variable that lives in the scope object (captured by fvf): reading and writing it
		// after a resumption / inside a finally entered by return() needs the right scope chain to be current
		if g.draw(2, "fvw") == 0 {
			return ExprStmt(Set(Id("fv"), Bin("+", Id("fv"), Str("."))))
		}
		return Log(Arr(Id("fv"), Call(Id("fvf"))))
	case 23:
		// a call of the running generator's own next/throw/return from inside its body
		if !g.async {
			return ExprStmt(Call(Id("reenter"), Str([]string{"next", "throw", "return"}[g.draw(3, "re")])))
		}
		return Log(g.yieldExpr())
	case 13:
		// yields as both operands of a binary operator: the left value sits on the operand stack across the second suspension
		return ExprStmt(Set(Id("acc"), Bin("+", Id("acc"), Bin("+", g.yieldExpr(), g.yieldExpr()))))
	case 14:
		return Log(Call(Id("f2"), g.yieldExpr(), g.yieldExpr()))
	case 15:
		return Log(Obj(PropK(g.yieldExpr(), true, g.yieldExpr())))
	case 16:
		g.n++
		x := fmt.Sprintf("x%d", g.n)
		return Block2(VarDecl("var", Declarator(ObjPat(PatShorthand(x, g.yieldExpr())), Obj())), Log(Id(x)))
	case 17:
		g.n++
		i := fmt.Sprintf("h%d", g.n)
		g.loops++
		body := Block(g.stmts(1)...)
		g.loops--
		return For(VarDecl("var", Declarator(Id(i), g.yieldExpr()), Declarator(Id(i+"n"), Num(0))), Bin("<", Id(i+"n"), Num(1)), Update("++", false, Id(i+"n")), body)
	case 18:
		return Switch(g.yieldExpr(), Case(g.yieldExpr(), Log(Str("case1"))), DefaultCase(Log(Str("default"))))
	case 19:
		// a closure over a local that is read after the resumption
		g.n++
		loc := fmt.Sprintf("loc%d", g.n)
		return Block2(
			VarDecl("let", Declarator(Id(loc), Str(loc))),
			VarDecl("const", Declarator(Id(loc+"f"), ArrowExpr(Params(), Id(loc)))),
			Log(g.yieldExpr()),
			Log(Call(Id(loc+"f"))),
			ExprStmt(Set(Id(loc), Str("changed"))),
			Log(Arr(Call(Id(loc+"f")), g.yieldExpr())))
	case 20:
		if !g.async {
			return Log(Arr(Spread(YieldStar(Call(Id("inner"))))))
		}
		return Log(g.yieldExpr())
	case 21:
		return Log(Cond(g.yieldExpr(), g.yieldExpr(), g.yieldExpr()))
	case 22:
		return Log(Call(Dot(Arr(g.yieldExpr(), g.yieldExpr()), "join"), Str("-")))
	case 0, 1, 2:
		return Log(g.yieldExpr())
	case 3:
		return ExprStmt(Set(Id("acc"), Bin("+", Id("acc"), Tmpl([]string{"[", "]"}, g.yieldExpr()))))
	case 4, 5:
		inner := g.stmts(1 + g.draw(2, "tl"))
		if g.draw(2, "tscope") == 0 {
			// the try body suspends inside a block that owns a scope object of its own; a finally block entered by
			// return()/throw() from there must run in the scope of the try statement (it reads fv through it)
			g.n++
			loc := fmt.Sprintf("tl%d", g.n)
			inner = []*Node{Block(append(append([]*Node{
				VarDecl("let", Declarator(Id(loc), Str(loc))),
				VarDecl("const", Declarator(Id(loc+"f"), ArrowExpr(Params(), Id(loc))))},
				inner...), Log(Call(Id(loc+"f"))))...)}
		}
		blk := Block(inner...)
		fin := Block(append([]*Node{Log(Arr(Str("finally"), Id("fv"), Call(Id("fvf"))))}, g.stmts(g.draw(2, "fl"))...)...)
		return Try(blk, nil, nil, fin)
	case 6:
		return Try(Block(g.stmts(1+g.draw(2, "tl2"))...), Id("e"), Block(append([]*Node{Log(Id("e"))}, g.stmts(g.draw(2, "cl"))...)...), nil)
	case 7:
		g.n++
		i := fmt.Sprintf("i%d", g.n)
		g.loops++
		body := Block(g.stmts(1 + g.draw(2, "ll"))...)
		g.loops--
		return For(VarDecl("let", Declarator(Id(i), Num(0))), Bin("<", Id(i), Num(2)), Update("++", false, Id(i)), body)
	case 8:
		g.loops++
		body := Block(g.stmts(1)...)
		g.loops--
		return ForOf(VarDecl("const", Declarator(Id("v"), nil)), Call(Id("mk"), Str("loop"), Arr(Num(1), Num(2)), Bool(true), Bool(false), Bool(true)), body)
	case 9:
		return Return(g.yieldExpr())
	case 10:
		return Throw(New(Id("RangeError"), Str("body")))
	case 11:
		return If(g.yieldExpr(), Block(g.stmts(1)...), Block(g.stmts(1)...))
	case 12:
		if g.loops > 0 {
			if g.draw(2, "bc") == 0 {
				return Break("")
			}
			return Continue("")
		}
	}
	return Log(Arr(g.yieldExpr(), g.yieldExpr()))
}

var placements = []string{"global", "function", "eval"}

// GenGeneratorCase draws a generator (or async function) body and a driver
// history; the result is a whole program plus the options to run it with.
func GenGeneratorCase(t *rapid.T) (*Node, Options, bool) {
	g := &g2{t: t, budget: rapid.IntRange(3, 25).Draw(t, "budget"), async: rapid.IntRange(0, 3).Draw(t, "async") == 0}
	body := g.stmts(1 + g.draw(4, "n"))
	body = append([]*Node{VarDecl("var", Declarator(Id("fv"), Str("fv"))), VarDecl("const", Declarator(Id("fvf"), ArrowExpr(Params(), Id("fv"))))}, body...)
	prog := JS(genPrelude)
	prog.Kids = append(prog.Kids, Var("acc", Str("")))
	nonPlainNext := false
	if g.async {
		prog.Kids = append(prog.Kids,
			FuncDecl("async", "af", Params(Id("p")), body...),
			ExprStmt(Call(Dot(Call(Id("at"), Num(float64([]int{0, 1, 3}[g.draw(3, "aat")])), Func("function", "", Params(), Return(Call(Id("af"), Num(1))))), "then"), ArrowExpr(Params(Id("v")), Call(Id("log"), Arr(Str("resolved"), Id("v"), Id("acc")))), ArrowExpr(Params(Id("e")), Call(Id("log"), Arr(Str("rejected"), Id("e"), Id("acc")))))),
			ExprStmt(Call(Dot(Call(Dot(Call(Dot(Call(Dot(Call(Dot(Id("Promise"), "resolve")), "then"), ArrowExpr(Params(), Call(Id("log"), Str("tick1")))), "then"), ArrowExpr(Params(), Call(Id("log"), Str("tick2")))), "then"), ArrowExpr(Params(), Call(Id("log"), Str("tick3")))), "then"), ArrowExpr(Params(), Call(Id("log"), Str("tick4"))))),
			Log(Str("sync end")))
	} else {
		prog.Kids = append(prog.Kids, FuncDecl("generator", "gf", Params(Id("p")), body...), Var("it", Call(Id("gf"), Num(1))))
		for i, n := 0, 1+g.draw(6, "hist"); i < n; i++ {
			m := []string{"next", "next", "next", "throw", "return"}[g.draw(5, "m")]
			if m != "next" {
				nonPlainNext = true
			}
			arg := Str(fmt.Sprintf("%s%d", m[:1], i))
			var call *Node = Call(Dot(Id("it"), m), arg)
			// each call of the history is issued from a call depth of its own: the saved try frames and
			// stack positions of the suspended body are relative to the depth of the call that resumed it last
			if d := []int{0, 0, 0, 1, 2, 3, 7}[g.draw(7, "at")]; d > 0 {
				call = Call(Id("at"), Num(float64(d)), Func("function", "", Params(), Return(call)))
			}
			prog.Kids = append(prog.Kids, Try(Block(Log(call)), Id("e"), Block(Log(Str("threw")), Log(Id("e"))), nil))
		}
		prog.Kids = append(prog.Kids, Log(Id("acc")))
	}
	opt := Options{Strict: rapid.Bool().Draw(t, "strict"), Placement: placements[rapid.IntRange(0, 2).Draw(t, "pl")], MaxSteps: 50000}
	flattenKids(prog)
	return prog, opt, nonPlainNext || g.async
}
