package j0

// Convenience: helper programs are written as JavaScript text and
// converted to the refjs AST with goja's parser. The oracle itself never sees
// source text: refjs interprets the converted AST, goja runs Print(AST).

import (
	"fmt"

	"github.com/dop251/goja/ast"
	"github.com/dop251/goja/parser"
	"github.com/dop251/goja/token"

	. "verifh/internal/refjs"
)

// JS parses src and converts it to a program node.
func JS(src string) *Node {
	prg, err := parser.ParseFile(nil, "", src, 0)
	if err != nil {
		panic(fmt.Sprintf("corpus program does not parse: %v\n%s", err, src))
	}
	return Program(cvStmts(prg.Body, true)...)
}

func cvStmts(list []ast.Statement, prologue bool) []*Node {
	var out []*Node
	for _, s := range list {
		if prologue {
			if es, ok := s.(*ast.ExpressionStatement); ok {
				if sl, ok := es.Expression.(*ast.StringLiteral); ok {
					out = append(out, Directive(string(sl.Value)))
					continue
				}
			}
			prologue = false
		}
		out = append(out, cvStmt(s))
	}
	return out
}

func cvBlock(b *ast.BlockStatement) *Node {
	if b == nil {
		return nil
	}
	return Block(cvStmts(b.List, false)...)
}

func cvBindings(kind string, list []*ast.Binding) *Node {
	var ds []*Node
	for _, b := range list {
		ds = append(ds, Declarator(cvTarget(b.Target), cvExprOpt(b.Initializer)))
	}
	return VarDecl(kind, ds...)
}

func cvStmt(s ast.Statement) *Node {
	switch x := s.(type) {
	case *ast.BlockStatement:
		return cvBlock(x)
	case *ast.EmptyStatement:
		return Empty()
	case *ast.ExpressionStatement:
		return ExprStmt(cvExpr(x.Expression))
	case *ast.VariableStatement:
		return cvBindings("var", x.List)
	case *ast.LexicalDeclaration:
		return cvBindings(x.Token.String(), x.List)
	case *ast.FunctionDeclaration:
		f := cvFunc(x.Function)
		f.K = "funcdecl"
		return f
	case *ast.ClassDeclaration:
		c := cvClass(x.Class)
		c.K = "classdecl"
		return c
	case *ast.IfStatement:
		var alt *Node
		if x.Alternate != nil {
			alt = cvStmt(x.Alternate)
		}
		return If(cvExpr(x.Test), cvStmt(x.Consequent), alt)
	case *ast.ForStatement:
		var init *Node
		switch i := x.Initializer.(type) {
		case nil:
		case *ast.ForLoopInitializerExpression:
			init = cvExpr(i.Expression)
		case *ast.ForLoopInitializerVarDeclList:
			init = cvBindings("var", i.List)
		case *ast.ForLoopInitializerLexicalDecl:
			init = cvBindings(i.LexicalDeclaration.Token.String(), i.LexicalDeclaration.List)
		default:
			panic(fmt.Sprintf("for initializer %T", i))
		}
		return For(init, cvExprOpt(x.Test), cvExprOpt(x.Update), cvStmt(x.Body))
	case *ast.ForInStatement:
		return ForIn(cvForInto(x.Into), cvExpr(x.Source), cvStmt(x.Body))
	case *ast.ForOfStatement:
		return ForOf(cvForInto(x.Into), cvExpr(x.Source), cvStmt(x.Body))
	case *ast.WhileStatement:
		return While(cvExpr(x.Test), cvStmt(x.Body))
	case *ast.DoWhileStatement:
		return DoWhile(cvStmt(x.Body), cvExpr(x.Test))
	case *ast.BranchStatement:
		label := ""
		if x.Label != nil {
			label = string(x.Label.Name)
		}
		if x.Token == token.BREAK {
			return Break(label)
		}
		return Continue(label)
	case *ast.ReturnStatement:
		return Return(cvExprOpt(x.Argument))
	case *ast.ThrowStatement:
		return Throw(cvExpr(x.Argument))
	case *ast.TryStatement:
		var param, handler *Node
		if x.Catch != nil {
			if x.Catch.Parameter != nil {
				param = cvTarget(x.Catch.Parameter)
			}
			handler = cvBlock(x.Catch.Body)
		}
		return Try(cvBlock(x.Body), param, handler, cvBlock(x.Finally))
	case *ast.SwitchStatement:
		var cases []*Node
		for _, c := range x.Body {
			cases = append(cases, Case(cvExprOpt(c.Test), cvStmts(c.Consequent, false)...))
		}
		return Switch(cvExpr(x.Discriminant), cases...)
	case *ast.LabelledStatement:
		return Labeled(string(x.Label.Name), cvStmt(x.Statement))
	case *ast.WithStatement:
		return With(cvExpr(x.Object), cvStmt(x.Body))
	}
	panic(fmt.Sprintf("statement %T not convertible", s))
}

func cvForInto(i ast.ForInto) *Node {
	switch x := i.(type) {
	case *ast.ForIntoVar:
		return VarDecl("var", Declarator(cvTarget(x.Binding.Target), cvExprOpt(x.Binding.Initializer)))
	case *ast.ForDeclaration:
		kind := "let"
		if x.IsConst {
			kind = "const"
		}
		return VarDecl(kind, Declarator(cvTarget(x.Target), nil))
	case *ast.ForIntoExpression:
		return cvTarget(x.Expression)
	}
	panic(fmt.Sprintf("for-into %T", i))
}

func cvExprOpt(e ast.Expression) *Node {
	if e == nil {
		return nil
	}
	return cvExpr(e)
}

func cvExprs(list []ast.Expression) []*Node {
	var out []*Node
	for _, e := range list {
		if e == nil {
			out = append(out, nil)
			continue
		}
		out = append(out, cvExpr(e))
	}
	return out
}

// cvTarget converts binding / assignment targets and patterns.
func cvTarget(e ast.Expression) *Node {
	switch x := e.(type) {
	case nil:
		return nil
	case *ast.ArrayPattern:
		var elems []*Node
		for _, el := range x.Elements {
			elems = append(elems, cvElement(el))
		}
		if x.Rest != nil {
			elems = append(elems, Rest(cvTarget(x.Rest)))
		}
		return ArrPat(elems...)
	case *ast.ObjectPattern:
		var props []*Node
		for _, p := range x.Properties {
			switch pp := p.(type) {
			case *ast.PropertyShort:
				props = append(props, PatShorthand(string(pp.Name.Name), cvExprOpt(pp.Initializer)))
			case *ast.PropertyKeyed:
				props = append(props, PatPropK(cvKey(pp.Key, pp.Computed), pp.Computed, cvElement(pp.Value)))
			default:
				panic(fmt.Sprintf("pattern property %T", p))
			}
		}
		if x.Rest != nil {
			props = append(props, Rest(cvTarget(x.Rest)))
		}
		return ObjPat(props...)
	}
	return cvExpr(e)
}

func cvElement(e ast.Expression) *Node {
	switch x := e.(type) {
	case nil:
		return nil
	case *ast.AssignExpression:
		if x.Operator == token.ASSIGN {
			return Default(cvTarget(x.Left), cvExpr(x.Right))
		}
	case *ast.Binding:
		if x.Initializer != nil {
			return Default(cvTarget(x.Target), cvExpr(x.Initializer))
		}
		return cvTarget(x.Target)
	}
	return cvTarget(e)
}

func cvKey(k ast.Expression, computed bool) *Node {
	if computed {
		return cvExpr(k)
	}
	switch x := k.(type) {
	case *ast.StringLiteral:
		return Str(string(x.Value))
	case *ast.NumberLiteral:
		return cvExpr(x)
	case *ast.Identifier:
		return Str(string(x.Name))
	}
	panic(fmt.Sprintf("property key %T", k))
}

func cvParams(pl *ast.ParameterList) *Node {
	var ps []*Node
	for _, b := range pl.List {
		t := cvTarget(b.Target)
		if b.Initializer != nil {
			t = Default(t, cvExpr(b.Initializer))
		}
		ps = append(ps, t)
	}
	if pl.Rest != nil {
		ps = append(ps, Rest(cvTarget(pl.Rest)))
	}
	return Params(ps...)
}

func cvFunc(f *ast.FunctionLiteral) *Node {
	flavour := "function"
	switch {
	case f.Async && f.Generator:
		panic("async generators are outside J0")
	case f.Async:
		flavour = "async"
	case f.Generator:
		flavour = "generator"
	}
	name := ""
	if f.Name != nil {
		name = string(f.Name.Name)
	}
	return Func(flavour, name, cvParams(f.ParameterList), cvStmts(f.Body.List, true)...)
}

func cvMethodFunc(kind ast.PropertyKind, f *ast.FunctionLiteral) *Node {
	n := cvFunc(f)
	n.S = ""
	switch kind {
	case ast.PropertyKindGet:
		n.A = "get"
	case ast.PropertyKindSet:
		n.A = "set"
	default:
		switch n.A {
		case "generator":
			n.A = "genmethod"
		case "async":
			n.A = "asyncmethod"
		default:
			n.A = "method"
		}
	}
	return n
}

func cvClass(c *ast.ClassLiteral) *Node {
	name := ""
	if c.Name != nil {
		name = string(c.Name.Name)
	}
	var members []*Node
	for _, el := range c.Body {
		switch m := el.(type) {
		case *ast.MethodDefinition:
			key := cvKey(m.Key, m.Computed)
			fn := cvMethodFunc(m.Kind, m.Body)
			switch m.Kind {
			case ast.PropertyKindGet:
				mm := ClassGetter(m.Static, key, m.Computed)
				mm.Kids[1] = fn
				members = append(members, mm)
			case ast.PropertyKindSet:
				mm := ClassSetter(m.Static, key, m.Computed, Id("v"))
				mm.Kids[1] = fn
				members = append(members, mm)
			default:
				members = append(members, ClassMethod(m.Static, key, m.Computed, fn))
			}
		case *ast.FieldDefinition:
			members = append(members, ClassField(m.Static, cvKey(m.Key, m.Computed), m.Computed, cvExprOpt(m.Initializer)))
		default:
			panic(fmt.Sprintf("class element %T is outside J0", el))
		}
	}
	return Class(name, cvExprOpt(c.SuperClass), members...)
}

func cvExpr(e ast.Expression) *Node {
	switch x := e.(type) {
	case *ast.NumberLiteral:
		switch v := x.Value.(type) {
		case int64:
			return Num(float64(v))
		case float64:
			return Num(v)
		}
		panic(fmt.Sprintf("number literal %T", x.Value))
	case *ast.StringLiteral:
		return Str(string(x.Value))
	case *ast.BooleanLiteral:
		return Bool(x.Value)
	case *ast.NullLiteral:
		return Null()
	case *ast.Identifier:
		return Id(string(x.Name))
	case *ast.ThisExpression:
		return This()
	case *ast.TemplateLiteral:
		if x.Tag != nil {
			panic("tagged templates are outside J0")
		}
		var qs []string
		for _, el := range x.Elements {
			qs = append(qs, string(el.Parsed))
		}
		return Tmpl(qs, cvExprs(x.Expressions)...)
	case *ast.ArrayLiteral:
		return Arr(cvExprs(x.Value)...)
	case *ast.SpreadElement:
		return Spread(cvExpr(x.Expression))
	case *ast.ObjectLiteral:
		var props []*Node
		for _, p := range x.Value {
			switch pp := p.(type) {
			case *ast.PropertyShort:
				if pp.Initializer != nil {
					panic("shorthand with initialiser outside a pattern")
				}
				props = append(props, Shorthand(string(pp.Name.Name)))
			case *ast.SpreadElement:
				props = append(props, SpreadProp(cvExpr(pp.Expression)))
			case *ast.PropertyKeyed:
				key := cvKey(pp.Key, pp.Computed)
				switch pp.Kind {
				case ast.PropertyKindValue:
					props = append(props, PropK(key, pp.Computed, cvExpr(pp.Value)))
				case ast.PropertyKindMethod:
					props = append(props, Method(key, pp.Computed, cvMethodFunc(pp.Kind, pp.Value.(*ast.FunctionLiteral))))
				case ast.PropertyKindGet:
					g := Getter(key, pp.Computed)
					g.Kids[1] = cvMethodFunc(pp.Kind, pp.Value.(*ast.FunctionLiteral))
					props = append(props, g)
				case ast.PropertyKindSet:
					st := Setter(key, pp.Computed, Id("v"))
					st.Kids[1] = cvMethodFunc(pp.Kind, pp.Value.(*ast.FunctionLiteral))
					props = append(props, st)
				}
			default:
				panic(fmt.Sprintf("object property %T", p))
			}
		}
		return Obj(props...)
	case *ast.FunctionLiteral:
		return cvFunc(x)
	case *ast.ArrowFunctionLiteral:
		ps := cvParams(x.ParameterList)
		var n *Node
		switch b := x.Body.(type) {
		case *ast.BlockStatement:
			n = Arrow(ps, cvStmts(b.List, true)...)
		case *ast.ExpressionBody:
			n = ArrowExpr(ps, cvExpr(b.Expression))
		}
		if x.Async {
			n.A = "asyncarrow"
		}
		return n
	case *ast.ClassLiteral:
		return cvClass(x)
	case *ast.OptionalChain:
		return Paren(cvExpr(x.Expression))
	case *ast.Optional:
		n := cvExpr(x.Expression)
		n.B = true
		return n
	case *ast.DotExpression:
		if _, ok := x.Left.(*ast.SuperExpression); ok {
			return SuperDot(string(x.Identifier.Name))
		}
		return Dot(cvExpr(x.Left), string(x.Identifier.Name))
	case *ast.BracketExpression:
		if _, ok := x.Left.(*ast.SuperExpression); ok {
			return SuperIdx(cvExpr(x.Member))
		}
		return Idx(cvExpr(x.Left), cvExpr(x.Member))
	case *ast.CallExpression:
		if _, ok := x.Callee.(*ast.SuperExpression); ok {
			return SuperCall(cvExprs(x.ArgumentList)...)
		}
		if id, ok := x.Callee.(*ast.Identifier); ok && id.Name == "eval" {
			if len(x.ArgumentList) == 1 {
				if sl, ok := x.ArgumentList[0].(*ast.StringLiteral); ok {
					return EvalProgram(JS(string(sl.Value)))
				}
			}
			panic("eval must be called with one string literal")
		}
		return Call(cvExpr(x.Callee), cvExprs(x.ArgumentList)...)
	case *ast.NewExpression:
		return New(cvExpr(x.Callee), cvExprs(x.ArgumentList)...)
	case *ast.UnaryExpression:
		switch x.Operator {
		case token.INCREMENT:
			return Update("++", !x.Postfix, cvExpr(x.Operand))
		case token.DECREMENT:
			return Update("--", !x.Postfix, cvExpr(x.Operand))
		}
		return Unary(x.Operator.String(), cvExpr(x.Operand))
	case *ast.BinaryExpression:
		op := x.Operator.String()
		switch x.Operator {
		case token.LOGICAL_AND, token.LOGICAL_OR, token.COALESCE:
			return Logical(op, cvExpr(x.Left), cvExpr(x.Right))
		}
		return Bin(op, cvExpr(x.Left), cvExpr(x.Right))
	case *ast.ConditionalExpression:
		return Cond(cvExpr(x.Test), cvExpr(x.Consequent), cvExpr(x.Alternate))
	case *ast.AssignExpression:
		op := "="
		if x.Operator != token.ASSIGN {
			op = x.Operator.String() + "="
		}
		return Assign(op, cvTarget(x.Left), cvExpr(x.Right))
	case *ast.SequenceExpression:
		return Seq(cvExprs(x.Sequence)...)
	case *ast.YieldExpression:
		if x.Delegate {
			return YieldStar(cvExpr(x.Argument))
		}
		return Yield(cvExprOpt(x.Argument))
	case *ast.AwaitExpression:
		return Await(cvExpr(x.Argument))
	case *ast.MetaProperty:
		return NewTarget()
	case *ast.ArrayPattern, *ast.ObjectPattern:
		return cvTarget(x)
	}
	panic(fmt.Sprintf("expression %T not convertible", e))
}
