package j0

// A simple random J0 program generator (rapid) used to shake out disagreements
// between refjs and goja. It is deliberately small; the real generators live in
// jsgen. Programs terminate by construction (bounded loops, no recursion) and
// avoid the constructs listed in knownGojaDefect so that a failure is news.

import (
	"fmt"

	"pgregory.net/rapid"

	. "verifh/internal/refjs"
)

// Avoid lists generator restrictions that exist only because goja has a defect
// recorded as a *known* finding there (key = the finding). A check sets an entry
// to false once the defect is fixed; every time a restriction changes what is
// generated it is counted in AvoidHits (reported as "excluded by construction").
var Avoid = map[string]bool{
	"logical-assign-prim":      true, // prim.x ||= v does not throw in strict code
	"seq-logical-first":        true, // (0 && x, 1) constant folding
	"unresolvable-callee-args": true, // undecl(f()) evaluates the arguments before throwing
	"pattern-prim-target":      true, // [prim[0]] = [1] does not throw in strict code
	"arrow-arguments":          true, // arguments used only inside a nested arrow
	"eval-rest-default":        true, // rest/default parameter + direct eval
	"eval-surplus-args":        true, // surplus arguments leak into locals of a function with a direct eval
	"lexical-after-branch":     true, // let after break/continue: "Compiler bug"
	"const-dead-branch":        true, // continue in a constant-false branch inside for (let .. of ..)
	"nested-labels-continue":   true, // x: y: for(..){continue x} rejected
	"finally-throws":           true, // exception thrown by finally caught by the sibling catch
	"key-side-effects":         true, // ToPropertyKey evaluated twice / before the base check
}

// AvoidHits counts how often each restriction altered a generated program.
var AvoidHits = map[string]int{}

func avoid(name string) bool {
	if Avoid[name] {
		AvoidHits[name]++
		return true
	}
	return false
}

type gvar struct {
	name       string
	assignable bool // var / let / parameter (not const, function, class, loop counter)
	callable   bool // function declaration: may be called
	class      bool
}

type gscope struct {
	vars []gvar
}

type pgen struct {
	t         *rapid.T
	scopes    []*gscope
	n         int // fresh name counter
	budget    int // remaining node budget
	strict    bool
	inFunc    bool
	inGen     bool
	inAsync   bool
	inArrow   bool // no `arguments`
	inEval    bool
	inMethod  bool
	loops     int
	labels    []string
	hasMkIter bool
	fscope    int // index of the innermost function (or script) scope
	evals     int // number of eval nodes generated so far
}

func (g *pgen) draw(n int, label string) int { return rapid.IntRange(0, n-1).Draw(g.t, label) }
func (g *pgen) coin(label string) bool       { return rapid.Bool().Draw(g.t, label) }
func (g *pgen) chance(pct int, label string) bool {
	return rapid.IntRange(0, 99).Draw(g.t, label) < pct
}

func (g *pgen) fresh(prefix string) string {
	g.n++
	return fmt.Sprintf("%s%d", prefix, g.n)
}

func (g *pgen) push()                   { g.scopes = append(g.scopes, &gscope{}) }
func (g *pgen) pop()                    { g.scopes = g.scopes[:len(g.scopes)-1] }
func (g *pgen) declare(v gvar)          { s := g.scopes[len(g.scopes)-1]; s.vars = append(s.vars, v) }
func (g *pgen) declareAt(i int, v gvar) { g.scopes[i].vars = append(g.scopes[i].vars, v) }

func (g *pgen) visible(pred func(gvar) bool) []gvar {
	var out []gvar
	for _, s := range g.scopes {
		for _, v := range s.vars {
			if pred(v) {
				out = append(out, v)
			}
		}
	}
	return out
}

func (g *pgen) pick(list []gvar, label string) gvar { return list[g.draw(len(list), label)] }

// ---- expressions ----

func (g *pgen) literal() *Node {
	switch g.draw(9, "lit") {
	case 0:
		return Num(float64(g.draw(5, "int")))
	case 1:
		return Num(float64(g.draw(7, "half"))/2 - 1)
	case 2:
		return Str([]string{"", "a", "b", "1", "length", "x y"}[g.draw(6, "str")])
	case 3:
		return Bool(g.coin("bool"))
	case 4:
		return Null()
	case 5:
		return Undef()
	case 6:
		return Arr()
	case 7:
		return Obj()
	}
	return Num(float64(g.draw(3, "int2")))
}

func (g *pgen) ident() *Node {
	vs := g.visible(func(v gvar) bool { return true })
	if len(vs) == 0 || g.chance(3, "undeclared") {
		return Id("undecl")
	}
	return Id(g.pick(vs, "var").name)
}

var binOps = []string{"+", "-", "*", "/", "%", "**", "&", "|", "^", "<<", ">>", ">>>", "<", ">", "<=", ">=", "==", "!=", "===", "!==", "instanceof", "in"}
var asgOps = []string{"=", "=", "=", "+=", "-=", "*=", "|=", "&&=", "||=", "??=", ">>>=", "**="}
var propNames = []string{"a", "b", "length", "x"}

func (g *pgen) target() *Node {
	vs := g.visible(func(v gvar) bool { return v.assignable })
	switch {
	case len(vs) > 0 && g.chance(60, "tgt id"):
		return Id(g.pick(vs, "tgt").name)
	case g.coin("tgt dot"):
		return Dot(g.simpleObj(), propNames[g.draw(len(propNames), "prop")])
	}
	return Idx(g.simpleObj(), g.keyExpr())
}

// simpleObj is an expression that is usually an object.
func (g *pgen) simpleObj() *Node {
	vs := g.visible(func(v gvar) bool { return !v.callable })
	if len(vs) > 0 && g.chance(70, "obj var") {
		return Id(g.pick(vs, "objv").name)
	}
	if g.coin("obj arr") {
		return Arr(g.literal(), g.literal())
	}
	return Obj(Prop("a", g.literal()), Prop("b", g.literal()))
}

// keyExpr is a primitive-valued key (object keys with side effects trip known goja defects).
func (g *pgen) keyExpr() *Node {
	if !Avoid["key-side-effects"] && g.chance(25, "key any") {
		return g.expr()
	}
	switch g.draw(4, "key") {
	case 0:
		return Num(float64(g.draw(3, "kidx")))
	case 1:
		return Str(propNames[g.draw(len(propNames), "kprop")])
	case 2:
		return Bin("+", Str("a"), Str(""))
	}
	return Num(1)
}

func (g *pgen) exprs(n int) []*Node {
	out := make([]*Node, n)
	for i := range out {
		out[i] = g.expr()
	}
	return out
}

func (g *pgen) expr() *Node {
	g.budget--
	if g.budget <= 0 {
		if g.coin("leaf id") {
			return g.ident()
		}
		return g.literal()
	}
	switch g.draw(34, "expr") {
	case 0, 1, 2:
		return g.literal()
	case 3, 4, 5:
		return g.ident()
	case 6, 7, 8:
		return Bin(binOps[g.draw(len(binOps), "binop")], g.expr(), g.expr())
	case 9:
		return Logical([]string{"&&", "||", "??"}[g.draw(3, "logop")], g.expr(), g.expr())
	case 10:
		return Cond(g.expr(), g.expr(), g.expr())
	case 11, 12:
		op := asgOps[g.draw(len(asgOps), "asgop")]
		if (op == "&&=" || op == "||=" || op == "??=") && avoid("logical-assign-prim") {
			// known goja defect: `prim.x ||= v` does not throw in strict code
			return Assign(op, g.patTarget(), g.expr())
		}
		return Assign(op, g.target(), g.expr())
	case 13:
		return Update([]string{"++", "--"}[g.draw(2, "upd")], g.coin("prefix"), g.target())
	case 14:
		op := []string{"+", "-", "!", "~", "typeof", "void"}[g.draw(6, "unop")]
		return Unary(op, g.expr())
	case 15:
		var elems []*Node
		for i, n := 0, g.draw(4, "arrlen"); i < n; i++ {
			switch {
			case g.chance(10, "hole"):
				elems = append(elems, nil)
			case g.chance(10, "spread"):
				elems = append(elems, Spread(Arr(g.exprs(g.draw(3, "spn"))...)))
			default:
				elems = append(elems, g.expr())
			}
		}
		return Arr(elems...)
	case 16:
		var props []*Node
		for i, n := 0, g.draw(4, "objlen"); i < n; i++ {
			name := propNames[g.draw(len(propNames), "pname")]
			switch g.draw(6, "pkind") {
			case 0:
				props = append(props, PropK(g.keyExpr(), true, g.expr()))
			case 1:
				props = append(props, Getter(Key(name), false, Return(g.expr())))
			case 2:
				props = append(props, Method(Key(name), false, g.function("method", 1)))
			case 3:
				props = append(props, SpreadProp(g.simpleObj()))
			default:
				props = append(props, Prop(name, g.expr()))
			}
		}
		return Obj(props...)
	case 17, 18:
		if g.coin("dot") {
			n := Dot(g.expr(), propNames[g.draw(len(propNames), "dprop")])
			n.B = g.chance(15, "optdot")
			return n
		}
		return Idx(g.expr(), g.keyExpr())
	case 19, 20:
		fs := g.visible(func(v gvar) bool { return v.callable })
		if len(fs) > 0 {
			return Call(Id(g.pick(fs, "callee").name), g.exprs(g.draw(3, "nargs"))...)
		}
		return Call(g.function("arrow", 1), g.exprs(g.draw(2, "iife args"))...)
	case 21:
		m := []string{"map", "filter", "forEach", "reduce"}[g.draw(4, "arrm")]
		cb := g.function("arrow", 2)
		return Call(Dot(Arr(g.exprs(1+g.draw(3, "recv len"))...), m), cb)
	case 22:
		m := []string{"push", "pop", "join", "slice", "concat", "indexOf"}[g.draw(6, "arrm2")]
		return Call(Dot(g.simpleObj(), m), g.exprs(g.draw(2, "m2 args"))...)
	case 23:
		return Tmpl([]string{"<", "|", ">"}, g.expr(), g.expr())
	case 24:
		// never start a sequence with a logical expression (known goja folding defect)
		first := g.expr()
		for u := first; u != nil && Avoid["seq-logical-first"]; u = u.Kids[0] {
			if u.K == "logical" {
				AvoidHits["seq-logical-first"]++
				first = g.literal()
				break
			}
			if u.K != "paren" {
				break
			}
		}
		return Seq(first, g.expr())
	case 25:
		return g.function([]string{"arrow", "function"}[g.draw(2, "fk")], g.draw(3, "fparams"))
	case 26:
		if g.inFunc && !g.inArrow && !g.inEval {
			if g.coin("args len") {
				return Dot(Id("arguments"), "length")
			}
			return Idx(Id("arguments"), Num(float64(g.draw(2, "argi"))))
		}
		return This()
	case 27:
		cs := g.visible(func(v gvar) bool { return v.class })
		if len(cs) > 0 {
			return New(Id(g.pick(cs, "cls").name), g.exprs(g.draw(2, "new args"))...)
		}
		return g.literal()
	case 28:
		if g.inGen {
			if g.chance(20, "ystar") {
				return YieldStar(Arr(g.exprs(g.draw(3, "ys"))...))
			}
			return Yield(g.expr())
		}
		if g.inAsync {
			return Await(g.expr())
		}
		return g.literal()
	case 29:
		if !g.inEval && g.chance(50, "eval") {
			return g.evalExpr()
		}
		return g.literal()
	case 30:
		// the callee must resolve (known goja defect: arguments are evaluated before
		// the ReferenceError for an unresolvable callee)
		callee := g.ident()
		if callee.S == "undecl" && avoid("unresolvable-callee-args") {
			callee = g.literal()
		}
		return OptCall(callee, g.exprs(g.draw(2, "oc args"))...)
	case 31:
		return Unary("delete", g.targetMember())
	case 32:
		pat := ArrPat(g.patElem(), g.patElem())
		return Assign("=", pat, Arr(g.exprs(g.draw(3, "da"))...))
	}
	return Paren(g.expr())
}

func (g *pgen) targetMember() *Node {
	if g.coin("del dot") {
		return Dot(g.simpleObj(), propNames[g.draw(len(propNames), "delprop")])
	}
	return Idx(g.simpleObj(), g.keyExpr())
}

// patTarget avoids member targets whose base may be a primitive (known goja
// defect: no TypeError in strict code for [prim[0]] = ...).
func (g *pgen) patTarget() *Node {
	if !Avoid["pattern-prim-target"] && g.chance(30, "ptgt any") {
		return g.target()
	}
	vs := g.visible(func(v gvar) bool { return v.assignable })
	if len(vs) > 0 && g.chance(70, "ptgt id") {
		return Id(g.pick(vs, "ptgt").name)
	}
	return Dot(Obj(Prop("a", g.literal())), propNames[g.draw(len(propNames), "pprop")])
}

func (g *pgen) patElem() *Node {
	t := g.patTarget()
	if g.chance(30, "pat default") {
		return Default(t, g.expr())
	}
	return t
}

func (g *pgen) evalExpr() *Node {
	saved := *g
	g.inEval = true
	g.inGen, g.inAsync = false, false
	g.labels, g.loops = nil, 0
	g.push()
	var body []*Node
	for i, n := 0, 1+g.draw(3, "evlen"); i < n; i++ {
		body = append(body, g.stmt())
	}
	g.pop()
	n, budget, has, evals := g.n, g.budget, g.hasMkIter, g.evals
	*g = saved
	g.n, g.budget, g.hasMkIter, g.evals = n, budget, has, evals+1
	return Eval(body...)
}

// function builds a function expression of the given flavour with nparams parameters.
func (g *pgen) function(flavour string, nparams int) *Node {
	saved := *g
	g.push()
	g.fscope = len(g.scopes) - 1
	g.inFunc = true
	g.inGen = flavour == "generator"
	g.inAsync = flavour == "async" || flavour == "asyncarrow"
	g.inEval = false
	if (flavour == "arrow" || flavour == "asyncarrow") && (g.inArrow || avoid("arrow-arguments")) {
		g.inArrow = true // `arguments` inside arrows trips a known goja defect
	} else {
		g.inArrow = false
	}
	g.labels, g.loops = nil, 0
	var ps []*Node
	for i := 0; i < nparams; i++ {
		name := g.fresh("p")
		g.declare(gvar{name: name, assignable: true})
		switch {
		case i == nparams-1 && g.chance(15, "rest"):
			ps = append(ps, Rest(Id(name)))
		case g.chance(20, "pdefault"):
			ps = append(ps, Default(Id(name), g.literal()))
		default:
			ps = append(ps, Id(name))
		}
	}
	var body []*Node
	for i, n := 0, g.draw(3, "fbody"); i < n; i++ {
		body = append(body, g.stmt())
	}
	body = append(body, Return(g.expr()))
	g.pop()
	n, budget, has, evals := g.n, g.budget, g.hasMkIter, g.evals
	*g = saved
	g.n, g.budget, g.hasMkIter, g.evals = n, budget, has, evals
	if evals != saved.evals {
		// known goja defect: rest parameter + direct eval in a nested function panics
		// and so does a parameter default + direct eval in a strict function
		for i, p := range ps {
			if (p.K == "rest" || p.K == "default") && avoid("eval-rest-default") {
				ps[i] = p.Kids[0]
			}
		}
		// known goja defect: in a function with a direct eval, surplus arguments
		// show through uninitialised locals; make sure there are never surplus arguments
		for len(ps) < 4 && avoid("eval-surplus-args") {
			g.n++
			ps = append(ps, Id(fmt.Sprintf("pad%d", g.n)))
		}
	}
	return Func(flavour, "", Params(ps...), body...)
}

// ---- idioms: shapes at which a compiler takes a decision that the semantics must not show ----

// IdiomHits counts the idioms generated (per kind).
var IdiomHits = map[string]int{}

// closureOver returns an expression evaluating to a function that returns (or updates) the variable name,
// created in one of the ways that make the compiler allocate the variable differently.
func (g *pgen) closureOver(name string) *Node {
	ret := Id(name)
	var body *Node = ret
	if g.chance(25, "cl upd") {
		body = Update("++", g.coin("cl pre"), Id(name))
	}
	switch g.draw(6, "clkind") {
	case 0:
		return Func("function", "", Params(), Return(body))
	case 1:
		return ArrowExpr(Params(), body)
	case 2:
		// the closure exists only at run time: created by a direct eval
		return Eval(ExprStmt(Paren(Func("function", "", Params(), Return(body)))))
	case 3:
		return Eval(ExprStmt(ArrowExpr(Params(), body)))
	case 4:
		return Dot(Obj(Method(Key("m"), false, Func("method", "", Params(), Return(body)))), "m")
	}
	// two levels of nesting
	return ArrowExpr(Params(), Call(ArrowExpr(Params(), body)))
}

func (g *pgen) idiom() *Node {
	switch g.draw(4, "idiom") {
	case 3:
		// fresh locals: a function called with fewer arguments than parameters right after deeper calls have used the
		// same stack region must see undefined parameters, undefined vars and uninitialised lexical bindings
		IdiomHits["fresh-locals"]++
		d, u, tz := g.fresh("dirty"), g.fresh("u"), g.fresh("t")
		a, b, c := g.fresh("p"), g.fresh("p"), g.fresh("p")
		dirty := FuncDecl("function", d, Params(Id("n")),
			VarDecl("var", Declarator(Id("q1"), Obj()), Declarator(Id("q2"), Num(7)), Declarator(Id("q3"), Str("s"))),
			Return(Cond(Bin(">", Id("n"), Num(0)), Call(Id(d), Bin("-", Id("n"), Num(1))), Arr(Id("q1"), Id("q2"), Id("q3")))))
		body := []*Node{
			VarDecl("var", Declarator(Id(u), nil)),
			Try(Block(Log(Id(tz))), Id("e"), Block(Log(Dot(Id("e"), "name"))), nil),
			VarDecl("let", Declarator(Id(tz), g.literal())),
			Return(Arr(Typeof(Id(u)), Typeof(Id(b)), Typeof(Id(c)), Id(u), Id(tz))),
		}
		nargs := g.draw(3, "fl args")
		args := []*Node{g.literal(), g.literal()}[:min(nargs, 2)]
		return Block(dirty, ExprStmt(Call(Id(d), Num(float64(1+g.draw(4, "fl depth"))))),
			Log(Call(Paren(Func("function", "", Params(Id(a), Id(b), Id(c)), body...)), args...)))
	case 0:
		// temporal dead zone: a use of a lexical binding before its declaration, the binding being a plain local,
		// captured by a closure, or visible to eval
		IdiomHits["tdz"]++
		x := g.fresh("z")
		var use *Node
		switch g.draw(7, "tdzuse") {
		case 0:
			use = Log(Id(x))
		case 1:
			use = ExprStmt(Set(Id(x), g.literal())) // statement position: the value is discarded
		case 2:
			use = Log(Set(Id(x), g.literal()))
		case 3:
			use = ExprStmt(Assign("+=", Id(x), Num(1)))
		case 4:
			use = Log(Typeof(Id(x)))
		case 5:
			use = Log(Call(ArrowExpr(Params(), Id(x))))
		default:
			use = ExprStmt(Update("++", false, Id(x)))
		}
		guarded := Try(Block(use, Log(Str("no TDZ error"))), Id("e"), Block(Log(Dot(Id("e"), "name"))), nil)
		kind := []string{"let", "let", "const"}[g.draw(3, "tdzkind")]
		stmts := []*Node{guarded, VarDecl(kind, Declarator(Id(x), g.literal()))}
		switch g.draw(4, "tdzcap") {
		case 0:
			stmts = append(stmts, FuncDecl("function", g.fresh("cap"), Params(), Return(Id(x))))
		case 1:
			stmts = append(stmts, Log(Call(g.closureOver(x))))
		case 2:
			stmts = append(stmts, Log(Eval(ExprStmt(Id(x)))))
		}
		stmts = append(stmts, Log(Id(x)))
		if kind == "let" && g.coin("tdz after") {
			stmts = append(stmts, ExprStmt(Set(Id(x), g.literal())), Log(Id(x)))
		}
		return Block(stmts...)
	case 1:
		// per-iteration bindings: closures created in a loop are called after it
		IdiomHits["loop-closures"]++
		fns, i := g.fresh("fns"), g.fresh("i")
		push := func(c *Node) *Node { return ExprStmt(Call(Dot(Id(fns), "push"), c)) }
		var loop *Node
		switch g.draw(5, "lckind") {
		case 0, 1:
			body := []*Node{push(g.closureOver(i))}
			if g.chance(30, "lc bump") {
				body = append(body, ExprStmt(Assign("+=", Id(i), Num(1))))
			}
			if g.chance(30, "lc two") {
				body = append(body, push(g.closureOver(i)))
			}
			loop = For(VarDecl("let", Declarator(Id(i), Num(0))), Bin("<", Id(i), Num(float64(2+g.draw(2, "lcb")))), Update("++", false, Id(i)), Block(body...))
		case 2:
			loop = ForOf(VarDecl([]string{"let", "const"}[g.draw(2, "lcof")], Declarator(Id(i), nil)), Arr(Num(1), Num(2)), Block(push(ArrowExpr(Params(), Id(i))), push(g.closureOver(i))))
			if g.coin("lc ofconst") {
				loop = ForOf(VarDecl("const", Declarator(Id(i), nil)), Arr(Num(1), Num(2)), Block(push(Eval(ExprStmt(ArrowExpr(Params(), Id(i)))))))
			}
		case 3:
			loop = ForIn(VarDecl("let", Declarator(Id(i), nil)), Obj(Prop("a", Num(1)), Prop("b", Num(2))), Block(push(g.closureOver(i))))
		default:
			// a block-scoped binding inside a while loop
			w, b := g.fresh("w"), g.fresh("b")
			loop = Block(VarDecl("var", Declarator(Id(w), Num(0))),
				While(Bin("<", Id(w), Num(2)), Block(VarDecl("let", Declarator(Id(b), Bin("*", Id(w), Num(10)))), push(g.closureOver(b)), ExprStmt(Update("++", false, Id(w))))))
		}
		return Block(VarDecl("const", Declarator(Id(fns), Arr())), loop,
			Log(Call(Dot(Id(fns), "map"), ArrowExpr(Params(Id("f")), Call(Id("f"))))),
			Log(Call(Dot(Id(fns), "map"), ArrowExpr(Params(Id("f")), Call(Id("f"))))))
	}
	// the arguments object: mapped for sloppy functions with a simple parameter list, unmapped otherwise
	IdiomHits["arguments"]++
	a, b := g.fresh("p"), g.fresh("p")
	var ps []*Node
	switch g.draw(5, "argshape") {
	case 0, 1:
		ps = []*Node{Id(a), Id(b)}
	case 2:
		ps = []*Node{Id(a), Default(Id(b), g.literal())}
	case 3:
		ps = []*Node{Id(a), Rest(Id(b))}
	default:
		ps = []*Node{Id(a), ArrPat(Id(b))}
	}
	var body []*Node
	if g.chance(30, "arg strict") {
		body = append(body, Directive("use strict"))
	}
	for i, n := 0, 1+g.draw(3, "argops"); i < n; i++ {
		switch g.draw(4, "argop") {
		case 0:
			body = append(body, ExprStmt(Set(Id(a), g.literal())), Log(Idx(Id("arguments"), Num(0))))
		case 1:
			body = append(body, ExprStmt(Set(Idx(Id("arguments"), Num(0)), g.literal())), Log(Id(a)))
		case 2:
			body = append(body, ExprStmt(Set(Idx(Id("arguments"), Num(1)), g.literal())), Log(Id(b)))
		default:
			body = append(body, Log(Arr(Dot(Id("arguments"), "length"), Idx(Id("arguments"), Num(1)))))
		}
	}
	if g.chance(30, "arg cap") {
		body = append(body, Log(Call(ArrowExpr(Params(), Arr(Id(a), Idx(Id("arguments"), Num(0)))))))
	}
	body = append(body, Return(Arr(Id(a), Idx(Id("arguments"), Num(0)), Dot(Id("arguments"), "length"))))
	args := []*Node{g.literal(), Arr(g.literal())}[:1+g.draw(2, "argn")]
	return Log(Call(Paren(Func("function", "", Params(ps...), body...)), args...))
}

// ---- statements ----

func (g *pgen) block(n int) *Node {
	g.push()
	var body []*Node
	for i := 0; i < n; i++ {
		st := g.stmt()
		body = append(body, st)
		if (st.K == "break" || st.K == "continue") && avoid("lexical-after-branch") {
			// known goja defect: a lexical declaration after break/continue in a
			// loop body fails to compile ("Compiler bug")
			break
		}
	}
	g.pop()
	return Block(body...)
}

func (g *pgen) stmt() *Node {
	g.budget--
	if g.budget <= 0 {
		return Log(g.expr())
	}
	switch g.draw(33, "stmt") {
	case 30, 31, 32:
		return g.idiom()
	case 0, 1, 2, 3:
		return Log(g.expr())
	case 4, 5:
		return ExprStmt(g.expr())
	case 6, 7, 8:
		kind := []string{"var", "let", "const"}[g.draw(3, "dkind")]
		name := g.fresh("v")
		init := g.expr()
		if kind == "var" {
			// var is function scoped: record it in the function's scope
			g.declareAt(g.funcScopeIndex(), gvar{name: name, assignable: true})
		} else {
			g.declare(gvar{name: name, assignable: kind == "let"})
		}
		return VarDecl(kind, Declarator(Id(name), init))
	case 9:
		name1, name2 := g.fresh("d"), g.fresh("d")
		init := Arr(g.exprs(g.draw(3, "dinit"))...)
		g.declare(gvar{name: name1, assignable: true})
		g.declare(gvar{name: name2, assignable: true})
		if g.coin("objpat") {
			return VarDecl("let", Declarator(ObjPat(PatProp("0", Id(name1)), PatShorthand(name2, g.literal())), init))
		}
		return VarDecl("let", Declarator(ArrPat(Id(name1), Default(Id(name2), g.literal())), init))
	case 10, 11:
		var alt *Node
		if g.coin("else") {
			alt = g.block(1 + g.draw(2, "altlen"))
		}
		// known goja defect: break/continue in a branch that constant folding proves
		// dead, inside for (let ... of ...), panics the compiler; keep the test opaque
		test := g.expr()
		if avoid("const-dead-branch") {
			test = Call(Id("Boolean"), test)
		}
		return If(test, g.block(1+g.draw(2, "conslen")), alt)
	case 12, 13:
		i := g.fresh("i")
		g.push()
		g.declare(gvar{name: i})
		g.loops++
		body := g.block(1 + g.draw(2, "forlen"))
		g.loops--
		g.pop()
		kind := []string{"let", "var"}[g.draw(2, "forkind")]
		if kind == "var" {
			g.declareAt(g.funcScopeIndex(), gvar{name: i})
		}
		return For(VarDecl(kind, Declarator(Id(i), Num(0))), Bin("<", Id(i), Num(float64(1+g.draw(3, "bound")))), Update("++", false, Id(i)), body)
	case 14:
		v := g.fresh("e")
		g.push()
		g.declare(gvar{name: v, assignable: true})
		g.loops++
		body := g.block(1 + g.draw(2, "oflen"))
		g.loops--
		g.pop()
		var iter *Node
		if g.coin("instrumented") {
			g.hasMkIter = true
			iter = Call(Id("mkIter"), Str(g.fresh("it")), Arr(g.exprs(1+g.draw(2, "itlen"))...))
		} else {
			iter = Arr(g.exprs(g.draw(3, "ofarr"))...)
		}
		return ForOf(VarDecl([]string{"let", "const"}[g.draw(2, "ofkind")], Declarator(Id(v), nil)), iter, body)
	case 15:
		v := g.fresh("k")
		g.push()
		g.declare(gvar{name: v, assignable: true})
		g.loops++
		body := g.block(1)
		g.loops--
		g.pop()
		return ForIn(VarDecl("let", Declarator(Id(v), nil)), g.simpleObj(), body)
	case 16:
		w := g.fresh("w")
		g.declareAt(g.funcScopeIndex(), gvar{name: w})
		g.loops++
		body := g.block(1 + g.draw(2, "whilelen"))
		g.loops--
		loop := While(Logical("&&", Bin("<", Update("++", false, Id(w)), Num(float64(1+g.draw(3, "wbound")))), g.expr()), body)
		if g.coin("dowhile") {
			loop = DoWhile(body, Logical("&&", Bin("<", Update("++", false, Id(w)), Num(2)), g.expr()))
		}
		return Block(VarDecl("var", Declarator(Id(w), Num(0))), loop)
	case 17:
		if g.loops > 0 {
			if g.coin("brk") {
				return Break("")
			}
			return Continue("")
		}
		if len(g.labels) > 0 {
			return Break(g.labels[g.draw(len(g.labels), "lbl")])
		}
		return Empty()
	case 18:
		if len(g.labels) > 0 && avoid("nested-labels-continue") {
			return Log(g.expr()) // no nested labels: goja rejects `continue outer` through two labels
		}
		l := g.fresh("L")
		g.labels = append(g.labels, l)
		b := g.block(1 + g.draw(2, "lbllen"))
		g.labels = g.labels[:len(g.labels)-1]
		return Labeled(l, b)
	case 19:
		var cases []*Node
		for i, n := 0, 1+g.draw(3, "ncases"); i < n; i++ {
			var test *Node
			if !(i == 1 && g.coin("default")) {
				test = g.literal()
			}
			g.push()
			var body []*Node
			for j, m := 0, g.draw(2, "caselen"); j < m; j++ {
				body = append(body, Log(g.expr()))
			}
			if g.coin("case break") {
				body = append(body, Break(""))
			}
			g.pop()
			cases = append(cases, Case(test, body...))
		}
		// at most one default
		seen := false
		for _, c := range cases {
			if c.Kids[0] == nil {
				if seen {
					c.Kids[0] = Num(9)
				}
				seen = true
			}
		}
		return Switch(g.expr(), cases...)
	case 20, 21:
		var param, handler, fin *Node
		blk := g.block(1 + g.draw(2, "trylen"))
		if g.chance(75, "catch") {
			if g.coin("catch param") {
				// the caught value is only logged (describe hides engine-specific
				// messages); it is not made visible to other expressions
				e := g.fresh("ex")
				handler = g.block(1)
				handler.Kids = append([]*Node{Log(Id(e))}, handler.Kids...)
				param = Id(e)
			} else {
				handler = g.block(1)
			}
		}
		if handler == nil {
			fin = g.block(1)
		} else if g.coin("finally") {
			// known goja defect: an exception thrown by the finally block of a
			// try-catch-finally is caught by the sibling catch clause; keep it harmless
			if avoid("finally-throws") {
				fin = Block(Log(g.literal()))
			} else {
				fin = g.block(1)
			}
		}
		return Try(blk, param, handler, fin)
	case 22:
		if g.chance(50, "throw err") {
			return Throw(New(Id([]string{"Error", "TypeError", "RangeError"}[g.draw(3, "errk")]), Str("m")))
		}
		return Throw(g.expr())
	case 23:
		if g.inFunc && !g.inEval {
			return Return(g.expr())
		}
		return Log(g.expr())
	case 24:
		// function declarations only at the top level of a function / script (or anywhere in strict code)
		if len(g.scopes) == g.funcScopeIndex()+1 && !g.inEval {
			name := g.fresh("f")
			flavour := []string{"function", "function", "generator", "async"}[g.draw(4, "fdk")]
			f := g.function(flavour, g.draw(3, "fdparams"))
			f.K, f.S = "funcdecl", name
			g.declare(gvar{name: name, callable: flavour == "function"})
			if flavour == "generator" {
				// drive it
				it := g.fresh("g")
				g.declare(gvar{name: it})
				return Block2(f, VarDecl("var", Declarator(Id(it), Call(Id(name), g.exprs(1)...))),
					Log(Call(Dot(Id(it), "next"), g.literal())), Log(Call(Dot(Id(it), []string{"next", "return", "throw"}[g.draw(3, "drv")]), g.literal())), Log(Call(Dot(Id(it), "next"))))
			}
			if flavour == "async" {
				return Block2(f, ExprStmt(Call(Dot(Call(Id(name), g.exprs(1)...), "then"), Id("log"), Id("log"))))
			}
			return f
		}
		return Log(g.expr())
	case 25:
		if len(g.scopes) == g.funcScopeIndex()+1 && !g.inEval {
			name := g.fresh("C")
			var heritage *Node
			if cs := g.visible(func(v gvar) bool { return v.class }); len(cs) > 0 && g.coin("extends") {
				heritage = Id(g.pick(cs, "base").name)
			}
			var members []*Node
			if g.coin("ctor") {
				saved := g.inMethod
				var body []*Node
				if heritage != nil {
					body = append(body, ExprStmt(SuperCall(g.exprs(g.draw(2, "sargs"))...)))
				}
				body = append(body, ExprStmt(Set(Dot(This(), "a"), g.literal())))
				members = append(members, Ctor(Params(Id("q")), body...))
				g.inMethod = saved
			}
			members = append(members, ClassMethod(g.coin("static"), Key("m"), false, g.function("method", 1)))
			if g.coin("field") {
				members = append(members, ClassField(false, Key("b"), false, g.literal()))
			}
			g.declare(gvar{name: name, class: true})
			return ClassDecl(name, heritage, members...)
		}
		return Log(g.expr())
	case 26:
		if !g.strict && !g.inGen {
			g.push()
			b := g.block(1 + g.draw(2, "withlen"))
			g.pop()
			return With(g.simpleObj(), b)
		}
		return Log(g.expr())
	case 27:
		return g.block(1 + g.draw(2, "blklen"))
	}
	return Log(g.expr())
}

// Block2 splices statements into the enclosing list: a "block" without its own
// scope cannot be expressed, so the declarations are returned as a program
// fragment marked with kind "splice" and flattened by the caller.
func Block2(stmts ...*Node) *Node { return &Node{K: "splice", Kids: stmts} }

func flatten(list []*Node) []*Node {
	// one pass, no recursion into the elements (flattenKids recurses)
	var out []*Node
	for _, s := range list {
		if s != nil && s.K == "splice" {
			out = append(out, flatten(s.Kids)...)
			continue
		}
		out = append(out, s)
	}
	return out
}

func flattenKids(n *Node) {
	switch n.K {
	case "block", "program":
		n.Kids = flatten(n.Kids)
	case "case":
		n.Kids = append(n.Kids[:1:1], flatten(n.Kids[1:])...)
	}
	for _, k := range n.Kids {
		if k != nil {
			flattenKids(k)
		}
	}
}

func (g *pgen) funcScopeIndex() int { return g.fscope }

const mkIterSimple = `function mkIter(name, vals) { var i = 0; return { [Symbol.iterator]() { log(name + '.iter'); return { next() { log(name + '.next'); return i < vals.length ? {value: vals[i++], done: false} : {value: undefined, done: true}; }, return(v) { log(name + '.return'); return {}; } }; } }; }`

// GenProgram draws a closed J0 program (its only effects are log() calls, the
// completion value and the exception). strict says whether it is to be run as
// strict code.
func GenProgram(t *rapid.T) (*Node, bool) {
	g := &pgen{t: t, budget: rapid.IntRange(10, 300).Draw(t, "budget")}
	g.strict = rapid.Bool().Draw(t, "strictgen")
	g.push()
	var body []*Node
	for i, n := 0, 1+g.draw(12, "nstmts"); i < n; i++ {
		body = append(body, g.stmt())
	}
	prog := Program(body...)
	flattenKids(prog)
	if g.hasMkIter {
		prog.Kids = append(JS(mkIterSimple).Kids, prog.Kids...)
	}
	return prog, g.strict
}

// HasTopLevelLexicalAndFunction reports the shape that trips the known global-eval closure defect.
func HasTopLevelLexicalAndFunction(prog *Node) bool {
	lex, fn := false, false
	for _, s := range prog.Kids {
		if s == nil {
			continue
		}
		switch {
		case s.K == "var" && s.A != "var", s.K == "classdecl":
			lex = true
		case s.K == "funcdecl":
			fn = true
		}
	}
	return lex && fn
}
