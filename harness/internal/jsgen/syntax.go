// Package jsgen holds the program generators shared by the checks.
//
// syntax.go is G-syntax: a text generator that covers every production the
// goja parser accepts. Programs are well-formed by construction (modulo early
// errors, which are legitimate inputs too) but not necessarily meaningful.
// Loops are bounded, literals used as sizes are small, and a prelude declares
// the identifier pool so that most references resolve and the VM is reached.
package jsgen

import (
	"fmt"
	"strings"

	"pgregory.net/rapid"
)

// SynOpts tunes G-syntax.
type SynOpts struct {
	MaxDepth  int
	MaxStmts  int
	NoAsync   bool // no async/await/Promise (for checks that need synchronous observations)
	NoRegexp  bool
	NoEval    bool
	Bias      string // "", "refdata" (regex/template/class/dynamic scope heavy, for C16)
	Kinds     map[string]int
	fnDepth   int
	inGen     bool
	inAsync   bool
	inLoop    int
	inSwitch  int
	inFunc    int
	inClass   int
	inDerived bool
	inMethod  bool
	labels    []string
	strict    bool
	budget    int
}

type syn struct {
	t *rapid.T
	o *SynOpts
}

// Prelude declares the identifier pool used by generated programs.
const SynPrelude = `var a = 1, b = "str", c = [1, 2, 3], d = 2.5, x = 0, y = -1, z = null, u;
var o = {p: 1, q: {r: 2, s: [4, 5]}, m: function() { return this.p; }, get g() { return 7; }, set g(v) {}};
var arr = [3, 1, 2, , 5], s = "hello", n = 10, t = true, sym = Symbol("k");
function f(p, q) { return p; }
function g() { return arguments.length; }
function h(p) { return function() { return p; }; }
var it = {[Symbol.iterator]: function() { var i = 0; return {next: function() { return {done: i >= 3, value: i++}; }, return: function() { return {}; }}; }};
`

var identPool = []string{"a", "b", "c", "d", "x", "y", "z", "u", "o", "arr", "s", "n", "t", "f", "g", "h", "it", "sym"}
var newIdentPool = []string{"v0", "v1", "v2", "w", "k", "e", "r", "a", "x", "o", "f", "arguments", "eval", "async", "of", "let", "yield", "await", "static", "get", "set", "undefined",
	// identifier spellings: escapes (BMP and astral, ID_Start and ID_Continue), raw astral and non-ASCII characters, and ill-formed ones
	"\\u{76}0", "\\u0076\\u0031", "\\u{1D400}", "a\\u{1D7D8}b", "\U0001D400", "x\U0001D7D8", "\u2102", "a\u200d", "\\u{2F800}", "\\u{D800}", "\\u{110000}", "a\\u{}"}
var propPool = []string{"p", "q", "r", "s", "m", "g", "length", "constructor", "prototype", "__proto__", "toString", "valueOf", "name", "0", "1", "x", "then", "next", "done", "value", "\\u{1D400}", "\\u0070", "p\\u{1D7D8}", "\U0001D400"}

func (g *syn) kind(k string) {
	if g.o.Kinds != nil {
		g.o.Kinds[k]++
	}
}

func (g *syn) pick(label string, xs ...string) string {
	return xs[rapid.IntRange(0, len(xs)-1).Draw(g.t, label)]
}

// pickOr chooses among constant alternatives or (last index) a lazily generated one.
func (g *syn) pickOr(label string, gen func() string, consts ...string) string {
	i := rapid.IntRange(0, len(consts)).Draw(g.t, label)
	if i == len(consts) {
		return gen()
	}
	return consts[i]
}

// alt chooses one lazily evaluated alternative.
func (g *syn) alt(label string, alts ...func() string) string {
	return alts[rapid.IntRange(0, len(alts)-1).Draw(g.t, label)]()
}

func (g *syn) n(label string, lo, hi int) int { return rapid.IntRange(lo, hi).Draw(g.t, label) }
func (g *syn) coin(label string, num, den int) bool {
	return rapid.IntRange(1, den).Draw(g.t, label) <= num
}

func (g *syn) ident() string    { return g.pick("id", identPool...) }
func (g *syn) newIdent() string { return g.pick("nid", newIdentPool...) }
func (g *syn) prop() string     { return g.pick("prop", propPool...) }

// GenProgram draws a whole program (without the prelude).
func GenProgram(t *rapid.T, o *SynOpts) string {
	if o.MaxDepth == 0 {
		o.MaxDepth = 4
	}
	if o.MaxStmts == 0 {
		o.MaxStmts = 6
	}
	o.budget = 400
	g := &syn{t: t, o: o}
	var sb strings.Builder
	if g.coin("usestrict", 1, 6) {
		sb.WriteString("\"use strict\";\n")
		o.strict = true
	}
	n := g.n("nstmts", 1, o.MaxStmts)
	for i := 0; i < n; i++ {
		sb.WriteString(g.stmt(o.MaxDepth))
		sb.WriteString("\n")
	}
	return sb.String()
}

// GenExpr draws a single expression.
func GenExpr(t *rapid.T, o *SynOpts) string {
	if o.MaxDepth == 0 {
		o.MaxDepth = 4
	}
	o.budget = 200
	g := &syn{t: t, o: o}
	return g.expr(o.MaxDepth)
}

func (g *syn) stmts(d int, max int) string {
	n := g.n("bn", 0, max)
	var sb strings.Builder
	for i := 0; i < n; i++ {
		sb.WriteString(g.stmt(d))
		sb.WriteString(" ")
	}
	return sb.String()
}

func (g *syn) block(d int) string { return "{ " + g.stmts(d, 3) + "}" }

var stmtKinds = []string{"expr", "expr", "expr", "var", "let", "const", "if", "for", "forin", "forof", "while", "dowhile", "switch", "try", "try", "throw", "return", "break", "continue", "label", "block", "func", "class", "with", "empty", "gen", "async", "destruct", "iife", "debugger"}

func (g *syn) stmt(d int) string {
	g.o.budget--
	if d <= 0 || g.o.budget <= 0 {
		g.kind("stmt:expr")
		return g.expr(1) + ";"
	}
	k := g.pick("sk", stmtKinds...)
	if g.o.Bias == "refdata" && g.coin("refbias", 1, 3) {
		k = g.pick("rk", "class", "expr", "func", "with", "switch")
	}
	g.kind("stmt:" + k)
	switch k {
	case "expr":
		e := g.expr(d)
		if strings.HasPrefix(e, "{") || strings.HasPrefix(e, "function") || strings.HasPrefix(e, "class") || strings.HasPrefix(e, "let") || strings.HasPrefix(e, "async function") {
			e = "(" + e + ")"
		}
		return e + ";"
	case "var":
		return "var " + g.declList(d, false) + ";"
	case "let":
		return "let " + g.declList(d, false) + ";"
	case "const":
		return "const " + g.declList(d, true) + ";"
	case "if":
		s := "if (" + g.expr(d-1) + ") " + g.subStmt(d-1)
		if g.coin("else", 1, 2) {
			s += " else " + g.subStmt(d-1)
		}
		return s
	case "for":
		g.o.inLoop++
		defer func() { g.o.inLoop-- }()
		v := g.pick("lv", "i", "j", "k")
		bound := g.n("bound", 0, 4)
		switch g.n("forform", 0, 3) {
		case 0:
			return fmt.Sprintf("for (let %s = 0; %s < %d; %s++) %s", v, v, bound, v, g.subStmt(d-1))
		case 1:
			return fmt.Sprintf("for (var %s = 0, lim = %d; %s < lim; %s += 1) %s", v, bound, v, v, g.subStmt(d-1))
		case 2:
			return fmt.Sprintf("for (%s = %d; %s > 0; --%s) %s", "x", bound, "x", "x", g.subStmt(d-1))
		default:
			return fmt.Sprintf("for (let %s = 0, cl = function() { return %s; }; %s < %d; %s++) { %s }", v, v, v, bound, v, g.stmts(d-1, 2))
		}
	case "forin":
		g.o.inLoop++
		defer func() { g.o.inLoop-- }()
		return "for (" + g.forHead(d) + " in " + g.pickOr("fio", func() string { return g.expr(d - 1) }, "o", "arr", "s", "c", "{a:1,b:2}", "f") + ") " + g.subStmt(d-1)
	case "forof":
		g.o.inLoop++
		defer func() { g.o.inLoop-- }()
		aw := ""
		if g.o.inAsync && g.coin("forawait", 1, 3) {
			aw = " await"
		}
		return "for" + aw + " (" + g.forHead(d) + " of " + g.pickOr("foo", func() string { return g.expr(d - 1) }, "c", "arr", "s", "it", "[1,2,3]", "new Set([1,2])", "new Map([[1,2]])", "[[1,2],[3,4]]", "(function*(){ yield 1; yield 2; })()") + ") " + g.subStmt(d-1)
	case "while":
		g.o.inLoop++
		defer func() { g.o.inLoop-- }()
		return fmt.Sprintf("{ let wc = %d; while (wc-- > 0) %s }", g.n("wc", 0, 3), g.subStmt(d-1))
	case "dowhile":
		g.o.inLoop++
		defer func() { g.o.inLoop-- }()
		return fmt.Sprintf("{ let dc = %d; do %s while (--dc > 0); }", g.n("dc", 0, 3), g.subStmt(d-1))
	case "switch":
		g.o.inSwitch++
		defer func() { g.o.inSwitch-- }()
		var sb strings.Builder
		sb.WriteString("switch (" + g.expr(d-1) + ") { ")
		nc := g.n("ncase", 0, 4)
		def := g.n("defpos", -1, nc)
		for i := 0; i <= nc; i++ {
			if i == def {
				sb.WriteString("default: " + g.stmts(d-1, 2))
			}
			if i < nc {
				sb.WriteString("case " + g.expr(d-1) + ": " + g.stmts(d-1, 2))
			}
		}
		sb.WriteString("}")
		return sb.String()
	case "try":
		s := "try " + g.block(d-1)
		form := g.n("tryform", 0, 3)
		if form != 2 {
			switch g.n("catchform", 0, 3) {
			case 0:
				s += " catch " + g.block(d-1)
			case 1:
				s += " catch (" + g.pattern(d-1) + ") " + g.block(d-1)
			default:
				s += " catch (e) " + g.block(d-1)
			}
		}
		if form >= 2 || form == 1 {
			s += " finally " + g.block(d-1)
		}
		return s
	case "throw":
		return "throw " + g.pickOr("thr", func() string { return g.expr(d - 1) }, "new Error(\"e\")", "1", "\"s\"", "undefined", "null", "o", "new TypeError(\"t\")") + ";"
	case "return":
		if g.o.inFunc > 0 {
			if g.coin("retval", 2, 3) {
				return "return " + g.expr(d-1) + ";"
			}
			return "return;"
		}
		return g.expr(d-1) + ";"
	case "break":
		if len(g.o.labels) > 0 && g.coin("blabel", 1, 2) {
			return "break " + g.o.labels[g.n("bl", 0, len(g.o.labels)-1)] + ";"
		}
		if g.o.inLoop > 0 || g.o.inSwitch > 0 {
			return "break;"
		}
		return ";"
	case "continue":
		if g.o.inLoop > 0 {
			return "continue;"
		}
		return ";"
	case "label":
		l := g.pick("lab", "L1", "L2", "outer")
		g.o.labels = append(g.o.labels, l)
		defer func() { g.o.labels = g.o.labels[:len(g.o.labels)-1] }()
		return l + ": " + g.subStmt(d-1)
	case "block":
		return g.block(d - 1)
	case "func":
		return g.funcDecl(d, "")
	case "gen":
		return g.funcDecl(d, "*")
	case "async":
		if g.o.NoAsync {
			return g.funcDecl(d, "")
		}
		return g.funcDecl(d, g.pick("asyncform", "async", "async*"))
	case "class":
		return g.class(d, true)
	case "with":
		if g.o.strict || g.o.inClass > 0 {
			return g.block(d - 1)
		}
		return "with (" + g.pickOr("wo", func() string { return g.expr(d - 1) }, "o", "o.q", "{a: 5, x: 6}", "arr") + ") " + g.subStmt(d-1)
	case "empty":
		return ";"
	case "destruct":
		return g.pick("dk", "var", "let", "const") + " " + g.pattern(d) + " = " + g.pickOr("dsrc", func() string { return g.expr(d - 1) }, "o", "c", "arr", "[1,[2,3],{a:4}]", "{p:1,q:{r:2}}", "it", "s") + ";"
	case "iife":
		return g.pick("iife", "(function() { ", "(() => { ", "(function inner() { \"use strict\"; ") + g.funcBodyStmts(d-1) + "})();"
	case "debugger":
		return "debugger;"
	}
	return ";"
}

// subStmt is a statement in a position where declarations are not allowed.
func (g *syn) subStmt(d int) string {
	if g.coin("subblock", 2, 3) {
		return g.block(d)
	}
	return g.pickOr("ss", func() string { return g.expr(d) + ";" }, ";", "x++;", "{ }")
}

func (g *syn) forHead(d int) string {
	switch g.n("fh", 0, 5) {
	case 0:
		return "var " + g.newIdent()
	case 1:
		return "let " + g.pick("fhl", "v0", "v1", "k", "e")
	case 2:
		return "const " + g.pick("fhc", "v0", "v1", "k", "e")
	case 3:
		return g.pick("fhk", "var ", "let ", "const ") + g.pattern(d-1)
	case 4:
		return g.pick("fht", "x", "o.p", "arr[0]", "[x, y]", "{p: x}")
	}
	return "var k"
}

func (g *syn) declList(d int, mustInit bool) string {
	n := g.n("ndecl", 1, 3)
	var parts []string
	for i := 0; i < n; i++ {
		id := g.pick("did", "v0", "v1", "v2", "w", "k", "e", "r")
		if mustInit || g.coin("init", 3, 4) {
			parts = append(parts, id+" = "+g.assignExpr(d-1))
		} else {
			parts = append(parts, id)
		}
	}
	return strings.Join(parts, ", ")
}

func (g *syn) pattern(d int) string {
	if d <= 0 {
		return g.pick("pid", "v0", "v1", "w")
	}
	if g.coin("objpat", 1, 2) {
		n := g.n("npat", 0, 3)
		var parts []string
		for i := 0; i < n; i++ {
			switch g.n("opk", 0, 4) {
			case 0:
				parts = append(parts, g.pick("sh", "p", "q", "r", "length", "v0"))
			case 1:
				parts = append(parts, g.prop()+": "+g.patTarget(d-1))
			case 2:
				parts = append(parts, g.pick("shd", "p", "q", "v1")+" = "+g.assignExpr(d-1))
			case 3:
				parts = append(parts, "["+g.assignExpr(d-1)+"]: "+g.patTarget(d-1))
			default:
				parts = append(parts, g.prop()+": "+g.patTarget(d-1)+" = "+g.assignExpr(d-1))
			}
		}
		if g.coin("orest", 1, 4) {
			parts = append(parts, "..."+g.pick("orid", "rest", "w"))
		}
		return "{" + strings.Join(parts, ", ") + "}"
	}
	n := g.n("napat", 0, 3)
	var parts []string
	for i := 0; i < n; i++ {
		switch g.n("apk", 0, 3) {
		case 0:
			parts = append(parts, "")
		case 1:
			parts = append(parts, g.patTarget(d-1))
		default:
			parts = append(parts, g.patTarget(d-1)+" = "+g.assignExpr(d-1))
		}
	}
	if g.coin("arest", 1, 4) {
		parts = append(parts, "..."+g.patTarget(d-1))
	}
	return "[" + strings.Join(parts, ", ") + "]"
}

func (g *syn) patTarget(d int) string {
	if d > 0 && g.coin("nestpat", 1, 3) {
		return g.pattern(d)
	}
	return g.pick("ptid", "v0", "v1", "v2", "w", "k")
}

func (g *syn) params(d int) string {
	n := g.n("nparam", 0, 3)
	var parts []string
	for i := 0; i < n; i++ {
		id := g.pick("param", "p", "q", "r", "v0", "a")
		switch g.n("pk", 0, 4) {
		case 0, 1:
			parts = append(parts, id)
		case 2:
			parts = append(parts, id+" = "+g.assignExpr(d-1))
		case 3:
			parts = append(parts, g.pattern(d-1))
		default:
			parts = append(parts, g.pattern(d-1)+" = "+g.pick("pdef", "{}", "[]", "o", "c"))
		}
	}
	if g.coin("prest", 1, 5) {
		parts = append(parts, "..."+g.pick("prid", "rest", "args"))
	}
	return strings.Join(parts, ", ")
}

func (g *syn) funcBodyStmts(d int) string {
	save := *g.o
	g.o.inFunc++
	g.o.inLoop, g.o.inSwitch, g.o.labels = 0, 0, nil
	var sb strings.Builder
	if g.coin("fstrict", 1, 10) {
		sb.WriteString("\"use strict\"; ")
	}
	sb.WriteString(g.stmts(d, 3))
	kinds, budget := g.o.Kinds, g.o.budget
	*g.o = save
	g.o.Kinds, g.o.budget = kinds, budget
	return sb.String()
}

func (g *syn) funcDecl(d int, mod string) string {
	name := g.pick("fname", "f1", "f2", "gfn", "f")
	return g.funcText(d, mod, name)
}

func (g *syn) funcText(d int, mod string, name string) string {
	save := *g.o
	defer func() {
		kinds, budget := g.o.Kinds, g.o.budget
		*g.o = save
		g.o.Kinds, g.o.budget = kinds, budget
	}()
	head := "function"
	switch mod {
	case "*":
		head = "function*"
		g.o.inGen, g.o.inAsync = true, false
	case "async":
		head = "async function"
		g.o.inGen, g.o.inAsync = false, true
	case "async*":
		head = "async function*"
		g.o.inGen, g.o.inAsync = true, true
	default:
		g.o.inGen, g.o.inAsync = false, false
	}
	g.o.inMethod = false
	return head + " " + name + "(" + g.params(d-1) + ") { " + g.funcBodyStmts(d-1) + "}"
}

func (g *syn) method(d int, static bool) string {
	save := *g.o
	defer func() {
		kinds, budget := g.o.Kinds, g.o.budget
		*g.o = save
		g.o.Kinds, g.o.budget = kinds, budget
	}()
	g.o.inMethod = true
	// incl. computed keys that are compile-time constants whose evaluation throws
	key := g.pick("mkey", "m", "p", "q", "[\"c\" + 1]", "[sym]", "0", "\"str key\"", "get", "static", "async", "#priv", "constructor2", "[Symbol.iterator]", "[1n + 1]", "[1n / 0n]", "[2n ** -1n]", "[\"x\" in \"y\"]", "[null.x]", "[1 + 2]", "[-0]", "[1n]")
	if strings.HasPrefix(key, "#") && g.o.inClass == 0 {
		key = "m"
	}
	pre := ""
	if static {
		pre = "static "
	}
	switch g.n("mk", 0, 6) {
	case 0, 1:
		g.o.inGen, g.o.inAsync = false, false
		return pre + key + "(" + g.params(d-1) + ") { " + g.funcBodyStmts(d-1) + "}"
	case 2:
		g.o.inGen, g.o.inAsync = false, false
		return pre + "get " + key + "() { " + g.funcBodyStmts(d-1) + "}"
	case 3:
		g.o.inGen, g.o.inAsync = false, false
		return pre + "set " + key + "(v) { " + g.funcBodyStmts(d-1) + "}"
	case 4:
		g.o.inGen, g.o.inAsync = true, false
		return pre + "*" + key + "(" + g.params(d-1) + ") { " + g.funcBodyStmts(d-1) + "}"
	case 5:
		if g.o.NoAsync {
			return pre + key + "() { }"
		}
		g.o.inGen, g.o.inAsync = false, true
		return pre + "async " + key + "(" + g.params(d-1) + ") { " + g.funcBodyStmts(d-1) + "}"
	default:
		if g.o.NoAsync {
			return pre + key + "() { }"
		}
		g.o.inGen, g.o.inAsync = true, true
		return pre + "async *" + key + "(" + g.params(d-1) + ") { " + g.funcBodyStmts(d-1) + "}"
	}
}

func (g *syn) class(d int, decl bool) string {
	save := *g.o
	defer func() {
		kinds, budget := g.o.Kinds, g.o.budget
		*g.o = save
		g.o.Kinds, g.o.budget = kinds, budget
	}()
	g.kind("class")
	var sb strings.Builder
	sb.WriteString("class")
	if decl || g.coin("cname", 1, 2) {
		sb.WriteString(" " + g.pick("cn", "C1", "C2", "K"))
	}
	derived := g.coin("derived", 1, 3)
	if derived {
		sb.WriteString(" extends " + g.pickOr("ext", func() string { return g.expr(1) }, "Object", "Array", "f", "null", "class {}", "Error", "(class B { constructor() { this.b = 1; } static sm() { return 1; } bm() { return 2; } })"))
	}
	g.o.inClass++
	g.o.inDerived = derived
	sb.WriteString(" { ")
	n := g.n("nmem", 0, 5)
	hasCtor := false
	for i := 0; i < n; i++ {
		switch g.n("memk", 0, 8) {
		case 0:
			if !hasCtor {
				hasCtor = true
				g.o.inFunc++
				g.o.inMethod = true
				body := g.stmts(d-1, 2)
				if derived {
					body = g.pick("superpos", "super("+g.args(d-1)+"); "+body, body+" super();", "if (p) { super(); } else { super(1); } "+body, body)
				}
				g.o.inFunc--
				sb.WriteString("constructor(" + g.params(d-1) + ") { " + body + "} ")
			}
		case 1, 2:
			sb.WriteString(g.method(d-1, false) + " ")
		case 3:
			sb.WriteString(g.method(d-1, true) + " ")
		case 4:
			sb.WriteString(g.pick("field", "fld", "#priv", "static sf", "static #sp", "[\"cf\"]", "0", "\"s f\"") + g.pickOr("finit", func() string { return " = " + g.assignExpr(d-1) }, "", " = this", " = () => this") + "; ")
		case 5:
			sb.WriteString("static { " + g.stmts(d-1, 2) + "} ")
		case 6:
			sb.WriteString("#pm(" + g.params(d-1) + ") { " + g.funcBodyStmts(d-1) + "} " + "usePm() { return this.#pm(); } ")
		case 7:
			sb.WriteString("get #pa() { return 1; } set #pa(v) { } static has(o) { return #pa in o; } ")
		default:
			sb.WriteString("; ")
		}
	}
	sb.WriteString("}")
	return sb.String()
}

func (g *syn) args(d int) string {
	n := g.n("nargs", 0, 3)
	var parts []string
	for i := 0; i < n; i++ {
		if g.coin("spreadarg", 1, 6) {
			parts = append(parts, "..."+g.pickOr("sparg", func() string { return g.assignExpr(d - 1) }, "c", "arr", "[1,2]", "s", "it"))
		} else {
			parts = append(parts, g.assignExpr(d-1))
		}
	}
	return strings.Join(parts, ", ")
}

// constant-ish leaves are deliberately frequent: constant folding is context dependent.
var literalPool = []string{"0", "1", "2", "-1", "0.5", "1e3", "0x10", "0b11", "0o7", "1_000", "07", "09", ".5", "5.", "NaN", "Infinity", "-0", "2147483647", "4294967296", "9007199254740993", "1n", "0n", "-5n", "123456789012345678901234567890n",
	"\"\"", "\"a\"", "'b'", "\"\\u0041\\x42\\n\\0\"", "\"\\u{1F600}\"", "\"\\u{10FFFF}\"", "\"\\u{0}\\u{00FFFF}\"", "\"é\"", "`t`", "true", "false", "null", "undefined", "void 0", "this", "[]", "{}", "[,]", "[1,,2]"}

var binOps = []string{"+", "-", "*", "/", "%", "**", "&", "|", "^", "<<", ">>", ">>>", "<", ">", "<=", ">=", "==", "!=", "===", "!==", "instanceof", "in", "&&", "||", "??", ","}
var assignOps = []string{"=", "+=", "-=", "*=", "/=", "%=", "**=", "&=", "|=", "^=", "<<=", ">>=", ">>>=", "&&=", "||=", "??="}
var unaryOps = []string{"+", "-", "!", "~", "typeof ", "void ", "delete ", "- -", "+ +", "!!"}

var exprKinds = []string{"lit", "lit", "lit", "ident", "ident", "bin", "bin", "bin", "logic", "unary", "update", "assign", "assign", "cond", "comma", "call", "call", "member", "member", "new", "array", "object", "func", "arrow", "class", "template", "tagged", "regex", "optchain", "spread", "yield", "await", "super", "newtarget", "eval", "paren", "seqconst", "builtin", "builtin", "importmeta", "privin"}

func (g *syn) lit() string { return g.pick("lit", literalPool...) }

// assignExpr never yields a top-level comma expression.
func (g *syn) assignExpr(d int) string {
	e := g.expr(d)
	return e
}

func (g *syn) lhs(d int) string {
	switch g.n("lhsk", 0, 6) {
	case 0, 1:
		return g.ident()
	case 2:
		return g.pick("lo", "o", "o.q", "arr", "c", "this", "f") + "." + g.prop()
	case 3:
		return g.pick("lo2", "o", "arr", "c") + "[" + g.expr(d-1) + "]"
	case 4:
		return g.newIdent()
	case 5:
		if g.o.inMethod {
			return "super." + g.prop()
		}
		return "x"
	default:
		return "(" + g.ident() + ")"
	}
}

func (g *syn) expr(d int) string {
	g.o.budget--
	if d <= 0 || g.o.budget <= 0 {
		if g.coin("leafid", 1, 3) {
			return g.ident()
		}
		return g.lit()
	}
	k := g.pick("ek", exprKinds...)
	if g.o.Bias == "refdata" && g.coin("erefbias", 1, 3) {
		k = g.pick("erk", "regex", "tagged", "class", "template", "eval", "func")
	}
	g.kind("expr:" + k)
	switch k {
	case "lit":
		return g.lit()
	case "ident":
		return g.ident()
	case "bin":
		op := g.pick("binop", binOps...)
		l, r := g.expr(d-1), g.expr(d-1)
		if op == "**" {
			l = "(" + l + ")"
		}
		if op == "??" {
			return "((" + l + ") ?? (" + r + "))"
		}
		return "(" + l + " " + op + " " + r + ")"
	case "logic":
		// constant operands in every position of the short-circuit operators
		op := g.pick("lop", "&&", "||", "??")
		l := g.pickOr("lconst", func() string { return g.expr(d - 1) }, "0", "1", "\"\"", "null", "undefined", "true", "false", "NaN", "x")
		return "((" + l + ") " + op + " (" + g.expr(d-1) + "))"
	case "unary":
		return "(" + g.pick("uop", unaryOps...) + g.unaryOperand(d-1) + ")"
	case "update":
		t := g.lhs(d - 1)
		return g.pick("upd", "(++"+t+")", "(--"+t+")", "("+t+"++)", "("+t+"--)")
	case "assign":
		op := g.pick("aop", assignOps...)
		if op == "=" && g.coin("destructassign", 1, 5) {
			return "(" + g.pattern(d-1) + " = " + g.pick("dasrc", "o", "c", "arr", "[1,2]", "{p:3}") + ")"
		}
		return "(" + g.lhs(d-1) + " " + op + " " + g.expr(d-1) + ")"
	case "cond":
		c := g.pickOr("cconst", func() string { return g.expr(d - 1) }, "0", "1", "true", "false", "x", "\"\"")
		return "(" + c + " ? " + g.expr(d-1) + " : " + g.expr(d-1) + ")"
	case "comma":
		return "(" + g.expr(d-1) + ", " + g.expr(d-1) + ")"
	case "seqconst":
		// constant-folded operands whose value is discarded in a sequence, in every position
		inner := g.pick("sc", "(0 && x, 1)", "(1 || x, 2)", "(null ?? 1, 3)", "(0 && 1, 7)", "(void 0, 4)", "(1 + 2, 5)", "(\"a\" + \"b\", 6)", "(!0, 8)", "(0 ? x : 1, 9)", "(typeof 1, 10)", "(-(-0), 11)")
		switch g.n("scpos", 0, 9) {
		case 0:
			return "[" + inner + ", 2]"
		case 1:
			return "f(" + inner + ", 2)"
		case 2:
			return "(o.p = " + inner + ")"
		case 3:
			return "({k: " + inner + "})"
		case 4:
			return "(" + inner + " + " + g.expr(d-1) + ")"
		case 5:
			return "(x = " + inner + ")"
		case 6:
			return "`${" + inner + "}`"
		case 7:
			return "(" + inner + " ? " + g.expr(d-1) + " : 0)"
		case 8:
			return "new f(" + inner + ")"
		default:
			return "o[" + inner + "]"
		}
	case "call":
		switch g.n("callk", 0, 7) {
		case 0:
			return g.pick("fn", "f", "g", "h", "o.m", "h(1)") + "(" + g.args(d-1) + ")"
		case 1:
			return g.pick("mo", "arr", "c", "[3,1,2]") + "." + g.pick("am", "map", "filter", "forEach", "some", "every", "reduce", "find", "findIndex", "sort", "flatMap") + "(" + g.callback(d-1) + ")"
		case 2:
			return g.pick("mo2", "arr", "c", "s", "b", "[1,2,3]", "\"abc\"") + "." + g.pick("am2", "slice", "concat", "indexOf", "includes", "join", "at", "toString", "keys", "values", "entries", "reverse", "push", "pop", "shift", "fill", "splice", "flat", "lastIndexOf", "copyWithin") + "(" + g.args(d-1) + ")"
		case 3:
			return "(" + g.expr(d-1) + ")(" + g.args(d-1) + ")"
		case 4:
			return g.pick("fcall", "f.call", "f.apply", "g.bind", "Function.prototype.call.call") + "(" + g.args(d-1) + ")"
		case 5:
			return g.expr(d-1) + "." + g.prop() + "(" + g.args(d-1) + ")"
		case 6:
			return "(0, " + g.pick("indirect", "o.m", "eval", "f") + ")(" + g.args(d-1) + ")"
		default:
			return g.pick("ctor", "String", "Number", "Boolean", "Object", "Array", "Symbol", "BigInt", "Date", "RegExp", "Error", "Function") + "(" + g.args(d-1) + ")"
		}
	case "member":
		switch g.n("memk", 0, 3) {
		case 0:
			return g.expr(d-1) + "." + g.prop()
		case 1:
			return g.expr(d-1) + "[" + g.expr(d-1) + "]"
		case 2:
			return g.pick("mobj", "o", "arr", "c", "s", "f", "o.q", "this", "globalThis", "Math", "JSON", "Reflect") + "." + g.prop()
		default:
			return g.ident() + "[" + g.lit() + "]"
		}
	case "new":
		return "new " + g.pick("nc", "f", "Object", "Array", "Date", "Map", "Set", "WeakMap", "Error", "Promise", "Proxy", "Uint8Array", "ArrayBuffer", "(class { constructor(p) { this.p = p; } })", "Boolean", "String", "Number", "Function") + g.pickOr("nargsform", func() string { return "(" + g.args(d-1) + ")" }, "", "()")
	case "array":
		n := g.n("nelem", 0, 4)
		var parts []string
		for i := 0; i < n; i++ {
			switch g.n("elk", 0, 5) {
			case 0:
				parts = append(parts, "")
			case 1:
				parts = append(parts, "..."+g.pickOr("spel", func() string { return g.expr(d - 1) }, "c", "arr", "s", "it", "[1,2]"))
			default:
				parts = append(parts, g.assignExpr(d-1))
			}
		}
		return "[" + strings.Join(parts, ", ") + "]"
	case "object":
		n := g.n("nprops", 0, 4)
		var parts []string
		for i := 0; i < n; i++ {
			switch g.n("pk", 0, 8) {
			case 0:
				parts = append(parts, g.prop()+": "+g.assignExpr(d-1))
			case 1:
				parts = append(parts, "["+g.pickOr("ckey", func() string { return g.expr(d - 1) }, "1n + 1", "1n / 0n", "2n ** -1n", "\"x\" in \"y\"", "1n * 2", "-(1n) >>> 0n", "1 + 2", "`t`")+"]: "+g.assignExpr(d-1))
			case 2:
				parts = append(parts, g.ident())
			case 3:
				parts = append(parts, "..."+g.pickOr("osp", func() string { return g.expr(d - 1) }, "o", "c", "s", "null"))
			case 4:
				parts = append(parts, g.method(d-1, false))
			case 5:
				parts = append(parts, "\""+g.prop()+"\": "+g.assignExpr(d-1))
			case 6:
				parts = append(parts, g.pick("numkey", "0", "1.5", "0x1", "1e2", "1n")+": "+g.assignExpr(d-1))
			case 7:
				parts = append(parts, "__proto__: "+g.pick("protoval", "null", "o", "arr", "1"))
			default:
				parts = append(parts, "get "+g.prop()+"() { return "+g.expr(d-1)+"; }")
			}
		}
		return "({" + strings.Join(parts, ", ") + "})"
	case "func":
		mod := g.pick("fmod", "", "", "*", "async", "async*")
		if g.o.NoAsync && strings.HasPrefix(mod, "async") {
			mod = ""
		}
		return "(" + g.funcText(d, mod, g.pick("fen", "", "", "fe", "arguments2", "f")) + ")"
	case "arrow":
		return "(" + g.arrow(d) + ")"
	case "class":
		return "(" + g.class(d, false) + ")"
	case "template":
		n := g.n("ntpl", 0, 3)
		var sb strings.Builder
		sb.WriteString("`")
		for i := 0; i < n; i++ {
			sb.WriteString(g.pick("tplchunk", "a", "", " ", "\\n", "\\u0041", "$", "\\`", "é"))
			sb.WriteString("${" + g.expr(d-1) + "}")
		}
		sb.WriteString(g.pick("tplend", "", "z", "\\x41"))
		sb.WriteString("`")
		return sb.String()
	case "tagged":
		return g.pick("tag", "f", "String.raw", "(function(s) { return s; })", "(function(s, ...v) { return s.raw.length + v.length; })", "o.m") + "`a${" + g.expr(d-1) + "}b" + g.pick("badesc", "", "\\unicode", "\\xg", "${1}") + "`"
	case "regex":
		if g.o.NoRegexp {
			return g.lit()
		}
		re := g.pick("re", "/a/", "/a+b*/g", "/(x)(?<n>y)?/", "/[a-z\\d]/i", "/^$/m", "/./su", "/\\u{1F600}/u", "/(?=a)b|c/", "/(?<!a)b/", "/(a)\\1/", "/\\k<n>(?<n>a)/", "/[^]/y", "/a{2,3}?/", "/\\bfoo\\B/", "/[\\s\\S]/d", "/(?:a|b)*c/", "/\\//", "/[/]/", "/\\p{L}/u")
		return g.pick("reuse", re, re+".test(s)", re+".exec(\"abcxy\")", "s.replace("+re+", \"$1\")", "\"aXbxc\".split("+re+")", "s.match("+re+")", re+".lastIndex", re+"[Symbol.replace](s, \"r\")")
	case "optchain":
		return g.expr(d-1) + g.alt("oc",
			func() string { return "?." + g.prop() },
			func() string { return "?.[" + g.expr(d-1) + "]" },
			func() string { return "?.(" + g.args(d-1) + ")" },
			func() string { return "?." + g.prop() + "?.(" + g.args(d-1) + ")" },
			func() string { return "?." + g.prop() + "." + g.prop() })
	case "spread":
		return "f(..." + g.pickOr("spc", func() string { return g.expr(d - 1) }, "c", "arr", "s", "it", "[]") + ")"
	case "yield":
		if g.o.inGen {
			return "(" + g.alt("y",
				func() string { return "yield" },
				func() string { return "yield " + g.expr(d-1) },
				func() string {
					return "yield* " + g.pickOr("ystar", func() string { return g.expr(d - 1) }, "c", "it", "[1,2]", "(function*(){ yield 1; return 2; })()")
				}) + ")"
		}
		return g.pick("ynongen", "yield", g.ident())
	case "await":
		if g.o.inAsync {
			return "(await " + g.pickOr("aw", func() string { return g.expr(d - 1) }, "1", "o", "Promise.resolve(2)", "Promise.reject(3)", "{then: function(r) { r(4); }}") + ")"
		}
		return g.ident()
	case "super":
		if g.o.inMethod {
			return g.alt("sup",
				func() string { return "super." + g.prop() },
				func() string { return "super[" + g.expr(d-1) + "]" },
				func() string { return "super." + g.prop() + "(" + g.args(d-1) + ")" },
				func() string { return "(super." + g.prop() + " = " + g.expr(d-1) + ")" })
		}
		return g.ident()
	case "newtarget":
		if g.o.inFunc > 0 {
			return "new.target"
		}
		return g.lit()
	case "eval":
		if g.o.NoEval {
			return g.lit()
		}
		inner := g.pick("evsrc", "1", "x", "var ev = 1; ev", "let el = 2; el", "x = 5", "this", "arguments", "new.target", "(function() { return 1; })()", "a + b", "function evf() {} evf", "throw 1", "super.p", "yield", "{", "var a = 2")
		return g.alt("evform",
			func() string { return "eval(\"" + inner + "\")" },
			func() string { return "(0, eval)(\"" + inner + "\")" },
			func() string {
				return "new Function(\"p\", \"return " + g.pick("nfsrc", "p", "1", "this", "arguments.length", "p +") + "\")(" + g.args(d-1) + ")"
			},
			func() string { return "eval(\"(\" + f + \")\")" })
	case "paren":
		return "(" + g.expr(d-1) + ")"
	case "builtin":
		return g.alt("bi",
			func() string { return "Object.keys(" + g.expr(d-1) + ")" },
			func() string { return "Object.assign({}, " + g.expr(d-1) + ")" },
			func() string { return "JSON.stringify(" + g.expr(d-1) + ")" },
			func() string { return "JSON.parse(\"[1,{\\\"a\\\":2}]\")" },
			func() string { return "Math.max(" + g.args(d-1) + ")" },
			func() string {
				return "Array.from(" + g.pickOr("afrom", func() string { return g.expr(d - 1) }, "c", "it", "s", "{length: 2}") + ")"
			},
			func() string { return "Array.isArray(" + g.expr(d-1) + ")" },
			func() string {
				return "Object.defineProperty({}, \"k\", {value: " + g.expr(d-1) + ", writable: false})"
			},
			func() string { return "Object.freeze(" + g.expr(d-1) + ")" },
			func() string { return "Reflect.ownKeys(" + g.expr(d-1) + ")" },
			func() string {
				return "new Proxy(" + g.pick("ptarget", "o", "{}", "f", "[]") + ", {get: function(t, k) { return k; }, has: function() { return true; }})"
			},
			func() string { return "Symbol.iterator in " + g.expr(d-1) },
			func() string { return "String(" + g.expr(d-1) + ")" },
			func() string { return "Number(" + g.expr(d-1) + ")" },
			func() string { return "parseInt(" + g.expr(d-1) + ")" },
			func() string { return "Object.getOwnPropertyDescriptor(o, \"g\")" },
			func() string { return "Promise.resolve(" + g.expr(d-1) + ").then(function(v) { return v; })" },
			func() string { return "new Map([[1, " + g.expr(d-1) + "]]).get(1)" },
			func() string { return "new Set(c).has(" + g.expr(d-1) + ")" },
			func() string { return "Object.entries(" + g.expr(d-1) + ")" },
			func() string { return "structuredClone" },
			func() string { return "globalThis.x" },
			func() string { return "typeof undeclaredVar" },
			func() string { return "Object.getPrototypeOf(" + g.expr(d-1) + ")" },
			func() string {
				return "Function.prototype.toString.call(" + g.pick("fts", "f", "g", "h(1)", "o.m", "class {}", "Math.max") + ")"
			},
			func() string { return "new Date(0).getTime()" },
			func() string { return "new Uint8Array([1,2,3]).map(function(v) { return v * 2; })" },
			func() string { return "String.fromCharCode(65, " + g.expr(d-1) + ")" },
			func() string { return "Number.prototype.toFixed.call(" + g.expr(d-1) + ", 2)" },
			func() string { return "encodeURIComponent(" + g.expr(d-1) + ")" },
		)
	case "importmeta":
		return g.pick("im", "o?.q?.r", "o.q.s[0]", "arr.length", "arguments", "typeof x", "void x", "x ? y : z")
	case "privin":
		if g.o.inClass > 0 {
			return g.pick("priv", "this.#priv", "(#priv in o)", "this.#pm?.()", "(this.#priv = 1)", "this.#priv++", "o?.#priv")
		}
		return g.lit()
	}
	return g.lit()
}

func (g *syn) unaryOperand(d int) string {
	switch g.n("uok", 0, 4) {
	case 0:
		return g.lit()
	case 1:
		return g.ident()
	case 2:
		return g.pick("delop", "o.p", "arr[0]", "o[\"q\"]", "x", "o?.p", "this.p", "f()")
	default:
		return "(" + g.expr(d) + ")"
	}
}

func (g *syn) callback(d int) string {
	switch g.n("cbk", 0, 4) {
	case 0:
		return "function(v, i) { " + g.funcBodyStmts(d) + "}"
	case 1:
		return "(v) => " + g.arrowBodyExpr(d)
	case 2:
		return g.pick("cbf", "f", "g", "String", "Boolean", "o.m", "undefined", "null")
	case 3:
		return "function(p, q) { return p < q ? -1 : p > q ? 1 : 0; }"
	default:
		return "(p, q) => " + g.arrowBodyExpr(d)
	}
}

func (g *syn) arrowBodyExpr(d int) string {
	e := g.expr(d)
	if strings.HasPrefix(e, "{") {
		return "(" + e + ")"
	}
	return e
}

func (g *syn) arrow(d int) string {
	save := *g.o
	defer func() {
		kinds, budget := g.o.Kinds, g.o.budget
		*g.o = save
		g.o.Kinds, g.o.budget = kinds, budget
	}()
	pre := ""
	if !g.o.NoAsync && g.coin("asyncarrow", 1, 5) {
		pre = "async "
		g.o.inAsync = true
	} else {
		g.o.inAsync = false
	}
	g.o.inGen = false
	var params string
	switch g.n("apk", 0, 3) {
	case 0:
		params = g.pick("ap1", "p", "v0", "a")
	case 1:
		params = "()"
	default:
		params = "(" + g.params(d-1) + ")"
	}
	if g.coin("arrowblock", 1, 2) {
		return pre + params + " => { " + g.funcBodyStmts(d-1) + "}"
	}
	return pre + params + " => " + g.arrowBodyExpr(d-1)
}
