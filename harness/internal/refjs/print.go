package refjs

import (
	"fmt"
	"strings"
)

// Print renders the AST as JavaScript source text. The text is fully
// parenthesised (every operator expression carries its own parentheses), never
// relies on automatic semicolon insertion and is a pure function of the AST.
func Print(n *Node) (text string) {
	defer func() {
		if r := recover(); r != nil {
			// only a malformed AST (missing children) can get here; such a
			// program is Unsupported for Run as well
			text = fmt.Sprintf("/* malformed AST: %v */", r)
		}
	}()
	var p printer
	switch {
	case n == nil:
	case n.K == "program":
		p.stmts(n.Kids, 0)
	case isStmtKind(n.K):
		p.stmt(n, 0)
	default:
		p.b.WriteString(p.expr(n))
	}
	return p.b.String()
}

func isStmtKind(k string) bool {
	switch k {
	case "directive", "block", "empty", "expr", "if", "for", "forin", "forof", "while", "dowhile",
		"continue", "break", "return", "throw", "try", "switch", "labeled", "with", "var",
		"funcdecl", "classdecl":
		return true
	}
	return false
}

type printer struct {
	b strings.Builder
}

func (p *printer) indent(d int) {
	for i := 0; i < d; i++ {
		p.b.WriteString("  ")
	}
}

func (p *printer) stmts(list []*Node, d int) {
	for _, s := range list {
		p.stmt(s, d)
	}
}

// endsWithOpenIf reports whether the text of s would end with an `if` lacking
// an else, so that a following `else` would attach to the wrong `if`.
func endsWithOpenIf(s *Node) bool {
	for s != nil {
		switch s.K {
		case "if":
			if s.kid(2) == nil {
				return true
			}
			s = s.kid(2)
		case "labeled":
			s = s.kid(0)
		case "for":
			s = s.kid(3)
		case "forin", "forof":
			s = s.kid(2)
		case "while", "with":
			s = s.kid(1)
		default:
			return false
		}
	}
	return false
}

// sub prints a sub-statement (loop body etc.) on its own lines.
func (p *printer) sub(s *Node, d int) {
	if s != nil && s.K == "block" {
		p.stmt(s, d)
		return
	}
	p.stmt(s, d+1)
}

func (p *printer) line(d int, s string) {
	p.indent(d)
	p.b.WriteString(s)
	p.b.WriteByte('\n')
}

func (p *printer) block(n *Node, d int, head string) {
	p.line(d, head+"{")
	if n != nil {
		p.stmts(n.Kids, d+1)
	}
	p.line(d, "}")
}

func (p *printer) stmt(n *Node, d int) {
	if n == nil {
		p.line(d, ";")
		return
	}
	switch n.K {
	case "directive":
		p.line(d, quoteJS(n.S)+";")
	case "block":
		p.block(n, d, "")
	case "empty":
		p.line(d, ";")
	case "expr":
		p.line(d, p.exprStmtText(n.kid(0))+";")
	case "if":
		p.line(d, "if ("+p.expr(n.kid(0))+")")
		cons, alt := n.kid(1), n.kid(2)
		if alt != nil && endsWithOpenIf(cons) {
			p.line(d, "{")
			p.stmt(cons, d+1)
			p.line(d, "}")
		} else {
			p.sub(cons, d)
		}
		if alt != nil {
			p.line(d, "else")
			p.sub(alt, d)
		}
	case "for":
		init := ""
		if i := n.kid(0); i != nil {
			if i.K == "var" {
				init = p.varDecl(i)
			} else {
				init = p.headExpr(i)
			}
		}
		test, upd := "", ""
		if n.kid(1) != nil {
			test = p.expr(n.kid(1))
		}
		if n.kid(2) != nil {
			upd = p.expr(n.kid(2))
		}
		p.line(d, "for ("+init+"; "+test+"; "+upd+")")
		p.sub(n.kid(3), d)
	case "forin", "forof":
		head := ""
		if h := n.kid(0); h != nil && h.K == "var" {
			head = p.varDecl(h)
		} else {
			head = p.target(n.kid(0))
		}
		kw := " in "
		if n.K == "forof" {
			kw = " of "
		}
		p.line(d, "for ("+head+kw+p.expr(n.kid(1))+")")
		p.sub(n.kid(2), d)
	case "while":
		p.line(d, "while ("+p.expr(n.kid(0))+")")
		p.sub(n.kid(1), d)
	case "dowhile":
		p.line(d, "do")
		p.sub(n.kid(0), d)
		p.line(d, "while ("+p.expr(n.kid(1))+");")
	case "continue", "break":
		s := n.K
		if n.S != "" {
			s += " " + n.S
		}
		p.line(d, s+";")
	case "return":
		if n.kid(0) == nil {
			p.line(d, "return;")
		} else {
			p.line(d, "return "+p.expr(n.kid(0))+";")
		}
	case "throw":
		p.line(d, "throw "+p.expr(n.kid(0))+";")
	case "try":
		p.block(n.kid(0), d, "try ")
		if n.kid(2) != nil {
			if n.kid(1) != nil {
				p.block(n.kid(2), d, "catch ("+p.target(n.kid(1))+") ")
			} else {
				p.block(n.kid(2), d, "catch ")
			}
		}
		if n.kid(3) != nil {
			p.block(n.kid(3), d, "finally ")
		}
	case "switch":
		p.line(d, "switch ("+p.expr(n.kid(0))+") {")
		for _, c := range n.kidsFrom(1) {
			if c.kid(0) == nil {
				p.line(d, "default:")
			} else {
				p.line(d, "case "+p.expr(c.kid(0))+":")
			}
			p.stmts(c.kidsFrom(1), d+1)
		}
		p.line(d, "}")
	case "labeled":
		p.line(d, n.S+":")
		p.stmt(n.kid(0), d)
	case "with":
		p.line(d, "with ("+p.expr(n.kid(0))+")")
		p.sub(n.kid(1), d)
	case "var":
		p.line(d, p.varDecl(n)+";")
	case "funcdecl":
		p.line(d, p.function(n))
	case "classdecl":
		p.line(d, p.class(n))
	default:
		p.line(d, "/* unknown statement kind "+n.K+" */;")
	}
}

// exprStmtText prints an expression in statement position: it must not begin
// with `{`, `function`, `class`, `async function` or `let [`, and a bare string
// literal would be taken for a directive, so those are wrapped in parentheses.
func (p *printer) exprStmtText(e *Node) string {
	s := p.expr(e)
	if e != nil && e.K == "str" {
		return "(" + s + ")"
	}
	for _, pre := range []string{"{", "function", "class", "async", "let"} {
		if strings.HasPrefix(s, pre) {
			return "(" + s + ")"
		}
	}
	return s
}

// headExpr prints the init expression of a for(;;) head (`in` is not allowed
// unparenthesised there; every bin carries its own parentheses so only the
// start tokens matter).
func (p *printer) headExpr(e *Node) string {
	s := p.expr(e)
	if strings.HasPrefix(s, "let") {
		return "(" + s + ")"
	}
	return s
}

func (p *printer) varDecl(n *Node) string {
	var parts []string
	for _, dcl := range n.Kids {
		s := p.target(dcl.kid(0))
		if dcl.kid(1) != nil {
			s += " = " + p.expr(dcl.kid(1))
		}
		parts = append(parts, s)
	}
	return n.A + " " + strings.Join(parts, ", ")
}

// target prints a binding / assignment target or pattern element.
func (p *printer) target(n *Node) string {
	if n == nil {
		return ""
	}
	switch n.K {
	case "arrpat":
		var parts []string
		for _, e := range n.Kids {
			parts = append(parts, p.target(e))
		}
		s := strings.Join(parts, ", ")
		if len(n.Kids) > 0 && n.Kids[len(n.Kids)-1] == nil {
			s += ","
		}
		return "[" + s + "]"
	case "objpat":
		var parts []string
		for _, e := range n.Kids {
			parts = append(parts, p.target(e))
		}
		return "{" + strings.Join(parts, ", ") + "}"
	case "patprop":
		if n.A == "shorthand" {
			return p.target(n.kid(1))
		}
		return p.propKey(n.kid(0), n.B) + ": " + p.target(n.kid(1))
	case "default":
		return p.target(n.kid(0)) + " = " + p.expr(n.kid(1))
	case "rest":
		return "..." + p.target(n.kid(0))
	}
	return p.expr(n)
}

func isIdentName(s string) bool {
	if s == "" {
		return false
	}
	for i := 0; i < len(s); i++ {
		c := s[i]
		switch {
		case c == '_' || c == '$' || (c >= 'a' && c <= 'z') || (c >= 'A' && c <= 'Z'):
		case c >= '0' && c <= '9' && i > 0:
		default:
			return false
		}
	}
	return true
}

// propKey prints a property key of an object literal, class or pattern.
func (p *printer) propKey(k *Node, computed bool) string {
	if computed {
		return "[" + p.expr(k) + "]"
	}
	if k == nil {
		return "/*nokey*/"
	}
	switch k.K {
	case "num":
		return numLit(k.N)
	case "str", "id":
		switch k.S {
		case "get", "set", "static", "async":
			return quoteJS(k.S)
		}
		if isIdentName(k.S) {
			return k.S
		}
		return quoteJS(k.S)
	}
	return "[" + p.expr(k) + "]"
}

func (p *printer) params(n *Node) string {
	var parts []string
	if n != nil {
		for _, e := range n.Kids {
			parts = append(parts, p.target(e))
		}
	}
	return "(" + strings.Join(parts, ", ") + ")"
}

func (p *printer) body(n *Node) string {
	var q printer
	if n != nil {
		q.stmts(n.Kids, 1)
	}
	return "{\n" + q.b.String() + "}"
}

// function prints function expressions and declarations (not methods).
func (p *printer) function(n *Node) string {
	ps, body := n.kid(0), n.kid(1)
	switch n.A {
	case "arrow", "asyncarrow":
		pre := ""
		if n.A == "asyncarrow" {
			pre = "async "
		}
		if n.B {
			return "(" + pre + p.params(ps) + " => (" + p.expr(body) + "))"
		}
		return "(" + pre + p.params(ps) + " => " + p.body(body) + ")"
	case "generator":
		return "function* " + n.S + p.params(ps) + " " + p.body(body)
	case "async":
		return "async function " + n.S + p.params(ps) + " " + p.body(body)
	case "function":
		return "function " + n.S + p.params(ps) + " " + p.body(body)
	}
	// a method-flavoured function outside a method position cannot be printed
	return "/* bad function flavour " + n.A + " */ function " + n.S + p.params(ps) + " " + p.body(body)
}

// methodText prints `key(params) {body}` with the prefix required by the flavour.
func (p *printer) methodText(kind string, key string, fn *Node) string {
	pre := ""
	switch kind {
	case "get":
		pre = "get "
	case "set":
		pre = "set "
	default:
		switch fn.A {
		case "genmethod", "generator":
			pre = "*"
		case "asyncmethod", "async":
			pre = "async "
		}
	}
	return pre + key + p.params(fn.kid(0)) + " " + p.body(fn.kid(1))
}

func (p *printer) class(n *Node) string {
	s := "class"
	if n.S != "" {
		s += " " + n.S
	}
	if h := n.kid(0); h != nil {
		s += " extends " + p.lhs(h)
	}
	s += " {\n"
	for _, m := range n.kidsFrom(1) {
		line := ""
		if m.S == "static" {
			line = "static "
		}
		key := p.propKey(m.kid(0), m.B)
		switch m.A {
		case "field":
			line += key
			if m.kid(1) != nil {
				line += " = " + p.expr(m.kid(1))
			}
			line += ";"
		default:
			line += p.methodText(m.A, key, m.kid(1))
		}
		s += indentText(line) + "\n"
	}
	return s + "}"
}

func indentText(s string) string {
	return "  " + strings.ReplaceAll(s, "\n", "\n  ")
}

// bare reports whether n prints as a MemberExpression / CallExpression /
// PrimaryExpression that may be followed by `.x`, `[k]` or `(args)` directly.
func bare(n *Node) bool {
	switch n.K {
	case "id", "this", "dot", "idx", "call", "paren", "str", "tmpl", "arr",
		"superdot", "superidx", "supercall", "new", "bool", "null", "eval":
		return true
	}
	return false
}

// lhs prints n so that it can be the object of a member access or a callee.
func (p *printer) lhs(n *Node) string {
	s := p.expr(n)
	if n != nil && bare(n) {
		return s
	}
	if strings.HasPrefix(s, "(") && parenBalancedWhole(s) {
		return s
	}
	return "(" + s + ")"
}

// parenBalancedWhole reports whether the first '(' of s matches its last byte
// (so s is already a single parenthesised unit). String contents are skipped.
func parenBalancedWhole(s string) bool {
	depth := 0
	for i := 0; i < len(s); i++ {
		switch c := s[i]; c {
		case '"', '`', '\'':
			// skip the literal
			j := i + 1
			for j < len(s) && s[j] != c {
				if s[j] == '\\' {
					j++
				}
				j++
			}
			i = j
		case '(':
			depth++
		case ')':
			depth--
			if depth == 0 {
				return i == len(s)-1
			}
		}
	}
	return false
}

// newCallee: the callee of `new` must not contain a call or an optional link.
func simpleMember(n *Node) bool {
	switch n.K {
	case "id", "this":
		return true
	case "dot":
		return !n.B && simpleMember(n.kid(0))
	}
	return false
}

func (p *printer) args(list []*Node) string {
	var parts []string
	for _, a := range list {
		parts = append(parts, p.expr(a))
	}
	return "(" + strings.Join(parts, ", ") + ")"
}

func (p *printer) expr(n *Node) string {
	if n == nil {
		return "/*nil*/"
	}
	switch n.K {
	case "num":
		return numLit(n.N)
	case "str":
		return quoteJS(n.S)
	case "bool":
		if n.B {
			return "true"
		}
		return "false"
	case "null":
		return "null"
	case "id":
		return n.S
	case "this":
		return "this"
	case "tmpl":
		var b strings.Builder
		b.WriteByte('`')
		for i, k := range n.Kids {
			if i%2 == 0 {
				b.WriteString(templateChars(k.S))
			} else {
				b.WriteString("${" + p.expr(k) + "}")
			}
		}
		b.WriteByte('`')
		return b.String()
	case "arr":
		var parts []string
		for _, e := range n.Kids {
			if e == nil {
				parts = append(parts, "")
			} else {
				parts = append(parts, p.expr(e))
			}
		}
		s := strings.Join(parts, ", ")
		if len(n.Kids) > 0 && n.Kids[len(n.Kids)-1] == nil {
			s += ","
		}
		return "[" + s + "]"
	case "spread":
		return "..." + p.expr(n.kid(0))
	case "obj":
		var parts []string
		for _, pr := range n.Kids {
			parts = append(parts, p.prop(pr))
		}
		return "{" + strings.Join(parts, ", ") + "}"
	case "func":
		return p.function(n)
	case "class":
		return p.class(n)
	case "dot":
		if n.B {
			return p.lhs(n.kid(0)) + "?." + n.S
		}
		return p.lhs(n.kid(0)) + "." + n.S
	case "idx":
		if n.B {
			return p.lhs(n.kid(0)) + "?.[" + p.expr(n.kid(1)) + "]"
		}
		return p.lhs(n.kid(0)) + "[" + p.expr(n.kid(1)) + "]"
	case "call":
		if n.B {
			return p.lhs(n.kid(0)) + "?." + p.args(n.kidsFrom(1))
		}
		return p.lhs(n.kid(0)) + p.args(n.kidsFrom(1))
	case "new":
		c := n.kid(0)
		cs := p.expr(c)
		if !simpleMember(c) {
			if !(strings.HasPrefix(cs, "(") && parenBalancedWhole(cs)) {
				cs = "(" + cs + ")"
			}
		}
		return "new " + cs + p.args(n.kidsFrom(1))
	case "unary":
		return "(" + n.S + " " + p.expr(n.kid(0)) + ")"
	case "update":
		if n.B {
			return "(" + n.S + p.target(n.kid(0)) + ")"
		}
		return "(" + p.target(n.kid(0)) + n.S + ")"
	case "bin", "logical":
		return "(" + p.expr(n.kid(0)) + " " + n.S + " " + p.expr(n.kid(1)) + ")"
	case "cond":
		return "(" + p.expr(n.kid(0)) + " ? " + p.expr(n.kid(1)) + " : " + p.expr(n.kid(2)) + ")"
	case "assign":
		return "(" + p.target(n.kid(0)) + " " + n.S + " " + p.expr(n.kid(1)) + ")"
	case "seq":
		var parts []string
		for _, e := range n.Kids {
			parts = append(parts, p.expr(e))
		}
		return "(" + strings.Join(parts, ", ") + ")"
	case "yield":
		kw := "yield"
		if n.B {
			kw = "yield*"
		}
		if n.kid(0) == nil {
			return "(" + kw + ")"
		}
		return "(" + kw + " " + p.expr(n.kid(0)) + ")"
	case "await":
		return "(await " + p.expr(n.kid(0)) + ")"
	case "eval":
		return "eval(" + quoteJS(strings.TrimRight(Print(n.kid(0)), "\n")) + ")"
	case "superdot":
		return "super." + n.S
	case "superidx":
		return "super[" + p.expr(n.kid(0)) + "]"
	case "supercall":
		return "super" + p.args(n.Kids)
	case "newtarget":
		return "new.target"
	case "paren":
		return "(" + p.expr(n.kid(0)) + ")"
	case "arrpat", "objpat", "default", "rest", "patprop":
		return p.target(n)
	}
	return "/* unknown expression kind " + n.K + " */"
}

func (p *printer) prop(n *Node) string {
	switch n.A {
	case "spread":
		return "..." + p.expr(n.kid(0))
	case "shorthand":
		return p.expr(n.kid(1))
	case "method", "get", "set":
		return p.methodText(n.A, p.propKey(n.kid(0), n.B), n.kid(1))
	}
	return p.propKey(n.kid(0), n.B) + ": " + p.expr(n.kid(1))
}

// numLit prints a non-negative finite number literal.
func numLit(f float64) string {
	return numberToString(f)
}

// quoteJS prints s as a double-quoted JavaScript string literal (ASCII output).
func quoteJS(s string) string {
	var b strings.Builder
	b.WriteByte('"')
	for _, r := range s {
		switch {
		case r == '"':
			b.WriteString(`\"`)
		case r == '\\':
			b.WriteString(`\\`)
		case r == '\n':
			b.WriteString(`\n`)
		case r == '\r':
			b.WriteString(`\r`)
		case r == '\t':
			b.WriteString(`\t`)
		case r < 0x20 || r == 0x7f:
			fmt.Fprintf(&b, `\x%02x`, r)
		case r < 0x7f:
			b.WriteRune(r)
		case r <= 0xffff:
			fmt.Fprintf(&b, `\u%04x`, r)
		default:
			fmt.Fprintf(&b, `\u{%x}`, r)
		}
	}
	b.WriteByte('"')
	return b.String()
}

// templateChars escapes the cooked string s for use between template delimiters.
func templateChars(s string) string {
	var b strings.Builder
	for i := 0; i < len(s); i++ {
		c := s[i]
		switch {
		case c == '`':
			b.WriteString("\\`")
		case c == '\\':
			b.WriteString(`\\`)
		case c == '$':
			b.WriteString(`\$`)
		case c == '\n':
			b.WriteString(`\n`)
		case c == '\r':
			b.WriteString(`\r`)
		case c < 0x20 || c >= 0x7f:
			fmt.Fprintf(&b, `\x%02x`, c)
		default:
			b.WriteByte(c)
		}
	}
	return b.String()
}
