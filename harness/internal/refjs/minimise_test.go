package refjs_test

import (
	"encoding/json"
	"os"
	"testing"

	. "verifh/internal/refjs"
)

// minimise greedily shrinks a disagreeing program on the AST: it deletes
// statements / elements and replaces expressions by their sub-expressions or
// by `0` for as long as refjs and goja still disagree (and refjs still accepts
// the program).
func minimise(prog *Node, opt Options) *Node {
	// the signature keeps the minimiser from drifting into a different disagreement
	sig := func(d *diff) string {
		h := d.goja.HostError
		if len(h) > 30 {
			h = h[:30]
		}
		return d.ref.Exception + "|" + d.goja.Exception + "|" + h
	}
	d0, skipped := compare("min", prog, opt)
	if skipped != "" || d0 == nil {
		return prog
	}
	want := sig(d0)
	disagrees := func(p *Node) bool {
		if os.Getenv("REFJS_SAVE_LAST") != "" {
			saveCase("/tmp/refjs-last-min.json", p, opt)
		}
		d, skipped := compare("min", p, opt)
		return skipped == "" && d != nil && sig(d) == want
	}
	cur := prog.Clone()
	for changed := true; changed; {
		changed = false
		// enumerate candidate edits by walking node paths
		var walk func(n *Node) bool
		walk = func(n *Node) bool {
			if n == nil {
				return false
			}
			for i := 0; i < len(n.Kids); i++ {
				k := n.Kids[i]
				if k == nil {
					continue
				}
				// 1. delete a list element
				if listKind(n.K, i) {
					saved := n.Kids
					n.Kids = append(append([]*Node{}, saved[:i]...), saved[i+1:]...)
					if disagrees(cur) {
						return true
					}
					n.Kids = saved
				}
				// 2. replace by a sub-node of the same syntactic class, or by a trivial node
				var repl []*Node
				if isStmtNode(k) {
					repl = append(repl, Empty())
					for _, kk := range k.Kids {
						if kk != nil && isStmtNode(kk) {
							repl = append(repl, kk)
						}
					}
				} else if isExprNode(k) && exprSlot(n.K, i) {
					repl = append(repl, Num(0))
					for _, kk := range k.Kids {
						if kk != nil && isExprNode(kk) {
							repl = append(repl, kk)
						}
					}
				}
				for _, r := range repl {
					if r == k || (r.K == k.K && len(r.Kids) == 0 && len(k.Kids) == 0) {
						continue
					}
					n.Kids[i] = r
					if disagrees(cur) {
						return true
					}
					n.Kids[i] = k
				}
				if walk(k) {
					return true
				}
			}
			return false
		}
		if walk(cur) {
			changed = true
		}
	}
	return cur
}

func listKind(k string, i int) bool {
	switch k {
	case "program", "block", "arr", "obj", "seq", "params":
		return true
	case "case", "call", "new", "switch", "class":
		return i >= 1
	}
	return false
}

func isStmtNode(n *Node) bool {
	switch n.K {
	case "block", "empty", "expr", "if", "for", "forin", "forof", "while", "dowhile", "continue", "break", "return",
		"throw", "try", "switch", "labeled", "with", "var", "funcdecl", "classdecl":
		return true
	}
	return false
}

func isExprNode(n *Node) bool {
	switch n.K {
	case "num", "str", "bool", "null", "id", "this", "tmpl", "arr", "obj", "func", "class", "dot", "idx", "call", "new",
		"unary", "update", "bin", "logical", "cond", "assign", "seq", "yield", "await", "eval", "paren":
		return true
	}
	return false
}

// exprSlot: child i of a node of kind k is a plain expression position.
func exprSlot(k string, i int) bool {
	switch k {
	case "expr", "return", "throw", "bin", "logical", "cond", "seq", "arr", "call", "new", "unary", "paren", "spread",
		"yield", "await", "tmpl", "if", "while", "switch":
		if k == "tmpl" {
			return i%2 == 1
		}
		if k == "if" || k == "while" || k == "switch" {
			return i == 0
		}
		return true
	case "assign", "declarator", "default", "dowhile", "prop", "idx":
		return i == 1
	case "dot", "with":
		return i == 0
	case "for":
		return i == 1 || i == 2
	case "forin", "forof":
		return i == 1
	}
	return false
}

type savedCase struct {
	Opt  Options
	Prog *Node
}

func saveCase(path string, prog *Node, opt Options) {
	b, _ := json.MarshalIndent(savedCase{opt, prog}, "", " ")
	_ = os.WriteFile(path, b, 0o644)
}

// TestReplayJSON re-judges (and minimises) a case saved by TestRandomPrograms:
// REFJS_REPLAY=/path/to/case.json
func TestReplayJSON(t *testing.T) {
	path := os.Getenv("REFJS_REPLAY")
	if path == "" {
		t.Skip()
	}
	b, err := os.ReadFile(path)
	if err != nil {
		t.Fatal(err)
	}
	var c savedCase
	if err := json.Unmarshal(b, &c); err != nil {
		t.Fatal(err)
	}
	m := minimise(c.Prog, c.Opt)
	d, skipped := compare("replay", m, c.Opt)
	t.Logf("skipped=%q\n%v", skipped, d)
}
