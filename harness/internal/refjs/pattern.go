package refjs

// Destructuring: 8.6.2 BindingInitialization, 8.6.3 IteratorBindingInitialization,
// 14.3.3 (binding patterns) and 13.15.5 DestructuringAssignmentEvaluation. The
// two families have the same shape and differ only in how a leaf target is
// resolved and stored, which bindMode captures.

// bindMode says how leaf targets are resolved and written:
//
//	assign           target is any simple assignment target; written with PutValue
//	!assign, env!=nil  target is an identifier bound in env; InitializeReferencedBinding
//	!assign, env==nil  target is an identifier resolved in the running lexical environment; PutValue (var, duplicate parameters)
type bindMode struct {
	assign bool
	env    Env
}

func isPattern(n *Node) bool { return n != nil && (n.K == "arrpat" || n.K == "objpat") }

func (it *Interp) resolveLeaf(target *Node, ctx *Ctx, m bindMode) *Ref {
	if m.assign {
		return it.evalLeafTargetRef(target, ctx)
	}
	if target.K != "id" {
		it.unsupported("binding target kind " + target.K)
	}
	if m.env != nil {
		return it.resolveBinding(target.S, m.env, ctx.strict)
	}
	return it.resolveBinding(target.S, ctx.lex, ctx.strict)
}

// evalLeafTargetRef evaluates a destructuring-assignment target or a for-in/of head that
// is not a declaration (see Options.EagerTargetBase).
func (it *Interp) evalLeafTargetRef(target *Node, ctx *Ctx) *Ref {
	r := it.evalTargetRef(target, ctx)
	if it.eagerTargetBase && r.isProperty() && r.thisValue == nil {
		it.requireObjectCoercible(r.base)
	}
	return r
}

func (it *Interp) storeLeaf(r *Ref, v Value, m bindMode) {
	if !m.assign && m.env != nil {
		it.initializeReferencedBinding(r, v)
		return
	}
	it.putValue(r, v)
}

// bindingInitialization binds value to an identifier or binding pattern.
func (it *Interp) bindingInitialization(target *Node, value Value, ctx *Ctx, env Env) {
	m := bindMode{env: env}
	if isPattern(target) {
		it.destructure(target, value, ctx, m)
		return
	}
	r := it.resolveLeaf(target, ctx, m)
	it.storeLeaf(r, value, m)
}

// bindElement binds one formal parameter / BindingElement (with optional
// initialiser) to the already extracted value v.
func (it *Interp) bindElement(elem *Node, v Value, ctx *Ctx, env Env) {
	it.element(elem, ctx, bindMode{env: env}, func() Value { return v })
}

// destructuringAssignment is 13.15.5.2 DestructuringAssignmentEvaluation.
func (it *Interp) destructuringAssignment(pattern *Node, value Value, ctx *Ctx) {
	it.destructure(pattern, value, ctx, bindMode{assign: true})
}

// element implements SingleNameBinding / BindingElement / AssignmentElement:
// resolve the leaf first, obtain the value, apply the initialiser, store.
func (it *Interp) element(elem *Node, ctx *Ctx, m bindMode, getV func() Value) {
	it.tick()
	target, init := elem, (*Node)(nil)
	if elem.K == "default" {
		target, init = elem.kid(0), elem.kid(1)
	}
	var lref *Ref
	if !isPattern(target) {
		lref = it.resolveLeaf(target, ctx, m)
	}
	v := getV()
	if init != nil {
		if _, undef := v.(undefT); undef {
			if isAnonymousFunctionDefinition(init) && target.K == "id" {
				v = it.namedEvaluation(init, ctx, target.S)
			} else {
				v = it.evalExpr(init, ctx)
			}
		}
	}
	if isPattern(target) {
		it.destructure(target, v, ctx, m)
		return
	}
	it.storeLeaf(lref, v, m)
}

func (it *Interp) destructure(pattern *Node, value Value, ctx *Ctx, m bindMode) {
	it.tick()
	if pattern.K == "objpat" {
		it.destructureObject(pattern, value, ctx, m)
		return
	}
	// ArrayBindingPattern / ArrayAssignmentPattern
	rec := it.getIterator(value)
	c := it.catchAbrupt(func() Completion {
		it.destructureIterator(pattern, rec, ctx, m)
		return normal(nil)
	})
	if !rec.done {
		c = it.iteratorClose(rec, c)
	}
	it.rethrow(c)
}

func (it *Interp) destructureObject(pattern *Node, value Value, ctx *Ctx, m bindMode) {
	it.requireObjectCoercible(value)
	var excluded []PropKey
	for _, p := range pattern.Kids {
		it.tick()
		if p.K == "rest" {
			// RestBindingInitialization / RestDestructuringAssignmentEvaluation
			target := p.kid(0)
			var lref *Ref
			if !isPattern(target) {
				lref = it.resolveLeaf(target, ctx, m)
			}
			restObj := it.newObject(it.realm.ObjectPrototype)
			it.copyDataProperties(restObj, value, excluded)
			if isPattern(target) {
				it.destructure(target, restObj, ctx, m)
			} else {
				it.storeLeaf(lref, restObj, m)
			}
			continue
		}
		if p.K != "patprop" {
			it.unsupported("object pattern element kind " + p.K)
		}
		var key PropKey
		if p.A == "shorthand" {
			key = strKey(p.kid(0).S)
		} else {
			key = it.evalPropertyName(p.kid(0), p.B, ctx)
		}
		excluded = append(excluded, key)
		it.element(p.kid(1), ctx, m, func() Value { return it.getV(value, key) })
	}
}

func (it *Interp) destructureIterator(pattern *Node, rec *iterRecord, ctx *Ctx, m bindMode) {
	for _, e := range pattern.Kids {
		it.tick()
		switch {
		case e == nil:
			// Elision
			if !rec.done {
				it.iteratorStepValueNoValue(rec)
			}
		case e.K == "rest":
			target := e.kid(0)
			var lref *Ref
			if !isPattern(target) {
				lref = it.resolveLeaf(target, ctx, m)
			}
			var items []Value
			for !rec.done {
				v, done := it.iteratorStepValue(rec)
				if done {
					break
				}
				items = append(items, v)
			}
			a := it.newArray(items)
			if isPattern(target) {
				it.destructure(target, a, ctx, m)
			} else {
				it.storeLeaf(lref, a, m)
			}
		default:
			it.element(e, ctx, m, func() Value {
				if rec.done {
					return Undefined
				}
				v, done := it.iteratorStepValue(rec)
				if done {
					return Undefined
				}
				return v
			})
		}
	}
}

// iteratorStepValueNoValue performs IteratorStep for an elision: the value of
// the result is not read.
func (it *Interp) iteratorStepValueNoValue(rec *iterRecord) {
	ok := false
	defer func() {
		if !ok {
			rec.done = true
		}
	}()
	if it.iteratorStep(rec) == nil {
		rec.done = true
	}
	ok = true
}
