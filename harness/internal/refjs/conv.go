package refjs

import (
	"math"
	"math/big"
	"strconv"
	"strings"
)

// numberToString is Number::toString(x, 10) (6.1.6.1.20) on top of strconv's
// shortest round-tripping digits.
func numberToString(f float64) string {
	switch {
	case math.IsNaN(f):
		return "NaN"
	case f == 0:
		return "0"
	case math.IsInf(f, 1):
		return "Infinity"
	case math.IsInf(f, -1):
		return "-Infinity"
	case f < 0:
		return "-" + numberToString(-f)
	}
	s := strconv.FormatFloat(f, 'e', -1, 64) // d.ddddde±xx
	mant, expS, _ := strings.Cut(s, "e")
	e, _ := strconv.Atoi(expS)
	digits := strings.Replace(mant, ".", "", 1)
	k := len(digits)
	n := e + 1
	switch {
	case k <= n && n <= 21:
		return digits + strings.Repeat("0", n-k)
	case 0 < n && n <= 21:
		return digits[:n] + "." + digits[n:]
	case -6 < n && n <= 0:
		return "0." + strings.Repeat("0", -n) + digits
	}
	es := "+"
	ea := n - 1
	if ea < 0 {
		es = "-"
		ea = -ea
	}
	if k == 1 {
		return digits + "e" + es + strconv.Itoa(ea)
	}
	return digits[:1] + "." + digits[1:] + "e" + es + strconv.Itoa(ea)
}

// toBoolean is 7.1.2.
func toBoolean(v Value) bool {
	switch x := v.(type) {
	case undefT, nullT:
		return false
	case bool:
		return x
	case float64:
		return !(x == 0 || math.IsNaN(x))
	case string:
		return x != ""
	}
	return true
}

// toPrimitive is 7.1.1 (hint: "default", "number" or "string"). @@toPrimitive
// cannot be installed by J0 programs, and the built-ins that carry one
// (Symbol.prototype, Date.prototype) behave like OrdinaryToPrimitive here.
func (it *Interp) toPrimitive(v Value, hint string) Value {
	o, ok := v.(*Object)
	if !ok {
		return v
	}
	if hint == "default" {
		hint = "number"
	}
	// 7.1.1.1 OrdinaryToPrimitive
	order := [2]string{"valueOf", "toString"}
	if hint == "string" {
		order = [2]string{"toString", "valueOf"}
	}
	for _, name := range order {
		m := it.get(o, strKey(name), o)
		if isCallable(m) {
			r := it.call(m.(*Object), o, nil)
			if !isObject(r) {
				return r
			}
		}
	}
	it.throwError("TypeError", "Cannot convert object to primitive value")
	return nil
}

func isJSSpace(c byte) bool {
	switch c {
	case ' ', '\t', '\n', '\r', '\v', '\f':
		return true
	}
	return false
}

// stringToNumber is 7.1.4.1.1 StringToNumber for ASCII strings.
func stringToNumber(s string) float64 {
	i, j := 0, len(s)
	for i < j && isJSSpace(s[i]) {
		i++
	}
	for j > i && isJSSpace(s[j-1]) {
		j--
	}
	s = s[i:j]
	if s == "" {
		return 0
	}
	if len(s) > 2 && s[0] == '0' {
		base := 0
		switch s[1] {
		case 'x', 'X':
			base = 16
		case 'o', 'O':
			base = 8
		case 'b', 'B':
			base = 2
		}
		if base != 0 {
			n, ok := new(big.Int).SetString(s[2:], base)
			if !ok || strings.ContainsAny(s[2:], "+-_") {
				return math.NaN()
			}
			f, _ := new(big.Float).SetInt(n).Float64()
			return f
		}
	}
	// StrDecimalLiteral
	t := s
	neg := false
	if t[0] == '+' || t[0] == '-' {
		neg = t[0] == '-'
		t = t[1:]
	}
	if t == "Infinity" {
		if neg {
			return math.Inf(-1)
		}
		return math.Inf(1)
	}
	// digits [. digits] [e [+-] digits]  |  . digits [exp]
	k := 0
	nd := 0
	for k < len(t) && t[k] >= '0' && t[k] <= '9' {
		k++
		nd++
	}
	if k < len(t) && t[k] == '.' {
		k++
		for k < len(t) && t[k] >= '0' && t[k] <= '9' {
			k++
			nd++
		}
	}
	if nd == 0 {
		return math.NaN()
	}
	if k < len(t) && (t[k] == 'e' || t[k] == 'E') {
		k++
		if k < len(t) && (t[k] == '+' || t[k] == '-') {
			k++
		}
		ne := 0
		for k < len(t) && t[k] >= '0' && t[k] <= '9' {
			k++
			ne++
		}
		if ne == 0 {
			return math.NaN()
		}
	}
	if k != len(t) {
		return math.NaN()
	}
	f, err := strconv.ParseFloat(t, 64)
	if err != nil {
		// out of range: ParseFloat returns ±Inf (or 0) with ErrRange, which is the correctly rounded value
		if ne, ok := err.(*strconv.NumError); !ok || ne.Err != strconv.ErrRange {
			return math.NaN()
		}
	}
	if neg {
		f = -f
	}
	return f
}

// toNumber is 7.1.4.
func (it *Interp) toNumber(v Value) float64 {
	switch x := v.(type) {
	case undefT:
		return math.NaN()
	case nullT:
		return 0
	case bool:
		if x {
			return 1
		}
		return 0
	case float64:
		return x
	case string:
		return stringToNumber(x)
	case *Symbol:
		it.throwError("TypeError", "Cannot convert a Symbol value to a number")
	case *Object:
		return it.toNumber(it.toPrimitive(x, "number"))
	}
	panic("refjs: bad value")
}

// toNumeric is 7.1.3 (no BigInt in J0).
func (it *Interp) toNumeric(v Value) float64 { return it.toNumber(v) }

// toIntegerOrInfinity is 7.1.5.
func (it *Interp) toIntegerOrInfinity(v Value) float64 {
	n := it.toNumber(v)
	if math.IsNaN(n) || n == 0 {
		return 0
	}
	if math.IsInf(n, 0) {
		return n
	}
	return math.Trunc(n)
}

// modulo 2^32 of a finite double, exact.
func mod32(n float64) uint32 {
	if math.IsNaN(n) || math.IsInf(n, 0) || n == 0 {
		return 0
	}
	t := math.Trunc(n)
	m := math.Mod(t, 4294967296) // exact for doubles
	if m < 0 {
		m += 4294967296
	}
	return uint32(m)
}

func (it *Interp) toInt32(v Value) int32   { return int32(mod32(it.toNumber(v))) }
func (it *Interp) toUint32(v Value) uint32 { return mod32(it.toNumber(v)) }

// toLength is 7.1.20.
func (it *Interp) toLength(v Value) float64 {
	n := it.toIntegerOrInfinity(v)
	if n <= 0 {
		return 0
	}
	return math.Min(n, 9007199254740991)
}

// toString is 7.1.17.
func (it *Interp) toString(v Value) string {
	switch x := v.(type) {
	case undefT:
		return "undefined"
	case nullT:
		return "null"
	case bool:
		if x {
			return "true"
		}
		return "false"
	case float64:
		return numberToString(x)
	case string:
		return x
	case *Symbol:
		it.throwError("TypeError", "Cannot convert a Symbol value to a string")
	case *Object:
		return it.toString(it.toPrimitive(x, "string"))
	}
	panic("refjs: bad value")
}

// toPropertyKey is 7.1.19.
func (it *Interp) toPropertyKey(v Value) PropKey {
	p := it.toPrimitive(v, "string")
	if s, ok := p.(*Symbol); ok {
		return symKey(s)
	}
	return strKey(it.toString(p))
}

// toObject is 7.1.18.
func (it *Interp) toObject(v Value) *Object {
	switch x := v.(type) {
	case undefT, nullT:
		it.throwError("TypeError", "Cannot convert undefined or null to object")
	case bool:
		o := it.newObject(it.realm.BooleanPrototype)
		o.class, o.prim, o.hasPrim = "Boolean", x, true
		return o
	case float64:
		o := it.newObject(it.realm.NumberPrototype)
		o.class, o.prim, o.hasPrim = "Number", x, true
		return o
	case string:
		// 10.4.3.4 StringCreate
		o := it.newObject(it.realm.StringPrototype)
		o.class, o.prim, o.hasPrim = "String", x, true
		o.rawSet(strKey("length"), &Property{value: float64(len(x))})
		return o
	case *Symbol:
		o := it.newObject(it.realm.SymbolPrototype)
		o.class, o.prim, o.hasPrim = "Symbol", x, true
		return o
	case *Object:
		return x
	}
	panic("refjs: bad value")
}

// requireObjectCoercible is 7.2.1.
func (it *Interp) requireObjectCoercible(v Value) {
	if isNullish(v) {
		it.throwError("TypeError", "Cannot convert undefined or null to object")
	}
}

// sameValue is 7.2.10; sameValueZero is 7.2.11.
func sameValue(a, b Value) bool {
	if x, ok := a.(float64); ok {
		if y, ok := b.(float64); ok {
			if math.IsNaN(x) && math.IsNaN(y) {
				return true
			}
			if x == 0 && y == 0 {
				return math.Signbit(x) == math.Signbit(y)
			}
			return x == y
		}
		return false
	}
	return sameValueNonNumber(a, b)
}

func sameValueNonNumber(a, b Value) bool {
	switch x := a.(type) {
	case undefT:
		_, ok := b.(undefT)
		return ok
	case nullT:
		_, ok := b.(nullT)
		return ok
	case bool:
		y, ok := b.(bool)
		return ok && x == y
	case string:
		y, ok := b.(string)
		return ok && x == y
	case *Symbol:
		y, ok := b.(*Symbol)
		return ok && x == y
	case *Object:
		y, ok := b.(*Object)
		return ok && x == y
	}
	return false
}

// strictEquals is 7.2.16 IsStrictlyEqual.
func strictEquals(a, b Value) bool {
	if x, ok := a.(float64); ok {
		y, ok := b.(float64)
		return ok && x == y // NaN != NaN, +0 == -0
	}
	return sameValueNonNumber(a, b)
}

// looseEquals is 7.2.15 IsLooselyEqual.
func (it *Interp) looseEquals(a, b Value) bool {
	ta, tb := typeOfSpec(a), typeOfSpec(b)
	if ta == tb {
		return strictEquals(a, b)
	}
	if isNullish(a) && isNullish(b) {
		return true
	}
	switch {
	case ta == "number" && tb == "string":
		return it.looseEquals(a, stringToNumber(b.(string)))
	case ta == "string" && tb == "number":
		return it.looseEquals(stringToNumber(a.(string)), b)
	case ta == "boolean":
		return it.looseEquals(it.toNumber(a), b)
	case tb == "boolean":
		return it.looseEquals(a, it.toNumber(b))
	case (ta == "string" || ta == "number" || ta == "symbol") && tb == "object":
		return it.looseEquals(a, it.toPrimitive(b, "default"))
	case ta == "object" && (tb == "string" || tb == "number" || tb == "symbol"):
		return it.looseEquals(it.toPrimitive(a, "default"), b)
	}
	return false
}

// typeOfSpec names the ECMAScript language type of v.
func typeOfSpec(v Value) string {
	switch v.(type) {
	case undefT:
		return "undefined"
	case nullT:
		return "null"
	case bool:
		return "boolean"
	case float64:
		return "number"
	case string:
		return "string"
	case *Symbol:
		return "symbol"
	}
	return "object"
}

// isLessThan is 7.2.14 IsLessThan(x, y, LeftFirst); the result is 1 (true),
// 0 (false) or -1 (undefined).
func (it *Interp) isLessThan(x, y Value, leftFirst bool) int {
	var px, py Value
	if leftFirst {
		px = it.toPrimitive(x, "number")
		py = it.toPrimitive(y, "number")
	} else {
		py = it.toPrimitive(y, "number")
		px = it.toPrimitive(x, "number")
	}
	if sx, ok := px.(string); ok {
		if sy, ok := py.(string); ok {
			if sx < sy { // byte order == code unit order for ASCII
				return 1
			}
			return 0
		}
	}
	nx := it.toNumeric(px)
	ny := it.toNumeric(py)
	if math.IsNaN(nx) || math.IsNaN(ny) {
		return -1
	}
	if nx < ny {
		return 1
	}
	return 0
}
