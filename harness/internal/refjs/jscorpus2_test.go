package refjs_test

func init() {
	jsCorpus = append(jsCorpus, []jsCase{
		{"params-default-scope", anyMode, `
var x = 'outer';
function f(a, b = a + 1, c = () => [a, b, x]) { var x = 'body'; a = 10; return [a, b, c(), x]; }
log(f(1)); log(f(1, 5)); log(f.length);
function g(a = 1, b) {} log(g.length);
function h(p = x, q = () => p) { var p; log(p); p = 'changed'; return q(); }
log(h()); log(h('arg'));
function k(a, b = (a = 'set', 2)) { return [a, b, arguments[0]]; } log(k(1));
function m(a = eval("var ev1 = 5; a1"), a1 = 3) { return typeof ev1; }
try { log(m()); } catch (e) { log(e); }
`},
		{"params-rest-destructure", anyMode, `
function f(a, ...r) { return [a, r, arguments.length]; } log(f()); log(f(1)); log(f(1, 2, 3)); log(f.length);
function g({a, b: [c, d = 4], ...rest}, [e, , f2 = a] = []) { return [a, c, d, rest, e, f2]; }
log(g({a: 1, b: [2], z: 9, y: 8}, [5, 6])); log(g({a: 1, b: []})); try { g({a: 1}); } catch (e) { log(e); }
try { g(); } catch (e) { log(e); }
var h = ({x = 1} = {}, ...[y, z = x]) => [x, y, z]; log(h()); log(h({x: 5}, 6)); log(h.length);
`},
		{"arguments-mapped", sloppyOnly, `
function f(a, b) { arguments[0] = 'A'; b = 'B'; return [a, b, arguments[0], arguments[1], arguments.length]; }
log(f(1, 2)); log(f(1)); log(f());
function g(a) { delete arguments[0]; arguments[0] = 'x'; return [a, arguments[0]]; } log(g(1));
function h(a) { Object.defineProperty(arguments, '0', {value: 'v', writable: false}); a = 'later'; return [a, arguments[0]]; } log(h(1));
function k(a, a2) { return arguments; } log(k(1, 2, 3)); log(Object.getOwnPropertyNames(k(1, 2))); log(typeof k().callee);
function d(a, a) { return [a, arguments[0], arguments[1]]; } log(d(1, 2));
function m(a) { a = 2; return arguments[0]; } log(m(1)); log(m());
function it2() { var r = []; for (var v of arguments) r.push(v); return r; } log(it2(1, 2, 3));
`},
		{"arguments-unmapped", anyMode, `
function f(a, b = 2) { arguments[0] = 'A'; b = 'B'; return [a, b, arguments[0], arguments[1], arguments.length]; }
log(f(1, 2)); log(f(1));
function g(a) { 'use strict'; arguments[0] = 'x'; a = 'y'; return [a, arguments[0]]; } log(g(1));
function h() { 'use strict'; try { return arguments.callee; } catch (e) { return e; } } log(h());
function k(...r) { return arguments.length + r.length; } log(k(1, 2));
function outerOK() { arguments; var a = () => arguments[0]; return a(5); } log(outerOK(7));
`},
		{"goja-defect-arrow-arguments", anyMode, `function outer() { var a = () => arguments[0]; return a(5); } log(outer(7));`},
		{"goja-defect-arrow-arguments2", anyMode, `function outer6(x) { return (() => { return arguments[0]; })(1, 2); } log(outer6(7, 8, 9));`},
		{"arguments-shadow", sloppyOnly, `
function sh(arguments) { return arguments; } log(sh(3));
function sh2() { var arguments = 4; return arguments; } log(sh2(1));
function sh3() { var arguments; return typeof arguments; } log(sh3(1));
function sh4() { function arguments() {} return typeof arguments; } log(sh4(1));
`},
		{"destructuring-decl", anyMode, `
var [a, , b = 5, ...c] = [1, 2, undefined, 4, 5]; log([a, b, c]);
let {p, q: {r = 7} = {}, ...s} = {p: 1, t: 2, u: 3}; log([p, r, s]);
const [[x1, y1], {z1}] = [[1, 2], {z1: 3}]; log([x1, y1, z1]);
var {length} = 'abc'; log(length);
var [c0, c1] = 'xy'; log([c0, c1]);
try { var {n} = null; } catch (e) { log(e); }
try { var [m] = {}; } catch (e) { log(e); }
var {['co' + 'mp']: cv, 0: zero} = {comp: 1, 0: 'z'}; log([cv, zero]);
var fnn = 0; var {f1 = function() {}, f2 = () => {}, f3 = class {}} = {}; log([f1.name, f2.name, f3.name]);
var [g1 = function() {}] = []; log(g1.name);
`},
		{"destructuring-assign", anyMode, `
var a, b, o = {}, arr = [];
[a, b] = [1, 2]; log([a, b]); [a, b] = [b, a]; log([a, b]);
({a, b: o.x, c: arr[0] = 9, ...o.rest} = {a: 'A', b: 'B', d: 'D'}); log([a, o, arr]);
[o.y, ...arr] = 'hey'; log([o.y, arr]);
log(([a, b] = [7, 8, 9]).length);
var order = []; var t = { set p(v) { order.push('set p ' + v); }, set q(v) { order.push('set q ' + v); } };
function k(n) { order.push('key ' + n); return n; }
({[k('a')]: t.p, [k('b')]: t.q} = {get a() { order.push('get a'); return 1; }, get b() { order.push('get b'); return 2; }}); log(order);
var nm; [nm = function() {}] = []; log(nm.name); ({nm = () => {}} = {}); log(nm.name);
try { [a] = null; } catch (e) { log(e); }
try { ({a} = undefined); } catch (e) { log(e); }
var {} = 1; [] = []; ({} = 2); log('ok');
`},
		{"assign-order", anyMode, `
var order = []; function t(n, v) { order.push(n); return v; }
var o = {};
t('obj', o)[t('key', 'k')] = t('val', 1); log(order); order = [];
t('obj', o)[t('key', 'k')] += t('val', 1); log(order); log(o.k); order = [];
var x = 1; x += (x = 5, 10); log(x);
x = 1; x = x++ + x; log(x);
var a = [0, 0], i = 0; a[i++] = i; log(a); a[i] = i++; log([a, i]);
var u; try { u.p = t('rhs', 1); } catch (e) { log(e); } log(order); order = [];
try { null[t('k', 'p')] = t('rhs', 1); } catch (e) { log(e); } log(order); order = [];
var y = 0; y ||= t('or', 3); y &&= t('and', 4); y ??= t('nn', 5); log([y, order]); order = [];
var z = null; z ??= t('nn', 6); log([z, order]);
var fnm; fnm = function() {}; log(fnm.name); var fo = {}; fo.p = function() {}; log(fo.p.name); fnm ||= 0; var f2; f2 ??= () => {}; log(f2.name);
(fnm) = function() {}; log(fnm.name);
`},
		{"const-nonwritable", anyMode, `
const c = 1; try { c = 2; log('silent'); } catch (e) { log(e); } try { c++; } catch (e) { log(e); } try { c += 1; } catch (e) { log(e); } log(c);
var o = Object.freeze({a: 1}); try { o.a = 2; log('silent'); } catch (e) { log(e); } try { o.b = 2; log('silent'); } catch (e) { log(e); } try { log(delete o.a); } catch (e) { log(e); } log(o);
var g = { get x() { return 1; } }; try { g.x = 5; log('silent'); } catch (e) { log(e); } log(g.x);
var f = function me() { try { me = 1; log('silent'); } catch (e) { log(e); } return typeof me; }; log(f());
try { 'abc'.length = 1; log('silent'); } catch (e) { log(e); } try { 'abc'[0] = 'x'; log('silent'); } catch (e) { log(e); } try { (5).foo = 1; log('silent'); } catch (e) { log(e); }
try { undefined = 1; log('silent'); } catch (e) { log(e); } try { NaN++; log('silent'); } catch (e) { log(e); }
var arr = [1, 2, 3]; Object.defineProperty(arr, 'length', {writable: false}); try { arr.push(4); } catch (e) { log(e); } try { arr[5] = 1; log('silent'); } catch (e) { log(e); } log(arr);
`},
		{"update-ops", anyMode, `
var x = '5'; log(x++); log(x); log(--x); var o = {n: 1.5, s: 'a'}; log(o.n++); log(++o.n); log(o.s++); log(o.s);
var u; log(u++); log(u); var nl = null; log(++nl); var b = true; b++; log(b);
var ob = { valueOf() { log('valueOf'); return 41; } }; ob++; log(ob);
var arr = [1]; arr[0]++; ++arr[0]; log(arr); var k = 0; arr[k++]--; log([arr, k]);
try { var sy = Symbol(); sy++; } catch (e) { log(e); }
log(-x); log(+'3'); log(-'a'); log(+[]); log(+{}); log(+[5]); log(- -0); log(~~3.7); log(!0);
`},
		{"operators-conv", anyMode, `
var o = { valueOf() { log('vo'); return 2; }, toString() { log('ts'); return 'S'; } };
log(o + 1); log(o * 2); log(` + "`${o}`" + `); log(o + ''); log(String(o)); log(o == 2); log(o < 3); log([o] + ''); 
var p = { valueOf() { return {}; }, toString() { return 'P'; } }; log(p + 1); log(p * 1);
var q = { valueOf() { return {}; }, toString() { return {}; } }; try { q + 1; } catch (e) { log(e); }
var d = Object.create(null); try { d + ''; } catch (e) { log(e); }
log(1 + null); log(1 + undefined); log('a' + null); log(true + true); log([] + {}); log([1, [2, 3]] + ''); log([null, undefined, 1] + '');
log(null == 0); log(null >= 0); log(undefined == 0); log(NaN == NaN); log('' == 0); log('0' == false); log([] == false); log([0] == false); log([1] == 1); log({} == '[object Object]');
log(1 < 2 < 3); log(3 > 2 > 1); log('2' > '12'); log(2 > '12'); log('a' < 1); log(null < 1); log(undefined < 1); log({} < {}); 
var lo = []; var l = { valueOf() { lo.push('l'); return 1; } }, r = { valueOf() { lo.push('r'); return 2; } }; log(l < r); log(l > r); log(l <= r); log(l >= r); log(lo);
log(5 / 0); log(-5 % 5); log(5 % -3); log(2 ** -1); log((-8) ** (1 / 3)); log(0 * -1); log(1e21 + 1); log(0.1 + 0.2); log(123456789 * 987654321); log(1 / 3);
log(1 << 31); log(1 << 32); log(-1 >> 28); log(-1 >>> 28); log(2 ** 32 >> 0); log(2 ** 32 + 5 | 0); log(1.9 | 0); log(-1.9 | 0); log(NaN | 0); log('12' & '10'); log(5 ^ 3);
try { Symbol() + 1; } catch (e) { log(e); } try { ` + "`${Symbol()}`" + `; } catch (e) { log(e); } log(Symbol('d').toString()); log(String(Symbol('e'))); log(Symbol('x').description); log(Symbol().description);
log(typeof Symbol()); log(typeof function() {}); log(typeof class {}); log(typeof []); log(typeof 'x'); log(typeof 1); log(typeof true); log(typeof undefined);
`},
		{"in-instanceof-delete", anyMode, `
var o = {a: 1}; var p = Object.create(o); p.b = 2;
log('a' in p); log('b' in p); log('c' in p); log(0 in [1]); log(1 in [1]); log('length' in []); try { 'a' in 1; } catch (e) { log(e); }
function F() {} var f = new F(); log(f instanceof F); log(f instanceof Object); log({} instanceof F); log(1 instanceof F); 
try { f instanceof {}; } catch (e) { log(e); } try { f instanceof 1; } catch (e) { log(e); }
F.prototype = 5; try { f instanceof F; } catch (e) { log(e); } log(1 instanceof F);
var ar = () => {}; try { log({} instanceof ar); } catch (e) { log(e); }
log(delete o.a); log(o); log(delete o.zzz); log(delete 1); var arr = [1, 2, 3]; log(delete arr[1]); log(arr); log(arr.length);
try { log(delete arr.length); } catch (e) { log(e); }
try { log(delete Object.freeze({q: 1}).q); } catch (e) { log(e); }
log(delete p.a); log(p.a);
`},
		{"delete-ident", sloppyOnly, `
var v = 1; log(delete v); log(typeof v); eval("var ev = 2;"); log(delete ev); log(typeof ev); log(delete nosuch); 
function f(a) { var l; return [delete a, delete l, delete f]; } log(f(1));
gg = 1; log(delete gg); log(typeof gg);
`},
		{"logical-cond-comma", anyMode, `
log(0 && x1); log(1 && 2); log(0 || 'a'); log('' ?? 'b'); log(null ?? 'c'); log(undefined ?? null ?? 0);
log(1 ? 2 : 3); log('' ? 2 : 3); log((1, 2, 3)); var s = 0; log((s++, s++, s));
var x1;
log((1 || x1, 5)); log((null ?? x1, 6)); var t = (0 && x1, 8); log(t);
log(!(0 && x1)); log(typeof (0 && x1)); log((0 && x1) + 1); log([0 && x1, 1 || x1]);
if ((0 && x1, 1)) log('yes'); log((0 && x1) ? 'a' : 'b'); var sq = ((0 && x1), (1 || x1)); log(sq);
`},
		{"goja-defect-fold-and-comma-array", anyMode, `var x1; log([(0 && x1, 1), 2]);`},
		{"goja-defect-fold-and-comma-assign", anyMode, `var o = {}; o.a = (0 && 1, 7); log(o.a);`},
		{"goja-defect-fold-and-comma-arg", anyMode, `var x1; function f(a, b) { return a + b; } log(f((0 && x1, 1), 2));`},
		{"goja-defect-fold-and-comma-objlit", anyMode, `var x1; log({a: (0 && x1, 5)});`},
		{"template-literals", anyMode, "var a = 1, o = {toString() { log('ts'); return 'O'; }}; log(`x${a}y${o}z${[1, 2]}`); log(``); log(`${1}${2}`); log(`a\\`b\\${c}\\\\`); log(`l1\nl2`); var od = []; log(`${(od.push(1), 'p')}${(od.push(2), {toString() { od.push('t'); return 'q'; }})}${(od.push(3), 'r')}`); log(od);"},
	}...)
}
