package refjs

// Static semantics (8.2 Scope Analysis and friends).

// containsUseStrict is 11.2.1 FunctionBodyContainsUseStrict / the script
// directive prologue test.
func containsUseStrict(stmts []*Node) bool {
	for _, s := range stmts {
		if s == nil || s.K != "directive" {
			return false
		}
		if s.S == "use strict" {
			return true
		}
	}
	return false
}

// boundNames is 8.2.1 BoundNames for declarations, binding targets, patterns and parameter lists.
func boundNames(n *Node) []string {
	var out []string
	var walk func(n *Node)
	walk = func(n *Node) {
		if n == nil {
			return
		}
		switch n.K {
		case "id":
			out = append(out, n.S)
		case "var":
			for _, d := range n.Kids {
				walk(d.kid(0))
			}
		case "declarator":
			walk(n.kid(0))
		case "funcdecl", "classdecl":
			out = append(out, n.S)
		case "arrpat", "objpat", "params":
			for _, k := range n.Kids {
				walk(k)
			}
		case "patprop":
			walk(n.kid(1))
		case "default", "rest":
			walk(n.kid(0))
		}
	}
	walk(n)
	return out
}

func isConstDecl(n *Node) bool { return n.K == "var" && n.A == "const" }

// varScopedDeclarations is 8.2.7 VarScopedDeclarations (topLevel selects
// 8.2.11 TopLevelVarScopedDeclarations for the immediate statement list, where
// function declarations count as var declarations). The result holds "var"
// nodes (kind var), declarators are not split, and "funcdecl" nodes.
func varScopedDeclarations(stmts []*Node, topLevel bool) []*Node {
	var out []*Node
	var walk func(s *Node, top bool)
	walkList := func(list []*Node, top bool) {
		for _, s := range list {
			walk(s, top)
		}
	}
	walk = func(s *Node, top bool) {
		if s == nil {
			return
		}
		switch s.K {
		case "var":
			if s.A == "var" {
				out = append(out, s)
			}
		case "funcdecl":
			if top {
				out = append(out, s)
			}
		case "block":
			walkList(s.Kids, false)
		case "if":
			walk(s.kid(1), false)
			walk(s.kid(2), false)
		case "for":
			if i := s.kid(0); i != nil && i.K == "var" {
				walk(i, false)
			}
			walk(s.kid(3), false)
		case "forin", "forof":
			if h := s.kid(0); h != nil && h.K == "var" {
				walk(h, false)
			}
			walk(s.kid(2), false)
		case "while", "with":
			walk(s.kid(1), false)
		case "dowhile":
			walk(s.kid(0), false)
		case "labeled":
			walk(s.kid(0), top && s.kid(0) != nil && s.kid(0).K == "labeled")
		case "try":
			walk(s.kid(0), false)
			walk(s.kid(2), false)
			walk(s.kid(3), false)
		case "switch":
			for _, c := range s.kidsFrom(1) {
				walkList(c.kidsFrom(1), false)
			}
		}
	}
	walkList(stmts, topLevel)
	return out
}

// varDeclaredNames is 8.2.6 / 8.2.10 (names of varScopedDeclarations, duplicates kept).
func varDeclaredNames(stmts []*Node, topLevel bool) []string {
	var out []string
	for _, d := range varScopedDeclarations(stmts, topLevel) {
		out = append(out, boundNames(d)...)
	}
	return out
}

// lexicallyScopedDeclarations is 8.2.5 (topLevel: 8.2.9, where function
// declarations are excluded). Only the immediate statement list is inspected.
func lexicallyScopedDeclarations(stmts []*Node, topLevel bool) []*Node {
	var out []*Node
	for _, s := range stmts {
		if s == nil {
			continue
		}
		switch s.K {
		case "var":
			if s.A != "var" {
				out = append(out, s)
			}
		case "classdecl":
			out = append(out, s)
		case "funcdecl":
			if !topLevel {
				out = append(out, s)
			}
		}
	}
	return out
}

func lexicallyDeclaredNames(stmts []*Node, topLevel bool) []string {
	var out []string
	for _, d := range lexicallyScopedDeclarations(stmts, topLevel) {
		out = append(out, boundNames(d)...)
	}
	return out
}

// caseBlockStatements flattens the statement lists of all clauses of a switch.
func caseBlockStatements(sw *Node) []*Node {
	var out []*Node
	for _, c := range sw.kidsFrom(1) {
		out = append(out, c.kidsFrom(1)...)
	}
	return out
}

// isSimpleParameterList is 15.1.3.
func isSimpleParameterList(params *Node) bool {
	for _, p := range params.Kids {
		if p == nil || p.K != "id" {
			return false
		}
	}
	return true
}

// containsExpression is 15.1.2 ContainsExpression applied to a parameter list.
func containsExpression(n *Node) bool {
	if n == nil {
		return false
	}
	switch n.K {
	case "id":
		return false
	case "default":
		return true
	case "patprop":
		if n.B {
			return true
		}
		return containsExpression(n.kid(1))
	case "params", "arrpat", "objpat":
		for _, k := range n.Kids {
			if containsExpression(k) {
				return true
			}
		}
		return false
	case "rest":
		return containsExpression(n.kid(0))
	}
	return false
}

// expectedArgumentCount is 15.1.5.
func expectedArgumentCount(params *Node) int {
	c := 0
	for _, p := range params.Kids {
		if p == nil || p.K == "default" || p.K == "rest" {
			break
		}
		c++
	}
	return c
}

func hasDuplicates(names []string) bool {
	seen := map[string]bool{}
	for _, n := range names {
		if seen[n] {
			return true
		}
		seen[n] = true
	}
	return false
}

// isAnonymousFunctionDefinition is 8.4.? IsAnonymousFunctionDefinition:
// IsFunctionDefinition and not HasName, looking through parentheses.
func isAnonymousFunctionDefinition(n *Node) bool {
	for n != nil && n.K == "paren" {
		n = n.kid(0)
	}
	if n == nil {
		return false
	}
	switch n.K {
	case "func", "class":
		return n.S == ""
	}
	return false
}

func unparen(n *Node) *Node {
	for n != nil && n.K == "paren" {
		n = n.kid(0)
	}
	return n
}
