package refjs

import (
	"math"
	"strings"
)

// Realm holds the intrinsics (9.3).
type Realm struct {
	Global                     *Object
	ObjectPrototype            *Object
	FunctionPrototype          *Object
	ArrayPrototype             *Object
	StringPrototype            *Object
	NumberPrototype            *Object
	BooleanPrototype           *Object
	SymbolPrototype            *Object
	ErrorPrototype             *Object
	IteratorPrototype          *Object
	ArrayIteratorPrototype     *Object
	StringIteratorPrototype    *Object
	GeneratorFunctionPrototype *Object
	GeneratorPrototype         *Object
	AsyncFunctionPrototype     *Object
	Promise, PromisePrototype  *Object
	Array, Object              *Object
	ArrayProtoValues           *Object
	ThrowTypeError             *Object
	SymIterator, SymSpecies    *Symbol
	errorProtos                map[string]*Object
}

func arg(args []Value, i int) Value {
	if i < len(args) {
		return args[i]
	}
	return Undefined
}

func missingSet(names ...string) map[string]bool {
	m := map[string]bool{}
	for _, n := range names {
		m[n] = true
	}
	return m
}

// makeError creates an instance of a native error constructor.
func (it *Interp) makeError(name, msg string) *Object {
	proto := it.realm.errorProtos[name]
	if proto == nil {
		panic("refjs: unknown error type " + name)
	}
	e := it.newObject(proto)
	e.class = "Error"
	e.defHidden("message", msg)
	return e
}

func (it *Interp) method(o *Object, name string, length int, fn nativeFn) *Object {
	f := it.newNative(name, length, fn)
	o.defHidden(name, f)
	return f
}

// checkKnownGlobal makes a reference to a standard global that refjs does not
// provide Unsupported instead of a ReferenceError.
func (it *Interp) checkKnownGlobal(name string) {
	if it.realm.Global.missing[name] {
		it.unsupported("global " + name)
	}
}

func (it *Interp) initRealm() {
	r := &Realm{errorProtos: map[string]*Object{}}
	it.realm = r
	r.SymIterator = &Symbol{desc: "Symbol.iterator", hasDesc: true}
	r.SymSpecies = &Symbol{desc: "Symbol.species", hasDesc: true}

	r.ObjectPrototype = it.newObject(nil)
	r.ObjectPrototype.intrinsic = "Object.prototype"
	r.FunctionPrototype = it.newObject(r.ObjectPrototype)
	r.FunctionPrototype.class = "Function"
	r.FunctionPrototype.intrinsic = "Function.prototype"
	r.FunctionPrototype.fn = &FuncData{nativeName: "", strict: true, native: func(it *Interp, this Value, args []Value, nt Value) Value { return Undefined }}
	r.FunctionPrototype.rawSet(strKey("length"), &Property{value: float64(0), configurable: true})
	r.FunctionPrototype.rawSet(strKey("name"), &Property{value: "", configurable: true})

	g := it.newObject(r.ObjectPrototype)
	g.class = "global"
	g.intrinsic = "globalThis"
	r.Global = g
	it.global = &GlobalEnv{
		objRec:   &ObjEnv{obj: g},
		declRec:  newDeclEnv(nil),
		varNames: map[string]bool{},
		thisVal:  g,
	}
	g.missing = missingSet("Function", "Map", "Set", "WeakMap", "WeakSet", "WeakRef", "JSON", "Reflect", "Proxy",
		"Date", "RegExp", "parseInt", "parseFloat", "isFinite", "BigInt", "ArrayBuffer", "SharedArrayBuffer", "DataView",
		"Int8Array", "Uint8Array", "Uint8ClampedArray", "Int16Array", "Uint16Array", "Int32Array", "Uint32Array",
		"Float32Array", "Float64Array", "BigInt64Array", "BigUint64Array", "eval", "escape", "unescape",
		"encodeURIComponent", "decodeURIComponent", "encodeURI", "decodeURI", "EvalError", "URIError",
		"AggregateError", "FinalizationRegistry", "Atomics", "Intl", "console", "__log", "Iterator",
		"SuppressedError", "DisposableStack", "AsyncDisposableStack", "structuredClone", "queueMicrotask",
		"setTimeout", "setInterval", "clearTimeout", "clearInterval", "print", "require", "module", "exports")
	g.defHidden("globalThis", g)
	g.rawSet(strKey("undefined"), &Property{value: Undefined})
	g.rawSet(strKey("NaN"), &Property{value: math.NaN()})
	g.rawSet(strKey("Infinity"), &Property{value: math.Inf(1)})

	r.ThrowTypeError = it.newNative("", 0, func(it *Interp, this Value, args []Value, nt Value) Value {
		it.throwError("TypeError", "'caller', 'callee', and 'arguments' properties may not be accessed")
		return nil
	})
	r.ThrowTypeError.extensible = false

	it.setupObject(r)
	it.setupFunction(r)
	it.setupErrors(r)
	it.setupIterators(r)
	it.setupArray(r)
	it.setupPrimitives(r)
	it.setupPromise(r)
	g.defHidden("Promise", r.Promise)

	// Math
	m := it.newObject(r.ObjectPrototype)
	m.intrinsic, m.toStringTag = "Math", "Math"
	m.missing = missingSet("E", "LN10", "LN2", "LOG10E", "LOG2E", "PI", "SQRT1_2", "SQRT2", "acos", "acosh", "asin",
		"asinh", "atan", "atanh", "atan2", "cbrt", "ceil", "clz32", "cos", "cosh", "exp", "expm1", "fround", "hypot",
		"imul", "log", "log1p", "log10", "log2", "pow", "random", "round", "sign", "sin", "sinh", "sqrt", "tan", "tanh", "trunc", "f16round")
	g.defHidden("Math", m)
	minmax := func(isMax bool) nativeFn {
		return func(it *Interp, this Value, args []Value, nt Value) Value {
			coerced := make([]float64, len(args))
			for i, a := range args {
				coerced[i] = it.toNumber(a)
			}
			res := math.Inf(-1)
			if !isMax {
				res = math.Inf(1)
			}
			for _, n := range coerced {
				if math.IsNaN(n) {
					return math.NaN()
				}
				if isMax {
					if n > res || (n == 0 && res == 0 && !math.Signbit(n)) {
						res = n
					}
				} else {
					if n < res || (n == 0 && res == 0 && math.Signbit(n)) {
						res = n
					}
				}
			}
			return res
		}
	}
	it.method(m, "max", 2, minmax(true))
	it.method(m, "min", 2, minmax(false))
	it.method(m, "floor", 1, func(it *Interp, this Value, args []Value, nt Value) Value {
		return math.Floor(it.toNumber(arg(args, 0)))
	})
	it.method(m, "abs", 1, func(it *Interp, this Value, args []Value, nt Value) Value {
		return math.Abs(it.toNumber(arg(args, 0)))
	})

	it.method(g, "isNaN", 1, func(it *Interp, this Value, args []Value, nt Value) Value {
		return math.IsNaN(it.toNumber(arg(args, 0)))
	})
	it.method(g, "log", 1, func(it *Interp, this Value, args []Value, nt Value) Value {
		it.log = append(it.log, it.describe(arg(args, 0)))
		return Undefined
	})
	it.method(g, "describe", 1, func(it *Interp, this Value, args []Value, nt Value) Value {
		return it.describe(arg(args, 0))
	})
}

// ---- Object ----

// toPropertyDescriptor is 6.2.6.5; fromPropertyDescriptor is 6.2.6.4.
func (it *Interp) toPropertyDescriptor(v Value) PropDesc {
	o, ok := v.(*Object)
	if !ok {
		it.throwError("TypeError", "Property description must be an object")
	}
	var d PropDesc
	field := func(name string) (Value, bool) {
		if !it.hasProperty(o, strKey(name)) {
			return nil, false
		}
		return it.get(o, strKey(name), o), true
	}
	if v, ok := field("enumerable"); ok {
		d.enumerable, d.hasEnumerable = toBoolean(v), true
	}
	if v, ok := field("configurable"); ok {
		d.configurable, d.hasConfigurable = toBoolean(v), true
	}
	if v, ok := field("value"); ok {
		d.value, d.hasValue = v, true
	}
	if v, ok := field("writable"); ok {
		d.writable, d.hasWritable = toBoolean(v), true
	}
	if v, ok := field("get"); ok {
		if !isCallable(v) && v != Undefined {
			it.throwError("TypeError", "Getter must be a function")
		}
		d.get, d.hasGet = v, true
	}
	if v, ok := field("set"); ok {
		if !isCallable(v) && v != Undefined {
			it.throwError("TypeError", "Setter must be a function")
		}
		d.set, d.hasSet = v, true
	}
	if (d.hasGet || d.hasSet) && (d.hasValue || d.hasWritable) {
		it.throwError("TypeError", "Invalid property descriptor. Cannot both specify accessors and a value or writable attribute")
	}
	return d
}

func (it *Interp) fromPropertyDescriptor(p *Property) Value {
	if p == nil {
		return Undefined
	}
	o := it.newObject(it.realm.ObjectPrototype)
	if p.accessor {
		var g, s Value = Undefined, Undefined
		if p.get != nil {
			g = p.get
		}
		if p.set != nil {
			s = p.set
		}
		it.createDataPropertyOrThrow(o, strKey("get"), g)
		it.createDataPropertyOrThrow(o, strKey("set"), s)
	} else {
		it.createDataPropertyOrThrow(o, strKey("value"), p.value)
		it.createDataPropertyOrThrow(o, strKey("writable"), p.writable)
	}
	it.createDataPropertyOrThrow(o, strKey("enumerable"), p.enumerable)
	it.createDataPropertyOrThrow(o, strKey("configurable"), p.configurable)
	return o
}

// enumerableOwnProperties is 7.3.24 (kind: "key", "value", "key+value").
func (it *Interp) enumerableOwnProperties(o *Object, kind string) []Value {
	var out []Value
	for _, k := range it.ownKeys(o) {
		if k.sym != nil {
			continue
		}
		it.tick()
		d := it.getOwnProperty(o, k)
		if d == nil || !d.enumerable {
			continue
		}
		if kind == "key" {
			out = append(out, k.str)
			continue
		}
		v := it.get(o, k, o)
		if kind == "value" {
			out = append(out, v)
		} else {
			out = append(out, it.newArray([]Value{k.str, v}))
		}
	}
	return out
}

// setPrototypeOf is 10.1.2 OrdinarySetPrototypeOf.
func (it *Interp) setPrototypeOf(o *Object, proto *Object) bool {
	if o.proto == proto {
		return true
	}
	if !o.extensible {
		return false
	}
	for p := proto; p != nil; p = p.proto {
		if p == o {
			return false
		}
	}
	o.proto = proto
	return true
}

func (it *Interp) setupObject(r *Realm) {
	op := r.ObjectPrototype
	op.missing = missingSet("isPrototypeOf", "propertyIsEnumerable", "toLocaleString", "__proto__",
		"__defineGetter__", "__defineSetter__", "__lookupGetter__", "__lookupSetter__")
	ctor := it.newNative("Object", 1, func(it *Interp, this Value, args []Value, nt Value) Value {
		// 20.1.1.1
		if nto, ok := nt.(*Object); ok && nto != it.realm.Object {
			return it.ordinaryCreateFromConstructor(nto, func(r *Realm) *Object { return r.ObjectPrototype })
		}
		v := arg(args, 0)
		if isNullish(v) {
			return it.newObject(it.realm.ObjectPrototype)
		}
		return it.toObject(v)
	})
	ctor.fn.isConstructor = true
	ctor.intrinsic = "Object"
	r.Object = ctor
	ctor.rawSet(strKey("prototype"), &Property{value: op})
	op.defHidden("constructor", ctor)
	r.Global.defHidden("Object", ctor)
	ctor.missing = missingSet("assign", "defineProperties", "fromEntries", "getOwnPropertyDescriptors",
		"getOwnPropertySymbols", "groupBy", "hasOwn", "is", "isExtensible", "isSealed", "preventExtensions", "seal")

	it.method(op, "hasOwnProperty", 1, func(it *Interp, this Value, args []Value, nt Value) Value {
		p := it.toPropertyKey(arg(args, 0))
		o := it.toObject(this)
		return it.getOwnProperty(o, p) != nil
	})
	it.method(op, "valueOf", 0, func(it *Interp, this Value, args []Value, nt Value) Value {
		return it.toObject(this)
	})
	it.method(op, "toString", 0, func(it *Interp, this Value, args []Value, nt Value) Value {
		// 20.1.3.6
		switch this.(type) {
		case undefT:
			return "[object Undefined]"
		case nullT:
			return "[object Null]"
		}
		o := it.toObject(this)
		tag := "Object"
		switch {
		case o.class == "global":
			it.unsupported("Object.prototype.toString on the global object")
		case o.isArray:
			tag = "Array"
		case o.class == "Arguments":
			tag = "Arguments"
		case o.fn != nil:
			tag = "Function"
		case o.class == "Error":
			tag = "Error"
		case o.hasPrim:
			switch o.prim.(type) {
			case bool:
				tag = "Boolean"
			case float64:
				tag = "Number"
			case string:
				tag = "String"
			}
		}
		// Get(O, @@toStringTag): only built-in prototypes can carry one in J0
		for p := o; p != nil; p = p.proto {
			if p.toStringTag != "" {
				tag = p.toStringTag
				break
			}
		}
		return "[object " + tag + "]"
	})

	needObj := func(it *Interp, v Value, what string) *Object {
		o, ok := v.(*Object)
		if !ok {
			it.throwError("TypeError", what+" called on non-object")
		}
		return o
	}
	for _, kind := range []string{"keys", "values", "entries"} {
		kind := kind
		k := map[string]string{"keys": "key", "values": "value", "entries": "key+value"}[kind]
		it.method(ctor, kind, 1, func(it *Interp, this Value, args []Value, nt Value) Value {
			o := it.toObject(arg(args, 0))
			return it.newArray(it.enumerableOwnProperties(o, k))
		})
	}
	it.method(ctor, "defineProperty", 3, func(it *Interp, this Value, args []Value, nt Value) Value {
		o := needObj(it, arg(args, 0), "Object.defineProperty")
		key := it.toPropertyKey(arg(args, 1))
		d := it.toPropertyDescriptor(arg(args, 2))
		it.definePropertyOrThrow(o, key, d)
		return o
	})
	it.method(ctor, "getOwnPropertyDescriptor", 2, func(it *Interp, this Value, args []Value, nt Value) Value {
		o := it.toObject(arg(args, 0))
		key := it.toPropertyKey(arg(args, 1))
		return it.fromPropertyDescriptor(it.getOwnProperty(o, key))
	})
	it.method(ctor, "getOwnPropertyNames", 1, func(it *Interp, this Value, args []Value, nt Value) Value {
		o := it.toObject(arg(args, 0))
		var names []Value
		for _, k := range it.ownKeys(o) {
			if k.sym == nil {
				names = append(names, k.str)
			}
		}
		return it.newArray(names)
	})
	it.method(ctor, "getPrototypeOf", 1, func(it *Interp, this Value, args []Value, nt Value) Value {
		o := it.toObject(arg(args, 0))
		if o.proto == nil {
			return jsNull
		}
		return o.proto
	})
	it.method(ctor, "setPrototypeOf", 2, func(it *Interp, this Value, args []Value, nt Value) Value {
		ov := arg(args, 0)
		it.requireObjectCoercible(ov)
		var proto *Object
		switch p := arg(args, 1).(type) {
		case *Object:
			proto = p
		case nullT:
		default:
			it.throwError("TypeError", "Object prototype may only be an Object or null")
		}
		o, ok := ov.(*Object)
		if !ok {
			return ov
		}
		if !it.setPrototypeOf(o, proto) {
			it.throwError("TypeError", "Cannot set prototype")
		}
		return o
	})
	it.method(ctor, "create", 2, func(it *Interp, this Value, args []Value, nt Value) Value {
		var proto *Object
		switch p := arg(args, 0).(type) {
		case *Object:
			proto = p
		case nullT:
		default:
			it.throwError("TypeError", "Object prototype may only be an Object or null")
		}
		obj := it.newObject(proto)
		if props := arg(args, 1); props != Undefined {
			// 20.1.2.3.1 ObjectDefineProperties
			po := it.toObject(props)
			type kd struct {
				k PropKey
				d PropDesc
			}
			var descs []kd
			for _, k := range it.ownKeys(po) {
				pd := it.getOwnProperty(po, k)
				if pd != nil && pd.enumerable {
					descs = append(descs, kd{k, it.toPropertyDescriptor(it.get(po, k, po))})
				}
			}
			for _, e := range descs {
				it.definePropertyOrThrow(obj, e.k, e.d)
			}
		}
		return obj
	})
	it.method(ctor, "freeze", 1, func(it *Interp, this Value, args []Value, nt Value) Value {
		o, ok := arg(args, 0).(*Object)
		if !ok {
			return arg(args, 0)
		}
		it.freeze(o)
		return o
	})
	it.method(ctor, "isFrozen", 1, func(it *Interp, this Value, args []Value, nt Value) Value {
		o, ok := arg(args, 0).(*Object)
		if !ok {
			return true
		}
		return it.isFrozen(o)
	})
}

// ---- Function.prototype ----

func (it *Interp) setupFunction(r *Realm) {
	fp := r.FunctionPrototype
	fp.missing = missingSet("bind", "toString", "constructor", "caller", "arguments")
	it.method(fp, "call", 1, func(it *Interp, this Value, args []Value, nt Value) Value {
		if !isCallable(this) {
			it.throwError("TypeError", "Function.prototype.call called on non-callable")
		}
		var rest []Value
		if len(args) > 1 {
			rest = args[1:]
		}
		return it.call(this.(*Object), arg(args, 0), rest)
	})
	it.method(fp, "apply", 2, func(it *Interp, this Value, args []Value, nt Value) Value {
		if !isCallable(this) {
			it.throwError("TypeError", "Function.prototype.apply called on non-callable")
		}
		if isNullish(arg(args, 1)) {
			return it.call(this.(*Object), arg(args, 0), nil)
		}
		list := it.createListFromArrayLike(arg(args, 1))
		return it.call(this.(*Object), arg(args, 0), list)
	})

	// %GeneratorFunction.prototype%, %GeneratorPrototype% are completed in setupIterators
	r.GeneratorFunctionPrototype = it.newObject(fp)
	r.GeneratorFunctionPrototype.intrinsic = "GeneratorFunction.prototype"
	r.GeneratorFunctionPrototype.toStringTag = "GeneratorFunction"
	r.GeneratorFunctionPrototype.missing = missingSet("constructor")
	r.AsyncFunctionPrototype = it.newObject(fp)
	r.AsyncFunctionPrototype.intrinsic = "AsyncFunction.prototype"
	r.AsyncFunctionPrototype.toStringTag = "AsyncFunction"
	r.AsyncFunctionPrototype.missing = missingSet("constructor")
}

// ---- Error family ----

func (it *Interp) setupErrors(r *Realm) {
	var errorCtor *Object
	for _, name := range []string{"Error", "TypeError", "ReferenceError", "RangeError", "SyntaxError"} {
		name := name
		protoParent := r.ObjectPrototype
		ctorParent := r.FunctionPrototype
		if name != "Error" {
			protoParent = r.ErrorPrototype
			ctorParent = errorCtor
		}
		proto := it.newObject(protoParent)
		proto.intrinsic = name + ".prototype"
		var ctor *Object
		ctor = it.newNative(name, 1, func(it *Interp, this Value, args []Value, nt Value) Value {
			// 20.5.1.1 Error(message[, options]) / 20.5.6.1.1 NativeError
			newTarget, ok := nt.(*Object)
			if !ok {
				newTarget = ctor
			}
			o := it.ordinaryCreateFromConstructor(newTarget, func(r *Realm) *Object { return r.errorProtos[name] })
			o.class = "Error"
			if m := arg(args, 0); m != Undefined {
				msg := it.toString(m)
				it.definePropertyOrThrow(o, strKey("message"), dataDesc(msg, true, false, true))
			}
			if opts, ok := arg(args, 1).(*Object); ok && it.hasProperty(opts, strKey("cause")) {
				it.unsupported("Error options.cause")
			}
			return o
		})
		ctor.proto = ctorParent
		ctor.fn.isConstructor = true
		ctor.intrinsic = name
		ctor.rawSet(strKey("prototype"), &Property{value: proto})
		proto.defHidden("constructor", ctor)
		proto.defHidden("message", "")
		proto.defHidden("name", name)
		r.errorProtos[name] = proto
		r.Global.defHidden(name, ctor)
		if name == "Error" {
			errorCtor = ctor
			r.ErrorPrototype = proto
			ctor.missing = missingSet("captureStackTrace", "stackTraceLimit", "isError")
			proto.missing = missingSet("stack", "cause")
			it.method(proto, "toString", 0, func(it *Interp, this Value, args []Value, nt Value) Value {
				// 20.5.3.4
				o, ok := this.(*Object)
				if !ok {
					it.throwError("TypeError", "Error.prototype.toString called on non-object")
				}
				name := "Error"
				if n := it.getStr(o, "name"); n != Undefined {
					name = it.toString(n)
				}
				msg := ""
				if m := it.getStr(o, "message"); m != Undefined {
					msg = it.toString(m)
				}
				if name == "" {
					return msg
				}
				if msg == "" {
					return name
				}
				return it.concat(it.concat(name, ": "), msg)
			})
		}
	}
}

// ---- iterators, generators ----

type arrayIter struct {
	array  *Object // nil once exhausted
	str    string  // string iterator
	isStr  bool
	index  int
	kind   string // "key", "value", "key+value"
	closed bool
}

func (it *Interp) createArrayIterator(a *Object, kind string) *Object {
	o := it.newObject(it.realm.ArrayIteratorPrototype)
	o.class = "ArrayIterator"
	o.iter = &arrayIter{array: a, kind: kind}
	return o
}

func (it *Interp) setupIterators(r *Realm) {
	ip := it.newObject(r.ObjectPrototype)
	ip.intrinsic = "Iterator.prototype"
	r.IteratorPrototype = ip
	selfFn := it.newNative("[Symbol.iterator]", 0, func(it *Interp, this Value, args []Value, nt Value) Value { return this })
	ip.rawSet(symKey(r.SymIterator), &Property{value: selfFn, writable: true, configurable: true})

	aip := it.newObject(ip)
	aip.intrinsic, aip.toStringTag = "ArrayIterator.prototype", "Array Iterator"
	r.ArrayIteratorPrototype = aip
	it.method(aip, "next", 0, func(it *Interp, this Value, args []Value, nt Value) Value {
		// 23.1.5.2.1 %ArrayIteratorPrototype%.next
		o, ok := this.(*Object)
		if !ok || o.iter == nil || o.iter.isStr {
			it.throwError("TypeError", "next called on incompatible receiver")
		}
		st := o.iter
		if st.array == nil {
			return it.createIterResultObject(Undefined, true)
		}
		length := it.lengthOfArrayLike(st.array)
		if float64(st.index) >= length {
			st.array = nil
			return it.createIterResultObject(Undefined, true)
		}
		idx := st.index
		st.index++
		if st.kind == "key" {
			return it.createIterResultObject(float64(idx), false)
		}
		v := it.get(st.array, indexKey(uint32(idx)), st.array)
		if st.kind == "value" {
			return it.createIterResultObject(v, false)
		}
		return it.createIterResultObject(it.newArray([]Value{float64(idx), v}), false)
	})

	sip := it.newObject(ip)
	sip.intrinsic, sip.toStringTag = "StringIterator.prototype", "String Iterator"
	r.StringIteratorPrototype = sip
	it.method(sip, "next", 0, func(it *Interp, this Value, args []Value, nt Value) Value {
		// 22.1.5.1.1 (ASCII: one code unit per code point)
		o, ok := this.(*Object)
		if !ok || o.iter == nil || !o.iter.isStr {
			it.throwError("TypeError", "next called on incompatible receiver")
		}
		st := o.iter
		if st.closed || st.index >= len(st.str) {
			st.closed = true
			return it.createIterResultObject(Undefined, true)
		}
		c := st.str[st.index : st.index+1]
		st.index++
		return it.createIterResultObject(c, false)
	})

	gp := it.newObject(ip)
	gp.intrinsic, gp.toStringTag = "Generator.prototype", "Generator"
	r.GeneratorPrototype = gp
	gp.rawSet(strKey("constructor"), &Property{value: r.GeneratorFunctionPrototype, configurable: true})
	r.GeneratorFunctionPrototype.rawSet(strKey("prototype"), &Property{value: gp, configurable: true})
	it.method(gp, "next", 1, func(it *Interp, this Value, args []Value, nt Value) Value {
		return it.generatorResume(this, rNext, arg(args, 0))
	})
	it.method(gp, "return", 1, func(it *Interp, this Value, args []Value, nt Value) Value {
		return it.generatorResume(this, rReturn, arg(args, 0))
	})
	it.method(gp, "throw", 1, func(it *Interp, this Value, args []Value, nt Value) Value {
		return it.generatorResume(this, rThrow, arg(args, 0))
	})
}

// ---- Array ----

// arrayCreate is 10.4.2.2 ArrayCreate(length).
func (it *Interp) arrayCreate(length float64) *Object {
	if length > 4294967295 {
		it.throwError("RangeError", "Invalid array length")
	}
	a := it.newArray(nil)
	a.props[strKey("length")].value = length
	return a
}

// arraySpeciesCreate is 10.4.2.3.
func (it *Interp) arraySpeciesCreate(original *Object, length float64) *Object {
	if !original.isArray {
		return it.arrayCreate(length)
	}
	c := it.get(original, strKey("constructor"), original)
	if co, ok := c.(*Object); ok {
		c = it.get(co, symKey(it.realm.SymSpecies), co)
		if c == jsNull {
			c = Undefined
		}
	}
	if c == Undefined {
		return it.arrayCreate(length)
	}
	if !isConstructor(c) {
		it.throwError("TypeError", "object.constructor[Symbol.species] is not a constructor")
	}
	co := c.(*Object)
	if co == it.realm.Array {
		return it.arrayCreate(length)
	}
	res, ok := it.construct(co, []Value{length}, co).(*Object)
	if !ok {
		it.throwError("TypeError", "species constructor did not return an object")
	}
	return res
}

func idxKey(k float64) PropKey { return strKey(numberToString(k)) }

// relIndex implements the common "relative index" clamping of slice-like methods.
func relIndex(rel, length float64) float64 {
	if math.IsInf(rel, -1) {
		return 0
	}
	if rel < 0 {
		return math.Max(length+rel, 0)
	}
	return math.Min(rel, length)
}

func (it *Interp) setupArray(r *Realm) {
	ap := &Object{proto: r.ObjectPrototype, class: "Array", extensible: true, props: map[PropKey]*Property{}, isArray: true}
	ap.rawSet(strKey("length"), &Property{value: float64(0), writable: true})
	ap.intrinsic = "Array.prototype"
	r.ArrayPrototype = ap
	ap.missing = missingSet("at", "copyWithin", "every", "fill", "find", "findIndex", "findLast", "findLastIndex",
		"flat", "flatMap", "includes", "lastIndexOf", "reduceRight", "reverse", "shift", "some", "sort", "splice",
		"toLocaleString", "toReversed", "toSorted", "toSpliced", "unshift", "with")
	ctor := it.newNative("Array", 1, func(it *Interp, this Value, args []Value, nt Value) Value {
		it.unsupported("Array constructor")
		return nil
	})
	ctor.fn.isConstructor = true
	ctor.intrinsic = "Array"
	ctor.missing = missingSet("of", "fromAsync")
	r.Array = ctor
	ctor.rawSet(strKey("prototype"), &Property{value: ap})
	ap.defHidden("constructor", ctor)
	r.Global.defHidden("Array", ctor)
	ctor.rawSet(symKey(r.SymSpecies), &Property{accessor: true, configurable: true,
		get: it.newNative("get [Symbol.species]", 0, func(it *Interp, this Value, args []Value, nt Value) Value { return this })})

	it.method(ctor, "isArray", 1, func(it *Interp, this Value, args []Value, nt Value) Value {
		o, ok := arg(args, 0).(*Object)
		return ok && o.isArray
	})
	it.method(ctor, "from", 1, func(it *Interp, this Value, args []Value, nt Value) Value {
		// 23.1.2.1
		items, mapfn, thisArg := arg(args, 0), arg(args, 1), arg(args, 2)
		mapping := mapfn != Undefined
		if mapping && !isCallable(mapfn) {
			it.throwError("TypeError", "Array.from: mapper is not a function")
		}
		create := func(haveLen bool, length float64) *Object {
			if co, ok := this.(*Object); ok && co.fn != nil && co.fn.isConstructor {
				if co == it.realm.Array {
					if haveLen {
						return it.arrayCreate(length)
					}
					return it.arrayCreate(0)
				}
				var cargs []Value
				if haveLen {
					cargs = []Value{length}
				}
				res, ok := it.construct(co, cargs, co).(*Object)
				if !ok {
					it.throwError("TypeError", "constructor did not return an object")
				}
				return res
			}
			if haveLen {
				return it.arrayCreate(length)
			}
			return it.arrayCreate(0)
		}
		usingIterator := it.getMethod(items, symKey(it.realm.SymIterator))
		if usingIterator != nil {
			a := create(false, 0)
			rec := it.getIteratorFromMethod(items, usingIterator)
			k := float64(0)
			for {
				it.tick()
				next, done := it.iteratorStepValue(rec)
				if done {
					it.setOrThrow(a, strKey("length"), k)
					return a
				}
				c := it.catchAbrupt(func() Completion {
					v := next
					if mapping {
						v = it.call(mapfn.(*Object), thisArg, []Value{next, k})
					}
					it.createDataPropertyOrThrow(a, idxKey(k), v)
					return normal(nil)
				})
				if c.typ != cNormal {
					it.closeOnAbrupt(rec, c)
				}
				k++
			}
		}
		arrayLike := it.toObject(items)
		length := it.lengthOfArrayLike(arrayLike)
		a := create(true, length)
		for k := float64(0); k < length; k++ {
			it.tick()
			v := it.get(arrayLike, idxKey(k), arrayLike)
			if mapping {
				v = it.call(mapfn.(*Object), thisArg, []Value{v, k})
			}
			it.createDataPropertyOrThrow(a, idxKey(k), v)
		}
		it.setOrThrow(a, strKey("length"), length)
		return a
	})

	it.method(ap, "push", 1, func(it *Interp, this Value, args []Value, nt Value) Value {
		o := it.toObject(this)
		length := it.lengthOfArrayLike(o)
		if length+float64(len(args)) > 9007199254740991 {
			it.throwError("TypeError", "Array length exceeds the maximum")
		}
		for _, e := range args {
			it.setOrThrow(o, idxKey(length), e)
			length++
		}
		it.setOrThrow(o, strKey("length"), length)
		return length
	})
	it.method(ap, "pop", 0, func(it *Interp, this Value, args []Value, nt Value) Value {
		o := it.toObject(this)
		length := it.lengthOfArrayLike(o)
		if length == 0 {
			it.setOrThrow(o, strKey("length"), float64(0))
			return Undefined
		}
		newLen := length - 1
		v := it.get(o, idxKey(newLen), o)
		it.deletePropertyOrThrow(o, idxKey(newLen))
		it.setOrThrow(o, strKey("length"), newLen)
		return v
	})
	join := it.method(ap, "join", 1, func(it *Interp, this Value, args []Value, nt Value) Value {
		o := it.toObject(this)
		length := it.lengthOfArrayLike(o)
		sep := ","
		if s := arg(args, 0); s != Undefined {
			sep = it.toString(s)
		}
		res := ""
		for k := float64(0); k < length; k++ {
			it.tick()
			if k > 0 {
				res = it.concat(res, sep)
			}
			e := it.get(o, idxKey(k), o)
			if !isNullish(e) {
				res = it.concat(res, it.toString(e))
			}
		}
		return res
	})
	_ = join
	it.method(ap, "toString", 0, func(it *Interp, this Value, args []Value, nt Value) Value {
		// 23.1.3.36
		o := it.toObject(this)
		f := it.getStr(o, "join")
		if !isCallable(f) {
			return it.call(it.realm.ObjectPrototype.props[strKey("toString")].value.(*Object), o, nil)
		}
		return it.call(f.(*Object), o, nil)
	})
	it.method(ap, "slice", 2, func(it *Interp, this Value, args []Value, nt Value) Value {
		o := it.toObject(this)
		length := it.lengthOfArrayLike(o)
		k := relIndex(it.toIntegerOrInfinity(arg(args, 0)), length)
		relEnd := length
		if e := arg(args, 1); e != Undefined {
			relEnd = it.toIntegerOrInfinity(e)
		}
		final := relIndex(relEnd, length)
		count := math.Max(final-k, 0)
		a := it.arraySpeciesCreate(o, count)
		n := float64(0)
		for ; k < final; k++ {
			it.tick()
			if it.hasProperty(o, idxKey(k)) {
				it.createDataPropertyOrThrow(a, idxKey(n), it.get(o, idxKey(k), o))
			}
			n++
		}
		it.setOrThrow(a, strKey("length"), n)
		return a
	})
	it.method(ap, "concat", 1, func(it *Interp, this Value, args []Value, nt Value) Value {
		o := it.toObject(this)
		a := it.arraySpeciesCreate(o, 0)
		n := float64(0)
		items := append([]Value{o}, args...)
		for _, e := range items {
			eo, isObj := e.(*Object)
			// IsConcatSpreadable: @@isConcatSpreadable cannot be set in J0
			if isObj && eo.isArray {
				length := it.lengthOfArrayLike(eo)
				if n+length > 9007199254740991 {
					it.throwError("TypeError", "Array length exceeds the maximum")
				}
				for k := float64(0); k < length; k++ {
					it.tick()
					if it.hasProperty(eo, idxKey(k)) {
						it.createDataPropertyOrThrow(a, idxKey(n), it.get(eo, idxKey(k), eo))
					}
					n++
				}
			} else {
				it.createDataPropertyOrThrow(a, idxKey(n), e)
				n++
			}
		}
		it.setOrThrow(a, strKey("length"), n)
		return a
	})
	it.method(ap, "indexOf", 1, func(it *Interp, this Value, args []Value, nt Value) Value {
		o := it.toObject(this)
		length := it.lengthOfArrayLike(o)
		if length == 0 {
			return float64(-1)
		}
		n := it.toIntegerOrInfinity(arg(args, 1))
		if math.IsInf(n, 1) {
			return float64(-1)
		}
		if math.IsInf(n, -1) {
			n = 0
		}
		k := n
		if n < 0 {
			k = math.Max(length+n, 0)
		}
		for ; k < length; k++ {
			it.tick()
			if it.hasProperty(o, idxKey(k)) {
				if strictEquals(arg(args, 0), it.get(o, idxKey(k), o)) {
					return k
				}
			}
		}
		return float64(-1)
	})
	needFn := func(it *Interp, v Value) *Object {
		if !isCallable(v) {
			it.throwError("TypeError", "callback is not a function")
		}
		return v.(*Object)
	}
	it.method(ap, "forEach", 1, func(it *Interp, this Value, args []Value, nt Value) Value {
		o := it.toObject(this)
		length := it.lengthOfArrayLike(o)
		cb := needFn(it, arg(args, 0))
		for k := float64(0); k < length; k++ {
			it.tick()
			if it.hasProperty(o, idxKey(k)) {
				it.call(cb, arg(args, 1), []Value{it.get(o, idxKey(k), o), k, o})
			}
		}
		return Undefined
	})
	it.method(ap, "map", 1, func(it *Interp, this Value, args []Value, nt Value) Value {
		o := it.toObject(this)
		length := it.lengthOfArrayLike(o)
		cb := needFn(it, arg(args, 0))
		a := it.arraySpeciesCreate(o, length)
		for k := float64(0); k < length; k++ {
			it.tick()
			if it.hasProperty(o, idxKey(k)) {
				v := it.call(cb, arg(args, 1), []Value{it.get(o, idxKey(k), o), k, o})
				it.createDataPropertyOrThrow(a, idxKey(k), v)
			}
		}
		return a
	})
	it.method(ap, "filter", 1, func(it *Interp, this Value, args []Value, nt Value) Value {
		o := it.toObject(this)
		length := it.lengthOfArrayLike(o)
		cb := needFn(it, arg(args, 0))
		a := it.arraySpeciesCreate(o, 0)
		to := float64(0)
		for k := float64(0); k < length; k++ {
			it.tick()
			if it.hasProperty(o, idxKey(k)) {
				kv := it.get(o, idxKey(k), o)
				if toBoolean(it.call(cb, arg(args, 1), []Value{kv, k, o})) {
					it.createDataPropertyOrThrow(a, idxKey(to), kv)
					to++
				}
			}
		}
		return a
	})
	it.method(ap, "reduce", 1, func(it *Interp, this Value, args []Value, nt Value) Value {
		o := it.toObject(this)
		length := it.lengthOfArrayLike(o)
		cb := needFn(it, arg(args, 0))
		if length == 0 && len(args) < 2 {
			it.throwError("TypeError", "Reduce of empty array with no initial value")
		}
		k := float64(0)
		var acc Value
		if len(args) >= 2 {
			acc = args[1]
		} else {
			present := false
			for !present && k < length {
				it.tick()
				present = it.hasProperty(o, idxKey(k))
				if present {
					acc = it.get(o, idxKey(k), o)
				}
				k++
			}
			if !present {
				it.throwError("TypeError", "Reduce of empty array with no initial value")
			}
		}
		for ; k < length; k++ {
			it.tick()
			if it.hasProperty(o, idxKey(k)) {
				acc = it.call(cb, Undefined, []Value{acc, it.get(o, idxKey(k), o), k, o})
			}
		}
		return acc
	})
	for _, kind := range []string{"keys", "values", "entries"} {
		k := map[string]string{"keys": "key", "values": "value", "entries": "key+value"}[kind]
		f := it.method(ap, kind, 0, func(it *Interp, this Value, args []Value, nt Value) Value {
			return it.createArrayIterator(it.toObject(this), k)
		})
		if kind == "values" {
			r.ArrayProtoValues = f
			ap.rawSet(symKey(r.SymIterator), &Property{value: f, writable: true, configurable: true})
		}
	}
}

// ---- String, Number, Boolean, Symbol ----

func (it *Interp) thisPrim(this Value, class string) Value {
	switch class {
	case "String":
		if s, ok := this.(string); ok {
			return s
		}
	case "Number":
		if n, ok := this.(float64); ok {
			return n
		}
	case "Boolean":
		if b, ok := this.(bool); ok {
			return b
		}
	case "Symbol":
		if s, ok := this.(*Symbol); ok {
			return s
		}
	}
	if o, ok := this.(*Object); ok && o.hasPrim && o.class == class {
		return o.prim
	}
	it.throwError("TypeError", class+".prototype method called on incompatible receiver")
	return nil
}

func (it *Interp) wrapperCtor(r *Realm, name string, proto *Object, conv func(it *Interp, args []Value) Value) *Object {
	ctor := it.newNative(name, 1, func(it *Interp, this Value, args []Value, nt Value) Value {
		if nt != Undefined {
			it.unsupported("new " + name)
		}
		return conv(it, args)
	})
	ctor.fn.isConstructor = true
	ctor.intrinsic = name
	ctor.rawSet(strKey("prototype"), &Property{value: proto})
	proto.defHidden("constructor", ctor)
	proto.intrinsic = name + ".prototype"
	r.Global.defHidden(name, ctor)
	return ctor
}

func (it *Interp) setupPrimitives(r *Realm) {
	// String
	sp := it.newObject(r.ObjectPrototype)
	sp.class, sp.prim, sp.hasPrim = "String", "", true
	sp.rawSet(strKey("length"), &Property{value: float64(0)})
	r.StringPrototype = sp
	sctor := it.wrapperCtor(r, "String", sp, func(it *Interp, args []Value) Value {
		if len(args) == 0 {
			return ""
		}
		if s, ok := args[0].(*Symbol); ok {
			return s.descriptive()
		}
		return it.toString(args[0])
	})
	sctor.missing = missingSet("fromCharCode", "fromCodePoint", "raw")
	sp.missing = missingSet("anchor", "at", "big", "blink", "bold", "charCodeAt", "codePointAt", "concat", "endsWith",
		"fixed", "fontcolor", "fontsize", "includes", "isWellFormed", "italics", "lastIndexOf", "link", "localeCompare",
		"match", "matchAll", "normalize", "padEnd", "padStart", "repeat", "replace", "replaceAll", "search", "small",
		"split", "startsWith", "strike", "sub", "substr", "substring", "sup", "toLocaleLowerCase", "toLocaleUpperCase",
		"toLowerCase", "toWellFormed", "trim", "trimEnd", "trimLeft", "trimRight", "trimStart")
	thisStr := func(it *Interp, this Value) string {
		it.requireObjectCoercible(this)
		return it.toString(this)
	}
	it.method(sp, "toString", 0, func(it *Interp, this Value, args []Value, nt Value) Value { return it.thisPrim(this, "String") })
	it.method(sp, "valueOf", 0, func(it *Interp, this Value, args []Value, nt Value) Value { return it.thisPrim(this, "String") })
	it.method(sp, "charAt", 1, func(it *Interp, this Value, args []Value, nt Value) Value {
		s := thisStr(it, this)
		pos := it.toIntegerOrInfinity(arg(args, 0))
		if pos < 0 || pos >= float64(len(s)) {
			return ""
		}
		return s[int(pos) : int(pos)+1]
	})
	it.method(sp, "indexOf", 1, func(it *Interp, this Value, args []Value, nt Value) Value {
		s := thisStr(it, this)
		search := it.toString(arg(args, 0))
		pos := it.toIntegerOrInfinity(arg(args, 1))
		start := int(math.Min(math.Max(pos, 0), float64(len(s))))
		i := strings.Index(s[start:], search)
		if i < 0 {
			return float64(-1)
		}
		return float64(start + i)
	})
	it.method(sp, "slice", 2, func(it *Interp, this Value, args []Value, nt Value) Value {
		s := thisStr(it, this)
		length := float64(len(s))
		from := relIndex(it.toIntegerOrInfinity(arg(args, 0)), length)
		relEnd := length
		if e := arg(args, 1); e != Undefined {
			relEnd = it.toIntegerOrInfinity(e)
		}
		to := relIndex(relEnd, length)
		if from >= to {
			return ""
		}
		return s[int(from):int(to)]
	})
	it.method(sp, "toUpperCase", 0, func(it *Interp, this Value, args []Value, nt Value) Value {
		s := thisStr(it, this)
		b := []byte(s)
		for i, c := range b {
			if c >= 'a' && c <= 'z' {
				b[i] = c - 32
			}
		}
		return string(b)
	})
	sp.rawSet(symKey(r.SymIterator), &Property{writable: true, configurable: true,
		value: it.newNative("[Symbol.iterator]", 0, func(it *Interp, this Value, args []Value, nt Value) Value {
			s := thisStr(it, this)
			o := it.newObject(it.realm.StringIteratorPrototype)
			o.class = "StringIterator"
			o.iter = &arrayIter{str: s, isStr: true}
			return o
		})})

	// Number
	np := it.newObject(r.ObjectPrototype)
	np.class, np.prim, np.hasPrim = "Number", float64(0), true
	r.NumberPrototype = np
	nctor := it.wrapperCtor(r, "Number", np, func(it *Interp, args []Value) Value {
		if len(args) == 0 {
			return float64(0)
		}
		return it.toNumeric(args[0])
	})
	nctor.missing = missingSet("EPSILON", "MAX_SAFE_INTEGER", "MAX_VALUE", "MIN_SAFE_INTEGER", "MIN_VALUE", "NaN",
		"NEGATIVE_INFINITY", "POSITIVE_INFINITY", "isFinite", "isInteger", "isNaN", "isSafeInteger", "parseFloat", "parseInt")
	np.missing = missingSet("toExponential", "toFixed", "toLocaleString", "toPrecision")
	it.method(np, "toString", 1, func(it *Interp, this Value, args []Value, nt Value) Value {
		x := it.thisPrim(this, "Number").(float64)
		if rd := arg(args, 0); rd != Undefined {
			if it.toIntegerOrInfinity(rd) != 10 {
				it.unsupported("Number.prototype.toString with a radix other than 10")
			}
		}
		return numberToString(x)
	})
	it.method(np, "valueOf", 0, func(it *Interp, this Value, args []Value, nt Value) Value { return it.thisPrim(this, "Number") })

	// Boolean
	bp := it.newObject(r.ObjectPrototype)
	bp.class, bp.prim, bp.hasPrim = "Boolean", false, true
	r.BooleanPrototype = bp
	it.wrapperCtor(r, "Boolean", bp, func(it *Interp, args []Value) Value { return toBoolean(arg(args, 0)) })
	it.method(bp, "toString", 0, func(it *Interp, this Value, args []Value, nt Value) Value {
		if it.thisPrim(this, "Boolean").(bool) {
			return "true"
		}
		return "false"
	})
	it.method(bp, "valueOf", 0, func(it *Interp, this Value, args []Value, nt Value) Value { return it.thisPrim(this, "Boolean") })

	// Symbol
	syp := it.newObject(r.ObjectPrototype)
	syp.toStringTag = "Symbol"
	r.SymbolPrototype = syp
	syctor := it.newNative("Symbol", 0, func(it *Interp, this Value, args []Value, nt Value) Value {
		if nt != Undefined {
			it.throwError("TypeError", "Symbol is not a constructor")
		}
		d := arg(args, 0)
		if d == Undefined {
			return &Symbol{}
		}
		return &Symbol{desc: it.toString(d), hasDesc: true}
	})
	syctor.fn.isConstructor = true
	syctor.intrinsic = "Symbol"
	syctor.rawSet(strKey("prototype"), &Property{value: syp})
	syp.defHidden("constructor", syctor)
	syp.intrinsic = "Symbol.prototype"
	r.Global.defHidden("Symbol", syctor)
	syctor.rawSet(strKey("iterator"), &Property{value: r.SymIterator})
	syctor.missing = missingSet("asyncIterator", "hasInstance", "isConcatSpreadable", "match", "matchAll", "replace",
		"search", "species", "split", "toPrimitive", "toStringTag", "unscopables", "for", "keyFor", "dispose", "asyncDispose")
	it.method(syp, "toString", 0, func(it *Interp, this Value, args []Value, nt Value) Value {
		return it.thisPrim(this, "Symbol").(*Symbol).descriptive()
	})
	it.method(syp, "valueOf", 0, func(it *Interp, this Value, args []Value, nt Value) Value { return it.thisPrim(this, "Symbol") })
	syp.rawSet(strKey("description"), &Property{accessor: true, configurable: true,
		get: it.newNative("get description", 0, func(it *Interp, this Value, args []Value, nt Value) Value {
			s := it.thisPrim(this, "Symbol").(*Symbol)
			if !s.hasDesc {
				return Undefined
			}
			return s.desc
		})})
}
