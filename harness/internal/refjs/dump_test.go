package refjs_test

import (
	"encoding/json"
	"os"
	"testing"

	. "verifh/internal/refjs"
	"verifh/internal/refjs/gojarun"
)

// TestDump prints one corpus case (REFJS_DUMP=name) with both observations.
func TestDump(t *testing.T) {
	name := os.Getenv("REFJS_DUMP")
	if name == "" {
		t.Skip()
	}
	for _, c := range corpus() {
		if c.name != name {
			continue
		}
		for _, opt := range optionsFor(c.flags) {
			t.Logf("---- strict=%v placement=%s\n%s\nrefjs: %v", opt.Strict, opt.Placement, Source(c.prog, opt), Run(c.prog, opt))
		}
	}
}

// TestScratch runs the JS text in file REFJS_SRC (converted to an AST) on both
// sides for every mode/placement (REFJS_OPT like "strict,eval" restricts).
func TestScratch(t *testing.T) {
	path := os.Getenv("REFJS_SRC")
	if path == "" {
		t.Skip()
	}
	b, err := os.ReadFile(path)
	if err != nil {
		t.Fatal(err)
	}
	prog := JS(string(b))
	for _, opt := range optionsFor(0) {
		if f := os.Getenv("REFJS_OPT"); f != "" {
			want := Options{Strict: len(f) >= 6 && f[:6] == "strict", Placement: f[len(f)-len(opt.Placement):]}
			if want.Strict != opt.Strict || want.Placement != opt.Placement {
				continue
			}
		}
		d, skipped := compare("scratch", prog, opt)
		switch {
		case skipped != "":
			t.Logf("[strict=%v %s] refjs declined: %s", opt.Strict, opt.Placement, skipped)
		case d != nil:
			t.Logf("DISAGREE %s", d)
		default:
			t.Logf("[strict=%v %s] agree: %v", opt.Strict, opt.Placement, Run(prog, opt))
		}
	}
}

// TestRawGoja runs the file REFJS_RAW on goja only (after the prelude).
func TestRawGoja(t *testing.T) {
	path := os.Getenv("REFJS_RAW")
	if path == "" {
		t.Skip()
	}
	b, _ := os.ReadFile(path)
	g := gojarun.Run(string(b), 0, 0)
	t.Logf("%v host=%q", g.Observation, g.HostError)
}

// TestPrintJSON prints the program of a saved case (REFJS_PRINT=/path/case.json).
func TestPrintJSON(t *testing.T) {
	path := os.Getenv("REFJS_PRINT")
	if path == "" {
		t.Skip()
	}
	b, _ := os.ReadFile(path)
	var c savedCase
	if err := json.Unmarshal(b, &c); err != nil {
		t.Fatal(err)
	}
	t.Logf("%+v\n%s\nrefjs: %v", c.Opt, Source(c.Prog, c.Opt), Run(c.Prog, c.Opt))
}
