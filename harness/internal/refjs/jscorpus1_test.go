package refjs_test

type jsCase struct {
	name  string
	flags int
	src   string
}

var jsCorpus = []jsCase{}

func init() {
	jsCorpus = append(jsCorpus, []jsCase{
		{"scope-shadow", noSloppyEval, `
var x = 1; let y = 2; const z = 3;
function f(x) { var y = x + 1; { let y = 10; x = y + z; } return [x, y]; }
log(f(5)); log([x, y, z]);
{ let x = 'inner'; log(x); { const x = 'deep'; log(x); } log(x); }
log(x);
`},
		{"tdz", anyMode, `
try { log(a); } catch (e) { log(e); } let a = 1;
try { typeof b; log('no'); } catch (e) { log(e); } const b = 2;
try { c = 5; } catch (e) { log(e); } let c;
log(c);
function g() { try { return h; } catch (e) { return e; } let h = 1; }
log(g());
try { let q = q; } catch (e) { log(e); }
`},
		{"hoisting", noStrictEval, `
log(typeof f1); log(v1); var v1 = 3; function f1() { return 1; }
function outer() { log(typeof inner); log(w); var w = 1; function inner() {} return w; }
log(outer());
function dup() { return 1; } function dup() { return 2; } log(dup());
var fv = 1; function fv() {} log(typeof fv);
`},
		{"global-props", globalOnly, `
var gv = 1; function gf() {} let gl = 2; const gc = 3;
log(globalThis.gv); log(typeof globalThis.gf); log(globalThis.gl); log(globalThis.gc);
log(Object.getOwnPropertyDescriptor(globalThis, 'gv'));
log(delete globalThis.gv);
gi = 5; log(Object.getOwnPropertyDescriptor(globalThis, 'gi')); log(delete globalThis.gi); log(typeof gi);
log(this === globalThis);
`},
		{"implicit-global", sloppyOnly, `
function f() { undeclared1 = 7; } f(); log(undeclared1); log(delete undeclared1); log(typeof undeclared1);
`},
		{"strict-unresolvable", strictOnly, `
try { undeclared2 = 7; } catch (e) { log(e); }
log(typeof undeclared2);
`},
		{"this-binding", anyMode, `
function f() { return this; }
log(f() === undefined); log(f() === globalThis);
var o = { f: f, g() { return this === o; }, a: () => typeof this };
log(o.f() === o); log(o.g()); log((o.g)()); log((0, o.g)());
log(f.call(5) === 5); log(typeof f.call(5)); log(typeof f.call('s')); log(f.call(null) === null);
log(f.apply(o, []) === o);
`},
		{"completion-values", anyMode, `
1; if (true) { 2; } else { 3; }
`},
		{"completion-loop", anyMode, `5; do { 6; break; } while (false);`},
		{"completion-loop2", anyMode, `7; for (var i = 0; i < 3; i++) { if (i == 1) continue; i + 10; }`},
		{"completion-empty-if", anyMode, `8; if (false) 9;`},
		{"completion-switch", anyMode, `switch (2) { case 1: 'a'; case 2: 'b'; case 3: 'c'; break; default: 'd'; }`},
		{"completion-switch-empty", anyMode, `10; switch (9) { case 1: 'a'; }`},
		{"completion-try", anyMode, `try { 1; throw 2; } catch (e) { e + 1; } finally { 99; }`},
		{"completion-try-finally-break", anyMode, `L: try { 11; } finally { break L; }`},
		{"completion-label", anyMode, `12; L: { 13; break L; }`},
		{"completion-label-empty", anyMode, `14; L: { break L; }`},
		{"completion-while-break", anyMode, `15; while (true) { break; }`},
		{"completion-while-break-val", anyMode, `16; while (true) { 17; break; }`},
		{"completion-forin", anyMode, `for (var k in {a: 1, b: 2}) { k; }`},
		{"completion-forof-break", anyMode, `for (var k of [1, 2, 3]) { k; if (k == 2) break; }`},
		{"completion-with", sloppyOnly, `18; with ({}) { }`},
		{"completion-var", anyMode, `19; var q = 20;`},
		{"completion-func", anyMode, `21; function ff() {}`},
		{"completion-nested-if", anyMode, `22; if (true) { if (false) { 23; } }`},
		{"completion-eval", anyMode, `var r = eval("1; if (true) { 2; } var ev = 3;"); log(r); log(eval("var qq = 1;")); log(eval("")); log(eval("L: { 5; break L; }"));`},
		{"completion-continue-label", anyMode, `outer: for (var i = 0; i < 2; i++) { 30 + i; for (var j = 0; j < 2; j++) { 40 + j; continue outer; } }`},
		{"completion-try-in-loop", anyMode, `for (var i = 0; i < 2; i++) { try { 50; continue; } finally { 51; } }`},
		{"completion-switch-default-mid", anyMode, `
function t(x) { var r = []; switch (x) { case 1: r.push(1); default: r.push('d'); case 2: r.push(2); break; case 3: r.push(3); } return r; }
log(t(1)); log(t(2)); log(t(3)); log(t(4));
switch (4) { case 1: 'one'; default: 'def'; case 2: 'two'; }
`},
		{"switch-scope", anyMode, `
switch (1) { case 0: let a = 1; case 1: try { log(a); } catch (e) { log(e); } a = 2; log(a); const b = 3; log(b); break; case 2: log('no'); }
var sv = 0; switch (sv++) { case sv: log('eq'); break; case 0: log('zero ' + sv); }
`},
		{"goja-defect-eval-global-let-closure", sloppyOnly | globalOnly, `eval("let z2 = 3; function f2() { return z2; } log(f2());");`},
		{"goja-defect-strict-eval-var-func", globalOnly, `eval("'use strict'; var fv = 1; function fv() {} log(typeof fv);");`},
	}...)
}
