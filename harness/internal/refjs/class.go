package refjs

// classDefinitionEvaluation is 15.7.14 ClassDefinitionEvaluation (without
// private names and static blocks). className is the value given to
// SetFunctionName: the binding identifier, the NamedEvaluation name, or nil
// for an anonymous class expression (name "").
func (it *Interp) classDefinitionEvaluation(n *Node, ctx *Ctx, className Value) *Object {
	it.tick()
	classBinding := n.S
	if classBinding != "" {
		className = classBinding
	}
	className = orEmpty(className)
	env := ctx.lex
	classEnv := newDeclEnv(env)
	if classBinding != "" {
		classEnv.CreateImmutableBinding(it, classBinding, true)
	}
	// all parts of a class definition are strict mode code
	cctx := *ctx
	cctx.strict = true
	cctx.lex = classEnv
	var protoParent *Object = it.realm.ObjectPrototype
	var constructorParent *Object = it.realm.FunctionPrototype
	heritage := n.kid(0)
	if heritage != nil {
		superclass := it.evalExpr(heritage, &cctx)
		switch {
		case superclass == jsNull:
			it.unsupported("class extends null")
		case !isConstructor(superclass):
			it.throwError("TypeError", "Class extends value is not a constructor or null")
		default:
			sc := superclass.(*Object)
			pp := it.getStr(sc, "prototype")
			switch x := pp.(type) {
			case *Object:
				protoParent = x
			case nullT:
				protoParent = nil
			default:
				it.throwError("TypeError", "Class extends value does not have valid prototype property")
			}
			constructorParent = sc
		}
	}
	proto := it.newObject(protoParent)
	var ctorMember *Node
	for _, m := range n.kidsFrom(1) {
		if m.K != "member" {
			it.unsupported("class element kind " + m.K)
		}
		if m.A == "method" && m.S != "static" && !m.B && m.kid(0).K != "num" && m.kid(0).S == "constructor" {
			if ctorMember != nil {
				it.unsupported("duplicate constructor")
			}
			if fl, _ := flavourOf(m.kid(1).A); fl != "normal" {
				it.unsupported("constructor must be a plain method")
			}
			ctorMember = m
		}
	}
	var f *Object
	if ctorMember == nil {
		// step 14: the default constructor is a built-in function object
		f = it.newObject(constructorParent)
		f.class = "Function"
		f.fn = &FuncData{strict: true, defaultCtor: true, flavour: "normal", env: classEnv}
		it.definePropertyOrThrow(f, strKey("length"), dataDesc(float64(0), false, false, true))
		it.setFunctionName(f, className, "")
	} else {
		f = it.makeClosure(ctorMember.kid(1), &cctx, constructorParent)
		f.fn.homeObject = proto
		it.setFunctionName(f, className, "")
	}
	f.fn.isClassConstructor = true
	// MakeConstructor(F, false, proto)
	f.fn.isConstructor = true
	it.definePropertyOrThrow(f, strKey("prototype"), dataDesc(proto, false, false, false))
	if heritage != nil {
		f.fn.derived = true
	}
	it.definePropertyOrThrow(proto, strKey("constructor"), dataDesc(f, true, false, true))
	var instanceFields, staticFields []*classFieldDef
	for _, m := range n.kidsFrom(1) {
		if m == ctorMember {
			continue
		}
		it.tick()
		home := proto
		if m.S == "static" {
			home = f
		}
		key := it.evalPropertyName(m.kid(0), m.B, &cctx)
		switch m.A {
		case "method", "get", "set":
			it.defineMethodProperty(home, key, m.A, m.kid(1), &cctx, false)
		case "field":
			// 15.7.10 ClassFieldDefinitionEvaluation
			fdef := &classFieldDef{key: key}
			if m.kid(1) != nil {
				init := it.newObject(it.realm.FunctionPrototype)
				init.class = "Function"
				init.fn = &FuncData{env: classEnv, strict: true, flavour: "normal", homeObject: home, fieldInit: m.kid(1), fieldKey: key}
				fdef.init = init
			}
			if m.S == "static" {
				staticFields = append(staticFields, fdef)
			} else {
				instanceFields = append(instanceFields, fdef)
			}
		default:
			it.unsupported("class member kind " + m.A)
		}
	}
	if classBinding != "" {
		classEnv.InitializeBinding(it, classBinding, f)
	}
	f.fn.fields = instanceFields
	for _, fd := range staticFields {
		it.defineField(f, fd)
	}
	return f
}

// defineField is 7.3.33 DefineField.
func (it *Interp) defineField(receiver *Object, fd *classFieldDef) {
	var v Value = Undefined
	if fd.init != nil {
		v = it.call(fd.init, receiver, nil)
	}
	it.createDataPropertyOrThrow(receiver, fd.key, v)
}

// initializeInstanceElements is 7.3.34.
func (it *Interp) initializeInstanceElements(o *Object, ctor *Object) {
	for _, fd := range ctor.fn.fields {
		it.defineField(o, fd)
	}
}

// defaultConstructorBody is the behaviour of the synthesised constructor
// (15.7.14 step 14.a).
func (it *Interp) defaultConstructorBody(f *Object, env *FuncEnv, args []Value) Value {
	nt, ok := env.newTarget.(*Object)
	if !ok {
		it.throwError("TypeError", "Class constructor cannot be invoked without 'new'")
	}
	if f.fn.derived {
		parent := f.proto
		if parent == nil || !isConstructor(parent) {
			it.throwError("TypeError", "Super constructor is not a constructor")
		}
		result := it.construct(parent, args, nt)
		ro := result.(*Object)
		env.BindThisValue(it, ro)
		it.initializeInstanceElements(ro, f)
		return ro
	}
	// base: [[Construct]] has already created and initialised `this`
	return env.GetThisBinding(it)
}

// evalSuperCall is 13.3.7.1 SuperCall.
func (it *Interp) evalSuperCall(n *Node, ctx *Ctx) Value {
	thisER, ok := getThisEnvironment(ctx.lex).(*FuncEnv)
	if !ok {
		it.unsupported("super() outside a constructor")
	}
	newTarget, ok := thisER.newTarget.(*Object)
	if !ok {
		it.unsupported("super() in a function that was not constructed")
	}
	// GetSuperConstructor
	fn := thisER.funcObj.proto
	args := it.evalArguments(n.Kids, ctx)
	if fn == nil || !isConstructor(fn) {
		it.throwError("TypeError", "Super constructor is not a constructor")
	}
	result := it.construct(fn, args, newTarget).(*Object)
	thisER.BindThisValue(it, result)
	it.initializeInstanceElements(result, thisER.funcObj)
	return result
}
