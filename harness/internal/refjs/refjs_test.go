package refjs_test

import (
	"encoding/json"
	"fmt"
	"reflect"
	"strings"
	"testing"

	. "verifh/internal/refjs"
	"verifh/internal/refjs/gojarun"
)

// mode flags of a corpus case
const (
	anyMode    = 0
	sloppyOnly = 1 // uses with / sloppy-only semantics
	strictOnly = 2 // e.g. function declarations in blocks
	globalOnly = 4 // placement-sensitive (e.g. top-level this, global var properties)
	// the case would trip over a known goja defect in this configuration (see
	// the goja-defect-* cases, which pin the defects down separately)
	noSloppyEval = 8
	noStrictEval = 16
)

type tcase struct {
	name  string
	flags int
	prog  *Node
}

type diff struct {
	name, opt, src string
	ref            Observation
	goja           gojarun.Result
}

func (d diff) String() string {
	src := d.src
	if len(src) > 1200 {
		src = src[:1200] + "\n...[truncated]"
	}
	// show only the neighbourhood of the first differing log entry
	i := 0
	for i < len(d.ref.Log) && i < len(d.goja.Log) && d.ref.Log[i] == d.goja.Log[i] {
		i++
	}
	win := func(l []string) []string {
		lo, hi := i-3, i+3
		if lo < 0 {
			lo = 0
		}
		if hi > len(l) {
			hi = len(l)
		}
		if lo > hi {
			lo = hi
		}
		return l[lo:hi]
	}
	return fmt.Sprintf("=== %s [%s]\n%s\n--- first log difference at index %d (lengths %d / %d)\n--- refjs: log[..]=%q completion=%s exception=%s\n--- goja : log[..]=%q completion=%s exception=%s host=%q\n",
		d.name, d.opt, src, i, len(d.ref.Log), len(d.goja.Log), win(d.ref.Log), d.ref.Completion, d.ref.Exception, win(d.goja.Log), d.goja.Completion, d.goja.Exception, d.goja.HostError)
}

// compare runs prog under opt on both sides; ok=false with a diff on disagreement.
// skipped is true when refjs declined (fuel / unsupported).
func compare(name string, prog *Node, opt Options) (d *diff, skipped string) {
	ref := Run(prog, opt)
	if ref.Unsupported != "" {
		return nil, "unsupported: " + ref.Unsupported
	}
	if ref.Fuel {
		return nil, "fuel"
	}
	src := Source(prog, opt)
	g := gojarun.Run(src, 0, 0)
	same := g.HostError == "" && reflect.DeepEqual(nilIfEmpty(ref.Log), nilIfEmpty(g.Log)) && ref.Exception == g.Exception
	if same && opt.Placement != "function" {
		same = ref.Completion == g.Completion
	}
	if same {
		return nil, ""
	}
	return &diff{name: name, opt: fmt.Sprintf("strict=%v placement=%s", opt.Strict, opt.Placement), src: src, ref: ref, goja: g}, ""
}

func nilIfEmpty(s []string) []string {
	if len(s) == 0 {
		return nil
	}
	return s
}

var placements = []string{"global", "function", "eval"}

func optionsFor(flags int) []Options {
	var out []Options
	for _, strict := range []bool{false, true} {
		if strict && flags&sloppyOnly != 0 {
			continue
		}
		if !strict && flags&strictOnly != 0 {
			continue
		}
		for _, p := range placements {
			if p != "global" && flags&globalOnly != 0 {
				continue
			}
			if p == "eval" && ((!strict && flags&noSloppyEval != 0) || (strict && flags&noStrictEval != 0)) {
				continue
			}
			out = append(out, Options{Strict: strict, Placement: p})
		}
	}
	return out
}

// knownGojaDefect lists corpus cases on which goja is wrong against the
// specification (see the report); they are checked to still disagree, so that a
// fixed goja or a changed refjs is noticed.
var knownGojaDefect = map[string]string{
	"goja-defect-generator-finally-throws-during-return": "generator return(): an exception thrown by an inner finally block skips the outer finally and escapes the caller's try/catch",
	// not in the corpus because it kills the process (Go fatal error: stack overflow):
	//   function* g() { yield* it; } var it = g(); it.next();   // must throw TypeError (generator already running)
	"goja-defect-generator-throw-after-return-in-finally": "generator suspended in a finally block entered by return(): a following throw(x) that the generator does not catch escapes the caller's try/catch",
	"goja-defect-eval-surplus-args-leak-into-locals":      "function containing a direct eval, called with more arguments than parameters: uninitialised var/let locals read the surplus argument values",
	"goja-defect-dead-branch-continue-panic":              "for (let e of []) { if (1) {} else { continue; } }: Go panic index out of range [-1] while compiling",
	"goja-defect-let-after-continue":                      "for(...) { continue; let v; } fails to compile: 'Compiler bug: Lexical declaration for an unbound name'",
	"goja-defect-default-param-eval-panic":                "strict function with a parameter default, a direct eval in the body and a use of the parameter: Go panic index out of range",
	"goja-defect-rest-param-nested-eval-panic":            "function with a used rest parameter and a nested function containing a direct eval: Go panic index out of range",
	"goja-defect-finally-throw-caught-by-sibling-catch":   "try{}catch(e){}finally{throw 1}: the exception from finally is caught by the same statement's catch and finally runs twice",
	"goja-defect-logical-assign-primitive-target":         "strict code: prim.x ||= 1 does not throw TypeError (prim.x = 1 does)",
	"goja-defect-unresolvable-callee-args-first":          "undecl(f()) evaluates the arguments before throwing the ReferenceError for the callee",
	"goja-defect-destructure-primitive-target":            "strict code: [prim[0]] = [1] does not throw TypeError (plain prim[0] = 1 does)",
	"goja-defect-super-in-field-init":                     "super.x inside a class field initialiser is rejected with SyntaxError",
	"goja-defect-error-message-tostring":                  "new Error(5).message is the number 5 (must be ToString(message) = \"5\")",
	"goja-defect-continue-outer-label":                    "`x: y: for(...) { continue x; }` rejected: SyntaxError 'x' does not denote an iteration statement",
	"goja-defect-elision-reads-value":                     "array pattern elision reads the `value` of the iterator result (IteratorStep must not)",
	"goja-defect-strict-eval-arguments":                   "direct eval inside a strict function sees `arguments` as undefined",
	"goja-defect-compound-key-twice":                      "o[k] += v and o[k]++ call ToPropertyKey(k) twice",
	"goja-defect-nullish-base-key-first":                  "null[k] converts k (calls toString) before throwing for the null base",
	"goja-defect-fold-and-comma-array":                    "(0 && x, 1) as array element: Go panic interface conversion",
	"goja-defect-fold-and-comma-assign":                   "o.a = (0 && 1, 7) stores undefined",
	"goja-defect-fold-and-comma-arg":                      "f((0 && x, 1), 2): spurious TypeError",
	"goja-defect-fold-and-comma-objlit":                   "({a: (0 && x, 5)}): spurious TypeError",
	"goja-defect-arrow-arguments":                         "`arguments` used only inside a nested arrow function: Go panic index out of range (loadStack1)",
	"goja-defect-arrow-arguments2":                        "`arguments` used only inside a nested arrow function: reads undefined instead of the outer function's argument",
	"goja-defect-eval-global-let-closure":                 "function declared in a sloppy global direct eval cannot see the eval's own let/const",
	"goja-defect-strict-eval-var-func":                    "strict direct eval: `var f; function f(){}` rejected with SyntaxError",
}

func TestCorpus(t *testing.T) {
	agree, total := 0, 0
	for _, c := range corpus() {
		// every corpus program must survive a JSON round trip unchanged
		js, err := json.Marshal(c.prog)
		if err != nil {
			t.Fatalf("%s: marshal: %v", c.name, err)
		}
		var back Node
		if err := json.Unmarshal(js, &back); err != nil {
			t.Fatalf("%s: unmarshal: %v", c.name, err)
		}
		if Print(&back) != Print(c.prog) {
			t.Errorf("%s: JSON round trip changed the program", c.name)
		}
		for _, opt := range optionsFor(c.flags) {
			total++
			d, skipped := compare(c.name, &back, opt)
			if skipped != "" {
				t.Errorf("%s [strict=%v %s]: refjs declined: %s\n%s", c.name, opt.Strict, opt.Placement, skipped, Source(c.prog, opt))
				continue
			}
			if why, known := knownGojaDefect[c.name]; known {
				if d == nil {
					t.Logf("%s [strict=%v %s]: known goja defect no longer reproduces (%s)", c.name, opt.Strict, opt.Placement, why)
				}
				continue
			}
			if d != nil {
				t.Errorf("DISAGREE %s", d)
				continue
			}
			agree++
		}
	}
	t.Logf("corpus: %d/%d program×mode×placement runs agree", agree, total)
}

func TestPrintStable(t *testing.T) {
	for _, c := range corpus() {
		a, b := Print(c.prog), Print(c.prog.Clone())
		if a != b {
			t.Errorf("%s: Print is not stable", c.name)
		}
		if strings.Contains(a, "/*") {
			t.Errorf("%s: printer emitted an error marker:\n%s", c.name, a)
		}
	}
}
