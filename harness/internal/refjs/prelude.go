package refjs

// PreludeJS defines, for the engine under test, the two global helpers that the
// interpreter provides natively:
//
//	log(x)       appends describe(x) to the global array __log, returns undefined
//	describe(x)  the fixed value rendering documented in describe.go
//
// It must be run as its own (sloppy) script before the program. All three
// globals are non-enumerable so that rendering the global object shows only
// the program's own globals. The helpers use primordials captured at load time
// and never call user code (no getters, no toString/valueOf, no iterators, no
// [[Set]] that could reach a setter on a prototype).
const PreludeJS = `(function (global) {
  var O = Object, gopd = O.getOwnPropertyDescriptor, gpo = O.getPrototypeOf,
      names = O.getOwnPropertyNames, defprop = O.defineProperty, isArray = Array.isArray,
      apply = Reflect.apply, fts = Function.prototype.toString, hop = O.prototype.hasOwnProperty,
      Str = String, stringify = JSON.stringify,
      ErrorProto = Error.prototype, PromiseProto = Promise.prototype,
      GenProto = gpo(gpo((function* () {})())),
      logArr = [];
  var MAXDEPTH = 4, MAXELEMS = 64;
  function inChain(proto, x) {
    for (var p = gpo(x); p !== null; p = gpo(p)) if (p === proto) return true;
    return false;
  }
  function isData(desc) { return apply(hop, desc, ["value"]); }
  // value of a data property found along the prototype chain, never calling a getter
  function dataLookup(x, key) {
    for (var o = x; o !== null; o = gpo(o)) {
      var desc = gopd(o, key);
      if (desc !== undefined) return isData(desc) ? desc.value : undefined;
    }
    return undefined;
  }
  function d(x, depth, stack) {
    if (x === undefined) return "undefined";
    if (x === null) return "null";
    var t = typeof x;
    if (t === "boolean") return x ? "true" : "false";
    if (t === "number") return (x === 0 && 1 / x < 0) ? "-0" : Str(x);
    if (t === "string") return stringify(x);
    if (t === "symbol") return Str(x);
    if (t === "bigint") return Str(x) + "n";
    if (t === "function") {
      var src = "";
      try { src = apply(fts, x, []); } catch (e) {}
      return (src.length > 5 && src[0] === "c" && src[1] === "l" && src[2] === "a" && src[3] === "s" && src[4] === "s") ? "class" : "function";
    }
    for (var s = stack; s !== null; s = s.next) if (s.v === x) return "<cycle>";
    if (inChain(ErrorProto, x)) {
      var c = dataLookup(x, "constructor"), n;
      if (c !== null && (typeof c === "function" || typeof c === "object")) n = dataLookup(c, "name");
      // a short message without blanks is one chosen by the program (the engine's own messages are sentences and differ
      // between implementations): it is part of the payload
      var m = dataLookup(x, "message"), ms = "";
      if (typeof m === "string" && m.length > 0 && m.length <= 24) {
        ms = "(" + m + ")";
        for (var mi = 0; mi < m.length; mi++) if (m[mi] < "!" || m[mi] > "~") { ms = ""; break; }
      }
      return "Error:" + (typeof n === "string" ? n : "?") + ms;
    }
    if (inChain(GenProto, x)) return "generator";
    if (inChain(PromiseProto, x)) return "promise";
    if (depth >= MAXDEPTH) return "...";
    stack = { v: x, next: stack };
    var out, desc;
    if (isArray(x)) {
      var len = gopd(x, "length").value;
      out = "[";
      for (var j = 0; j < len; j++) {
        if (j > 0) out += ",";
        if (j >= MAXELEMS) { out += "..."; break; }
        desc = gopd(x, j);
        if (desc === undefined) out += "<hole>";
        else if (!isData(desc)) out += "<accessor>";
        else out += d(desc.value, depth + 1, stack);
      }
      out += "]";
    } else {
      var ks = names(x), first = true;
      out = "{";
      for (var k = 0; k < ks.length; k++) {
        desc = gopd(x, ks[k]);
        if (desc === undefined || !desc.enumerable) continue;
        if (!first) out += ",";
        first = false;
        out += ks[k] + ":";
        if (!isData(desc)) out += "<accessor>";
        else out += d(desc.value, depth + 1, stack);
      }
      out += "}";
    }
    return out;
  }
  function describe(x) { return d(x, 0, null); }
  function log(x) {
    defprop(logArr, logArr.length, { __proto__: null, value: d(x, 0, null), writable: true, enumerable: true, configurable: true });
  }
  defprop(global, "describe", { __proto__: null, value: describe, writable: true, enumerable: false, configurable: true });
  defprop(global, "log", { __proto__: null, value: log, writable: true, enumerable: false, configurable: true });
  defprop(global, "__log", { __proto__: null, value: logArr, writable: false, enumerable: false, configurable: false });
})(this);
`
