package refjs

import (
	"sort"
	"strconv"
)

// Value is an ECMAScript language value:
//
//	undefT{} (Undefined), nullT{} (jsNull = null), bool, float64, string, *Symbol, *Object
//
// Strings are Go strings holding one byte per UTF-16 code unit; only ASCII is
// supported (a non-ASCII literal makes the program Unsupported).
type Value interface{}

type undefT struct{}
type nullT struct{}

var (
	Undefined Value = undefT{}
	jsNull    Value = nullT{}
)

// Symbol is a Symbol value; identity is pointer identity.
type Symbol struct {
	desc    string
	hasDesc bool
}

func (s *Symbol) descriptive() string {
	return "Symbol(" + s.desc + ")"
}

// PropKey is a property key: a string, or a symbol when sym != nil.
type PropKey struct {
	str string
	sym *Symbol
}

func strKey(s string) PropKey    { return PropKey{str: s} }
func symKey(s *Symbol) PropKey   { return PropKey{sym: s} }
func (k PropKey) isSymbol() bool { return k.sym != nil }
func (k PropKey) value() Value {
	if k.sym != nil {
		return k.sym
	}
	return k.str
}
func (k PropKey) String() string {
	if k.sym != nil {
		return k.sym.descriptive()
	}
	return k.str
}

// arrayIndex: 7.1.21 CanonicalNumericIndexString restricted to array indices
// (an integer 0 <= i < 2^32-1 in canonical decimal form).
func arrayIndex(k PropKey) (uint32, bool) {
	if k.sym != nil {
		return 0, false
	}
	s := k.str
	if s == "" || len(s) > 10 {
		return 0, false
	}
	if s[0] == '0' && len(s) > 1 {
		return 0, false
	}
	var v uint64
	for i := 0; i < len(s); i++ {
		if s[i] < '0' || s[i] > '9' {
			return 0, false
		}
		v = v*10 + uint64(s[i]-'0')
	}
	if v >= 4294967295 {
		return 0, false
	}
	return uint32(v), true
}

func indexKey(i uint32) PropKey { return PropKey{str: strconv.FormatUint(uint64(i), 10)} }

// Property is a property slot (6.1.7.1): a data property (value, writable) or
// an accessor property (get, set; nil means undefined).
type Property struct {
	accessor     bool
	value        Value
	get, set     *Object
	writable     bool
	enumerable   bool
	configurable bool
}

// PropDesc is a Property Descriptor record (6.2.6) with field-presence flags.
type PropDesc struct {
	value                                       Value
	get, set                                    Value // Undefined or *Object
	writable, enumerable, configurable          bool
	hasValue, hasGet, hasSet                    bool
	hasWritable, hasEnumerable, hasConfigurable bool
}

func (d *PropDesc) isAccessor() bool { return d.hasGet || d.hasSet }
func (d *PropDesc) isData() bool     { return d.hasValue || d.hasWritable }
func (d *PropDesc) isGeneric() bool  { return !d.isAccessor() && !d.isData() }

func dataDesc(v Value, w, e, c bool) PropDesc {
	return PropDesc{value: v, hasValue: true, writable: w, hasWritable: true, enumerable: e, hasEnumerable: true, configurable: c, hasConfigurable: true}
}

func accessorDesc(get, set Value, e, c bool) PropDesc {
	return PropDesc{get: get, set: set, hasGet: true, hasSet: true, enumerable: e, hasEnumerable: true, configurable: c, hasConfigurable: true}
}

func (p *Property) toDesc() PropDesc {
	if p.accessor {
		var g, s Value = Undefined, Undefined
		if p.get != nil {
			g = p.get
		}
		if p.set != nil {
			s = p.set
		}
		return accessorDesc(g, s, p.enumerable, p.configurable)
	}
	return dataDesc(p.value, p.writable, p.enumerable, p.configurable)
}

// Object is an ECMAScript object. Exotic behaviour is selected by the fields
// isArray / argMap / strData; everything else uses the ordinary internal
// methods of 10.1.
type Object struct {
	proto      *Object
	class      string // "Object", "Array", "Function", "Error", "Arguments", "Boolean", "Number", "String", "Symbol", "Generator", "Promise", "ArrayIterator", "global"
	extensible bool
	props      map[PropKey]*Property
	keys       []PropKey // creation order

	isArray bool // Array exotic object (10.4.2)

	// mapped arguments exotic object (10.4.4): index key -> parameter name in argEnv
	argMap map[string]string
	argEnv Env

	// String exotic object (10.4.3) / primitive wrappers
	prim    Value
	hasPrim bool

	fn      *FuncData    // callable
	gen     *generator   // generator instance
	promise *promiseData // promise
	iter    *arrayIter   // %ArrayIteratorPrototype% instance

	// intrinsic marks a built-in object; missing lists standard property names
	// that exist in a real engine but are not implemented here: touching one
	// makes the program Unsupported instead of silently diverging.
	intrinsic string
	missing   map[string]bool

	toStringTag string // value of the (unobservable) @@toStringTag for Object.prototype.toString
}

func (it *Interp) newObject(proto *Object) *Object {
	return &Object{proto: proto, class: "Object", extensible: true, props: map[PropKey]*Property{}}
}

func typeOf(v Value) string {
	switch x := v.(type) {
	case undefT:
		return "undefined"
	case nullT:
		return "object"
	case bool:
		return "boolean"
	case float64:
		return "number"
	case string:
		return "string"
	case *Symbol:
		return "symbol"
	case *Object:
		if x.fn != nil {
			return "function"
		}
		return "object"
	}
	panic("refjs: bad value")
}

func isObject(v Value) bool { _, ok := v.(*Object); return ok }
func isCallable(v Value) bool {
	o, ok := v.(*Object)
	return ok && o.fn != nil
}
func isConstructor(v Value) bool {
	o, ok := v.(*Object)
	return ok && o.fn != nil && o.fn.isConstructor
}
func isNullish(v Value) bool {
	switch v.(type) {
	case undefT, nullT:
		return true
	}
	return false
}

// ---------------------------------------------------------------------------
// Ordinary and exotic internal methods (10.1, 10.4.2, 10.4.3, 10.4.4)
// ---------------------------------------------------------------------------

func (o *Object) rawGet(k PropKey) *Property { return o.props[k] }

func (o *Object) rawSet(k PropKey, p *Property) {
	if _, ok := o.props[k]; !ok {
		o.keys = append(o.keys, k)
	}
	o.props[k] = p
}

func (o *Object) rawDelete(k PropKey) {
	if _, ok := o.props[k]; !ok {
		return
	}
	delete(o.props, k)
	for i, kk := range o.keys {
		if kk == k {
			o.keys = append(o.keys[:i:i], o.keys[i+1:]...)
			break
		}
	}
}

// checkMissing makes the run Unsupported when a standard property that refjs
// does not implement is looked up on a built-in object.
func (it *Interp) checkMissing(o *Object, k PropKey) {
	if o.missing != nil && k.sym == nil && o.missing[k.str] {
		if _, ok := o.props[k]; !ok {
			it.unsupported("built-in property " + o.intrinsic + "." + k.str)
		}
	}
}

// getOwnProperty is [[GetOwnProperty]]; it returns nil for "undefined".
func (it *Interp) getOwnProperty(o *Object, k PropKey) *Property {
	it.checkMissing(o, k)
	if o.hasPrim {
		if s, ok := o.prim.(string); ok {
			// 10.4.3.5 StringGetOwnProperty
			if p := o.props[k]; p != nil {
				return p
			}
			if idx, ok := arrayIndex(k); ok && int(idx) < len(s) {
				return &Property{value: s[idx : idx+1], writable: false, enumerable: true, configurable: false}
			}
			return nil
		}
	}
	p := o.props[k]
	if p == nil {
		return nil
	}
	if o.argMap != nil && k.sym == nil {
		// 10.4.4.1: a mapped index reports the current value of the parameter
		if name, ok := o.argMap[k.str]; ok {
			cp := *p
			cp.value = o.argEnv.GetBindingValue(it, name, false)
			return &cp
		}
	}
	return p
}

// validateAndApply is 10.1.6.3 ValidateAndApplyPropertyDescriptor. When o is nil
// only validation is performed.
func validateAndApply(o *Object, k PropKey, extensible bool, d PropDesc, cur *Property) bool {
	if cur == nil {
		if !extensible {
			return false
		}
		if o == nil {
			return true
		}
		np := &Property{enumerable: d.enumerable, configurable: d.configurable}
		if d.isAccessor() {
			np.accessor = true
			if g, ok := d.get.(*Object); ok {
				np.get = g
			}
			if s, ok := d.set.(*Object); ok {
				np.set = s
			}
		} else {
			np.value = Undefined
			if d.hasValue {
				np.value = d.value
			}
			np.writable = d.writable
		}
		o.rawSet(k, np)
		return true
	}
	if !cur.configurable {
		if d.hasConfigurable && d.configurable {
			return false
		}
		if d.hasEnumerable && d.enumerable != cur.enumerable {
			return false
		}
		if !d.isGeneric() && d.isAccessor() != cur.accessor {
			return false
		}
		if cur.accessor {
			if d.hasGet && !sameObjOrUndef(d.get, cur.get) {
				return false
			}
			if d.hasSet && !sameObjOrUndef(d.set, cur.set) {
				return false
			}
		} else if !cur.writable {
			if d.hasWritable && d.writable {
				return false
			}
			if d.hasValue && !sameValue(d.value, cur.value) {
				return false
			}
		}
	}
	if o == nil {
		return true
	}
	// The stored *Property is replaced, not mutated, so that descriptors handed
	// out earlier stay snapshots.
	np := *cur
	if d.isAccessor() && !cur.accessor {
		np = Property{accessor: true, enumerable: cur.enumerable, configurable: cur.configurable}
	} else if d.isData() && cur.accessor {
		np = Property{value: Undefined, enumerable: cur.enumerable, configurable: cur.configurable}
	}
	if d.hasValue {
		np.value = d.value
	}
	if d.hasWritable {
		np.writable = d.writable
	}
	if d.hasGet {
		np.get, _ = d.get.(*Object)
	}
	if d.hasSet {
		np.set, _ = d.set.(*Object)
	}
	if d.hasEnumerable {
		np.enumerable = d.enumerable
	}
	if d.hasConfigurable {
		np.configurable = d.configurable
	}
	o.props[k] = &np
	return true
}

func sameObjOrUndef(v Value, o *Object) bool {
	if vo, ok := v.(*Object); ok {
		return vo == o
	}
	return o == nil
}

// defineOwnProperty is [[DefineOwnProperty]].
func (it *Interp) defineOwnProperty(o *Object, k PropKey, d PropDesc) bool {
	switch {
	case o.isArray:
		return it.arrayDefineOwnProperty(o, k, d)
	case o.argMap != nil:
		return it.argumentsDefineOwnProperty(o, k, d)
	case o.hasPrim:
		if s, ok := o.prim.(string); ok {
			// 10.4.3.2
			if idx, ok := arrayIndex(k); ok && int(idx) < len(s) {
				cur := it.getOwnProperty(o, k)
				return validateAndApply(nil, k, o.extensible, d, cur)
			}
		}
	}
	return it.ordinaryDefineOwnProperty(o, k, d)
}

func (it *Interp) ordinaryDefineOwnProperty(o *Object, k PropKey, d PropDesc) bool {
	it.checkMissing(o, k)
	cur := o.props[k]
	return validateAndApply(o, k, o.extensible, d, cur)
}

// arrayDefineOwnProperty is 10.4.2.1.
func (it *Interp) arrayDefineOwnProperty(a *Object, k PropKey, d PropDesc) bool {
	if k.sym == nil && k.str == "length" {
		return it.arraySetLength(a, d)
	}
	if idx, ok := arrayIndex(k); ok {
		lenProp := a.props[strKey("length")]
		length := uint32(lenProp.value.(float64))
		if idx >= length && !lenProp.writable {
			return false
		}
		if !it.ordinaryDefineOwnProperty(a, k, d) {
			return false
		}
		if idx >= length {
			np := *lenProp
			np.value = float64(idx) + 1
			a.props[strKey("length")] = &np
		}
		return true
	}
	return it.ordinaryDefineOwnProperty(a, k, d)
}

// arraySetLength is 10.4.2.4.
func (it *Interp) arraySetLength(a *Object, d PropDesc) bool {
	if !d.hasValue {
		return it.ordinaryDefineOwnProperty(a, strKey("length"), d)
	}
	newLen := it.toUint32(d.value)
	numberLen := it.toNumber(d.value)
	if float64(newLen) != numberLen {
		it.throwError("RangeError", "Invalid array length")
	}
	nd := d
	nd.value = float64(newLen)
	lenProp := a.props[strKey("length")]
	oldLen := uint32(lenProp.value.(float64))
	if newLen >= oldLen {
		return it.ordinaryDefineOwnProperty(a, strKey("length"), nd)
	}
	if !lenProp.writable {
		return false
	}
	newWritable := true
	if nd.hasWritable && !nd.writable {
		newWritable = false
		nd.writable = true
	}
	if !it.ordinaryDefineOwnProperty(a, strKey("length"), nd) {
		return false
	}
	// delete elements from the end
	var idxs []uint32
	for _, k := range a.keys {
		if i, ok := arrayIndex(k); ok && i >= newLen {
			idxs = append(idxs, i)
		}
	}
	sort.Slice(idxs, func(i, j int) bool { return idxs[i] > idxs[j] })
	for _, i := range idxs {
		it.tick()
		if !it.delete(a, indexKey(i)) {
			nd.value = float64(i) + 1
			if !newWritable {
				nd.writable = false
			}
			it.ordinaryDefineOwnProperty(a, strKey("length"), nd)
			return false
		}
	}
	if !newWritable {
		it.ordinaryDefineOwnProperty(a, strKey("length"), PropDesc{writable: false, hasWritable: true})
	}
	return true
}

// argumentsDefineOwnProperty is 10.4.4.2.
func (it *Interp) argumentsDefineOwnProperty(o *Object, k PropKey, d PropDesc) bool {
	name, mapped := "", false
	if k.sym == nil {
		name, mapped = o.argMap[k.str]
	}
	nd := d
	if mapped && d.isData() {
		if !d.hasValue && d.hasWritable && !d.writable {
			nd.value = o.argEnv.GetBindingValue(it, name, false)
			nd.hasValue = true
		}
	}
	if !it.ordinaryDefineOwnProperty(o, k, nd) {
		return false
	}
	if mapped {
		if d.isAccessor() {
			delete(o.argMap, k.str)
		} else {
			if d.hasValue {
				o.argEnv.SetMutableBinding(it, name, d.value, false)
			}
			if d.hasWritable && !d.writable {
				delete(o.argMap, k.str)
			}
		}
	}
	return true
}

// hasProperty is [[HasProperty]] (10.1.7).
func (it *Interp) hasProperty(o *Object, k PropKey) bool {
	for o != nil {
		it.tick()
		if it.getOwnProperty(o, k) != nil {
			return true
		}
		o = o.proto
	}
	return false
}

// get is [[Get]] (10.1.8 OrdinaryGet; 10.4.4.3 for mapped arguments is covered
// by getOwnProperty reporting the live parameter value).
func (it *Interp) get(o *Object, k PropKey, receiver Value) Value {
	for o != nil {
		it.tick()
		p := it.getOwnProperty(o, k)
		if p != nil {
			if !p.accessor {
				return p.value
			}
			if p.get == nil {
				return Undefined
			}
			return it.call(p.get, receiver, nil)
		}
		o = o.proto
	}
	return Undefined
}

// set is [[Set]] (10.1.9 OrdinarySet / OrdinarySetWithOwnDescriptor).
func (it *Interp) set(o *Object, k PropKey, v Value, receiver Value) bool {
	if o.argMap != nil {
		// 10.4.4.4: when the receiver is the arguments object itself, a mapped
		// index also writes the parameter.
		if ro, ok := receiver.(*Object); ok && ro == o && k.sym == nil {
			if name, ok := o.argMap[k.str]; ok {
				o.argEnv.SetMutableBinding(it, name, v, false)
			}
		}
	}
	var own *Property
	for cur := o; ; cur = cur.proto {
		if cur == nil {
			own = &Property{value: Undefined, writable: true, enumerable: true, configurable: true}
			break
		}
		it.tick()
		if p := it.getOwnProperty(cur, k); p != nil {
			own = p
			break
		}
	}
	if !own.accessor {
		if !own.writable {
			return false
		}
		ro, ok := receiver.(*Object)
		if !ok {
			return false
		}
		existing := it.getOwnProperty(ro, k)
		if existing != nil {
			if existing.accessor || !existing.writable {
				return false
			}
			return it.defineOwnProperty(ro, k, PropDesc{value: v, hasValue: true})
		}
		return it.defineOwnProperty(ro, k, dataDesc(v, true, true, true))
	}
	if own.set == nil {
		return false
	}
	it.call(own.set, receiver, []Value{v})
	return true
}

// delete is [[Delete]] (10.1.10; 10.4.4.5 for mapped arguments).
func (it *Interp) delete(o *Object, k PropKey) bool {
	p := it.getOwnProperty(o, k)
	if p == nil {
		return true
	}
	if !p.configurable {
		return false
	}
	if _, stored := o.props[k]; !stored {
		return false // string exotic index (non-configurable anyway)
	}
	o.rawDelete(k)
	if o.argMap != nil && k.sym == nil {
		delete(o.argMap, k.str)
	}
	return true
}

// ownKeys is [[OwnPropertyKeys]] (10.1.11.1 OrdinaryOwnPropertyKeys; 10.4.3.3
// for String exotic objects): array indices ascending, then strings in
// creation order, then symbols in creation order.
func (it *Interp) ownKeys(o *Object) []PropKey {
	var idx []uint32
	var strs, syms []PropKey
	if o.hasPrim {
		if s, ok := o.prim.(string); ok {
			for i := range s {
				idx = append(idx, uint32(i))
			}
		}
	}
	nPrim := len(idx)
	for _, k := range o.keys {
		if k.sym != nil {
			syms = append(syms, k)
		} else if i, ok := arrayIndex(k); ok {
			idx = append(idx, i)
		} else {
			strs = append(strs, k)
		}
	}
	rest := idx[nPrim:]
	sort.Slice(rest, func(i, j int) bool { return rest[i] < rest[j] })
	out := make([]PropKey, 0, len(idx)+len(strs)+len(syms))
	for _, i := range idx {
		out = append(out, indexKey(i))
	}
	out = append(out, strs...)
	out = append(out, syms...)
	return out
}

// ---- abstract operations on objects (7.3) ----

func (it *Interp) getV(v Value, k PropKey) Value {
	o := it.toObject(v)
	return it.get(o, k, v)
}

func (it *Interp) getStr(o *Object, name string) Value { return it.get(o, strKey(name), o) }

// setOrThrow is Set(O, P, V, true).
func (it *Interp) setOrThrow(o *Object, k PropKey, v Value) {
	if !it.set(o, k, v, o) {
		it.throwError("TypeError", "Cannot assign to read only property '"+k.String()+"'")
	}
}

// createDataProperty is 7.3.5.
func (it *Interp) createDataProperty(o *Object, k PropKey, v Value) bool {
	return it.defineOwnProperty(o, k, dataDesc(v, true, true, true))
}

func (it *Interp) createDataPropertyOrThrow(o *Object, k PropKey, v Value) {
	if !it.createDataProperty(o, k, v) {
		it.throwError("TypeError", "Cannot define property '"+k.String()+"'")
	}
}

func (it *Interp) definePropertyOrThrow(o *Object, k PropKey, d PropDesc) {
	if !it.defineOwnProperty(o, k, d) {
		it.throwError("TypeError", "Cannot redefine property '"+k.String()+"'")
	}
}

func (it *Interp) deletePropertyOrThrow(o *Object, k PropKey) {
	if !it.delete(o, k) {
		it.throwError("TypeError", "Cannot delete property '"+k.String()+"'")
	}
}

// getMethod is 7.3.11.
func (it *Interp) getMethod(v Value, k PropKey) *Object {
	f := it.getV(v, k)
	if isNullish(f) {
		return nil
	}
	if !isCallable(f) {
		it.throwError("TypeError", k.String()+" is not a function")
	}
	return f.(*Object)
}

// defMethod installs a hidden (non-enumerable) data property; used for built-ins.
func (o *Object) defHidden(name string, v Value) {
	o.rawSet(strKey(name), &Property{value: v, writable: true, enumerable: false, configurable: true})
}

// arrayCreate is 10.4.2.2 ArrayCreate(0) followed by element definition.
func (it *Interp) newArray(elems []Value) *Object {
	a := &Object{proto: it.realm.ArrayPrototype, class: "Array", extensible: true, props: map[PropKey]*Property{}, isArray: true}
	a.rawSet(strKey("length"), &Property{value: float64(0), writable: true})
	for i, e := range elems {
		it.createDataProperty(a, indexKey(uint32(i)), e)
	}
	return a
}

// lengthOfArrayLike is 7.3.19.
func (it *Interp) lengthOfArrayLike(o *Object) float64 {
	return it.toLength(it.getStr(o, "length"))
}

// createListFromArrayLike is 7.3.20.
func (it *Interp) createListFromArrayLike(v Value) []Value {
	o, ok := v.(*Object)
	if !ok {
		it.throwError("TypeError", "CreateListFromArrayLike called on non-object")
	}
	n := it.lengthOfArrayLike(o)
	var list []Value
	for i := float64(0); i < n; i++ {
		it.tick()
		list = append(list, it.get(o, strKey(numberToString(i)), o))
	}
	return list
}

// setIntegrityLevel frozen (7.3.16) and testIntegrityLevel frozen (7.3.17).
func (it *Interp) freeze(o *Object) bool {
	o.extensible = false
	for _, k := range it.ownKeys(o) {
		cur := it.getOwnProperty(o, k)
		if cur == nil {
			continue
		}
		var d PropDesc
		if cur.accessor {
			d = PropDesc{configurable: false, hasConfigurable: true}
		} else {
			d = PropDesc{configurable: false, hasConfigurable: true, writable: false, hasWritable: true}
		}
		it.definePropertyOrThrow(o, k, d)
	}
	return true
}

func (it *Interp) isFrozen(o *Object) bool {
	if o.extensible {
		return false
	}
	for _, k := range it.ownKeys(o) {
		cur := it.getOwnProperty(o, k)
		if cur == nil {
			continue
		}
		if cur.configurable {
			return false
		}
		if !cur.accessor && cur.writable {
			return false
		}
	}
	return true
}
