package refjs

import (
	"fmt"
	"strings"
)

// describe renders a value exactly like the `describe` function of PreludeJS:
//
//	undefined, null, true, false      literally
//	numbers                           Number::toString, but -0 as "-0"
//	strings                           JSON-quoted
//	symbols                           Symbol(description)
//	functions                         "function" ("class" for class constructors)
//	objects inheriting from %Error.prototype%        "Error:" + constructor.name (data properties only, "?" otherwise)
//	objects inheriting from %GeneratorPrototype%     "generator"
//	objects inheriting from %Promise.prototype%      "promise"
//	arrays                            [e0,e1,...]  holes "<hole>", accessors "<accessor>", at most 64 elements then "..."
//	other objects                     {k:v,...} over own enumerable string keys in [[OwnPropertyKeys]] order,
//	                                  accessors "k:<accessor>"
//	nesting deeper than 4             "..."
//	an object already being rendered  "<cycle>"
//
// It never runs user code.
func (it *Interp) describe(v Value) string { return it.desc(v, 0, nil) }

const (
	describeMaxDepth = 4
	describeMaxElems = 64
)

// ownRaw is [[GetOwnProperty]] without the Unsupported check for built-ins.
func (it *Interp) ownRaw(o *Object, k PropKey) *Property {
	saved := o.missing
	o.missing = nil
	p := it.getOwnProperty(o, k)
	o.missing = saved
	return p
}

func inChain(proto *Object, o *Object) bool {
	for p := o.proto; p != nil; p = p.proto {
		if p == proto {
			return true
		}
	}
	return false
}

// dataLookup finds a data property along the prototype chain without calling getters.
func (it *Interp) dataLookup(o *Object, name string) Value {
	for ; o != nil; o = o.proto {
		if p := it.ownRaw(o, strKey(name)); p != nil {
			if p.accessor {
				return Undefined
			}
			return p.value
		}
	}
	return Undefined
}

func (it *Interp) desc(v Value, depth int, stack []*Object) string {
	switch x := v.(type) {
	case undefT:
		return "undefined"
	case nullT:
		return "null"
	case bool:
		if x {
			return "true"
		}
		return "false"
	case float64:
		if x == 0 && 1/x < 0 {
			return "-0"
		}
		return numberToString(x)
	case string:
		return jsonQuote(x)
	case *Symbol:
		return x.descriptive()
	}
	o := v.(*Object)
	if o.fn != nil {
		if o.fn.isClassConstructor {
			return "class"
		}
		return "function"
	}
	for _, s := range stack {
		if s == o {
			return "<cycle>"
		}
	}
	if inChain(it.realm.ErrorPrototype, o) {
		name := "?"
		if c, ok := it.dataLookup(o, "constructor").(*Object); ok {
			if n, ok := it.dataLookup(c, "name").(string); ok {
				name = n
			}
		}
		if m, ok := it.dataLookup(o, "message").(string); ok && len(m) > 0 && len(m) <= 24 && strings.IndexFunc(m, func(r rune) bool { return r < '!' || r > '~' }) < 0 {
			return "Error:" + name + "(" + m + ")"
		}
		return "Error:" + name
	}
	if inChain(it.realm.GeneratorPrototype, o) {
		return "generator"
	}
	if inChain(it.realm.PromisePrototype, o) {
		return "promise"
	}
	if depth >= describeMaxDepth {
		return "..."
	}
	stack = append(stack, o)
	var b strings.Builder
	if o.isArray {
		length := o.props[strKey("length")].value.(float64)
		b.WriteByte('[')
		for j := float64(0); j < length; j++ {
			if j > 0 {
				b.WriteByte(',')
			}
			if j >= describeMaxElems {
				b.WriteString("...")
				break
			}
			p := it.ownRaw(o, idxKey(j))
			switch {
			case p == nil:
				b.WriteString("<hole>")
			case p.accessor:
				b.WriteString("<accessor>")
			default:
				b.WriteString(it.desc(p.value, depth+1, stack))
			}
		}
		b.WriteByte(']')
		return b.String()
	}
	b.WriteByte('{')
	first := true
	for _, k := range it.ownKeys(o) {
		if k.sym != nil {
			continue
		}
		p := it.ownRaw(o, k)
		if p == nil || !p.enumerable {
			continue
		}
		if !first {
			b.WriteByte(',')
		}
		first = false
		b.WriteString(k.str)
		b.WriteByte(':')
		if p.accessor {
			b.WriteString("<accessor>")
		} else {
			b.WriteString(it.desc(p.value, depth+1, stack))
		}
	}
	b.WriteByte('}')
	return b.String()
}

// jsonQuote is QuoteJSONString (25.5.2.3) for ASCII strings.
func jsonQuote(s string) string {
	var b strings.Builder
	b.WriteByte('"')
	for i := 0; i < len(s); i++ {
		c := s[i]
		switch c {
		case '"':
			b.WriteString(`\"`)
		case '\\':
			b.WriteString(`\\`)
		case '\b':
			b.WriteString(`\b`)
		case '\f':
			b.WriteString(`\f`)
		case '\n':
			b.WriteString(`\n`)
		case '\r':
			b.WriteString(`\r`)
		case '\t':
			b.WriteString(`\t`)
		default:
			if c < 0x20 {
				fmt.Fprintf(&b, `\u%04x`, c)
			} else {
				b.WriteByte(c)
			}
		}
	}
	b.WriteByte('"')
	return b.String()
}
