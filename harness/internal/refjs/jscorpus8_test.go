package refjs_test

func init() {
	jsCorpus = append(jsCorpus, []jsCase{
		{"optional-chaining", anyMode, `
var o = {a: {b: {c: 1}, f() { return this === o.a; }, arr: [1, 2]}, n: null, z: 0, s: ''};
log(o?.a?.b?.c); log(o.n?.b.c.d); log(o.u?.b); log(o.n?.[0]); log(o.a?.['b'].c); log(o.a.f?.()); log(o.a.g?.()); log(o.n?.f()); log(o.a?.f()); log((o.a?.f)()); log(o.z?.toString()); log(o.s?.length);
try { (o.n?.b).c; } catch (e) { log(e); } try { o.u.b?.c; } catch (e) { log(e); } try { o.a.b?.c.d.e; } catch (e) { log(e); } try { o.z?.(); } catch (e) { log(e); }
var cnt = 0; function side() { cnt++; return 'k'; } log(o.n?.[side()]); log(cnt); log(o.a?.[side()]); log(cnt); log(o.n?.f(side())); log(cnt);
log(delete o?.a.b); log(o.a.b); log(delete o.n?.x); log(delete o.u?.x.y.z); log(typeof o.u?.x); log(o.n?.a ?? 'dflt'); log(null?.x); log(undefined?.[1]); var fnull = null; log(fnull?.()); log(fnull?.(side())); log(cnt);
log(o.a?.arr?.[1]); log(o?.a.arr.map?.(x => x * 2)); var q = {m() { return 'qm'; }}; log(q?.m()); log(q.m?.call({})); log(q?.["m"]()); log((q?.m)?.());
class K { static sm() { return 'sm'; } m() { return super.toString?.call(1) ; } } log(K?.sm()); log(new K()?.m());
log(o.n?.a.b.c(1)(2)[3]); log(o.a?.f().constructor === Boolean); 
`},
		{"symbols", anyMode, `
var s1 = Symbol('one'), s2 = Symbol(), s3 = Symbol('one'); log(s1); log(s2); log(s1 === s3); log(s1 == s1); log(typeof s1); log(s1.toString()); log(s1.description); log(s2.description); log(Symbol(5).description); log(Symbol(undefined).description); log(Symbol(null).description);
var o = {[s1]: 1, a: 2, [s2]: 3}; log(o); log(o[s1]); log(Object.keys(o)); log(Object.getOwnPropertyNames(o)); log(s1 in o); log(o.hasOwnProperty(s2)); var copy = {...o}; log(copy[s1]); log(copy[s2]); var {[s1]: viaSym, ...rest} = o; log(viaSym); log(rest[s2]); log(Object.keys(rest));
log(delete o[s1]); log(s1 in o); try { s1 + ''; } catch (e) { log(e); } try { +s1; } catch (e) { log(e); } try { s1 < 1; } catch (e) { log(e); } log(!s1); log(s1 ? 'truthy' : 'falsy'); log(String(s1)); log([s1]); log({k: s1}); log(Object(s1) == s1); log(typeof Object(s1)); log(Object(s1).valueOf() === s1);
try { new Symbol(); } catch (e) { log(e); } try { Symbol() instanceof Symbol; log('ok'); } catch (e) { log(e); } log(Symbol.iterator === Symbol.iterator); log(typeof Symbol.iterator); log(Symbol.iterator.description); log(typeof [][Symbol.iterator]); log(Object.prototype.toString.call(s1));
for (var k in {[s1]: 1, z: 2}) log(k); log(Object.entries({[s1]: 1, y: 2})); class C { [s1]() { return 'sym method'; } static [s2] = 'static sym'; } log(new C()[s1]()); log(C[s2]); log(new C()[s1].name); var fnobj = {[s2]() {}, [s1]: function() {}}; log(fnobj[s2].name); log(fnobj[s1].name);
try { var bad = {}; bad[s1].x; } catch (e) { log(e); } var desc = Object.getOwnPropertyDescriptor({[s1]: 5}, s1); log(desc); Object.defineProperty(o, s3, {value: 'def', enumerable: false}); log(o[s3]);
`},
		{"strict-block-functions", strictOnly, `
{ function inner() { return 'inner'; } log(inner()); } log(typeof inner);
log(typeof later); { log(later()); function later() { return 'hoisted in block'; } }
if (true) { function cond() { return 1; } log(cond()); } log(typeof cond);
switch (1) { case 1: function sw() { return 'sw'; } log(sw()); } log(typeof sw);
function outer() { { function a() { return 1; } } return typeof a; } log(outer());
{ function dupl() { return 1; } { function dupl() { return 2; } log(dupl()); } log(dupl()); }
for (let i = 0; i < 1; i++) { function inloop() { return i; } log(inloop()); }
{ let x = 1; function closure() { return x; } x = 2; log(closure()); }
`},
		{"named-function-expressions", anyMode, `
var f = function fact(n) { return n <= 1 ? 1 : n * fact(n - 1); }; log(f(5)); log(typeof fact); log(f.name);
var g = function self() { try { self = 1; log('silent'); } catch (e) { log(e); } return typeof self; }; log(g());
var h = function shadow(shadow) { return shadow; }; log(h(5)); var k = function inner() { var inner = 'var'; return inner; }; log(k()); var m = function fn() { function fn() { return 'decl'; } return fn(); }; log(m());
var gen = function* gname() { yield typeof gname; }; log([...gen()]); var cls = class CName { static who() { return typeof CName; } m() { try { CName = 1; } catch (e) { return e; } } }; log(cls.who()); log(typeof CName); log(new cls().m());
class Decl { m() { try { Decl = 1; } catch (e) { return e; } } } log(new Decl().m()); Decl = 5; log(Decl);
`},
		{"named-function-delete", sloppyOnly, `var delName = function dn() { return [delete dn, typeof dn]; }; log(delName());`},
		{"getters-setters-inheritance", anyMode, `
var log2 = []; var base = { get x() { log2.push('get x on ' + this.name); return this._x; }, set x(v) { log2.push('set x on ' + this.name); this._x = v; }, name: 'base' };
var child = Object.create(base, {name: {value: 'child', enumerable: true}, own: {get() { return 'own getter'; }, enumerable: false, configurable: true}}); child.x = 5; log(child.x); log(base._x); log(child.hasOwnProperty('_x')); log(log2); log(child.own); log(Object.keys(child)); log(child);
`},
		{"numbers-format", anyMode, `
log(0.1); log(1e21); log(1e-7); log(123456789012345680000); log(1.7976931348623157e308); log(5e-324); log(-1e-7); log(100); log(1.5e300); log(0.000001); log(1e21 + 1e5); log(2 ** 53); log(2 ** 53 + 2); log(1 / 3); log(-0); log(0 * -1); log([-0]); log({z: -0}); log(-0 + ''); log(NaN); log(-NaN); log(Infinity); log(-Infinity); log(0.5 + 0.25); log(9007199254740993); log(4.35); log(0.1 * 3); log(1e300 * 1e10); log(-1e300 * 1e10); log(5 % 0); log(2 ** 0.5); log(2 ** 1024); log((-2) ** 3); log(0 ** 0); log(NaN ** 0); log(1 ** NaN);
log(7 / 2 | 0); log(-7 / 2 | 0); log(2147483648 | 0); log(4294967296 | 0); log(-2147483649 | 0); log(1e20 | 0); log(2 ** 31 >> 0); log(2 ** 31 >>> 0); log(-1 >>> 0); log(1 << 31 >>> 0); log(5 >> 1.9); log(5 << -1); log('8' >> '1');
`},
	}...)
}
