// Package refjs is a definitional (reference) interpreter for the JavaScript
// subset J0, written directly from ECMA-262 (environment records, completion
// records, internal methods) and used as a test oracle for goja.
//
// The package has four parts:
//
//	ast.go      one uniform JSON-serialisable node type + constructor helpers
//	print.go    Print: AST -> JavaScript source text (for the engine under test)
//	prelude.go  PreludeJS: log/describe for the engine under test
//	*.go        Run: the interpreter (the oracle)
//
// refjs does not import goja.
package refjs

import "math"

// Node is the single AST node type. It round-trips through encoding/json.
//
//	K     kind (see the table below)
//	S     name / operator / string value / label
//	A     auxiliary tag: function flavour, declaration kind, property kind
//	N     numeric value of a "num" literal (finite, non-negative)
//	B     boolean flag (see table)
//	Kids  children; optional slots hold nil
//
// # Kinds
//
// Program level
//
//	program    Kids: statements (a leading "directive" makes it strict)
//
// Statements
//
//	directive  S: directive text, e.g. "use strict"
//	block      Kids: statements
//	empty
//	expr       Kids: [expression]
//	if         Kids: [test, consequent, alternate|nil]
//	for        Kids: [init|nil, test|nil, update|nil, body]   init: "var" node or expression
//	forin      Kids: [head, object, body]    head: "var" node with one initialiser-less declarator, or an assignment target
//	forof      Kids: [head, iterable, body]  head as for forin
//	while      Kids: [test, body]
//	dowhile    Kids: [body, test]
//	continue   S: label or ""
//	break      S: label or ""
//	return     Kids: [argument|nil]
//	throw      Kids: [argument]
//	try        Kids: [block, param|nil, handler|nil, finalizer|nil]  param: id or pattern; handler/finalizer: block
//	switch     Kids: [discriminant, case...]
//	case       Kids: [test|nil, statements...]   test==nil is the default clause
//	labeled    S: label; Kids: [body]
//	with       Kids: [object, body]
//	var        A: "var"|"let"|"const"; Kids: declarators
//	declarator Kids: [target, init|nil]   target: id or pattern
//	funcdecl   like func (flavours function, generator, async only)
//	classdecl  like class
//
// Expressions
//
//	num        N
//	str        S
//	bool       B
//	null
//	id         S: name ("undefined", "NaN", "Infinity" are ordinary global identifiers)
//	this
//	tmpl       Kids: [str, expr, str, expr, ..., str]  (odd length, cooked strings at even positions)
//	arr        Kids: elements; nil = hole; "spread" allowed
//	obj        Kids: "prop" nodes
//	prop       A: "init"|"shorthand"|"method"|"get"|"set"|"spread"; B: computed key;
//	           Kids: [key, value]  (non-computed key: str or num node; shorthand: [str key, id];
//	           method/get/set: value is a func node of flavour method/genmethod/asyncmethod/get/set;
//	           spread: [expr])
//	func       S: name or ""; A: flavour "function"|"generator"|"async"|"arrow"|"asyncarrow"|
//	           "method"|"genmethod"|"asyncmethod"|"get"|"set"; B: concise (expression) body, arrows only;
//	           Kids: [params, body]  params: "params" node; body: "block" (or an expression when B)
//	params     Kids: binding elements: id | pattern | default | rest
//	class      S: name or ""; Kids: [heritage|nil, member...]
//	member     A: "method"|"get"|"set"|"field"; S: "static" or ""; B: computed key;
//	           Kids: [key, value]  (method/get/set: func node; field: initialiser|nil);
//	           the non-static, non-computed method with key "constructor" is the constructor
//	dot        S: property name; B: optional (?.); Kids: [object]
//	idx        B: optional (?.[); Kids: [object, key]
//	call       B: optional (?.( ); Kids: [callee, args...]  ("spread" allowed in args)
//	new        Kids: [callee, args...]
//	spread     Kids: [expr]        only inside arr / call / new / supercall / prop(spread)
//	unary      S: "+"|"-"|"!"|"~"|"typeof"|"void"|"delete"; Kids: [operand]
//	update     S: "++"|"--"; B: prefix; Kids: [target]
//	bin        S: + - * / % ** & | ^ << >> >>> < > <= >= == != === !== instanceof in; Kids: [l, r]
//	logical    S: "&&"|"||"|"??"; Kids: [l, r]
//	cond       Kids: [test, then, else]
//	assign     S: "=" or a compound operator incl. "&&=" "||=" "??="; Kids: [target, value]
//	           target: id | dot | idx | superdot | superidx | arrpat | objpat (patterns only with "=")
//	seq        Kids: expressions (comma operator)
//	yield      B: delegate (yield*); Kids: [argument|nil]
//	await      Kids: [argument]
//	eval       Kids: [program]  direct eval of the (printed) program
//	superdot   S: name                 super.name
//	superidx   Kids: [key]             super[key]
//	supercall  Kids: args              super(args)
//	newtarget                          new.target
//	paren      Kids: [expr]            explicit parentheses (semantically transparent, but end an optional chain)
//
// Patterns (binding and assignment)
//
//	arrpat     Kids: elements: nil (elision) | target | default | rest
//	objpat     Kids: "patprop" nodes, optionally a final "rest"
//	patprop    A: "init"|"shorthand"; B: computed; Kids: [key, target-or-default]
//	           (shorthand: key is str, value is id or default(id, init))
//	default    Kids: [target, initialiser]
//	rest       Kids: [target]
//
// An optional chain extends from an optional link upwards through every
// dot/idx/call node that has the link (transitively) in object/callee position;
// a "paren" node (or any other node kind) ends it. This is exactly how the
// printed text parses.
type Node struct {
	K    string  `json:"k"`
	S    string  `json:"s,omitempty"`
	A    string  `json:"a,omitempty"`
	N    float64 `json:"n,omitempty"`
	B    bool    `json:"b,omitempty"`
	Kids []*Node `json:"c,omitempty"`
}

func (n *Node) kid(i int) *Node {
	if n == nil || i >= len(n.Kids) {
		return nil
	}
	return n.Kids[i]
}

func (n *Node) kidsFrom(i int) []*Node {
	if n == nil || i >= len(n.Kids) {
		return nil
	}
	return n.Kids[i:]
}

func mk(k string, kids ...*Node) *Node { return &Node{K: k, Kids: kids} }

// ---- program and statements ----

func Program(stmts ...*Node) *Node { return mk("program", stmts...) }

// StrictProgram is Program with a leading "use strict" directive.
func StrictProgram(stmts ...*Node) *Node {
	return mk("program", append([]*Node{UseStrict()}, stmts...)...)
}
func Directive(s string) *Node   { return &Node{K: "directive", S: s} }
func UseStrict() *Node           { return Directive("use strict") }
func Block(stmts ...*Node) *Node { return mk("block", stmts...) }
func Empty() *Node               { return mk("empty") }
func ExprStmt(e *Node) *Node     { return mk("expr", e) }

// If: alt may be nil.
func If(test, cons, alt *Node) *Node { return mk("if", test, cons, alt) }

// For: init (a VarDecl or an expression), test and update may be nil.
func For(init, test, update, body *Node) *Node { return mk("for", init, test, update, body) }

// ForIn / ForOf: head is VarDecl(kind, Declarator(target, nil)) or an assignment target.
func ForIn(head, obj, body *Node) *Node  { return mk("forin", head, obj, body) }
func ForOf(head, iter, body *Node) *Node { return mk("forof", head, iter, body) }
func While(test, body *Node) *Node       { return mk("while", test, body) }
func DoWhile(body, test *Node) *Node     { return mk("dowhile", body, test) }
func Continue(label string) *Node        { return &Node{K: "continue", S: label} }
func Break(label string) *Node           { return &Node{K: "break", S: label} }

// Return: arg may be nil.
func Return(arg *Node) *Node { return mk("return", arg) }
func Throw(arg *Node) *Node  { return mk("throw", arg) }

// Try: param (id or pattern), handler and finalizer may be nil (at least one of handler/finalizer must be given).
func Try(block, param, handler, finalizer *Node) *Node {
	return mk("try", block, param, handler, finalizer)
}
func Switch(disc *Node, cases ...*Node) *Node {
	return mk("switch", append([]*Node{disc}, cases...)...)
}

// Case: test==nil is the default clause.
func Case(test *Node, stmts ...*Node) *Node {
	return mk("case", append([]*Node{test}, stmts...)...)
}
func DefaultCase(stmts ...*Node) *Node { return Case(nil, stmts...) }
func Labeled(label string, body *Node) *Node {
	return &Node{K: "labeled", S: label, Kids: []*Node{body}}
}
func With(obj, body *Node) *Node { return mk("with", obj, body) }

// VarDecl: kind is "var", "let" or "const".
func VarDecl(kind string, decls ...*Node) *Node {
	return &Node{K: "var", A: kind, Kids: decls}
}

// Declarator: init may be nil.
func Declarator(target, init *Node) *Node { return mk("declarator", target, init) }

// Var/Let/Const declare a single identifier.
func Var(name string, init *Node) *Node   { return VarDecl("var", Declarator(Id(name), init)) }
func Let(name string, init *Node) *Node   { return VarDecl("let", Declarator(Id(name), init)) }
func Const(name string, init *Node) *Node { return VarDecl("const", Declarator(Id(name), init)) }

// ---- functions and classes ----

func Params(elems ...*Node) *Node { return mk("params", elems...) }

// Func builds a function expression. flavour: "function", "generator", "async",
// "method", "genmethod", "asyncmethod", "get", "set". params may be nil.
func Func(flavour, name string, params *Node, body ...*Node) *Node {
	if params == nil {
		params = Params()
	}
	return &Node{K: "func", S: name, A: flavour, Kids: []*Node{params, Block(body...)}}
}

// FuncDecl builds a function declaration (flavour "function", "generator" or "async").
func FuncDecl(flavour, name string, params *Node, body ...*Node) *Node {
	n := Func(flavour, name, params, body...)
	n.K = "funcdecl"
	return n
}

// Arrow builds an arrow function with a block body; ArrowExpr one with a concise body.
func Arrow(params *Node, body ...*Node) *Node { return Func("arrow", "", params, body...) }
func ArrowExpr(params *Node, e *Node) *Node {
	if params == nil {
		params = Params()
	}
	return &Node{K: "func", A: "arrow", B: true, Kids: []*Node{params, e}}
}
func AsyncArrow(params *Node, body ...*Node) *Node { return Func("asyncarrow", "", params, body...) }
func AsyncArrowExpr(params *Node, e *Node) *Node {
	n := ArrowExpr(params, e)
	n.A = "asyncarrow"
	return n
}

// Class builds a class expression; heritage may be nil.
func Class(name string, heritage *Node, members ...*Node) *Node {
	return &Node{K: "class", S: name, Kids: append([]*Node{heritage}, members...)}
}
func ClassDecl(name string, heritage *Node, members ...*Node) *Node {
	n := Class(name, heritage, members...)
	n.K = "classdecl"
	return n
}

// Key is a non-computed property key (identifier name or string).
func Key(name string) *Node { return Str(name) }

func member(kind string, static bool, key *Node, computed bool, v *Node) *Node {
	s := ""
	if static {
		s = "static"
	}
	return &Node{K: "member", A: kind, S: s, B: computed, Kids: []*Node{key, v}}
}

// Ctor builds the class constructor member.
func Ctor(params *Node, body ...*Node) *Node {
	return member("method", false, Key("constructor"), false, Func("method", "", params, body...))
}

// ClassMethod: fn must be a Func of flavour method/genmethod/asyncmethod.
func ClassMethod(static bool, key *Node, computed bool, fn *Node) *Node {
	return member("method", static, key, computed, fn)
}
func ClassGetter(static bool, key *Node, computed bool, body ...*Node) *Node {
	return member("get", static, key, computed, Func("get", "", nil, body...))
}
func ClassSetter(static bool, key *Node, computed bool, param *Node, body ...*Node) *Node {
	return member("set", static, key, computed, Func("set", "", Params(param), body...))
}

// ClassField: init may be nil.
func ClassField(static bool, key *Node, computed bool, init *Node) *Node {
	return member("field", static, key, computed, init)
}

// ---- expressions ----

// Num builds a numeric literal; negative numbers, NaN and infinities are
// expressed with unary minus / global identifiers so that N stays JSON-safe.
func Num(f float64) *Node {
	switch {
	case math.IsNaN(f):
		return Id("NaN")
	case math.IsInf(f, 1):
		return Id("Infinity")
	case math.IsInf(f, -1):
		return Unary("-", Id("Infinity"))
	case f < 0 || (f == 0 && math.Signbit(f)):
		return Unary("-", &Node{K: "num", N: -f})
	}
	return &Node{K: "num", N: f}
}
func Str(s string) *Node   { return &Node{K: "str", S: s} }
func Bool(b bool) *Node    { return &Node{K: "bool", B: b} }
func Null() *Node          { return mk("null") }
func Undef() *Node         { return Id("undefined") }
func Id(name string) *Node { return &Node{K: "id", S: name} }
func This() *Node          { return mk("this") }

// Tmpl builds an untagged template literal: len(quasis) must be len(exprs)+1.
func Tmpl(quasis []string, exprs ...*Node) *Node {
	n := mk("tmpl")
	for i, q := range quasis {
		n.Kids = append(n.Kids, Str(q))
		if i < len(exprs) {
			n.Kids = append(n.Kids, exprs[i])
		}
	}
	return n
}

// Arr: nil elements are holes.
func Arr(elems ...*Node) *Node { return mk("arr", elems...) }
func Spread(e *Node) *Node     { return mk("spread", e) }
func Obj(props ...*Node) *Node { return mk("obj", props...) }

func prop(kind string, key *Node, computed bool, v *Node) *Node {
	return &Node{K: "prop", A: kind, B: computed, Kids: []*Node{key, v}}
}

// Prop is `name: v`; PropK takes an arbitrary key node (str/num, or any expression when computed).
func Prop(name string, v *Node) *Node                 { return prop("init", Key(name), false, v) }
func PropK(key *Node, computed bool, v *Node) *Node   { return prop("init", key, computed, v) }
func Shorthand(name string) *Node                     { return prop("shorthand", Key(name), false, Id(name)) }
func SpreadProp(e *Node) *Node                        { return &Node{K: "prop", A: "spread", Kids: []*Node{e}} }
func Method(key *Node, computed bool, fn *Node) *Node { return prop("method", key, computed, fn) }
func Getter(key *Node, computed bool, body ...*Node) *Node {
	return prop("get", key, computed, Func("get", "", nil, body...))
}
func Setter(key *Node, computed bool, param *Node, body ...*Node) *Node {
	return prop("set", key, computed, Func("set", "", Params(param), body...))
}

func Dot(obj *Node, name string) *Node { return &Node{K: "dot", S: name, Kids: []*Node{obj}} }
func OptDot(obj *Node, name string) *Node {
	return &Node{K: "dot", S: name, B: true, Kids: []*Node{obj}}
}
func Idx(obj, key *Node) *Node    { return mk("idx", obj, key) }
func OptIdx(obj, key *Node) *Node { return &Node{K: "idx", B: true, Kids: []*Node{obj, key}} }
func Call(callee *Node, args ...*Node) *Node {
	return mk("call", append([]*Node{callee}, args...)...)
}
func OptCall(callee *Node, args ...*Node) *Node {
	n := Call(callee, args...)
	n.B = true
	return n
}
func New(callee *Node, args ...*Node) *Node {
	return mk("new", append([]*Node{callee}, args...)...)
}
func Unary(op string, e *Node) *Node { return &Node{K: "unary", S: op, Kids: []*Node{e}} }
func Typeof(e *Node) *Node           { return Unary("typeof", e) }
func Void(e *Node) *Node             { return Unary("void", e) }
func Delete(e *Node) *Node           { return Unary("delete", e) }
func Not(e *Node) *Node              { return Unary("!", e) }

// Update: op "++" or "--".
func Update(op string, prefix bool, target *Node) *Node {
	return &Node{K: "update", S: op, B: prefix, Kids: []*Node{target}}
}
func Bin(op string, l, r *Node) *Node     { return &Node{K: "bin", S: op, Kids: []*Node{l, r}} }
func Logical(op string, l, r *Node) *Node { return &Node{K: "logical", S: op, Kids: []*Node{l, r}} }
func Cond(t, a, b *Node) *Node            { return mk("cond", t, a, b) }

// Assign: op "=" or a compound operator.
func Assign(op string, target, v *Node) *Node {
	return &Node{K: "assign", S: op, Kids: []*Node{target, v}}
}
func Set(target, v *Node) *Node { return Assign("=", target, v) }
func Seq(es ...*Node) *Node     { return mk("seq", es...) }

// Yield: arg may be nil.
func Yield(arg *Node) *Node     { return mk("yield", arg) }
func YieldStar(arg *Node) *Node { return &Node{K: "yield", B: true, Kids: []*Node{arg}} }
func Await(arg *Node) *Node     { return mk("await", arg) }

// Eval is a direct eval of the given statements.
func Eval(stmts ...*Node) *Node     { return mk("eval", Program(stmts...)) }
func EvalProgram(p *Node) *Node     { return mk("eval", p) }
func SuperDot(name string) *Node    { return &Node{K: "superdot", S: name} }
func SuperIdx(key *Node) *Node      { return mk("superidx", key) }
func SuperCall(args ...*Node) *Node { return mk("supercall", args...) }
func NewTarget() *Node              { return mk("newtarget") }
func Paren(e *Node) *Node           { return mk("paren", e) }

// ---- patterns ----

// ArrPat: nil elements are elisions.
func ArrPat(elems ...*Node) *Node { return mk("arrpat", elems...) }
func ObjPat(props ...*Node) *Node { return mk("objpat", props...) }

// PatProp is `name: target`; PatPropK takes an arbitrary key.
func PatProp(name string, target *Node) *Node { return PatPropK(Key(name), false, target) }
func PatPropK(key *Node, computed bool, target *Node) *Node {
	return &Node{K: "patprop", A: "init", B: computed, Kids: []*Node{key, target}}
}

// PatShorthand is `{name}` or, with init != nil, `{name = init}`.
func PatShorthand(name string, init *Node) *Node {
	var v *Node = Id(name)
	if init != nil {
		v = Default(v, init)
	}
	return &Node{K: "patprop", A: "shorthand", Kids: []*Node{Key(name), v}}
}
func Default(target, init *Node) *Node { return mk("default", target, init) }
func Rest(target *Node) *Node          { return mk("rest", target) }

// ---- conveniences for generators ----

// Log is `log(e)`.
func Log(e *Node) *Node { return ExprStmt(Call(Id("log"), e)) }

// Clone makes a deep copy.
func (n *Node) Clone() *Node {
	if n == nil {
		return nil
	}
	c := *n
	if n.Kids != nil {
		c.Kids = make([]*Node, len(n.Kids))
		for i, k := range n.Kids {
			c.Kids[i] = k.Clone()
		}
	}
	return &c
}

// Count returns the number of nodes.
func (n *Node) Count() int {
	if n == nil {
		return 0
	}
	c := 1
	for _, k := range n.Kids {
		c += k.Count()
	}
	return c
}
