package refjs_test

func init() {
	jsCorpus = append(jsCorpus, []jsCase{
		{"classes-basic", anyMode, `
class A { constructor(x) { this.x = x; } m() { return 'A.m ' + this.x; } static s() { return 'A.s'; } get g() { return 'g' + this.x; } set g(v) { this.x = v; } ['comp' + 1]() { return 'c'; } static get sg() { return 'sg'; } }
var a = new A(1); log(a); log(a.m()); log(A.s()); log(a.g); a.g = 5; log(a.x); log(a.comp1()); log(A.sg); log(typeof A); log(A); log(A.name); log(A.length);
log(Object.getOwnPropertyNames(A)); log(Object.getOwnPropertyNames(A.prototype)); log(Object.keys(A.prototype)); log(Object.getOwnPropertyDescriptor(A, 'prototype')); log(Object.getOwnPropertyDescriptor(A.prototype, 'm')); log(A.prototype.constructor === A);
try { A(); } catch (e) { log(e); } try { A.call({}); } catch (e) { log(e); } try { new a.m(); } catch (e) { log(e); } log(a.m.prototype); log(a instanceof A); log(Object.getPrototypeOf(a) === A.prototype);
class B extends A { constructor(x, y) { super(x); this.y = y; } m() { return 'B.m>' + super.m(); } static s() { return 'B.s>' + super.s(); } get g() { return 'Bg>' + super.g; } }
var b = new B(1, 2); log(b); log(b.m()); log(B.s()); log(b.g); log(b instanceof A); log(Object.getPrototypeOf(B) === A); log(Object.getPrototypeOf(B.prototype) === A.prototype); log(B.length); log(B.sg);
class C extends B {} var c = new C(7, 8); log(c); log(c.m()); log(C.name); log(C.length); log(Object.getOwnPropertyNames(C));
var E = class {}; log(E.name); var F = class Inner { who() { return Inner.name; } }; log(F.name); log(new F().who()); log(typeof Inner); log((class {}).name); var o = {K: class {}}; log(o.K.name); log(Object.getOwnPropertyNames(class {})); log(Object.getOwnPropertyNames(class { static name() {} }));
try { new D(); } catch (e) { log(e); } class D {} { class Blk {} log(typeof Blk); } log(typeof Blk);
class St { m() { return this; } static sm() { return this; } } var um = new St().m; log(um()); var usm = St.sm; log(usm());
`},
		{"classes-derived-this", anyMode, `
class A { constructor() { log('A ctor ' + new.target.name); this.a = 1; } }
class B1 extends A { constructor() { try { this.x = 1; } catch (e) { log(e); } super(); log(this.a); try { super(); } catch (e) { log(e); } } } new B1();
class B2 extends A { constructor() { } } try { new B2(); } catch (e) { log(e); }
class B3 extends A { constructor() { return {custom: 1}; } } log(new B3());
class B4 extends A { constructor() { super(); return 5; } } try { new B4(); } catch (e) { log(e); }
class B5 extends A { constructor() { return undefined; } } try { new B5(); } catch (e) { log(e); }
class B6 extends A { constructor() { var f = () => { super(); return this; }; log(f() === this); } } new B6();
class B7 extends A { constructor() { var g = () => this; try { g(); } catch (e) { log(e); } super(); log(g() === this); } } new B7();
class B8 extends A { constructor() { eval("super()"); log(eval("this.a")); } } new B8();
class Base { constructor() { return {replaced: true}; } } class D1 extends Base { constructor() { super(); this.own = 1; } } log(new D1()); log(new D1() instanceof D1);
function Legacy(v) { this.v = v; } Legacy.prototype.hi = function() { return 'hi ' + this.v; }; class Mod extends Legacy { hi() { return super.hi() + '!'; } } log(new Mod(3).hi()); log(new Mod(3));
try { class X extends 5 {} } catch (e) { log(e); } try { class Y extends (() => {}) {} } catch (e) { log(e); } function NP() {} NP.prototype = 3; try { class Z extends NP {} } catch (e) { log(e); }
var order = []; class O1 extends (order.push('heritage'), Object) { [(order.push('key1'), 'a')]() {} static [(order.push('key2'), 'b')]() {} } log(order);
class S1 { constructor() { this.tag = 's1'; } } class S2 extends S1 {} Object.setPrototypeOf(S2, function() { this.swapped = true; }); log(new S2());
class P { static create() { return new this(); } } class Q extends P {} log(Q.create() instanceof Q);
class NTc { constructor() { this.nt = new.target === NTc; } } class NTd extends NTc {} log(new NTc().nt); log(new NTd().nt);
`},
		{"super-object-literal", anyMode, `
var base = { greet() { return 'base ' + this.n; }, get val() { return 'v' + this.n; }, set val(x) { this.n = 'set' + x; }, plain: 'p' };
var obj = { n: 1, greet() { return 'obj>' + super.greet(); }, readVal() { return super.val; }, writeVal(x) { super.val = x; }, writePlain() { super.plain = 'own now'; }, idx(k) { return super[k]; }, arrow() { return (() => super.greet())(); }, ev() { return eval("super.greet()"); }, del() { try { delete super.plain; } catch (e) { return e; } }, upd() { super.cnt = (super.cnt || 0) + 1; return this.cnt; } };
Object.setPrototypeOf(obj, base); log(obj.greet()); log(obj.readVal()); obj.writeVal(9); log(obj.n); obj.writePlain(); log(obj.hasOwnProperty('plain')); log(base.plain); log(obj.idx('plain')); log(obj.arrow()); log(obj.ev()); log(obj.del()); log(obj.upd()); log(obj.upd());
var borrowed = { n: 'b', greet: obj.greet }; log(borrowed.greet()); Object.setPrototypeOf(obj, { greet() { return 'newproto ' + this.n; } }); log(obj.greet());
var nullProto = { m() { try { return super.x; } catch (e) { return e; } } }; Object.setPrototypeOf(nullProto, null); log(nullProto.m());
class A { static sm() { return 'A.sm'; } im() { return 'A.im'; } } class B extends A { static sm() { return super.sm() + '+'; } im() { return super.im() + '+'; } static get up() { return super.name; } } log(B.sm()); log(new B().im()); log(B.up);
var frozenHome = { set() { 'use strict'; super.zz = 1; return Object.keys(this); } }; log(frozenHome.set());
`},
		{"class-fields", anyMode, `
var order = [];
class F { a = (order.push('a'), 1); b = this.a + 1; ['c' + (order.push('ckey'), 1)] = 3; static s = (order.push('s'), 'S'); static t = this.s + 'T'; noinit; fn = () => this.a; anon = function() {}; static anonS = class {}; 'quoted key' = 5; 7 = 'seven';
  constructor() { order.push('ctor'); this.fromCtor = this.b; } }
log(order); var f = new F(); log(order); log(f); log(F.s + F.t); log(f.fn()); log(f.anon.name); log(F.anonS.name); log(Object.getOwnPropertyNames(F)); log(f.hasOwnProperty('noinit'));
class G extends F { g = (order.push('g'), this.a * 10); constructor() { order.push('G pre'); super(); order.push('G post'); } } order = []; var g = new G(); log(order); log(g);
class H { x = 1; constructor() { return {other: true}; } } class I extends H { y = 2; } log(new I());
class J { static m() { return 'm'; } static v = J.m(); static w = this.m(); } log([J.v, J.w]);
class K { set trap(v) { log('setter called'); } } class L extends K { trap = 1; } log(Object.getOwnPropertyDescriptor(new L(), 'trap'));
class N { [Symbol.iterator] = 5; } log(new N()[Symbol.iterator]);
class T { f = (() => { throw new RangeError('field'); })(); } try { new T(); } catch (e) { log(e); }
`},
		{"goja-defect-super-in-field-init", anyMode, `class M { p = super.toString === Object.prototype.toString; } log(new M().p);`},
		{"generators-basic", anyMode, `
function* g(a) { log('start ' + a); var x = yield 1; log('got ' + x); var y = yield x + 1; log('got ' + y); return 'done'; }
var it = g('A'); log(it); log(typeof it.next); log(it[Symbol.iterator]() === it); log(it.next('ignored')); log(it.next('X')); log(it.next('Y')); log(it.next()); log(it.next());
log([...g('B')]); log(Object.getPrototypeOf(g) !== Object.getPrototypeOf(function() {})); log(Object.getPrototypeOf(it) === g.prototype); log(Object.prototype.toString.call(it));
function* inf() { var i = 0; while (true) yield i++; } var r = []; for (var v of inf()) { if (v > 3) break; r.push(v); } log(r);
function* args() { yield arguments.length; yield* arguments; } log([...args(7, 8)]); var go = { *m() { yield this.tag; }, tag: 'T' }; log([...go.m()]); class GC { *[Symbol.iterator]() { yield 1; yield 2; } static *sg() { yield 's'; } } log([...new GC()]); log([...GC.sg()]);
var ge = function*() { yield 1; }; log(ge.name); log([...ge()]); function* empty() {} log(empty().next()); function* early() { return 5; yield 1; } log(early().next()); log([...early()]);
function* locals() { var a = 1; let b = 2; const c = 3; for (let i = 0; i < 2; i++) { yield [a++, b++, c, i]; } yield* [a, b]; } log([...locals()]);
function* thrower() { yield 1; throw new Error('gen err'); } var t = thrower(); log(t.next()); try { t.next(); } catch (e) { log(e); } log(t.next());
function* yexpr() { log(yield); log([yield 1, yield 2]); log((yield 3) + (yield 4)); log(yield yield 5); var o = {[yield 'k']: yield 'v'}; log(o); log(` + "`${yield 't1'}-${yield 't2'}`" + `); return typeof (yield); }
var ye = yexpr(); var step, n = 0; while (!(step = ye.next('s' + n++)).done) log(step.value); log(step.value);
function* defaults(a = 1, b = a + 1) { yield [a, b]; } log([...defaults(5)]); try { (function*(a = (() => { throw new Error('param'); })()) {})(); } catch (e) { log(e); }
var gproto = Object.getPrototypeOf(g); log(Object.getOwnPropertyNames(g.prototype)); function* pr() {} pr.prototype = null; log(Object.getPrototypeOf(pr()) === Object.getPrototypeOf(g.prototype));
`},
		{"generators-return-throw", anyMode, `
function* g() { try { log('try'); yield 1; yield 2; } catch (e) { log('caught ' + describe(e)); yield 'c'; } finally { log('finally'); yield 'f'; log('after f'); } return 'end'; }
var a = g(); log(a.return('early')); log(a.next()); 
var b = g(); log(b.next()); log(b.return('R')); log(b.next()); log(b.next());
var c = g(); log(c.next()); log(c.throw(new Error('T'))); log(c.next()); log(c.next()); log(c.next());
var d = g(); try { d.throw(new Error('before start')); } catch (e) { log(e); } log(d.next());
var e = g(); log(e.next()); log(e.next()); log(e.next()); log(e.next()); log(e.next()); log(e.return('after')); try { e.throw(new Error('after')); } catch (x) { log(x); }
function* ov() { try { yield 1; } finally { return 'overridden'; } } var o = ov(); o.next(); log(o.return('x')); log(o.next());
function* ov2() { try { yield 1; } finally { throw new Error('fin throws'); } } var o2 = ov2(); o2.next(); try { o2.return('x'); } catch (x) { log(x); } log(o2.next());
function* nest() { try { try { yield 1; } finally { log('inner fin'); yield 'if'; } } finally { log('outer fin'); yield 'of'; } } var n = nest(); n.next(); log(n.return('r')); log(n.next('ignored')); log(n.next()); log(n.next());
function* nest2() { try { yield 1; } finally { try { yield 2; } finally { log('deep'); } } } var n2 = nest2(); n2.next(); log(n2.return('a')); log(n2.return('b')); log(n2.next());
function* re() { log(it2.next === undefined); try { it2.next(); } catch (x) { log(x); } try { it2.return(); } catch (x) { log(x); } try { it2.throw(1); } catch (x) { log(x); } yield 1; } var it2 = re(); log(it2.next());
function* loopy() { for (var i = 0; i < 3; i++) { try { yield i; } finally { log('cleanup ' + i); } } } var l = loopy(); l.next(); l.next(); log(l.return('stop')); 
function* catchRet() { try { yield 1; } catch (x) { return 'caught'; } } var cr = catchRet(); cr.next(); log(cr.return('not caught')); 
var gp = Object.getPrototypeOf(g.prototype); try { gp.next.call({}); } catch (x) { log(x); } try { gp.next.call(1); } catch (x) { log(x); }
function* val() { var r = yield 1; return r; } var v = val(); v.next(); log(v.next({obj: 1})); var v2 = val(); log(v2.return()); log(v2.throw === gp.throw);
`},
		{"goja-defect-generator-throw-after-return-in-finally", anyMode, `function* gf() { try { yield 0; } finally { yield 1; } } var it = gf(); it.next(); it.return(); try { it.throw("t2"); } catch (e) { log("caught " + e); } log("after");`},
		{"goja-defect-generator-finally-throws-during-return", anyMode, `function* gf() { try { try { yield 1; } finally { log('f1'); throw new RangeError('in finally'); } } finally { log('f2'); } } var it = gf(); it.next(); try { it.return(); } catch (e) { log('caught'); log(e); } log('after');`},
		{"generators-yield-star", anyMode, mkIter + `
function* inner() { var x = yield 'i1'; log('inner got ' + x); try { yield 'i2'; } finally { log('inner fin'); } return 'inner ret'; }
function* outer() { var r = yield* inner(); log('outer got ' + r); return 'outer ret'; } var o = outer(); log(o.next('a')); log(o.next('b')); log(o.next('c')); log(o.next('d'));
var o2 = outer(); o2.next(); o2.next(); log(o2.return('R')); log(o2.next());
var o3 = outer(); o3.next(); o3.next(); try { o3.throw(new Error('T')); } catch (e) { log(e); }
function* d1() { var r = yield* mkIter('a', [1, 2], {ret: 'fin'}); log(r); } var x = d1(); log(x.next('n0')); log(x.next('n1')); log(x.next('n2')); log(x.next('n3'));
function* d2() { yield* mkIter('b', [1, 2]); } var y = d2(); y.next(); log(y.return('RV')); log(y.next());
function* d3() { try { yield* mkIter('c', [1, 2]); } catch (e) { log('d3 caught ' + describe(e)); } } var z = d3(); z.next(); log(z.throw(new Error('no throw method')));
function* d4() { yield* mkIter('d', [1, 2], {noReturn: true}); log('not reached'); } var w = d4(); w.next(); log(w.return('RV2')); 
function* d5() { try { yield* mkIter('e', [1, 2], {noReturn: true}); } catch (e) { log('d5 caught ' + describe(e)); } } var v = d5(); v.next(); log(v.throw(new Error('x')));
function* d6() { var r = yield* mkIter('f', [1, 2, 3], {withThrow: true}); log('d6 r=' + r); } var u = d6(); u.next(); log(u.throw('E1')); log(u.next());
function* d7() { var r = yield* mkIter('g', [1], {withThrow: true, throwDone: true}); log('d7 r=' + r); return 'd7 end'; } var t = d7(); t.next(); log(t.throw('E2'));
function* d8() { try { yield* mkIter('h', [1], {withThrow: true, throwRethrow: true}); } catch (e) { log('d8 caught ' + e); } } var s = d8(); s.next(); log(s.throw('E3'));
function* d9() { yield* mkIter('i', [1], {returnNonObject: true}); } var q = d9(); q.next(); try { q.return(1); } catch (e) { log(e); }
function* d10() { yield* mkIter('j', [1], {nextNonObject: 0}); } try { d10().next(); } catch (e) { log(e); }
function* d11() { yield* 5; } try { d11().next(); } catch (e) { log(e); } function* d12() { return yield* 'ab'; } log([...d12()]);
var passthru = { [Symbol.iterator]() { return { next() { return {value: 'raw', done: false, extra: 1}; } }; } }; function* d13() { yield* passthru; } log(d13().next());
function* d14() { yield* mkIter('k', [1, 2], {returnThrows: true}); } var p = d14(); p.next(); try { p.return(); } catch (e) { log(e); }
function* retNotDone() { yield* { [Symbol.iterator]() { return { next() { return {value: 1, done: false}; }, return(v) { log('ret ' + v); return {value: 'still', done: false}; } }; } }; } var rn = retNotDone(); rn.next(); log(rn.return('r1')); log(rn.next());
`},
		{"generator-state-preserved", anyMode, `
function* g() { var arr = []; for (var k in {a: 1, b: 2}) { arr.push(yield k); } for (let v of [1, 2]) { arr.push(yield (() => v)); } var i = 0; while (i < 2) { arr.push(yield i++); } do { arr.push(yield 'do'); } while (false); switch (yield 'sw') { case 'x': arr.push(yield 'case x'); break; default: arr.push('default'); } lbl: { arr.push(yield 'lbl'); break lbl; } return arr; }
var it = g(), r, n = 0, ys = []; while (!(r = it.next(n == 7 ? 'x' : n)).done) { ys.push(typeof r.value == 'function' ? r.value() : r.value); n++; } log(ys); log(r.value);
function* w() { var o = {p: 1}; o.q = yield o.p; return o; }
function* args(a, b) { a = yield arguments[0]; yield [a, arguments[0], b]; } var ai = args(1, 2); ai.next(); log(ai.next('new').value);
function* deep() { return [yield 1, [yield 2, {k: yield 3}], (yield 4) ? yield 5 : yield 6]; } var di = deep(); var dr = di.next(); while (!dr.done) dr = di.next(dr.value * 10); log(dr.value);
function* callArgs() { function f(a, b, c) { return [a, b, c]; } return f(yield 'a', yield 'b', ...(yield 'c')); } var ci = callArgs(); ci.next(); ci.next(1); ci.next(2); log(ci.next([3]).value);
function* multi() { var x = yield 1; var y = yield 2; return x + y; } var m1 = multi(), m2 = multi(); m1.next(); m2.next(); m1.next(10); m2.next(100); log(m1.next(1).value); log(m2.next(2).value);
function fromDepth(it, d) { return d == 0 ? it.next() : fromDepth(it, d - 1); } var fd = g(); log(fromDepth(fd, 5)); log(fromDepth(fd, 0)); log(fromDepth(fd, 9));
function* usesThis() { yield this.v; } log(usesThis.call({v: 'this ok'}).next().value);
function* inTry() { for (var i = 0; i < 2; i++) { try { var got = yield i; if (got == 'throw') throw new Error('t' + i); } catch (e) { yield 'caught ' + e.message; } finally { yield 'fin ' + i; } } } var ti = inTry(); var outp = []; var tr = ti.next(); var feed = [undefined, 'throw', 1, 2, 3, 4, 5, 6]; var fi = 0; while (!tr.done) { outp.push(tr.value); tr = ti.next(feed[++fi]); } log(outp);
`},
	}...)
}
