package refjs

// performEval is 19.2.1.1 PerformEval for a direct eval whose argument is the
// printed text of the program node n.kid(0). The parse step is the identity on
// the AST, so no parser is involved.
func (it *Interp) performEval(n *Node, ctx *Ctx) Value {
	body := n.kid(0)
	if body == nil || body.K != "program" {
		it.unsupported("eval body must be a program node")
	}
	strictEval := ctx.strict || containsUseStrict(body.Kids)
	lexEnv := newDeclEnv(ctx.lex)
	var varEnv Env = ctx.varEnv
	if strictEval {
		varEnv = lexEnv
	}
	ectx := *ctx
	ectx.lex, ectx.varEnv, ectx.strict = lexEnv, varEnv, strictEval
	ectx.co, ectx.gen, ectx.async, ectx.asyncCap = nil, nil, false, nil
	it.evalDeclarationInstantiation(body, varEnv, lexEnv, strictEval, &ectx)
	c := it.evalStatementList(body.Kids, &ectx)
	if c.typ != cNormal {
		it.unsupported("break/continue/return escaping eval code")
	}
	if c.val == nil {
		return Undefined
	}
	return c.val
}

// evalDeclarationInstantiation is 19.2.1.3: in sloppy mode the var and function
// declarations of the eval code are hoisted into the caller's variable
// environment (deletable bindings); in strict mode varEnv is the eval's own
// environment. let/const/class always stay in lexEnv.
func (it *Interp) evalDeclarationInstantiation(body *Node, varEnv Env, lexEnv *DeclEnv, strict bool, ectx *Ctx) {
	varNames := varDeclaredNames(body.Kids, true)
	varDeclarations := varScopedDeclarations(body.Kids, true)
	genv, isGlobal := varEnv.(*GlobalEnv)
	if !strict {
		if isGlobal {
			for _, name := range varNames {
				if genv.HasLexicalDeclaration(it, name) {
					it.throwError("SyntaxError", "Identifier '"+name+"' has already been declared")
				}
			}
		}
		for thisEnv := lexEnv.Outer(); thisEnv != varEnv; thisEnv = thisEnv.Outer() {
			if thisEnv == nil {
				panic("refjs: eval variable environment is not on the scope chain")
			}
			if _, isObj := thisEnv.(*ObjEnv); isObj {
				continue
			}
			for _, name := range varNames {
				if de, ok := thisEnv.(*DeclEnv); ok && de.isCatch && thisEnv.HasBinding(it, name) {
					// Annex B.3.4 (normative optional) lets a web browser accept this
					it.unsupported("eval var declaration redeclaring a catch parameter (Annex B.3.4)")
				}
				if thisEnv.HasBinding(it, name) {
					it.throwError("SyntaxError", "Identifier '"+name+"' has already been declared")
				}
			}
		}
	}
	var functionsToInitialize []*Node
	declaredFunctionNames := map[string]bool{}
	for i := len(varDeclarations) - 1; i >= 0; i-- {
		d := varDeclarations[i]
		if d.K == "funcdecl" && !declaredFunctionNames[d.S] {
			if isGlobal && !genv.CanDeclareGlobalFunction(it, d.S) {
				it.throwError("TypeError", "Cannot declare global function '"+d.S+"'")
			}
			declaredFunctionNames[d.S] = true
			functionsToInitialize = append([]*Node{d}, functionsToInitialize...)
		}
	}
	var declaredVarNames []string
	seen := map[string]bool{}
	for _, d := range varDeclarations {
		if d.K == "funcdecl" {
			continue
		}
		for _, vn := range boundNames(d) {
			if declaredFunctionNames[vn] {
				continue
			}
			if isGlobal && !genv.CanDeclareGlobalVar(it, vn) {
				it.throwError("TypeError", "Cannot declare global variable '"+vn+"'")
			}
			if !seen[vn] {
				seen[vn] = true
				declaredVarNames = append(declaredVarNames, vn)
			}
		}
	}
	for _, d := range lexicallyScopedDeclarations(body.Kids, true) {
		for _, dn := range boundNames(d) {
			if isConstDecl(d) {
				lexEnv.CreateImmutableBinding(it, dn, true)
			} else {
				lexEnv.CreateMutableBinding(it, dn, false)
			}
		}
	}
	for _, f := range functionsToInitialize {
		fo := it.instantiateFunctionObject(f, ectx)
		if isGlobal {
			genv.CreateGlobalFunctionBinding(it, f.S, fo, true)
		} else if !varEnv.HasBinding(it, f.S) {
			varEnv.CreateMutableBinding(it, f.S, true)
			varEnv.InitializeBinding(it, f.S, fo)
		} else {
			varEnv.SetMutableBinding(it, f.S, fo, false)
		}
	}
	for _, vn := range declaredVarNames {
		if isGlobal {
			genv.CreateGlobalVarBinding(it, vn, true)
		} else if !varEnv.HasBinding(it, vn) {
			varEnv.CreateMutableBinding(it, vn, true)
			varEnv.InitializeBinding(it, vn, Undefined)
		}
	}
}
