package refjs

import (
	"fmt"
	"math"
)

// validate performs the static checks that a real engine performs while
// parsing (early errors, clause 8 / 13-16 "Static Semantics: Early Errors")
// plus shape checks of the AST itself. refjs has no notion of a program that
// fails to parse, so any violation makes the run Unsupported: a generator is
// expected not to produce such programs, and if it does the case is discarded
// instead of being judged on a guess.
func validate(prog *Node) (msg string) {
	defer func() {
		if r := recover(); r != nil {
			if e, ok := r.(validationError); ok {
				msg = "early error / malformed AST: " + string(e)
				return
			}
			panic(r)
		}
	}()
	v := &validator{}
	c := vctx{strict: containsUseStrict(prog.Kids)}
	v.scopeList(prog.Kids, true, nil, c)
	v.stmts(prog.Kids, c)
	return ""
}

type validationError string

type validator struct{}

// vctx is the syntactic context of a node.
type vctx struct {
	strict      bool
	inFunction  bool // return allowed
	inGenerator bool // yield allowed
	inAsync     bool // await allowed
	inParams    bool // inside a formal parameter list (yield / await expressions forbidden)
	superProp   bool // super.x allowed
	superCall   bool // super() allowed
	newTarget   bool // new.target allowed
	fieldInit   bool // inside a class field initialiser (`arguments` forbidden)
	labels      []string
	loopLabels  []string // labels that label an iteration statement (continue targets)
	inLoop      bool
	inBreakable bool
}

func (v *validator) fail(format string, args ...interface{}) {
	panic(validationError(fmt.Sprintf(format, args...)))
}

var reservedWords = map[string]bool{
	"break": true, "case": true, "catch": true, "class": true, "const": true, "continue": true, "debugger": true,
	"default": true, "delete": true, "do": true, "else": true, "enum": true, "export": true, "extends": true,
	"false": true, "finally": true, "for": true, "function": true, "if": true, "import": true, "in": true,
	"instanceof": true, "new": true, "null": true, "return": true, "super": true, "switch": true, "this": true,
	"throw": true, "true": true, "try": true, "typeof": true, "var": true, "void": true, "while": true, "with": true,
	// contextually reserved: never used as identifiers in J0
	"let": true, "static": true, "yield": true, "await": true, "async": true, "implements": true, "interface": true,
	"package": true, "private": true, "protected": true, "public": true, "of": true, "get": true, "set": true,
	"eval": true,
}

func (v *validator) ident(name string, c vctx, binding bool) {
	if !isIdentName(name) {
		v.fail("bad identifier %q", name)
	}
	if reservedWords[name] {
		v.fail("reserved word %q used as identifier", name)
	}
	if name == "arguments" {
		if binding && c.strict {
			v.fail("binding 'arguments' in strict mode code")
		}
		if c.fieldInit {
			v.fail("'arguments' in a class field initialiser")
		}
	}
	if binding && name == "undefined" {
		// legal in function scope, a runtime SyntaxError at global level; keep J0 simple
		v.fail("binding 'undefined'")
	}
}

func (v *validator) need(n *Node, nkids int, what string) {
	if n == nil {
		v.fail("missing %s", what)
	}
	if len(n.Kids) < nkids {
		v.fail("%s node %q has %d children, want at least %d", what, n.K, len(n.Kids), nkids)
	}
}

// scopeList checks the declarations of one scope: duplicate lexical names and
// lexical/var clashes. extraLex are names bound by the construct that owns the
// scope (parameters are passed separately by the caller).
func (v *validator) scopeList(list []*Node, topLevel bool, extraLex []string, c vctx) {
	lex := append(append([]string{}, extraLex...), lexicallyDeclaredNames(list, topLevel)...)
	if hasDuplicates(lex) {
		v.fail("duplicate lexical declaration in %v", lex)
	}
	vars := varDeclaredNames(list, topLevel)
	for _, l := range lex {
		if contains(vars, l) {
			v.fail("lexical declaration %q clashes with a var declaration", l)
		}
	}
}

func (v *validator) stmts(list []*Node, c vctx) {
	for i, s := range list {
		if s != nil && s.K == "directive" {
			// a directive is only meaningful in a prologue; elsewhere it would be
			// printed as a plain string statement, which is the same thing
			for _, p := range list[:i] {
				if p == nil || p.K != "directive" {
					v.fail("directive outside the directive prologue")
				}
			}
			continue
		}
		v.stmt(s, c, true)
	}
}

// subStmt checks a statement in sub-statement position (body of if/loop/with/label):
// declarations are not allowed there.
func (v *validator) subStmt(s *Node, c vctx) {
	if s == nil {
		v.fail("missing sub-statement")
	}
	switch s.K {
	case "funcdecl", "classdecl", "directive":
		v.fail("%s in sub-statement position", s.K)
	case "var":
		if s.A != "var" {
			v.fail("lexical declaration in sub-statement position")
		}
	}
	v.stmt(s, c, false)
}

func (v *validator) stmt(s *Node, c vctx, listItem bool) {
	if s == nil {
		v.fail("nil statement")
	}
	switch s.K {
	case "empty":
	case "directive":
		v.fail("directive outside a statement list")
	case "expr":
		v.need(s, 1, "expression statement")
		v.expr(s.Kids[0], c)
	case "block":
		v.scopeList(s.Kids, false, nil, c)
		v.blockFuncs(s.Kids, c)
		v.stmts(s.Kids, c)
	case "var":
		v.declaration(s, c, false)
	case "funcdecl":
		v.function(s, c, true)
	case "classdecl":
		if s.S == "" {
			v.fail("class declaration without a name")
		}
		v.class(s, c)
	case "if":
		v.need(s, 3, "if")
		v.expr(s.Kids[0], c)
		v.subStmt(s.Kids[1], c)
		if s.Kids[2] != nil {
			v.subStmt(s.Kids[2], c)
		}
	case "for":
		v.need(s, 4, "for")
		lc := c.loop()
		if init := s.Kids[0]; init != nil {
			if init.K == "var" {
				v.declaration(init, c, false)
				if init.A != "var" {
					names := boundNames(init)
					if hasDuplicates(names) {
						v.fail("duplicate names in for-let head")
					}
					body := []*Node{s.Kids[3]}
					for _, n := range names {
						if contains(varDeclaredNames(body, false), n) {
							v.fail("for-let name %q redeclared by var in the body", n)
						}
					}
				}
			} else {
				v.expr(init, c)
			}
		}
		if s.Kids[1] != nil {
			v.expr(s.Kids[1], c)
		}
		if s.Kids[2] != nil {
			v.expr(s.Kids[2], c)
		}
		v.subStmt(s.Kids[3], lc)
	case "forin", "forof":
		v.need(s, 3, s.K)
		head := s.Kids[0]
		if head == nil {
			v.fail("missing for-in/of head")
		}
		if head.K == "var" {
			if len(head.Kids) != 1 || head.Kids[0] == nil || len(head.Kids[0].Kids) < 2 || head.Kids[0].Kids[1] != nil {
				v.fail("for-in/of declaration must have one declarator without initialiser")
			}
			v.bindingTarget(head.Kids[0].Kids[0], c)
			names := boundNames(head)
			if head.A != "var" {
				if hasDuplicates(names) {
					v.fail("duplicate names in for-in/of head")
				}
				for _, n := range names {
					if contains(varDeclaredNames([]*Node{s.Kids[2]}, false), n) {
						v.fail("for-in/of name %q redeclared by var in the body", n)
					}
				}
			}
		} else {
			v.assignTarget(head, c, true)
		}
		v.expr(s.Kids[1], c)
		v.subStmt(s.Kids[2], c.loop())
	case "while":
		v.need(s, 2, "while")
		v.expr(s.Kids[0], c)
		v.subStmt(s.Kids[1], c.loop())
	case "dowhile":
		v.need(s, 2, "do-while")
		v.subStmt(s.Kids[0], c.loop())
		v.expr(s.Kids[1], c)
	case "continue":
		if s.S == "" {
			if !c.inLoop {
				v.fail("continue outside a loop")
			}
		} else if !contains(c.loopLabels, s.S) {
			v.fail("continue target %q is not an enclosing loop label", s.S)
		}
	case "break":
		if s.S == "" {
			if !c.inBreakable {
				v.fail("break outside a loop or switch")
			}
		} else if !contains(c.labels, s.S) {
			v.fail("break target %q is not an enclosing label", s.S)
		}
	case "return":
		v.need(s, 1, "return")
		if !c.inFunction {
			v.fail("return outside a function")
		}
		if s.Kids[0] != nil {
			v.expr(s.Kids[0], c)
		}
	case "throw":
		v.need(s, 1, "throw")
		v.expr(s.Kids[0], c)
	case "try":
		v.need(s, 4, "try")
		block, param, handler, fin := s.Kids[0], s.Kids[1], s.Kids[2], s.Kids[3]
		if block == nil || block.K != "block" {
			v.fail("try block must be a block")
		}
		if handler == nil && fin == nil {
			v.fail("try without catch or finally")
		}
		v.stmt(block, c, false)
		if handler != nil {
			if handler.K != "block" {
				v.fail("catch body must be a block")
			}
			if param != nil {
				v.bindingTarget(param, c)
				names := boundNames(param)
				if hasDuplicates(names) {
					v.fail("duplicate names in catch parameter")
				}
				for _, n := range names {
					if contains(lexicallyDeclaredNames(handler.Kids, false), n) {
						v.fail("catch parameter %q redeclared in the catch block", n)
					}
					if contains(varDeclaredNames(handler.Kids, false), n) {
						// legal only through Annex B.3.4 (normative optional), and only for a plain identifier
						v.fail("catch parameter %q redeclared by var in the catch block", n)
					}
				}
			}
			v.stmt(handler, c, false)
		} else if param != nil {
			v.fail("catch parameter without catch block")
		}
		if fin != nil {
			if fin.K != "block" {
				v.fail("finally body must be a block")
			}
			v.stmt(fin, c, false)
		}
	case "switch":
		v.need(s, 1, "switch")
		v.expr(s.Kids[0], c)
		all := caseBlockStatements(s)
		v.scopeList(all, false, nil, c)
		v.blockFuncs(all, c)
		sc := c
		sc.inBreakable = true
		defaults := 0
		for _, cl := range s.Kids[1:] {
			if cl == nil || cl.K != "case" || len(cl.Kids) < 1 {
				v.fail("malformed case clause")
			}
			if cl.Kids[0] == nil {
				defaults++
			} else {
				v.expr(cl.Kids[0], c)
			}
			v.stmts(cl.Kids[1:], sc)
		}
		if defaults > 1 {
			v.fail("more than one default clause")
		}
	case "labeled":
		v.need(s, 1, "labelled statement")
		v.ident(s.S, c, false)
		if contains(c.labels, s.S) {
			v.fail("duplicate label %q", s.S)
		}
		lc := c
		lc.labels = append(append([]string{}, c.labels...), s.S)
		// the label is a continue target only if (after further labels) it labels a loop
		inner := s.Kids[0]
		for inner != nil && inner.K == "labeled" {
			inner = inner.kid(0)
		}
		if inner != nil {
			switch inner.K {
			case "for", "forin", "forof", "while", "dowhile":
				lc.loopLabels = append(append([]string{}, c.loopLabels...), s.S)
			}
		}
		v.subStmt(s.Kids[0], lc)
	case "with":
		v.need(s, 2, "with")
		if c.strict {
			v.fail("with statement in strict mode code")
		}
		v.expr(s.Kids[0], c)
		v.subStmt(s.Kids[1], c)
	default:
		v.fail("unknown statement kind %q", s.K)
	}
}

func (c vctx) loop() vctx {
	c.inLoop = true
	c.inBreakable = true
	return c
}

// blockFuncs: function declarations in blocks are only supported in strict code.
func (v *validator) blockFuncs(list []*Node, c vctx) {
	for _, s := range list {
		if s != nil && s.K == "funcdecl" && !c.strict {
			v.fail("function declaration in a block in sloppy mode code (Annex B.3.3 is outside J0)")
		}
	}
}

func (v *validator) declaration(s *Node, c vctx, forInOf bool) {
	switch s.A {
	case "var", "let", "const":
	default:
		v.fail("declaration kind %q", s.A)
	}
	if len(s.Kids) == 0 {
		v.fail("declaration without declarators")
	}
	for _, d := range s.Kids {
		if d == nil || d.K != "declarator" || len(d.Kids) < 2 {
			v.fail("malformed declarator")
		}
		v.bindingTarget(d.Kids[0], c)
		if d.Kids[1] == nil {
			if s.A == "const" {
				v.fail("const declaration without initialiser")
			}
			if isPattern(d.Kids[0]) {
				v.fail("destructuring declaration without initialiser")
			}
		} else {
			v.expr(d.Kids[1], c)
		}
	}
}

// bindingTarget checks an identifier or binding pattern.
func (v *validator) bindingTarget(t *Node, c vctx) {
	if t == nil {
		v.fail("missing binding target")
	}
	switch t.K {
	case "id":
		v.ident(t.S, c, true)
	case "arrpat":
		for i, e := range t.Kids {
			if e == nil {
				continue
			}
			switch e.K {
			case "rest":
				if i != len(t.Kids)-1 {
					v.fail("rest element must be last")
				}
				v.need(e, 1, "rest")
				v.bindingTarget(e.Kids[0], c)
			case "default":
				v.need(e, 2, "default")
				v.bindingTarget(e.Kids[0], c)
				v.expr(e.Kids[1], c)
			default:
				v.bindingTarget(e, c)
			}
		}
	case "objpat":
		for i, p := range t.Kids {
			if p == nil {
				v.fail("nil object pattern element")
			}
			if p.K == "rest" {
				if i != len(t.Kids)-1 {
					v.fail("rest property must be last")
				}
				v.need(p, 1, "rest")
				if p.Kids[0] == nil || p.Kids[0].K != "id" {
					v.fail("object rest binding must be an identifier")
				}
				v.bindingTarget(p.Kids[0], c)
				continue
			}
			v.patProp(p, c)
			val := p.Kids[1]
			if val.K == "default" {
				v.need(val, 2, "default")
				v.bindingTarget(val.Kids[0], c)
				v.expr(val.Kids[1], c)
			} else {
				v.bindingTarget(val, c)
			}
		}
	default:
		v.fail("binding target kind %q", t.K)
	}
}

func (v *validator) patProp(p *Node, c vctx) {
	if p.K != "patprop" || len(p.Kids) < 2 || p.Kids[0] == nil || p.Kids[1] == nil {
		v.fail("malformed pattern property")
	}
	switch p.A {
	case "shorthand":
		val := p.Kids[1]
		if val.K == "default" {
			val = val.kid(0)
		}
		if p.B || p.Kids[0].K != "str" || val == nil || val.K != "id" || val.S != p.Kids[0].S {
			v.fail("malformed shorthand pattern property")
		}
	case "init":
		v.propKey(p.Kids[0], p.B, c)
	default:
		v.fail("pattern property kind %q", p.A)
	}
}

func (v *validator) propKey(k *Node, computed bool, c vctx) {
	if k == nil {
		v.fail("missing property key")
	}
	if computed {
		v.expr(k, c)
		return
	}
	switch k.K {
	case "str", "id", "num":
	default:
		v.fail("non-computed property key of kind %q", k.K)
	}
}

// assignTarget checks an assignment target; patterns are allowed when pat is true.
func (v *validator) assignTarget(t *Node, c vctx, pat bool) {
	if t == nil {
		v.fail("missing assignment target")
	}
	switch t.K {
	case "paren":
		v.need(t, 1, "paren")
		inner := unparen(t)
		if inner == nil || isPattern(inner) {
			v.fail("parenthesised pattern as assignment target")
		}
		v.assignTarget(inner, c, false)
	case "id":
		v.ident(t.S, c, false)
		if c.strict && t.S == "arguments" {
			v.fail("assignment to 'arguments' in strict mode code")
		}
	case "dot", "idx":
		if hasOptionalLink(t) {
			v.fail("optional chain as assignment target")
		}
		v.expr(t, c)
	case "superdot", "superidx":
		v.expr(t, c)
	case "arrpat":
		if !pat {
			v.fail("pattern not allowed here")
		}
		for i, e := range t.Kids {
			if e == nil {
				continue
			}
			switch e.K {
			case "rest":
				if i != len(t.Kids)-1 {
					v.fail("rest element must be last")
				}
				v.need(e, 1, "rest")
				v.assignTarget(e.Kids[0], c, true)
			case "default":
				v.need(e, 2, "default")
				v.assignTarget(e.Kids[0], c, true)
				v.expr(e.Kids[1], c)
			default:
				v.assignTarget(e, c, true)
			}
		}
	case "objpat":
		if !pat {
			v.fail("pattern not allowed here")
		}
		for i, p := range t.Kids {
			if p == nil {
				v.fail("nil object pattern element")
			}
			if p.K == "rest" {
				if i != len(t.Kids)-1 {
					v.fail("rest property must be last")
				}
				v.need(p, 1, "rest")
				v.assignTarget(p.Kids[0], c, false)
				continue
			}
			v.patProp(p, c)
			val := p.Kids[1]
			if val.K == "default" {
				v.need(val, 2, "default")
				v.assignTarget(val.Kids[0], c, true)
				v.expr(val.Kids[1], c)
			} else {
				v.assignTarget(val, c, true)
			}
		}
	default:
		v.fail("assignment target kind %q", t.K)
	}
}

func hasOptionalLink(n *Node) bool {
	for isChainNode(n) {
		if n.B {
			return true
		}
		n = n.kid(0)
	}
	return false
}

func (v *validator) exprs(list []*Node, c vctx, allowSpread, allowHole bool) {
	for _, e := range list {
		if e == nil {
			if !allowHole {
				v.fail("nil expression")
			}
			continue
		}
		if e.K == "spread" {
			if !allowSpread {
				v.fail("spread not allowed here")
			}
			v.need(e, 1, "spread")
			v.expr(e.Kids[0], c)
			continue
		}
		v.expr(e, c)
	}
}

func (v *validator) expr(e *Node, c vctx) {
	if e == nil {
		v.fail("nil expression")
	}
	switch e.K {
	case "num":
		if e.N < 0 || e.N != e.N || math.IsInf(e.N, 0) {
			v.fail("numeric literal must be finite and non-negative")
		}
	case "str", "bool", "null", "this":
	case "id":
		v.ident(e.S, c, false)
	case "tmpl":
		if len(e.Kids)%2 != 1 {
			v.fail("template literal needs an odd number of parts")
		}
		for i, k := range e.Kids {
			if i%2 == 0 {
				if k == nil || k.K != "str" {
					v.fail("template string part must be a str node")
				}
			} else {
				v.expr(k, c)
			}
		}
	case "arr":
		v.exprs(e.Kids, c, true, true)
	case "obj":
		for _, p := range e.Kids {
			if p == nil || p.K != "prop" {
				v.fail("malformed object literal")
			}
			switch p.A {
			case "spread":
				v.need(p, 1, "spread property")
				v.expr(p.Kids[0], c)
			case "shorthand":
				v.need(p, 2, "shorthand property")
				if p.Kids[0] == nil || p.Kids[1] == nil || p.Kids[1].K != "id" || p.Kids[0].S != p.Kids[1].S {
					v.fail("malformed shorthand property")
				}
				v.ident(p.Kids[1].S, c, false)
			case "init":
				v.need(p, 2, "property")
				v.propKey(p.Kids[0], p.B, c)
				v.expr(p.Kids[1], c)
			case "method", "get", "set":
				v.need(p, 2, "method")
				v.propKey(p.Kids[0], p.B, c)
				v.methodFunc(p.A, p.Kids[1], c, false)
			default:
				v.fail("property kind %q", p.A)
			}
		}
	case "func":
		switch e.A {
		case "function", "generator", "async", "arrow", "asyncarrow":
		default:
			v.fail("function flavour %q in expression position", e.A)
		}
		v.function(e, c, false)
	case "class":
		v.class(e, c)
	case "dot":
		v.need(e, 1, "member access")
		if !isIdentName(e.S) {
			v.fail("bad property name %q", e.S)
		}
		v.expr(e.Kids[0], c)
	case "idx":
		v.need(e, 2, "index access")
		v.expr(e.Kids[0], c)
		v.expr(e.Kids[1], c)
	case "call":
		v.need(e, 1, "call")
		v.expr(e.Kids[0], c)
		v.exprs(e.Kids[1:], c, true, false)
	case "new":
		v.need(e, 1, "new")
		v.expr(e.Kids[0], c)
		v.exprs(e.Kids[1:], c, true, false)
	case "unary":
		v.need(e, 1, "unary")
		switch e.S {
		case "+", "-", "!", "~", "typeof", "void":
		case "delete":
			if c.strict && unparen(e.Kids[0]) != nil && unparen(e.Kids[0]).K == "id" {
				v.fail("delete of an identifier in strict mode code")
			}
		default:
			v.fail("unary operator %q", e.S)
		}
		v.expr(e.Kids[0], c)
	case "update":
		v.need(e, 1, "update")
		if e.S != "++" && e.S != "--" {
			v.fail("update operator %q", e.S)
		}
		v.assignTarget(e.Kids[0], c, false)
	case "bin":
		v.need(e, 2, "binary")
		switch e.S {
		case "+", "-", "*", "/", "%", "**", "&", "|", "^", "<<", ">>", ">>>", "<", ">", "<=", ">=",
			"==", "!=", "===", "!==", "instanceof", "in":
		default:
			v.fail("binary operator %q", e.S)
		}
		v.expr(e.Kids[0], c)
		v.expr(e.Kids[1], c)
	case "logical":
		v.need(e, 2, "logical")
		switch e.S {
		case "&&", "||", "??":
		default:
			v.fail("logical operator %q", e.S)
		}
		v.expr(e.Kids[0], c)
		v.expr(e.Kids[1], c)
	case "cond":
		v.need(e, 3, "conditional")
		v.expr(e.Kids[0], c)
		v.expr(e.Kids[1], c)
		v.expr(e.Kids[2], c)
	case "assign":
		v.need(e, 2, "assignment")
		switch e.S {
		case "=":
			v.assignTarget(e.Kids[0], c, true)
		case "+=", "-=", "*=", "/=", "%=", "**=", "&=", "|=", "^=", "<<=", ">>=", ">>>=", "&&=", "||=", "??=":
			v.assignTarget(e.Kids[0], c, false)
		default:
			v.fail("assignment operator %q", e.S)
		}
		v.expr(e.Kids[1], c)
	case "seq":
		if len(e.Kids) == 0 {
			v.fail("empty sequence expression")
		}
		v.exprs(e.Kids, c, false, false)
	case "yield":
		if !c.inGenerator || c.inParams {
			v.fail("yield outside a generator body")
		}
		v.need(e, 1, "yield")
		if e.Kids[0] == nil {
			if e.B {
				v.fail("yield* without operand")
			}
		} else {
			v.expr(e.Kids[0], c)
		}
	case "await":
		if !c.inAsync || c.inParams {
			v.fail("await outside an async function body")
		}
		v.need(e, 1, "await")
		v.expr(e.Kids[0], c)
	case "eval":
		v.need(e, 1, "eval")
		body := e.Kids[0]
		if body == nil || body.K != "program" {
			v.fail("eval body must be a program node")
		}
		ec := vctx{
			strict:    c.strict || containsUseStrict(body.Kids),
			superProp: c.superProp, superCall: c.superCall, newTarget: c.newTarget, fieldInit: c.fieldInit,
		}
		v.scopeList(body.Kids, true, nil, ec)
		v.stmts(body.Kids, ec)
	case "superdot":
		if !c.superProp {
			v.fail("super property access outside a method")
		}
		if !isIdentName(e.S) {
			v.fail("bad property name %q", e.S)
		}
	case "superidx":
		if !c.superProp {
			v.fail("super property access outside a method")
		}
		v.need(e, 1, "super[...]")
		v.expr(e.Kids[0], c)
	case "supercall":
		if !c.superCall {
			v.fail("super() outside a derived class constructor")
		}
		v.exprs(e.Kids, c, true, false)
	case "newtarget":
		if !c.newTarget {
			v.fail("new.target outside a function")
		}
	case "paren":
		v.need(e, 1, "paren")
		v.expr(e.Kids[0], c)
	default:
		v.fail("unknown expression kind %q", e.K)
	}
}

// function checks a function expression / declaration (not a method).
func (v *validator) function(f *Node, c vctx, decl bool) {
	v.need(f, 2, "function")
	fl, arrow := flavourOf(f.A)
	if decl {
		switch f.A {
		case "function", "generator", "async":
		default:
			v.fail("function declaration flavour %q", f.A)
		}
		if f.S == "" {
			v.fail("function declaration without a name")
		}
	}
	if f.S != "" {
		if arrow {
			v.fail("arrow function with a name")
		}
		v.ident(f.S, c, true)
	}
	fc := vctx{strict: c.strict, inFunction: true, inGenerator: fl == "generator", inAsync: fl == "async", newTarget: true}
	if arrow {
		fc.superProp, fc.superCall, fc.newTarget, fc.fieldInit = c.superProp, c.superCall, c.newTarget, c.fieldInit
	}
	v.funcCommon(f, fc, arrow)
}

// methodFunc checks the function of a method / accessor.
func (v *validator) methodFunc(kind string, f *Node, c vctx, derivedCtor bool) {
	if f == nil || f.K != "func" {
		v.fail("method value must be a func node")
	}
	v.need(f, 2, "method")
	switch kind {
	case "get":
		if f.A != "get" || len(f.Kids[0].Kids) != 0 {
			v.fail("getter must have flavour get and no parameters")
		}
	case "set":
		if f.A != "set" || len(f.Kids[0].Kids) != 1 || f.Kids[0].Kids[0] == nil || f.Kids[0].Kids[0].K == "rest" {
			v.fail("setter must have flavour set and exactly one non-rest parameter")
		}
	default:
		switch f.A {
		case "method", "genmethod", "asyncmethod":
		default:
			v.fail("method flavour %q", f.A)
		}
	}
	if f.S != "" || f.B {
		v.fail("method function must be anonymous with a block body")
	}
	fl, _ := flavourOf(f.A)
	fc := vctx{strict: c.strict, inFunction: true, inGenerator: fl == "generator", inAsync: fl == "async",
		newTarget: true, superProp: true, superCall: derivedCtor}
	v.funcCommon(f, fc, true)
}

// funcCommon checks parameters and body; uniqueParams is true for arrows and methods.
func (v *validator) funcCommon(f *Node, fc vctx, uniqueParams bool) {
	params, body := f.Kids[0], f.Kids[1]
	if params == nil || params.K != "params" {
		v.fail("function without params node")
	}
	if body == nil {
		v.fail("function without body")
	}
	var bodyStmts []*Node
	if f.B {
		if f.A != "arrow" && f.A != "asyncarrow" {
			v.fail("concise body on a non-arrow function")
		}
	} else {
		if body.K != "block" {
			v.fail("function body must be a block")
		}
		bodyStmts = body.Kids
		if containsUseStrict(bodyStmts) {
			if !isSimpleParameterList(params) {
				v.fail("'use strict' directive in a function with a non-simple parameter list")
			}
			fc.strict = true
		}
	}
	pc := fc
	pc.inParams = true
	for i, p := range params.Kids {
		if p == nil {
			v.fail("nil parameter")
		}
		switch p.K {
		case "rest":
			if i != len(params.Kids)-1 {
				v.fail("rest parameter must be last")
			}
			v.need(p, 1, "rest")
			v.bindingTarget(p.Kids[0], pc)
		case "default":
			v.need(p, 2, "default")
			v.bindingTarget(p.Kids[0], pc)
			v.expr(p.Kids[1], pc)
		default:
			v.bindingTarget(p, pc)
		}
	}
	names := boundNames(params)
	if hasDuplicates(names) && (fc.strict || uniqueParams || !isSimpleParameterList(params)) {
		v.fail("duplicate parameter names")
	}
	if f.B {
		v.expr(body, fc)
		return
	}
	for _, n := range names {
		if contains(lexicallyDeclaredNames(bodyStmts, true), n) {
			v.fail("parameter %q redeclared lexically in the body", n)
		}
	}
	v.scopeList(bodyStmts, true, nil, fc)
	v.stmts(bodyStmts, fc)
}

func (v *validator) class(n *Node, c vctx) {
	v.need(n, 1, "class")
	if n.S != "" {
		v.ident(n.S, c, true)
	}
	cc := c
	cc.strict = true
	heritage := n.Kids[0]
	if heritage != nil {
		v.expr(heritage, cc)
	}
	ctors := 0
	for _, m := range n.Kids[1:] {
		if m == nil || m.K != "member" || len(m.Kids) < 2 {
			v.fail("malformed class member")
		}
		if m.S != "" && m.S != "static" {
			v.fail("class member modifier %q", m.S)
		}
		static := m.S == "static"
		v.propKey(m.Kids[0], m.B, cc)
		name := ""
		if !m.B && m.Kids[0].K != "num" {
			name = m.Kids[0].S
		}
		switch m.A {
		case "method", "get", "set":
			isCtor := !static && name == "constructor"
			if isCtor {
				if m.A != "method" || m.Kids[1] == nil || m.Kids[1].A != "method" {
					v.fail("class constructor must be a plain method")
				}
				ctors++
			}
			if static && name == "prototype" {
				v.fail("static class method named prototype")
			}
			v.methodFunc(m.A, m.Kids[1], cc, isCtor && heritage != nil)
		case "field":
			if name == "constructor" || (static && name == "prototype") {
				v.fail("class field named %q", name)
			}
			if m.Kids[1] != nil {
				fc := vctx{strict: true, superProp: true, newTarget: true, fieldInit: true}
				v.expr(m.Kids[1], fc)
			}
		default:
			v.fail("class member kind %q", m.A)
		}
	}
	if ctors > 1 {
		v.fail("duplicate class constructor")
	}
}
