package refjs

// Promise objects (27.2), jobs (9.5) and async functions (27.7).

type promiseReaction struct {
	capability *promiseCapability // nil = undefined
	fulfill    bool               // [[Type]]
	handler    Value              // *Object, or nil for empty
}

type promiseData struct {
	state            string // "pending", "fulfilled", "rejected"
	result           Value
	fulfillReactions []*promiseReaction
	rejectReactions  []*promiseReaction
	isHandled        bool
}

type promiseCapability struct {
	promise *Object
	resolve Value
	reject  Value
}

func isPromise(v Value) bool {
	o, ok := v.(*Object)
	return ok && o.promise != nil
}

// enqueueJob is HostEnqueuePromiseJob (9.5.5): a single FIFO queue.
func (it *Interp) enqueueJob(job func()) { it.jobs = append(it.jobs, job) }

// createResolvingFunctions is 27.2.1.3.
func (it *Interp) createResolvingFunctions(promise *Object) (resolve, reject *Object) {
	alreadyResolved := false
	resolve = it.newNative("", 1, func(it *Interp, this Value, args []Value, nt Value) Value {
		// 27.2.1.3.2 Promise Resolve Functions
		if alreadyResolved {
			return Undefined
		}
		alreadyResolved = true
		resolution := arg(args, 0)
		if ro, ok := resolution.(*Object); ok && ro == promise {
			it.rejectPromise(promise, it.makeError("TypeError", "Chaining cycle detected for promise"))
			return Undefined
		}
		ro, ok := resolution.(*Object)
		if !ok {
			it.fulfillPromise(promise, resolution)
			return Undefined
		}
		then, c := it.catchValue(func() Value { return it.get(ro, strKey("then"), ro) })
		if c.typ == cThrow {
			it.rejectPromise(promise, c.val)
			return Undefined
		}
		it.rethrow(c)
		if !isCallable(then) {
			it.fulfillPromise(promise, resolution)
			return Undefined
		}
		// 27.2.2.2 NewPromiseResolveThenableJob
		thenFn := then.(*Object)
		it.enqueueJob(func() {
			res, rej := it.createResolvingFunctions(promise)
			_, c := it.catchValue(func() Value { return it.call(thenFn, ro, []Value{res, rej}) })
			if c.typ == cThrow {
				it.call(rej, Undefined, []Value{c.val})
				return
			}
			it.rethrow(c)
		})
		return Undefined
	})
	reject = it.newNative("", 1, func(it *Interp, this Value, args []Value, nt Value) Value {
		// 27.2.1.3.1 Promise Reject Functions
		if alreadyResolved {
			return Undefined
		}
		alreadyResolved = true
		it.rejectPromise(promise, arg(args, 0))
		return Undefined
	})
	return resolve, reject
}

// fulfillPromise is 27.2.1.4; rejectPromise is 27.2.1.7.
func (it *Interp) fulfillPromise(p *Object, v Value) {
	pd := p.promise
	reactions := pd.fulfillReactions
	pd.result, pd.fulfillReactions, pd.rejectReactions, pd.state = v, nil, nil, "fulfilled"
	it.triggerPromiseReactions(reactions, v)
}

func (it *Interp) rejectPromise(p *Object, reason Value) {
	pd := p.promise
	reactions := pd.rejectReactions
	pd.result, pd.fulfillReactions, pd.rejectReactions, pd.state = reason, nil, nil, "rejected"
	it.triggerPromiseReactions(reactions, reason)
}

// triggerPromiseReactions is 27.2.1.8.
func (it *Interp) triggerPromiseReactions(reactions []*promiseReaction, argument Value) {
	for _, r := range reactions {
		it.enqueueReactionJob(r, argument)
	}
}

// enqueueReactionJob enqueues 27.2.2.1 NewPromiseReactionJob(reaction, argument).
func (it *Interp) enqueueReactionJob(r *promiseReaction, argument Value) {
	it.enqueueJob(func() {
		var result Value
		var c Completion
		if r.handler == nil {
			if r.fulfill {
				result, c = argument, normal(nil)
			} else {
				c = Completion{typ: cThrow, val: argument}
			}
		} else {
			result, c = it.catchValue(func() Value { return it.call(r.handler.(*Object), Undefined, []Value{argument}) })
		}
		if c.typ != cThrow {
			it.rethrow(c)
		}
		if r.capability == nil {
			if c.typ == cThrow {
				panic("refjs: abrupt reaction without capability")
			}
			return
		}
		if c.typ == cThrow {
			it.callValue(r.capability.reject, Undefined, []Value{c.val})
		} else {
			it.callValue(r.capability.resolve, Undefined, []Value{result})
		}
	})
}

// newPromiseCapability is 27.2.1.5.
func (it *Interp) newPromiseCapability(c Value) *promiseCapability {
	if !isConstructor(c) {
		it.throwError("TypeError", "Promise capability constructor is not a constructor")
	}
	pc := &promiseCapability{resolve: Undefined, reject: Undefined}
	executor := it.newNative("", 2, func(it *Interp, this Value, args []Value, nt Value) Value {
		if pc.resolve != Undefined {
			it.throwError("TypeError", "Promise executor has already been invoked")
		}
		if pc.reject != Undefined {
			it.throwError("TypeError", "Promise executor has already been invoked")
		}
		pc.resolve = arg(args, 0)
		pc.reject = arg(args, 1)
		return Undefined
	})
	co := c.(*Object)
	p := it.construct(co, []Value{executor}, co)
	if !isCallable(pc.resolve) || !isCallable(pc.reject) {
		it.throwError("TypeError", "Promise resolve or reject function is not callable")
	}
	pc.promise = p.(*Object)
	return pc
}

// newPromise allocates a pending promise with the given prototype.
func (it *Interp) newPromise(proto *Object) *Object {
	p := it.newObject(proto)
	p.class = "Promise"
	p.promise = &promiseData{state: "pending"}
	return p
}

// promiseConstructor is 27.2.3.1 Promise(executor).
func promiseConstructor(it *Interp, this Value, args []Value, newTarget Value) Value {
	nt, ok := newTarget.(*Object)
	if !ok {
		it.throwError("TypeError", "Promise constructor cannot be invoked without 'new'")
	}
	executor := arg(args, 0)
	if !isCallable(executor) {
		it.throwError("TypeError", "Promise resolver is not a function")
	}
	p := it.newPromise(it.getPrototypeFromConstructor(nt, func(r *Realm) *Object { return r.PromisePrototype }))
	res, rej := it.createResolvingFunctions(p)
	_, c := it.catchValue(func() Value { return it.call(executor.(*Object), Undefined, []Value{res, rej}) })
	if c.typ == cThrow {
		it.call(rej, Undefined, []Value{c.val})
	} else {
		it.rethrow(c)
	}
	return p
}

// promiseResolve is 27.2.4.7.1 PromiseResolve(C, x).
func (it *Interp) promiseResolve(c *Object, x Value) *Object {
	if isPromise(x) {
		xo := x.(*Object)
		xc := it.get(xo, strKey("constructor"), xo)
		if sameValue(xc, c) {
			return xo
		}
	}
	pc := it.newPromiseCapability(c)
	it.callValue(pc.resolve, Undefined, []Value{x})
	return pc.promise
}

// speciesConstructor is 7.3.23.
func (it *Interp) speciesConstructor(o *Object, dflt *Object) *Object {
	c := it.get(o, strKey("constructor"), o)
	if _, ok := c.(undefT); ok {
		return dflt
	}
	co, ok := c.(*Object)
	if !ok {
		it.throwError("TypeError", "object.constructor is not an object")
	}
	s := it.get(co, symKey(it.realm.SymSpecies), co)
	if isNullish(s) {
		return dflt
	}
	if isConstructor(s) {
		return s.(*Object)
	}
	it.throwError("TypeError", "object.constructor[Symbol.species] is not a constructor")
	return nil
}

// performPromiseThen is 27.2.5.4.1.
func (it *Interp) performPromiseThen(p *Object, onFulfilled, onRejected Value, capability *promiseCapability) Value {
	var fh, rh Value
	if isCallable(onFulfilled) {
		fh = onFulfilled
	}
	if isCallable(onRejected) {
		rh = onRejected
	}
	fr := &promiseReaction{capability: capability, fulfill: true, handler: fh}
	rr := &promiseReaction{capability: capability, fulfill: false, handler: rh}
	pd := p.promise
	switch pd.state {
	case "pending":
		pd.fulfillReactions = append(pd.fulfillReactions, fr)
		pd.rejectReactions = append(pd.rejectReactions, rr)
	case "fulfilled":
		it.enqueueReactionJob(fr, pd.result)
	default:
		it.enqueueReactionJob(rr, pd.result)
	}
	pd.isHandled = true
	if capability == nil {
		return Undefined
	}
	return capability.promise
}

// invoke is 7.3.12 Invoke(V, P, args).
func (it *Interp) invoke(v Value, name string, args []Value) Value {
	f := it.getV(v, strKey(name))
	return it.callValue(f, v, args)
}

func (it *Interp) setupPromise(r *Realm) {
	ctor := it.newNative("Promise", 1, promiseConstructor)
	ctor.fn.isConstructor = true
	proto := it.newObject(r.ObjectPrototype)
	r.Promise, r.PromisePrototype = ctor, proto
	proto.intrinsic, proto.toStringTag = "Promise.prototype", "Promise"
	ctor.intrinsic = "Promise"
	ctor.rawSet(strKey("prototype"), &Property{value: proto})
	proto.defHidden("constructor", ctor)
	ctor.missing = missingSet("all", "allSettled", "any", "race", "withResolvers", "try")

	ctor.defHidden("resolve", it.newNative("resolve", 1, func(it *Interp, this Value, args []Value, nt Value) Value {
		c, ok := this.(*Object)
		if !ok {
			it.throwError("TypeError", "Promise.resolve called on non-object")
		}
		return it.promiseResolve(c, arg(args, 0))
	}))
	ctor.defHidden("reject", it.newNative("reject", 1, func(it *Interp, this Value, args []Value, nt Value) Value {
		pc := it.newPromiseCapability(this)
		it.callValue(pc.reject, Undefined, []Value{arg(args, 0)})
		return pc.promise
	}))
	ctor.rawSet(symKey(r.SymSpecies), &Property{accessor: true, configurable: true,
		get: it.newNative("get [Symbol.species]", 0, func(it *Interp, this Value, args []Value, nt Value) Value { return this })})

	proto.defHidden("then", it.newNative("then", 2, func(it *Interp, this Value, args []Value, nt Value) Value {
		if !isPromise(this) {
			it.throwError("TypeError", "Promise.prototype.then called on incompatible receiver")
		}
		p := this.(*Object)
		c := it.speciesConstructor(p, it.realm.Promise)
		rc := it.newPromiseCapability(c)
		return it.performPromiseThen(p, arg(args, 0), arg(args, 1), rc)
	}))
	proto.defHidden("catch", it.newNative("catch", 1, func(it *Interp, this Value, args []Value, nt Value) Value {
		return it.invoke(this, "then", []Value{Undefined, arg(args, 0)})
	}))
	proto.defHidden("finally", it.newNative("finally", 1, func(it *Interp, this Value, args []Value, nt Value) Value {
		// 27.2.5.3
		p, ok := this.(*Object)
		if !ok {
			it.throwError("TypeError", "Promise.prototype.finally called on non-object")
		}
		c := it.speciesConstructor(p, it.realm.Promise)
		onFinally := arg(args, 0)
		var thenFinally, catchFinally Value = onFinally, onFinally
		if isCallable(onFinally) {
			of := onFinally.(*Object)
			thenFinally = it.newNative("", 1, func(it *Interp, this Value, args []Value, nt Value) Value {
				value := arg(args, 0)
				result := it.call(of, Undefined, nil)
				pr := it.promiseResolve(c, result)
				thunk := it.newNative("", 0, func(it *Interp, this Value, args []Value, nt Value) Value { return value })
				return it.invoke(pr, "then", []Value{thunk})
			})
			catchFinally = it.newNative("", 1, func(it *Interp, this Value, args []Value, nt Value) Value {
				reason := arg(args, 0)
				result := it.call(of, Undefined, nil)
				pr := it.promiseResolve(c, result)
				thrower := it.newNative("", 0, func(it *Interp, this Value, args []Value, nt Value) Value {
					it.throw(reason)
					return nil
				})
				return it.invoke(pr, "then", []Value{thrower})
			})
		}
		return it.invoke(p, "then", []Value{thenFinally, catchFinally})
	}))
}

// ---- async functions ----

// startAsyncFunction is 15.8.4 EvaluateAsyncFunctionBody / 15.9.? for async
// arrows: the promise capability is created first, a failing
// FunctionDeclarationInstantiation rejects it, otherwise 27.7.5.1
// AsyncFunctionStart runs the body up to its first await.
func (it *Interp) startAsyncFunction(f *Object, ctx *Ctx, args []Value) Value {
	pc := it.newPromiseCapability(it.realm.Promise)
	var bctx *Ctx
	c := it.catchAbrupt(func() Completion {
		bctx = it.functionDeclarationInstantiation(f, ctx, args)
		return normal(nil)
	})
	if c.typ == cThrow {
		it.callValue(pc.reject, Undefined, []Value{c.val})
		return pc.promise
	}
	it.rethrow(c)
	bc := *bctx
	co := it.newCoroutine(func(first resumeMsg) Completion {
		// 27.7.5.2 AsyncBlockStart
		v := it.evaluateFunctionBody(f.fn.node, &bc)
		return Completion{typ: cReturn, val: v}
	})
	bc.co = co
	bc.async = true
	bc.asyncCap = pc
	it.asyncStep(co, pc, resumeMsg{kind: rNext, val: Undefined})
	return pc.promise
}

// asyncStep resumes an async body and settles its promise when the body finishes.
func (it *Interp) asyncStep(co *coroutine, pc *promiseCapability, msg resumeMsg) {
	y := co.resume(msg)
	switch y.kind {
	case yAwait:
		return
	case yDone:
		switch y.c.typ {
		case cThrow:
			it.callValue(pc.reject, Undefined, []Value{y.c.val})
		default:
			v := y.c.val
			if v == nil {
				v = Undefined
			}
			it.callValue(pc.resolve, Undefined, []Value{v})
		}
		return
	}
	panic("refjs: unexpected coroutine message in async function")
}

// evalAwait is 27.7.5.3 Await(value).
func (it *Interp) evalAwait(n *Node, ctx *Ctx) Value {
	if ctx.co == nil || !ctx.async {
		it.unsupported("await outside an async function body")
	}
	value := it.evalExpr(n.kid(0), ctx)
	co := ctx.co
	pc := ctx.asyncCap
	promise := it.promiseResolve(it.realm.Promise, value)
	onFulfilled := it.newNative("", 1, func(it *Interp, this Value, args []Value, nt Value) Value {
		it.asyncStep(co, pc, resumeMsg{kind: rNext, val: arg(args, 0)})
		return Undefined
	})
	onRejected := it.newNative("", 1, func(it *Interp, this Value, args []Value, nt Value) Value {
		it.asyncStep(co, pc, resumeMsg{kind: rThrow, val: arg(args, 0)})
		return Undefined
	})
	it.performPromiseThen(promise, onFulfilled, onRejected, nil)
	msg := co.suspend(yieldMsg{kind: yAwait})
	if msg.kind == rThrow {
		panic(&throwSignal{msg.val})
	}
	return msg.val
}
