package refjs_test

func init() {
	jsCorpus = append(jsCorpus, []jsCase{
		{"member-key-order", anyMode, `
var od = []; var k = { toString() { od.push('key'); return 'p'; } }; var o = {};
o[k] = (od.push('rhs'), 1); log(od); od = [];
log(delete o[k]); log(od); od = [];
o[k] ||= (od.push('rhs'), 5); log(od); log(o); od = [];
[o[k]] = [(od.push('rhs'), 9)]; log(od);
`},
		{"goja-defect-compound-key-twice", anyMode, `
var od = []; var k = { toString() { od.push('key'); return 'p'; } }; var o = {p: 1};
o[k] += (od.push('rhs'), 1); log(od); od = [];
o[k]++; log(od);
`},
		{"goja-defect-nullish-base-key-first", anyMode, `
var od = []; var k = { toString() { od.push('key'); return 'p'; } };
try { null[k]; } catch (e) { log(e); } log(od); od = [];
try { null[k] = (od.push('rhs'), 1); } catch (e) { log(e); } log(od);
`},
	}...)
}
