package refjs

// Operations on iterator objects (7.4).

// iterRecord is an Iterator Record (7.4.1).
type iterRecord struct {
	iterator *Object
	next     Value
	done     bool
}

// callValue is 7.3.14 Call(F, V, args) for an arbitrary value F.
func (it *Interp) callValue(f Value, this Value, args []Value) Value {
	if !isCallable(f) {
		it.throwError("TypeError", "not a function")
	}
	return it.call(f.(*Object), this, args)
}

// getIterator is 7.4.3 GetIterator(obj, sync).
func (it *Interp) getIterator(obj Value) *iterRecord {
	method := it.getMethod(obj, symKey(it.realm.SymIterator))
	if method == nil {
		it.throwError("TypeError", "object is not iterable")
	}
	return it.getIteratorFromMethod(obj, method)
}

// getIteratorFromMethod is 7.4.2.
func (it *Interp) getIteratorFromMethod(obj Value, method *Object) *iterRecord {
	iterator, ok := it.call(method, obj, nil).(*Object)
	if !ok {
		it.throwError("TypeError", "Result of the Symbol.iterator method is not an object")
	}
	next := it.get(iterator, strKey("next"), iterator)
	return &iterRecord{iterator: iterator, next: next}
}

// iteratorNext is 7.4.4; hasValue distinguishes next() from next(value).
func (it *Interp) iteratorNext(rec *iterRecord, value Value, hasValue bool) *Object {
	var args []Value
	if hasValue {
		args = []Value{value}
	}
	res, ok := it.callValue(rec.next, rec.iterator, args).(*Object)
	if !ok {
		it.throwError("TypeError", "Iterator result is not an object")
	}
	return res
}

// iteratorComplete is 7.4.5; iteratorValue is 7.4.6.
func (it *Interp) iteratorComplete(res *Object) bool {
	return toBoolean(it.get(res, strKey("done"), res))
}
func (it *Interp) iteratorValue(res *Object) Value { return it.get(res, strKey("value"), res) }

// iteratorStep is 7.4.7: nil means "done".
func (it *Interp) iteratorStep(rec *iterRecord) *Object {
	res := it.iteratorNext(rec, nil, false)
	if it.iteratorComplete(res) {
		return nil
	}
	return res
}

// iteratorStepValue is 7.4.8 IteratorStepValue: it maintains rec.done, which is
// set when the iterator is exhausted or when next()/done/value throws, so that
// callers know whether IteratorClose is still due.
func (it *Interp) iteratorStepValue(rec *iterRecord) (v Value, done bool) {
	ok := false
	defer func() {
		if !ok {
			rec.done = true // abrupt completion
		}
	}()
	res := it.iteratorNext(rec, nil, false)
	if it.iteratorComplete(res) {
		rec.done = true
		ok = true
		return Undefined, true
	}
	v = it.iteratorValue(res)
	ok = true
	return v, false
}

// iteratorClose is 7.4.9 IteratorClose(iteratorRecord, completion). The
// completion is returned (possibly replaced); the caller re-raises it.
func (it *Interp) iteratorClose(rec *iterRecord, completion Completion) Completion {
	var ret *Object
	inner := it.catchAbrupt(func() Completion {
		ret = it.getMethod(rec.iterator, strKey("return"))
		if ret == nil {
			return normal(nil)
		}
		return normal(it.call(ret, rec.iterator, nil))
	})
	if inner.typ == cNormal && ret == nil {
		return completion
	}
	if completion.typ == cThrow {
		return completion
	}
	if inner.typ == cThrow {
		return inner
	}
	if inner.typ != cNormal {
		it.rethrow(inner) // an injected generator return cannot originate here; keep it travelling
	}
	if !isObject(inner.val) {
		return it.catchAbrupt(func() Completion {
			it.throwError("TypeError", "Iterator result of return() is not an object")
			return normal(nil)
		})
	}
	return completion
}

// closeAndRethrow closes the iterator for an abrupt completion travelling as a
// panic and continues the (possibly replaced) abrupt completion.
func (it *Interp) closeOnAbrupt(rec *iterRecord, c Completion) {
	c = it.iteratorClose(rec, c)
	it.rethrow(c)
}

// createIterResultObject is 7.4.14.
func (it *Interp) createIterResultObject(v Value, done bool) *Object {
	o := it.newObject(it.realm.ObjectPrototype)
	it.createDataPropertyOrThrow(o, strKey("value"), v)
	it.createDataPropertyOrThrow(o, strKey("done"), done)
	return o
}

// iterableToList is 7.4.? IteratorToList(GetIterator(items)).
func (it *Interp) iterableToList(items Value) []Value {
	rec := it.getIterator(items)
	var out []Value
	for {
		v, done := it.iteratorStepValue(rec)
		if done {
			return out
		}
		out = append(out, v)
	}
}
