package refjs

// Environment Records (9.1.1).

type Env interface {
	HasBinding(it *Interp, name string) bool
	CreateMutableBinding(it *Interp, name string, deletable bool)
	CreateImmutableBinding(it *Interp, name string, strict bool)
	InitializeBinding(it *Interp, name string, v Value)
	SetMutableBinding(it *Interp, name string, v Value, strict bool)
	GetBindingValue(it *Interp, name string, strict bool) Value
	DeleteBinding(it *Interp, name string) bool
	HasThisBinding() bool
	HasSuperBinding() bool
	WithBaseObject() Value
	Outer() Env
}

type binding struct {
	value       Value
	initialized bool
	mutable     bool
	deletable   bool
	strict      bool // immutable binding created with strict=true
}

// DeclEnv is a Declarative Environment Record (9.1.1.1).
type DeclEnv struct {
	outer   Env
	vars    map[string]*binding
	isCatch bool // the environment of a catch clause parameter (Annex B.3.4)
}

func newDeclEnv(outer Env) *DeclEnv { return &DeclEnv{outer: outer, vars: map[string]*binding{}} }

func (e *DeclEnv) Outer() Env { return e.outer }
func (e *DeclEnv) HasBinding(it *Interp, name string) bool {
	_, ok := e.vars[name]
	return ok
}
func (e *DeclEnv) CreateMutableBinding(it *Interp, name string, deletable bool) {
	if _, ok := e.vars[name]; ok {
		panic("refjs: duplicate binding " + name)
	}
	e.vars[name] = &binding{mutable: true, deletable: deletable}
}
func (e *DeclEnv) CreateImmutableBinding(it *Interp, name string, strict bool) {
	if _, ok := e.vars[name]; ok {
		panic("refjs: duplicate binding " + name)
	}
	e.vars[name] = &binding{strict: strict}
}
func (e *DeclEnv) InitializeBinding(it *Interp, name string, v Value) {
	b := e.vars[name]
	b.value = v
	b.initialized = true
}
func (e *DeclEnv) SetMutableBinding(it *Interp, name string, v Value, strict bool) {
	b, ok := e.vars[name]
	if !ok {
		if strict {
			it.throwError("ReferenceError", name+" is not defined")
		}
		e.CreateMutableBinding(it, name, true)
		e.InitializeBinding(it, name, v)
		return
	}
	if b.strict {
		strict = true
	}
	if !b.initialized {
		it.throwError("ReferenceError", "Cannot access '"+name+"' before initialization")
	}
	if b.mutable {
		b.value = v
	} else if strict {
		it.throwError("TypeError", "Assignment to constant variable '"+name+"'")
	}
}
func (e *DeclEnv) GetBindingValue(it *Interp, name string, strict bool) Value {
	b := e.vars[name]
	if !b.initialized {
		it.throwError("ReferenceError", "Cannot access '"+name+"' before initialization")
	}
	return b.value
}
func (e *DeclEnv) DeleteBinding(it *Interp, name string) bool {
	b := e.vars[name]
	if !b.deletable {
		return false
	}
	delete(e.vars, name)
	return true
}
func (e *DeclEnv) HasThisBinding() bool  { return false }
func (e *DeclEnv) HasSuperBinding() bool { return false }
func (e *DeclEnv) WithBaseObject() Value { return Undefined }

// FuncEnv is a Function Environment Record (9.1.1.3).
type FuncEnv struct {
	DeclEnv
	thisValue  Value
	thisStatus int // thisLexical, thisInitialized, thisUninitialized
	funcObj    *Object
	newTarget  Value // *Object or Undefined
}

const (
	thisLexical = iota
	thisInitialized
	thisUninitialized
)

func (e *FuncEnv) HasThisBinding() bool { return e.thisStatus != thisLexical }
func (e *FuncEnv) HasSuperBinding() bool {
	return e.thisStatus != thisLexical && e.funcObj.fn.homeObject != nil
}

// BindThisValue is 9.1.1.3.1.
func (e *FuncEnv) BindThisValue(it *Interp, v Value) {
	if e.thisStatus == thisInitialized {
		it.throwError("ReferenceError", "Super constructor may only be called once")
	}
	e.thisValue = v
	e.thisStatus = thisInitialized
}

// GetThisBinding is 9.1.1.3.4.
func (e *FuncEnv) GetThisBinding(it *Interp) Value {
	if e.thisStatus == thisUninitialized {
		it.throwError("ReferenceError", "Must call super constructor in derived class before accessing 'this'")
	}
	return e.thisValue
}

// ObjEnv is an Object Environment Record (9.1.1.2). @@unscopables is not
// observable in J0 (the symbol cannot be obtained), so it is not consulted.
type ObjEnv struct {
	outer   Env
	obj     *Object
	withEnv bool
}

func (e *ObjEnv) Outer() Env { return e.outer }
func (e *ObjEnv) HasBinding(it *Interp, name string) bool {
	return it.hasProperty(e.obj, strKey(name))
}
func (e *ObjEnv) CreateMutableBinding(it *Interp, name string, deletable bool) {
	it.definePropertyOrThrow(e.obj, strKey(name), dataDesc(Undefined, true, true, deletable))
}
func (e *ObjEnv) CreateImmutableBinding(it *Interp, name string, strict bool) {
	panic("refjs: CreateImmutableBinding on object environment")
}
func (e *ObjEnv) InitializeBinding(it *Interp, name string, v Value) {
	e.SetMutableBinding(it, name, v, false)
}
func (e *ObjEnv) SetMutableBinding(it *Interp, name string, v Value, strict bool) {
	stillExists := it.hasProperty(e.obj, strKey(name))
	if !stillExists && strict {
		it.throwError("ReferenceError", name+" is not defined")
	}
	ok := it.set(e.obj, strKey(name), v, e.obj)
	if !ok && strict {
		it.throwError("TypeError", "Cannot assign to read only property '"+name+"'")
	}
}
func (e *ObjEnv) GetBindingValue(it *Interp, name string, strict bool) Value {
	if !it.hasProperty(e.obj, strKey(name)) {
		if !strict {
			return Undefined
		}
		it.throwError("ReferenceError", name+" is not defined")
	}
	return it.get(e.obj, strKey(name), e.obj)
}
func (e *ObjEnv) DeleteBinding(it *Interp, name string) bool { return it.delete(e.obj, strKey(name)) }
func (e *ObjEnv) HasThisBinding() bool                       { return false }
func (e *ObjEnv) HasSuperBinding() bool                      { return false }
func (e *ObjEnv) WithBaseObject() Value {
	if e.withEnv {
		return e.obj
	}
	return Undefined
}

// GlobalEnv is a Global Environment Record (9.1.1.4).
type GlobalEnv struct {
	objRec   *ObjEnv
	declRec  *DeclEnv
	varNames map[string]bool
	thisVal  *Object
}

func (e *GlobalEnv) Outer() Env { return nil }
func (e *GlobalEnv) HasBinding(it *Interp, name string) bool {
	return e.declRec.HasBinding(it, name) || e.objRec.HasBinding(it, name)
}
func (e *GlobalEnv) CreateMutableBinding(it *Interp, name string, deletable bool) {
	if e.declRec.HasBinding(it, name) {
		it.throwError("TypeError", "Identifier '"+name+"' has already been declared")
	}
	e.declRec.CreateMutableBinding(it, name, deletable)
}
func (e *GlobalEnv) CreateImmutableBinding(it *Interp, name string, strict bool) {
	if e.declRec.HasBinding(it, name) {
		it.throwError("TypeError", "Identifier '"+name+"' has already been declared")
	}
	e.declRec.CreateImmutableBinding(it, name, strict)
}
func (e *GlobalEnv) InitializeBinding(it *Interp, name string, v Value) {
	if e.declRec.HasBinding(it, name) {
		e.declRec.InitializeBinding(it, name, v)
		return
	}
	e.objRec.InitializeBinding(it, name, v)
}
func (e *GlobalEnv) SetMutableBinding(it *Interp, name string, v Value, strict bool) {
	if e.declRec.HasBinding(it, name) {
		e.declRec.SetMutableBinding(it, name, v, strict)
		return
	}
	e.objRec.SetMutableBinding(it, name, v, strict)
}
func (e *GlobalEnv) GetBindingValue(it *Interp, name string, strict bool) Value {
	if e.declRec.HasBinding(it, name) {
		return e.declRec.GetBindingValue(it, name, strict)
	}
	return e.objRec.GetBindingValue(it, name, strict)
}
func (e *GlobalEnv) DeleteBinding(it *Interp, name string) bool {
	if e.declRec.HasBinding(it, name) {
		return e.declRec.DeleteBinding(it, name)
	}
	if it.getOwnProperty(e.objRec.obj, strKey(name)) != nil {
		status := e.objRec.DeleteBinding(it, name)
		if status {
			delete(e.varNames, name)
		}
		return status
	}
	return true
}
func (e *GlobalEnv) HasThisBinding() bool  { return true }
func (e *GlobalEnv) HasSuperBinding() bool { return false }
func (e *GlobalEnv) WithBaseObject() Value { return Undefined }

// 9.1.1.4.12 - 9.1.1.4.18
func (e *GlobalEnv) HasVarDeclaration(name string) bool { return e.varNames[name] }
func (e *GlobalEnv) HasLexicalDeclaration(it *Interp, name string) bool {
	return e.declRec.HasBinding(it, name)
}
func (e *GlobalEnv) HasRestrictedGlobalProperty(it *Interp, name string) bool {
	p := it.getOwnProperty(e.objRec.obj, strKey(name))
	if p == nil {
		return false
	}
	return !p.configurable
}
func (e *GlobalEnv) CanDeclareGlobalVar(it *Interp, name string) bool {
	if it.getOwnProperty(e.objRec.obj, strKey(name)) != nil {
		return true
	}
	return e.objRec.obj.extensible
}
func (e *GlobalEnv) CanDeclareGlobalFunction(it *Interp, name string) bool {
	p := it.getOwnProperty(e.objRec.obj, strKey(name))
	if p == nil {
		return e.objRec.obj.extensible
	}
	if p.configurable {
		return true
	}
	if !p.accessor && p.writable && p.enumerable {
		return true
	}
	return false
}
func (e *GlobalEnv) CreateGlobalVarBinding(it *Interp, name string, deletable bool) {
	g := e.objRec.obj
	has := it.getOwnProperty(g, strKey(name)) != nil
	if !has && g.extensible {
		e.objRec.CreateMutableBinding(it, name, deletable)
		e.objRec.InitializeBinding(it, name, Undefined)
	}
	e.varNames[name] = true
}
func (e *GlobalEnv) CreateGlobalFunctionBinding(it *Interp, name string, v Value, deletable bool) {
	g := e.objRec.obj
	p := it.getOwnProperty(g, strKey(name))
	var d PropDesc
	if p == nil || p.configurable {
		d = dataDesc(v, true, true, deletable)
	} else {
		d = PropDesc{value: v, hasValue: true}
	}
	it.definePropertyOrThrow(g, strKey(name), d)
	it.setOrThrow(g, strKey(name), v)
	e.varNames[name] = true
}

// getThisEnvironment is 9.4.3.
func getThisEnvironment(env Env) Env {
	for {
		if env.HasThisBinding() {
			return env
		}
		env = env.Outer()
	}
}

// resolveThisBinding is 9.4.4.
func (it *Interp) resolveThisBinding(env Env) Value {
	switch e := getThisEnvironment(env).(type) {
	case *FuncEnv:
		return e.GetThisBinding(it)
	case *GlobalEnv:
		return e.thisVal
	}
	panic("refjs: no this environment")
}
