package refjs

// Statement evaluation (clause 14) with Completion Records. A throw completion
// travels as a Go panic (throwSignal) and is turned back into a record only
// where the specification inspects it (try, IteratorClose); break / continue /
// return are ordinary Completion values.

// evalStatementList is 14.2.2: `Return ? UpdateEmpty(s, sl)`.
func (it *Interp) evalStatementList(list []*Node, ctx *Ctx) Completion {
	var v Value // empty
	for _, s := range list {
		c := it.evalStmt(s, ctx, nil)
		c = updateEmpty(c, v)
		if c.typ != cNormal {
			return c
		}
		v = c.val
	}
	return normal(v)
}

// blockDeclarationInstantiation is 14.2.3 (without Annex B.3.2).
func (it *Interp) blockDeclarationInstantiation(stmts []*Node, ctx *Ctx, env *DeclEnv) {
	ectx := ctx.withLex(env)
	for _, d := range lexicallyScopedDeclarations(stmts, false) {
		for _, dn := range boundNames(d) {
			if isConstDecl(d) {
				env.CreateImmutableBinding(it, dn, true)
			} else {
				env.CreateMutableBinding(it, dn, false)
			}
		}
		if d.K == "funcdecl" {
			if !ctx.strict {
				it.unsupported("function declaration in a block in sloppy mode (Annex B.3.2)")
			}
			fo := it.instantiateFunctionObject(d, ectx)
			env.InitializeBinding(it, d.S, fo)
		}
	}
}

// loopContinues is 14.7.1.1.
func loopContinues(c Completion, labelSet []string) bool {
	if c.typ == cNormal {
		return true
	}
	if c.typ != cContinue {
		return false
	}
	if c.target == "" {
		return true
	}
	return contains(labelSet, c.target)
}

// evalStmt evaluates one statement; labelSet is the label set of 14.13.4
// LabelledEvaluation (nil for an unlabelled statement).
func (it *Interp) evalStmt(n *Node, ctx *Ctx, labelSet []string) Completion {
	it.tick()
	if n == nil {
		it.unsupported("missing statement")
	}
	switch n.K {
	case "directive":
		// an ExpressionStatement consisting of a string literal
		it.checkASCII(n.S)
		return normal(n.S)
	case "empty":
		return normal(nil)
	case "expr":
		return normal(it.evalExpr(n.kid(0), ctx))
	case "block":
		if len(n.Kids) == 0 {
			return normal(nil)
		}
		env := newDeclEnv(ctx.lex)
		it.blockDeclarationInstantiation(n.Kids, ctx, env)
		return it.evalStatementList(n.Kids, ctx.withLex(env))
	case "var":
		it.evalDeclaration(n, ctx)
		return normal(nil)
	case "funcdecl":
		return normal(nil)
	case "classdecl":
		v := it.classDefinitionEvaluation(n, ctx, n.S)
		ctx.lex.InitializeBinding(it, n.S, v)
		return normal(nil)
	case "if":
		var c Completion
		if toBoolean(it.evalExpr(n.kid(0), ctx)) {
			c = it.evalStmt(n.kid(1), ctx, nil)
		} else if n.kid(2) != nil {
			c = it.evalStmt(n.kid(2), ctx, nil)
		} else {
			return normal(Undefined)
		}
		return updateEmpty(c, Undefined)
	case "dowhile", "while", "for", "forin", "forof", "switch":
		// 14.13.4 LabelledEvaluation of BreakableStatement
		var c Completion
		switch n.K {
		case "dowhile":
			c = it.doWhileLoop(n, ctx, labelSet)
		case "while":
			c = it.whileLoop(n, ctx, labelSet)
		case "for":
			c = it.forLoop(n, ctx, labelSet)
		case "forin", "forof":
			c = it.forInOfLoop(n, ctx, labelSet)
		case "switch":
			c = it.switchStatement(n, ctx)
		}
		if c.typ == cBreak && c.target == "" {
			if c.val == nil {
				return normal(Undefined)
			}
			return normal(c.val)
		}
		return c
	case "continue":
		return Completion{typ: cContinue, target: n.S}
	case "break":
		return Completion{typ: cBreak, target: n.S}
	case "return":
		if n.kid(0) == nil {
			return Completion{typ: cReturn, val: Undefined}
		}
		return Completion{typ: cReturn, val: it.evalExpr(n.kid(0), ctx)}
	case "throw":
		it.throw(it.evalExpr(n.kid(0), ctx))
	case "with":
		if ctx.strict {
			it.unsupported("with statement in strict mode code")
		}
		obj := it.toObject(it.evalExpr(n.kid(0), ctx))
		env := &ObjEnv{outer: ctx.lex, obj: obj, withEnv: true}
		c := it.evalStmt(n.kid(1), ctx.withLex(env), nil)
		return updateEmpty(c, Undefined)
	case "labeled":
		// 14.13.4 LabelledStatement
		body := n.kid(0)
		if body != nil && body.K == "funcdecl" {
			it.unsupported("labelled function declaration")
		}
		c := it.evalStmt(body, ctx, append(append([]string{}, labelSet...), n.S))
		if c.typ == cBreak && c.target == n.S {
			return normal(c.val)
		}
		return c
	case "try":
		return it.tryStatement(n, ctx)
	}
	it.unsupported("statement kind " + n.K)
	return Completion{}
}

// evalDeclaration is 14.3.1 (let/const) and 14.3.2 (var).
func (it *Interp) evalDeclaration(n *Node, ctx *Ctx) {
	for _, d := range n.Kids {
		it.tick()
		target, init := d.kid(0), d.kid(1)
		lexical := n.A != "var"
		var env Env
		if lexical {
			env = ctx.lex
		}
		m := bindMode{env: env}
		if isPattern(target) {
			if init == nil {
				it.unsupported("destructuring declaration without initialiser")
			}
			v := it.evalExpr(init, ctx)
			it.destructure(target, v, ctx, m)
			continue
		}
		if target.K != "id" {
			it.unsupported("declaration target kind " + target.K)
		}
		if init == nil {
			if lexical {
				if n.A == "const" {
					it.unsupported("const declaration without initialiser")
				}
				lhs := it.resolveLeaf(target, ctx, m)
				it.initializeReferencedBinding(lhs, Undefined)
			}
			continue
		}
		lhs := it.resolveLeaf(target, ctx, m)
		var v Value
		if isAnonymousFunctionDefinition(init) {
			v = it.namedEvaluation(init, ctx, target.S)
		} else {
			v = it.evalExpr(init, ctx)
		}
		it.storeLeaf(lhs, v, m)
	}
}

// doWhileLoop is 14.7.2.2.
func (it *Interp) doWhileLoop(n *Node, ctx *Ctx, labelSet []string) Completion {
	var v Value = Undefined
	for {
		it.tick()
		r := it.evalStmt(n.kid(0), ctx, nil)
		if !loopContinues(r, labelSet) {
			return updateEmpty(r, v)
		}
		if r.val != nil {
			v = r.val
		}
		if !toBoolean(it.evalExpr(n.kid(1), ctx)) {
			return normal(v)
		}
	}
}

// whileLoop is 14.7.3.2.
func (it *Interp) whileLoop(n *Node, ctx *Ctx, labelSet []string) Completion {
	var v Value = Undefined
	for {
		it.tick()
		if !toBoolean(it.evalExpr(n.kid(0), ctx)) {
			return normal(v)
		}
		r := it.evalStmt(n.kid(1), ctx, nil)
		if !loopContinues(r, labelSet) {
			return updateEmpty(r, v)
		}
		if r.val != nil {
			v = r.val
		}
	}
}

// forLoop is 14.7.4.2 ForLoopEvaluation.
func (it *Interp) forLoop(n *Node, ctx *Ctx, labelSet []string) Completion {
	init, test, incr, body := n.kid(0), n.kid(1), n.kid(2), n.kid(3)
	var perIteration []string
	if init != nil {
		switch {
		case init.K == "var" && init.A == "var":
			it.evalDeclaration(init, ctx)
		case init.K == "var":
			loopEnv := newDeclEnv(ctx.lex)
			isConst := init.A == "const"
			names := boundNames(init)
			for _, dn := range names {
				if isConst {
					loopEnv.CreateImmutableBinding(it, dn, true)
				} else {
					loopEnv.CreateMutableBinding(it, dn, false)
				}
			}
			ctx = ctx.withLex(loopEnv)
			it.evalDeclaration(init, ctx)
			if !isConst {
				perIteration = names
			}
		default:
			it.evalExpr(init, ctx)
		}
	}
	// 14.7.4.3 ForBodyEvaluation
	var v Value = Undefined
	ctx = it.createPerIterationEnvironment(perIteration, ctx)
	for {
		it.tick()
		if test != nil {
			if !toBoolean(it.evalExpr(test, ctx)) {
				return normal(v)
			}
		}
		r := it.evalStmt(body, ctx, nil)
		if !loopContinues(r, labelSet) {
			return updateEmpty(r, v)
		}
		if r.val != nil {
			v = r.val
		}
		ctx = it.createPerIterationEnvironment(perIteration, ctx)
		if incr != nil {
			it.evalExpr(incr, ctx)
		}
	}
}

// createPerIterationEnvironment is 14.7.4.4: a fresh copy of the let bindings
// for every iteration, so that closures capture per-iteration values.
func (it *Interp) createPerIterationEnvironment(names []string, ctx *Ctx) *Ctx {
	if len(names) == 0 {
		return ctx
	}
	last := ctx.lex
	this := newDeclEnv(last.Outer())
	for _, bn := range names {
		this.CreateMutableBinding(it, bn, false)
		this.InitializeBinding(it, bn, last.GetBindingValue(it, bn, true))
	}
	return ctx.withLex(this)
}

// forInOfLoop is 14.7.5.5 ForIn/OfLoopEvaluation: 14.7.5.6 ForIn/OfHeadEvaluation
// followed by 14.7.5.7 ForIn/OfBodyEvaluation.
func (it *Interp) forInOfLoop(n *Node, ctx *Ctx, labelSet []string) Completion {
	head, expr, body := n.kid(0), n.kid(1), n.kid(2)
	enumerate := n.K == "forin"
	lhsKind := "assignment"
	var lhs *Node = head
	if head != nil && head.K == "var" {
		if len(head.Kids) != 1 || head.Kids[0].kid(1) != nil {
			it.unsupported("for-in/of head must declare exactly one binding without initialiser")
		}
		lhs = head.Kids[0].kid(0)
		if head.A == "var" {
			lhsKind = "varBinding"
		} else {
			lhsKind = "lexicalBinding"
		}
	}
	// ---- head ----
	hctx := ctx
	if lhsKind == "lexicalBinding" {
		// TDZ environment for the evaluation of the expression
		tdz := newDeclEnv(ctx.lex)
		for _, name := range boundNames(lhs) {
			tdz.CreateMutableBinding(it, name, false)
		}
		hctx = ctx.withLex(tdz)
	}
	exprValue := it.evalExpr(expr, hctx)
	var next func() (Value, bool) // value, done
	var rec *iterRecord
	if enumerate {
		if isNullish(exprValue) {
			// Completion { break, empty, empty } -> the loop completes with undefined
			return Completion{typ: cBreak}
		}
		obj := it.toObject(exprValue)
		fi := &forInIterator{object: obj}
		next = func() (Value, bool) { return fi.next(it) }
	} else {
		rec = it.getIterator(exprValue)
		next = func() (Value, bool) {
			res := it.iteratorNext(rec, nil, false)
			if it.iteratorComplete(res) {
				return nil, true
			}
			return it.iteratorValue(res), false
		}
	}
	// ---- body ----
	var v Value = Undefined
	destructuring := isPattern(lhs)
	for {
		it.tick()
		nextValue, done := next()
		if done {
			return normal(v)
		}
		ictx := ctx
		status := it.catchAbrupt(func() Completion {
			switch lhsKind {
			case "lexicalBinding":
				iterationEnv := newDeclEnv(ctx.lex)
				for _, name := range boundNames(lhs) {
					if head.A == "const" {
						iterationEnv.CreateImmutableBinding(it, name, true)
					} else {
						iterationEnv.CreateMutableBinding(it, name, false)
					}
				}
				ictx = ctx.withLex(iterationEnv)
				it.bindingInitialization(lhs, nextValue, ictx, iterationEnv)
			case "varBinding":
				it.bindingInitialization(lhs, nextValue, ctx, nil)
			default:
				if destructuring {
					it.destructuringAssignment(lhs, nextValue, ctx)
				} else {
					r := it.evalLeafTargetRef(lhs, ctx)
					it.putValue(r, nextValue)
				}
			}
			return normal(nil)
		})
		if status.typ != cNormal {
			if !enumerate {
				status = it.iteratorClose(rec, status)
			}
			it.raiseThrow(status)
			return status
		}
		result := it.catchAbrupt(func() Completion { return it.evalStmt(body, ictx, nil) })
		if !loopContinues(result, labelSet) {
			status := updateEmpty(result, v)
			if !enumerate {
				status = it.iteratorClose(rec, status)
			}
			it.raiseThrow(status)
			return status
		}
		if result.val != nil {
			v = result.val
		}
	}
}

// forInIterator is 14.7.5.10 (%ForInIteratorPrototype%.next), the reference
// enumeration order of 14.7.5.9 EnumerateObjectProperties.
type forInIterator struct {
	object    *Object
	visited   bool
	visitedKs map[string]bool
	remaining []string
}

func (fi *forInIterator) next(it *Interp) (Value, bool) {
	if fi.visitedKs == nil {
		fi.visitedKs = map[string]bool{}
	}
	for {
		it.tick()
		if fi.object == nil {
			return nil, true
		}
		if !fi.visited {
			for _, k := range it.ownKeys(fi.object) {
				if k.sym == nil {
					fi.remaining = append(fi.remaining, k.str)
				}
			}
			fi.visited = true
		}
		for len(fi.remaining) > 0 {
			r := fi.remaining[0]
			fi.remaining = fi.remaining[1:]
			if !fi.visitedKs[r] {
				desc := it.getOwnProperty(fi.object, strKey(r))
				if desc != nil {
					fi.visitedKs[r] = true
					if desc.enumerable {
						return r, false
					}
				}
			}
		}
		fi.object = fi.object.proto
		fi.visited = false
	}
}

// switchStatement is 14.12.4 with 14.12.2 CaseBlockEvaluation.
func (it *Interp) switchStatement(n *Node, ctx *Ctx) Completion {
	input := it.evalExpr(n.kid(0), ctx)
	env := newDeclEnv(ctx.lex)
	it.blockDeclarationInstantiation(caseBlockStatements(n), ctx, env)
	ctx = ctx.withLex(env)
	clauses := n.kidsFrom(1)
	defIdx := -1
	for i, c := range clauses {
		if c.kid(0) == nil {
			if defIdx >= 0 {
				it.unsupported("switch with two default clauses")
			}
			defIdx = i
		}
	}
	selected := func(c *Node) bool {
		return strictEquals(input, it.evalExpr(c.kid(0), ctx))
	}
	var v Value = Undefined
	// run evaluates clause c and folds its completion into v; abrupt => stop
	run := func(c *Node) (Completion, bool) {
		r := it.evalStatementList(c.kidsFrom(1), ctx)
		if r.val != nil {
			v = r.val
		}
		if r.typ != cNormal {
			return updateEmpty(r, v), true
		}
		return r, false
	}
	a := clauses
	var b []*Node
	if defIdx >= 0 {
		a = clauses[:defIdx]
		b = clauses[defIdx+1:]
	}
	found := false
	for _, c := range a {
		if !found {
			found = selected(c)
		}
		if found {
			if r, abrupt := run(c); abrupt {
				return r
			}
		}
	}
	if defIdx < 0 {
		return normal(v)
	}
	foundInB := false
	if !found {
		for _, c := range b {
			if !foundInB {
				foundInB = selected(c)
			}
			if foundInB {
				if r, abrupt := run(c); abrupt {
					return r
				}
			}
		}
	}
	if foundInB {
		return normal(v)
	}
	if r, abrupt := run(clauses[defIdx]); abrupt {
		return r
	}
	// another complete pass over the clauses after the default clause
	for _, c := range b {
		if r, abrupt := run(c); abrupt {
			return r
		}
	}
	return normal(v)
}

// tryStatement is 14.15.3.
func (it *Interp) tryStatement(n *Node, ctx *Ctx) Completion {
	block, param, handler, finalizer := n.kid(0), n.kid(1), n.kid(2), n.kid(3)
	if handler == nil && finalizer == nil {
		it.unsupported("try without catch or finally")
	}
	c := it.catchAbrupt(func() Completion { return it.evalStmt(block, ctx, nil) })
	if handler != nil && c.typ == cThrow {
		thrown := c.val
		c = it.catchAbrupt(func() Completion {
			// 14.15.2 CatchClauseEvaluation
			if param == nil {
				return it.evalStmt(handler, ctx, nil)
			}
			catchEnv := newDeclEnv(ctx.lex)
			catchEnv.isCatch = true
			for _, name := range boundNames(param) {
				catchEnv.CreateMutableBinding(it, name, false)
			}
			cctx := ctx.withLex(catchEnv)
			it.bindingInitialization(param, thrown, cctx, catchEnv)
			return it.evalStmt(handler, cctx, nil)
		})
	}
	if finalizer != nil {
		f := it.evalStmt(finalizer, ctx, nil) // an abrupt F (also a thrown one) replaces C
		if f.typ != cNormal {
			return updateEmpty(f, Undefined)
		}
	}
	c = updateEmpty(c, Undefined)
	it.raiseThrow(c)
	return c
}
