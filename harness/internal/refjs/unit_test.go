package refjs_test

import (
	"runtime"
	"strings"
	"testing"
	"time"

	"pgregory.net/rapid"

	. "verifh/internal/refjs"
	"verifh/internal/refjs/gojarun"
)

func TestFuel(t *testing.T) {
	for _, src := range []string{
		`while (true) {}`,
		`function f() { return f(); } f();`,
		`var s = 'a'; while (true) s += s;`,
		`var a = []; a.length = 4000000000; a.forEach(function() {});`,
		`function* g() { while (true) yield 1; } for (var x of g()) {}`,
		`async function f() { while (true) await 0; } f();`,
		`Promise.resolve().then(function loop() { Promise.resolve().then(loop); });`,
	} {
		obs := Run(JS(src), Options{MaxSteps: 5000})
		if !obs.Fuel {
			t.Errorf("%s: expected Fuel, got %v", src, obs)
		}
	}
}

func TestUnsupported(t *testing.T) {
	for _, c := range []struct{ src, want string }{
		{`new Map();`, "Map"},
		{`[1, 2].reverse();`, "reverse"},
		{`JSON.stringify(1);`, "JSON"},
		{`'' + function() {};`, "Function.prototype.toString"},
		{`({}).__proto__;`, "__proto__"},
		{`var o = {__proto__: null};`, "__proto__"},
		{`Symbol.toPrimitive;`, "toPrimitive"},
		{`new Array(3);`, "Array constructor"},
		{`'use strict'; with ({}) {}`, "with"},
		{`let a; let a;`, "duplicate"},
		{`let b; var b;`, "clashes"},
		{`break;`, "break"},
		{`L: L: ;`, "duplicate label"},
		{`function f(a, a) { 'use strict'; }`, "duplicate parameter"},
		{`if (1) function f() {}`, "sub-statement"},
		{`{ function g() {} }`, "Annex B"},
		{`'use strict'; delete x;`, "delete"},
		{`(function() { yield; });`, ""}, // `yield` is an identifier here: reserved in J0
		{`class A { constructor() {} constructor() {} }`, "constructor"},
		{`new.target;`, "new.target"},
		{`typeof parseInt;`, "parseInt"},
		{`(1).toString(2);`, "radix"},
		{`new Number(1);`, "new Number"},
		{`Object.prototype.toString.call(globalThis);`, "global object"},
		{`"é";`, "non-ASCII"},
	} {
		var prog *Node
		func() {
			defer func() {
				if r := recover(); r != nil {
					prog = nil // goja's parser rejects it: nothing to check
				}
			}()
			prog = JS(c.src)
		}()
		if prog == nil {
			continue
		}
		obs := Run(prog, Options{})
		if obs.Unsupported == "" || !strings.Contains(obs.Unsupported, c.want) {
			t.Errorf("%s: expected Unsupported containing %q, got %v", c.src, c.want, obs)
		}
	}
	if obs := Run(&Node{K: "block"}, Options{}); obs.Unsupported == "" {
		t.Errorf("non-program root accepted")
	}
	if obs := Run(Program(ExprStmt(&Node{K: "frob"})), Options{}); obs.Unsupported == "" {
		t.Errorf("unknown node kind accepted")
	}
}

// TestNoGoroutineLeak: suspended generators and never-resumed async functions
// must not outlive Run.
func TestNoGoroutineLeak(t *testing.T) {
	src := `
function* g() { try { yield 1; yield 2; } finally { log('never logged by dispose'); } }
var keep = []; for (var i = 0; i < 50; i++) { var it = g(); it.next(); keep.push(it); }
async function stuck() { await new Promise(function() {}); log('never'); } for (var j = 0; j < 50; j++) stuck();
function* outer() { yield* g(); } var o = outer(); o.next();
log('end');`
	prog := JS(src)
	before := runtime.NumGoroutine()
	for i := 0; i < 20; i++ {
		obs := Run(prog, Options{})
		if len(obs.Log) != 1 || obs.Log[0] != `"end"` {
			t.Fatalf("unexpected observation %v", obs)
		}
	}
	// also when the run is abandoned for fuel from inside a coroutine
	Run(JS(`function* h() { yield 1; while (true) {} } var it = h(); it.next(); var it2 = h(); it2.next(); it.next();`), Options{MaxSteps: 3000})
	Run(JS(`function* h() { yield 1; new Map(); } var it = h(); it.next(); var it2 = h(); it2.next(); it.next();`), Options{})
	deadline := time.Now().Add(2 * time.Second)
	for runtime.NumGoroutine() > before && time.Now().Before(deadline) {
		time.Sleep(10 * time.Millisecond)
	}
	if after := runtime.NumGoroutine(); after > before {
		t.Errorf("goroutines leaked: %d before, %d after", before, after)
	}
}

// TestDescribeAgreement feeds assorted values through both describe implementations.
func TestDescribeAgreement(t *testing.T) {
	src := `
var deep = {l1: {l2: {l3: {l4: {l5: {l6: 1}}}}}, arr: [[[[[[1]]]]]]};
var big = []; for (var i = 0; i < 70; i++) big.push(i);
var cyc = {}; cyc.me = cyc; cyc.list = [cyc, {inner: cyc}];
var acc = {get g() { throw new Error('must not run'); }, set s(v) {}, plain: 1};
var arrAcc = [1, 2]; Object.defineProperty(arrAcc, 0, {get() { throw new Error('must not run'); }});
var hidden = {}; Object.defineProperty(hidden, 'h', {value: 1}); hidden.v = 2;
var sparse = [, 1, , ]; sparse[6] = 'x';
function* g() {} async function af() {} class C {} class D extends C {}
var vals = [undefined, null, true, false, 0, -0, 1.5, -1e21, NaN, Infinity, 'str', 'q"\\\n\t\u0001', Symbol('d'), Symbol(), function() {}, () => 1, g, af, C, D, g(), af(), Promise.resolve(1),
  new Error('m'), new TypeError(), new (class X extends RangeError {})(), Object.create(Error.prototype), Object.create(null), Object.create({inherited: 1}),
  deep, big, cyc, acc, arrAcc, hidden, sparse, [], {}, [[]], {a: {}}, new C(), new D(), Object('s'), Object(1), globalThis.Math, (function() { return arguments; })(1, 2), Object.freeze([1]), {'key with space': 1, 1: 'one', '': 'empty'}];
for (var v of vals) log(v);
log(describe(vals) === describe(vals)); log(describe('x')); log(typeof describe({}));
`
	prog := JS(src)
	for _, opt := range optionsFor(0) {
		if d, skipped := compare("describe", prog, opt); d != nil || skipped != "" {
			t.Errorf("%v %s", d, skipped)
		}
	}
}

// TestGlobalObjectRendering: only the program's own globals are enumerable.
func TestGlobalObjectRendering(t *testing.T) {
	prog := JS(`var gv = 1; function gf() {} let hidden = 2; log(this); log(globalThis);`)
	if d, skipped := compare("global", prog, Options{}); d != nil || skipped != "" {
		t.Errorf("%v %s", d, skipped)
	}
}

func TestGojaRunHostErrors(t *testing.T) {
	if r := gojarun.Run("var = ;", 0, 0); r.HostError == "" && r.Exception == "" {
		t.Errorf("syntax error not reported: %+v", r)
	}
	if r := gojarun.Run("while (true) {}", 200*time.Millisecond, 0); r.HostError == "" {
		t.Errorf("timeout not reported: %+v", r)
	}
}

// TestMalformedAST: arbitrary node soup must be declined (or run), never crash or hang.
func TestMalformedAST(t *testing.T) {
	kinds := []string{"program", "directive", "block", "empty", "expr", "if", "for", "forin", "forof", "while", "dowhile",
		"continue", "break", "return", "throw", "try", "switch", "case", "labeled", "with", "var", "declarator", "funcdecl",
		"classdecl", "num", "str", "bool", "null", "id", "this", "tmpl", "arr", "obj", "prop", "func", "params", "class",
		"member", "dot", "idx", "call", "new", "spread", "unary", "update", "bin", "logical", "cond", "assign", "seq", "yield",
		"await", "eval", "superdot", "superidx", "supercall", "newtarget", "paren", "arrpat", "objpat", "patprop", "default", "rest", "bogus"}
	strs := []string{"", "a", "x", "+", "=", "var", "let", "function", "method", "get", "init", "static", "++", "&&", "typeof", "L"}
	var gen func(t *rapid.T, depth int) *Node
	gen = func(t *rapid.T, depth int) *Node {
		if rapid.IntRange(0, 9).Draw(t, "nil") == 0 {
			return nil
		}
		n := &Node{K: rapid.SampledFrom(kinds).Draw(t, "k"), S: rapid.SampledFrom(strs).Draw(t, "s"), A: rapid.SampledFrom(strs).Draw(t, "a"), B: rapid.Bool().Draw(t, "b"), N: float64(rapid.IntRange(0, 3).Draw(t, "n"))}
		if depth < 4 {
			for i, k := 0, rapid.IntRange(0, 4).Draw(t, "nk"); i < k; i++ {
				n.Kids = append(n.Kids, gen(t, depth+1))
			}
		}
		return n
	}
	rapid.Check(t, func(t *rapid.T) {
		var stmts []*Node
		for i, k := 0, rapid.IntRange(0, 4).Draw(t, "ns"); i < k; i++ {
			stmts = append(stmts, gen(t, 0))
		}
		obs := Run(Program(stmts...), Options{MaxSteps: 2000, Strict: rapid.Bool().Draw(t, "strict")})
		if strings.HasPrefix(obs.Unsupported, "refjs internal error") {
			t.Fatalf("internal error on malformed AST: %s\n%s", obs.Unsupported, Print(Program(stmts...)))
		}
		_ = Print(Program(stmts...)) // the printer must not crash either
	})
}
