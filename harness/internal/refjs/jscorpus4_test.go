package refjs_test

func init() {
	jsCorpus = append(jsCorpus, []jsCase{
		{"object-literals", anyMode, `
var a = 1, k = 'dyn', sy = Symbol('s');
var o = { a, b: 2, [k + '1']: 3, 4: 'four', 'quoted key': 5, m() { return this.b; }, get g() { return 'G'; }, set g(v) { log('set ' + v); }, [sy]: 6, ...{s1: 1, s2: 2}, ...null, ...'hi', ...[9] };
log(o); log(o.m()); log(o.g); o.g = 7; log(Object.keys(o)); log(Object.getOwnPropertyNames(o)); log(o[sy]);
log(Object.getOwnPropertyDescriptor(o, 'g')); log(Object.getOwnPropertyDescriptor(o, 'm')); log(o.m.name); log(Object.getOwnPropertyDescriptor(o, 'g').get.name);
var ord = {b: 1, 2: 1, a: 1, 1: 1, [Symbol()]: 1, '-1': 1, '01': 1, 4294967294: 1, 4294967295: 1}; log(Object.keys(ord));
var dup = {x: 1, x: 2, get x() { return 3; }}; log(Object.getOwnPropertyDescriptor(dup, 'x'));
var fnames = {f: function() {}, g: () => {}, h: class {}, i: function named() {}, [sy]: function() {}, ['c' + 1]: () => {}}; log([fnames.f.name, fnames.g.name, fnames.h.name, fnames.i.name, fnames[sy].name, fnames.c1.name]);
var spreadGetter = {...{get z() { log('getter run'); return 1; }}}; log(Object.getOwnPropertyDescriptor(spreadGetter, 'z'));
`},
		{"accessors-proto", anyMode, `
var proto = { get v() { return this._v * 2; }, set v(x) { this._v = x; }, ro: 1 };
Object.defineProperty(proto, 'ro', {writable: false});
var o = Object.create(proto); o.v = 5; log(o.v); log(o); log(Object.keys(o));
try { o.ro = 2; log('silent'); } catch (e) { log(e); } log(o.ro); log(o.hasOwnProperty('ro'));
var g = { get only() { return 1; } }; var h = Object.create(g); try { h.only = 2; log('silent'); } catch (e) { log(e); } log(h.only);
Object.defineProperty(o, 'hidden', {value: 1, enumerable: false}); log(o); log(o.hidden); log(Object.getOwnPropertyNames(o));
try { Object.defineProperty(o, 'bad', {get() {}, value: 1}); } catch (e) { log(e); }
try { Object.defineProperty(1, 'x', {}); } catch (e) { log(e); }
var nc = {}; Object.defineProperty(nc, 'p', {value: 1}); try { Object.defineProperty(nc, 'p', {value: 2}); } catch (e) { log(e); } Object.defineProperty(nc, 'p', {value: 1}); log(Object.getOwnPropertyDescriptor(nc, 'p'));
log(Object.getPrototypeOf(o) === proto); log(Object.getPrototypeOf(Object.prototype)); Object.setPrototypeOf(o, null); log(o.v); log(typeof o.hasOwnProperty);
try { Object.setPrototypeOf(proto, Object.create(proto)); } catch (e) { log(e); }
log(Object.isFrozen(Object.freeze([1, 2]))); log(Object.isFrozen({})); log(Object.isFrozen(1)); var fz = Object.freeze({a: {b: 1}}); fz.a.b = 2; log(fz);
log(Object.entries({a: 1, b: [2]})); log(Object.values('ab')); log(Object.keys([4, 5])); 
log(Object.prototype.toString.call([])); log(Object.prototype.toString.call(null)); log(Object.prototype.toString.call(function() {})); log(Object.prototype.toString.call(new Error('x'))); log(Object.prototype.toString.call(1)); log(({}).toString()); (function() { log(Object.prototype.toString.call(arguments)); })();
log(({}).valueOf() instanceof Object); log(Object(1) instanceof Object); log(typeof Object(1)); log(typeof Object('s')); log(Object(null)); var same = {}; log(Object(same) === same);
`},
		{"arrays", anyMode, `
var a = [1, 2, 3]; a[5] = 6; log(a); log(a.length); a.length = 2; log(a); a.length = 4; log(a); log(a.push(7, 8)); log(a.pop()); log(a);
log([].pop()); log([1, 2, 3].join()); log([1, null, undefined, [2, 3]].join('-')); log([1, , 3].join()); 
log([1, 2, 3, 4, 5].slice(1, -1)); log([1, 2, 3].slice(-2)); log([1, 2, 3].slice()); log([1, , 3].slice(0)); log([1, 2].concat(3, [4, [5]], 'ab')); log([1, , 2].concat([, 3]));
log([1, 2, 3, 2].indexOf(2)); log([1, 2, 3, 2].indexOf(2, 2)); log([1, 2].indexOf(2, -1)); log([NaN].indexOf(NaN)); log([, 1].indexOf(undefined)); log(['1'].indexOf(1));
var r = []; [1, , 3].forEach(function(v, i, arr) { r.push([v, i, arr.length, this.t]); }, {t: 'T'}); log(r);
log([1, 2, 3].map(x => x * 2)); log([1, , 3].map(x => x * 2)); log([1, 2, 3, 4].filter(x => x % 2)); log([1, 2, 3].reduce((a, b) => a + b)); log([1, 2, 3].reduce((a, b) => a + b, 10)); log([].reduce((a, b) => a + b, 'init'));
try { [].reduce((a, b) => a + b); } catch (e) { log(e); } try { [1].map(1); } catch (e) { log(e); } try { [, ,].reduce((a, b) => a); } catch (e) { log(e); }
log(Array.isArray([])); log(Array.isArray({length: 0})); log(Array.from('abc')); log(Array.from([1, 2], x => x + 1)); log(Array.from({length: 2, 0: 'a', 1: 'b'})); log(Array.from({length: 2}, (v, i) => i));
log([...[1, 2].keys()]); log([...[1, 2].entries()]); log([...['a', , 'c'].values()]); var itr = [1, 2][Symbol.iterator](); log(itr.next()); log(itr.next()); log(itr.next()); log(itr.next()); log(itr[Symbol.iterator]() === itr);
var grow = [1, 2]; var seen = []; for (var v of grow) { seen.push(v); if (seen.length < 4) grow.push(v * 10); } log(seen);
var m = [1, 2, 3]; m.forEach((v, i) => { if (i == 0) m.pop(); seen.push(v); }); log(seen);
try { [].length = -1; } catch (e) { log(e); } try { var big = []; big.length = 4294967296; } catch (e) { log(e); } var sp = []; sp[4294967295] = 1; log(sp.length); log(Object.keys(sp));
var al = {length: 2, 0: 'x', 1: 'y'}; log(Array.prototype.join.call(al, '+')); log(Array.prototype.map.call('ab', c => c + c)); Array.prototype.push.call(al, 'z'); log(al);
log([3, 4].toString()); log(String([1, [2, 3]])); log([] + 1); log([[]] == 0);
var nested = [[1, [2, [3, [4, [5, [6]]]]]]]; log(nested); var cyc = [1]; cyc.push(cyc); log(cyc); var co = {}; co.self = co; co.arr = [co]; log(co);
var h = [1, 2, 3]; h.foo = 'bar'; log(h); log(Object.keys(h)); delete h[0]; log(h); log(0 in h);
Object.defineProperty(h, 1, {get() { return 'g'; }}); log(h); log(h[1]);
`},
		{"array-species-constructor", anyMode, `
var a = [1, 2, 3]; a.constructor = undefined; log(a.map(x => x)); a.constructor = {}; log(a.slice(1)); 
a.constructor = 5; try { a.map(x => x); } catch (e) { log(e); } a.constructor = function() {}; log(a.filter(x => x > 1));
function Ctor(n) { this.n = n; } var b = [1, 2]; b.constructor = {}; b.constructor[Symbol.iterator] = 1; log(Array.isArray(b.concat([3])));
log(Array.from.call(Ctor, [7, 8])); log(Array.from.call(Ctor, {length: 1, 0: 'q'})); log(Array.from.call({}, [1]));
`},
		{"strings", anyMode, `
var s = 'hello'; log(s.length); log(s[1]); log(s[9]); log(s.charAt(0)); log(s.charAt(9)); log(s.charAt(-1)); log(s.charAt('1')); log(s.indexOf('l')); log(s.indexOf('l', 3)); log(s.indexOf('')); log(s.indexOf('', 9)); log(s.indexOf('z')); log(s.indexOf('l', -5));
log(s.slice(1, 3)); log(s.slice(-3)); log(s.slice(2, -1)); log(s.slice(3, 1)); log(s.slice()); log(s.toUpperCase()); log('a1-z'.toUpperCase());
log([...s]); log(Object.keys(s)); log('length' in Object(s)); for (var i in 'ab') log(i); log(String(123)); log(String(null)); log(String()); log(String(undefined)); log(String([1, 2])); log(String({})); log(String(Symbol('q')));
log('abc' < 'abd'); log('a' + 1 + 2); log(1 + 2 + 'a'); log('5' * '2'); log('b' > 'a'); log('' + -0); log(String(-0)); log(` + "`${-0}`" + `); log([-0] + '');
log(String.prototype.charAt.call(12345, 2)); try { String.prototype.charAt.call(null, 0); } catch (e) { log(e); } log(s.toString()); log(s.valueOf()); log(typeof Object(s).valueOf());
log(Number('12')); log(Number('')); log(Number(' 12 ')); log(Number('1e3')); log(Number('0x1f')); log(Number('0b101')); log(Number('0o17')); log(Number('1.5.5')); log(Number('Infinity')); log(Number('-Infinity')); log(Number('infinity')); log(Number('.5')); log(Number('5.')); log(Number('+5')); log(Number('1e')); log(Number('0x')); log(Number(null)); log(Number(undefined)); log(Number(true)); log(Number([])); log(Number([7])); log(Number([1, 2])); log(Number({})); log(Number()); log(Number('-0')); log(Number('12px'));
log(Boolean('')); log(Boolean('0')); log(Boolean(0)); log(Boolean(NaN)); log(Boolean({})); log(Boolean([])); log(Boolean(null)); log(Boolean()); 
log((5).toString()); log((1.5).toString()); log((255).toString(10)); log(true.toString()); log((1e21).toString()); log((1e-7).toString()); log((123456789012345680000).toString()); log((0.000001).toString()); log(1 / 3 + ''); log(100 + ''); log((-1.5e-10) + '');
log(isNaN('a')); log(isNaN('1')); log(isNaN(undefined)); log(isNaN(null)); log(Math.max(1, '3', 2)); log(Math.max()); log(Math.min()); log(Math.max(1, NaN)); log(Math.max(-0, 0)); log(Math.min(0, -0)); log(Math.floor(-1.5)); log(Math.floor('2.7')); log(Math.abs(-3)); log(Math.abs('-0')); log(Math.floor(-0));
`},
		{"functions-props", anyMode, `
function f(a, b) {} var g = function(x) {}; var h = (x, y, z) => {}; var named = function nm() { return typeof nm; };
log([f.name, f.length, g.name, g.length, h.name, h.length, named.name, named()]); log(typeof f.prototype); log(f.prototype.constructor === f); log(h.prototype); log(Object.getOwnPropertyNames(f)); log(Object.getOwnPropertyNames(h));
log(Object.getOwnPropertyDescriptor(f, 'name')); log(Object.getOwnPropertyDescriptor(f, 'length')); log(Object.getOwnPropertyDescriptor(f, 'prototype'));
function* gen() {} async function asf() {} log(Object.getOwnPropertyNames(gen)); log(Object.getOwnPropertyNames(asf)); log(typeof gen.prototype); log(asf.prototype); log(Object.getOwnPropertyDescriptor(gen, 'prototype'));
var o = { m() {}, get a() { return 1; }, *gm() {}, async am() {} }; log(Object.getOwnPropertyNames(o.m)); log(o.m.prototype); log(Object.getOwnPropertyNames(o.gm)); try { new o.m(); } catch (e) { log(e); } try { new h(); } catch (e) { log(e); } try { new gen(); } catch (e) { log(e); } try { new asf(); } catch (e) { log(e); }
var inst = new f(); log(inst instanceof f); log(Object.getPrototypeOf(inst) === f.prototype); function R() { return {r: 1}; } log(new R()); function P() { this.p = 1; return 5; } log(new P());
function NT() { return new.target; } log(NT() === undefined); log(new NT() === NT); var arrowNT = function() { return (() => new.target)(); }; log(arrowNT() === undefined); log(typeof new arrowNT());
log(f.call.length); log(typeof f.apply); log((function() { return [this, arguments.length]; }).apply({t: 1}, [1, 2, 3])); log((function(a) { return a; }).apply(null, {length: 1, 0: 'al'})); try { f.apply(null, 1); } catch (e) { log(e); } log((function() { return arguments.length; }).apply(null, null)); log((function() { return arguments.length; }).call());
try { (void 0)(); } catch (e) { log(e); } try { var no = {}; no.meth(); } catch (e) { log(e); } try { null.x; } catch (e) { log(e); } try { (1)(); } catch (e) { log(e); }
var ev = []; function tr(n) { ev.push(n); return n; } try { tr(0)(tr(1), tr(2)); } catch (e) { log(e); } log(ev); ev = []; try { no[tr('k')](tr('a')); } catch (e) { log(e); } log(ev);
var rec = function fact(n) { return n <= 1 ? 1 : n * fact(n - 1); }; log(rec(5)); var keep = rec; rec = null; log(keep(4));
log((function() { return typeof this; }).call(1)); log((function() { 'use strict'; return typeof this; }).call(1)); log((() => 1)()); log((function(a, b = 2, ...c) {}).length);
f.prototype = {custom: 1}; log(new f().custom); f.prototype = 3; log(Object.getPrototypeOf(new f()) === Object.prototype);
`},
		{"with-statement", sloppyOnly, `
var o = {a: 1, b: 2}; var a = 'outer', c = 'c';
with (o) { log(a); log(c); a = 10; c = 'changed'; var b = 20; var d = 30; log(typeof d); }
log(o); log(a); log(c); log(b); log(d);
with (o) { var fx = function() { return a; }; } o.a = 'late'; log(fx());
with ({m() { return this.tag; }, tag: 'T'}) { log(m()); }
var p = {x: 1}; with (p) { delete p.x; try { log(x); } catch (e) { log(e); } x = 5; } log(p); log(typeof x);
with ({toString: () => 'custom'}) { log(toString()); }
function fw(obj) { with (obj) { return function() { return v; }; } } log(fw({v: 'closure'})());
with ([1, 2]) { log(length); log(join('-')); }
try { with (null) {} } catch (e) { log(e); } with (5) { log(typeof toString); } 
var shadow = 'g'; with ({shadow: 's'}) { let shadow = 'l'; log(shadow); } with ({}) { var hoist = 1; } log(hoist);
var u = {y: undefined}; with (u) { y = 1; } log(u); with (u) { typeof zz; log(typeof zz); }
var getter = { get gg() { log('get'); return 1; } }; with (getter) { gg; gg++; } 
`},
		{"eval-scoping", anyMode, `
function f() { var l = 1; eval("var ev = l + 1; l = 10; let hidden = 5; function ef() { return 'ef'; }"); return [l, typeof ev, typeof hidden, typeof ef]; } log(f());
function g(x) { return eval("x * 2"); } log(g(4)); log(eval("1 + 1")); var ge = 'global'; function h() { var ge = 'local'; return eval("ge"); } log(h());
function k() { eval("var a1 = 1;"); { eval("var a2 = 2;"); } return [typeof a1, typeof a2]; } log(k());
function tt() { return eval("this") === this; } log(tt()); log(tt.call({}));
function cl() { let lx = 1; try { eval("var lx = 2;"); } catch (e) { return e; } return 'no error'; } log(cl());
function nested() { var v = 'v'; return eval("eval('v + 1')"); } log(nested());
function ec() { return eval("1; if (false) { 2; }"); } log(ec()); log(eval("var noval;")); log(eval("{}")); log(eval("3; do { } while (false)")); log(eval("4; try { } finally { }"));
function st() { 'use strict'; eval("var sv = 1;"); return typeof sv; } log(st());
function se() { eval("'use strict'; var sv2 = 1;"); return typeof sv2; } log(se());
function fnd() { var r = eval("function decl() { return 1; } typeof decl"); return [r, typeof decl]; } log(fnd());
function thr() { try { eval("throw new RangeError('x')"); } catch (e) { return e; } } log(thr());
`},
		{"eval-arguments-sloppy", sloppyOnly, `function arg() { return eval("arguments[0]"); } log(arg('A'));`},
		{"goja-defect-strict-eval-arguments", strictOnly, `function arg() { return eval("arguments[0]"); } log(arg('A'));`},
		{"eval-sloppy-delete", sloppyOnly, `function delv() { eval("var dv = 1;"); return [delete dv, typeof dv]; } log(delv()); eval("var gdv = 1;"); log(delete gdv); log(typeof gdv);`},
	}...)
}
