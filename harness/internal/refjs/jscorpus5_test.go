package refjs_test

// mkIter is a JS prelude for instrumented iterators used by several cases.
const mkIter = `
function mkIter(name, vals, opts) {
  opts = opts || {};
  var i = 0;
  var it = {
    next(v) { log(name + '.next(' + describe(v) + ')'); if (opts.nextThrows === i) throw new RangeError(name + ' next'); if (opts.nextNonObject === i) return 5; if (i < vals.length) return {value: vals[i++], done: false}; return {value: opts.ret, done: true}; }
  };
  if (!opts.noReturn) it.return = function(v) { log(name + '.return(' + describe(v) + ')'); if (opts.returnThrows) throw new SyntaxError(name + ' return'); if (opts.returnNonObject) return 1; return {value: 'r', done: true}; };
  if (opts.withThrow) it.throw = function(v) { log(name + '.throw(' + describe(v) + ')'); if (opts.throwDone) return {value: 'td', done: true}; if (opts.throwRethrow) throw v; return {value: 'tv', done: false}; };
  return { [Symbol.iterator]() { log(name + '.iter'); return it; } };
}
`

func init() {
	jsCorpus = append(jsCorpus, []jsCase{
		{"loops-labels", anyMode, `
var r = []; outer: for (var i = 0; i < 3; i++) { inner: for (var j = 0; j < 3; j++) { if (j == 1) continue outer; if (i == 2) break outer; r.push([i, j]); } } log(r);
var n = 0; do { n++; if (n == 2) continue; if (n > 3) break; } while (n < 10); log(n);
var w = 0; while (true) { if (++w > 4) break; } log(w); blk: { log('in'); if (w) break blk; log('skipped'); } 
a: b: for (;;) { break a; } x: y: for (var q = 0; q < 2; q++) { continue y; } log(q);
for (var e = 0, f = 10; e < f; e += 4, f -= 1); log([e, f]); for (;;) { break; } var cnt = 0; for (let i = 0; i < 3; i++) { i++; cnt++; } log(cnt);
lab: if (true) { break lab; } sw: switch (1) { case 1: for (;;) { break sw; } } log('done');
var fs = []; for (let i = 0, j = 10; i < 3; i++, j--) { fs.push(() => [i, j]); i += 0; } log(fs.map(f => f()));
var gs = []; for (let i = 0; i < 3; gs.push(() => i), i++); log(gs.map(f => f()));
var hs = []; for (let i = 0; hs.push(() => i), i < 2; i++); log(hs.map(f => f()));
for (const c = 1; ;) { log(c); break; } try { for (const c2 = 0; c2 < 2; c2++) { log('body'); } } catch (e) { log(e); }
`},
		{"for-in", anyMode, `
var proto = {p1: 1, p2: 2}; var o = Object.create(proto); o.a = 1; o[2] = 'two'; o.b = 2; o[1] = 'one'; Object.defineProperty(o, 'hid', {value: 1, enumerable: false}); Object.defineProperty(proto, 'phid', {value: 1, enumerable: false}); o[Symbol()] = 1; o.p1 = 'shadow';
var ks = []; for (var k in o) ks.push(k); log(ks);
var sh = Object.create({x: 1}); Object.defineProperty(sh, 'x', {value: 2, enumerable: false}); ks = []; for (k in sh) ks.push(k); log(ks);
var d = {a: 1, b: 2, c: 3}; ks = []; for (k in d) { ks.push(k); delete d.b; } log(ks);
for (k in null) log('never'); for (k in undefined) log('never'); for (k in 'ab') log(k); for (k in [7, , 9]) log(k); for (k in 5) log('never');
var fs = []; for (let kk in {a: 1, b: 2}) fs.push(() => kk); log(fs.map(f => f())); for (const kc in {z: 1}) log(kc);
var t = {}; for (t.prop in {q: 1}) ; log(t); var arr = []; for (arr[arr.length] in {m: 1, n: 2}) ; log(arr); for (var [c0] in {xy: 1}) log(c0); for ({length: t.len} in {abc: 1}) ; log(t);
try { for (let z in z) ; } catch (e) { log(e); } try { for (let z2 of z2) ; } catch (e) { log(e); }
for (var kv in {a: 1}) { } log(kv); 1; for (var none in {}) { 'x'; }
`},
		{"for-of-basic", anyMode, `
for (var v of [1, 2]) log(v); for (let [a, b = 'd'] of [[1], [2, 3]]) log([a, b]); for (const {x} of [{x: 1}]) log(x); for (var c of 'hi') log(c);
var o = {}; for (o.p of [5]) ; log(o); var fs = []; for (let i of [1, 2]) fs.push(() => i); log(fs.map(f => f()));
try { for (var n of 5) ; } catch (e) { log(e); } try { for (var n of {}) ; } catch (e) { log(e); } try { for (var n of null) ; } catch (e) { log(e); }
function* g() { try { yield 1; yield 2; } finally { log('gen cleanup'); } } for (var y of g()) { log(y); break; } for (var y2 of g()) log(y2);
var it = [1, 2, 3][Symbol.iterator](); for (var p of it) { log(p); break; } for (var p2 of it) log(p2);
(function() { for (var a of arguments) log(a); })(7, 8);
`},
		{"for-of-close", anyMode, mkIter + `
for (var v of mkIter('a', [1, 2, 3])) { log(v); if (v == 2) break; }
for (var v of mkIter('b', [1])) { log(v); }
try { for (var v of mkIter('c', [1, 2])) { throw new Error('body'); } } catch (e) { log(e); }
try { for (var v of mkIter('d', [1, 2], {returnThrows: true})) { break; } } catch (e) { log(e); }
try { for (var v of mkIter('e', [1, 2], {returnThrows: true})) { throw new Error('body wins'); } } catch (e) { log(e); }
try { for (var v of mkIter('f', [1, 2], {returnNonObject: true})) { break; } } catch (e) { log(e); }
try { for (var v of mkIter('g', [1, 2], {returnNonObject: true})) { throw new Error('body wins'); } } catch (e) { log(e); }
try { for (var v of mkIter('h', [1, 2], {nextThrows: 1})) { log(v); } } catch (e) { log(e); }
try { for (var v of mkIter('i', [1, 2], {nextNonObject: 1})) { log(v); } } catch (e) { log(e); }
for (var v of mkIter('j', [1, 2], {noReturn: true})) { break; }
function fr() { for (var v of mkIter('k', [1, 2])) { return 'ret ' + v; } } log(fr());
outer: for (var w of mkIter('l', [1, 2])) { for (var v of mkIter('m', [1, 2])) { continue outer; } }
outer2: for (var w of mkIter('n', [1])) { for (var v of mkIter('o', [1, 2])) { break outer2; } }
try { for (var [x] of mkIter('p', [null])) { log('never'); } } catch (e) { log(e); }
try { for ({}.x.y of mkIter('q', [1])) { } } catch (e) { log(e); }
for (var v of mkIter('r', [1, 2])) { try { continue; } finally { log('fin ' + v); } }
var getRet = { [Symbol.iterator]() { return { next() { return {value: 1, done: false}; }, get return() { log('get return'); return undefined; } }; } }; for (var v of getRet) break;
var notFn = { [Symbol.iterator]() { return { next() { return {value: 1, done: false}; }, return: 5 }; } }; try { for (var v of notFn) break; } catch (e) { log(e); } try { for (var v of notFn) throw new Error('orig'); } catch (e) { log(e); }
`},
		{"iterator-protocol-misc", anyMode, mkIter + `
log([...mkIter('a', [1, 2])]); log(Math.max(...mkIter('b', [3, 9])));
var [x, y] = mkIter('c', [1, 2, 3]); log([x, y]); var [p, ...q] = mkIter('d', [1, 2, 3]); log([p, q]); var [m] = mkIter('e', []); log(m); var [] = mkIter('f', [1]); var [, ,] = mkIter('g', [1, 2, 3]); var [z0, z1, z2] = mkIter('h', [1]); log([z0, z1, z2]);
try { var [t = (() => { throw new Error('init'); })()] = mkIter('i', [undefined, 2]); } catch (e) { log(e); }
try { var [u] = mkIter('j', [1], {returnThrows: true}); } catch (e) { log(e); }
try { var [u2] = mkIter('k', [1], {nextThrows: 0}); } catch (e) { log(e); }
try { [{ set b(v) { throw new TypeError('setter'); } }.b] = mkIter('l', [1, 2]); } catch (e) { log(e); }
var tgt = {}; [tgt.a, tgt.b] = mkIter('m', [1]); log(tgt);
log(Array.from(mkIter('n', [1, 2]), v => v * 2)); try { Array.from(mkIter('o', [1, 2]), v => { throw new Error('map'); }); } catch (e) { log(e); }
var noIter = {}; try { [...noIter]; } catch (e) { log(e); } var badIter = { [Symbol.iterator]() { return 1; } }; try { [...badIter]; } catch (e) { log(e); } var noNext = { [Symbol.iterator]() { return {}; } }; try { [...noNext]; } catch (e) { log(e); }
var doneTruthy = { [Symbol.iterator]() { var c = 0; return { next() { return {done: c++ ? 'yes' : 0, value: c}; } }; } }; log([...doneTruthy]);
var getters = { [Symbol.iterator]() { return { next() { return { get done() { log('get done'); return false; }, get value() { log('get value'); return 1; } }; } , return() { log('ret'); return {}; } }; } }; var [g0] = getters; var [] = getters;
function f(...args) { return args; } log(f(...'ab', ...[1], ...mkIter('p', [true])));
log(new (function(a, b) { this.s = a + b; })(...[1, 2]));
`},
		{"goja-defect-continue-outer-label", anyMode, `x: y: for (var q = 0; q < 2; q++) { continue x; } log(q);`},
		{"goja-defect-elision-reads-value", anyMode, `var getters = { [Symbol.iterator]() { return { next() { return { get done() { log('get done'); return false; }, get value() { log('get value'); return 1; } }; }, return() { log('ret'); return {}; } }; } }; var [, ] = getters;`},
		{"goja-defect-error-message-tostring", anyMode, `log(new ReferenceError(5).message); log(new Error(null).message); log(Error(true).message);`},
		{"goja-defect-destructure-primitive-target", strictOnly, `var p = 0; try { [p[0]] = [1]; log('no error'); } catch (e) { log(e); }`},
		{"goja-defect-unresolvable-callee-args-first", anyMode, `try { undecl1(log('arg evaluated')); } catch (e) { log(e); }`},
		{"goja-defect-logical-assign-primitive-target", strictOnly, `var p = 0; try { p.x ||= 1; log('no error'); } catch (e) { log(e); }`},
		{"goja-defect-finally-throw-caught-by-sibling-catch", anyMode, `try { try { log('try'); } catch (e) { log('catch ' + e); } finally { log('finally'); throw 1; } } catch (o) { log('outer ' + o); }`},
		{"goja-defect-rest-param-nested-eval-panic", anyMode, `log((function(...r) { r; return (() => eval("7"))(); })(1));`},
		{"goja-defect-default-param-eval-panic", strictOnly, `log((function(p = false) { eval("0"); return p; })());`},
		{"goja-defect-let-after-continue", anyMode, `for (var i = 0; i < 1; i++) { continue; let v = null; } log('ok');`},
		{"goja-defect-dead-branch-continue-panic", anyMode, `for (let e of []) { if (1) { } else { continue; } } log('ok');`},
		{"goja-defect-eval-surplus-args-leak-into-locals", anyMode, `log((function() { var a, b; eval(""); return [a, b]; })(7, 8)); (() => { try { log(c); } catch (e) { log(e); } let c = 1; return eval(""); })(9);`},
		{"try-catch-finally", anyMode, `
function t1() { try { return 'try'; } finally { log('fin1'); } } log(t1());
function t2() { try { return 'try'; } finally { return 'fin'; } } log(t2());
function t3() { try { throw new Error('x'); } catch (e) { return 'catch'; } finally { log('fin3'); } } log(t3());
function t4() { try { throw new Error('x'); } finally { return 'swallowed'; } } log(t4());
function t5() { for (var i = 0; i < 3; i++) { try { if (i == 1) continue; if (i == 2) break; log('body ' + i); } finally { log('fin ' + i); } } return i; } log(t5());
function t6() { try { try { throw 1; } finally { log('inner fin'); } } catch (e) { return 'outer caught ' + e; } } log(t6());
function t7() { try { throw 1; } catch (e) { throw 2; } finally { log('fin7'); } } try { t7(); } catch (e) { log(e); }
function t8() { try { throw 1; } catch (e) { try { throw 2; } catch (e) { log(e); } return e; } } log(t8());
function t9() { l: try { return 1; } finally { break l; } return 2; } log(t9());
function t10() { do { try { return 1; } finally { continue; } } while (false); return 'after'; } log(t10());
function t11() { try { throw 1; } catch { return 'no binding'; } } log(t11());
function t12() { try { throw {a: 1, b: [2, 3]}; } catch ({a, b: [, c]}) { return [a, c]; } } log(t12());
function t14() { try { throw 1; } catch (e) { var v = e; let l = 2; } return [v, typeof l]; } log(t14());
function t15() { try { return (log('ret expr'), 1); } finally { log('after ret expr'); } } log(t15());
function t16() { var x = 1; try { return x; } finally { x = 2; } } log(t16());
function t17() { try { throw 1; } finally { try { throw 2; } catch (e) { log('inner ' + e); } } } try { t17(); } catch (e) { log('outer ' + e); }
function t18() { try { null.x; } catch (e) { return e instanceof TypeError; } } log(t18());
try { throw undefined; } catch (e) { log(e); } try { throw null; } catch (e) { log(e); }
function t19() { try { try { return 'a'; } finally { throw new Error('override'); } } catch (e) { return e; } } log(t19());
function t20() { out: { try { break out; } finally { log('fin20'); } } return 'end'; } log(t20());
`},
		{"errors", anyMode, `
var e = new Error('msg'); log(e); log(e.message); log(e.name); log(String(e)); log(e instanceof Error); log(Object.keys(e)); log(e.hasOwnProperty('message')); log(Object.getOwnPropertyDescriptor(e, 'message'));
var t = TypeError('called'); log(t); log(t instanceof TypeError); log(t instanceof Error); log(t.name); log(t.message); log(String(t)); log(Object.getPrototypeOf(TypeError) === Error); log(Object.getPrototypeOf(TypeError.prototype) === Error.prototype);
log(new RangeError()); log(new RangeError().message); log(new RangeError().hasOwnProperty('message')); log(String(new SyntaxError())); log(new Error(undefined).hasOwnProperty('message'));
log(Error.prototype.name); log(Error.prototype.message); log(TypeError.prototype.name); log(Error.length); log(TypeError.name); log(Error.prototype.toString.call({name: 'N', message: 'M'})); log(Error.prototype.toString.call({})); log(Error.prototype.toString.call({name: '', message: 'only'})); try { Error.prototype.toString.call(1); } catch (x) { log(x); }
class MyErr extends Error { constructor(m) { super(m); this.extra = 1; } } var me = new MyErr('mine'); log(me); log(me instanceof MyErr); log(me instanceof Error); log(me.message); log(me.name); log(String(me)); log(me.extra);
class NamedErr extends TypeError {} log(new NamedErr('z')); log(Object.prototype.toString.call(new NamedErr()));
var fake = Object.create(Error.prototype); log(fake); log(Object.prototype.toString.call(fake)); var noCtor = new Error(); noCtor.constructor = 5; log(noCtor); var acc = new Error(); Object.defineProperty(acc, 'constructor', {get() { log('never'); }}); log(acc);
try { undefinedVariable; } catch (x) { log(x); log(x instanceof ReferenceError); log(x.name); } try { null.p; } catch (x) { log(x.name); log(x.constructor === TypeError); } try { [].length = -1; } catch (x) { log(x.name); }
log([new Error('in array'), {e: new TypeError()}]);
`},
	}...)
}
