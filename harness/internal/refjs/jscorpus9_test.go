package refjs_test

func init() {
	jsCorpus = append(jsCorpus, []jsCase{
		{"param-tdz-closures", anyMode, `
function f(a = b, b = 1) { return [a, b]; } try { f(); } catch (e) { log(e); } log(f(1)); function g(a = a) {} try { g(); } catch (e) { log(e); }
function h(a, b = () => a, c = () => d, d = 4) { a = 'changed'; return [b(), c()]; } log(h('orig'));
function k(a = 1, b = function() { return typeof inner; }) { var inner = 1; function decl() {} return [b(), typeof decl]; } log(k());
function m(x, y = x++, z = x) { return [x, y, z, arguments[0]]; } log(m(1));
var outerV = 'outer'; function o(p = () => outerV) { var outerV = 'inner'; return p(); } log(o());
function q(a, b = arguments.length) { return b; } log(q(1)); log(q(1, undefined, 3));
function r({x, y} = {x: 1, y: 2}, [z] = [x + y]) { return [x, y, z]; } log(r()); log(r({x: 5, y: 6}));
function s2(a = 1) { var a; return a; } log(s2()); log(s2(2)); function t(a = 1) { var a = 3; return a; } log(t()); function u(a) { var a; return a; } log(u(7));
function v(a = 1) { function a() {} return typeof a; } log(v());
var arrowDef = (a, b = a * 2, ...rest) => [a, b, rest]; log(arrowDef(1)); log(arrowDef(1, undefined, 3, 4)); log(arrowDef(1, null));
`},
		{"param-eval-sloppy", sloppyOnly, `function n(a, b = eval("a + 1"), c = eval("var pv = 5; b + 1")) { return [a, b, c, typeof pv]; } log(n(1));`},
		{"nested-abrupt", anyMode, mkIter + `
function a() { outer: for (var x of mkIter('o', [1, 2])) { try { for (var y of mkIter('i', [1, 2])) { try { if (y == 1) continue outer; } finally { log('inner fin ' + x + y); } } } finally { log('outer fin ' + x); } } return 'a done'; } log(a());
function b() { for (var x of mkIter('p', [1, 2])) { try { return 'ret ' + x; } finally { log('fin before close'); } } } log(b());
function c() { try { for (var x of mkIter('q', [1, 2], {returnThrows: true})) { return 'lost'; } } catch (e) { return e; } finally { log('c fin'); } } log(c());
function* d() { for (var x of mkIter('r', [1, 2, 3])) { try { yield x; } finally { log('d fin ' + x); } } } var di = d(); log(di.next()); log(di.return('stop')); log(di.next());
function* e() { try { yield* d(); } finally { log('e fin'); } } var ei = e(); log(ei.next()); log(ei.throw(new Error('injected')).done === undefined);
`},
		{"nested-abrupt2", anyMode, mkIter + `
function* e() { try { for (var x of mkIter('s', [1, 2])) { yield x; } } finally { log('e fin'); } } var ei = e(); log(ei.next()); try { ei.throw(new Error('injected')); } catch (x) { log(x); } log(ei.next());
sw: switch (1) { case 1: for (var v of mkIter('t', [1, 2])) { try { break sw; } finally { log('sw fin'); } } }
lbl: { for (var v of mkIter('u', [1])) { for (var w of mkIter('v', [1])) { break lbl; } } }
var r = []; w1: while (true) { try { try { break w1; } finally { r.push('f1'); } } finally { r.push('f2'); } } log(r);
function tf() { try { try { throw new Error('a'); } finally { log('tf inner'); } } catch (e) { log('tf caught'); throw new TypeError('b'); } finally { log('tf outer'); } } try { tf(); } catch (e) { log(e); }
function cont() { var n = 0; do { try { n++; if (n < 3) continue; return n; } finally { log('cont fin ' + n); } } while (true); } log(cont());
`},
		{"async-try-finally", anyMode, `
async function a() { try { await null; throw new Error('x'); } catch (e) { await 0; log('caught'); return 'from catch'; } finally { await 0; log('finally after await'); } } a().then(v => log(v));
async function b() { try { return await Promise.reject(new RangeError('r')); } finally { log('b finally'); } } b().catch(e => log(e));
async function c() { for (var i = 0; i < 3; i++) { try { if (i == 1) continue; await i; } finally { log('c fin ' + i); } } return 'c done'; } c().then(v => log(v));
async function d() { try { return 'try'; } finally { await 0; log('d fin'); } } d().then(v => log(v));
async function e() { try { await 0; return 'try'; } finally { return 'finally wins'; } } e().then(v => log(v));
var order = []; async function f1() { order.push('f1 a'); await f2(); order.push('f1 b'); } async function f2() { order.push('f2 a'); await 0; order.push('f2 b'); } f1().then(() => log(order)); order.push('sync');
async function g() { var r = await new Promise(res => res(new Promise(res2 => res2('nested')))); log(r); } g();
async function thrower() { throw 1; } async function h() { try { await thrower(); } catch (e) { log('h caught ' + e); } } h();
(async () => { try { await (async () => { await 0; throw new Error('deep'); })(); } catch (e) { log(e); } })();
`},
		{"class-accessors-statics", anyMode, `
var order = []; function k(n) { order.push(n); return n; }
class A { static get [k('sg')]() { return 'static getter'; } static set [k('sg')](v) { order.push('static set ' + v); } get [k('ig')]() { return 'inst getter'; } static [k('sm')]() { return 'sm'; } [k('im')]() { return 'im'; } static [k('sf')] = k('sf init'); [k('if')] = k('if init'); }
log(order); order = []; log(A.sg); A.sg = 1; log(new A().ig); log(A.sm()); log(new A().im()); log(order); log(Object.getOwnPropertyNames(A)); log(Object.getOwnPropertyNames(A.prototype)); log(Object.getOwnPropertyDescriptor(A, 'sg').set !== undefined);
class B { get x() { return 1; } } class C extends B { set x(v) { log('C set'); } } var c = new C(); log(c.x); c.x = 5;
class D { static m() { return this.n; } static n = 'D.n'; } class E extends D { static n = 'E.n'; } log(E.m()); log(D.m()); var dm = D.m; try { log(dm()); } catch (e) { log(e); }
class F { constructor() { this.v = 1; } get double() { return this.v * 2; } set double(x) { this.v = x / 2; } } var f = new F(); f.double = 10; log(f.v); log(f.double); log(Object.keys(f)); log(JSONless(f)); function JSONless(o) { var r = []; for (var key in o) r.push(key); return r; }
class G { 'string key'() { return 1; } 42() { return 2; } [1 + 1]() { return 3; } } var g = new G(); log(g['string key']()); log(g[42]()); log(g[2]()); log(Object.getOwnPropertyNames(G.prototype));
try { class H { static [(() => { throw new RangeError('key'); })()]() {} } } catch (e) { log(e); } try { class I { static f = (() => { throw new RangeError('static init'); })(); } } catch (e) { log(e); } log(typeof I);
`},
		{"spread-holes-misc", anyMode, `
log([...[1, , 3]]); log([...'ab', ...[], ...[[]]]); log(Math.max(...[1, , 3])); function cnt() { return arguments.length; } log(cnt(...[, ,])); log(cnt(...[], ...[1], 2)); log([, ].length); log([1, , ].length); log([, , 1].length); log(0 in [, 1]); 
var o = {...[1, 2], ...'s', ...{a: 1}, ...5, ...true, ...undefined}; log(o); var withGetter = {get g() { return 'computed'; }}; var sp = {...withGetter}; log(Object.getOwnPropertyDescriptor(sp, 'g')); var nonEnum = Object.defineProperty({}, 'h', {value: 1}); log({...nonEnum}); var inh = Object.create({i: 1}); log({...inh});
var a = [1, 2, 3]; var [x, ...y] = a; log([x, y]); var {length, ...restA} = a; log([length, restA]); var {0: first, ...others} = 'str'; log([first, others]);
log(new (class { constructor(...a) { this.a = a; } })(...'xy')); log([...new (class { *[Symbol.iterator]() { yield 1; } })()]);
`},
	}...)
}
