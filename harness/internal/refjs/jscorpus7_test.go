package refjs_test

func init() {
	jsCorpus = append(jsCorpus, []jsCase{
		{"promise-basics", anyMode, `
log('sync 1'); var p = new Promise(function(res, rej) { log('executor'); res(1); res(2); rej(3); }); log(p); log(p instanceof Promise); log(Object.prototype.toString.call(p));
p.then(v => log('then ' + v)); p.then(v => { log('then2 ' + v); return v + 1; }).then(v => log('chained ' + v)); log('sync 2');
Promise.resolve(5).then(v => log('resolved ' + v)); Promise.reject(new Error('rj')).catch(e => log(e)); Promise.reject(6).then(v => log('no'), e => log('rejected ' + e));
new Promise(() => { throw new TypeError('in executor'); }).catch(e => log(e)); new Promise((res, rej) => { res(1); throw new Error('ignored'); }).then(v => log('still ' + v));
Promise.resolve(1).then(() => { throw new RangeError('in then'); }).then(() => log('skipped')).catch(e => { log(e); return 'recovered'; }).then(v => log(v));
Promise.resolve(7).then().then(undefined, undefined).then(v => log('passthrough ' + v)); Promise.reject(8).then(x => x).catch(e => log('passthrough rej ' + e));
Promise.resolve(1).finally(() => { log('finally 1'); return 99; }).then(v => log('after finally ' + v)); Promise.reject(2).finally(() => log('finally 2')).catch(e => log('after finally rej ' + e)); Promise.resolve(3).finally(() => { throw new Error('finally throws'); }).catch(e => log(e)); Promise.resolve(4).finally(5).then(v => log('finally non-callable ' + v));
log(Promise.resolve(p) === p); log(Promise.resolve(1) === Promise.resolve(1)); log(typeof Promise.prototype.then); log(Promise.length); log(Promise.name);
try { Promise(); } catch (e) { log(e); } try { new Promise(); } catch (e) { log(e); } try { new Promise(1); } catch (e) { log(e); } try { Promise.resolve.call(1); } catch (e) { log(e); } try { Promise.prototype.then.call({}, 1); } catch (e) { log(e); }
var self; self = new Promise(r => setTimeoutless(r)); function setTimeoutless(r) { Promise.resolve().then(() => r(self)); } self.catch(e => log(e));
'completion'
`},
		{"promise-ordering", anyMode, `
var L = []; function t(s) { return () => { L.push(s); }; }
Promise.resolve().then(t('a1')).then(t('a2')).then(t('a3')); Promise.resolve().then(t('b1')).then(t('b2')).then(t('b3'));
var inner = Promise.resolve('in'); new Promise(r => r(inner)).then(t('adopt native')); Promise.resolve().then(t('c1')).then(t('c2')).then(t('c3')).then(t('c4'));
Promise.resolve(inner).then(t('resolve same'));
var thenable = { then(res) { L.push('thenable.then called'); res('tv'); } }; Promise.resolve(thenable).then(t('thenable resolved')); new Promise(r => r(thenable)).then(t('thenable2 resolved'));
Promise.resolve().then(() => Promise.resolve('nested')).then(t('after nested')); Promise.resolve().then(t('d1')).then(t('d2')).then(t('d3')).then(t('d4')).then(t('d5'));
Promise.resolve().then(() => { log(L); }); Promise.resolve().then(() => 0).then(() => 0).then(() => 0).then(() => 0).then(() => 0).then(() => 0).then(() => { log(L); });
var getThen = { get then() { L.push('then getter'); throw new Error('getter throws'); } }; Promise.resolve(getThen).catch(e => L.push('rejected by getter')); 
var badThen = { then(res, rej) { res('first'); rej('second'); throw new Error('after resolve'); } }; Promise.resolve(badThen).then(v => L.push('badThen ' + v), e => L.push('badThen rej ' + e));
var throwThen = { then() { throw new Error('then throws'); } }; Promise.resolve(throwThen).then(null, e => L.push('throwThen rej'));
Promise.resolve({then: 5}).then(v => L.push('non-callable then ' + typeof v.then));
`},
		{"promise-subclass-species", anyMode, `
class MyP extends Promise { constructor(ex) { log('MyP ctor'); super(ex); } } var m = MyP.resolve(1); log(m instanceof MyP); var m2 = m.then(v => v + 1); log(m2 instanceof MyP); m2.then(v => log('v=' + v)); log(MyP.resolve(m) === m); log(Promise.resolve(m) === m); log(MyP.reject(1).catch(() => {}) instanceof MyP);
var p = Promise.resolve(1); p.constructor = undefined; log(p.then(x => x) instanceof Promise); p.constructor = {}; log(p.then(x => x) instanceof Promise); p.constructor = 5; try { p.then(x => x); } catch (e) { log(e); }
function NotP(ex) { ex(v => log('NotP res ' + v), e => log('NotP rej ' + e)); } log(Promise.resolve.call(NotP, 'x') instanceof NotP); Promise.reject.call(NotP, 'y');
try { Promise.resolve.call(function(ex) {}, 1); } catch (e) { log(e); } try { Promise.resolve.call(function(ex) { ex(() => {}, () => {}); ex(() => {}, () => {}); }, 1); } catch (e) { log(e); }
var q = Promise.resolve(2); q.then = function(f, r) { log('custom then'); return Promise.prototype.then.call(this, f, r); }; q.catch(() => {}); q.finally(() => {});
`},
		{"async-functions", anyMode, `
async function f(x) { log('f start ' + x); var a = await x; log('f after await ' + a); var b = await Promise.resolve(a + 1); log('f after 2nd ' + b); return b * 2; }
var r = f(1); log(r); log(r instanceof Promise); r.then(v => log('f result ' + v)); log('sync after call');
async function thrower() { await null; throw new RangeError('async throw'); } thrower().catch(e => log(e)); async function syncThrow() { throw new TypeError('before await'); } var st = syncThrow(); log(st); st.catch(e => log(e));
async function catcher() { try { await Promise.reject(new Error('rejected')); } catch (e) { log('caught ' + describe(e)); return 'recovered'; } finally { log('async finally'); } } catcher().then(v => log(v));
var arrow = async x => (await x) + 1; arrow(10).then(v => log('arrow ' + v)); var arrowBlock = async (a, b = 2) => { await 0; return a + b; }; arrowBlock(1).then(v => log('arrowBlock ' + v)); log(arrow.name); log(Object.getOwnPropertyNames(arrow)); log(typeof arrow.prototype);
var obj = { async m() { await 0; return this.tag; }, tag: 'T' }; obj.m().then(v => log('method ' + v)); class AC { async am() { return 'am'; } static async sm() { return await 'sm'; } } new AC().am().then(v => log(v)); AC.sm().then(v => log(v));
async function params(a = (() => { throw new Error('param init'); })()) {} var pp = params(); log(pp); pp.catch(e => log(e));
async function retPromise() { return Promise.resolve('inner promise'); } retPromise().then(v => log(v)); async function retThenable() { return { then(r) { r('from thenable'); } }; } retThenable().then(v => log(v));
async function awaitThenable() { var v = await { then(r) { log('thenable then'); r('tv'); } }; log('awaited ' + v); } awaitThenable();
async function loop() { var s = 0; for (var i = 0; i < 3; i++) { s += await i; } for (let v of [10, 20]) { s += await v; } return s; } loop().then(v => log('loop ' + v));
async function args() { await 0; return arguments.length + arguments[0]; } args(5, 6).then(v => log('args ' + v));
async function nested() { var inner = async () => { await 0; return 'inner'; }; return (await inner()) + '+outer'; } nested().then(v => log(v));
async function exprs() { return [await 1, await 2, (await 3) + (await 4), ` + "`${await 't'}`" + `, {[await 'k']: await 'v'}]; } exprs().then(v => log(v));
try { new f(); } catch (e) { log(e); } log(f.length); log(Object.prototype.toString.call(f)); log(Object.getPrototypeOf(f) === Object.getPrototypeOf(arrow));
'end of script'
`},
		{"async-ordering", anyMode, `
var L = []; function mark(s) { L.push(s); }
async function a1() { mark('a1 start'); await null; mark('a1 after 1'); await null; mark('a1 after 2'); } async function a2() { mark('a2 start'); await Promise.resolve(); mark('a2 after 1'); await new Promise(r => r()); mark('a2 after 2'); }
a1(); a2(); Promise.resolve().then(() => mark('p1')).then(() => mark('p2')).then(() => mark('p3')).then(() => mark('p4'));
async function ret1() { return 1; } async function retP() { return Promise.resolve(1); } ret1().then(() => mark('ret1 done')); retP().then(() => mark('retP done'));
async function awaitRejected() { try { await Promise.reject(1); } catch (e) { mark('caught'); } } awaitRejected();
async function thenableAwait() { await { then(r) { mark('thenable then'); r(); } }; mark('after thenable'); } thenableAwait();
Promise.resolve().then(() => 0).then(() => 0).then(() => 0).then(() => 0).then(() => 0).then(() => 0).then(() => 0).then(() => log(L));
mark('sync end');
`},
		{"async-generator-interplay", anyMode, `
function* g() { var p = yield Promise.resolve(1); log('g got ' + describe(p)); return 'g done'; }
async function drive() { var it = g(); var r = it.next(); var v = await r.value; log('awaited ' + v); r = it.next(v * 2); log(r); for (var x of g()) { log('for-of ' + describe(x)); await x; break; } }
drive().then(() => log('driven'));
async function af() { var gen = (function*() { try { yield 1; yield 2; } finally { log('gen closed'); } })(); for (var v of gen) { await v; if (v == 1) break; } return 'af done'; } af().then(v => log(v));
async function thrower() { for (var v of [1, 2]) { await v; if (v == 2) throw new Error('in loop'); } } thrower().catch(e => log(e));
log('sync done');
`},
		{"uncaught-exception", anyMode, `log('before'); Promise.resolve().then(() => log('job still runs')); throw new RangeError('uncaught'); log('never');`},
		{"uncaught-primitive", anyMode, `throw {a: 1, b: [2]};`},
		{"uncaught-in-job", anyMode, `Promise.resolve().then(() => { throw new Error('in job'); }); Promise.resolve().then(() => log('other job')); 'value'`},
	}...)
}
