package refjs

import (
	"fmt"
	"runtime/debug"
	"sync"
)

// Options selects how the program is run.
type Options struct {
	// Strict runs the program as strict mode code (a "use strict" directive is
	// placed as described for Source).
	Strict bool
	// Placement is "global" (default), "function" or "eval"; see Source.
	Placement string
	// MaxSteps is the fuel: the number of evaluation steps after which the run
	// is abandoned with Observation.Fuel (default 200000).
	MaxSteps int
	// MaxDepth bounds the JavaScript call depth (default 200); exceeding it
	// also yields Observation.Fuel, because engines differ in stack limits.
	MaxDepth int
	// EagerTargetBase selects the ES2015-ES2020 reading for member expressions used as
	// destructuring-assignment targets and as for-in/of heads: RequireObjectCoercible(base)
	// when the Reference is created (13.3.2 before ES2021) instead of in PutValue. The two
	// editions differ only when the base is undefined/null and something observable
	// (a default-value initialiser, an iterator step) lies between the two points.
	EagerTargetBase bool
	// ArgsBeforeUnresolvableCallee reproduces a KNOWN goja deviation (never the specification):
	// for a call whose callee is an unresolvable identifier the arguments are evaluated before
	// the ReferenceError is thrown. Used only to attribute a disagreement to that known finding.
	ArgsBeforeUnresolvableCallee bool
}

// Observation is what a run exposes.
type Observation struct {
	Log         []string // describe(x) of every log(x) call, in order
	Completion  string   // describe(completion value); "" when Exception != ""
	Exception   string   // describe(thrown value) when the program ended by an uncaught exception
	Fuel        bool     // the run exceeded MaxSteps/MaxDepth/size limits; discard the case
	Unsupported string   // non-empty: the program uses something outside J0; discard the case
}

func (o Observation) String() string {
	return fmt.Sprintf("log=%q completion=%s exception=%s fuel=%v unsupported=%q", o.Log, o.Completion, o.Exception, o.Fuel, o.Unsupported)
}

// Source returns the script text to run on the engine under test (after
// PreludeJS) for the given program and options:
//
//	global    the program as is                       ("use strict"; first when Strict)
//	function  (function () { ["use strict";] PROGRAM })()
//	eval      eval("[\"use strict\";] PROGRAM")        one direct eval at global level
//
// For placement "function" the completion value is the function's return value
// (undefined unless the program contains a top-level return, which J0 forbids),
// so callers normally compare only logs and exception there.
func Source(prog *Node, opt Options) string {
	return Print(placed(prog, opt))
}

func placed(prog *Node, opt Options) *Node {
	body := prog.Kids
	if opt.Strict && !containsUseStrict(body) {
		body = append([]*Node{UseStrict()}, body...)
	}
	switch opt.Placement {
	case "", "global":
		return Program(body...)
	case "function":
		return Program(ExprStmt(Call(Func("function", "", nil, body...))))
	case "eval":
		return Program(ExprStmt(Eval(body...)))
	}
	return Program(ExprStmt(Call(Id("__bad_placement__"))))
}

// ---- control signals (Go panics) ----

// throwSignal is a throw completion travelling through expression evaluation.
type throwSignal struct{ val Value }

// returnSignal is a return completion injected at a yield by generator.return().
type returnSignal struct{ val Value }

type fuelSignal struct{}
type unsupportedSignal struct{ what string }
type killSignal struct{} // unwinds an abandoned coroutine at the end of Run

// ---- completion records (6.2.4) ----

type ctype int

const (
	cNormal ctype = iota
	cBreak
	cContinue
	cReturn
	cThrow
)

// Completion is a Completion Record; val == nil is the spec's `empty`.
type Completion struct {
	typ    ctype
	val    Value
	target string
}

func normal(v Value) Completion { return Completion{typ: cNormal, val: v} }

// updateEmpty is 6.2.4.3 UpdateEmpty.
func updateEmpty(c Completion, v Value) Completion {
	if c.val == nil {
		c.val = v
	}
	return c
}

// catchAbrupt runs f and converts a throw / injected return travelling as a Go
// panic into a Completion Record. Other signals (fuel, unsupported, kill) pass.
func (it *Interp) catchAbrupt(f func() Completion) (c Completion) {
	defer func() {
		if r := recover(); r != nil {
			switch s := r.(type) {
			case *throwSignal:
				c = Completion{typ: cThrow, val: s.val}
			case *returnSignal:
				c = Completion{typ: cReturn, val: s.val}
			default:
				panic(r)
			}
		}
	}()
	return f()
}

// catchValue is catchAbrupt for expression-level code.
func (it *Interp) catchValue(f func() Value) (Value, Completion) {
	var v Value
	c := it.catchAbrupt(func() Completion { v = f(); return normal(nil) })
	return v, c
}

// rethrow turns an abrupt completion produced by catchAbrupt back into a signal.
func (it *Interp) rethrow(c Completion) {
	switch c.typ {
	case cThrow:
		panic(&throwSignal{c.val})
	case cReturn:
		panic(&returnSignal{c.val})
	}
}

// raiseThrow re-raises a throw completion; every other completion type is
// returned by the caller as an ordinary Completion value (statement level).
func (it *Interp) raiseThrow(c Completion) {
	if c.typ == cThrow {
		panic(&throwSignal{c.val})
	}
}

func (it *Interp) throw(v Value) { panic(&throwSignal{v}) }

// throwError throws a new instance of the named native error constructor.
func (it *Interp) throwError(name, msg string) {
	panic(&throwSignal{it.makeError(name, msg)})
}

func (it *Interp) unsupported(what string) { panic(&unsupportedSignal{what}) }

// tick consumes one unit of fuel.
func (it *Interp) tick() {
	it.steps++
	if it.steps > it.maxSteps {
		panic(fuelSignal{})
	}
}

// Ctx is the part of an execution context (9.4) the evaluator needs.
type Ctx struct {
	lex      Env  // LexicalEnvironment
	varEnv   Env  // VariableEnvironment
	strict   bool // the code being evaluated is strict mode code
	fn       *Object
	co       *coroutine // coroutine running this generator / async body, if any
	gen      *generator // the generator whose body this is
	async    bool       // co belongs to an async function (await allowed, yield not)
	asyncCap *promiseCapability
}

func (c *Ctx) withLex(e Env) *Ctx {
	c2 := *c
	c2.lex = e
	return &c2
}

// Interp is one run of one program in a fresh realm.
type Interp struct {
	realm    *Realm
	global   *GlobalEnv
	steps    int
	maxSteps int
	depth    int
	maxDepth int
	log      []string
	jobs     []func()
	coros    []*coroutine
	wg       sync.WaitGroup

	eagerTargetBase bool
	argsFirst       bool
}

const maxStringLen = 1 << 16

// Run interprets prog and returns its observation.
func Run(prog *Node, opt Options) (obs Observation) {
	it := &Interp{maxSteps: opt.MaxSteps, maxDepth: opt.MaxDepth, eagerTargetBase: opt.EagerTargetBase, argsFirst: opt.ArgsBeforeUnresolvableCallee}
	if it.maxSteps <= 0 {
		it.maxSteps = 200000
	}
	if it.maxDepth <= 0 {
		it.maxDepth = 200
	}
	defer it.dispose()
	defer func() {
		if r := recover(); r != nil {
			obs = Observation{Log: it.log}
			switch s := r.(type) {
			case fuelSignal:
				obs.Fuel = true
			case *unsupportedSignal:
				obs.Unsupported = s.what
			default:
				// a bug in refjs (or an AST shape the validator missed): never guess,
				// never take the caller down
				stack := string(debug.Stack())
				if len(stack) > 2000 {
					stack = stack[:2000]
				}
				obs.Unsupported = fmt.Sprintf("refjs internal error: %v\n%s", r, stack)
			}
		}
	}()
	if prog == nil || prog.K != "program" {
		return Observation{Unsupported: "root node is not a program"}
	}
	switch opt.Placement {
	case "", "global", "function", "eval":
	default:
		return Observation{Unsupported: "unknown placement " + opt.Placement}
	}
	script := placed(prog, opt)
	if msg := validate(script); msg != "" {
		return Observation{Unsupported: msg}
	}
	it.initRealm()
	// 16.1.6 ScriptEvaluation, then the host drains the job queue (9.6, 27.2).
	res := it.catchAbrupt(func() Completion { return it.scriptEvaluation(script) })
	it.runJobs()
	obs.Log = it.log
	switch res.typ {
	case cThrow:
		obs.Exception = it.describe(res.val)
	default:
		v := res.val
		if v == nil {
			v = Undefined
		}
		obs.Completion = it.describe(v)
	}
	return obs
}

// runJobs drains the FIFO job queue (HostEnqueuePromiseJob, 9.5.5). A job never
// completes abruptly with a throw (27.2.2.1/2 catch everything).
func (it *Interp) runJobs() {
	for len(it.jobs) > 0 {
		j := it.jobs[0]
		it.jobs = it.jobs[1:]
		it.tick()
		j()
	}
}

// scriptEvaluation is 16.1.6.
func (it *Interp) scriptEvaluation(script *Node) Completion {
	ctx := &Ctx{lex: it.global, varEnv: it.global, strict: containsUseStrict(script.Kids)}
	it.globalDeclarationInstantiation(script, ctx)
	c := it.evalStatementList(script.Kids, ctx)
	if c.typ == cNormal && c.val == nil {
		c.val = Undefined
	}
	return c
}

// globalDeclarationInstantiation is 16.1.7.
func (it *Interp) globalDeclarationInstantiation(script *Node, ctx *Ctx) {
	env := it.global
	lexNames := lexicallyDeclaredNames(script.Kids, true)
	varNames := varDeclaredNames(script.Kids, true)
	for _, name := range lexNames {
		if env.HasVarDeclaration(name) || env.HasLexicalDeclaration(it, name) || env.HasRestrictedGlobalProperty(it, name) {
			it.throwError("SyntaxError", "Identifier '"+name+"' has already been declared")
		}
	}
	for _, name := range varNames {
		if env.HasLexicalDeclaration(it, name) {
			it.throwError("SyntaxError", "Identifier '"+name+"' has already been declared")
		}
	}
	varDecls := varScopedDeclarations(script.Kids, true)
	var functionsToInitialize []*Node
	declaredFunctionNames := map[string]bool{}
	for i := len(varDecls) - 1; i >= 0; i-- {
		d := varDecls[i]
		if d.K == "funcdecl" {
			if !declaredFunctionNames[d.S] {
				if !env.CanDeclareGlobalFunction(it, d.S) {
					it.throwError("TypeError", "Cannot declare global function '"+d.S+"'")
				}
				declaredFunctionNames[d.S] = true
				functionsToInitialize = append([]*Node{d}, functionsToInitialize...)
			}
		}
	}
	var declaredVarNames []string
	seen := map[string]bool{}
	for _, d := range varDecls {
		if d.K == "funcdecl" {
			continue
		}
		for _, vn := range boundNames(d) {
			if !declaredFunctionNames[vn] {
				if !env.CanDeclareGlobalVar(it, vn) {
					it.throwError("TypeError", "Cannot declare global variable '"+vn+"'")
				}
				if !seen[vn] {
					seen[vn] = true
					declaredVarNames = append(declaredVarNames, vn)
				}
			}
		}
	}
	for _, d := range lexicallyScopedDeclarations(script.Kids, true) {
		for _, dn := range boundNames(d) {
			if isConstDecl(d) {
				env.CreateImmutableBinding(it, dn, true)
			} else {
				env.CreateMutableBinding(it, dn, false)
			}
		}
	}
	for _, f := range functionsToInitialize {
		fo := it.instantiateFunctionObject(f, ctx.withLex(env))
		env.CreateGlobalFunctionBinding(it, f.S, fo, false)
	}
	for _, vn := range declaredVarNames {
		env.CreateGlobalVarBinding(it, vn, false)
	}
}

// dispose unwinds every coroutine that is still suspended so that no goroutine
// outlives Run.
func (it *Interp) dispose() {
	for _, co := range it.coros {
		co.kill()
	}
	it.wg.Wait()
}
