package refjs_test

import . "verifh/internal/refjs"

// short aliases for the corpus
var (
	n  = Num
	s  = Str
	id = Id
)

func lg(e *Node) *Node                { return Log(e) }
func call(f string, a ...*Node) *Node { return Call(Id(f), a...) }
func P(e ...*Node) *Node              { return Params(e...) }
func es(e *Node) *Node                { return ExprStmt(e) }
func fn(name string, params *Node, body ...*Node) *Node {
	return FuncDecl("function", name, params, body...)
}
func fe(params *Node, body ...*Node) *Node { return Func("function", "", params, body...) }

func corpus() []tcase {
	var cs []tcase
	add := func(name string, flags int, stmts ...*Node) {
		cs = append(cs, tcase{name: name, flags: flags, prog: Program(stmts...)})
	}
	add("literals", anyMode,
		lg(n(1)), lg(n(-0.0)), lg(Unary("-", n(0))), lg(n(1.5)), lg(s("a\"b\\\n")), lg(Bool(true)), lg(Null()), lg(Undef()),
		lg(Num(1e21)), lg(Bin("/", n(1), n(3))), lg(Arr(n(1), nil, n(3), nil)), lg(Obj(Prop("a", n(1)), Prop("b c", s("x")))),
		es(n(42)))
	add("arith", anyMode,
		lg(Bin("+", n(1), s("2"))), lg(Bin("-", s("5"), n(2))), lg(Bin("*", s("a"), n(2))), lg(Bin("%", n(-7), n(3))),
		lg(Bin("**", n(2), n(10))), lg(Bin("**", n(1), id("Infinity"))), lg(Bin("<<", n(1), n(33))), lg(Bin(">>>", Unary("-", n(1)), n(0))),
		lg(Bin("&", n(6), n(3))), lg(Bin("<", s("a"), s("b"))), lg(Bin("<", s("10"), n(9))), lg(Bin(">=", Undef(), n(1))),
		lg(Bin("==", Null(), Undef())), lg(Bin("==", s("1"), n(1))), lg(Bin("===", s("1"), n(1))), lg(Bin("==", Obj(), s("[object Object]"))),
		lg(Unary("~", n(5))), lg(Unary("!", s(""))), lg(Typeof(Null())), lg(Typeof(id("nosuch"))), lg(Void(n(1))),
		lg(Bin("+", Arr(n(1), n(2)), Arr(n(3)))), lg(Bin("+", Obj(), n(1))), lg(Bin("/", n(1), Unary("-", n(0)))))
	add("var-let-const", anyMode,
		Var("a", n(1)), Let("b", n(2)), Const("c", n(3)),
		Block(Let("b", n(20)), lg(Bin("+", id("a"), id("b")))), lg(id("b")),
		Try(Block(es(Set(id("c"), n(4)))), id("e"), Block(lg(id("e"))), nil),
		Try(Block(lg(id("z")), Let("z", n(1))), id("e"), Block(lg(id("e"))), nil),
		Try(Block(lg(Typeof(id("y"))), Let("y", n(1))), id("e"), Block(lg(id("e"))), nil),
		lg(id("h")), Var("h", n(5)), lg(call("f")), fn("f", nil, Return(n(7))))
	add("closures-loop", anyMode,
		Var("fs", Arr()),
		For(VarDecl("let", Declarator(id("i"), n(0))), Bin("<", id("i"), n(3)), Update("++", false, id("i")),
			Block(es(Call(Dot(id("fs"), "push"), ArrowExpr(P(), id("i")))))),
		For(VarDecl("var", Declarator(id("j"), n(0))), Bin("<", id("j"), n(3)), Update("++", false, id("j")),
			Block(es(Call(Dot(id("fs"), "push"), ArrowExpr(P(), id("j")))))),
		lg(Call(Dot(id("fs"), "map"), ArrowExpr(P(id("f")), Call(id("f"))))))
	for _, j := range jsCorpus {
		cs = append(cs, tcase{name: j.name, flags: j.flags, prog: JS(j.src)})
	}
	return cs
}
