package refjs

// Function objects (10.2), built-in function objects (10.3), arguments objects (10.4.4).

type nativeFn func(it *Interp, this Value, args []Value, newTarget Value) Value

// FuncData holds the internal slots of a function object.
type FuncData struct {
	node   *Node // "func"/"funcdecl" node ([[FormalParameters]] = kid 0, [[ECMAScriptCode]] = kid 1)
	env    Env   // [[Environment]]
	strict bool  // [[Strict]]
	// [[ThisMode]] is lexical for arrows, strict when strict, otherwise global.
	arrow              bool
	flavour            string // "normal", "generator", "async"
	isConstructor      bool
	isClassConstructor bool
	derived            bool    // [[ConstructorKind]] is derived
	homeObject         *Object // [[HomeObject]]
	fields             []*classFieldDef
	defaultCtor        bool    // synthesised class constructor (15.7.14 step 14)
	fieldInit          *Node   // class field initialiser expression (15.7.10); the function has no parameters
	fieldKey           PropKey // [[ClassFieldInitializerName]]
	native             nativeFn
	nativeName         string
}

type classFieldDef struct {
	key  PropKey
	init *Object // initializer function or nil
}

func flavourOf(a string) (flavour string, arrow bool) {
	switch a {
	case "arrow":
		return "normal", true
	case "asyncarrow":
		return "async", true
	case "generator", "genmethod":
		return "generator", false
	case "async", "asyncmethod":
		return "async", false
	}
	return "normal", false
}

// makeClosure is 10.2.3 OrdinaryFunctionCreate (including SetFunctionLength).
func (it *Interp) makeClosure(n *Node, ctx *Ctx, proto *Object) *Object {
	fl, arrow := flavourOf(n.A)
	body := n.kid(1)
	strict := ctx.strict
	if !n.B && body != nil && containsUseStrict(body.Kids) {
		strict = true
	}
	f := it.newObject(proto)
	f.class = "Function"
	f.fn = &FuncData{node: n, env: ctx.lex, strict: strict, arrow: arrow, flavour: fl}
	it.definePropertyOrThrow(f, strKey("length"), dataDesc(float64(expectedArgumentCount(n.kid(0))), false, false, true))
	return f
}

// setFunctionName is 10.2.9.
func (it *Interp) setFunctionName(f *Object, name Value, prefix string) {
	var s string
	switch x := name.(type) {
	case *Symbol:
		if !x.hasDesc {
			s = ""
		} else {
			s = "[" + x.desc + "]"
		}
	case string:
		s = x
	default:
		s = it.toString(name)
	}
	if prefix != "" {
		s = prefix + " " + s
	}
	it.definePropertyOrThrow(f, strKey("name"), dataDesc(s, false, false, true))
}

// makeConstructor is 10.2.5 with a fresh prototype object.
func (it *Interp) makeConstructor(f *Object) {
	f.fn.isConstructor = true
	proto := it.newObject(it.realm.ObjectPrototype)
	it.definePropertyOrThrow(proto, strKey("constructor"), dataDesc(f, true, false, true))
	it.definePropertyOrThrow(f, strKey("prototype"), dataDesc(proto, true, false, false))
}

// instantiateFunctionExpression covers 15.2.5, 15.3.? (arrows), 15.5.4, 15.8.3
// InstantiateXFunctionExpression; name != nil is the NamedEvaluation case.
func (it *Interp) instantiateFunctionExpression(n *Node, ctx *Ctx, name Value) *Object {
	switch n.A {
	case "arrow":
		f := it.makeClosure(n, ctx, it.realm.FunctionPrototype)
		it.setFunctionName(f, orEmpty(name), "")
		return f
	case "asyncarrow":
		f := it.makeClosure(n, ctx, it.realm.AsyncFunctionPrototype)
		it.setFunctionName(f, orEmpty(name), "")
		return f
	case "function", "generator", "async":
	default:
		it.unsupported("function flavour " + n.A + " in expression position")
	}
	fctx := ctx
	var funcEnv *DeclEnv
	if n.S != "" {
		// named function expression: the name is an immutable binding in its own scope
		funcEnv = newDeclEnv(ctx.lex)
		funcEnv.CreateImmutableBinding(it, n.S, false)
		fctx = ctx.withLex(funcEnv)
		name = n.S
	}
	f := it.instantiateByFlavour(n, fctx, orEmpty(name))
	if funcEnv != nil {
		funcEnv.InitializeBinding(it, n.S, f)
	}
	return f
}

func orEmpty(name Value) Value {
	if name == nil {
		return ""
	}
	return name
}

func (it *Interp) instantiateByFlavour(n *Node, ctx *Ctx, name Value) *Object {
	switch n.A {
	case "generator":
		f := it.makeClosure(n, ctx, it.realm.GeneratorFunctionPrototype)
		it.setFunctionName(f, name, "")
		proto := it.newObject(it.realm.GeneratorPrototype)
		it.definePropertyOrThrow(f, strKey("prototype"), dataDesc(proto, true, false, false))
		return f
	case "async":
		f := it.makeClosure(n, ctx, it.realm.AsyncFunctionPrototype)
		it.setFunctionName(f, name, "")
		return f
	}
	f := it.makeClosure(n, ctx, it.realm.FunctionPrototype)
	it.setFunctionName(f, name, "")
	it.makeConstructor(f)
	return f
}

// instantiateFunctionObject is 8.6.1 InstantiateFunctionObject for declarations.
func (it *Interp) instantiateFunctionObject(n *Node, ctx *Ctx) *Object {
	switch n.A {
	case "function", "generator", "async":
	default:
		it.unsupported("function declaration flavour " + n.A)
	}
	return it.instantiateByFlavour(n, ctx, n.S)
}

// newNative is 10.3.4 CreateBuiltinFunction.
func (it *Interp) newNative(name string, length int, fn nativeFn) *Object {
	f := it.newObject(it.realm.FunctionPrototype)
	f.class = "Function"
	f.fn = &FuncData{native: fn, nativeName: name, strict: true}
	f.rawSet(strKey("length"), &Property{value: float64(length), configurable: true})
	f.rawSet(strKey("name"), &Property{value: name, configurable: true})
	return f
}

func (it *Interp) enter() {
	it.depth++
	if it.depth > it.maxDepth {
		panic(fuelSignal{})
	}
}

// call is 7.3.14 Call / 10.2.1 [[Call]] / 10.3.1.
func (it *Interp) call(f *Object, this Value, args []Value) Value {
	it.tick()
	fd := f.fn
	if fd == nil {
		it.throwError("TypeError", "not a function")
	}
	it.enter()
	defer func() { it.depth-- }()
	if fd.native != nil {
		return it.nativeCall(fd, this, args, Undefined)
	}
	if fd.isClassConstructor {
		it.throwError("TypeError", "Class constructor cannot be invoked without 'new'")
	}
	env := it.prepareForOrdinaryCall(f, Undefined)
	it.ordinaryCallBindThis(f, env, this)
	return it.ordinaryCallEvaluateBody(f, env, args)
}

func (it *Interp) nativeCall(fd *FuncData, this Value, args []Value, newTarget Value) Value {
	v := fd.native(it, this, args, newTarget)
	if v == nil {
		return Undefined
	}
	return v
}

// construct is 7.3.15 Construct / 10.2.2 [[Construct]] / 10.3.2.
func (it *Interp) construct(f *Object, args []Value, newTarget *Object) Value {
	it.tick()
	fd := f.fn
	it.enter()
	defer func() { it.depth-- }()
	if fd.native != nil {
		return it.nativeCall(fd, Undefined, args, newTarget)
	}
	var thisArgument *Object
	if !fd.derived {
		thisArgument = it.ordinaryCreateFromConstructor(newTarget, func(r *Realm) *Object { return r.ObjectPrototype })
	}
	env := it.prepareForOrdinaryCall(f, newTarget)
	if !fd.derived {
		it.ordinaryCallBindThis(f, env, thisArgument)
		it.initializeInstanceElements(thisArgument, f)
	}
	result := it.ordinaryCallEvaluateBody(f, env, args)
	if ro, ok := result.(*Object); ok {
		return ro
	}
	if !fd.derived {
		return thisArgument
	}
	if _, ok := result.(undefT); !ok {
		it.throwError("TypeError", "Derived constructors may only return object or undefined")
	}
	return env.GetThisBinding(it)
}

// ordinaryCreateFromConstructor is 10.1.13 with 10.1.14 GetPrototypeFromConstructor.
func (it *Interp) ordinaryCreateFromConstructor(ctor *Object, dflt func(*Realm) *Object) *Object {
	return it.newObject(it.getPrototypeFromConstructor(ctor, dflt))
}

func (it *Interp) getPrototypeFromConstructor(ctor *Object, dflt func(*Realm) *Object) *Object {
	if p, ok := it.getStr(ctor, "prototype").(*Object); ok {
		return p
	}
	return dflt(it.realm)
}

// prepareForOrdinaryCall is 10.2.1.1 (NewFunctionEnvironment, 9.1.2.4).
func (it *Interp) prepareForOrdinaryCall(f *Object, newTarget Value) *FuncEnv {
	env := &FuncEnv{funcObj: f, newTarget: newTarget}
	env.DeclEnv = *newDeclEnv(f.fn.env)
	if f.fn.arrow {
		env.thisStatus = thisLexical
	} else {
		env.thisStatus = thisUninitialized
	}
	return env
}

// ordinaryCallBindThis is 10.2.1.2.
func (it *Interp) ordinaryCallBindThis(f *Object, env *FuncEnv, thisArgument Value) {
	fd := f.fn
	if fd.arrow {
		return
	}
	var thisValue Value
	if fd.strict {
		thisValue = thisArgument
	} else if isNullish(thisArgument) {
		thisValue = it.global.thisVal
	} else {
		thisValue = it.toObject(thisArgument)
	}
	env.BindThisValue(it, thisValue)
}

// ordinaryCallEvaluateBody is 10.2.1.4 with the EvaluateBody variants of
// 15.2.3 (functions), 15.3.? (arrows), 15.5.2 (generators), 15.8.4 (async).
// A throw completion travels as a throwSignal.
func (it *Interp) ordinaryCallEvaluateBody(f *Object, env *FuncEnv, args []Value) Value {
	fd := f.fn
	ctx := &Ctx{lex: env, varEnv: env, strict: fd.strict, fn: f}
	switch fd.flavour {
	case "generator":
		bctx := it.functionDeclarationInstantiation(f, ctx, args)
		return it.startGenerator(f, bctx)
	case "async":
		return it.startAsyncFunction(f, ctx, args)
	}
	if fd.defaultCtor {
		return it.defaultConstructorBody(f, env, args)
	}
	if fd.fieldInit != nil {
		// 15.7.? EvaluateBody of a field Initializer
		if isAnonymousFunctionDefinition(fd.fieldInit) {
			return it.namedEvaluation(fd.fieldInit, ctx, fd.fieldKey.value())
		}
		return it.evalExpr(fd.fieldInit, ctx)
	}
	bctx := it.functionDeclarationInstantiation(f, ctx, args)
	return it.evaluateFunctionBody(fd.node, bctx)
}

// evaluateFunctionBody evaluates a FunctionBody / ConciseBody and maps the
// completion to the call result.
func (it *Interp) evaluateFunctionBody(n *Node, ctx *Ctx) Value {
	body := n.kid(1)
	if n.B {
		return it.evalExpr(body, ctx)
	}
	c := it.evalStatementList(body.Kids, ctx)
	if c.typ == cReturn {
		return c.val
	}
	if c.typ != cNormal {
		it.unsupported("break/continue escaping a function body")
	}
	return Undefined
}

// functionDeclarationInstantiation is 10.2.11. It returns the context (lexical
// and variable environments) in which the body is to be evaluated.
func (it *Interp) functionDeclarationInstantiation(f *Object, calleeCtx *Ctx, args []Value) *Ctx {
	fd := f.fn
	code := fd.node
	strict := fd.strict
	formals := code.kid(0)
	parameterNames := boundNames(formals)
	hasDup := hasDuplicates(parameterNames)
	simpleParameterList := isSimpleParameterList(formals)
	hasParameterExpressions := containsExpression(formals)
	var bodyStmts []*Node
	if !code.B {
		bodyStmts = code.kid(1).Kids
	}
	varNames := varDeclaredNames(bodyStmts, true)
	varDeclarations := varScopedDeclarations(bodyStmts, true)
	lexicalNames := lexicallyDeclaredNames(bodyStmts, true)
	functionNames := map[string]bool{}
	var functionsToInitialize []*Node
	for i := len(varDeclarations) - 1; i >= 0; i-- {
		d := varDeclarations[i]
		if d.K == "funcdecl" && !functionNames[d.S] {
			functionNames[d.S] = true
			functionsToInitialize = append([]*Node{d}, functionsToInitialize...)
		}
	}
	argumentsObjectNeeded := true
	switch {
	case fd.arrow:
		argumentsObjectNeeded = false
	case contains(parameterNames, "arguments"):
		argumentsObjectNeeded = false
	case !hasParameterExpressions:
		if functionNames["arguments"] || contains(lexicalNames, "arguments") {
			argumentsObjectNeeded = false
		}
	}
	var env Env
	ctx := *calleeCtx
	if strict || !hasParameterExpressions {
		env = ctx.lex
	} else {
		// step 20: a separate environment so that direct evals in the parameter
		// list create their vars outside the environment of the parameters
		env = newDeclEnv(ctx.lex)
		ctx.lex = env
	}
	for _, pn := range parameterNames {
		if !env.HasBinding(it, pn) {
			env.CreateMutableBinding(it, pn, false)
			if hasDup {
				env.InitializeBinding(it, pn, Undefined)
			}
		}
	}
	parameterBindings := parameterNames
	if argumentsObjectNeeded {
		var ao *Object
		if strict || !simpleParameterList {
			ao = it.createUnmappedArgumentsObject(args)
		} else {
			ao = it.createMappedArgumentsObject(f, formals, args, env)
		}
		if strict {
			env.CreateImmutableBinding(it, "arguments", false)
		} else {
			env.CreateMutableBinding(it, "arguments", false)
		}
		env.InitializeBinding(it, "arguments", ao)
		parameterBindings = append(append([]string{}, parameterNames...), "arguments")
	}
	// steps 24-26 IteratorBindingInitialization of the formals
	if hasDup {
		it.bindParameters(formals, args, &ctx, nil)
	} else {
		it.bindParameters(formals, args, &ctx, env)
	}
	var varEnv Env
	if !hasParameterExpressions {
		instantiated := map[string]bool{}
		for _, pn := range parameterBindings {
			instantiated[pn] = true
		}
		for _, n := range varNames {
			if !instantiated[n] {
				instantiated[n] = true
				env.CreateMutableBinding(it, n, false)
				env.InitializeBinding(it, n, Undefined)
			}
		}
		varEnv = env
	} else {
		// step 28: a separate var environment so that closures in parameter
		// expressions do not see the body's var declarations
		venv := newDeclEnv(env)
		varEnv = venv
		instantiated := map[string]bool{}
		for _, n := range varNames {
			if instantiated[n] {
				continue
			}
			instantiated[n] = true
			venv.CreateMutableBinding(it, n, false)
			var initial Value = Undefined
			if contains(parameterBindings, n) && !functionNames[n] {
				initial = env.GetBindingValue(it, n, false)
			}
			venv.InitializeBinding(it, n, initial)
		}
	}
	ctx.varEnv = varEnv
	var lexEnv Env
	if !strict {
		// step 30: sloppy functions get a separate lexical environment so that a
		// direct eval can tell whether its var declarations clash with top-level
		// lexical declarations
		lexEnv = newDeclEnv(varEnv)
	} else {
		lexEnv = varEnv
	}
	ctx.lex = lexEnv
	for _, d := range lexicallyScopedDeclarations(bodyStmts, true) {
		for _, dn := range boundNames(d) {
			if isConstDecl(d) {
				lexEnv.CreateImmutableBinding(it, dn, true)
			} else {
				lexEnv.CreateMutableBinding(it, dn, false)
			}
		}
	}
	for _, fdecl := range functionsToInitialize {
		fo := it.instantiateFunctionObject(fdecl, &ctx)
		varEnv.SetMutableBinding(it, fdecl.S, fo, false)
	}
	return &ctx
}

func contains(list []string, s string) bool {
	for _, x := range list {
		if x == s {
			return true
		}
	}
	return false
}

// bindParameters is IteratorBindingInitialization of FormalParameters (8.6.3 /
// 15.1.? ) over the argument list. The spec drives this through a list iterator
// (CreateListIteratorRecord), which is unobservable; indexing is equivalent.
// env == nil means "assign with PutValue" (duplicate parameter names).
func (it *Interp) bindParameters(formals *Node, args []Value, ctx *Ctx, env Env) {
	for i, p := range formals.Kids {
		it.tick()
		if p != nil && p.K == "rest" {
			var rest []Value
			if i < len(args) {
				rest = args[i:]
			}
			it.bindingInitialization(p.kid(0), it.newArray(rest), ctx, env)
			return
		}
		var v Value = Undefined
		if i < len(args) {
			v = args[i]
		}
		it.bindElement(p, v, ctx, env)
	}
}

// createUnmappedArgumentsObject is 10.4.4.6.
func (it *Interp) createUnmappedArgumentsObject(args []Value) *Object {
	obj := it.newObject(it.realm.ObjectPrototype)
	obj.class = "Arguments"
	it.definePropertyOrThrow(obj, strKey("length"), dataDesc(float64(len(args)), true, false, true))
	for i, a := range args {
		it.createDataPropertyOrThrow(obj, indexKey(uint32(i)), a)
	}
	it.definePropertyOrThrow(obj, symKey(it.realm.SymIterator), dataDesc(it.realm.ArrayProtoValues, true, false, true))
	te := it.realm.ThrowTypeError
	it.definePropertyOrThrow(obj, strKey("callee"), PropDesc{get: te, set: te, hasGet: true, hasSet: true, enumerable: false, hasEnumerable: true, configurable: false, hasConfigurable: true})
	return obj
}

// createMappedArgumentsObject is 10.4.4.7.
func (it *Interp) createMappedArgumentsObject(f *Object, formals *Node, args []Value, env Env) *Object {
	obj := it.newObject(it.realm.ObjectPrototype)
	obj.class = "Arguments"
	obj.argMap = map[string]string{}
	obj.argEnv = env
	for i, a := range args {
		it.createDataPropertyOrThrow(obj, indexKey(uint32(i)), a)
	}
	it.definePropertyOrThrow(obj, strKey("length"), dataDesc(float64(len(args)), true, false, true))
	parameterNames := boundNames(formals)
	mapped := map[string]bool{}
	for i := len(parameterNames) - 1; i >= 0; i-- {
		name := parameterNames[i]
		if !mapped[name] {
			mapped[name] = true
			if i < len(args) {
				obj.argMap[indexKey(uint32(i)).str] = name
			}
		}
	}
	it.definePropertyOrThrow(obj, symKey(it.realm.SymIterator), dataDesc(it.realm.ArrayProtoValues, true, false, true))
	it.definePropertyOrThrow(obj, strKey("callee"), dataDesc(f, true, false, true))
	return obj
}
