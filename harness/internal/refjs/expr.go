package refjs

import (
	"math"
)

// Ref is a Reference Record (6.2.5).
type Ref struct {
	unresolvable bool
	env          Env    // environment reference when != nil
	name         string // binding name for environment / unresolvable references
	base         Value  // property reference base value
	key          PropKey
	keyVal       Value // [[ReferencedName]] that is not yet a property key (a[b]: ToPropertyKey is
	keyPending   bool  // delayed until GetValue / PutValue, i.e. after the right-hand side of a[b] = c)
	strict       bool
	thisValue    Value // non-nil for super references
}

func (r *Ref) isProperty() bool { return !r.unresolvable && r.env == nil }

// getThisValue is 6.2.5.7.
func (r *Ref) getThisValue() Value {
	if r.thisValue != nil {
		return r.thisValue
	}
	return r.base
}

// getValue is 6.2.5.5 GetValue for a Reference Record.
func (it *Interp) getValue(r *Ref) Value {
	if r.unresolvable {
		it.checkKnownGlobal(r.name)
		it.throwError("ReferenceError", r.name+" is not defined")
	}
	if r.env != nil {
		return r.env.GetBindingValue(it, r.name, r.strict)
	}
	baseObj := it.toObject(r.base)
	it.resolveKey(r)
	return it.get(baseObj, r.key, r.getThisValue())
}

// resolveKey performs the delayed ToPropertyKey of a Reference Record (once).
func (it *Interp) resolveKey(r *Ref) {
	if r.keyPending {
		r.key = it.toPropertyKey(r.keyVal)
		r.keyPending = false
	}
}

// putValue is 6.2.5.6 PutValue.
func (it *Interp) putValue(r *Ref, w Value) {
	if r.unresolvable {
		if r.strict {
			it.throwError("ReferenceError", r.name+" is not defined")
		}
		g := it.global.objRec.obj
		it.set(g, strKey(r.name), w, g)
		return
	}
	if r.env != nil {
		r.env.SetMutableBinding(it, r.name, w, r.strict)
		return
	}
	baseObj := it.toObject(r.base)
	it.resolveKey(r)
	ok := it.set(baseObj, r.key, w, r.getThisValue())
	if !ok && r.strict {
		it.throwError("TypeError", "Cannot assign to read only property '"+r.key.String()+"'")
	}
}

// initializeReferencedBinding is 6.2.5.8.
func (it *Interp) initializeReferencedBinding(r *Ref, w Value) {
	r.env.InitializeBinding(it, r.name, w)
}

// resolveBinding is 9.4.2 ResolveBinding / 9.1.2.1 GetIdentifierReference.
func (it *Interp) resolveBinding(name string, env Env, strict bool) *Ref {
	for e := env; e != nil; e = e.Outer() {
		it.tick()
		if e.HasBinding(it, name) {
			return &Ref{env: e, name: name, strict: strict}
		}
	}
	return &Ref{unresolvable: true, name: name, strict: strict}
}

// evalExpr evaluates an expression and applies GetValue.
func (it *Interp) evalExpr(n *Node, ctx *Ctx) Value {
	it.tick()
	if n == nil {
		it.unsupported("missing expression")
	}
	switch n.K {
	case "num":
		return n.N
	case "str":
		it.checkASCII(n.S)
		return n.S
	case "bool":
		return n.B
	case "null":
		return jsNull
	case "id", "dot", "idx", "call", "superdot", "superidx", "paren":
		r, v, _ := it.evalRefOrValue(n, ctx)
		if r != nil {
			return it.getValue(r)
		}
		return v
	case "this":
		return it.resolveThisBinding(ctx.lex)
	case "tmpl":
		// 13.2.8.6: each substitution is evaluated and converted before the next one.
		s := ""
		for i, k := range n.Kids {
			if i%2 == 0 {
				it.checkASCII(k.S)
				s = it.concat(s, k.S)
			} else {
				s = it.concat(s, it.toString(it.evalExpr(k, ctx)))
			}
		}
		return s
	case "arr":
		return it.evalArrayLiteral(n, ctx)
	case "obj":
		return it.evalObjectLiteral(n, ctx)
	case "func":
		return it.instantiateFunctionExpression(n, ctx, nil)
	case "class":
		return it.classDefinitionEvaluation(n, ctx, nil)
	case "new":
		ctor := it.evalExpr(n.kid(0), ctx)
		args := it.evalArguments(n.kidsFrom(1), ctx)
		if !isConstructor(ctor) {
			it.throwError("TypeError", "not a constructor")
		}
		return it.construct(ctor.(*Object), args, ctor.(*Object))
	case "unary":
		return it.evalUnary(n, ctx)
	case "update":
		return it.evalUpdate(n, ctx)
	case "bin":
		l := it.evalExpr(n.kid(0), ctx)
		r := it.evalExpr(n.kid(1), ctx)
		return it.binaryOp(n.S, l, r)
	case "logical":
		l := it.evalExpr(n.kid(0), ctx)
		switch n.S {
		case "&&":
			if !toBoolean(l) {
				return l
			}
		case "||":
			if toBoolean(l) {
				return l
			}
		case "??":
			if !isNullish(l) {
				return l
			}
		default:
			it.unsupported("logical operator " + n.S)
		}
		return it.evalExpr(n.kid(1), ctx)
	case "cond":
		if toBoolean(it.evalExpr(n.kid(0), ctx)) {
			return it.evalExpr(n.kid(1), ctx)
		}
		return it.evalExpr(n.kid(2), ctx)
	case "assign":
		return it.evalAssign(n, ctx)
	case "seq":
		var v Value = Undefined
		for _, e := range n.Kids {
			v = it.evalExpr(e, ctx)
		}
		return v
	case "yield":
		return it.evalYield(n, ctx)
	case "await":
		return it.evalAwait(n, ctx)
	case "eval":
		return it.performEval(n, ctx)
	case "supercall":
		return it.evalSuperCall(n, ctx)
	case "newtarget":
		fe, ok := getThisEnvironment(ctx.lex).(*FuncEnv)
		if !ok {
			it.unsupported("new.target outside a function")
		}
		return fe.newTarget
	}
	it.unsupported("expression kind " + n.K)
	return nil
}

func (it *Interp) checkASCII(s string) {
	for i := 0; i < len(s); i++ {
		if s[i] >= 0x80 {
			it.unsupported("non-ASCII string")
		}
	}
}

// concat is string-concatenation with a size guard (a run that builds huge
// strings is abandoned as out of fuel).
func (it *Interp) concat(a, b string) string {
	if len(a)+len(b) > maxStringLen {
		panic(fuelSignal{})
	}
	return a + b
}

func isChainNode(n *Node) bool {
	return n != nil && (n.K == "dot" || n.K == "idx" || n.K == "call")
}

// evalChainBase evaluates the object / callee part of a member access or call
// that may itself belong to the same optional chain (13.3.9).
func (it *Interp) evalChainObject(n *Node, ctx *Ctx) (Value, bool) {
	if isChainNode(n) {
		r, v, short := it.evalRefOrValue(n, ctx)
		if short {
			return Undefined, true
		}
		if r != nil {
			v = it.getValue(r)
		}
		return v, false
	}
	return it.evalExpr(n, ctx), false
}

// evalRefOrValue evaluates n to a Reference Record (r != nil) or to a value.
// short reports that an optional chain containing n short-circuited; the value
// is then undefined.
func (it *Interp) evalRefOrValue(n *Node, ctx *Ctx) (r *Ref, v Value, short bool) {
	switch n.K {
	case "id":
		return it.resolveBinding(n.S, ctx.lex, ctx.strict), nil, false
	case "paren":
		inner := n.kid(0)
		switch inner.K {
		case "id", "dot", "idx", "call", "superdot", "superidx", "paren":
			r, v, short = it.evalRefOrValue(inner, ctx)
			if short {
				return nil, Undefined, false // the parentheses end the chain
			}
			return r, v, false
		}
		return nil, it.evalExpr(inner, ctx), false
	case "dot":
		it.tick()
		base, short := it.evalChainObject(n.kid(0), ctx)
		if short || (n.B && isNullish(base)) {
			return nil, Undefined, true
		}
		// 13.3.4 EvaluatePropertyAccessWithIdentifierKey (the base is converted
		// by ToObject in GetValue / PutValue, not here)
		return &Ref{base: base, key: strKey(n.S), strict: ctx.strict}, nil, false
	case "idx":
		it.tick()
		base, short := it.evalChainObject(n.kid(0), ctx)
		if short || (n.B && isNullish(base)) {
			return nil, Undefined, true
		}
		// 13.3.3 EvaluatePropertyAccessWithExpressionKey
		kv := it.evalExpr(n.kid(1), ctx)
		return &Ref{base: base, keyVal: kv, keyPending: true, strict: ctx.strict}, nil, false
	case "superdot":
		it.tick()
		env := it.superEnv(ctx)
		actualThis := env.GetThisBinding(it)
		return it.makeSuperPropertyReference(env, actualThis, strKey(n.S), ctx.strict), nil, false
	case "superidx":
		it.tick()
		env := it.superEnv(ctx)
		actualThis := env.GetThisBinding(it)
		kv := it.evalExpr(n.kid(0), ctx)
		key := it.toPropertyKey(kv)
		return it.makeSuperPropertyReference(env, actualThis, key, ctx.strict), nil, false
	case "call":
		it.tick()
		return it.evalCall(n, ctx)
	}
	return nil, it.evalExpr(n, ctx), false
}

func (it *Interp) superEnv(ctx *Ctx) *FuncEnv {
	fe, ok := getThisEnvironment(ctx.lex).(*FuncEnv)
	if !ok || !fe.HasSuperBinding() {
		it.unsupported("super outside a method")
	}
	return fe
}

// makeSuperPropertyReference is 13.3.7.3.
func (it *Interp) makeSuperPropertyReference(env *FuncEnv, actualThis Value, key PropKey, strict bool) *Ref {
	// 9.1.1.3.5 GetSuperBase
	home := env.funcObj.fn.homeObject
	var base Value = jsNull
	if home.proto != nil {
		base = home.proto
	}
	it.requireObjectCoercible(base)
	return &Ref{base: base, key: key, strict: strict, thisValue: actualThis}
}

// evalCall is 13.3.6 (and the call links of 13.3.9 optional chains).
func (it *Interp) evalCall(n *Node, ctx *Ctx) (*Ref, Value, bool) {
	calleeNode := n.kid(0)
	var ref *Ref
	var fv Value
	if isChainNode(calleeNode) {
		r, v, short := it.evalRefOrValue(calleeNode, ctx)
		if short {
			return nil, Undefined, true
		}
		ref, fv = r, v
	} else {
		switch calleeNode.K {
		case "id", "superdot", "superidx", "paren":
			ref, fv, _ = it.evalRefOrValue(calleeNode, ctx)
		default:
			fv = it.evalExpr(calleeNode, ctx)
		}
	}
	var thisValue Value = Undefined
	if ref != nil {
		if ref.unresolvable && it.argsFirst {
			it.evalArguments(n.kidsFrom(1), ctx)
		}
		fv = it.getValue(ref)
		if ref.isProperty() {
			thisValue = ref.getThisValue()
		} else if ref.env != nil {
			thisValue = ref.env.WithBaseObject()
		}
	}
	if n.B && isNullish(fv) {
		return nil, Undefined, true
	}
	// 13.3.6.2 EvaluateCall
	args := it.evalArguments(n.kidsFrom(1), ctx)
	if !isCallable(fv) {
		it.throwError("TypeError", "not a function")
	}
	return nil, it.call(fv.(*Object), thisValue, args), false
}

// evalArguments is 13.3.8.1 ArgumentListEvaluation.
func (it *Interp) evalArguments(list []*Node, ctx *Ctx) []Value {
	var args []Value
	for _, a := range list {
		if a != nil && a.K == "spread" {
			v := it.evalExpr(a.kid(0), ctx)
			rec := it.getIterator(v)
			for {
				next, done := it.iteratorStepValue(rec)
				if done {
					break
				}
				args = append(args, next)
			}
			continue
		}
		args = append(args, it.evalExpr(a, ctx))
	}
	return args
}

// evalArrayLiteral is 13.2.4.1 ArrayAccumulation.
func (it *Interp) evalArrayLiteral(n *Node, ctx *Ctx) Value {
	arr := it.newArray(nil)
	next := uint32(0)
	for _, e := range n.Kids {
		switch {
		case e == nil:
			next++
		case e.K == "spread":
			v := it.evalExpr(e.kid(0), ctx)
			rec := it.getIterator(v)
			for {
				x, done := it.iteratorStepValue(rec)
				if done {
					break
				}
				it.createDataPropertyOrThrow(arr, indexKey(next), x)
				next++
			}
		default:
			v := it.evalExpr(e, ctx)
			it.createDataPropertyOrThrow(arr, indexKey(next), v)
			next++
		}
	}
	it.setOrThrow(arr, strKey("length"), float64(next))
	return arr
}

// evalPropertyName is 13.2.5.4 Evaluation of PropertyName.
func (it *Interp) evalPropertyName(key *Node, computed bool, ctx *Ctx) PropKey {
	if computed {
		return it.toPropertyKey(it.evalExpr(key, ctx))
	}
	switch key.K {
	case "num":
		return strKey(numberToString(key.N))
	case "str", "id":
		it.checkASCII(key.S)
		return strKey(key.S)
	}
	it.unsupported("property key kind " + key.K)
	return PropKey{}
}

// evalObjectLiteral is 13.2.5.5 PropertyDefinitionEvaluation over the list.
func (it *Interp) evalObjectLiteral(n *Node, ctx *Ctx) Value {
	obj := it.newObject(it.realm.ObjectPrototype)
	for _, p := range n.Kids {
		it.tick()
		switch p.A {
		case "spread":
			from := it.evalExpr(p.kid(0), ctx)
			it.copyDataProperties(obj, from, nil)
		case "shorthand":
			v := it.evalExpr(p.kid(1), ctx)
			it.createDataPropertyOrThrow(obj, strKey(p.kid(0).S), v)
		case "init":
			if !p.B && p.kid(0).K != "num" && p.kid(0).S == "__proto__" {
				it.unsupported("__proto__: v in object literal")
			}
			key := it.evalPropertyName(p.kid(0), p.B, ctx)
			var v Value
			if isAnonymousFunctionDefinition(p.kid(1)) {
				v = it.namedEvaluation(p.kid(1), ctx, key.value())
			} else {
				v = it.evalExpr(p.kid(1), ctx)
			}
			it.createDataPropertyOrThrow(obj, key, v)
		case "method", "get", "set":
			key := it.evalPropertyName(p.kid(0), p.B, ctx)
			it.defineMethodProperty(obj, key, p.A, p.kid(1), ctx, true)
		default:
			it.unsupported("property kind " + p.A)
		}
	}
	return obj
}

// defineMethodProperty covers 15.4.4 DefineMethod / 15.4.5 MethodDefinitionEvaluation
// for plain, generator, async methods and accessors.
func (it *Interp) defineMethodProperty(obj *Object, key PropKey, kind string, fnNode *Node, ctx *Ctx, enumerable bool) {
	switch kind {
	case "get", "set":
		closure := it.makeClosure(fnNode, ctx, it.realm.FunctionPrototype)
		closure.fn.homeObject = obj
		it.setFunctionName(closure, key.value(), kind)
		var d PropDesc
		if kind == "get" {
			d = PropDesc{get: closure, hasGet: true, enumerable: enumerable, hasEnumerable: true, configurable: true, hasConfigurable: true}
		} else {
			d = PropDesc{set: closure, hasSet: true, enumerable: enumerable, hasEnumerable: true, configurable: true, hasConfigurable: true}
		}
		it.definePropertyOrThrow(obj, key, d)
	default:
		closure := it.instantiateMethod(fnNode, ctx, obj, key)
		it.definePropertyOrThrow(obj, key, dataDesc(closure, true, enumerable, true))
	}
}

// instantiateMethod creates the function object of a (generator/async) method.
func (it *Interp) instantiateMethod(fnNode *Node, ctx *Ctx, home *Object, key PropKey) *Object {
	var closure *Object
	switch fnNode.A {
	case "genmethod", "generator":
		closure = it.makeClosure(fnNode, ctx, it.realm.GeneratorFunctionPrototype)
		closure.fn.homeObject = home
		it.setFunctionName(closure, key.value(), "")
		proto := it.newObject(it.realm.GeneratorPrototype)
		it.definePropertyOrThrow(closure, strKey("prototype"), dataDesc(proto, true, false, false))
	case "asyncmethod", "async":
		closure = it.makeClosure(fnNode, ctx, it.realm.AsyncFunctionPrototype)
		closure.fn.homeObject = home
		it.setFunctionName(closure, key.value(), "")
	default:
		closure = it.makeClosure(fnNode, ctx, it.realm.FunctionPrototype)
		closure.fn.homeObject = home
		it.setFunctionName(closure, key.value(), "")
	}
	return closure
}

// copyDataProperties is 7.3.26.
func (it *Interp) copyDataProperties(target *Object, source Value, excluded []PropKey) {
	if isNullish(source) {
		return
	}
	from := it.toObject(source)
	for _, k := range it.ownKeys(from) {
		it.tick()
		skip := false
		for _, e := range excluded {
			if e == k {
				skip = true
				break
			}
		}
		if skip {
			continue
		}
		d := it.getOwnProperty(from, k)
		if d != nil && d.enumerable {
			v := it.get(from, k, from)
			it.createDataPropertyOrThrow(target, k, v)
		}
	}
}

// namedEvaluation is 8.4.5 NamedEvaluation for anonymous function / class definitions.
func (it *Interp) namedEvaluation(n *Node, ctx *Ctx, name Value) Value {
	n = unparen(n)
	it.tick()
	if n.K == "class" {
		return it.classDefinitionEvaluation(n, ctx, name)
	}
	return it.instantiateFunctionExpression(n, ctx, name)
}

func (it *Interp) evalUnary(n *Node, ctx *Ctx) Value {
	arg := n.kid(0)
	switch n.S {
	case "delete":
		// 13.5.1.2
		target := arg
		switch unparen(target).K {
		case "id", "dot", "idx", "superdot", "superidx", "call":
		default:
			it.evalExpr(arg, ctx)
			return true
		}
		r, _, short := it.evalRefOrValue(target, ctx)
		if short || r == nil {
			return true
		}
		if r.unresolvable {
			return true
		}
		if r.isProperty() {
			if r.thisValue != nil {
				it.throwError("ReferenceError", "Unsupported reference to 'super'")
			}
			baseObj := it.toObject(r.base)
			it.resolveKey(r)
			ok := it.delete(baseObj, r.key)
			if !ok && r.strict {
				it.throwError("TypeError", "Cannot delete property '"+r.key.String()+"'")
			}
			return ok
		}
		return r.env.DeleteBinding(it, r.name)
	case "void":
		it.evalExpr(arg, ctx)
		return Undefined
	case "typeof":
		// 13.5.3.1
		var v Value
		switch unparen(arg).K {
		case "id":
			r, _, _ := it.evalRefOrValue(arg, ctx)
			if r.unresolvable {
				it.checkKnownGlobal(r.name)
				return "undefined"
			}
			v = it.getValue(r)
		default:
			v = it.evalExpr(arg, ctx)
		}
		return typeOf(v)
	case "+":
		return it.toNumber(it.evalExpr(arg, ctx))
	case "-":
		return -it.toNumeric(it.evalExpr(arg, ctx))
	case "~":
		return float64(^it.toInt32(it.evalExpr(arg, ctx)))
	case "!":
		return !toBoolean(it.evalExpr(arg, ctx))
	}
	it.unsupported("unary operator " + n.S)
	return nil
}

// evalTargetRef evaluates a simple assignment target to a Reference Record.
func (it *Interp) evalTargetRef(n *Node, ctx *Ctx) *Ref {
	t := unparen(n)
	switch t.K {
	case "id", "dot", "idx", "superdot", "superidx":
		r, _, short := it.evalRefOrValue(t, ctx)
		if short || r == nil {
			it.unsupported("optional chain as assignment target")
		}
		return r
	}
	it.unsupported("assignment target kind " + t.K)
	return nil
}

// evalUpdate is 13.4.
func (it *Interp) evalUpdate(n *Node, ctx *Ctx) Value {
	r := it.evalTargetRef(n.kid(0), ctx)
	old := it.toNumeric(it.getValue(r))
	nv := old + 1
	if n.S == "--" {
		nv = old - 1
	}
	it.putValue(r, nv)
	if n.B {
		return nv
	}
	return old
}

// evalAssign is 13.15.2.
func (it *Interp) evalAssign(n *Node, ctx *Ctx) Value {
	target, rhs := n.kid(0), n.kid(1)
	if target.K == "arrpat" || target.K == "objpat" {
		if n.S != "=" {
			it.unsupported("compound assignment to a pattern")
		}
		rval := it.evalExpr(rhs, ctx)
		it.destructuringAssignment(target, rval, ctx)
		return rval
	}
	lref := it.evalTargetRef(target, ctx)
	evalRHS := func() Value {
		if isAnonymousFunctionDefinition(rhs) && target.K == "id" {
			return it.namedEvaluation(rhs, ctx, target.S)
		}
		return it.evalExpr(rhs, ctx)
	}
	switch n.S {
	case "=":
		rval := evalRHS()
		it.putValue(lref, rval)
		return rval
	case "&&=", "||=", "??=":
		lval := it.getValue(lref)
		switch n.S {
		case "&&=":
			if !toBoolean(lval) {
				return lval
			}
		case "||=":
			if toBoolean(lval) {
				return lval
			}
		case "??=":
			if !isNullish(lval) {
				return lval
			}
		}
		rval := evalRHS()
		it.putValue(lref, rval)
		return rval
	}
	if len(n.S) < 2 || n.S[len(n.S)-1] != '=' {
		it.unsupported("assignment operator " + n.S)
	}
	lval := it.getValue(lref)
	rval := it.evalExpr(rhs, ctx)
	r := it.binaryOp(n.S[:len(n.S)-1], lval, rval)
	it.putValue(lref, r)
	return r
}

// binaryOp covers 13.15.3 ApplyStringOrNumericBinaryOperator and the
// relational, equality, instanceof and in operators (13.10, 13.11).
func (it *Interp) binaryOp(op string, l, r Value) Value {
	switch op {
	case "+":
		lp := it.toPrimitive(l, "default")
		rp := it.toPrimitive(r, "default")
		_, ls := lp.(string)
		_, rs := rp.(string)
		if ls || rs {
			a := it.toString(lp)
			b := it.toString(rp)
			return it.concat(a, b)
		}
		return it.toNumeric(lp) + it.toNumeric(rp)
	case "-", "*", "/", "%", "**":
		a := it.toNumeric(l)
		b := it.toNumeric(r)
		switch op {
		case "-":
			return a - b
		case "*":
			return a * b
		case "/":
			return a / b
		case "%":
			return math.Mod(a, b)
		}
		return numberExponentiate(a, b)
	case "&", "|", "^":
		a := it.toInt32(l)
		b := it.toInt32(r)
		switch op {
		case "&":
			return float64(a & b)
		case "|":
			return float64(a | b)
		}
		return float64(a ^ b)
	case "<<":
		a := it.toInt32(l)
		b := it.toUint32(r)
		return float64(a << (b & 31))
	case ">>":
		a := it.toInt32(l)
		b := it.toUint32(r)
		return float64(a >> (b & 31))
	case ">>>":
		a := it.toUint32(l)
		b := it.toUint32(r)
		return float64(a >> (b & 31))
	case "<":
		return it.isLessThan(l, r, true) == 1
	case ">":
		return it.isLessThan(r, l, false) == 1
	case "<=":
		return it.isLessThan(r, l, false) == 0
	case ">=":
		return it.isLessThan(l, r, true) == 0
	case "==":
		return it.looseEquals(l, r)
	case "!=":
		return !it.looseEquals(l, r)
	case "===":
		return strictEquals(l, r)
	case "!==":
		return !strictEquals(l, r)
	case "instanceof":
		return it.instanceofOperator(l, r)
	case "in":
		ro, ok := r.(*Object)
		if !ok {
			it.throwError("TypeError", "Cannot use 'in' operator on a non-object")
		}
		return it.hasProperty(ro, it.toPropertyKey(l))
	}
	it.unsupported("binary operator " + op)
	return nil
}

// numberExponentiate is 6.1.6.1.3 Number::exponentiate.
func numberExponentiate(base, exp float64) float64 {
	if math.IsNaN(exp) {
		return math.NaN()
	}
	if exp == 0 {
		return 1
	}
	if (base == 1 || base == -1) && math.IsInf(exp, 0) {
		return math.NaN()
	}
	return math.Pow(base, exp)
}

// instanceofOperator is 13.10.2 InstanceofOperator. @@hasInstance cannot be
// installed by J0 programs, so the handler is always
// Function.prototype[@@hasInstance], i.e. OrdinaryHasInstance.
func (it *Interp) instanceofOperator(v, target Value) bool {
	t, ok := target.(*Object)
	if !ok {
		it.throwError("TypeError", "Right-hand side of 'instanceof' is not an object")
	}
	if t.fn == nil {
		it.throwError("TypeError", "Right-hand side of 'instanceof' is not callable")
	}
	return it.ordinaryHasInstance(t, v)
}

// ordinaryHasInstance is 7.3.22.
func (it *Interp) ordinaryHasInstance(c *Object, v Value) bool {
	o, ok := v.(*Object)
	if !ok {
		return false
	}
	p, ok := it.getStr(c, "prototype").(*Object)
	if !ok {
		it.throwError("TypeError", "Function has non-object prototype in instanceof check")
	}
	for {
		it.tick()
		o = o.proto
		if o == nil {
			return false
		}
		if o == p {
			return true
		}
	}
}
