// Package gojarun runs a printed J0 program on goja (PreludeJS first) and
// reports the same Observation record that refjs.Run produces, so that the two
// can be compared field by field.
package gojarun

import (
	"fmt"
	"runtime/debug"
	"time"

	"github.com/dop251/goja"

	"verifh/internal/refjs"
)

// Result is the goja-side observation plus host-level outcomes that have no
// counterpart in refjs.
type Result struct {
	refjs.Observation
	// HostError is non-empty when the run did not end in a value or a JavaScript
	// exception: a compile error ("compile: ..."), a Go panic ("panic: ..."), an
	// interrupt or a stack overflow.
	HostError string
	// PanicStack is the (truncated) Go stack when HostError reports a panic.
	PanicStack string
}

// Run executes PreludeJS and then src in a fresh runtime. timeout bounds the
// run (0 = 5 s); maxCallStack bounds the call depth (0 = 2000).
func Run(src string, timeout time.Duration, maxCallStack int) (res Result) {
	defer func() {
		if p := recover(); p != nil {
			st := string(debug.Stack())
			if len(st) > 1500 {
				st = st[:1500]
			}
			res.HostError = fmt.Sprintf("panic: %v", p)
			res.PanicStack = st
		}
	}()
	if timeout <= 0 {
		timeout = 5 * time.Second
	}
	if maxCallStack <= 0 {
		maxCallStack = 2000
	}
	vm := goja.New()
	vm.SetMaxCallStackSize(maxCallStack)
	if _, err := vm.RunString(refjs.PreludeJS); err != nil {
		res.HostError = "prelude: " + err.Error()
		return
	}
	describeV := vm.Get("describe")
	describe, _ := goja.AssertFunction(describeV)
	logV := vm.Get("__log").(*goja.Object)
	timer := time.AfterFunc(timeout, func() { vm.Interrupt("timeout") })
	v, err := vm.RunString(src)
	timer.Stop()
	vm.ClearInterrupt()
	n := int(logV.Get("length").ToInteger())
	for i := 0; i < n; i++ {
		res.Log = append(res.Log, logV.Get(fmt.Sprint(i)).String())
	}
	desc := func(x goja.Value) string {
		d, err := describe(goja.Undefined(), x)
		if err != nil {
			return "describe failed: " + err.Error()
		}
		return d.String()
	}
	if err != nil {
		switch e := err.(type) {
		case *goja.Exception:
			res.Exception = desc(e.Value())
		case *goja.CompilerSyntaxError, *goja.CompilerReferenceError:
			res.HostError = "compile: " + err.Error()
		default:
			res.HostError = fmt.Sprintf("%T: %v", err, err)
		}
		return
	}
	res.Completion = desc(v)
	return
}
