// Package gojarun runs a printed J0 program on goja (PreludeJS first) and
// reports the same Observation record that refjs.Run produces, so that the two
// can be compared field by field.
package gojarun

import (
	"fmt"
	"runtime/debug"
	"syscall"
	"time"

	"github.com/dop251/goja"

	"verifh/internal/refjs"
)

// Result is the goja-side observation plus host-level outcomes that have no
// counterpart in refjs.
type Result struct {
	refjs.Observation
	// HostError is non-empty when the run did not end in a value or a JavaScript
	// exception: a compile error ("compile: ..."), a Go panic ("panic: ..."), an
	// interrupt or a stack overflow.
	HostError string
	// PanicStack is the (truncated) Go stack when HostError reports a panic.
	PanicStack string
}

// cpuTime is the CPU time this process has consumed so far.
func cpuTime() time.Duration {
	var ru syscall.Rusage
	if syscall.Getrusage(syscall.RUSAGE_SELF, &ru) != nil {
		return 0
	}
	return time.Duration(ru.Utime.Nano() + ru.Stime.Nano())
}

// Run executes PreludeJS and then src in a fresh runtime. timeout bounds the
// CPU time of the run (0 = 20 s; the programs are a few thousand evaluation steps,
// so only a genuine endless loop gets there): the wall clock merely schedules the
// look at the CPU clock, so that a loaded machine cannot turn a slow run into a
// verdict. maxCallStack bounds the call depth (0 = 2000).
func Run(src string, timeout time.Duration, maxCallStack int) (res Result) {
	defer func() {
		if p := recover(); p != nil {
			st := string(debug.Stack())
			if len(st) > 1500 {
				st = st[:1500]
			}
			res.HostError = fmt.Sprintf("panic: %v", p)
			res.PanicStack = st
		}
	}()
	if timeout <= 0 {
		timeout = 20 * time.Second
	}
	if maxCallStack <= 0 {
		maxCallStack = 2000
	}
	vm := goja.New()
	vm.SetMaxCallStackSize(maxCallStack)
	if _, err := vm.RunString(refjs.PreludeJS); err != nil {
		res.HostError = "prelude: " + err.Error()
		return
	}
	describeV := vm.Get("describe")
	describe, _ := goja.AssertFunction(describeV)
	logV := vm.Get("__log").(*goja.Object)
	cpu0 := cpuTime()
	stop, stopped := make(chan struct{}), make(chan struct{})
	go func() {
		defer close(stopped)
		tick := time.NewTicker(500 * time.Millisecond)
		defer tick.Stop()
		for {
			select {
			case <-stop:
				return
			case <-tick.C:
				if cpuTime()-cpu0 > timeout {
					vm.Interrupt("timeout")
					return
				}
			}
		}
	}()
	v, err := vm.RunString(src)
	close(stop)
	<-stopped
	vm.ClearInterrupt()
	n := int(logV.Get("length").ToInteger())
	for i := 0; i < n; i++ {
		res.Log = append(res.Log, logV.Get(fmt.Sprint(i)).String())
	}
	desc := func(x goja.Value) string {
		d, err := describe(goja.Undefined(), x)
		if err != nil {
			return "describe failed: " + err.Error()
		}
		return d.String()
	}
	if err != nil {
		switch e := err.(type) {
		case *goja.Exception:
			res.Exception = desc(e.Value())
		case *goja.CompilerSyntaxError, *goja.CompilerReferenceError:
			res.HostError = "compile: " + err.Error()
		default:
			res.HostError = fmt.Sprintf("%T: %v", err, err)
		}
		return
	}
	res.Completion = desc(v)
	return
}
