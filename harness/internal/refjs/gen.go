package refjs

// Coroutines, generator objects (27.5) and yield / yield* (15.5.5).
//
// Every generator (and async function) body runs on its own goroutine that is
// used strictly as a coroutine: control is handed over through unbuffered
// channels, the resumer blocks until the body yields or finishes, so exactly one
// goroutine is runnable at any time and the interpretation is deterministic.
// Interp.dispose unwinds the bodies that are still suspended when Run ends.

const (
	rNext = iota
	rThrow
	rReturn
	rKill
)

const (
	yYield = iota // generator yield: val is the iterator result object
	yAwait        // async await: the reactions have already been registered
	yDone         // body finished: c is its completion
	yPanic        // a non-JavaScript signal (fuel, unsupported, bug) to re-raise in the resumer
	yKilled
)

type resumeMsg struct {
	kind int
	val  Value
}

type yieldMsg struct {
	kind int
	val  Value
	c    Completion
	pan  interface{}
}

type coroutine struct {
	it       *Interp
	resumeCh chan resumeMsg
	yieldCh  chan yieldMsg
	started  bool
	finished bool
	body     func(first resumeMsg) Completion
}

func (it *Interp) newCoroutine(body func(first resumeMsg) Completion) *coroutine {
	co := &coroutine{it: it, resumeCh: make(chan resumeMsg), yieldCh: make(chan yieldMsg), body: body}
	it.coros = append(it.coros, co)
	return co
}

// resume transfers control to the coroutine and blocks until it suspends or finishes.
func (co *coroutine) resume(msg resumeMsg) yieldMsg {
	if co.finished {
		panic("refjs: resume of a finished coroutine")
	}
	if !co.started {
		co.started = true
		co.it.wg.Add(1)
		go co.run()
	}
	co.resumeCh <- msg
	y := <-co.yieldCh
	switch y.kind {
	case yPanic:
		co.finished = true
		panic(y.pan)
	case yDone, yKilled:
		co.finished = true
	}
	return y
}

func (co *coroutine) run() {
	defer co.it.wg.Done()
	first := <-co.resumeCh
	var out yieldMsg
	func() {
		defer func() {
			if r := recover(); r != nil {
				if _, ok := r.(killSignal); ok {
					out = yieldMsg{kind: yKilled}
				} else {
					out = yieldMsg{kind: yPanic, pan: r}
				}
			}
		}()
		if first.kind == rKill {
			panic(killSignal{})
		}
		c := co.it.catchAbrupt(func() Completion { return co.body(first) })
		out = yieldMsg{kind: yDone, c: c}
	}()
	co.yieldCh <- out
}

// suspend is called on the coroutine's own goroutine: it hands y to the
// resumer and blocks until the next resumption.
func (co *coroutine) suspend(y yieldMsg) resumeMsg {
	co.yieldCh <- y
	msg := <-co.resumeCh
	if msg.kind == rKill {
		panic(killSignal{})
	}
	return msg
}

// kill unwinds a suspended coroutine without running any JavaScript code.
func (co *coroutine) kill() {
	if co.started && !co.finished {
		co.resumeCh <- resumeMsg{kind: rKill}
		<-co.yieldCh
		co.finished = true
	}
}

// generator holds [[GeneratorState]] and the suspended execution context.
type generator struct {
	state string // "suspendedStart", "suspendedYield", "executing", "completed"
	co    *coroutine
}

// startGenerator is 15.5.2 EvaluateGeneratorBody after FunctionDeclarationInstantiation
// with 27.5.3.1 GeneratorStart.
func (it *Interp) startGenerator(f *Object, bctx *Ctx) Value {
	g := it.ordinaryCreateFromConstructor(f, func(r *Realm) *Object { return r.GeneratorPrototype })
	g.class = "Generator"
	gen := &generator{state: "suspendedStart"}
	g.gen = gen
	ctx := *bctx
	gen.co = it.newCoroutine(func(first resumeMsg) Completion {
		return it.evalStatementList(f.fn.node.kid(1).Kids, &ctx)
	})
	ctx.co = gen.co
	ctx.gen = gen
	return g
}

// generatorValidate is 27.5.3.2.
func (it *Interp) generatorValidate(v Value) *generator {
	o, ok := v.(*Object)
	if !ok || o.gen == nil {
		it.throwError("TypeError", "not a generator object")
	}
	if o.gen.state == "executing" {
		it.throwError("TypeError", "Generator is already running")
	}
	return o.gen
}

// generatorResume is 27.5.3.3 GeneratorResume (kind rNext) and 27.5.3.4
// GeneratorResumeAbrupt (kind rThrow / rReturn).
func (it *Interp) generatorResume(g Value, kind int, v Value) Value {
	gen := it.generatorValidate(g)
	if kind != rNext && gen.state == "suspendedStart" {
		gen.state = "completed"
	}
	if gen.state == "completed" {
		switch kind {
		case rNext:
			return it.createIterResultObject(Undefined, true)
		case rReturn:
			return it.createIterResultObject(v, true)
		}
		it.throw(v)
	}
	gen.state = "executing"
	y := gen.co.resume(resumeMsg{kind: kind, val: v})
	switch y.kind {
	case yYield:
		return y.val
	case yDone:
		gen.state = "completed"
		switch y.c.typ {
		case cThrow:
			it.throw(y.c.val)
		case cReturn:
			return it.createIterResultObject(y.c.val, true)
		case cNormal:
			return it.createIterResultObject(Undefined, true)
		}
		it.unsupported("break/continue escaping a generator body")
	}
	panic("refjs: unexpected coroutine message")
}

// generatorYield is 27.5.3.7 GeneratorYield: suspends the body and maps the
// resumption to a value, a throw or an injected return completion.
func (it *Interp) generatorYield(ctx *Ctx, iterResult *Object) Value {
	ctx.gen.state = "suspendedYield"
	msg := ctx.co.suspend(yieldMsg{kind: yYield, val: iterResult})
	switch msg.kind {
	case rThrow:
		panic(&throwSignal{msg.val})
	case rReturn:
		panic(&returnSignal{msg.val})
	}
	return msg.val
}

// evalYield is 15.5.5 Evaluation of YieldExpression.
func (it *Interp) evalYield(n *Node, ctx *Ctx) Value {
	if ctx.co == nil || ctx.gen == nil {
		it.unsupported("yield outside a generator body")
	}
	if !n.B {
		var v Value = Undefined
		if n.kid(0) != nil {
			v = it.evalExpr(n.kid(0), ctx)
		}
		return it.generatorYield(ctx, it.createIterResultObject(v, false))
	}
	// yield* (sync generator)
	value := it.evalExpr(n.kid(0), ctx)
	rec := it.getIterator(value)
	iterator := rec.iterator
	received := Completion{typ: cNormal, val: Undefined}
	for {
		it.tick()
		var innerResult *Object
		switch received.typ {
		case cNormal:
			innerResult = it.iteratorNext(rec, received.val, true)
			if it.iteratorComplete(innerResult) {
				return it.iteratorValue(innerResult)
			}
		case cThrow:
			throwM := it.getMethod(iterator, strKey("throw"))
			if throwM == nil {
				// the delegate cannot be told about the exception: close it and
				// report the protocol violation
				c := it.iteratorClose(rec, normal(nil))
				it.rethrow(c)
				it.throwError("TypeError", "The iterator does not provide a 'throw' method")
			}
			res, ok := it.call(throwM, iterator, []Value{received.val}).(*Object)
			if !ok {
				it.throwError("TypeError", "Iterator result is not an object")
			}
			innerResult = res
			if it.iteratorComplete(innerResult) {
				return it.iteratorValue(innerResult)
			}
		case cReturn:
			returnM := it.getMethod(iterator, strKey("return"))
			if returnM == nil {
				panic(&returnSignal{received.val})
			}
			res, ok := it.call(returnM, iterator, []Value{received.val}).(*Object)
			if !ok {
				it.throwError("TypeError", "Iterator result is not an object")
			}
			innerResult = res
			if it.iteratorComplete(innerResult) {
				panic(&returnSignal{it.iteratorValue(innerResult)})
			}
		}
		// received = Completion(GeneratorYield(innerResult))
		ctx.gen.state = "suspendedYield"
		msg := ctx.co.suspend(yieldMsg{kind: yYield, val: innerResult})
		switch msg.kind {
		case rThrow:
			received = Completion{typ: cThrow, val: msg.val}
		case rReturn:
			received = Completion{typ: cReturn, val: msg.val}
		default:
			received = Completion{typ: cNormal, val: msg.val}
		}
	}
}
