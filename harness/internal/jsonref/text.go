// Package jsonref is an independent reference model of ECMAScript's JSON object:
// a hand-written ECMA-404 recogniser and parser (this file), a small mutable
// model of JavaScript values (js.go), the JSON.stringify algorithms
// SerializeJSONProperty / SerializeJSONObject / SerializeJSONArray /
// QuoteJSONString (ser.go) and InternalizeJSONProperty (revive.go).
//
// It shares no code with goja and does not use encoding/json (which goja's
// JSON.parse is built on). Texts and strings are sequences of UTF-16 code units.
package jsonref

import (
	"errors"
	"math"
	"math/big"
	"strings"

	"verifh/internal/numref"
)

// TV is a node of the parse tree of a JSON text, before any ECMAScript
// interpretation (duplicate keys and source order are preserved).
type TV struct {
	K byte // 'n' null, 't' true, 'f' false, '#' number, 's' string, '[' array, '{' object
	// number: the exact decimal value is (-1)^Neg * Digits * 10^Exp10
	Neg    bool
	Digits string // all mantissa digits (integer part followed by fraction part), may have leading zeros
	Exp10  int
	S      []uint16 // string value (escapes decoded)
	A      []*TV
	M      []TMember
}

type TMember struct {
	Key []uint16
	Val *TV
}

// Info collects facts about a parsed text that the checks use for
// classification and exclusion.
type Info struct {
	LoneSurrogate bool // some string value or key contains an unpaired surrogate (raw or from \u escapes)
	Depth         int  // maximal nesting of arrays/objects
	Escape        bool // some string uses an escape sequence
	NonASCII      bool // some string contains a code unit >= 0x80
	LongNumber    bool // some number has more than 20 significant digits (RoundMVResult latitude)
	UnsafeNumber  bool // some number is not a safe integer
	DupKey        bool
	Numbers       int
}

type parser struct {
	s     []uint16
	i     int
	depth int
	info  *Info
}

var errSyntax = errors.New("not a JSON text")

// MaxDepth bounds recursion of the recogniser (the generators stay far below).
const MaxDepth = 2000

// Accept reports whether text is derivable from the ECMA-404 / ECMA-262
// JSONText grammar.
func Accept(text []uint16) bool {
	_, _, err := Parse(text)
	return err == nil
}

// Parse parses a JSON text.
func Parse(text []uint16) (*TV, *Info, error) {
	p := &parser{s: text, info: &Info{}}
	p.ws()
	v, err := p.value()
	if err != nil {
		return nil, nil, err
	}
	p.ws()
	if p.i != len(p.s) {
		return nil, nil, errSyntax
	}
	return v, p.info, nil
}

// JSON WhiteSpace: TAB, LF, CR, SP and nothing else.
func (p *parser) ws() {
	for p.i < len(p.s) {
		switch p.s[p.i] {
		case 0x09, 0x0A, 0x0D, 0x20:
			p.i++
		default:
			return
		}
	}
}

func (p *parser) lit(word string) bool {
	if p.i+len(word) > len(p.s) {
		return false
	}
	for k := 0; k < len(word); k++ {
		if p.s[p.i+k] != uint16(word[k]) {
			return false
		}
	}
	p.i += len(word)
	return true
}

func (p *parser) value() (*TV, error) {
	if p.i >= len(p.s) {
		return nil, errSyntax
	}
	c := p.s[p.i]
	switch {
	case c == '{':
		return p.object()
	case c == '[':
		return p.array()
	case c == '"':
		s, err := p.str()
		if err != nil {
			return nil, err
		}
		return &TV{K: 's', S: s}, nil
	case c == 't':
		if p.lit("true") {
			return &TV{K: 't'}, nil
		}
	case c == 'f':
		if p.lit("false") {
			return &TV{K: 'f'}, nil
		}
	case c == 'n':
		if p.lit("null") {
			return &TV{K: 'n'}, nil
		}
	case c == '-' || (c >= '0' && c <= '9'):
		return p.number()
	}
	return nil, errSyntax
}

func isDigit(c uint16) bool { return c >= '0' && c <= '9' }

func (p *parser) number() (*TV, error) {
	v := &TV{K: '#'}
	if p.s[p.i] == '-' {
		v.Neg = true
		p.i++
	}
	if p.i >= len(p.s) || !isDigit(p.s[p.i]) {
		return nil, errSyntax
	}
	var digits strings.Builder
	if p.s[p.i] == '0' {
		digits.WriteByte('0')
		p.i++
		// a leading zero may not be followed by another digit; the caller sees the
		// digit as trailing garbage and rejects
	} else {
		for p.i < len(p.s) && isDigit(p.s[p.i]) {
			digits.WriteByte(byte(p.s[p.i]))
			p.i++
		}
	}
	frac := 0
	if p.i < len(p.s) && p.s[p.i] == '.' {
		p.i++
		if p.i >= len(p.s) || !isDigit(p.s[p.i]) {
			return nil, errSyntax
		}
		for p.i < len(p.s) && isDigit(p.s[p.i]) {
			digits.WriteByte(byte(p.s[p.i]))
			p.i++
			frac++
		}
	}
	exp := 0
	if p.i < len(p.s) && (p.s[p.i] == 'e' || p.s[p.i] == 'E') {
		p.i++
		eneg := false
		if p.i < len(p.s) && (p.s[p.i] == '+' || p.s[p.i] == '-') {
			eneg = p.s[p.i] == '-'
			p.i++
		}
		if p.i >= len(p.s) || !isDigit(p.s[p.i]) {
			return nil, errSyntax
		}
		for p.i < len(p.s) && isDigit(p.s[p.i]) {
			if exp < 100000000 {
				exp = exp*10 + int(p.s[p.i]-'0')
			}
			p.i++
		}
		if eneg {
			exp = -exp
		}
	}
	v.Digits = digits.String()
	v.Exp10 = exp - frac
	p.info.Numbers++
	if sigDigits(v.Digits) > 20 {
		p.info.LongNumber = true
	}
	f := v.Float(0)
	if f != math.Trunc(f) || math.Abs(f) > numref.MaxSafe || math.IsInf(f, 0) || (f == 0 && v.Neg) {
		p.info.UnsafeNumber = true
	}
	return v, nil
}

// sigDigits counts significant digits as defined for RoundMVResult: a digit is
// significant if it is not zero or there is a non-zero digit to its left and a
// non-zero digit to its right.
func sigDigits(d string) int {
	a, b := 0, len(d)
	for a < b && d[a] == '0' {
		a++
	}
	for b > a && d[b-1] == '0' {
		b--
	}
	return b - a
}

// Float returns the Number value of a number node. variant 0 is 𝔽(MV), the
// double nearest to the exact mathematical value. ECMA-262 RoundMVResult
// permits two more answers when the literal has more than 20 significant
// digits: variant 1 replaces every significant digit after the 20th by 0,
// variant 2 additionally increments at the 20th digit position. For literals
// with at most 20 significant digits all variants coincide.
func (v *TV) Float(variant int) float64 {
	d := v.Digits
	exp := v.Exp10
	if variant != 0 && sigDigits(d) > 20 {
		a := 0
		for a < len(d) && d[a] == '0' {
			a++
		}
		exp += len(d) - (a + 20)
		d = d[a : a+20]
		m, _ := new(big.Int).SetString(d, 10)
		if variant == 2 {
			m.Add(m, big.NewInt(1))
		}
		return numref.DecimalToFloat(v.Neg, m, exp)
	}
	m, ok := new(big.Int).SetString(d, 10)
	if !ok {
		return math.NaN()
	}
	return numref.DecimalToFloat(v.Neg, m, exp)
}

func hexVal(c uint16) int {
	switch {
	case c >= '0' && c <= '9':
		return int(c - '0')
	case c >= 'a' && c <= 'f':
		return int(c-'a') + 10
	case c >= 'A' && c <= 'F':
		return int(c-'A') + 10
	}
	return -1
}

func (p *parser) str() ([]uint16, error) {
	p.i++ // opening quote
	out := []uint16{}
	for {
		if p.i >= len(p.s) {
			return nil, errSyntax
		}
		c := p.s[p.i]
		switch {
		case c == '"':
			p.i++
			p.noteString(out)
			return out, nil
		case c < 0x20:
			return nil, errSyntax
		case c == '\\':
			p.info.Escape = true
			p.i++
			if p.i >= len(p.s) {
				return nil, errSyntax
			}
			e := p.s[p.i]
			p.i++
			switch e {
			case '"', '\\', '/':
				out = append(out, e)
			case 'b':
				out = append(out, 0x08)
			case 'f':
				out = append(out, 0x0C)
			case 'n':
				out = append(out, 0x0A)
			case 'r':
				out = append(out, 0x0D)
			case 't':
				out = append(out, 0x09)
			case 'u':
				if p.i+4 > len(p.s) {
					return nil, errSyntax
				}
				u := 0
				for k := 0; k < 4; k++ {
					h := hexVal(p.s[p.i+k])
					if h < 0 {
						return nil, errSyntax
					}
					u = u*16 + h
				}
				p.i += 4
				out = append(out, uint16(u))
			default:
				return nil, errSyntax
			}
		default:
			out = append(out, c)
			p.i++
		}
	}
}

func (p *parser) noteString(s []uint16) {
	if HasLoneSurrogate(s) {
		p.info.LoneSurrogate = true
	}
	for _, c := range s {
		if c >= 0x80 {
			p.info.NonASCII = true
			break
		}
	}
}

// HasLoneSurrogate reports whether s is not well-formed UTF-16.
func HasLoneSurrogate(s []uint16) bool {
	for i := 0; i < len(s); i++ {
		c := s[i]
		if c >= 0xD800 && c < 0xDC00 {
			if i+1 < len(s) && s[i+1] >= 0xDC00 && s[i+1] < 0xE000 {
				i++
				continue
			}
			return true
		}
		if c >= 0xDC00 && c < 0xE000 {
			return true
		}
	}
	return false
}

func (p *parser) enter() error {
	p.depth++
	if p.depth > p.info.Depth {
		p.info.Depth = p.depth
	}
	if p.depth > MaxDepth {
		return errSyntax
	}
	return nil
}

func (p *parser) array() (*TV, error) {
	if err := p.enter(); err != nil {
		return nil, err
	}
	defer func() { p.depth-- }()
	p.i++
	v := &TV{K: '[', A: []*TV{}}
	p.ws()
	if p.i < len(p.s) && p.s[p.i] == ']' {
		p.i++
		return v, nil
	}
	for {
		p.ws()
		e, err := p.value()
		if err != nil {
			return nil, err
		}
		v.A = append(v.A, e)
		p.ws()
		if p.i >= len(p.s) {
			return nil, errSyntax
		}
		switch p.s[p.i] {
		case ',':
			p.i++
		case ']':
			p.i++
			return v, nil
		default:
			return nil, errSyntax
		}
	}
}

func (p *parser) object() (*TV, error) {
	if err := p.enter(); err != nil {
		return nil, err
	}
	defer func() { p.depth-- }()
	p.i++
	v := &TV{K: '{', M: []TMember{}}
	p.ws()
	if p.i < len(p.s) && p.s[p.i] == '}' {
		p.i++
		return v, nil
	}
	for {
		p.ws()
		if p.i >= len(p.s) || p.s[p.i] != '"' {
			return nil, errSyntax
		}
		k, err := p.str()
		if err != nil {
			return nil, err
		}
		p.ws()
		if p.i >= len(p.s) || p.s[p.i] != ':' {
			return nil, errSyntax
		}
		p.i++
		p.ws()
		e, err := p.value()
		if err != nil {
			return nil, err
		}
		for _, m := range v.M {
			if eqUnits(m.Key, k) {
				p.info.DupKey = true
			}
		}
		v.M = append(v.M, TMember{Key: k, Val: e})
		p.ws()
		if p.i >= len(p.s) {
			return nil, errSyntax
		}
		switch p.s[p.i] {
		case ',':
			p.i++
		case '}':
			p.i++
			return v, nil
		default:
			return nil, errSyntax
		}
	}
}

func eqUnits(a, b []uint16) bool {
	if len(a) != len(b) {
		return false
	}
	for i := range a {
		if a[i] != b[i] {
			return false
		}
	}
	return true
}

// ToJS interprets a parse tree by the rules of JSON.parse: arrays become
// Arrays, objects are built by CreateDataProperty in source order (so a
// duplicate key keeps the position of its first occurrence and the value of
// its last, and "__proto__" is an ordinary own property). variant selects the
// RoundMVResult alternative for numbers (see TV.Float).
func (v *TV) ToJS(variant int) *JS {
	switch v.K {
	case 'n':
		return Null()
	case 't':
		return Bool(true)
	case 'f':
		return Bool(false)
	case '#':
		return Num(v.Float(variant))
	case 's':
		return Str(v.S)
	case '[':
		a := &JS{T: TArr, E: make([]*JS, 0, len(v.A))}
		for _, e := range v.A {
			a.E = append(a.E, e.ToJS(variant))
		}
		return a
	case '{':
		o := &JS{T: TObj}
		for _, m := range v.M {
			o.CreateDataProperty(m.Key, m.Val.ToJS(variant))
		}
		return o
	}
	panic("jsonref: bad tree")
}
