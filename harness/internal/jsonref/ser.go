package jsonref

import (
	"errors"
	"math"
	"strconv"

	"verifh/internal/jsx"
	"verifh/internal/numref"
)

// Replacer is the second argument of JSON.stringify.
type Replacer struct {
	Kind  string `json:"kind"`            // "none", "fn", "list", "other"
	Fn    string `json:"fn,omitempty"`    // catalogue function
	List  []*JS  `json:"list,omitempty"`  // elements of the allow-list array (nil = hole)
	Proxy bool   `json:"proxy,omitempty"` // the list array is wrapped in a Proxy
	Other *JS    `json:"other,omitempty"` // a value that is neither callable nor an array (ignored by the algorithm)
}

// Space is the third argument of JSON.stringify.
type Space struct {
	V *JS `json:"v"` // any model value; nil = argument absent
}

// Patches installs toJSON methods on built-in prototypes before the call:
// prototype name ("Object", "Array", "Number", "String", "Boolean", "BigInt",
// "Symbol", "Date", "Function") -> catalogue function, or "#5" for the
// non-callable value 5.
type Patches map[string]string

// ErrTypeError is the model's "throw a TypeError".
var ErrTypeError = errors.New("TypeError")

// ErrBudget: the model refused to continue (runaway recursion through
// functions that build new objects); the case must be discarded.
var ErrBudget = errors.New("model budget exceeded")

type serState struct {
	fn      string
	list    [][]uint16
	hasList bool
	gap     []uint16
	indent  []uint16
	stack   []*JS
	patches Patches
	log     []string
	depth   int
	steps   int
}

// Result of the model of JSON.stringify.
type SerResult struct {
	Undefined bool
	Text      []uint16
	Log       []string // entries pushed by the "log" replacer
}

// Stringify is JSON.stringify(value, replacer, space) evaluated on the model.
func Stringify(value *JS, rep *Replacer, space *Space, patches Patches) (*SerResult, error) {
	if !value.Link() {
		return nil, errors.New("bad cycle reference")
	}
	st := &serState{patches: patches}
	// 4. replacer
	if rep != nil {
		switch rep.Kind {
		case "fn":
			st.fn = rep.Fn
		case "list":
			st.hasList = true
			for _, e := range rep.List {
				if e == nil {
					continue // hole reads as undefined
				}
				var item []uint16
				ok := false
				switch e.T {
				case TStr:
					item, ok = e.S, true
				case TNum:
					item, ok = U(jsx.NumberToString(e.Num())), true
				case TBNum:
					// ToString(object): OrdinaryToPrimitive(hint string) -> Number.prototype.toString
					item, ok = U(jsx.NumberToString(e.Num())), true
				case TBStr:
					item, ok = e.S, true
				}
				if !ok {
					continue
				}
				dup := false
				for _, k := range st.list {
					if eqUnits(k, item) {
						dup = true
					}
				}
				if !dup {
					st.list = append(st.list, item)
				}
			}
		}
	}
	// 5-8. space
	if space != nil && space.V != nil {
		sv := space.V
		switch sv.T {
		case TBNum:
			sv = Num(sv.Num())
		case TBStr:
			sv = Str(sv.S)
		}
		switch sv.T {
		case TNum:
			n := numref.ToIntegerOrInfinity(sv.Num())
			if n > 10 {
				n = 10
			}
			if n >= 1 {
				for i := 0; i < int(n); i++ {
					st.gap = append(st.gap, ' ')
				}
			}
		case TStr:
			if len(sv.S) <= 10 {
				st.gap = sv.S
			} else {
				st.gap = sv.S[:10]
			}
		}
	}
	wrapper := &JS{T: TObj}
	wrapper.CreateDataProperty([]uint16{}, value)
	out, undef, err := st.property([]uint16{}, wrapper)
	if err != nil {
		return nil, err
	}
	return &SerResult{Undefined: undef, Text: out, Log: st.log}, nil
}

// protoChainToJSON finds the value of GetV(value, "toJSON") beyond own
// properties: custom prototype, patched built-in prototypes, Date's native method.
// Returns a function id, "#5" for a non-callable, or "" when undefined;
// native reports Date.prototype.toJSON.
func (st *serState) lookupToJSON(v *JS) (fn string, native bool, ownVal *JS) {
	key := U("toJSON")
	if v.T == TObj || v.T == TArr {
		if i := v.findProp(key); i >= 0 {
			return "", false, v.P[i].V.deref()
		}
	}
	chain := []string{}
	switch v.T {
	case TObj:
		if v.NullProto {
			return "", false, nil
		}
		if v.PTJ != "" {
			return v.PTJ, false, nil
		}
		chain = []string{"Object"}
	case TArr:
		chain = []string{"Array", "Object"}
	case TBNum:
		chain = []string{"Number", "Object"}
	case TBStr:
		chain = []string{"String", "Object"}
	case TBBool:
		chain = []string{"Boolean", "Object"}
	case TBBig, TBigInt:
		chain = []string{"BigInt", "Object"}
	case TBSym:
		chain = []string{"Symbol", "Object"}
	case TFunc:
		chain = []string{"Function", "Object"}
	case TDate:
		if p, ok := st.patches["Date"]; ok {
			return p, false, nil
		}
		return "", true, nil
	}
	for _, c := range chain {
		if p, ok := st.patches[c]; ok {
			return p, false, nil
		}
	}
	return "", false, nil
}

// get is Get(holder, key) on the model, including the inherited built-in
// methods an allow-list can reach.
func (st *serState) get(holder *JS, key []uint16) *JS {
	holder = holder.deref()
	if v := holder.GetOwn(key); v != nil {
		return v
	}
	if holder.T == TObj && holder.NullProto {
		return Undef()
	}
	if !holder.IsObject() {
		return Undef()
	}
	ks := GoString(key)
	if ks == "toJSON" {
		fn, native, _ := st.lookupToJSON(holder)
		if native {
			return &JS{T: TFunc, F: "@dateToJSON"}
		}
		if fn == "#5" {
			return Num(5)
		}
		if fn != "" {
			return &JS{T: TFunc, F: fn}
		}
		return Undef()
	}
	switch ks {
	case "toString", "constructor", "valueOf", "hasOwnProperty":
		return &JS{T: TFunc, F: "@builtin"}
	}
	return Undef()
}

func typeofJS(v *JS) string {
	switch v.T {
	case TUndef:
		return "undefined"
	case TNull:
		return "object"
	case TBool:
		return "boolean"
	case TNum:
		return "number"
	case TStr:
		return "string"
	case TBigInt:
		return "bigint"
	case TSym:
		return "symbol"
	case TFunc:
		return "function"
	}
	return "object"
}

func isArrayJS(v *JS) bool { return v.T == TArr }

// dateISO gives Date.prototype.toISOString for the few time values the
// generators use.
var dateISO = map[float64]string{
	0:               "1970-01-01T00:00:00.000Z",
	1e12:            "2001-09-09T01:46:40.000Z",
	-1:              "1969-12-31T23:59:59.999Z",
	8.64e15:         "+275760-09-13T00:00:00.000Z",
	-62198755200000: "-000001-01-01T00:00:00.000Z",
}

// DateValues lists the time values the model knows.
func DateValues() []float64 {
	return []float64{0, 1e12, -1, 8.64e15, -62198755200000, math.NaN()}
}

// callFn evaluates a catalogue function.
func (st *serState) callFn(id string, this *JS, key []uint16, val *JS) (*JS, error) {
	st.steps++
	if st.steps > 20000 {
		return nil, ErrBudget
	}
	this = this.deref()
	switch id {
	case "c42":
		return Num(42), nil
	case "key":
		return Str(append(U("Kstring:"), key...)), nil
	case "undef":
		return Undef(), nil
	case "self":
		o := &JS{T: TObj}
		o.CreateDataProperty(U("v"), st.get(this, U("a")))
		o.CreateDataProperty(U("k"), Str(key))
		return o, nil
	case "arr":
		return &JS{T: TArr, E: []*JS{Str(key), st.get(this, U("b"))}}, nil
	case "@dateToJSON":
		// Date.prototype.toJSON: tv = ToPrimitive(O, number); non-finite -> null; else Invoke(O, "toISOString")
		f := this.Num()
		if math.IsNaN(f) || math.IsInf(f, 0) {
			return Null(), nil
		}
		s, ok := dateISO[f]
		if !ok {
			return nil, errors.New("model: unknown date value")
		}
		return StrGo(s), nil
	case "id":
		return val, nil
	case "dropb":
		if eqUnits(key, U("b")) {
			return Undef(), nil
		}
		return val, nil
	case "dbl":
		if val.T == TNum {
			return Num(val.Num() * 2), nil
		}
		return val, nil
	case "bang":
		if val.T == TStr {
			return Str(append(append([]uint16{}, val.S...), '!')), nil
		}
		return val, nil
	case "box":
		switch val.T {
		case TNum:
			return &JS{T: TBNum, Bits: val.Bits}, nil
		case TStr:
			return &JS{T: TBStr, S: val.S}, nil
		case TBool:
			return &JS{T: TBBool, B: val.B}, nil
		}
		return val, nil
	case "wrap":
		if len(key) == 0 {
			o := &JS{T: TObj}
			o.CreateDataProperty(U("w"), val)
			return o, nil
		}
		return val, nil
	case "log":
		a := "O"
		if isArrayJS(this) {
			a = "A"
		}
		st.log = append(st.log, HexUnits(U("string:"))+HexUnits(key)+HexUnits(U(":"+a)))
		return val, nil
	case "nul2fn":
		if val.T == TNull {
			return &JS{T: TFunc}, nil
		}
		return val, nil
	case "bigfix":
		if val.T == TBigInt {
			return StrGo("big:" + val.Dec), nil
		}
		return val, nil
	case "symfix":
		if val.T == TSym {
			return StrGo("sym"), nil
		}
		return val, nil
	case "undef2null":
		if val.T == TUndef {
			return Null(), nil
		}
		return val, nil
	}
	return nil, errors.New("model: unknown function " + id)
}

// property is SerializeJSONProperty(state, key, holder).
func (st *serState) property(key []uint16, holder *JS) (text []uint16, undef bool, err error) {
	st.depth++
	defer func() { st.depth-- }()
	if st.depth > 200 {
		return nil, false, ErrBudget
	}
	// 1. value = Get(holder, key)
	value := st.get(holder, key)
	// 2. toJSON
	if value.IsObject() || value.T == TBigInt {
		if value.T == TRevoked {
			return nil, false, ErrTypeError // [[Get]] on a revoked proxy
		}
		fn, native, own := st.lookupToJSON(value)
		if own != nil {
			fn = ""
			if own.T == TFunc {
				fn = own.F
				if fn == "" {
					// function(){} -> returns undefined
					fn = "undef"
				}
			}
		}
		if native {
			fn = "@dateToJSON"
		}
		if fn != "" && fn != "#5" {
			value, err = st.callFn(fn, value, key, nil)
			if err != nil {
				return nil, false, err
			}
		}
	}
	// 3. replacer function
	if st.fn != "" {
		value, err = st.callFn(st.fn, holder, key, value)
		if err != nil {
			return nil, false, err
		}
	}
	value = value.deref()
	// 4. unwrap primitive wrapper objects
	switch value.T {
	case TBNum:
		value = Num(value.Num())
	case TBStr:
		value = Str(value.S)
	case TBBool:
		value = Bool(value.B)
	case TBBig:
		value = &JS{T: TBigInt, Dec: value.Dec}
	}
	switch value.T {
	case TNull:
		return U("null"), false, nil
	case TBool:
		if value.B {
			return U("true"), false, nil
		}
		return U("false"), false, nil
	case TStr:
		return Quote(value.S), false, nil
	case TNum:
		f := value.Num()
		if math.IsNaN(f) || math.IsInf(f, 0) {
			return U("null"), false, nil
		}
		return U(jsx.NumberToString(f)), false, nil
	case TBigInt:
		return nil, false, ErrTypeError
	case TRevoked:
		// IsArray(revoked proxy) throws
		return nil, false, ErrTypeError
	case TObj, TBSym, TDate:
		t, err := st.object(value)
		return t, false, err
	case TArr:
		t, err := st.array(value)
		return t, false, err
	}
	// undefined, symbols, functions
	return nil, true, nil
}

// Quote is QuoteJSONString.
func Quote(s []uint16) []uint16 {
	const h = "0123456789abcdef"
	out := make([]uint16, 0, len(s)+2)
	out = append(out, '"')
	esc := func(c uint16) {
		out = append(out, '\\', 'u', uint16(h[c>>12]), uint16(h[(c>>8)&15]), uint16(h[(c>>4)&15]), uint16(h[c&15]))
	}
	for i := 0; i < len(s); i++ {
		c := s[i]
		switch {
		case c == 0x08:
			out = append(out, '\\', 'b')
		case c == 0x09:
			out = append(out, '\\', 't')
		case c == 0x0A:
			out = append(out, '\\', 'n')
		case c == 0x0C:
			out = append(out, '\\', 'f')
		case c == 0x0D:
			out = append(out, '\\', 'r')
		case c == '"':
			out = append(out, '\\', '"')
		case c == '\\':
			out = append(out, '\\', '\\')
		case c < 0x20:
			esc(c)
		case c >= 0xD800 && c < 0xDC00:
			if i+1 < len(s) && s[i+1] >= 0xDC00 && s[i+1] < 0xE000 {
				out = append(out, c, s[i+1])
				i++
			} else {
				esc(c)
			}
		case c >= 0xDC00 && c < 0xE000:
			esc(c)
		default:
			out = append(out, c)
		}
	}
	return append(out, '"')
}

func (st *serState) enter(v *JS) error {
	for _, o := range st.stack {
		if o == v {
			return ErrTypeError
		}
	}
	st.stack = append(st.stack, v)
	return nil
}

// object is SerializeJSONObject.
func (st *serState) object(value *JS) ([]uint16, error) {
	if err := st.enter(value); err != nil {
		return nil, err
	}
	stepback := st.indent
	st.indent = append(append([]uint16{}, st.indent...), st.gap...)
	var keys [][]uint16
	if st.hasList {
		keys = st.list
	} else if value.T == TObj {
		keys = value.OwnKeys(true)
	}
	var partial [][]uint16
	for _, p := range keys {
		s, undef, err := st.property(p, value)
		if err != nil {
			return nil, err
		}
		if undef {
			continue
		}
		m := Quote(p)
		m = append(m, ':')
		if len(st.gap) > 0 {
			m = append(m, ' ')
		}
		partial = append(partial, append(m, s...))
	}
	out := st.wrap('{', '}', partial, stepback)
	st.stack = st.stack[:len(st.stack)-1]
	st.indent = stepback
	return out, nil
}

func (st *serState) wrap(open, close uint16, partial [][]uint16, stepback []uint16) []uint16 {
	out := []uint16{open}
	if len(partial) == 0 {
		return append(out, close)
	}
	if len(st.gap) == 0 {
		for i, p := range partial {
			if i > 0 {
				out = append(out, ',')
			}
			out = append(out, p...)
		}
		return append(out, close)
	}
	out = append(out, '\n')
	out = append(out, st.indent...)
	for i, p := range partial {
		if i > 0 {
			out = append(out, ',', '\n')
			out = append(out, st.indent...)
		}
		out = append(out, p...)
	}
	out = append(out, '\n')
	out = append(out, stepback...)
	return append(out, close)
}

// array is SerializeJSONArray.
func (st *serState) array(value *JS) ([]uint16, error) {
	if err := st.enter(value); err != nil {
		return nil, err
	}
	stepback := st.indent
	st.indent = append(append([]uint16{}, st.indent...), st.gap...)
	var partial [][]uint16
	for i := 0; i < len(value.E); i++ {
		s, undef, err := st.property(U(strconv.Itoa(i)), value)
		if err != nil {
			return nil, err
		}
		if undef {
			s = U("null")
		}
		partial = append(partial, s)
	}
	out := st.wrap('[', ']', partial, stepback)
	st.stack = st.stack[:len(st.stack)-1]
	st.indent = stepback
	return out, nil
}
