package jsonref

import (
	"errors"
	"strconv"
)

// ReviveResult is the outcome of JSON.parse(text, reviver) on the model.
type ReviveResult struct {
	Value *JS
	Log   []string // entries pushed by the "rlog" reviver (hex code units)
}

type revState struct {
	fn    string
	log   []string
	steps int
}

// NonCallableRevivers are second arguments of JSON.parse that are not callable
// and therefore ignored; the map value is the JavaScript expression.
var NonCallableRevivers = map[string]string{
	"@null": "null", "@num": "5", "@obj": "({})", "@str": `"x"`, "@undefined": "undefined", "@arr": "[]", "@true": "true",
}

// Revive applies step "If IsCallable(reviver)" of JSON.parse to an
// already-built unfiltered value: root = {"": unfiltered};
// return InternalizeJSONProperty(root, "", reviver).
func Revive(unfiltered *JS, fn string) (*ReviveResult, error) {
	if _, nc := NonCallableRevivers[fn]; nc {
		return &ReviveResult{Value: unfiltered}, nil
	}
	st := &revState{fn: fn}
	root := &JS{T: TObj}
	root.CreateDataProperty([]uint16{}, unfiltered)
	v, err := st.internalize(root, []uint16{})
	if err != nil {
		return nil, err
	}
	return &ReviveResult{Value: v, Log: st.log}, nil
}

func getForRevive(holder *JS, key []uint16) *JS {
	if v := holder.GetOwn(key); v != nil {
		return v
	}
	return Undef()
}

// internalize is InternalizeJSONProperty(holder, name, reviver).
func (st *revState) internalize(holder *JS, name []uint16) (*JS, error) {
	val := getForRevive(holder, name)
	if val.T == TArr {
		n := len(val.E) // LengthOfArrayLike, read once
		for i := 0; i < n; i++ {
			prop := U(strconv.Itoa(i))
			ne, err := st.internalize(val, prop)
			if err != nil {
				return nil, err
			}
			if ne.T == TUndef {
				val.Delete(prop)
			} else {
				val.CreateDataProperty(prop, ne)
			}
		}
	} else if val.T == TObj {
		keys := val.OwnKeys(true) // EnumerableOwnProperties(val, key), taken once
		for _, p := range keys {
			ne, err := st.internalize(val, p)
			if err != nil {
				return nil, err
			}
			if ne.T == TUndef {
				val.Delete(p)
			} else {
				val.CreateDataProperty(p, ne)
			}
		}
	}
	return st.call(holder, name, val)
}

func isObjNotNull(v *JS) bool { return v.T == TObj || v.T == TArr }

func (st *revState) freezeSiblings(this *JS, k []uint16) {
	ks := GoString(k)
	if ks == "a" || ks == "0" {
		if b := getForRevive(this, U("b")); isObjNotNull(b) {
			b.Frozen = true
		}
	}
	if ks == "0" {
		if b := getForRevive(this, U("1")); isObjNotNull(b) {
			b.Frozen = true
		}
	}
}

func (st *revState) call(this *JS, k []uint16, v *JS) (*JS, error) {
	st.steps++
	if st.steps > 100000 {
		return nil, ErrBudget
	}
	ks := GoString(k)
	isA := this.T == TArr
	switch st.fn {
	case "id":
		return v, nil
	case "undef":
		return Undef(), nil
	case "dropb":
		if ks == "b" {
			return Undef(), nil
		}
		return v, nil
	case "rlog":
		a := ":O="
		if isA {
			a = ":A="
		}
		st.log = append(st.log, HexUnits(U("string:"))+HexUnits(k)+HexUnits(U(a+v.Dump())))
		return v, nil
	case "inc":
		if v.T == TNum {
			return Num(v.Num() + 1), nil
		}
		return v, nil
	case "addsib":
		if ks == "a" {
			// this.zz = 7 (ordinary [[Set]]: fails silently on a frozen object in sloppy mode)
			this.CreateDataProperty(U("zz"), Num(7))
		}
		if ks == "0" && isA {
			this.CreateDataProperty(U(strconv.Itoa(len(this.E))), Num(9))
		}
		return v, nil
	case "delsib":
		if ks == "a" {
			this.Delete(U("b"))
		}
		if ks == "0" && isA {
			this.Delete(U("1"))
		}
		return v, nil
	case "replsib":
		if ks == "a" {
			o := &JS{T: TObj}
			o.CreateDataProperty(U("n"), &JS{T: TArr, E: []*JS{Num(1), Num(2)}})
			o.CreateDataProperty(U("a"), Num(3))
			this.CreateDataProperty(U("b"), o)
		}
		return v, nil
	case "hidsib", "arrx":
		if ks == "a" {
			var o *JS
			if st.fn == "hidsib" {
				o = &JS{T: TObj}
				o.CreateDataProperty(U("n"), Num(1))
				o.P = append(o.P, &Prop{K: U("hid"), V: Num(5), NonEnum: true})
			} else {
				o = &JS{T: TArr, E: []*JS{Num(1), Num(2)}}
				o.P = append(o.P, &Prop{K: U("x"), V: Num(3)})
			}
			this.CreateDataProperty(U("b"), o)
		}
		if v.T == TNum {
			return Num(v.Num() + 1), nil
		}
		return v, nil
	case "trunc", "trunc0":
		if ks == "0" && isA {
			this.SetLength(1)
		}
		if st.fn == "trunc0" && v.T == TUndef {
			return Num(0), nil
		}
		return v, nil
	case "numwrap":
		if v.T == TNum {
			o := &JS{T: TObj}
			o.CreateDataProperty(U("n"), v)
			return o, nil
		}
		return v, nil
	case "frzinc":
		st.freezeSiblings(this, k)
		if v.T == TNum {
			return Num(v.Num() + 1), nil
		}
		return v, nil
	case "frzdel":
		st.freezeSiblings(this, k)
		if v.T == TNum {
			return Undef(), nil
		}
		return v, nil
	}
	return nil, errors.New("model: unknown reviver " + st.fn)
}

// Revivers lists the callable reviver catalogue.
var Revivers = []string{"id", "undef", "dropb", "rlog", "inc", "addsib", "delsib", "replsib", "trunc", "trunc0", "numwrap", "frzinc", "frzdel", "hidsib", "arrx"}
